(** C12 - the round-trip laws of the mesh life cycle, proved of Model/C12_MeshLife.v with the three
    repairs in ([fixed]), for every table of side corners / wire pairs and every model. *)
From Coq Require Import List Bool Arith ZArith Lia.
From CB Require Model.Propagate Model.C12_Regrade Proofs.PropagateBasics Proofs.PropagateTerm Proofs.PropagateInv Proofs.PropagateFinal Proofs.C12_Regrade.
From CB Require Import Model.C12_MeshLife Proofs.C12_Lists.
Import ListNotations.

(** a mesh whose lists are empty; the patch table holds what modify_patch put there and nothing else *)
Definition clean (s : st) : Prop :=
  verts s = [] /\ blocks s = [] /\ Forall (fun p => p_mod p = true /\ p_sides p = []) (patches s).

Lemma with_lists_same s : with_lists s (verts s) (blocks s) (patches s) = s.
Proof. destruct s; reflexivity. Qed.
Lemma with_ops_same s : with_ops s (ops s) = s.
Proof. destruct s; reflexivity. Qed.
Lemma with_rank_same s : with_rank s (prank s) = s.
Proof. destruct s; reflexivity. Qed.

(** * PatchList.rank *)
Lemma mem_in n l : mem n l = true <-> In n l.
Proof.
  unfold mem. rewrite existsb_exists. split.
  - intros [x [Hx E]]. apply Nat.eqb_eq in E. subst. exact Hx.
  - intro H. exists n. split; [exact H|apply Nat.eqb_refl].
Qed.

Lemma rank_add_mono r n m : mem m r = true -> mem m (rank_add r n) = true.
Proof.
  unfold rank_add. destruct (mem n r); [auto|]. intro H. apply mem_in. apply in_app_iff. left. apply mem_in. exact H.
Qed.

Lemma rank_add_in r n : mem n (rank_add r n) = true.
Proof.
  unfold rank_add. destruct (mem n r) eqn:E; [exact E|]. apply mem_in. apply in_app_iff. right. left. reflexivity.
Qed.

Lemma rank_add_known r n : mem n r = true -> rank_add r n = r.
Proof. unfold rank_add. intro H. rewrite H. reflexivity. Qed.

Definition rank_step (ps0 : list pat) (r : list nat) (n : nat) : list nat :=
  if has_patch ps0 n then r else rank_add r n.

Lemma rank_fold_mono ps0 ns : forall r m, mem m r = true -> mem m (fold_left (rank_step ps0) ns r) = true.
Proof.
  induction ns as [|n ns IH]; intros r m H; simpl; [exact H|]. apply IH. unfold rank_step.
  destruct (has_patch ps0 n); [exact H|apply rank_add_mono; exact H].
Qed.

Lemma rank_fold_covers ps0 ns : forall r n, In n ns -> has_patch ps0 n = false ->
  mem n (fold_left (rank_step ps0) ns r) = true.
Proof.
  induction ns as [|a ns IH]; intros r n Hin Hp; [destruct Hin|]. simpl. destruct Hin as [E|Hin].
  - subst a. apply rank_fold_mono. unfold rank_step. rewrite Hp. apply rank_add_in.
  - apply IH; assumption.
Qed.

Lemma rank_fold_fix ps0 ns : forall r,
  (forall n, In n ns -> has_patch ps0 n = true \/ mem n r = true) -> fold_left (rank_step ps0) ns r = r.
Proof.
  induction ns as [|a ns IH]; intros r H; simpl; [reflexivity|].
  assert (E : rank_step ps0 r a = r).
  { unfold rank_step. destruct (H a (or_introl eq_refl)) as [X|X]; [rewrite X; reflexivity|].
    destruct (has_patch ps0 a); [reflexivity|apply rank_add_known; exact X]. }
  rewrite E. apply IH. intros n Hn. apply H. right. exact Hn.
Qed.

Lemma asm_rank_eq ps0 l r : asm_rank ps0 l r = fold_left (rank_step ps0) (flat_map (fun ko => op_names (snd ko)) l) r.
Proof. reflexivity. Qed.

(** a second pass over the same operations ranks nothing new *)
Lemma asm_rank_idem ps0 l r : asm_rank ps0 l (asm_rank ps0 l r) = asm_rank ps0 l r.
Proof.
  rewrite !asm_rank_eq. apply rank_fold_fix. intros n Hn.
  destruct (has_patch ps0 n) eqn:E; [left; reflexivity|right]. apply rank_fold_covers; assumption.
Qed.

Lemma clear_clean s : clean (clear fixed s).
Proof. unfold clean, clear. simpl. repeat split. apply mods_are_clean. Qed.

(** * what assemble builds *)
Definition built (V : list vtx) (b : blk) (ko : nat * op) : Prop :=
  b_src b = fst ko /\ b_chops b = o_chops (snd ko) /\ (b_wg b = [] /\ b_ax b = []) /\ length (b_verts b) = 8
  /\ Forall (fun i => i < length V) (b_verts b) /\ geo V (b_verts b) = pts8 (snd ko).

Lemma reqs_fst sl o : map fst (reqs sl o) = pts8 o.
Proof. unfold reqs, pts8. rewrite map_map. reflexivity. Qed.

Lemma built_app V ext b ko : built V b ko -> built (V ++ ext) b ko.
Proof.
  intros [H1 [H2 [[H3 H3'] [H4 [H5 H6]]]]]. repeat split; try assumption.
  - apply Forall_lt_app. exact H5.
  - rewrite geo_app by exact H5. exact H6.
Qed.

Lemma asm_op_eq tb sl V B P ko :
  asm_op tb sl (V, B, P) ko =
  let '(V', idx) := add_many V (reqs sl (snd ko)) in
  (V', B ++ [{| b_src := fst ko; b_verts := idx; b_chops := o_chops (snd ko); b_wg := []; b_ax := [] |}],
   add_op_patches tb P (snd ko) idx).
Proof. reflexivity. Qed.

Lemma asm_all_spec tb sl l : forall V B P V' B' P',
  asm_all tb sl l (V, B, P) = (V', B', P') ->
  (exists ext, V' = V ++ ext)
  /\ (exists Bn, B' = B ++ Bn /\ Forall2 (built V') Bn l)
  /\ mods P' = mods P
  /\ (forall n k st, modded P n k st -> modded P' n k st).
Proof.
  induction l as [|ko r IH]; intros V B P V' B' P' H.
  - simpl in H. inversion H. subst. split; [exists []; rewrite app_nil_r; reflexivity|].
    split; [exists []; rewrite app_nil_r; split; [reflexivity|constructor]|]. split; [reflexivity|auto].
  - change (asm_all tb sl (ko :: r) (V, B, P)) with (asm_all tb sl r (asm_op tb sl (V, B, P) ko)) in H.
    rewrite asm_op_eq in H. destruct (add_many V (reqs sl (snd ko))) as [V1 idx] eqn:A.
    apply IH in H. destruct H as [[e2 HV] [[Bn [HB HF]] [HP HM]]].
    destruct (add_many_spec _ _ _ _ A) as [[e1 H1] [Hl Hg]].
    split; [exists (e1 ++ e2); rewrite HV, H1, app_assoc; reflexivity|].
    split.
    + eexists. split; [rewrite HB, <- app_assoc; reflexivity|].
      constructor; [|exact HF]. rewrite HV. apply built_app.
      repeat split; simpl; try reflexivity; try assumption.
      apply (f_equal (@length pos)) in Hg. unfold geo in Hg. rewrite !map_length in Hg. exact Hg.
    + split; [rewrite HP; apply mods_add_op_patches|].
      intros n k st Hm. apply HM. apply modded_add_op_patches. exact Hm.
Qed.

Lemma assemble_user tb s :
  depot (assemble tb s) = depot s /\ ops (assemble tb s) = ops s /\ deleted (assemble tb s) = deleted s
  /\ dflt (assemble tb s) = dflt s /\ merged (assemble tb s) = merged s.
Proof. unfold assemble. destruct (asm_all _ _ _ _) as [[V B] P]. simpl. auto. Qed.

(** clear undoes assemble: nothing assemble creates survives, nothing else is lost; the ranks given to the
    new names are kept (they place the patches of the next assembly) *)
Lemma assemble_patches_rank tb c :
  prank (assemble tb c) = asm_rank (patches c) (live_ops c) (prank c).
Proof. unfold assemble. destruct (asm_all _ _ _ _) as [[V B] P]. reflexivity. Qed.

Lemma clear_assemble_id tb c : clean c -> clear fixed (assemble tb c) = with_rank c (prank (assemble tb c)).
Proof.
  intros [Hv [Hb Hp]]. rewrite assemble_patches_rank. unfold assemble.
  destruct (asm_all tb (slaves c) (live_ops c) (verts c, blocks c, patches c)) as [[V B] P] eqn:A.
  apply asm_all_spec in A. destruct A as [_ [_ [HP _]]].
  unfold clear. simpl. rewrite clear_patches_fixed, HP, (mods_clean _ Hp).
  destruct c; simpl in *; subst; reflexivity.
Qed.

Lemma assemble_with_rank tb c :
  assemble tb (with_rank c (prank (assemble tb c))) = assemble tb c.
Proof.
  rewrite assemble_patches_rank. unfold assemble. simpl.
  change (live_ops (with_rank c (asm_rank (patches c) (live_ops c) (prank c)))) with (live_ops c).
  change (slaves (with_rank c (asm_rank (patches c) (live_ops c) (prank c)))) with (slaves c).
  destruct (asm_all tb (slaves c) (live_ops c) (verts c, blocks c, patches c)) as [[V B] P].
  unfold with_rank, with_lists. simpl. rewrite asm_rank_idem. reflexivity.
Qed.

Theorem clear_assemble tb c : clean c -> assemble tb (clear fixed (assemble tb c)) = assemble tb c.
Proof. intro H. rewrite clear_assemble_id by exact H. apply assemble_with_rank. Qed.

(** for any state at all, clear gives a clean state with the same user data and the same patch
    types and settings; so what is assembled after a clear is a first assembly *)
Theorem clear_keeps_user s :
  clean (clear fixed s) /\ depot (clear fixed s) = depot s /\ ops (clear fixed s) = ops s
  /\ deleted (clear fixed s) = deleted s /\ dflt (clear fixed s) = dflt s /\ merged (clear fixed s) = merged s
  /\ (forall n k st, modded (patches s) n k st -> modded (patches (clear fixed s)) n k st).
Proof.
  split; [apply clear_clean|]. unfold clear. simpl. repeat split. intros n k st H.
  rewrite clear_patches_fixed. apply modded_mods. exact H.
Qed.

(** * geometric content of an assembled mesh *)
Definition geo_blocks (s : st) : list (nat * list pos * list (list nat)) :=
  map (fun b => (b_src b, geo (verts s) (b_verts b), b_chops b)) (blocks s).
Definition spec_blocks (l : list (nat * op)) : list (nat * list pos * list (list nat)) :=
  map (fun ko => (fst ko, pts8 (snd ko), o_chops (snd ko))) l.

Lemma built_map V Bn l :
  Forall2 (built V) Bn l ->
  map (fun b => (b_src b, geo V (b_verts b), b_chops b)) Bn = spec_blocks l.
Proof.
  induction 1 as [|b ko Bn l [H1 [H2 [_ [_ [_ H6]]]]] _ IH]; simpl; [reflexivity|].
  rewrite H1, H2, H6. f_equal. exact IH.
Qed.

Theorem assemble_geo tb c : clean c -> geo_blocks (assemble tb c) = spec_blocks (live_ops c).
Proof.
  intros [Hv [Hb _]]. unfold assemble, geo_blocks.
  destruct (asm_all tb (slaves c) (live_ops c) (verts c, blocks c, patches c)) as [[V B] P] eqn:A.
  apply asm_all_spec in A. destruct A as [_ [[Bn [HB HF]] _]]. simpl.
  rewrite HB, Hb. simpl. apply built_map. exact HF.
Qed.

(** * delete *)
Definition delete_op (s : st) (x : nat) : st := with_user s (depot s) (x :: deleted s) (dflt s) (merged s).

Lemma live_ops_delete s x :
  live_ops (delete_op s x) = filter (fun ko => negb (fst ko =? x)) (live_ops s).
Proof.
  unfold live_ops, live. simpl. induction (depot s) as [|k r IH]; simpl; [reflexivity|].
  destruct (k =? x) eqn:E; simpl.
  - destruct (mem k (deleted s)); simpl; [exact IH|].
    destruct (get_op (ops s) k); simpl; [rewrite E; simpl|]; exact IH.
  - destruct (mem k (deleted s)); simpl; [exact IH|].
    destruct (get_op (ops s) k); simpl; [rewrite E; simpl; f_equal|]; exact IH.
Qed.

Lemma clean_delete s x : clean s -> clean (delete_op s x).
Proof. intros [A [B C]]. repeat split; assumption. Qed.

Theorem delete_frame tb c x :
  clean c ->
  geo_blocks (assemble tb (delete_op c x))
  = filter (fun t => negb (fst (fst t) =? x)) (geo_blocks (assemble tb c)).
Proof.
  intro H. rewrite !assemble_geo by (try apply clean_delete; exact H).
  rewrite live_ops_delete. unfold spec_blocks.
  induction (live_ops c) as [|ko r IH]; simpl; [reflexivity|].
  destruct (fst ko =? x); simpl; [|f_equal]; exact IH.
Qed.

(** * write is idempotent *)
Lemma imap_map {A B C} (h : B -> C) (f : nat -> A -> B) l : forall i,
  map h (imap f i l) = imap (fun j a => h (f j a)) i l.
Proof. induction l as [|a l IH]; intro i; simpl; [reflexivity|]. rewrite IH. reflexivity. Qed.

Lemma imap_imap {A B C} (f : nat -> B -> C) (h : nat -> A -> B) l : forall i,
  imap f i (imap h i l) = imap (fun j a => f j (h j a)) i l.
Proof. induction l as [|a l IH]; intro i; simpl; [reflexivity|]. rewrite IH. reflexivity. Qed.

Lemma imap_ext_in {A B} (f f' : nat -> A -> B) l : forall i,
  (forall j a, i <= j < i + length l -> f j a = f' j a) -> imap f i l = imap f' i l.
Proof.
  induction l as [|a l IH]; intros i H; simpl; [reflexivity|]. f_equal.
  - apply H. simpl. lia.
  - apply IH. intros j b Hj. apply H. simpl. lia.
Qed.

Lemma imap_snd {A B} (h : A -> B) l : forall i, imap (fun _ a => h a) i l = map h l.
Proof. induction l as [|a l IH]; intro i; simpl; [reflexivity|]. rewrite IH. reflexivity. Qed.

Lemma imap_idx {A B} (h : nat -> B) (l : list A) : forall i, imap (fun j _ => h j) i l = map h (seq i (length l)).
Proof. induction l as [|a l IH]; intro i; simpl; [reflexivity|]. rewrite IH. reflexivity. Qed.

Lemma pblk_store p B : map pblk (store_gr p B) = map pblk B.
Proof. unfold store_gr. rewrite imap_map. apply (imap_snd pblk). Qed.

Lemma wg_store p B : map b_wg (store_gr p B) = map (C12_Regrade.tab_g p) (seq 0 (length B)).
Proof. unfold store_gr. rewrite imap_map. apply (imap_idx (C12_Regrade.tab_g p)). Qed.

Lemma ax_store p B :
  map b_ax (store_gr p B) = map (C12_Regrade.tab_a (map pblk B) p) (seq 0 (length B)).
Proof. unfold store_gr. rewrite imap_map. apply (imap_idx (C12_Regrade.tab_a (map pblk B) p)). Qed.

Lemma nth_map_seq {A} (f : nat -> A) n b d : b < n -> nth b (map f (seq 0 n)) d = f b.
Proof.
  intro H. rewrite (nth_indep _ d (f 0)) by (rewrite map_length, seq_length; exact H).
  rewrite map_nth, seq_nth by exact H. reflexivity.
Qed.

Lemma vw_bounds bs w : PropagateInv.vw bs w <->
  fst (fst w) < Propagate.nblocks bs /\ snd (fst w) < 3 /\ snd w < 4.
Proof.
  unfold PropagateInv.vw. rewrite PropagateBasics.in_all_wires, PropagateBasics.in_all_axes.
  destruct w as [[b a] k]. simpl. tauto.
Qed.

(** reading the finite form back gives the gradings of every wire of the mesh *)
Lemma untab_tab_g bs p A :
  C12_Regrade.eqin bs (C12_Regrade.untab bs (map (C12_Regrade.tab_g p) (seq 0 (Propagate.nblocks bs))) A) p.
Proof.
  intros w Vw. apply vw_bounds in Vw. destruct w as [[b a] k]. simpl in Vw. destruct Vw as (Hb & Ha & Hk).
  simpl. apply Nat.ltb_lt in Ha as Ha'. apply Nat.ltb_lt in Hk as Hk'. rewrite Ha', Hk'. simpl.
  rewrite nth_map_seq by exact Hb.
  destruct a as [|[|[|a]]]; [| | |lia]; destruct k as [|[|[|[|k]]]]; try lia; reflexivity.
Qed.

Lemma tab_g_eqin bs s t b : C12_Regrade.eqin bs s t -> b < Propagate.nblocks bs ->
  C12_Regrade.tab_g s b = C12_Regrade.tab_g t b.
Proof.
  intros E Hb. unfold C12_Regrade.tab_g. apply map_ext_in. intros w Hw. apply E.
  unfold C12_Regrade.block_wires in Hw. apply in_flat_map in Hw. destruct Hw as [x [Hx Hw]].
  apply (PropagateInv.vw_of_axis bs x w); [|exact Hw].
  apply PropagateBasics.in_axes_of_block in Hx. apply PropagateBasics.in_all_axes. lia.
Qed.

Lemma tab_a_untab bs p G t b :
  Propagate.ach t = Propagate.ach (C12_Regrade.untab bs G (map (C12_Regrade.tab_a bs p) (seq 0 (Propagate.nblocks bs)))) ->
  b < Propagate.nblocks bs -> C12_Regrade.tab_a bs t b = C12_Regrade.tab_a bs p b.
Proof.
  intros E Hb. unfold C12_Regrade.tab_a. apply map_ext_in. intros x Hx.
  destruct (Propagate.chopped bs x) eqn:C; [reflexivity|]. rewrite E. simpl. rewrite C.
  apply PropagateBasics.in_axes_of_block in Hx. destruct x as [b' a]. simpl in Hx. destruct Hx as [-> Ha]. simpl.
  rewrite nth_map_seq by exact Hb. unfold C12_Regrade.tab_a.
  destruct a as [|[|[|a]]]; [| | |lia]; simpl; rewrite C; reflexivity.
Qed.

Lemma write_shape orc c tb s s' ev :
  write_with orc c tb s = Ok s' ev ->
  exists p, is_assembled (if is_assembled s then s else assemble tb s) = true
    /\ s' = with_lists (if is_assembled s then s else assemble tb s)
                       (verts (if is_assembled s then s else assemble tb s))
                       (store_gr p (blocks (if is_assembled s then s else assemble tb s)))
                       (patches (if is_assembled s then s else assemble tb s)).
Proof.
  unfold write_with. set (s1 := if is_assembled s then s else assemble tb s). intro H.
  destruct (is_assembled s1) eqn:A; simpl in H; [|discriminate].
  destruct (grade_cfg _ _ _ _ _) as [p| | | |]; try discriminate.
  inversion H. exists p. auto.
Qed.

(** the code BEFORE fixes/C12-4.diff (grade did not reset, [before_reset]): for count-only chops a second write
    nevertheless gave the same file and left the same state - the second run re-wrote every wire with the value
    it had (C12_Regrade.grade_twice); this is why the stale state only showed with expansions / moved vertices *)
Theorem write_with_idempotent_before_reset orc tb s s2 ev :
  write_with orc before_reset tb s = Ok s2 ev -> write_with orc before_reset tb s2 = Ok s2 ev.
Proof.
  unfold write_with, grade_cfg. cbv zeta. cbn [fx_reset fx_grade before_reset].
  set (s1 := if is_assembled s then s else assemble tb s).
  destruct (is_assembled s1) eqn:A; simpl; [|discriminate].
  set (B := blocks s1). set (bs := map pblk B).
  destruct (C12_Regrade.grade_no_reset bs (fst (orc bs)) (snd (orc bs)) true (gstate B)) as [p| | | |] eqn:G;
    try discriminate.
  intro H. inversion H as [[Hs He]]. clear H.
  set (B2 := store_gr p B).
  set (s2' := with_lists s1 (verts s1) B2 (patches s1)).
  assert (A2 : is_assembled s2' = true) by exact A.
  rewrite A2. cbn [negb].
  change (blocks s2') with B2. change (verts s2') with (verts s1). change (patches s2') with (patches s1).
  assert (Ebs : map pblk B2 = bs) by apply pblk_store. rewrite Ebs.
  assert (Hn : Propagate.nblocks bs = length B) by (unfold bs, Propagate.nblocks; apply map_length).
  (* the state read back from the blocks *)
  set (t2 := gstate B2).
  assert (Et2 : t2 = C12_Regrade.untab bs (map (C12_Regrade.tab_g p) (seq 0 (Propagate.nblocks bs)))
                       (map (C12_Regrade.tab_a bs p) (seq 0 (Propagate.nblocks bs)))).
  { unfold t2, gstate. rewrite Ebs. unfold B2. rewrite wg_store, ax_store, Hn. reflexivity. }
  assert (E2 : C12_Regrade.eqin bs t2 p) by (rewrite Et2; apply untab_tab_g).
  pose proof (C12_Regrade.first_run_stable _ _ _ _ _ G) as Sp.
  pose proof (C12_Regrade.stable_eqin bs t2 p Sp E2) as St2.
  pose proof (C12_Regrade.grade_ok_oracle _ _ _ _ _ _ G) as K.
  destruct (C12_Regrade.regrade_fix bs (fst (orc bs)) (snd (orc bs)) t2 St2 K) as (t' & G' & E' & A').
  rewrite G'.
  assert (Est : store_gr t' B2 = B2).
  { transitivity (imap (fun i b => {| b_src := b_src b; b_verts := b_verts b; b_chops := b_chops b;
                                      b_wg := C12_Regrade.tab_g t' i; b_ax := C12_Regrade.tab_a bs t' i |}) 0 B2).
    { unfold store_gr. rewrite Ebs. reflexivity. }
    unfold B2, store_gr. rewrite imap_imap. apply imap_ext_in.
    intros j b Hj. simpl. simpl in Hj. fold bs.
    assert (j < Propagate.nblocks bs) as Hb by lia.
    f_equal.
    - apply (tab_g_eqin bs); [|exact Hb]. intros w Vw. rewrite (E' w Vw). apply E2. exact Vw.
    - apply (tab_a_untab bs p (map (C12_Regrade.tab_g p) (seq 0 (Propagate.nblocks bs)))); [|exact Hb].
      rewrite A', Et2. reflexivity. }
  rewrite Est, A2. reflexivity.
Qed.

(** the REPAIRED code: grade resets first, so its result does not depend on what the blocks hold; a second
    write gives the same file and leaves the same state - every block list (chopped by the user or by
    propagation), every order of coincident wires / neighbour axes, every state before the first write *)
Lemma store_gr_twice p B : store_gr p (store_gr p B) = store_gr p B.
Proof.
  transitivity (imap (fun i b => {| b_src := b_src b; b_verts := b_verts b; b_chops := b_chops b;
                                    b_wg := C12_Regrade.tab_g p i;
                                    b_ax := C12_Regrade.tab_a (map pblk B) p i |}) 0 (store_gr p B)).
  { unfold store_gr at 1. rewrite pblk_store. reflexivity. }
  unfold store_gr. rewrite imap_imap. apply imap_ext_in. intros j b _. reflexivity.
Qed.

Theorem write_with_idempotent orc tb s s2 ev :
  write_with orc fixed tb s = Ok s2 ev -> write_with orc fixed tb s2 = Ok s2 ev.
Proof.
  unfold write_with, grade_cfg. cbv zeta. cbn [fx_reset fixed].
  set (s1 := if is_assembled s then s else assemble tb s).
  destruct (is_assembled s1) eqn:A; simpl; [|discriminate].
  set (B := blocks s1). set (bs := map pblk B).
  destruct (C12_Regrade.grade bs (fst (orc bs)) (snd (orc bs)) (gstate B)) as [p| | | |] eqn:G; try discriminate.
  intro H. inversion H as [[Hs He]]. clear H.
  set (B2 := store_gr p B).
  set (s2' := with_lists s1 (verts s1) B2 (patches s1)).
  assert (A2 : is_assembled s2' = true) by exact A.
  rewrite A2. cbn [negb].
  change (blocks s2') with B2. change (verts s2') with (verts s1). change (patches s2') with (patches s1).
  assert (Ebs : map pblk B2 = bs) by apply pblk_store. rewrite Ebs.
  (* the reset: what the blocks hold is irrelevant *)
  rewrite (C12_Regrade.grade_state_independent bs (fst (orc bs)) (snd (orc bs)) (gstate B2) (gstate B)), G.
  unfold B2. rewrite store_gr_twice. fold B2. rewrite A2. reflexivity.
Qed.

Theorem write_idempotent tb s s2 ev :
  write fixed tb s = Ok s2 ev -> write fixed tb s2 = Ok s2 ev.
Proof. apply write_with_idempotent. Qed.

(** what a write computes does not depend on the gradings the blocks hold (earlier writes, vertices moved in
    between - positions are no input of grade in this model): replacing them by anything gives the same outcome *)
Definition with_gradings (s : st) (G A : list (list (list nat))) : st :=
  with_lists s (verts s)
    (imap (fun i b => {| b_src := b_src b; b_verts := b_verts b; b_chops := b_chops b;
                         b_wg := nth i G []; b_ax := nth i A [] |}) 0 (blocks s))
    (patches s).

Theorem write_forgets_gradings orc tb s G A :
  is_assembled s = true -> write_with orc fixed tb (with_gradings s G A) = write_with orc fixed tb s.
Proof.
  intro As. unfold write_with, grade_cfg. cbv zeta. cbn [fx_reset fixed].
  assert (A2 : is_assembled (with_gradings s G A) = true) by exact As.
  rewrite A2, As. cbn [negb].
  set (B2 := blocks (with_gradings s G A)).
  assert (Ebs : map pblk B2 = map pblk (blocks s)).
  { unfold B2, with_gradings. simpl. rewrite imap_map. apply (imap_snd pblk). }
  rewrite Ebs. set (bs := map pblk (blocks s)).
  rewrite (C12_Regrade.grade_state_independent bs (fst (orc bs)) (snd (orc bs)) (gstate B2) (gstate (blocks s))).
  destruct (C12_Regrade.grade bs _ _ _) as [p| | | |]; try reflexivity.
  assert (Est : store_gr p B2 = store_gr p (blocks s)).
  { unfold store_gr at 1. rewrite Ebs. unfold B2, with_gradings, store_gr. simpl. rewrite imap_imap.
    apply imap_ext_in. intros j b _. reflexivity. }
  change (verts (with_gradings s G A)) with (verts s). change (patches (with_gradings s G A)) with (patches s).
  rewrite Est. reflexivity.
Qed.

(** with the insertion-order oracle the model never reports [E_model] *)
Theorem write_no_model_error c tb s : write c tb s <> Err E_model.
Proof.
  unfold write, write_with. cbv zeta.
  set (s1 := if is_assembled s then s else assemble tb s).
  destruct (is_assembled s1); simpl; [|discriminate].
  set (bs := map pblk (blocks s1)).
  assert (N : forall fx q, match C12_Regrade.grade_no_reset bs (Propagate.o_coin_ins bs) (Propagate.o_nbrs_ins bs) fx q with
                           | C12_Regrade.GNoFuel | C12_Regrade.GBadOracle => False | _ => True end).
  { intros fx q. unfold C12_Regrade.grade_no_reset.
    rewrite (PropagateFinal.insertion_oracle_ok bs). simpl.
    match goal with |- context [Propagate.propagate ?a ?b ?c ?d ?e ?f] =>
      pose proof (PropagateTerm.propagate_terminates a b c e) as T;
      destruct (Propagate.propagate a b c d e f) as [r| |] end.
    - destruct (Propagate.consistent bs r); exact I.
    - exact I.
    - apply T. reflexivity. }
  unfold grade_cfg, C12_Regrade.grade. destruct (fx_reset c).
  - specialize (N true (C12_Regrade.reset bs (gstate (blocks s1)))).
    destruct (C12_Regrade.grade_no_reset _ _ _ _ _); try discriminate; exact (False_ind _ N).
  - specialize (N (fx_grade c) (gstate (blocks s1))).
    destruct (C12_Regrade.grade_no_reset _ _ _ _ _); try discriminate; exact (False_ind _ N).
Qed.

(** * backport *)
Definition pts_wf (store : list (nat * op)) : Prop := forall k o, In (k, o) store -> length (o_pts o) = 8.

Lemma pts8_len o : length (o_pts o) = 8 -> pts8 o = o_pts o.
Proof.
  unfold pts8. destruct (o_pts o) as [|a [|b [|c [|d [|e [|f [|g [|h [|i l]]]]]]]]]; simpl; intro H; try discriminate.
  reflexivity.
Qed.

Lemma get_op_in store k o : get_op store k = Some o -> In (k, o) store.
Proof.
  induction store as [|[j o1] r IH]; simpl; [discriminate|].
  destruct (j =? k) eqn:E; intro H.
  - apply Nat.eqb_eq in E. inversion H. subst. left. reflexivity.
  - right. apply IH. exact H.
Qed.

Lemma live_ops_get s k o : In (k, o) (live_ops s) -> get_op (ops s) k = Some o.
Proof.
  unfold live_ops. intro H. apply in_flat_map in H. destruct H as [j [_ H]].
  destruct (get_op (ops s) j) eqn:G; simpl in H; [|contradiction].
  destruct H as [H|[]]. inversion H. subst. exact G.
Qed.

Lemma backport_ops_id V store : forall Bn l,
  store_wf store -> pts_wf store ->
  Forall2 (built V) Bn l -> (forall k o, In (k, o) l -> get_op store k = Some o) ->
  backport_ops V Bn store = store.
Proof.
  unfold backport_ops. induction Bn as [|b r IH]; intros l W Pw F G; simpl; [reflexivity|].
  inversion F as [|b' ko r' l' Hb Hr]; subst.
  destruct Hb as [H1 [_ [_ [_ [_ H6]]]]].
  assert (Go : get_op store (fst ko) = Some (snd ko)) by (apply G; left; destruct ko; reflexivity).
  rewrite H1, H6, (pts8_len (snd ko)) by (eapply Pw, get_op_in, Go).
  rewrite (set_pts_same _ _ _ W Go).
  apply (IH l'); try assumption. intros k o Hin. apply G. right. exact Hin.
Qed.

(** back-porting an assembled mesh whose vertices were not moved gives the assembled mesh back *)
Theorem backport_id tb c :
  clean c -> store_wf (ops c) -> pts_wf (ops c) ->
  backport fixed tb (assemble tb c)
  = if is_assembled (assemble tb c)
    then Ok (assemble tb c) [EPoints (map (fun ko => o_pts (snd ko)) (ops c))]
    else Err E_runtime.
Proof.
  intros Hc W Pw. unfold backport. destruct (is_assembled (assemble tb c)) eqn:A; simpl; [|reflexivity].
  assert (E : backport_ops (verts (assemble tb c)) (blocks (assemble tb c)) (ops (assemble tb c)) = ops c).
  { destruct (assemble_user tb c) as [_ [Ho _]]. rewrite Ho. clear A.
    destruct Hc as [Hv [Hb Hp]]. unfold assemble.
    destruct (asm_all tb (slaves c) (live_ops c) (verts c, blocks c, patches c)) as [[V B] P] eqn:Q.
    apply asm_all_spec in Q. destruct Q as [_ [[Bn [HB HF]] _]]. simpl. rewrite HB, Hb. simpl.
    apply (backport_ops_id V (ops c) Bn (live_ops c)); try assumption.
    intros k o Hin. apply live_ops_get. exact Hin. }
  rewrite E. destruct (assemble_user tb c) as [_ [Ho _]]. rewrite <- Ho at 1 2.
  rewrite with_ops_same, clear_assemble_id by exact Hc. rewrite assemble_with_rank, Ho. reflexivity.
Qed.

(** after a write (the gradings are set) the same holds: backport drops the gradings with the blocks *)
Lemma clear_with_lists s V B : clear fixed (with_lists s V B (patches s)) = clear fixed s.
Proof. reflexivity. Qed.

(** * patch types and settings set through the mesh persist through every history *)
Definition modifies (n : nat) (x : call) : bool :=
  match x with ModifyPatch n' _ _ => n' =? n | _ => false end.

Lemma assemble_modded tb s n k st : modded (patches s) n k st -> modded (patches (assemble tb s)) n k st.
Proof.
  intro H. unfold assemble.
  destruct (asm_all tb (slaves s) (live_ops s) (verts s, blocks s, patches s)) as [[V B] P] eqn:A.
  apply asm_all_spec in A. destruct A as [_ [_ [_ HM]]]. simpl. apply HM. exact H.
Qed.

Lemma step_modded tb s x s' ev n k st :
  step fixed tb s x = Ok s' ev -> modifies n x = false ->
  modded (patches s) n k st -> modded (patches s') n k st.
Proof.
  intros H Hm M. destruct x; simpl in H; try (inversion H; subst; simpl; exact M).
  - inversion H. subst. apply assemble_modded. exact M.
  - unfold backport in H. destruct (is_assembled s); simpl in H; [|discriminate]. inversion H. subst.
    apply assemble_modded. simpl. rewrite clear_patches_fixed. apply modded_mods. exact M.
  - inversion H. subst. simpl. rewrite clear_patches_fixed. apply modded_mods. exact M.
  - inversion H. subst. simpl. simpl in Hm. apply modded_modify_other; [|exact M].
    intro E. subst. rewrite Nat.eqb_refl in Hm. discriminate.
  - destruct (write_shape _ _ _ _ _ _ H) as [p [_ Hs]]. subst s'. simpl.
    destruct (is_assembled s); [exact M|apply assemble_modded; exact M].
Qed.

Theorem patch_props_persist tb : forall h s s' n k st,
  steps fixed tb s h = Some s' -> forallb (fun x => negb (modifies n x)) h = true ->
  modded (patches s) n k st -> modded (patches s') n k st.
Proof.
  induction h as [|x r IH]; intros s s' n k st H Hm M; simpl in H.
  - inversion H. subst. exact M.
  - simpl in Hm. apply andb_true_iff in Hm. destruct Hm as [Hx Hr].
    destruct (step fixed tb s x) as [s1 ev|] eqn:S; [|discriminate].
    apply (IH s1 s' n k st H Hr). eapply step_modded; [exact S| |exact M].
    destruct (modifies n x); [discriminate|reflexivity].
Qed.

Theorem modify_sets tb s n k set :
  exists st, modded (patches (with_lists s (verts s) (blocks s) (modify tb (patches s) n k set))) n k st
             /\ (forall x, set = Some x -> st = x).
Proof. simpl. apply modded_modify_same. Qed.

(** * depot and deleted set are what the history says *)
Definition adds (h : list call) : list nat := flat_map (fun x => match x with Add k => [k] | _ => [] end) h.
Definition dels (h : list call) : list nat := flat_map (fun x => match x with Delete k => [k] | _ => [] end) h.

Lemma backport_user tb s s' ev :
  backport fixed tb s = Ok s' ev -> depot s' = depot s /\ (forall k, mem k (deleted s') = mem k (deleted s)).
Proof.
  unfold backport. destruct (is_assembled s); simpl; [|discriminate]. intro H. inversion H. subst.
  destruct (assemble_user tb (clear fixed (with_ops s (backport_ops (verts s) (blocks s) (ops s))))) as [Hd [_ [Hx _]]].
  rewrite Hd, Hx. simpl. auto.
Qed.

Theorem depot_deleted_persist tb : forall h s s',
  steps fixed tb s h = Some s' ->
  depot s' = depot s ++ adds h /\ (forall k, mem k (deleted s') = mem k (dels h) || mem k (deleted s)).
Proof.
  induction h as [|x r IH]; intros s s' H; simpl in H.
  - inversion H. subst. simpl. rewrite app_nil_r. auto.
  - destruct (step fixed tb s x) as [s1 ev|] eqn:S; [|discriminate].
    destruct (IH _ _ H) as [Hd Hx].
    assert (Q : depot s1 = depot s ++ (match x with Add k => [k] | _ => [] end)
                /\ forall k, mem k (deleted s1) = mem k (match x with Delete k => [k] | _ => [] end) || mem k (deleted s)).
    { destruct x; simpl in S; try (inversion S; subst; simpl; rewrite ?app_nil_r; split; [reflexivity|intro; reflexivity]).
      - inversion S. subst. simpl. rewrite app_nil_r. split; [reflexivity|]. intro k0. unfold mem. simpl.
        rewrite orb_false_r. reflexivity.
      - inversion S. subst. destruct (assemble_user tb s) as [A [_ [B _]]]. rewrite A, B, app_nil_r. auto.
      - destruct (backport_user _ _ _ _ S) as [A B]. rewrite A, app_nil_r. auto.
      - destruct (write_shape _ _ _ _ _ _ S) as [p [_ Hs]]. subst s1. simpl.
        destruct (is_assembled s); rewrite ?app_nil_r; auto.
        destruct (assemble_user tb s) as [A [_ [B _]]]. rewrite A, B. auto. }
    destruct Q as [Qd Qx]. split.
    + rewrite Hd, Qd, <- app_assoc. reflexivity.
    + intro k. rewrite Hx, Qx. unfold mem. simpl. rewrite existsb_app. rewrite orb_assoc. f_equal. apply orb_comm.
Qed.

(** * backport after moving vertices *)
(** what the sequence of Face.update calls leaves in operation [k] *)
Definition upd (Vm : list vtx) (Bn : list blk) (k : nat) (o : op) : op :=
  fold_left (fun o b => if b_src b =? k then with_pts o (geo Vm (b_verts b)) else o) Bn o.

Lemma get_backport_ops Vm : forall Bn store k,
  get_op (backport_ops Vm Bn store) k = option_map (upd Vm Bn k) (get_op store k).
Proof.
  unfold backport_ops, upd. induction Bn as [|b r IH]; intros store k; simpl.
  - destruct (get_op store k); reflexivity.
  - rewrite IH, get_set_pts. rewrite (Nat.eqb_sym k (b_src b)).
    destruct (b_src b =? k); destruct (get_op store k); reflexivity.
Qed.

Lemma upd_nohit Vm : forall Bn k o, ~ In k (map b_src Bn) -> upd Vm Bn k o = o.
Proof.
  unfold upd. induction Bn as [|b r IH]; intros k o H; simpl; [reflexivity|].
  simpl in H. destruct (Nat.eqb_spec (b_src b) k) as [E|E]; [exfalso; apply H; left; exact E|].
  apply IH. intro Hin. apply H. right. exact Hin.
Qed.

Lemma upd_unique Vm : forall Bn b o,
  NoDup (map b_src Bn) -> In b Bn -> upd Vm Bn (b_src b) o = with_pts o (geo Vm (b_verts b)).
Proof.
  induction Bn as [|b0 r IH]; intros b o N Hin; [contradiction|].
  simpl in N. inversion N as [|x l Hnot Hr]; subst.
  change (upd Vm (b0 :: r) (b_src b) o)
    with (upd Vm r (b_src b) (if b_src b0 =? b_src b then with_pts o (geo Vm (b_verts b0)) else o)).
  destruct Hin as [E|Hin].
  - subst b0. rewrite Nat.eqb_refl. apply upd_nohit. exact Hnot.
  - destruct (Nat.eqb_spec (b_src b0) (b_src b)) as [E|E].
    + exfalso. apply Hnot. rewrite E. apply in_map. exact Hin.
    + apply IH; assumption.
Qed.

Lemma upd_chops Vm : forall Bn k o, o_chops (upd Vm Bn k o) = o_chops o /\ o_pat (upd Vm Bn k o) = o_pat o.
Proof.
  unfold upd. induction Bn as [|b r IH]; intros k o; simpl; [auto|].
  destruct (IH k (if b_src b =? k then with_pts o (geo Vm (b_verts b)) else o)) as [A B]. rewrite A, B.
  destruct (b_src b =? k); auto.
Qed.

Lemma live_ops_with_ops s store' f :
  (forall k, get_op store' k = option_map (f k) (get_op (ops s) k)) ->
  live_ops (with_ops s store') = map (fun ko => (fst ko, f (fst ko) (snd ko))) (live_ops s).
Proof.
  intro H. unfold live_ops, live. simpl. induction (filter _ (depot s)) as [|k r IH]; simpl; [reflexivity|].
  rewrite H, IH, map_app. destruct (get_op (ops s) k); reflexivity.
Qed.

Lemma built_src V Bn l : Forall2 (built V) Bn l -> map b_src Bn = map fst l.
Proof. induction 1 as [|b ko Bn l [H1 _] _ IH]; simpl; [reflexivity|]. rewrite H1, IH. reflexivity. Qed.

Lemma moved_blocks V Vm Ball : NoDup (map b_src Ball) -> forall Bsub Lsub,
  Forall2 (built V) Bsub Lsub -> (forall b, In b Bsub -> In b Ball) ->
  spec_blocks (map (fun ko => (fst ko, upd Vm Ball (fst ko) (snd ko))) Lsub)
  = map (fun b => (b_src b, geo Vm (b_verts b), b_chops b)) Bsub.
Proof.
  intros N. induction 1 as [|b ko Bs Ls [H1 [H2 [_ [H4 _]]]] _ IH]; intro Hsub; simpl; [reflexivity|].
  f_equal.
  - rewrite <- H1, (upd_unique Vm Ball b (snd ko) N) by (apply Hsub; left; reflexivity).
    rewrite pts8_len by (simpl; unfold geo; rewrite map_length; exact H4). simpl. rewrite H2. reflexivity.
  - apply IH. intros b' Hin. apply Hsub. right. exact Hin.
Qed.

(** the mesh [sm]: assembled from a clean state, then its vertices replaced by any [Vm] *)
Theorem backport_moves tb c Vm s1 ev :
  clean c -> NoDup (map fst (live_ops c)) ->
  let s0 := assemble tb c in
  let sm := with_lists s0 Vm (blocks s0) (patches s0) in
  backport fixed tb sm = Ok s1 ev ->
  (* every operation that owns a block has the positions of the vertices of that block *)
  (forall b o, In b (blocks s0) -> get_op (ops c) (b_src b) = Some o ->
     get_op (ops s1) (b_src b) = Some (with_pts o (geo Vm (b_verts b))))
  (* operations without a block (deleted, never added) are untouched *)
  /\ (forall k, ~ In k (map b_src (blocks s0)) -> get_op (ops s1) k = get_op (ops c) k)
  (* the re-assembled mesh has the moved positions, block by block *)
  /\ geo_blocks s1 = geo_blocks sm.
Proof.
  intros Hc N s0 sm H.
  assert (Hs0 : exists V P Bn R, s0 = with_rank (with_lists c V Bn P) R /\ Forall2 (built V) Bn (live_ops c)).
  { unfold s0, assemble. destruct Hc as [Hv [Hb _]].
    destruct (asm_all tb (slaves c) (live_ops c) (verts c, blocks c, patches c)) as [[V B] P] eqn:Q.
    apply asm_all_spec in Q. destruct Q as [_ [[Bn [HB HF]] _]]. rewrite Hb in HB. simpl in HB. subst B.
    exists V, P, Bn. eexists. split; [reflexivity|exact HF]. }
  destruct Hs0 as [V [P [Bn [R [E HF]]]]].
  assert (NB : NoDup (map b_src Bn)) by (rewrite (built_src _ _ _ HF); exact N).
  unfold backport in H. destruct (is_assembled sm); simpl in H; [|discriminate].
  inversion H as [[Hs1 Hev]]. clear H Hev. subst s1.
  set (store' := backport_ops Vm (blocks s0) (ops s0)) in *.
  assert (Hst : forall k, get_op store' k = option_map (upd Vm Bn k) (get_op (ops c) k)).
  { intro k. unfold store'. rewrite E. simpl. apply get_backport_ops. }
  assert (Ho : ops (assemble tb (clear fixed (with_ops sm store'))) = store').
  { destruct (assemble_user tb (clear fixed (with_ops sm store'))) as [_ [Q _]]. rewrite Q. reflexivity. }
  assert (Hb0 : blocks s0 = Bn) by (rewrite E; reflexivity).
  split; [|split].
  - intros b o Hin G. rewrite Ho, Hst, G. simpl. f_equal. apply upd_unique; [exact NB|]. rewrite <- Hb0. exact Hin.
  - intros k Hk. rewrite Ho, Hst. rewrite Hb0 in Hk. destruct (get_op (ops c) k); simpl; [|reflexivity].
    f_equal. apply upd_nohit. exact Hk.
  - rewrite assemble_geo by apply clear_clean.
    assert (L : live_ops (clear fixed (with_ops sm store'))
                = map (fun ko => (fst ko, upd Vm Bn (fst ko) (snd ko))) (live_ops c)).
    { transitivity (live_ops (with_ops c store')).
      - unfold sm. rewrite E. reflexivity.
      - apply live_ops_with_ops. exact Hst. }
    rewrite L. unfold geo_blocks, sm. simpl. rewrite Hb0.
    apply (moved_blocks V Vm Bn NB Bn (live_ops c) HF). auto.
Qed.

(** exactly the operations that own a moved vertex change *)
Corollary backport_unmoved tb c Vm s1 ev :
  clean c -> NoDup (map fst (live_ops c)) -> store_wf (ops c) -> pts_wf (ops c) ->
  let s0 := assemble tb c in
  backport fixed tb (with_lists s0 Vm (blocks s0) (patches s0)) = Ok s1 ev ->
  forall b o, In b (blocks s0) -> get_op (ops c) (b_src b) = Some o ->
    geo Vm (b_verts b) = geo (verts s0) (b_verts b) ->
    get_op (ops s1) (b_src b) = Some o.
Proof.
  intros Hc N W Pw s0 H b o Hin G Hg. subst s0.
  destruct (backport_moves tb c Vm s1 ev Hc N H) as [H1 _].
  rewrite (H1 b o Hin G), Hg. f_equal.
  (* the block sits where its operation was *)
  assert (Q : geo (verts (assemble tb c)) (b_verts b) = o_pts o).
  { assert (GB := assemble_geo tb c Hc). unfold geo_blocks, spec_blocks in GB.
    apply (in_map (fun b => (b_src b, geo (verts (assemble tb c)) (b_verts b), b_chops b))) in Hin.
    rewrite GB in Hin. apply in_map_iff in Hin. destruct Hin as [[k o'] [Eq Hl]]. simpl in Eq.
    inversion Eq as [[Ek Eg Ec]]. apply live_ops_get in Hl. rewrite Ek in Hl. rewrite G in Hl. inversion Hl. subst o'.
    try rewrite <- Eg. apply pts8_len. eapply Pw, get_op_in, G. }
  rewrite Q. apply with_pts_same.
Qed.

(** * deleting an operation is the same as never having added it *)
Definition remove_op (s : st) (x : nat) : st :=
  with_user s (filter (fun k => negb (k =? x)) (depot s)) (deleted s) (dflt s) (merged s).

Lemma live_ops_remove s x : live_ops (delete_op s x) = live_ops (remove_op s x).
Proof.
  unfold live_ops, live. simpl. f_equal. induction (depot s) as [|k r IH]; simpl; [reflexivity|].
  destruct (k =? x); simpl; [exact IH|]. destruct (mem k (deleted s)); simpl; [|f_equal]; exact IH.
Qed.

Theorem delete_is_never_added tb s x :
  let a := assemble tb (delete_op s x) in
  let b := assemble tb (remove_op s x) in
  verts a = verts b /\ blocks a = blocks b /\ patches a = patches b.
Proof.
  unfold assemble. rewrite live_ops_remove. simpl.
  change (slaves (delete_op s x)) with (slaves (remove_op s x)).
  destruct (asm_all tb (slaves (remove_op s x)) (live_ops (remove_op s x)) (verts s, blocks s, patches s)) as [[V B] P].
  simpl. auto.
Qed.
