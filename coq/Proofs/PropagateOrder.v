(** Order independence of [run] for chops of ANY number of sections (C02).

    The consistency check compares, for every wire and each coincident wire, the whole section
    lists (reversed when the two wires run in opposite directions).  Whether that comparison
    succeeds does not depend on the iteration orders:

    - [Agree]: at every moment of the propagation two defined wires joining the same two vertices
      carry the same section list up to the reversal between their directions, PROVIDED the user
      chops meeting on a shared edge agree ([user_agree], a property of the input alone).  A wire
      that is defined later copies from a defined wire at the same spot; it takes the chops of its
      axis (which do depend on the order in which neighbours are met) only when no wire at the same
      spot is defined.
    - if the user chops meeting on some shared edge disagree, both wires keep their own chops and
      every final state fails the comparison.

    Hence the section comparison of a final state is decided by the input, and with the count
    results of PropagateFinal.v the whole outcome of [run] is independent of the oracles. *)
From Coq Require Import List Bool Arith Lia.
From CB Require Import Model.Propagate Proofs.PropagateBasics Proofs.PropagateTerm Proofs.PropagateInv
  Proofs.PropagateInit Proofs.PropagateShort Proofs.PropagateFinal.
Import ListNotations.
Set Default Proof Using "Type".

(** * lists *)
Lemma nl_eqb_eq l : forall m, nl_eqb l m = true -> l = m.
Proof.
  unfold nl_eqb. induction l as [|a l IH]; intros [|b m] H; simpl in H; try discriminate; [reflexivity|].
  apply andb_true_iff in H. destruct H as [H1 H2]. apply andb_true_iff in H2. destruct H2 as [H2 H3].
  apply Nat.eqb_eq in H2. simpl in H2. subst b. f_equal. apply IH. rewrite H1, H3. reflexivity.
Qed.

Lemma nl_eqb_same l : nl_eqb l l = true.
Proof.
  unfold nl_eqb. rewrite Nat.eqb_refl. simpl. induction l as [|a l IH]; simpl; [reflexivity|].
  rewrite Nat.eqb_refl. exact IH.
Qed.

Lemma forallb_false_ex {A} (f : A -> bool) l : forallb f l = false -> exists x, In x l /\ f x = false.
Proof.
  induction l as [|a l IH]; simpl; [discriminate|]. intro H. apply andb_false_iff in H. destruct H as [H | H].
  - exists a. auto.
  - destruct (IH H) as (x & Hx & Fx). exists x. auto.
Qed.

Lemma pair_eqb_neq p q : pair_eqb p q = false -> p <> q.
Proof. intros H X. apply pair_eqb_eq in X. congruence. Qed.

(** transport of a section list between two directed vertex pairs: kept when the pairs are equal,
    reversed otherwise *)
Lemma tr_pairs (p q r : nat * nat) (l : list nat) :
  (p = q \/ p = swap q) -> (q = r \/ q = swap r) ->
  (if pair_eqb q r then (if pair_eqb p q then l else rev l) else rev (if pair_eqb p q then l else rev l))
  = (if pair_eqb p r then l else rev l).
Proof.
  intros H1 H2.
  destruct (pair_eqb p q) eqn:E1; [apply pair_eqb_eq in E1 | apply pair_eqb_neq in E1];
  destruct (pair_eqb q r) eqn:E2; [apply pair_eqb_eq in E2 | apply pair_eqb_neq in E2 | apply pair_eqb_eq in E2 | apply pair_eqb_neq in E2];
  destruct (pair_eqb p r) eqn:E3; [apply pair_eqb_eq in E3 | apply pair_eqb_neq in E3 | apply pair_eqb_eq in E3 | apply pair_eqb_neq in E3
                                   | apply pair_eqb_eq in E3 | apply pair_eqb_neq in E3 | apply pair_eqb_eq in E3 | apply pair_eqb_neq in E3];
  try reflexivity; try congruence.
  - (* p <> q, q <> r, p = r *) apply rev_involutive.
  - (* p <> q, q <> r, p <> r: impossible *)
    exfalso. destruct H1 as [H1 | H1]; [congruence|]. destruct H2 as [H2 | H2]; [congruence|].
    apply E3. rewrite H1, H2. apply swap_swap.
Qed.

Section Order.
  Variable bs : list blk.
  Notation n := (nblocks bs).
  Notation chopped := (chopped bs).
  Notation user_chops := (user_chops bs).
  Notation ends := (ends bs).
  Notation aligned := (aligned bs).
  Notation vw := (vw bs).
  Notation va := (va bs).
  Notation same_ends := (same_ends bs).
  Notation coincident := (coincident bs).
  Notation Good := (Good bs).

  Definition tr (c w : wire) (v : list nat) : list nat := if aligned c w then v else rev v.

  Lemma tr_refl w v : tr w w v = v.
  Proof. unfold tr, Propagate.aligned. replace (pair_eqb (ends w) (ends w)) with true; [reflexivity|]. symmetry. apply pair_eqb_eq. reflexivity. Qed.

  Lemma tr_comp u v w l : same_ends u v = true -> same_ends v w = true -> tr v w (tr u v l) = tr u w l.
  Proof. intros H1 H2. apply same_ends_iff in H1, H2. unfold tr, Propagate.aligned. apply tr_pairs; assumption. Qed.

  Lemma tr_inv u w l : same_ends u w = true -> tr u w (tr w u l) = l.
  Proof. intro H. rewrite tr_comp; [apply tr_refl | apply same_ends_sym; exact H | exact H]. Qed.

  Lemma tr_nonnil c w v : v <> [] -> tr c w v <> [].
  Proof. intro H. unfold tr. destruct (aligned c w); [exact H | apply rev_nonnil; exact H]. Qed.

  (** the user chops meeting on a shared edge agree *)
  Definition user_agree : bool :=
    forallb (fun u => forallb (fun w =>
      negb (same_ends u w && chopped (w_axis u) && chopped (w_axis w))
      || nl_eqb (user_chops (w_axis w)) (tr u w (user_chops (w_axis u)))) (all_wires n)) (all_wires n).

  Lemma user_agree_spec : user_agree = true ->
    forall u w, vw u -> vw w -> same_ends u w = true -> chopped (w_axis u) = true -> chopped (w_axis w) = true ->
      user_chops (w_axis w) = tr u w (user_chops (w_axis u)).
  Proof.
    intros H u w Vu Vw S Cu Cw. unfold user_agree in H. rewrite forallb_forall in H. specialize (H u Vu).
    rewrite forallb_forall in H. specialize (H w Vw). rewrite S, Cu, Cw in H. simpl in H. apply nl_eqb_eq. exact H.
  Qed.

  (** two defined wires at the same spot carry the same sections *)
  Definition Agree (s : st) : Prop :=
    forall u w, vw u -> vw w -> same_ends u w = true -> g s u <> [] -> g s w <> [] -> g s w = tr u w (g s u).

  (** every defined wire carries the user chops of a chopped axis with a wire at the same spot *)
  Definition Orig (s : st) : Prop :=
    forall w, vw w -> g s w <> [] ->
      exists o, vw o /\ same_ends o w = true /\ chopped (w_axis o) = true /\ g s w = tr o w (user_chops (w_axis o)).

  Lemma orig_agree s : user_agree = true -> Orig s -> Agree s.
  Proof.
    intros UA OS u w Vu Vw S Du Dw.
    destruct (OS u Vu Du) as (ou & Vou & Sou & Cou & Eu). destruct (OS w Vw Dw) as (ow & Vow & Sow & Cow & Ew).
    assert (same_ends ou w = true) as S1 by (eapply same_ends_trans; eauto).
    assert (same_ends ou ow = true) as S2 by (eapply same_ends_trans; [exact S1 | apply same_ends_sym; exact Sow]).
    rewrite Ew, Eu. rewrite (user_agree_spec UA ou ow Vou Vow S2 Cou Cow).
    rewrite (tr_comp ou ow w) by assumption. rewrite (tr_comp ou u w) by assumption. reflexivity.
  Qed.

  Hypothesis ND : nondegenerate bs = true.

  Lemma in_axis_blk x u w : In u (wires_of_axis x) -> In w (wires_of_axis x) -> w_blk u = w_blk w.
  Proof.
    intros Hu Hw. apply in_wires_of_axis in Hu, Hw. destruct Hu as [Hu _], Hw as [Hw _].
    rewrite !w_blk_axis. congruence.
  Qed.

  Section Oracle.
    Variable o_coin : wire -> list wire.
    Variable o_nbrs : axis -> list axis.
    Hypothesis Hco : forall w c, In w (all_wires n) -> In c (o_coin w) -> In c (coin_set bs w).
    Hypothesis Hco' : forall w c, In w (all_wires n) -> In c (coin_set bs w) -> In c (o_coin w).
    Hypothesis Hnb : forall x y, In x (all_axes n) -> In y (o_nbrs x) -> In y (nbr_set bs x).

    Notation copy_wire := (copy_wire bs o_coin).
    Notation grade_axis := (grade_axis bs o_coin).
    Notation copy_axis := (copy_axis bs o_coin o_nbrs).
    Notation copy_block := (copy_block bs o_coin o_nbrs).
    Notation scan := (scan bs o_coin o_nbrs).
    Notation propagate := (propagate bs o_coin o_nbrs).

    (** ** what copy_wire writes, with the direction: the transported list of a defined wire of the
        oracle list, or nothing when no wire of the list is defined *)
    Lemma copy_wire_sharp_gen (l : list wire) : forall s w, ~ In w l ->
      let s' := fold_left (fun s c =>
        if w_defined s c
        then {| g := upd_g (g s) w (if aligned c w then g s c else rev (g s c)); ach := ach s |}
        else s) l s in
      (exists c, In c l /\ g s c <> [] /\ g s' w = tr c w (g s c)) \/
      ((forall c, In c l -> g s c = []) /\ g s' w = g s w).
    Proof.
      induction l as [|c l IH]; intros s w Hn; simpl.
      - right. split; [intros c []|reflexivity].
      - assert (c <> w) as Ncw by (intro X; apply Hn; left; exact X).
        assert (~ In w l) as Hn' by (intro X; apply Hn; right; exact X).
        destruct (w_defined s c) eqn:D.
        + set (s1 := {| g := upd_g (g s) w (if aligned c w then g s c else rev (g s c)); ach := ach s |}).
          apply w_defined_iff in D. left.
          destruct (IH s1 w Hn') as [(c' & Hc' & D' & E') | (U & E')].
          * assert (c' <> w) as N' by (intro X; subst; contradiction).
            simpl in D', E'. rewrite upd_g_other in D', E' by exact N'. exists c'. auto.
          * exists c. split; [left; reflexivity|]. split; [exact D|]. rewrite E'. simpl. rewrite upd_g_same. reflexivity.
        + apply w_defined_false_iff in D.
          destruct (IH s w Hn') as [(c' & Hc' & D' & E') | (U & E')].
          * left. exists c'. auto.
          * right. split; [|exact E']. intros c' [<- | Hc']; auto.
    Qed.

    Lemma oracle_not_self w : vw w -> ~ In w (o_coin w).
    Proof using Hco.
      intros Vw X. apply Hco in X; [|exact Vw]. apply in_coin_set in X. destruct X as [_ C].
      apply coincident_iff in C. destruct C as [C _]. congruence.
    Qed.

    Lemma copy_wire_sharp s w : vw w ->
      (exists c, In c (o_coin w) /\ g s c <> [] /\ g (copy_wire s w) w = tr c w (g s c)) \/
      ((forall c, In c (o_coin w) -> g s c = []) /\ g (copy_wire s w) w = g s w).
    Proof using Hco. intro Vw. unfold Propagate.copy_wire. apply copy_wire_sharp_gen. apply oracle_not_self. exact Vw. Qed.

    Lemma fold_copy_sharp ws : forall s, NoDup ws -> (forall w, In w ws -> vw w) ->
      (forall w c, In w ws -> In c (o_coin w) -> ~ In c ws) ->
      forall w, In w ws ->
        let s' := fold_left copy_wire ws s in
        (exists c, In c (o_coin w) /\ g s c <> [] /\ g s' w = tr c w (g s c)) \/
        ((forall c, In c (o_coin w) -> g s c = []) /\ g s' w = g s w).
    Proof using Hco.
      induction ws as [|a ws IH]; intros s NDup Hv Hout w Hw; [destruct Hw|].
      inversion NDup as [|? ? Hnot ND']; subst. simpl.
      destruct (copy_wire_spec bs o_coin s a) as (_ & O1 & _).
      destruct Hw as [E | Hw].
      - subst a. destruct (fold_copy_spec bs o_coin ws (copy_wire s w)) as (_ & _ & O). simpl in O.
        rewrite O by exact Hnot. apply copy_wire_sharp. apply Hv. left. reflexivity.
      - assert (w <> a) as Ne by (intro X; subst; contradiction).
        specialize (IH (copy_wire s a) ND' (fun w Hw => Hv w (or_intror Hw))
                       (fun w c Hw Hc => fun X => Hout w c (or_intror Hw) Hc (or_intror X)) w Hw).
        simpl in IH.
        assert (forall c, In c (o_coin w) -> g (copy_wire s a) c = g s c) as Same.
        { intros c Hc. apply O1. intro X. subst c. apply (Hout w a); simpl; auto. }
        destruct IH as [(c & Hc & D & E) | (U & E)].
        + left. exists c. rewrite (Same c Hc) in D, E. auto.
        + right. split.
          * intros c Hc. rewrite <- (Same c Hc). apply U. exact Hc.
          * rewrite E. apply O1. exact Ne.
    Qed.

    Lemma grade_unchopped_sharp s x : va x -> chopped x = false ->
      forall w, In w (wires_of_axis x) ->
        let s' := grade_axis s x in
        (exists c, In c (o_coin w) /\ g s c <> [] /\ g s' w = tr c w (g s c)) \/
        ((forall c, In c (o_coin w) -> g s c = []) /\ g s' w = (if w_defined s w then g s w else ach s x)).
    Proof using Hco.
      intros Vx Hc w Hw. unfold Propagate.grade_axis. rewrite Hc. cbv zeta.
      set (s1 := fold_left copy_wire (wires_of_axis x) s).
      destruct (fold_copy_spec bs o_coin (wires_of_axis x) s) as (A1 & _ & _). fold s1 in A1.
      destruct (fold_fill_spec x (wires_of_axis x) s1 (wires_of_axis_nodup x)) as (_ & _ & _ & V).
      rewrite V by exact Hw.
      pose proof (fold_copy_sharp (wires_of_axis x) s (wires_of_axis_nodup x)
                    (fun w Hw => vw_of_axis bs x w Vx Hw)
                    (fun w c Hw Hc => oracle_outside bs o_coin Hco x w c Vx Hw Hc) w Hw) as D.
      fold s1 in D. cbv zeta in D.
      destruct D as [(c & Hcw & Dc & E) | (U & E)].
      - left. exists c. split; [exact Hcw|]. split; [exact Dc|].
        assert (w_defined s1 w = true) as W. { apply w_defined_iff. rewrite E. apply tr_nonnil. exact Dc. }
        rewrite W. exact E.
      - right. split; [exact U|]. unfold w_defined. rewrite E, A1. reflexivity.
    Qed.

    (** ** the un-chopped branch of grade_axis preserves [Agree] *)
    Lemma agree_grade_unchopped s x : va x -> chopped x = false -> Agree s -> Agree (grade_axis s x).
    Proof using Hco Hco' ND.
      intros Vx Cx AS.
      destruct (grade_axis_basic bs o_coin s x) as (_ & _ & O).
      assert (K : forall w u, In w (wires_of_axis x) -> vw u -> ~ In u (wires_of_axis x) -> same_ends u w = true ->
                    g s u <> [] -> g (grade_axis s x) w = tr u w (g s u)).
      { intros w u Hw Vu Nu S Du. pose proof (vw_of_axis bs x w Vx Hw) as Vw.
        destruct (grade_unchopped_sharp s x Vx Cx w Hw) as [(c & Hc & Dc & E) | (U & _)].
        - destruct (coin_wire_facts bs o_coin Hco w c Vw Hc) as (Vc & Sc & _).
          assert (same_ends c u = true) as Scu by (eapply same_ends_trans; [exact Sc | apply same_ends_sym; exact S]).
          rewrite E. rewrite (AS c u Vc Vu Scu Dc Du). symmetry. apply tr_comp; assumption.
        - exfalso. apply Du. apply U. apply Hco'; [exact Vw|]. apply in_coin_set. split; [exact Vu|].
          apply coincident_iff. split; [|apply same_ends_sym; exact S].
          intro B. apply Nu. rewrite (nondegenerate_spec bs ND u w Vu Vw (eq_sym B) S). exact Hw. }
      intros u w Vu Vw S Du Dw.
      destruct (in_dec wire_eq_dec u (wires_of_axis x)) as [Iu | Nu]; destruct (in_dec wire_eq_dec w (wires_of_axis x)) as [Iw | Nw].
      - rewrite (nondegenerate_spec bs ND u w Vu Vw (in_axis_blk x u w Iu Iw) S). symmetry. apply tr_refl.
      - rewrite (O w Nw) in *. rewrite (K u w Iu Vw Nw (same_ends_sym bs _ _ S) Dw). symmetry. apply tr_inv. exact S.
      - rewrite (O u Nu) in *. apply K; auto.
      - rewrite (O u Nu), (O w Nw) in *. apply AS; auto.
    Qed.

    (** ** phase 2: copy_axis preserves [Agree] *)
    Lemma copy_axis_agree s x s' u : Good s -> Agree s -> va x -> copy_axis s x = (s', u) -> Agree s'.
    Proof using Hco Hco' ND.
      intros GS AS Vx. unfold Propagate.copy_axis. destruct (a_defined s x) eqn:D.
      - intro H; inversion H; subst. exact AS.
      - destruct (find _ (o_nbrs x)) as [y|] eqn:F; [|intro H; inversion H; subst; exact AS].
        intro H. inversion H; subst; clear H.
        assert (chopped x = false) as Cx.
        { destruct (chopped x) eqn:Cx; [|reflexivity]. exfalso.
          assert (a_defined s x = true) as X; [|congruence].
          unfold a_defined. apply forallb_forall. intros w Hw. apply w_defined_iff.
          rewrite (G5 _ _ GS x Vx Cx w Hw). apply chopped_iff. exact Cx. }
        apply agree_grade_unchopped; auto.
    Qed.

    (** ** lifting a state predicate preserved by copy_axis through the propagation loop *)
    Section Lift.
      Variable P : st -> Prop.
      Hypothesis HP : forall s x s' u, Good s -> P s -> va x -> copy_axis s x = (s', u) -> P s'.

      Lemma copy_block_fold_lift xs : forall s u0 s' u,
        fold_left (fun sb x => let '(s', u) := copy_axis (fst sb) x in (s', u || snd sb)) xs (s, u0) = (s', u) ->
        (forall x, In x xs -> va x) -> Good s -> P s -> P s'.
      Proof using Hco Hnb HP.
        induction xs as [|x xs IH]; intros s u0 s' u H Hv GS PS; simpl in H.
        - inversion H; subst. exact PS.
        - destruct (copy_axis s x) as [s1 u1] eqn:E. simpl in H.
          assert (va x) as Vx by (apply Hv; left; reflexivity).
          eapply IH; [exact H | intros y Hy; apply Hv; right; exact Hy | |].
          + eapply copy_axis_good; eauto.
          + eapply HP; eauto.
      Qed.

      Lemma copy_block_lift s b s' u : b < n -> copy_block s b = (s', u) -> Good s -> P s -> P s'.
      Proof using Hco Hnb HP.
        intros Hb. unfold Propagate.copy_block. destruct (b_defined s b).
        - intro H; inversion H; subst. auto.
        - intros H GS PS. eapply copy_block_fold_lift; eauto.
          intros x Hx. apply in_axes_of_block in Hx. apply in_all_axes. lia.
      Qed.

      Lemma scan_lift todo : forall s before upd s' undef' u',
        scan s before todo upd = (s', undef', u') -> (forall i, In i todo -> i < n) -> Good s -> P s -> P s'.
      Proof using Hco Hnb HP.
        induction todo as [|i rest IH]; intros s before upd s' undef' u' H Hn GS PS; simpl in H.
        - inversion H; subst. exact PS.
        - destruct (b_defined s i).
          + inversion H; subst. exact PS.
          + destruct (copy_block s i) as [s1 u1] eqn:E.
            assert (i < n) as Hi by (apply Hn; left; reflexivity).
            eapply IH; [exact H | intros j Hj; apply Hn; right; exact Hj | |].
            * eapply copy_block_good; eauto.
            * eapply copy_block_lift; eauto.
      Qed.

      Lemma propagate_lift fuel : forall s undef,
        (forall i, In i undef -> i < n) -> Good s -> P s ->
        match propagate fuel s undef with
        | Done s' => P s'
        | Stuck s' _ => P s'
        | OutOfFuel => True
        end.
      Proof using Hco Hnb HP.
        induction fuel as [|f IH]; intros s undef Hn GS PS.
        - destruct undef; simpl; auto.
        - destruct undef as [|i rest]; [simpl; auto|].
          rewrite propagate_unfold.
          destruct (scan s [] (i :: rest) false) as [[s' undef'] u'] eqn:E.
          pose proof (scan_spec bs o_coin o_nbrs (i :: rest) s [] false s' undef' u' E Hn) as (M & L & T & I1 & I2).
          rewrite app_nil_l in *.
          pose proof (scan_good bs o_coin o_nbrs Hco Hnb _ _ _ _ _ _ _ E Hn GS) as GS'.
          pose proof (scan_lift _ _ _ _ _ _ _ E Hn GS PS) as PS'.
          destruct u'.
          + apply IH; auto.
          + destruct undef' as [|j undef']; exact PS'.
      Qed.
    End Lift.

    (** ** phase 1: every defined wire carries transported user chops *)
    Lemma orig_step done s x : Good0 bs done s -> Orig s -> va x -> ~ In x done -> Orig (grade_axis s x).
    Proof using Hco.
      intros GS OS Vx Nx.
      destruct (grade_axis_basic bs o_coin s x) as (_ & _ & O).
      intros w Vw Dw. destruct (in_dec wire_eq_dec w (wires_of_axis x)) as [Hin | Hout].
      2:{ rewrite (O w Hout) in *. apply OS; auto. }
      destruct (chopped x) eqn:Cx.
      - exists w. split; [exact Vw|]. split; [apply same_ends_refl|].
        pose proof Hin as Hin'. apply in_wires_of_axis in Hin'. destruct Hin' as [Ex _]. rewrite Ex.
        split; [exact Cx|]. rewrite tr_refl.
        unfold Propagate.grade_axis. rewrite Cx.
        destruct (fold_append_spec x (wires_of_axis x) s (wires_of_axis_nodup x)) as (_ & _ & _ & V).
        rewrite V by exact Hin. rewrite (P1 _ _ _ GS x Vx Nx w Hin). simpl. apply (P0 _ _ _ GS).
      - destruct (grade_unchopped_sharp s x Vx Cx w Hin) as [(c & Hc & Dc & E) | (_ & E)].
        + destruct (coin_wire_facts bs o_coin Hco w c Vw Hc) as (Vc & Sc & _).
          destruct (OS c Vc Dc) as (o & Vo & So & Co & Eo).
          exists o. split; [exact Vo|]. split; [eapply same_ends_trans; eauto|]. split; [exact Co|].
          rewrite E, Eo. apply tr_comp; assumption.
        + exfalso. apply Dw. rewrite E.
          assert (g s w = []) as G0 by (apply (P1 _ _ _ GS x Vx Nx w Hin)).
          assert (w_defined s w = false) as W by (apply w_defined_false_iff; exact G0). rewrite W.
          rewrite (P0 _ _ _ GS). destruct (user_chops x) eqn:U; [reflexivity|].
          assert (chopped x = true) as X by (apply chopped_iff; rewrite U; discriminate). congruence.
    Qed.

    Lemma orig_fold rest : forall done s,
      NoDup (done ++ rest) -> (forall x, In x rest -> va x) -> Good0 bs done s -> Orig s ->
      Orig (fold_left grade_axis rest s).
    Proof using Hco.
      induction rest as [|x rest IH]; intros done s NDup Hv GS OS; simpl; [exact OS|].
      assert (~ In x done) as Nx.
      { intro X. apply NoDup_remove_2 in NDup. apply NDup. apply in_app_iff. left. exact X. }
      assert (va x) as Vx by (apply Hv; left; reflexivity).
      replace (done ++ x :: rest) with ((done ++ [x]) ++ rest) in NDup by (rewrite <- app_assoc; reflexivity).
      apply (IH (done ++ [x])); auto.
      - intros y Hy. apply Hv. right. exact Hy.
      - apply good0_step; auto.
      - eapply orig_step; eauto.
    Qed.

    Theorem grade_blocks_orig : Orig (grade_blocks bs o_coin (init bs)).
    Proof using Hco.
      rewrite grade_blocks_flat.
      apply (orig_fold (all_axes n) [] (init bs)); simpl; auto.
      - apply all_axes_nodup.
      - apply good0_init.
      - intros w _ H. exfalso. apply H. reflexivity.
    Qed.

    (** ** final states *)
    Lemma final_agree : user_agree = true ->
      match propagate (fuel0 bs) (start bs o_coin) (seq 0 n) with
      | Done s' => Agree s'
      | Stuck s' _ => Agree s'
      | OutOfFuel => True
      end.
    Proof using Hco Hco' Hnb ND.
      intro UA. apply (propagate_lift Agree).
      - intros s x s' u GS AS Vx E. eapply copy_axis_agree; eauto.
      - intros i Hi. apply in_seq in Hi. lia.
      - apply grade_blocks_good. exact Hco.
      - apply orig_agree; [exact UA | apply grade_blocks_orig].
    Qed.

    (** a completely defined state in which wires at the same spot agree passes the section comparison *)
    Lemma agree_gradings s : Agree s -> Outside bs s [] -> gradings_agree bs s = true.
    Proof.
      intros AS O. unfold gradings_agree. apply forallb_forall. intros x Vx.
      unfold axis_agree. apply forallb_forall. intros w Hw. apply forallb_forall. intros c Hc.
      pose proof (vw_of_axis bs x w Vx Hw) as Vw.
      apply in_coin_set in Hc. destruct Hc as [Vc Cc]. apply coincident_iff in Cc. destruct Cc as [_ S].
      fold (tr c w (g s c)).
      rewrite (AS c w Vc Vw (same_ends_sym bs _ _ S) (outside_all_defined bs s c O Vc) (outside_all_defined bs s w O Vw)).
      apply nl_eqb_same.
    Qed.

    (** user chops that disagree on a shared edge are reported by every final state *)
    Lemma disagree_gradings s : user_agree = false -> Good s -> gradings_agree bs s = false.
    Proof using ND.
      intros UA GS. destruct (gradings_agree bs s) eqn:GA; [exfalso|reflexivity].
      unfold user_agree in UA. apply forallb_false_ex in UA. destruct UA as (u & Vu & UA).
      apply forallb_false_ex in UA. destruct UA as (w & Vw & UA).
      apply orb_false_iff in UA. destruct UA as [U1 U2]. apply negb_false_iff in U1.
      apply andb_true_iff in U1. destruct U1 as [U1 Cw]. apply andb_true_iff in U1. destruct U1 as [S Cu].
      destruct (vw_axis bs u Vu) as [Vxu Hku]. destruct (vw_axis bs w Vw) as [Vxw Hkw].
      assert (In u (wires_of_axis (w_axis u))) as Iu by (apply in_wires_of_axis; auto).
      assert (In w (wires_of_axis (w_axis w))) as Iw by (apply in_wires_of_axis; auto).
      destruct (Nat.eq_dec (w_blk u) (w_blk w)) as [B | B].
      - pose proof (nondegenerate_spec bs ND u w Vu Vw B S) as E. subst w. rewrite tr_refl, nl_eqb_same in U2. discriminate.
      - unfold gradings_agree in GA. rewrite forallb_forall in GA. specialize (GA (w_axis w) Vxw).
        unfold axis_agree in GA. rewrite forallb_forall in GA. specialize (GA w Iw). rewrite forallb_forall in GA.
        assert (In u (coin_set bs w)) as Hc.
        { apply in_coin_set. split; [exact Vu|]. apply coincident_iff. split; [congruence | apply same_ends_sym; exact S]. }
        specialize (GA u Hc). fold (tr u w (g s u)) in GA.
        rewrite (G5 _ _ GS (w_axis w) Vxw Cw w Iw), (G5 _ _ GS (w_axis u) Vxu Cu u Iu) in GA. congruence.
    Qed.
  End Oracle.
End Order.

(** * the outcome of [run] does not depend on the oracles, for chops of any number of sections *)
Section Indep3.
  Variable bs : list blk.
  Notation n := (nblocks bs).
  Hypothesis ND : nondegenerate bs = true.

  Lemma oracle_ok_coin_complete o_coin o_nbrs : oracle_ok bs o_coin o_nbrs = true ->
    forall w c, In w (all_wires n) -> In c (coin_set bs w) -> In c (o_coin w).
  Proof.
    intros H w c Hw Hc. unfold oracle_ok in H. apply andb_true_iff in H. destruct H as [H1 _].
    rewrite forallb_forall in H1. specialize (H1 w Hw). apply perm_of_incl in H1; [|intros; apply wire_eqb_eq; auto].
    apply H1. exact Hc.
  Qed.

  (** the full consistency check of a final state: the count check when the user chops agree on
      shared edges, failure otherwise *)
  Lemma consistent_final o_coin o_nbrs s : oracle_ok bs o_coin o_nbrs = true ->
    propagate bs o_coin o_nbrs (fuel0 bs) (start bs o_coin) (seq 0 n) = Done s ->
    consistent bs s = user_agree bs && consistent_counts bs s.
  Proof using ND.
    intros K P. destruct (oracle_ok_incl bs o_coin o_nbrs K) as (A & B & _).
    pose proof (oracle_ok_coin_complete o_coin o_nbrs K) as A'.
    pose proof (final_inv bs o_coin o_nbrs A B) as FI. rewrite P in FI. destruct FI as [GS O].
    unfold consistent. destruct (user_agree bs) eqn:UA.
    - pose proof (final_agree bs ND o_coin o_nbrs A A' B UA) as FA. rewrite P in FA.
      rewrite (agree_gradings bs s FA O). rewrite andb_true_r. reflexivity.
    - rewrite (disagree_gradings bs ND s UA GS). rewrite andb_false_r. reflexivity.
  Qed.

  Theorem run_oracle_independent_all o1 n1 o2 n2 :
    oracle_ok bs o1 n1 = true -> oracle_ok bs o2 n2 = true -> run bs o1 n1 = run bs o2 n2.
  Proof using ND.
    intros K1 K2.
    destruct (oracle_ok_incl bs o1 n1 K1) as (A1 & B1 & B1').
    destruct (oracle_ok_incl bs o2 n2 K2) as (A2 & B2 & B2').
    pose proof (run_undefined_iff bs o1 n1 A1 B1 B1' ND K1) as U1.
    pose proof (run_undefined_iff bs o2 n2 A2 B2 B2' ND K2) as U2.
    destruct (run_done_or_undefined bs o1 n1 A1 B1 K1) as [(s1 & P1 & G1' & O1) | R1];
    destruct (run_done_or_undefined bs o2 n2 A2 B2 K2) as [(s2 & P2 & G2' & O2) | R2].
    - rewrite (run_unfold bs o1 n1 K1), (run_unfold bs o2 n2 K2), P1, P2.
      rewrite (consistent_final o1 n1 s1 K1 P1), (consistent_final o2 n2 s2 K2 P2).
      destruct (user_agree bs); [rewrite !andb_true_l | reflexivity].
      assert (consistent_counts bs s1 = true -> forall w, In w (all_wires n) -> wcount s2 w = wcount s1 w) as F12
        by (intros C; apply forced_counts; auto).
      assert (consistent_counts bs s2 = true -> forall w, In w (all_wires n) -> wcount s1 w = wcount s2 w) as F21
        by (intros C; apply forced_counts; auto).
      assert (forall sa sb, (forall w, In w (all_wires n) -> wcount sa w = wcount sb w) ->
              map (fun b => map (written bs sa) (axes_of_block b)) (seq 0 n) = map (fun b => map (written bs sb) (axes_of_block b)) (seq 0 n)
              /\ map (fun b => map (wcount sa) (flat_map wires_of_axis (axes_of_block b))) (seq 0 n)
                 = map (fun b => map (wcount sb) (flat_map wires_of_axis (axes_of_block b))) (seq 0 n)) as OUT.
      { intros sa sb H. split; apply map_ext_in; intros b Hb; apply map_ext_in.
        - intros x Hx. assert (In x (all_axes n)) as Vx.
          { apply in_axes_of_block in Hx. apply in_all_axes. apply in_seq in Hb. lia. }
          unfold written. destruct (chopped bs x); [reflexivity|]. apply H. eapply vw_of_axis; [exact Vx | apply wire0_in].
        - intros w Hw. apply in_flat_map in Hw. destruct Hw as [x [Hx Hw]]. apply H.
          eapply vw_of_axis; [|exact Hw]. apply in_axes_of_block in Hx. apply in_all_axes. apply in_seq in Hb. lia. }
      destruct (consistent_counts bs s1) eqn:C1.
      + specialize (F12 eq_refl). rewrite (consistent_ext bs s2 s1 F12), C1.
        destruct (OUT s1 s2 (fun w Hw => eq_sym (F12 w Hw))) as [E1 E2]. rewrite E1, E2. reflexivity.
      + destruct (consistent_counts bs s2) eqn:C2; [|reflexivity].
        specialize (F21 eq_refl). rewrite (consistent_ext bs s1 s2 F21), C2 in C1. discriminate.
    - exfalso. apply U2 in R2. apply U1 in R2. rewrite (run_unfold bs o1 n1 K1), P1 in R2. destruct (consistent bs s1); discriminate.
    - exfalso. apply U1 in R1. apply U2 in R1. rewrite (run_unfold bs o2 n2 K2), P2 in R1. destruct (consistent bs s2); discriminate.
    - congruence.
  Qed.

  (** with the results of PropagateFinal.v: the outcome as a function of the input alone *)
  Theorem run_characterised o_coin o_nbrs : oracle_ok bs o_coin o_nbrs = true ->
    all_families_chopped bs -> ~ conflict bs ->
    (user_agree bs = true -> exists cs ws, run bs o_coin o_nbrs = Ok cs ws) /\
    (user_agree bs = false -> run bs o_coin o_nbrs = Inconsistent).
  Proof using ND.
    intros K AF NC. destruct (oracle_ok_incl bs o_coin o_nbrs K) as (A & B & B').
    destruct (no_conflict_counts bs o_coin o_nbrs A B B' ND K AF NC) as (s & P & C & X1 & X2).
    pose proof (consistent_final o_coin o_nbrs s K P) as CF. unfold consistent in CF. rewrite C in CF. simpl in CF.
    rewrite andb_true_r in CF. split; intro UA; rewrite UA in CF; auto.
  Qed.
End Indep3.
