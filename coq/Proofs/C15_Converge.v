(** C15: convergence of the in-place (Gauss-Seidel) averaging sweeps of Model/C15_Smooth.v to the
    harmonic configuration, for every schedule whose visited junctions all reach (through neighbour
    lists) a junction that is not visited (boundary / fixed).

    Idea.  [reachd k i]: [i] reaches a non-visited junction in at most [k] neighbour steps.  With
    [d] >= every valence and [g k = (1/d)^k], a state whose error is at most [M] everywhere satisfies,
    after [L] sweeps, error(i) <= (1 - g k) M for every [i] of depth k <= L: the update of a junction of
    depth k+1 averages one neighbour of depth k (already bounded by (1 - g k) M, before and after its
    own update) with neighbours bounded by M.  After [D] = maximal depth sweeps the max-norm error has
    contracted by the factor 1 - g D < 1; geometric decay and the Archimedean property of Q finish. *)
From Coq Require Import List Bool Arith ZArith QArith Qabs Lia Lqa.
From CB Require Import Model.C15_Smooth Proofs.C15_Smooth Proofs.C15_SmoothGraph.
Import ListNotations.
Close Scope Q_scope.
Open Scope nat_scope.

(** * depth *)
Inductive reachd (sched : list (nat * list nat)) : nat -> nat -> Prop :=
| reachd_stop k i : ~ In i (map fst sched) -> reachd sched k i
| reachd_go k i nb t : In (i, nb) sched -> In t nb -> reachd sched k t -> reachd sched (S k) i.

Lemma reachd_mono sched k i : reachd sched k i -> forall k', k <= k' -> reachd sched k' i.
Proof.
  induction 1 as [k i H|k i nb t Hin Ht Hr IH]; intros k' Hk.
  - apply reachd_stop. exact H.
  - destruct k' as [|k']; [lia|]. apply (reachd_go sched k' i nb t Hin Ht). apply IH. lia.
Qed.

Lemma reach_reachd sched i : reach sched i -> exists k, reachd sched k i.
Proof.
  induction 1 as [i H|i nb t Hin Ht Hr [k IH]].
  - exists 0. apply reachd_stop. exact H.
  - exists (S k). apply (reachd_go sched k i nb t Hin Ht IH).
Qed.

Lemma reachd_list sched (l : list nat) :
  (forall i, In i l -> reach sched i) -> exists D, forall i, In i l -> reachd sched D i.
Proof.
  induction l as [|a r IH]; intro H.
  - exists 0. intros i [].
  - destruct IH as [D1 H1]; [intros i Hi; apply H; right; exact Hi|].
    destruct (reach_reachd sched a (H a (or_introl eq_refl))) as [D2 H2].
    exists (D1 + D2). intros i [<-|Hi].
    + apply (reachd_mono sched D2); [exact H2|lia].
    + apply (reachd_mono sched D1); [apply H1; exact Hi|lia].
Qed.

Lemma reachd_all sched :
  (forall i, In i (map fst sched) -> reach sched i) -> exists D, forall i, reachd sched D i.
Proof.
  intro H. destruct (reachd_list sched (map fst sched) H) as [D HD]. exists D. intro i.
  destruct (in_dec Nat.eq_dec i (map fst sched)) as [Hin|Hnot]; [apply HD; exact Hin|apply reachd_stop; exact Hnot].
Qed.

Open Scope Q_scope.

(** * powers, sums *)
Fixpoint qpow (r : Q) (m : nat) : Q := match m with O => 1 | S m' => r * qpow r m' end.

Lemma qpow_range r m : 0 < r -> r <= 1 -> 0 < qpow r m /\ qpow r m <= 1.
Proof.
  intros H0 H1. induction m as [|m [A B]]; simpl; [split; lra|]. split.
  - apply Qmult_lt_0_compat; assumption.
  - setoid_replace 1 with (1 * 1) by ring. apply Qmult_le_compat_nonneg; split; lra.
Qed.

Lemma qpow_nonneg r m : 0 <= r -> 0 <= qpow r m.
Proof. intro H. induction m as [|m IH]; simpl; [lra|]. apply Qmult_le_0_compat; assumption. Qed.

(** Bernoulli, in the form needed: (1 - x)^m (1 + m x) <= 1 *)
Lemma qpow_bernoulli x m : 0 <= x -> x <= 1 ->
  qpow (1 - x) m * (1 + inject_Z (Z.of_nat m) * x) <= 1.
Proof.
  intros H0 H1. induction m as [|m IH].
  - simpl qpow. change (inject_Z (Z.of_nat 0)) with 0. lra.
  - assert (P : 0 <= qpow (1 - x) m) by (apply qpow_nonneg; lra).
    assert (E : inject_Z (Z.of_nat (S m)) == inject_Z (Z.of_nat m) + 1).
    { rewrite Nat2Z.inj_succ, <- Z.add_1_r, inject_Z_plus. reflexivity. }
    assert (Nn : 0 <= inject_Z (Z.of_nat m)).
    { change 0 with (inject_Z 0). rewrite <- Zle_Qle. lia. }
    simpl qpow. rewrite E.
    set (p := qpow (1 - x) m) in *. set (k := inject_Z (Z.of_nat m)) in *.
    assert (X : (1 - x) * p * (1 + (k + 1) * x) == p * (1 + k * x) - p * ((k + 1) * (x * x))) by ring.
    rewrite X.
    assert (Y : 0 <= p * ((k + 1) * (x * x))).
    { apply Qmult_le_0_compat; [exact P|]. apply Qmult_le_0_compat; [lra|]. apply Qmult_le_0_compat; lra. }
    lra.
Qed.

Lemma qmul_le_l a b c : 0 <= a -> b <= c -> a * b <= a * c.
Proof. intros Ha Hbc. rewrite (Qmult_comm a b), (Qmult_comm a c). apply Qmult_le_compat_r; assumption. Qed.

Lemma qpow_ext r r' m : r == r' -> qpow r m == qpow r' m.
Proof. intro E. induction m as [|m IH]; simpl; [reflexivity|]. rewrite IH, E. reflexivity. Qed.

Lemma qpow_small r M eps : 0 <= r -> r < 1 -> 0 <= M -> 0 < eps -> exists m, qpow r m * M <= eps.
Proof.
  intros H0 H1 HM He.
  set (x := 1 - r). assert (Hx : 0 < x) by (unfold x; lra). assert (Hx1 : x <= 1) by (unfold x; lra).
  destruct (Qarchimedean (M / (eps * x))) as [p Hp].
  exists (Pos.to_nat p).
  assert (B := qpow_bernoulli x (Pos.to_nat p) (Qlt_le_weak _ _ Hx) Hx1).
  assert (Er : qpow (1 - x) (Pos.to_nat p) == qpow r (Pos.to_nat p)) by (apply qpow_ext; unfold x; ring).
  rewrite Er in B. clear Er.
  assert (Ep : inject_Z (Z.of_nat (Pos.to_nat p)) == Z.pos p # 1).
  { rewrite positive_nat_Z. reflexivity. }
  rewrite Ep in B. clear Ep.
  set (q := qpow r (Pos.to_nat p)) in *.
  assert (Q0 : 0 <= q) by (apply qpow_nonneg; exact H0).
  set (P := Z.pos p # 1) in *.
  assert (Hex : 0 < eps * x) by (apply Qmult_lt_0_compat; assumption).
  assert (HMP : M < P * (eps * x)).
  { assert (E : M == (eps * x) * (M / (eps * x))) by (rewrite Qmult_div_r; [reflexivity|lra]).
    rewrite E at 1. rewrite (Qmult_comm P). apply Qmult_lt_l; [exact Hex|exact Hp]. }
  (* q (1 + P x) <= 1 and M <= P x eps:  q M <= q P x eps <= eps *)
  assert (A1 : q * M <= q * (P * (eps * x))).
  { apply qmul_le_l; [exact Q0|lra]. }
  assert (A2 : q * (P * (eps * x)) == eps * (q * (P * x))) by ring.
  assert (A3 : q * (P * x) <= 1).
  { assert (q * (1 + P * x) == q + q * (P * x)) by ring. lra. }
  assert (A4 : eps * (q * (P * x)) <= eps * 1).
  { apply qmul_le_l; lra. }
  lra.
Qed.

Lemma qsum_abs (f : nat -> Q) nb : Qabs (qsum (map f nb)) <= qsum (map (fun t => Qabs (f t)) nb).
Proof.
  induction nb as [|a r IH]; simpl.
  - apply Qle_refl.
  - eapply Qle_trans; [apply Qabs_triangle|]. lra.
Qed.

(** all terms <= M and one of them <= M - x: the sum is at most |nb| M - x *)
Lemma qsum_le_one (f : nat -> Q) nb M x t0 :
  (forall t, In t nb -> f t <= M) -> In t0 nb -> f t0 <= M - x -> 0 <= x ->
  qsum (map f nb) <= qlen nb * M - x.
Proof.
  induction nb as [|a r IH]; intros H Hin H0 Hx; [destruct Hin|].
  simpl map. simpl qsum. rewrite qlen_cons.
  assert (Ha : f a <= M) by (apply H; left; reflexivity).
  assert (Hr : forall t, In t r -> f t <= M) by (intros; apply H; right; assumption).
  destruct (Nat.eq_dec a t0) as [->|Hne].
  - pose proof (qsum_le f r M Hr). lra.
  - destruct Hin as [E|Hin]; [congruence|]. pose proof (IH Hr Hin H0 Hx). lra.
Qed.

Definition err (s h : list Q) (i : nat) : Q := Qabs (nth i s 0 - nth i h 0).

Lemma err_nonneg s h i : 0 <= err s h i.
Proof. apply Qabs_nonneg. Qed.

Lemma avg_diff s h nb : nb <> [] ->
  avg_spec s nb - avg_spec h nb == qsum (map (fun t => nth t s 0 - nth t h 0) nb) / qlen nb.
Proof.
  intro Hne. pose proof (qlen_pos _ Hne). unfold avg_spec.
  rewrite (qsum_sub (fun t => nth t s 0) (fun t => nth t h 0)). field. lra.
Qed.

(** the error of an average when all neighbours are within M and one within M - x *)
Lemma avg_err_bound s h nb M x t0 : nb <> [] ->
  (forall t, In t nb -> err s h t <= M) -> In t0 nb -> err s h t0 <= M - x -> 0 <= x ->
  Qabs (avg_spec s nb - avg_spec h nb) <= M - x / qlen nb.
Proof.
  intros Hne H Hin H0 Hx. pose proof (qlen_pos _ Hne) as Hp.
  rewrite (avg_diff s h nb Hne).
  assert (E : Qabs (qsum (map (fun t => nth t s 0 - nth t h 0) nb) / qlen nb)
              == Qabs (qsum (map (fun t => nth t s 0 - nth t h 0) nb)) / qlen nb).
  { unfold Qdiv. rewrite Qabs_Qmult. rewrite (Qabs_pos (/ qlen nb)); [reflexivity|].
    apply Qlt_le_weak. apply Qinv_lt_0_compat. exact Hp. }
  rewrite E. apply Qle_shift_div_r; [exact Hp|].
  eapply Qle_trans; [apply qsum_abs|].
  pose proof (qsum_le_one (fun t => err s h t) nb M x t0 H Hin H0 Hx) as S. unfold err in S at 1.
  assert (F : (M - x / qlen nb) * qlen nb == qlen nb * M - x) by (field; lra).
  rewrite F. exact S.
Qed.

Section Contraction.
  Variable sched : list (nat * list nat).
  Variable h : list Q.
  Variable d M : Q.
  Hypothesis WF : wf_sched (length h) sched.
  Hypothesis ND : NoDup (map fst sched).
  Hypothesis Hh : forall jn, In jn sched -> harmonic_at h jn.
  Hypothesis Hd1 : 1 <= d.
  Hypothesis Hd : forall jn, In jn sched -> qlen (snd jn) <= d.
  Hypothesis HM : 0 <= M.

  Definition g (k : nat) : Q := qpow (/ d) k.

  Lemma inv_d_range : 0 < / d /\ / d <= 1.
  Proof.
    split; [apply Qinv_lt_0_compat; lra|].
    apply Qle_shift_inv_r; lra.
  Qed.

  Lemma g_range k : 0 < g k /\ g k <= 1.
  Proof. destruct inv_d_range. apply qpow_range; assumption. Qed.

  Lemma g_succ k : g (S k) == g k / d.
  Proof. unfold g. simpl. unfold Qdiv. ring. Qed.

  (** the invariant: [L] completed sweeps, [P] the junctions already updated in the current one *)
  Definition Inv (L : nat) (P : nat -> Prop) (s : list Q) : Prop :=
    length s = length h
    /\ (forall i, (i < length h)%nat -> err s h i <= M)
    /\ (forall i, ~ In i (map fst sched) -> nth i s 0 == nth i h 0)
    /\ (forall k i, reachd sched k i -> (i < length h)%nat ->
          ((k <= L)%nat \/ (k = S L /\ P i)) -> err s h i <= (1 - g k) * M).

  Lemma Inv_weaken L (P P' : nat -> Prop) s : (forall i, P' i -> P i) -> Inv L P s -> Inv L P' s.
  Proof.
    intros Hsub (A & B & C & D). repeat split; auto.
    intros k i Hr Hi [Hk|[Hk HP]]; apply (D k i Hr Hi); [left; exact Hk|right; split; [exact Hk|apply Hsub; exact HP]].
  Qed.

  Lemma sched_functional j nb nb' : In (j, nb) sched -> In (j, nb') sched -> nb = nb'.
  Proof.
    clear - ND. induction sched as [|[a l] r IH]; intros H1 H2; [destruct H1|].
    simpl in ND. apply NoDup_cons_iff in ND. destruct ND as [Hnot ND'].
    destruct H1 as [E1|H1], H2 as [E2|H2].
    - congruence.
    - inversion E1; subst. exfalso. apply Hnot. apply in_map_iff. exists (j, nb'). auto.
    - inversion E2; subst. exfalso. apply Hnot. apply in_map_iff. exists (j, nb). auto.
    - apply IH; assumption.
  Qed.

  Lemma step_inv L P s jn : In jn sched -> Inv L P s -> Inv L (fun i => i = fst jn \/ P i) (step s jn).
  Proof.
    intros Hin (A & B & C & D). destruct jn as [j nb]. simpl fst.
    destruct (WF _ Hin) as (Hj & Hne & Hnb). simpl in Hj, Hne, Hnb.
    assert (Hjs : (j < length s)%nat) by (rewrite A; exact Hj).
    assert (Vis : In j (map fst sched)) by (apply in_map_iff; exists (j, nb); auto).
    assert (Hnew : nth j (step s (j, nb)) 0 - nth j h 0 == avg_spec s nb - avg_spec h nb).
    { rewrite step_value by exact Hjs. rewrite average_spec. pose proof (Hh _ Hin) as E. unfold harmonic_at in E.
      simpl in E. rewrite E. reflexivity. }
    assert (Hother : forall i, i <> j -> nth i (step s (j, nb)) 0 = nth i s 0).
    { intros i Hi. apply step_frame. exact Hi. }
    split; [rewrite step_length; exact A|]. split; [|split].
    - intros i Hi. destruct (Nat.eq_dec i j) as [->|Hne'].
      + unfold err. rewrite Hnew. apply avg_diff_bound; [exact Hne|]. intros t Ht. apply B. apply Hnb. exact Ht.
      + unfold err. rewrite (Hother i Hne'). apply B. exact Hi.
    - intros i Hi. assert (i <> j) by (intro; subst; contradiction). rewrite (Hother i H). apply C. exact Hi.
    - intros k i Hr Hi Hk. destruct (Nat.eq_dec i j) as [->|Hne'].
      + (* the updated junction *)
        assert (Hk' : (k <= S L)%nat) by (destruct Hk as [?|[? _]]; lia).
        inversion Hr as [k0 i0 Hnot|k0 i0 nb' t Hin' Ht Hrt]; subst; [contradiction|].
        assert (nb' = nb) by (apply (sched_functional j); assumption). subst nb'.
        assert (Ht' : (t < length h)%nat) by (apply Hnb; exact Ht).
        assert (Bt : err s h t <= (1 - g k0) * M) by (apply (D k0 t Hrt Ht'); left; lia).
        destruct (g_range k0) as [G0 G1].
        assert (X0 : 0 <= g k0 * M) by (apply Qmult_le_0_compat; lra).
        assert (Bt' : err s h t <= M - g k0 * M) by (ring_simplify in Bt; lra).
        pose proof (avg_err_bound s h nb M (g k0 * M) t Hne (fun u Hu => B u (Hnb u Hu)) Ht Bt' X0) as AB.
        unfold err. rewrite Hnew. eapply Qle_trans; [exact AB|].
        rewrite g_succ.
        pose proof (qlen_pos _ Hne) as Hp. pose proof (Hd _ Hin) as Hq. simpl in Hq.
        assert (Y : g k0 * M / d <= g k0 * M / qlen nb).
        { unfold Qdiv. apply qmul_le_l; [exact X0|]. apply Qle_shift_inv_r; [lra|].
          assert (Z : / qlen nb * d == d / qlen nb) by (unfold Qdiv; ring). rewrite Z.
          apply Qle_shift_div_l; lra. }
        assert (W : (1 - g k0 / d) * M == M - g k0 * M / d) by (field; lra).
        rewrite W. lra.
      + unfold err. rewrite (Hother i Hne'). apply (D k i Hr Hi).
        destruct Hk as [Hk|[Hk [HP|HP]]]; [left; exact Hk|contradiction|right; split; assumption].
  Qed.

  Lemma sweep_inv L : forall r P s, (forall jn, In jn r -> In jn sched) ->
    Inv L P s -> Inv L (fun i => In i (map fst r) \/ P i) (sweep r s).
  Proof.
    induction r as [|jn r IH]; intros P s Hsub H.
    - simpl. apply (Inv_weaken L P); [|exact H]. intros i [[]|Hi]. exact Hi.
    - rewrite sweep_cons.
      assert (H1 := step_inv L P s jn (Hsub jn (or_introl eq_refl)) H).
      assert (H2 := IH _ _ (fun x Hx => Hsub x (or_intror Hx)) H1).
      eapply Inv_weaken; [|exact H2].
      simpl. intros i [[E|Hi]|Hi]; [right; left; auto|left; exact Hi|right; right; exact Hi].
  Qed.

  Lemma sweep_level L s : Inv L (fun _ => False) s -> Inv (S L) (fun _ => False) (sweep sched s).
  Proof.
    intro H. pose proof (sweep_inv L sched _ s (fun jn Hjn => Hjn) H) as (A & B & C & D).
    repeat split; auto.
    intros k i Hr Hi [Hk|[_ []]].
    destruct (le_lt_dec k L) as [HkL|HkL]; [apply (D k i Hr Hi); left; exact HkL|].
    assert (k = S L) by lia. subst k.
    destruct (in_dec Nat.eq_dec i (map fst sched)) as [Hin|Hnot].
    - apply (D (S L) i Hr Hi). right. split; [reflexivity|left; exact Hin].
    - unfold err. rewrite (C i Hnot).
      assert (Z : nth i h 0 - nth i h 0 == 0) by ring. rewrite Z. simpl Qabs.
      destruct (g_range (S L)). apply Qmult_le_0_compat; lra.
  Qed.

  Lemma iterate_level k : forall L s, Inv L (fun _ => False) s -> Inv (k + L) (fun _ => False) (iterate k sched s).
  Proof.
    induction k as [|k IH]; intros L s H; [exact H|].
    simpl iterate. replace (S k + L)%nat with (k + S L)%nat by lia. apply IH. apply sweep_level. exact H.
  Qed.

  Lemma Inv_start s : length s = length h -> within M s h ->
    (forall i, ~ In i (map fst sched) -> nth i s 0 == nth i h 0) -> Inv 0 (fun _ => False) s.
  Proof.
    intros L W C. repeat split; auto.
    - intros i Hi. apply W. rewrite L. exact Hi.
    - intros k i Hr Hi [Hk|[_ []]]. assert (k = 0)%nat by lia. subst k.
      inversion Hr as [k0 i0 Hnot|]; subst.
      unfold err. rewrite (C i Hnot).
      assert (Z : nth i h 0 - nth i h 0 == 0) by ring. rewrite Z. simpl Qabs.
      unfold g. simpl. lra.
  Qed.

  (** [D] sweeps contract the max-norm distance to the harmonic configuration by 1 - (1/d)^D *)
  Theorem contraction D s : (forall i, reachd sched D i) ->
    length s = length h -> within M s h ->
    (forall i, ~ In i (map fst sched) -> nth i s 0 == nth i h 0) ->
    within ((1 - g D) * M) (iterate D sched s) h.
  Proof.
    intros HD L W C. pose proof (iterate_level D 0 s (Inv_start s L W C)) as (A & _ & _ & B).
    intros i Hi. rewrite A in Hi. apply (B D i (HD i) Hi). left. lia.
  Qed.
End Contraction.

(** * convergence *)
Lemma iterate_add a : forall b sched s, iterate (a + b) sched s = iterate b sched (iterate a sched s).
Proof. induction a as [|a IH]; intros b sched s; simpl; [reflexivity|]. apply IH. Qed.

Lemma within_le M M' s h : M <= M' -> within M s h -> within M' s h.
Proof. intros H W i Hi. eapply Qle_trans; [apply W; exact Hi|exact H]. Qed.

Lemma valence_bound (sched : list (nat * list nat)) :
  exists d, 1 <= d /\ forall jn, In jn sched -> qlen (snd jn) <= d.
Proof.
  set (mx := list_max (map (fun jn : nat * list nat => length (snd jn)) sched)).
  exists (inject_Z (Z.of_nat (S mx))). split.
  - change 1 with (inject_Z 1). rewrite <- Zle_Qle. lia.
  - intros jn Hin. unfold qlen. rewrite <- Zle_Qle. apply Nat2Z.inj_le.
    assert (F : Forall (fun k => (k <= mx)%nat) (map (fun jn : nat * list nat => length (snd jn)) sched)).
    { apply list_max_le. unfold mx. apply Nat.le_refl. }
    rewrite Forall_forall in F. specialize (F (length (snd jn))).
    assert (length (snd jn) <= mx)%nat by (apply F; apply in_map_iff; exists jn; auto). lia.
Qed.

Lemma qsum_term_le (f : nat -> Q) l i : (forall t, 0 <= f t) -> In i l -> f i <= qsum (map f l).
Proof.
  intros Hf. induction l as [|a r IH]; intros Hin; [destruct Hin|]. simpl.
  assert (0 <= qsum (map f r)).
  { clear IH Hin. induction r as [|b r' IH']; simpl; [lra|]. pose proof (Hf b). lra. }
  destruct Hin as [->|Hin]; [lra|]. pose proof (IH Hin). pose proof (Hf a). lra.
Qed.

Lemma within_exists s h : exists M, 0 <= M /\ within M s h.
Proof.
  exists (qsum (map (fun i => err s h i) (seq 0 (length s)))). split.
  - clear. induction (seq 0 (length s)) as [|a r IH]; simpl; [lra|]. pose proof (err_nonneg s h a). lra.
  - intros i Hi. apply (qsum_term_le (fun i => err s h i)); [intro; apply err_nonneg|]. apply in_seq. lia.
Qed.

Theorem convergence sched s h :
  length s = length h -> wf_sched (length s) sched -> NoDup (map fst sched) ->
  (forall jn, In jn sched -> harmonic_at h jn) ->
  (forall i, ~ In i (map fst sched) -> nth i s 0 == nth i h 0) ->
  (forall i, In i (map fst sched) -> reach sched i) ->
  forall eps, 0 < eps -> exists K, forall k, (K <= k)%nat -> within eps (iterate k sched s) h.
Proof.
  intros L WF ND Hh C Hr eps He.
  destruct (reachd_all sched Hr) as [D HD].
  destruct (valence_bound sched) as [d [Hd1 Hd]].
  destruct (within_exists s h) as [M [HM W]].
  rewrite L in WF.
  set (rho := 1 - g d D).
  destruct (g_range d Hd1 D) as [G0 G1].
  assert (R0 : 0 <= rho) by (unfold rho; lra). assert (R1 : rho < 1) by (unfold rho; lra).
  assert (Geo : forall m, within (qpow rho m * M) (iterate (m * D) sched s) h).
  { induction m as [|m IH].
    - simpl. apply (within_le M); [lra|exact W].
    - replace (S m * D)%nat with (m * D + D)%nat by lia. rewrite iterate_add.
      assert (P0 : 0 <= qpow rho m * M) by (apply Qmult_le_0_compat; [apply qpow_nonneg; exact R0|exact HM]).
      pose proof (contraction sched h d (qpow rho m * M) WF ND Hh Hd1 Hd P0 D (iterate (m * D) sched s) HD) as Ct.
      apply (within_le ((1 - g d D) * (qpow rho m * M))); [simpl qpow; fold rho; lra|].
      apply Ct.
      + rewrite iterate_length. exact L.
      + exact IH.
      + intros i Hi. rewrite iterate_frame by exact Hi. apply C. exact Hi. }
  destruct (qpow_small rho M eps R0 R1 HM He) as [m Hm].
  exists (m * D)%nat. intros k Hk.
  replace k with (m * D + (k - m * D))%nat by lia. rewrite iterate_add.
  apply iterate_monotone.
  - rewrite iterate_length. exact L.
  - rewrite iterate_length, L. exact WF.
  - exact Hh.
  - apply (within_le (qpow rho m * M)); [exact Hm|apply Geo].
Qed.

(** * convergence of [smooth] on a grid *)
Close Scope Q_scope.

(** a real schedule is well-formed as soon as every visited junction reaches a non-visited one
    (a junction without neighbours reaches nothing) *)
Lemma schedule_wf_sched ct cells n fixed :
  (forall i, In i (map fst (schedule ct cells n fixed)) -> reach (schedule ct cells n fixed) i) ->
  wf_sched n (schedule ct cells n fixed).
Proof.
  intros Hr jn Hin. destruct (schedule_wf_lt _ _ _ _ _ Hin) as [A B]. split; [exact A|]. split; [|exact B].
  assert (Hv : In (fst jn) (map fst (schedule ct cells n fixed))) by (apply in_map; exact Hin).
  pose proof (Hr _ Hv) as R. inversion R as [i Hnot|i nb t Hin' Ht _]; subst; [contradiction|].
  assert (ND := schedule_NoDup ct cells n fixed).
  destruct jn as [j nb0]. simpl in *.
  assert (nb = nb0) by (apply (sched_functional _ ND j); assumption). subst nb0.
  intro E. subst nb. destruct Ht.
Qed.

Theorem smooth_converges g fixed_idx targets tol2 xs ys zs hx hy hz :
  let fixed := fixed_idx ++ fix_points (g_n g) (xs, ys, zs) targets tol2 in
  let sch := schedule (g_ct g) (g_cells g) (g_n g) fixed in
  length xs = g_n g -> length ys = g_n g -> length zs = g_n g ->
  length hx = g_n g -> length hy = g_n g -> length hz = g_n g ->
  (forall jn, In jn sch -> harmonic_at hx jn /\ harmonic_at hy jn /\ harmonic_at hz jn) ->
  (forall i, ~ In i (map fst sch) ->
      (nth i xs 0 == nth i hx 0)%Q /\ (nth i ys 0 == nth i hy 0)%Q /\ (nth i zs 0 == nth i hz 0)%Q) ->
  (forall i, In i (map fst sch) -> reach sch i) ->
  forall eps, (0 < eps)%Q -> exists K, forall iters, K <= iters ->
    let '(xs', ys', zs') := smooth g fixed_idx targets tol2 iters (xs, ys, zs) in
    within eps xs' hx /\ within eps ys' hy /\ within eps zs' hz.
Proof.
  intros fixed sch Lx Ly Lz Lhx Lhy Lhz Hh Hb Hr eps He.
  assert (WF : wf_sched (g_n g) sch) by (apply schedule_wf_sched; exact Hr).
  assert (ND : NoDup (map fst sch)) by apply schedule_NoDup.
  assert (Cv : forall s h, length s = g_n g -> length h = g_n g ->
            (forall jn, In jn sch -> harmonic_at h jn) ->
            (forall i, ~ In i (map fst sch) -> (nth i s 0 == nth i h 0)%Q) ->
            exists K, forall k, K <= k -> within eps (iterate k sch s) h).
  { intros s h Ls Lh H1 H2. apply convergence; auto; [congruence|rewrite Ls; exact WF]. }
  destruct (Cv xs hx Lx Lhx (fun jn Hj => proj1 (Hh jn Hj)) (fun i Hi => proj1 (Hb i Hi))) as [Kx HKx].
  destruct (Cv ys hy Ly Lhy (fun jn Hj => proj1 (proj2 (Hh jn Hj))) (fun i Hi => proj1 (proj2 (Hb i Hi)))) as [Ky HKy].
  destruct (Cv zs hz Lz Lhz (fun jn Hj => proj2 (proj2 (Hh jn Hj))) (fun i Hi => proj2 (proj2 (Hb i Hi)))) as [Kz HKz].
  exists (Kx + Ky + Kz). intros iters Hk. unfold smooth. fold fixed. fold sch.
  split; [apply HKx; lia|]. split; [apply HKy; lia|apply HKz; lia].
Qed.
