(** Lemmas about Model/C17_ClampLink.v (clamps stay on their manifold, links keep their relation). *)
From Coq Require Import Reals Lra Psatz List Nsatz.
From CB Require Import Base.Vec3 Model.C17_ClampLink.
Import ListNotations.
Open Scope R_scope.

(** * vectors *)

Lemma norm2_zero a : norm2 a = 0 -> a = vzero.
Proof.
  destruct a as [[x y] z]. vec_simpl. intro H.
  assert (x = 0) by nra. assert (y = 0) by nra. assert (z = 0) by nra. subst. reflexivity.
Qed.

Lemma norm2_pos a : a <> vzero -> 0 < norm2 a.
Proof.
  intro H. destruct (Rle_lt_or_eq_dec _ _ (norm2_nonneg a)) as [Hl|He]; [exact Hl|].
  exfalso. apply H. apply norm2_zero. symmetry. exact He.
Qed.

Lemma norm_pos a : a <> vzero -> 0 < norm a.
Proof. intro H. unfold norm. apply sqrt_lt_R0. apply norm2_pos. exact H. Qed.

Lemma norm_of_norm2_1 a : norm2 a = 1 -> norm a = 1.
Proof. intro H. unfold norm. rewrite H. apply sqrt_1. Qed.

Lemma norm_zero_eq a : norm a = 0 -> a = vzero.
Proof. intro H. apply norm2_zero. rewrite <- norm_sq. rewrite H. ring. Qed.

Lemma norm_le_of_norm2 a b : norm2 a <= norm2 b -> norm a <= norm b.
Proof. intro H. unfold norm. apply sqrt_le_1; auto using norm2_nonneg. Qed.

Lemma norm2_le_of_norm a b : norm a <= norm b -> norm2 a <= norm2 b.
Proof.
  intro H. rewrite <- (norm_sq a), <- (norm_sq b).
  pose proof (norm_nonneg a). pose proof (norm_nonneg b). nra.
Qed.

Lemma vsub_eq_zero a b : vsub a b = vzero -> a = b.
Proof.
  destruct a as [[a1 a2] a3], b as [[b1 b2] b3]. unfold vsub, vzero, vx, vy, vz. simpl.
  intro H. inversion H. f_equal; [f_equal|]; lra.
Qed.

Lemma vsub_neq a b : a <> b -> vsub a b <> vzero.
Proof. intros H E. apply H. apply vsub_eq_zero. exact E. Qed.

Lemma vscale_nonzero k a : k <> 0 -> a <> vzero -> vscale k a <> vzero.
Proof.
  intros Hk Ha E. apply Ha. apply norm2_zero.
  assert (H : norm2 (vscale k a) = 0) by (rewrite E; vec_simpl; ring).
  rewrite norm2_scale in H. pose proof (norm2_nonneg a).
  assert (0 < k * k) by nra. nra.
Qed.

Lemma dot_vscale_l k a b : dot (vscale k a) b = k * dot a b.
Proof. vec_simpl; ring. Qed.

Lemma dot_vscale_r k a b : dot a (vscale k b) = k * dot a b.
Proof. vec_simpl; ring. Qed.

Lemma cross_vscale_l k a b : cross (vscale k a) b = vscale k (cross a b).
Proof. vec_ring. Qed.

Lemma cross_vscale_r k a b : cross a (vscale k b) = vscale k (cross a b).
Proof. vec_ring. Qed.

Lemma vscale_vscale k m a : vscale k (vscale m a) = vscale (k * m) a.
Proof. vec_ring. Qed.

Lemma vscale_1 a : vscale 1 a = a.
Proof. destruct a as [[x y] z]. vec_ring. Qed.

Lemma vadd_vsub_cancel a b : vadd (vsub a b) b = a.
Proof. destruct a as [[x y] z]. vec_ring. Qed.

Lemma vsub_vadd_cancel a b : vsub (vadd a b) b = a.
Proof. destruct a as [[x y] z]. vec_ring. Qed.

(** * unit_vector *)

Lemma unit_norm2 a : a <> vzero -> norm2 (unit a) = 1.
Proof.
  intro H. unfold unit. rewrite norm2_scale. rewrite <- norm_sq.
  pose proof (norm_pos a H). field. lra.
Qed.

Lemma unit_norm a : a <> vzero -> norm (unit a) = 1.
Proof. intro H. apply norm_of_norm2_1. apply unit_norm2. exact H. Qed.

Lemma unit_scale a : a <> vzero -> a = vscale (norm a) (unit a).
Proof.
  intro H. pose proof (norm_pos a H). unfold unit. destruct a as [[x y] z].
  apply vec_eq; unfold vscale, vx, vy, vz; simpl; field; lra.
Qed.

Lemma unit_nonzero a : a <> vzero -> unit a <> vzero.
Proof.
  intros H. unfold unit. apply vscale_nonzero; [|exact H].
  apply Rinv_neq_0_compat. pose proof (norm_pos a H). lra.
Qed.

Lemma unit_of_unit a : norm2 a = 1 -> unit a = a.
Proof.
  intro H. unfold unit. rewrite (norm_of_norm2_1 a H). rewrite Rinv_1. apply vscale_1.
Qed.

Lemma unit_unit a : a <> vzero -> unit (unit a) = unit a.
Proof. intro H. apply unit_of_unit. apply unit_norm2. exact H. Qed.

Lemma dot_unit_l a b : dot (unit a) b = dot a b / norm a.
Proof. unfold unit. rewrite dot_vscale_l. unfold Rdiv. ring. Qed.

(** * Rodrigues rotation with a unit axis *)

Lemma rot_cs_dot_k c s k v : norm2 k = 1 -> dot (rot_cs c s k v) k = dot v k.
Proof.
  destruct k as [[k1 k2] k3], v as [[v1 v2] v3]. unfold rot_cs. vec_simpl. intro H. nsatz.
Qed.

Lemma rot_cs_norm2 c s k v : norm2 k = 1 -> c * c + s * s = 1 -> norm2 (rot_cs c s k v) = norm2 v.
Proof.
  destruct k as [[k1 k2] k3], v as [[v1 v2] v3]. unfold rot_cs. vec_simpl. intros H1 H2. nsatz.
Qed.

Lemma rot_cs_cross_k c s k v :
  norm2 k = 1 -> c * c + s * s = 1 -> norm2 (cross (rot_cs c s k v) k) = norm2 (cross v k).
Proof.
  intros H1 H2. rewrite !lagrange. rewrite rot_cs_norm2 by assumption.
  rewrite rot_cs_dot_k by assumption. reflexivity.
Qed.

Lemma rot_cs_id k v : rot_cs 1 0 k v = v.
Proof. destruct v as [[v1 v2] v3]. unfold rot_cs. vec_ring. Qed.

Lemma sin_cos_1 x : cos x * cos x + sin x * sin x = 1.
Proof. pose proof (sin2_cos2 x) as H. unfold Rsqr in H. lra. Qed.

(** rotation commutes with taking the radius vector (component perpendicular to the axis) *)
Definition perp (k w : vec) : vec := vsub w (vscale (dot w k) k).

Lemma rl_radius_perp_eq o k p : rl_radius o k p = perp k (vsub p o).
Proof. reflexivity. Qed.

Lemma perp_rot c s k w : norm2 k = 1 -> perp k (rot_cs c s k w) = rot_cs c s k (perp k w).
Proof.
  destruct k as [[k1 k2] k3], w as [[w1 w2] w3].
  unfold perp, rot_cs, norm2, vadd, vsub, vscale, dot, cross, vx, vy, vz. cbn [fst snd]. intro H.
  apply vec_eq; unfold vx, vy, vz; cbn [fst snd]; nsatz.
Qed.

Lemma rl_radius_rot c s k o p :
  norm2 k = 1 ->
  rl_radius o k (vadd (rot_cs c s k (vsub p o)) o) = rot_cs c s k (rl_radius o k p).
Proof.
  intro H. rewrite !rl_radius_perp_eq. rewrite vsub_vadd_cancel. apply perp_rot. exact H.
Qed.

Lemma rl_radius_perp o k p : norm2 k = 1 -> dot (rl_radius o k p) k = 0.
Proof.
  destruct k as [[k1 k2] k3], o as [[o1 o2] o3], p as [[p1 p2] p3].
  unfold rl_radius, rl_height. vec_simpl. intro H. nsatz.
Qed.

(** for r perpendicular to the unit axis: cosine and sine of the turn *)
Lemma rot_cs_perp_dot c s k r :
  norm2 k = 1 -> dot r k = 0 -> dot r (rot_cs c s k r) = c * norm2 r.
Proof.
  destruct k as [[k1 k2] k3], r as [[r1 r2] r3]. unfold rot_cs. vec_simpl. intros H1 H2. nsatz.
Qed.

Lemma rot_cs_perp_cross c s k r :
  norm2 k = 1 -> dot r k = 0 -> dot (cross r (rot_cs c s k r)) k = s * norm2 r.
Proof.
  destruct k as [[k1 k2] k3], r as [[r1 r2] r3]. unfold rot_cs. vec_simpl. intros H1 H2. nsatz.
Qed.

(** two vectors perpendicular to a unit axis: their cross product is along the axis *)
Lemma perp_cross_sq r0 r1 k :
  norm2 k = 1 -> dot r0 k = 0 -> dot r1 k = 0 ->
  dot (cross r0 r1) k * dot (cross r0 r1) k = norm2 r0 * norm2 r1 - dot r0 r1 * dot r0 r1.
Proof.
  destruct k as [[k1 k2] k3], r0 as [[a1 a2] a3], r1 as [[b1 b2] b3]. vec_simpl. intros H1 H2 H3. nsatz.
Qed.

(** the turn that takes the direction of r0 to the direction of r1 (both perpendicular to k) *)
Lemma rot_unit_perp u0 u1 k :
  norm2 k = 1 -> norm2 u0 = 1 -> dot u0 k = 0 -> dot u1 k = 0 ->
  rot_cs (dot u0 u1) (dot (cross u0 u1) k) k u0 = u1.
Proof.
  destruct k as [[k1 k2] k3], u0 as [[a1 a2] a3], u1 as [[b1 b2] b3].
  unfold rot_cs. vec_simpl. intros Hk Ha H0 H1.
  apply vec_eq; unfold vx, vy, vz; simpl; nsatz.
Qed.

Lemma rl_cos_unit r0 r1 : rl_cos r0 r1 = dot (unit r0) (unit r1).
Proof.
  unfold rl_cos, unit. rewrite dot_vscale_l, dot_vscale_r. unfold Rdiv. rewrite Rinv_mult. ring.
Qed.

Lemma rl_sin_unit r0 r1 k : rl_sin r0 r1 k = dot (cross (unit r0) (unit r1)) k.
Proof.
  unfold rl_sin, unit. rewrite cross_vscale_l, cross_vscale_r, !dot_vscale_l.
  unfold Rdiv. rewrite Rinv_mult. ring.
Qed.

Lemma unit_perp r k : dot r k = 0 -> dot (unit r) k = 0.
Proof. intro H. unfold unit. rewrite dot_vscale_l, H. ring. Qed.

Lemma rot_cs_takes_r0_to_r1 r0 r1 k :
  norm2 k = 1 -> dot r0 k = 0 -> dot r1 k = 0 -> r0 <> vzero ->
  rot_cs (rl_cos r0 r1) (rl_sin r0 r1 k) k (unit r0) = unit r1.
Proof.
  intros Hk H0 H1 N0. rewrite rl_cos_unit, rl_sin_unit.
  apply rot_unit_perp; auto using unit_norm2, unit_perp.
Qed.

Lemma rl_cs_circle r0 r1 k :
  norm2 k = 1 -> dot r0 k = 0 -> dot r1 k = 0 -> r0 <> vzero -> r1 <> vzero ->
  rl_cos r0 r1 * rl_cos r0 r1 + rl_sin r0 r1 k * rl_sin r0 r1 k = 1.
Proof.
  intros Hk H0 H1 N0 N1. rewrite rl_cos_unit, rl_sin_unit.
  rewrite (perp_cross_sq (unit r0) (unit r1) k Hk) by auto using unit_perp.
  rewrite !unit_norm2 by assumption. ring.
Qed.

(** * LineClamp *)

Lemma cross_self a : cross a a = vzero.
Proof. unfold vzero. vec_ring. Qed.

Lemma vsub_vadd_l a b : vsub (vadd a b) a = b.
Proof. destruct b as [[x y] z]. vec_ring. Qed.

Lemma line_pos_affine p1 p2 t :
  line_pos p1 p2 t = vadd p1 (vscale (t / norm (vsub p2 p1)) (vsub p2 p1)).
Proof. unfold line_pos, unit. rewrite vscale_vscale. reflexivity. Qed.

Lemma line_on_line p1 p2 t : cross (vsub (line_pos p1 p2 t) p1) (vsub p2 p1) = vzero.
Proof.
  rewrite line_pos_affine, vsub_vadd_l, cross_vscale_l, cross_self. unfold vzero. vec_ring.
Qed.

Lemma line_param_is_distance p1 p2 t : p1 <> p2 -> norm (vsub (line_pos p1 p2 t) p1) = Rabs t.
Proof.
  intro H. unfold line_pos. rewrite vsub_vadd_l, norm_scale, unit_norm; [ring|].
  apply vsub_neq. auto.
Qed.

Lemma line_pos_0 p1 p2 : line_pos p1 p2 0 = p1.
Proof. unfold line_pos. destruct p1 as [[x y] z]. vec_ring. Qed.

Lemma line_pos_d p1 p2 : p1 <> p2 -> line_pos p1 p2 (norm (vsub p2 p1)) = p2.
Proof.
  intro H. unfold line_pos. rewrite <- unit_scale by (apply vsub_neq; auto).
  destruct p2 as [[x y] z]. vec_ring.
Qed.

Lemma line_segment p1 p2 t :
  p1 <> p2 -> 0 <= t <= norm (vsub p2 p1) ->
  exists s, 0 <= s <= 1 /\ line_pos p1 p2 t = vadd p1 (vscale s (vsub p2 p1)).
Proof.
  intros H [H0 H1]. exists (t / norm (vsub p2 p1)). split; [|apply line_pos_affine].
  assert (P : 0 < norm (vsub p2 p1)) by (apply norm_pos, vsub_neq; auto).
  split.
  - apply Rmult_le_pos; [exact H0|]. left. apply Rinv_0_lt_compat. exact P.
  - apply (Rmult_le_reg_r (norm (vsub p2 p1))); [exact P|]. unfold Rdiv.
    rewrite Rmult_assoc, Rinv_l by lra. lra.
Qed.

(** distance to a point of a line with unit direction [d] *)
Lemma dist2_line w d t :
  norm2 d = 1 -> norm2 (vsub w (vscale t d)) = norm2 w - dot w d * dot w d + (t - dot w d) * (t - dot w d).
Proof.
  destruct w as [[w1 w2] w3], d as [[d1 d2] d3]. vec_simpl. intro H. nsatz.
Qed.

Lemma vsub_line pos p1 d t : vsub pos (vadd p1 (vscale t d)) = vsub (vsub pos p1) (vscale t d).
Proof. vec_ring. Qed.

Definition is_argmin {P : Type} (dom : P -> Prop) (obj : P -> R) (q : P) : Prop :=
  dom q /\ forall q', dom q' -> obj q <= obj q'.

Lemma clipR_in lo hi x : lo <= hi -> lo <= clipR lo hi x <= hi.
Proof. intro H. unfold clipR, Rmax, Rmin. repeat destruct Rle_dec; lra. Qed.

Lemma clipR_closest lo hi x t :
  lo <= hi -> lo <= t <= hi -> (clipR lo hi x - x) * (clipR lo hi x - x) <= (t - x) * (t - x).
Proof.
  intros H Ht. pose proof (Rle_0_sqr (t - x)) as Q; unfold Rsqr in Q.
  unfold clipR, Rmax, Rmin; repeat destruct Rle_dec; try lra; try nra.
Qed.

Lemma clipR_closest_unique lo hi x t :
  lo <= hi -> lo <= t <= hi -> (t - x) * (t - x) <= (clipR lo hi x - x) * (clipR lo hi x - x) ->
  t = clipR lo hi x.
Proof. intros H Ht. unfold clipR, Rmax, Rmin; repeat destruct Rle_dec; intro Hs; try lra; try nra. Qed.

Lemma line_closest_argmin p1 p2 pos lo hi :
  p1 <> p2 -> lo <= hi ->
  is_argmin (fun t => lo <= t <= hi) (clamp_distance (line_pos p1 p2) pos) (line_closest_t p1 p2 pos lo hi).
Proof.
  intros H Hb. split; [apply clipR_in; exact Hb|].
  intros t Ht. unfold clamp_distance. apply norm_le_of_norm2.
  unfold line_pos, line_closest_t. rewrite !vsub_line.
  assert (U : norm2 (unit (vsub p2 p1)) = 1) by (apply unit_norm2, vsub_neq; auto).
  rewrite !dist2_line by exact U.
  pose proof (clipR_closest lo hi (dot (vsub pos p1) (unit (vsub p2 p1))) t Hb Ht). lra.
Qed.

Lemma line_closest_unique p1 p2 pos lo hi t :
  p1 <> p2 -> lo <= hi ->
  is_argmin (fun t => lo <= t <= hi) (clamp_distance (line_pos p1 p2) pos) t ->
  t = line_closest_t p1 p2 pos lo hi.
Proof.
  intros H Hb [Ht Hmin]. unfold line_closest_t. apply clipR_closest_unique; [exact Hb|exact Ht|].
  specialize (Hmin (line_closest_t p1 p2 pos lo hi) (clipR_in _ _ _ Hb)).
  unfold clamp_distance in Hmin. apply norm2_le_of_norm in Hmin.
  unfold line_pos, line_closest_t in Hmin. rewrite !vsub_line in Hmin.
  assert (U : norm2 (unit (vsub p2 p1)) = 1) by (apply unit_norm2, vsub_neq; auto).
  rewrite !dist2_line in Hmin by exact U. lra.
Qed.

(** * PlaneClamp *)

Lemma dot_cross_r_zero a b : dot (cross a b) b = 0.
Proof. vec_simpl; ring. Qed.

Lemma dot_cross_l_zero a b : dot (cross a b) a = 0.
Proof. vec_simpl; ring. Qed.

Lemma plane_u_perp n r : dot (plane_u n r) (unit n) = 0.
Proof. unfold plane_u, unit at 1. rewrite dot_vscale_l, dot_cross_r_zero. ring. Qed.

Lemma plane_v_perp n r : dot (plane_v n r) (unit n) = 0.
Proof. unfold plane_v, unit at 1. rewrite dot_vscale_l, dot_cross_r_zero. ring. Qed.

Lemma plane_u_v_perp n r : dot (plane_u n r) (plane_v n r) = 0.
Proof.
  unfold plane_v, unit at 1. rewrite dot_vscale_r, dot_comm, dot_cross_l_zero. ring.
Qed.

Lemma dot_n_of_unit x n : dot x (unit n) = 0 -> dot x n = 0.
Proof.
  intro H. destruct (Req_dec (norm n) 0) as [E|E].
  - rewrite (norm_zero_eq n E). vec_simpl; ring.
  - assert (N : n <> vzero).
    { intro Z. apply E. rewrite Z. unfold norm. replace (norm2 vzero) with 0 by (vec_simpl; ring). apply sqrt_0. }
    rewrite (unit_scale n N), dot_vscale_r, H. ring.
Qed.

Lemma dot_unit_of_n x n : n <> vzero -> dot x n = 0 -> dot x (unit n) = 0.
Proof. intros N H. unfold unit. rewrite dot_vscale_r, H. ring. Qed.

Lemma dot_vadd_l a b c : dot (vadd a b) c = dot a c + dot b c.
Proof. vec_simpl; ring. Qed.

(** for every parameter pair (and every auxiliary direction) the position is in the plane *)
Lemma plane_on_plane point n r uv : dot (vsub (plane_pos point n r uv) point) n = 0.
Proof.
  apply dot_n_of_unit. unfold plane_pos.
  replace (vsub (vadd (vadd point (vscale (fst uv) (plane_u n r))) (vscale (snd uv) (plane_v n r))) point)
    with (vadd (vscale (fst uv) (plane_u n r)) (vscale (snd uv) (plane_v n r))) by vec_ring.
  rewrite dot_vadd_l, !dot_vscale_l, plane_u_perp, plane_v_perp. ring.
Qed.

Lemma cross_vadd_self a r : cross (vadd a r) a = cross r a.
Proof. vec_ring. Qed.

Lemma cross_zero_l a : cross vzero a = vzero.
Proof. unfold vzero. vec_ring. Qed.

Lemma cross_zero_r a : cross a vzero = vzero.
Proof. unfold vzero. vec_ring. Qed.

(** the auxiliary direction is admissible as soon as it is not collinear with the normal *)
Lemma plane_frame n r :
  cross r n <> vzero ->
  n <> vzero /\ norm2 (plane_u n r) = 1 /\ norm2 (plane_v n r) = 1 /\
  dot (plane_u n r) (plane_v n r) = 0 /\ plane_v n r = cross (plane_u n r) (unit n).
Proof.
  intro H.
  assert (N : n <> vzero) by (intro E; apply H; rewrite E; apply cross_zero_r).
  pose proof (norm_pos n N) as Pn.
  assert (Hnn : norm2 (unit n) = 1) by (apply unit_norm2; exact N).
  assert (X1 : cross r (unit n) <> vzero).
  { unfold unit. rewrite cross_vscale_r. apply vscale_nonzero; [|exact H].
    apply Rinv_neq_0_compat. lra. }
  assert (W : vadd (unit n) r <> vzero).
  { intro E. apply X1. rewrite <- cross_vadd_self, E. apply cross_zero_l. }
  assert (X2 : cross (unit (vadd (unit n) r)) (unit n) <> vzero).
  { unfold unit at 1. rewrite cross_vscale_l. apply vscale_nonzero.
    - apply Rinv_neq_0_compat. pose proof (norm_pos _ W). lra.
    - rewrite cross_vadd_self. exact X1. }
  assert (HU : norm2 (plane_u n r) = 1) by (unfold plane_u; apply unit_norm2; exact X2).
  assert (HY : norm2 (cross (plane_u n r) (unit n)) = 1).
  { rewrite lagrange, HU, Hnn, plane_u_perp. ring. }
  assert (HV : plane_v n r = cross (plane_u n r) (unit n)) by (unfold plane_v; apply unit_of_unit; exact HY).
  repeat split; auto.
  - rewrite HV. exact HY.
  - apply plane_u_v_perp.
Qed.

(** orthonormal decomposition *)
Lemma frame_decomp (U N w : vec) :
  norm2 U = 1 -> norm2 N = 1 -> dot U N = 0 ->
  w = vadd (vadd (vscale (dot w U) U) (vscale (dot w (cross U N)) (cross U N))) (vscale (dot w N) N).
Proof.
  destruct U as [[u1 u2] u3], N as [[n1 n2] n3], w as [[w1 w2] w3]. vec_simpl. intros H1 H2 H3.
  apply vec_eq; unfold vx, vy, vz; simpl; nsatz.
Qed.

(** the parameters of the closest point give the orthogonal projection onto the plane *)
Lemma plane_closest_is_projection point n r pos :
  cross r n <> vzero ->
  plane_pos point n r (plane_closest_uv point n r pos) = plane_closest_point point n pos.
Proof.
  intro H. destruct (plane_frame n r H) as (N & HU & HV & HUV & HVe).
  assert (Hnn : norm2 (unit n) = 1) by (apply unit_norm2; exact N).
  unfold plane_pos, plane_closest_uv, plane_closest_point. cbn [fst snd].
  set (w := vsub pos point).
  pose proof (frame_decomp (plane_u n r) (unit n) w HU Hnn (plane_u_perp n r)) as D.
  rewrite <- HVe in D.
  set (U := plane_u n r) in *. set (V := plane_v n r) in *. set (k := unit n) in *.
  set (a := dot w U) in *. set (b := dot w V) in *. set (c := dot w k) in *.
  assert (E : pos = vadd point w) by (unfold w; destruct pos as [[x y] z]; vec_ring).
  clearbody a b c U V k. rewrite E. clearbody w. rewrite D. vec_ring.
Qed.

(** every point of the plane is reached: the clamp's parameters are coordinates of the plane *)
Lemma plane_onto point n r q :
  cross r n <> vzero -> dot (vsub q point) n = 0 ->
  plane_pos point n r (plane_closest_uv point n r q) = q.
Proof.
  intros H Hq. rewrite plane_closest_is_projection by exact H.
  destruct (plane_frame n r H) as (N & _).
  unfold plane_closest_point. rewrite (dot_unit_of_n _ n N Hq).
  destruct q as [[x y] z]. vec_ring.
Qed.

Lemma dist2_plane w U V u v :
  norm2 U = 1 -> norm2 V = 1 -> dot U V = 0 ->
  norm2 (vsub w (vadd (vscale u U) (vscale v V)))
  = norm2 w - dot w U * dot w U - dot w V * dot w V + (u - dot w U) * (u - dot w U) + (v - dot w V) * (v - dot w V).
Proof.
  destruct w as [[w1 w2] w3], U as [[u1 u2] u3], V as [[v1 v2] v3]. vec_simpl. intros H1 H2 H3. nsatz.
Qed.

Lemma vsub_plane pos point a b : vsub pos (vadd (vadd point a) b) = vsub (vsub pos point) (vadd a b).
Proof. vec_ring. Qed.

Lemma plane_closest_argmin point n r pos :
  cross r n <> vzero ->
  is_argmin (fun _ => True) (clamp_distance (plane_pos point n r) pos) (plane_closest_uv point n r pos).
Proof.
  intro H. destruct (plane_frame n r H) as (N & HU & HV & HUV & _).
  split; [exact I|]. intros [u v] _. unfold clamp_distance. apply norm_le_of_norm2.
  unfold plane_pos, plane_closest_uv. cbn [fst snd]. rewrite !vsub_plane.
  rewrite !(dist2_plane _ _ _ _ _ HU HV HUV).
  set (a := dot (vsub pos point) (plane_u n r)). set (b := dot (vsub pos point) (plane_v n r)).
  pose proof (Rle_0_sqr (u - a)) as Q1. pose proof (Rle_0_sqr (v - b)) as Q2. unfold Rsqr in Q1, Q2.
  replace ((a - a) * (a - a)) with 0 by ring. replace ((b - b) * (b - b)) with 0 by ring. lra.
Qed.

Lemma plane_closest_unique point n r pos uv :
  cross r n <> vzero ->
  is_argmin (fun _ => True) (clamp_distance (plane_pos point n r) pos) uv ->
  uv = plane_closest_uv point n r pos.
Proof.
  intros H [_ Hmin]. destruct (plane_frame n r H) as (N & HU & HV & HUV & _).
  specialize (Hmin (plane_closest_uv point n r pos) I).
  unfold clamp_distance in Hmin. apply norm2_le_of_norm in Hmin.
  destruct uv as [u v]. unfold plane_pos, plane_closest_uv in *. cbn [fst snd] in *.
  rewrite !vsub_plane in Hmin. rewrite !(dist2_plane _ _ _ _ _ HU HV HUV) in Hmin.
  set (a := dot (vsub pos point) (plane_u n r)) in *. set (b := dot (vsub pos point) (plane_v n r)) in *.
  replace ((a - a) * (a - a)) with 0 in Hmin by ring. replace ((b - b) * (b - b)) with 0 in Hmin by ring.
  pose proof (Rle_0_sqr (u - a)) as Q1. pose proof (Rle_0_sqr (v - b)) as Q2. unfold Rsqr in Q1, Q2.
  assert (Z1 : (u - a) * (u - a) = 0) by lra. assert (Z2 : (v - b) * (v - b) = 0) by lra.
  apply Rmult_integral in Z1. apply Rmult_integral in Z2.
  assert (u = a) by lra. assert (v = b) by lra. subst u v. reflexivity.
Qed.

(** * RadialClamp *)

Lemma rotate_sub p angle axis o :
  vsub (rotate p angle axis o) o = rot_cs (cos angle) (sin angle) (unit axis) (vsub p o).
Proof. unfold rotate. apply vsub_vadd_cancel. Qed.

Lemma rotate_0 p axis o : rotate p 0 axis o = p.
Proof. unfold rotate. rewrite cos_0, sin_0, rot_cs_id. apply vadd_vsub_cancel. Qed.

Lemma radial_on_circle p0 c n k t :
  n <> vzero ->
  norm2 (cross (vsub (radial_pos_k p0 c n k t) c) n) = norm2 (cross (vsub p0 c) n)
  /\ dot (vsub (radial_pos_k p0 c n k t) c) n = dot (vsub p0 c) n
  /\ norm2 (vsub (radial_pos_k p0 c n k t) c) = norm2 (vsub p0 c).
Proof.
  intro N. unfold radial_pos_k. rewrite rotate_sub.
  assert (Hk : norm2 (unit n) = 1) by (apply unit_norm2; exact N).
  pose proof (sin_cos_1 (k * t)) as Hcs.
  pose proof (unit_scale n N) as E. remember (unit n) as kk eqn:Ek. clear Ek.
  set (m := norm n) in *. clearbody m. rewrite E.
  split; [|split].
  - rewrite !cross_vscale_r, !norm2_scale.
    rewrite rot_cs_cross_k by assumption. reflexivity.
  - rewrite !dot_vscale_r.
    rewrite rot_cs_dot_k by assumption. reflexivity.
  - apply rot_cs_norm2; assumption.
Qed.

Lemma radial_distance_kept p0 c n k t :
  n <> vzero ->
  point_to_line_distance c n (radial_pos_k p0 c n k t) = point_to_line_distance c n p0.
Proof.
  intro N. unfold point_to_line_distance, norm.
  destruct (radial_on_circle p0 c n k t N) as (H & _). rewrite H. reflexivity.
Qed.

Lemma radial_pos_is_k p0 c n t : radial_pos p0 c n t = radial_pos_k p0 c n (/ radial_radius p0 c n) t.
Proof. unfold radial_pos, radial_pos_k. f_equal. unfold Rdiv. ring. Qed.

Lemma radial_pos_0 p0 c n k : radial_pos_k p0 c n k 0 = p0.
Proof. unfold radial_pos_k. rewrite Rmult_0_r. apply rotate_0. Qed.

(** * initial parameters: what an exact minimiser yields *)

Lemma clamp_init_props {P : Type} (fn : P -> vec) (minimise : (P -> R) -> P) (dom : P -> Prop) (pos : vec) :
  is_argmin dom (clamp_distance fn pos) (minimise (clamp_distance fn pos)) ->
  let c := clamp_init fn minimise pos in
  clamp_position c = fn (clamp_params c) /\ dom (clamp_params c)
  /\ (forall q, dom q -> norm (vsub pos (clamp_position c)) <= norm (vsub pos (fn q)))
  /\ (forall q, dom q -> fn q = pos -> clamp_position c = pos).
Proof.
  intros [Hd Hmin]. unfold clamp_init, clamp_update, clamp_position, clamp_params. cbn [fst snd].
  split; [reflexivity|]. split; [exact Hd|]. split.
  - intros q Hq. apply (Hmin q Hq).
  - intros q Hq E. specialize (Hmin q Hq). unfold clamp_distance in Hmin. rewrite E in Hmin.
    replace (vsub pos pos) with vzero in Hmin by (unfold vzero; vec_ring).
    assert (Z : norm vzero = 0).
    { unfold norm. replace (norm2 vzero) with 0 by (vec_simpl; ring). apply sqrt_0. }
    rewrite Z in Hmin. pose proof (norm_nonneg (vsub pos (fn (minimise (fun q0 => norm (vsub pos (fn q0))))))) as Hn.
    symmetry. apply vsub_eq_zero. apply norm_zero_eq.
    unfold clamp_distance in *. lra.
Qed.

(** * TranslationLink *)

Lemma tl_run_vector ops : forall s, tl_vector (tl_run s ops) = tl_vector s.
Proof.
  induction ops as [|op ops IH]; intro s; [reflexivity|].
  unfold tl_run in *. cbn [fold_left]. rewrite IH. destruct op; reflexivity.
Qed.

Lemma tl_run_app s ops ops' : tl_run s (ops ++ ops') = tl_run (tl_run s ops) ops'.
Proof. unfold tl_run. apply fold_left_app. Qed.

Lemma tl_update_law l0 f0 ops :
  let s := tl_run (tl_init l0 f0) ops in
  tl_follower (tl_step s Update) = vadd (tl_leader s) (vsub f0 l0)
  /\ tl_leader (tl_step s Update) = tl_leader s.
Proof.
  intro s. split; [|reflexivity].
  unfold tl_step, tl_follower. cbn [fst snd]. unfold s. rewrite tl_run_vector. reflexivity.
Qed.

Lemma tl_move_update_law l0 f0 ops p :
  let s := tl_run (tl_init l0 f0) (ops ++ [Move p; Update]) in
  tl_leader s = p /\ tl_follower s = vadd p (vsub f0 l0).
Proof.
  intro s. unfold s. rewrite tl_run_app. set (s0 := tl_run (tl_init l0 f0) ops).
  unfold tl_run. cbn [fold_left]. unfold tl_step, tl_leader, tl_follower, tl_vector. cbn [fst snd].
  split; [reflexivity|]. fold (tl_vector s0). unfold s0. rewrite tl_run_vector. reflexivity.
Qed.

(** * RotationLink *)

Lemma clip1_id x : -1 <= x <= 1 -> clip1 x = x.
Proof. intro H. unfold clip1, Rmin, Rmax. repeat destruct Rle_dec; lra. Qed.

Lemma sq_le_1_bounds c s : c * c + s * s = 1 -> -1 <= c <= 1.
Proof. intro H. pose proof (Rle_0_sqr s) as Q. unfold Rsqr in Q. split; nra. Qed.

Lemma rl_angle_cos_sin r0 r1 k :
  norm2 k = 1 -> dot r0 k = 0 -> dot r1 k = 0 -> r0 <> vzero -> r1 <> vzero ->
  cos (rl_angle r0 r1 k) = rl_cos r0 r1 /\ sin (rl_angle r0 r1 k) = rl_sin r0 r1 k.
Proof.
  intros Hk H0 H1 N0 N1.
  pose proof (rl_cs_circle r0 r1 k Hk H0 H1 N0 N1) as Hc.
  pose proof (sq_le_1_bounds _ _ Hc) as Hb.
  pose proof (norm_pos r0 N0) as P0. pose proof (norm_pos r1 N1) as P1.
  assert (Pm : 0 < norm r0 * norm r1) by (apply Rmult_lt_0_compat; assumption).
  unfold rl_angle, angle_between. rewrite <- rl_cos_unit. rewrite (clip1_id _ Hb).
  set (c := rl_cos r0 r1) in *. set (s := rl_sin r0 r1 k) in *.
  assert (Hsq : sqrt (1 - c²) = Rabs s).
  { replace (1 - c²) with (s²) by (unfold Rsqr; lra). apply sqrt_Rsqr_abs. }
  assert (Hsign : dot (cross r0 r1) k = s * (norm r0 * norm r1)).
  { unfold s, rl_sin. field. lra. }
  destruct (Rlt_dec (dot (cross r0 r1) k) 0) as [Hneg|Hpos].
  - rewrite cos_neg, sin_neg, cos_acos, sin_acos by exact Hb. split; [reflexivity|].
    rewrite Hsq. assert (s < 0) by nra. rewrite Rabs_left by assumption. ring.
  - rewrite cos_acos, sin_acos by exact Hb. split; [reflexivity|].
    rewrite Hsq. assert (0 <= s) by nra. apply Rabs_right. lra.
Qed.

Lemma rl_transform_cs_eq k leader :
  norm2 (rc_axis k) = 1 -> dot (rc_r0 k) (rc_axis k) = 0 -> rc_r0 k <> vzero ->
  rl_radius (rc_origin k) (rc_axis k) leader <> vzero ->
  rl_transform k leader = rl_transform_cs k leader.
Proof.
  intros Hk H0 N0 N1. unfold rl_transform, rl_transform_cs, rotate.
  destruct (rl_angle_cos_sin (rc_r0 k) (rl_radius (rc_origin k) (rc_axis k) leader) (rc_axis k))
    as [Hc Hs]; auto using rl_radius_perp.
  rewrite Hc, Hs. reflexivity.
Qed.

(** the constants a successfully constructed RotationLink holds *)
Lemma rl_init_some tol l f axis o s :
  0 < tol -> axis <> vzero -> rl_init tol l f axis o = Some s ->
  rl_leader s = l /\ rl_follower s = f /\ rc_origin (rl_const s) = o /\ rc_axis (rl_const s) = unit axis
  /\ rc_f0 (rl_const s) = f /\ rc_r0 (rl_const s) = rl_radius o (unit axis) l
  /\ rc_r0 (rl_const s) <> vzero /\ norm2 (rc_axis (rl_const s)) = 1
  /\ dot (rc_r0 (rl_const s)) (rc_axis (rl_const s)) = 0.
Proof.
  intros Ht Na. unfold rl_init. destruct Rlt_dec as [Hlt|Hge]; [discriminate|].
  intro E. inversion E. subst s. unfold rl_mk, rl_leader, rl_follower, rl_const in *. cbn [fst snd rc_origin rc_axis rc_f0 rc_r0] in *.
  repeat split; auto using unit_norm2, rl_radius_perp.
  intro Z. apply Hge. rewrite Z. unfold norm. replace (norm2 vzero) with 0 by (vec_simpl; ring).
  rewrite sqrt_0. exact Ht.
Qed.

Lemma rl_run_const ops : forall s, rl_const (rl_run s ops) = rl_const s.
Proof.
  induction ops as [|op ops IH]; intro s; [reflexivity|].
  unfold rl_run in *. cbn [fold_left]. rewrite IH. destruct op; reflexivity.
Qed.

(** the law of one update, for a leader anywhere off the axis: the follower is the original follower
    turned about the axis by the rotation (c, s) that takes the direction of the original leader
    radius to the direction of the current one *)
Lemma rl_update_law tol l0 f0 axis o s0 ops :
  0 < tol -> axis <> vzero -> rl_init tol l0 f0 axis o = Some s0 ->
  let s := rl_run s0 ops in
  let a := unit axis in
  let r0 := rl_radius o a l0 in
  let r1 := rl_radius o a (rl_leader s) in
  r1 <> vzero ->
  exists c sn, c * c + sn * sn = 1
    /\ rot_cs c sn a (unit r0) = unit r1
    /\ rl_follower (rl_step s Update) = vadd (rot_cs c sn a (vsub f0 o)) o
    /\ rl_leader (rl_step s Update) = rl_leader s.
Proof.
  intros Ht Na Hi s a r0 r1 N1.
  destruct (rl_init_some tol l0 f0 axis o s0 Ht Na Hi) as (_ & _ & Eo & Ea & Ef & Er & N0 & Hk & Hp).
  assert (Ec : rl_const s = rl_const s0) by (apply rl_run_const).
  exists (rl_cos r0 r1), (rl_sin r0 r1 a).
  assert (Hk' : norm2 a = 1) by (unfold a; apply unit_norm2; exact Na).
  assert (H0 : dot r0 a = 0) by (apply rl_radius_perp; exact Hk').
  assert (H1 : dot r1 a = 0) by (apply rl_radius_perp; exact Hk').
  assert (N0' : r0 <> vzero) by (unfold r0, a; rewrite <- Er; exact N0).
  split; [apply rl_cs_circle; assumption|].
  split; [apply rot_cs_takes_r0_to_r1; assumption|].
  split; [|reflexivity].
  unfold rl_step, rl_follower. cbn [fst snd]. rewrite Ec.
  rewrite rl_transform_cs_eq.
  - unfold rl_transform_cs. rewrite Eo, Ea, Ef, Er. rewrite unit_unit by exact Na. reflexivity.
  - exact Hk.
  - exact Hp.
  - exact N0.
  - rewrite Eo, Ea. exact N1.
Qed.

(** the leader turned about the link's own axis by any angle phi: the follower is the original
    follower turned by phi *)
Lemma rl_rotated_leader_law tol l0 f0 axis o s0 ops phi :
  0 < tol -> axis <> vzero -> rl_init tol l0 f0 axis o = Some s0 ->
  let s := rl_run s0 (ops ++ [Move (rotate l0 phi axis o); Update]) in
  rl_leader s = rotate l0 phi axis o /\ rl_follower s = rotate f0 phi axis o.
Proof.
  intros Ht Na Hi s.
  destruct (rl_init_some tol l0 f0 axis o s0 Ht Na Hi) as (_ & _ & Eo & Ea & Ef & Er & N0 & Hk & Hp).
  unfold s, rl_run. rewrite fold_left_app. fold (rl_run s0 ops). set (s1 := rl_run s0 ops).
  assert (Ec : rl_const s1 = rl_const s0) by (apply rl_run_const).
  cbn [fold_left]. unfold rl_step, rl_leader, rl_follower, rl_const. cbn [fst snd].
  split; [reflexivity|]. fold (rl_const s1). rewrite Ec.
  set (a := unit axis) in *. set (r0 := rl_radius o a l0) in *.
  assert (Hka : norm2 a = 1) by (unfold a; apply unit_norm2; exact Na).
  pose proof (sin_cos_1 phi) as Hcs.
  assert (Er1 : rl_radius o a (rotate l0 phi axis o) = rot_cs (cos phi) (sin phi) a r0).
  { unfold rotate. fold a. apply rl_radius_rot. exact Hka. }
  assert (H0 : dot r0 a = 0) by (apply rl_radius_perp; exact Hka).
  assert (N0' : r0 <> vzero) by (rewrite <- Er; exact N0).
  pose proof (norm_pos r0 N0') as P0. pose proof (norm_sq r0) as S0.
  assert (Hn1 : norm (rot_cs (cos phi) (sin phi) a r0) = norm r0).
  { unfold norm. rewrite rot_cs_norm2 by assumption. reflexivity. }
  assert (N1 : rot_cs (cos phi) (sin phi) a r0 <> vzero).
  { intro Z. rewrite Z in Hn1. unfold norm at 1 in Hn1. replace (norm2 vzero) with 0 in Hn1 by (vec_simpl; ring).
    rewrite sqrt_0 in Hn1. lra. }
  rewrite rl_transform_cs_eq; [|exact Hk|exact Hp|exact N0|rewrite Eo, Ea, Er1; exact N1].
  unfold rl_transform_cs. rewrite Eo, Ea, Ef, Er. fold r0. rewrite Er1.
  unfold rotate. fold a. rewrite (unit_of_unit a Hka).
  assert (Hc : rl_cos r0 (rot_cs (cos phi) (sin phi) a r0) = cos phi).
  { unfold rl_cos. rewrite Hn1, rot_cs_perp_dot by assumption. rewrite <- S0. field. lra. }
  assert (Hs : rl_sin r0 (rot_cs (cos phi) (sin phi) a r0) a = sin phi).
  { unfold rl_sin. rewrite Hn1, rot_cs_perp_cross by assumption. rewrite <- S0. field. lra. }
  rewrite Hc, Hs. reflexivity.
Qed.

(** the acos-free run used by the correspondence equals the transcribed run as long as the leader
    stays off the axis *)
Definition off_axis (k : rconst) (op : lop) : Prop :=
  match op with Move p => rl_radius (rc_origin k) (rc_axis k) p <> vzero | Update => True end.

Lemma rl_run_cs_eq ops : forall s,
  norm2 (rc_axis (rl_const s)) = 1 -> dot (rc_r0 (rl_const s)) (rc_axis (rl_const s)) = 0 ->
  rc_r0 (rl_const s) <> vzero ->
  rl_radius (rc_origin (rl_const s)) (rc_axis (rl_const s)) (rl_leader s) <> vzero ->
  Forall (off_axis (rl_const s)) ops ->
  rl_run_cs s ops = rl_run s ops.
Proof.
  induction ops as [|op ops IH]; intros s Hk Hp N0 N1 Hall; [reflexivity|].
  inversion Hall as [|x xs Hop Hrest]; subst.
  unfold rl_run_cs, rl_run in *. cbn [fold_left].
  assert (E : rl_step_cs s op = rl_step s op).
  { destruct op; [reflexivity|]. unfold rl_step_cs, rl_step. rewrite rl_transform_cs_eq by assumption. reflexivity. }
  rewrite E. apply IH; destruct op; unfold rl_step, rl_const, rl_leader in *; cbn [fst snd] in *; auto.
Qed.

(** * SymmetryLink *)

Lemma mirror_mat_reflect nn q : mirror_mat_apply nn q = vsub q (vscale (2 * dot q nn) nn).
Proof. unfold mirror_mat_apply. vec_ring. Qed.

Lemma mirror_is_reflect b p n o : n <> vzero -> fst (mirror b p n o) = reflect p n o.
Proof.
  intro N. unfold mirror, reflect. cbn [fst]. rewrite mirror_mat_reflect.
  unfold unit. rewrite dot_vscale_r, vscale_vscale.
  pose proof (norm_pos n N) as P. pose proof (norm_sq n) as S.
  replace (2 * (/ norm n * dot (vsub p o) n) * / norm n) with (2 * dot (vsub p o) n / norm2 n)
    by (rewrite <- S; field; lra).
  set (k := 2 * dot (vsub p o) n / norm2 n). clearbody k. vec_ring.
Qed.

Lemma mirror_arg b p n o : snd (mirror b p n o) = if b then vsub p o else p.
Proof. reflexivity. Qed.

Lemma reflect_midpoint_on_plane p n o :
  n <> vzero -> dot (vsub (vscale (1 / 2) (vadd p (reflect p n o))) o) n = 0.
Proof.
  intro N. pose proof (norm2_pos n N) as P. unfold reflect.
  destruct p as [[p1 p2] p3], n as [[n1 n2] n3], o as [[o1 o2] o3]. vec_simpl. field. lra.
Qed.

Lemma reflect_along_normal p n o : cross (vsub (reflect p n o) p) n = vzero.
Proof.
  unfold reflect. set (k := 2 * dot (vsub p o) n / norm2 n). clearbody k. unfold vzero. vec_ring.
Qed.

Lemma reflect_involutive p n o : n <> vzero -> reflect (reflect p n o) n o = p.
Proof.
  intro N. pose proof (norm2_pos n N) as P. unfold reflect.
  destruct p as [[p1 p2] p3], n as [[n1 n2] n3], o as [[o1 o2] o3]. vec_simpl.
  apply vec_eq; unfold vx, vy, vz; simpl; field; lra.
Qed.

Lemma norm2_sub_scale w k n : norm2 (vsub w (vscale k n)) = norm2 w - 2 * k * dot w n + k * k * norm2 n.
Proof. vec_simpl; ring. Qed.

Lemma reflect_equidistant p n o x :
  n <> vzero -> dot (vsub x o) n = 0 -> norm2 (vsub (reflect p n o) x) = norm2 (vsub p x).
Proof.
  intros N Hx. pose proof (norm2_pos n N) as P. unfold reflect.
  assert (Hd : dot (vsub p x) n = dot (vsub p o) n).
  { replace (dot (vsub p x) n) with (dot (vsub p o) n - dot (vsub x o) n) by (vec_simpl; ring). lra. }
  set (d := dot (vsub p o) n) in *. set (m := norm2 n) in *.
  replace (vsub (vsub p (vscale (2 * d / m) n)) x) with (vsub (vsub p x) (vscale (2 * d / m) n)) by vec_ring.
  rewrite norm2_sub_scale, Hd. fold m. field. lra.
Qed.

Lemma sl_run_const b ops : forall s0, snd (sl_run b s0 ops) = snd s0.
Proof.
  induction ops as [|op ops IH]; intro s0; [reflexivity|]. unfold sl_run in *. cbn [fold_left].
  rewrite IH. destruct op; reflexivity.
Qed.

Lemma sl_update_law b l f n o ops :
  n <> vzero ->
  let s := sl_run b (sl_init b l f n o) ops in
  sl_follower (sl_step b s Update) = reflect (sl_leader s) n o
  /\ sl_leader (sl_step b s Update) = if b then vsub (sl_leader s) o else sl_leader s.
Proof.
  intros N s.
  assert (Ec : snd s = (n, o)) by (unfold s; rewrite sl_run_const; reflexivity).
  unfold sl_step, sl_follower, sl_leader, sl_normal, sl_origin. cbn [fst snd]. rewrite Ec. cbn [fst snd].
  split; [apply mirror_is_reflect; exact N | apply mirror_arg].
Qed.

Lemma sl_init_leader b l f n o : sl_leader (sl_init b l f n o) = if b then vsub l o else l.
Proof. reflexivity. Qed.

(** what the in-place subtraction does to the leader (the defect): shifted by -origin *)
Lemma sl_inplace_alters_leader l f n o : o <> vzero -> sl_leader (sl_init true l f n o) <> l.
Proof.
  intros No E. rewrite sl_init_leader in E. apply No.
  destruct l as [[l1 l2] l3], o as [[o1 o2] o3]. unfold vsub, vzero, vx, vy, vz in *. cbn [fst snd] in *.
  inversion E. f_equal; [f_equal|]; lra.
Qed.

(** * initial parameters of RadialClamp and FreeClamp: distance zero at the start point *)

Lemma norm_vzero : norm vzero = 0.
Proof. unfold norm. replace (norm2 vzero) with 0 by (vec_simpl; ring). apply sqrt_0. Qed.

Lemma clamp_distance_self {P : Type} (fn : P -> vec) (q : P) : clamp_distance fn (fn q) q = 0.
Proof.
  unfold clamp_distance. replace (vsub (fn q) (fn q)) with vzero by (unfold vzero; vec_ring). apply norm_vzero.
Qed.

Lemma argmin_at_zero_distance {P : Type} (fn : P -> vec) (dom : P -> Prop) (q : P) :
  dom q -> is_argmin dom (clamp_distance fn (fn q)) q.
Proof.
  intro Hd. split; [exact Hd|]. intros q' _. rewrite clamp_distance_self. apply norm_nonneg.
Qed.

Lemma radial_initial_argmin p0 c n k (dom : R -> Prop) :
  dom 0 -> is_argmin dom (clamp_distance (radial_pos_k p0 c n k) p0) 0.
Proof.
  intro Hd. pose proof (argmin_at_zero_distance (radial_pos_k p0 c n k) dom 0 Hd) as H.
  rewrite radial_pos_0 in H. exact H.
Qed.

Lemma free_initial_argmin pos :
  is_argmin (fun _ => True) (clamp_distance free_pos pos) pos
  /\ forall q, is_argmin (fun _ => True) (clamp_distance free_pos pos) q -> q = pos.
Proof.
  split.
  - exact (argmin_at_zero_distance free_pos (fun _ => True) pos I).
  - intros q [_ Hmin]. specialize (Hmin pos I).
    change (clamp_distance free_pos pos pos) with (clamp_distance free_pos (free_pos pos) pos) in Hmin.
    rewrite clamp_distance_self in Hmin. unfold clamp_distance, free_pos in Hmin.
    pose proof (norm_nonneg (vsub pos q)) as Hn.
    symmetry. apply vsub_eq_zero. apply norm_zero_eq. lra.
Qed.
