(** C19 - core / shell of a mirrored round shape: the split by position stays geometric under every
    sequence of transformations, the split by identity of the bottom face only under an even number of
    mirrors (Model/C19_Mirror.v). *)
From Coq Require Import List Bool Arith Lia.
From Coq Require FinFun.
From CB Require Import Model.C19_Mirror.
Import ListNotations.

(** * 1. boolean predicates *)
Lemma memb_In : forall r l, memb r l = true <-> In r l.
Proof.
  intros r l. unfold memb. rewrite existsb_exists. split.
  - intros [x [Hin He]]. apply Nat.eqb_eq in He. subst. exact Hin.
  - intros Hin. exists r. split; [exact Hin | apply Nat.eqb_refl].
Qed.

Lemma memb_false : forall r l, memb r l = false <-> ~ In r l.
Proof.
  intros r l. rewrite <- memb_In. destruct (memb r l); split; intro H;
    [discriminate | exfalso; apply H; reflexivity | intro; discriminate | reflexivity].
Qed.

Lemma distinctb_NoDup : forall l, distinctb l = true <-> NoDup l.
Proof.
  induction l as [|x t IH]; simpl.
  - split; [constructor | reflexivity].
  - rewrite andb_true_iff, negb_true_iff, IH, memb_false. split.
    + intros [Hm Ht]. constructor; assumption.
    + intros Hn. inversion Hn; subst. split; assumption.
Qed.

Lemma fresh_tops_spec : forall fresh faces,
  fresh_tops fresh faces = true <-> (forall f, In f faces -> ~ In (fresh f) faces).
Proof.
  intros fresh faces. unfold fresh_tops. rewrite forallb_forall. split; intros H f Hf.
  - apply memb_false. apply negb_true_iff. apply H. exact Hf.
  - apply negb_true_iff. apply memb_false. apply H. exact Hf.
Qed.

(** * 2. filters *)
Lemma filter_all : forall (A : Type) (p : A -> bool) l, (forall x, In x l -> p x = true) -> filter p l = l.
Proof.
  intros A p l. induction l as [|x t IH]; intros H; [reflexivity|]. simpl.
  rewrite (H x (or_introl eq_refl)). f_equal. apply IH. intros y Hy. apply H. right. exact Hy.
Qed.

Lemma filter_none : forall (A : Type) (p : A -> bool) l, (forall x, In x l -> p x = false) -> filter p l = [].
Proof.
  intros A p l. induction l as [|x t IH]; intros H; [reflexivity|]. simpl.
  rewrite (H x (or_introl eq_refl)). apply IH. intros y Hy. apply H. right. exact Hy.
Qed.

Lemma filter_map_split : forall (A B : Type) (g : A -> B) (p : B -> bool) a b,
  (forall x, In x a -> p (g x) = false) -> (forall x, In x b -> p (g x) = true) ->
  filter p (map g (a ++ b)) = map g b /\ filter (fun y => negb (p y)) (map g (a ++ b)) = map g a.
Proof.
  intros A B g p a b Ha Hb. rewrite map_app, !filter_app. split.
  - rewrite filter_none, filter_all; [reflexivity| |];
      intros y Hy; apply in_map_iff in Hy; destruct Hy as [x [<- Hx]]; auto.
  - rewrite filter_all, filter_none; [apply app_nil_r| |];
      intros y Hy; apply in_map_iff in Hy; destruct Hy as [x [<- Hx]]; [rewrite Hb | rewrite Ha]; auto.
Qed.

Lemma NoDup_firstn_skipn : forall (l : list nat) n x, NoDup l -> In x (firstn n l) -> ~ In x (skipn n l).
Proof.
  intros l n x Hnd H1 H2. rewrite <- (firstn_skipn n l) in Hnd.
  revert Hnd H1 H2. generalize (firstn n l) (skipn n l). intros a b. induction a as [|y a IH]; intros Hnd H1 H2.
  - contradiction.
  - simpl in Hnd. inversion Hnd as [|? ? Hy Hnd']; subst. destruct H1 as [->|H1].
    + apply Hy. apply in_or_app. right. exact H2.
    + exact (IH Hnd' H1 H2).
Qed.

(** * 3. the state after any sequence of steps *)
Lemma op_invert_invol : forall o, op_invert (op_invert o) = o.
Proof. intros [b t]. reflexivity. Qed.

Lemma shape_mirror_invol : forall sh, shape_mirror (shape_mirror sh) = sh.
Proof.
  intros [fs n ops]. unfold shape_mirror. simpl. f_equal.
  rewrite map_map. rewrite <- (map_id ops) at 2. apply map_ext. apply op_invert_invol.
Qed.

Lemma run_shape : forall ts sh, run ts sh = if Nat.even (mirrors ts) then sh else shape_mirror sh.
Proof.
  induction ts as [|t ts IH]; intros sh; [reflexivity|].
  simpl run. rewrite IH. unfold mirrors. simpl filter. destruct t; simpl is_mirror; cbv iota; [reflexivity|].
  simpl length. rewrite Nat.even_succ, <- Nat.negb_even.
  destruct (Nat.even (length (filter is_mirror ts))); simpl; [reflexivity | apply shape_mirror_invol].
Qed.

(** the operation over face [f]: upright ([true]) or inverted ([false]) *)
Definition op_of (fresh : nat -> nat) (up : bool) (f : nat) : oper :=
  if up then mkOper f (fresh f) else mkOper (fresh f) f.

Lemma run_loft : forall ts fresh faces n,
  run ts (loft_shape fresh faces n) = mkShape faces n (map (op_of fresh (Nat.even (mirrors ts))) faces).
Proof.
  intros. rewrite run_shape. destruct (Nat.even (mirrors ts)); [reflexivity|].
  unfold shape_mirror, loft_shape. simpl. rewrite map_map. reflexivity.
Qed.

Lemma op_of_inj : forall fresh up f f', op_of fresh up f = op_of fresh up f' -> f = f'.
Proof. intros fresh [|] f f' H; inversion H; reflexivity. Qed.

(** * 4. the split by position is the geometric one, in every state *)
Section Split.
Context (fresh : nat -> nat) (faces : list nat) (n : nat) (up : bool).
Context (Hnd : NoDup faces) (Hfresh : forall f, In f faces -> ~ In (fresh f) faces).
Let sh := mkShape faces n (map (op_of fresh up) faces).

Lemma touches_op_of : forall f, In f faces -> touches_outer sh (op_of fresh up f) = memb f (skipn n faces).
Proof.
  intros f Hf. unfold touches_outer, shell_faces. simpl.
  assert (Hn : memb (fresh f) (skipn n faces) = false).
  { apply memb_false. intro Hin. apply (Hfresh f Hf).
    rewrite <- (firstn_skipn n faces). apply in_or_app. right. exact Hin. }
  destruct up; simpl; rewrite Hn; [apply orb_false_r | reflexivity].
Qed.

Lemma faces_core : forall f, In f (firstn n faces) -> In f faces.
Proof. intros f H. rewrite <- (firstn_skipn n faces). apply in_or_app. left. exact H. Qed.
Lemma faces_shell : forall f, In f (skipn n faces) -> In f faces.
Proof. intros f H. rewrite <- (firstn_skipn n faces). apply in_or_app. right. exact H. Qed.

Lemma split_by_position :
  shell_by_position sh = filter (touches_outer sh) (opers sh) /\
  core_by_position sh = filter (fun o => negb (touches_outer sh o)) (opers sh).
Proof.
  unfold shell_by_position, core_by_position. simpl.
  rewrite firstn_map, skipn_map.
  destruct (filter_map_split _ _ (op_of fresh up) (touches_outer sh) (firstn n faces) (skipn n faces)) as [H1 H2].
  - intros f Hf. rewrite touches_op_of by (apply faces_core; exact Hf).
    apply memb_false. apply NoDup_firstn_skipn; assumption.
  - intros f Hf. rewrite touches_op_of by (apply faces_shell; exact Hf). apply memb_In. exact Hf.
  - rewrite firstn_skipn in H1, H2. rewrite H1, H2. split; reflexivity.
Qed.

Lemma opers_NoDup : NoDup (opers sh).
Proof.
  simpl. apply FinFun.Injective_map_NoDup; [|exact Hnd]. intros a b. apply op_of_inj.
Qed.

(** the split by identity of the bottom face: right while the operations are upright, empty when inverted *)
Lemma split_by_identity :
  core_by_identity sh = if up then core_by_position sh else [].
Proof.
  unfold core_by_identity, core_by_position, core_faces. simpl.
  destruct up.
  - rewrite firstn_map.
    destruct (filter_map_split _ _ (op_of fresh true) (fun o => negb (memb (bottom o) (firstn n faces)))
                (firstn n faces) (skipn n faces)) as [_ H2].
    + intros f Hf. simpl. apply negb_false_iff. apply memb_In. exact Hf.
    + intros f Hf. simpl. apply negb_true_iff. apply memb_false. intro Hc.
      exact (NoDup_firstn_skipn faces n f Hnd Hc Hf).
    + rewrite firstn_skipn in H2. rewrite <- H2. apply filter_ext. intro o. rewrite negb_involutive. reflexivity.
  - apply filter_none. intros o Ho. apply in_map_iff in Ho. destruct Ho as [f [<- Hf]]. simpl.
    apply memb_false. intro Hc. apply (Hfresh f Hf). apply faces_core. exact Hc.
Qed.
End Split.

(** * 5. the theorems *)
(** for every sequence of moves and mirrors: core and shell by position partition the operations (in order,
    every operation once), the shell is exactly the operations touching the outer surface and the core exactly
    those that do not *)
Theorem core_shell_after_mirror : forall (ts : list step) fresh faces n,
  distinctb faces = true -> fresh_tops fresh faces = true ->
  let sh := run ts (loft_shape fresh faces n) in
  core_by_position sh ++ shell_by_position sh = opers sh /\
  NoDup (opers sh) /\
  length (opers sh) = length faces /\
  length (core_by_position sh) = Nat.min n (length faces) /\
  shell_by_position sh = filter (touches_outer sh) (opers sh) /\
  core_by_position sh = filter (fun o => negb (touches_outer sh o)) (opers sh) /\
  (forall o, In o (opers sh) ->
     (In o (shell_by_position sh) <-> touches_outer sh o = true) /\
     (In o (core_by_position sh) <-> touches_outer sh o = false)).
Proof.
  intros ts fresh faces n Hd Hf sh. apply distinctb_NoDup in Hd. rewrite fresh_tops_spec in Hf.
  unfold sh. rewrite run_loft. set (up := Nat.even (mirrors ts)).
  destruct (split_by_position fresh faces n up Hd Hf) as [Hs Hc].
  split; [apply firstn_skipn|].
  split; [apply opers_NoDup; assumption|].
  split; [simpl; apply map_length|].
  split; [unfold core_by_position; simpl; rewrite firstn_length, map_length; reflexivity|].
  split; [exact Hs|]. split; [exact Hc|].
  intros o Ho. rewrite Hs, Hc, !filter_In. split.
  - tauto.
  - rewrite negb_true_iff. tauto.
Qed.

(** the split by identity of the bottom face agrees when the number of mirrors is even ... *)
Theorem core_by_identity_even : forall (ts : list step) fresh faces n,
  distinctb faces = true -> fresh_tops fresh faces = true -> Nat.even (mirrors ts) = true ->
  let sh := run ts (loft_shape fresh faces n) in
  core_by_identity sh = core_by_position sh.
Proof.
  intros ts fresh faces n Hd Hf He sh. apply distinctb_NoDup in Hd. rewrite fresh_tops_spec in Hf.
  unfold sh. rewrite run_loft, He. exact (split_by_identity fresh faces n true Hd Hf).
Qed.

(** ... and is EMPTY when it is odd: no operation of the mirrored shape has a face of the sketch as its bottom *)
Theorem core_by_identity_odd : forall (ts : list step) fresh faces n,
  distinctb faces = true -> fresh_tops fresh faces = true -> Nat.even (mirrors ts) = false ->
  let sh := run ts (loft_shape fresh faces n) in
  core_by_identity sh = [] /\ length (core_by_position sh) = Nat.min n (length faces).
Proof.
  intros ts fresh faces n Hd Hf He sh.
  split; [|apply (core_shell_after_mirror ts fresh faces n Hd Hf)].
  apply distinctb_NoDup in Hd. rewrite fresh_tops_spec in Hf.
  unfold sh. rewrite run_loft, He. exact (split_by_identity fresh faces n false Hd Hf).
Qed.

(** * 6. the hypotheses are satisfiable: the miniature cylinder *)
Example mini_wf :
  distinctb mini_faces = true /\ fresh_tops mini_fresh mini_faces = true /\
  length (core_faces mini_cylinder) = 4 /\ length (shell_faces mini_cylinder) = 8 /\
  core_by_identity mini_cylinder = core_by_position mini_cylinder /\
  map bottom (core_by_position mini_cylinder) = [0; 1; 2; 3].
Proof. vm_compute. repeat split. Qed.

Example mini_run :
  let sh := run [SMirror; SMove; SMirror; SMirror] mini_cylinder in
  Nat.even (mirrors [SMirror; SMove; SMirror; SMirror]) = false /\
  map top (core_by_position sh) = [0; 1; 2; 3] /\ map top (shell_by_position sh) = [4; 5; 6; 7; 8; 9; 10; 11] /\
  forallb (touches_outer sh) (shell_by_position sh) = true /\
  existsb (touches_outer sh) (core_by_position sh) = false.
Proof. vm_compute. repeat split. Qed.

(** * 7. the seeded defect: by identity of the bottom face the core does NOT survive a single mirror *)
Definition by_identity_geometric_stmt : Prop :=
  forall (ts : list step) fresh faces n,
    distinctb faces = true -> fresh_tops fresh faces = true ->
    let sh := run ts (loft_shape fresh faces n) in
    core_by_identity sh = filter (fun o => negb (touches_outer sh o)) (opers sh).

Theorem core_by_identity_refuted :
  ~ by_identity_geometric_stmt /\
  (let sh := run [SMirror] mini_cylinder in
   core_by_identity sh = [] /\ shell_by_identity sh = opers sh /\
   core_by_position sh = [mkOper 12 0; mkOper 13 1; mkOper 14 2; mkOper 15 3] /\
   length (shell_by_position sh) = 8 /\
   filter (fun o => negb (touches_outer sh o)) (opers sh) = core_by_position sh).
Proof.
  split; [|vm_compute; repeat split; reflexivity].
  intro H. specialize (H [SMirror] mini_fresh mini_faces 4 eq_refl eq_refl).
  vm_compute in H. discriminate H.
Qed.
