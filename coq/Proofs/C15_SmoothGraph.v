(** The graph side of Model/C15_Smooth.v (C15): what the schedule of a grid contains, neighbour and
    boundary characterisations, the 3-D frame theorem, decidable side conditions, structured maps. *)
From Coq Require Import List Bool Arith ZArith QArith Qabs Lia Lqa.
From CB Require Import Model.C15_Smooth Proofs.C15_Smooth.
Import ListNotations.
Close Scope Q_scope.
Open Scope nat_scope.

Lemma memb_In x l : memb x l = true <-> In x l.
Proof.
  unfold memb. rewrite existsb_exists. split.
  - intros [y [H E]]. apply Nat.eqb_eq in E. subst. exact H.
  - intro H. exists x. split; [exact H|apply Nat.eqb_refl].
Qed.

Lemma memb_false x l : memb x l = false <-> ~ In x l.
Proof. rewrite <- memb_In. destruct (memb x l); split; congruence. Qed.

(** * the schedule *)
Lemma In_inner ct cells n j : In j (inner ct cells n) <-> j < n /\ is_boundary ct cells j = false.
Proof.
  unfold inner, is_boundary. rewrite filter_In, in_seq, negb_true_iff. split; intros [A B]; split; auto; lia.
Qed.

Lemma map_fst_schedule ct cells n fixed :
  map fst (schedule ct cells n fixed) = filter (fun j => negb (memb j fixed)) (inner ct cells n).
Proof. unfold schedule. rewrite map_map. simpl. apply map_id. Qed.

Lemma schedule_fst_spec ct cells n fixed j :
  In j (map fst (schedule ct cells n fixed)) <-> j < n /\ is_boundary ct cells j = false /\ ~ In j fixed.
Proof.
  rewrite map_fst_schedule, filter_In, In_inner, negb_true_iff, memb_false. tauto.
Qed.

Lemma In_schedule ct cells n fixed j nb :
  In (j, nb) (schedule ct cells n fixed) <->
  (j < n /\ is_boundary ct cells j = false /\ ~ In j fixed) /\ nb = nbrs ct cells n j.
Proof.
  rewrite <- schedule_fst_spec, map_fst_schedule. unfold schedule. rewrite in_map_iff. split.
  - intros [x [E H]]. inversion E; subst. split; [exact H|reflexivity].
  - intros [H ->]. exists j. split; [reflexivity|exact H].
Qed.

Lemma schedule_NoDup ct cells n fixed : NoDup (map fst (schedule ct cells n fixed)).
Proof. rewrite map_fst_schedule. unfold inner. apply NoDup_filter, NoDup_filter, seq_NoDup. Qed.

Lemma schedule_sub ct cells n fixed jn : In jn (schedule ct cells n fixed) -> In jn (schedule ct cells n []).
Proof.
  destruct jn as [j nb]. rewrite !In_schedule. intros [(A & B & _) E]. repeat split; auto.
Qed.

(** * neighbours *)
Lemma pair_set_eqb_spec x y j t : pair_set_eqb x y j t = true <-> (x = j /\ y = t) \/ (x = t /\ y = j).
Proof. unfold pair_set_eqb. rewrite orb_true_iff, !andb_true_iff, !Nat.eqb_eq. tauto. Qed.

(** [t] is joined to [j] by an edge of cell [c] *)
Definition joined (ct : celltype) (c : cell) (j t : nat) : Prop :=
  exists a b, In (a, b) (ct_edges ct) /\
    ((nth a c 0 = j /\ nth b c 0 = t) \/ (nth a c 0 = t /\ nth b c 0 = j)).

Theorem nbrs_spec ct cells n j t :
  In t (nbrs ct cells n j) <->
  t < n /\ t <> j /\ exists c, In c cells /\ In j c /\ joined ct c j t.
Proof.
  unfold nbrs, nbrs_in. rewrite filter_In, in_seq, andb_true_iff, negb_true_iff, Nat.eqb_neq.
  unfold connected_in, cell_conns. rewrite existsb_exists. split.
  - intros [Hn [Hne [cc [Hin Hc]]]]. apply in_map_iff in Hin. destruct Hin as [c [<- Hc0]]. simpl in Hc.
    apply andb_true_iff in Hc. destruct Hc as [Hm Hex]. apply memb_In in Hm.
    apply existsb_exists in Hex. destruct Hex as [xy [Hxy Hp]]. unfold connections in Hxy.
    apply in_map_iff in Hxy. destruct Hxy as [[a b] [<- Hab]]. simpl in Hp. apply pair_set_eqb_spec in Hp.
    split; [lia|]. split; [exact Hne|]. exists c. split; [exact Hc0|]. split; [exact Hm|].
    exists a, b. split; [exact Hab|exact Hp].
  - intros [Hn [Hne [c [Hc0 [Hm [a [b [Hab Hp]]]]]]]]. split; [lia|]. split; [exact Hne|].
    exists (c, connections ct c). split; [apply in_map_iff; exists c; auto|]. simpl.
    apply andb_true_iff. split; [apply memb_In; exact Hm|].
    apply existsb_exists. exists (nth a c 0, nth b c 0). split.
    + unfold connections. apply in_map_iff. exists (a, b). auto.
    + simpl. apply pair_set_eqb_spec. exact Hp.
Qed.

Lemma nbrs_NoDup ct cells n j : NoDup (nbrs ct cells n j).
Proof. unfold nbrs, nbrs_in. apply NoDup_filter, seq_NoDup. Qed.

(** * boundary *)
Lemma In_combine_seq {A} (l : list A) : forall s k x,
  In (k, x) (combine (seq s (length l)) l) <-> s <= k /\ nth_error l (k - s) = Some x.
Proof.
  induction l as [|y r IH]; intros s k x; simpl.
  - split; [tauto|]. intros [_ H]. destruct (k - s); discriminate.
  - rewrite IH. split.
    + intros [E|[H1 H2]].
      * inversion E; subst. split; [lia|]. rewrite Nat.sub_diag. reflexivity.
      * split; [lia|]. replace (k - s) with (S (k - S s)) by lia. exact H2.
    + intros [H1 H2]. destruct (Nat.eq_dec k s) as [->|Hne].
      * rewrite Nat.sub_diag in H2. simpl in H2. left. congruence.
      * right. split; [lia|]. replace (k - s) with (S (k - S s)) in H2 by lia. exact H2.
Qed.

Lemma In_enumerate {A} (l : list A) k x : In (k, x) (enumerate l) <-> nth_error l k = Some x.
Proof. unfold enumerate. rewrite In_combine_seq, Nat.sub_0_r. split; [tauto|]. intro; split; [lia|assumption]. Qed.

(** no other cell shares side [i] of cell number [k] *)
Definition side_free (ct : celltype) (cells : list cell) (k : nat) (c : cell) (i : nat) : Prop :=
  forall k2 c2, nth_error cells k2 = Some c2 -> k2 <> k -> common_side ct c c2 <> Some i.

Lemma side_has_neighbour_false ct cells k c i :
  side_has_neighbour ct cells k c i = false <-> side_free ct cells k c i.
Proof.
  unfold side_has_neighbour, side_free. split.
  - intros H k2 c2 Hn Hne Hs.
    assert (T : existsb (fun kc => negb (fst kc =? k) &&
        match common_side ct c (snd kc) with Some i' => i' =? i | None => false end) (enumerate cells) = true).
    { apply existsb_exists. exists (k2, c2). split; [apply In_enumerate; exact Hn|]. simpl.
      rewrite Hs, Nat.eqb_refl. apply Nat.eqb_neq in Hne. rewrite Hne. reflexivity. }
    congruence.
  - intro H. apply not_true_is_false. intro T. apply existsb_exists in T.
    destruct T as [[k2 c2] [Hin Hb]]. simpl in Hb. apply andb_true_iff in Hb. destruct Hb as [Hk Hs].
    apply negb_true_iff, Nat.eqb_neq in Hk. apply In_enumerate in Hin.
    destruct (common_side ct c c2) as [i'|] eqn:E; [|discriminate]. apply Nat.eqb_eq in Hs. subst i'.
    exact (H k2 c2 Hin Hk E).
Qed.

Theorem is_boundary_spec ct cells j :
  is_boundary ct cells j = true <->
  exists k c i sd, nth_error cells k = Some c /\ In j c /\ nth_error (ct_sides ct) i = Some sd /\
                   In j (map (fun a => nth a c 0) sd) /\ side_free ct cells k c i.
Proof.
  unfold is_boundary, is_boundary_in, boundaries. rewrite existsb_exists. split.
  - intros [cb [Hin Hb]]. apply in_map_iff in Hin. destruct Hin as [[k c] [<- Hkc]]. simpl in Hb.
    apply andb_true_iff in Hb. destruct Hb as [Hm Hbd]. apply memb_In in Hm, Hbd.
    unfold cell_boundary in Hbd. apply in_flat_map in Hbd. destruct Hbd as [[i sd] [Hisd Hj]]. simpl in Hj.
    destruct (side_has_neighbour ct cells k c i) eqn:E; [destruct Hj|].
    exists k, c, i, sd. apply In_enumerate in Hkc, Hisd. repeat split; auto.
    apply side_has_neighbour_false. exact E.
  - intros (k & c & i & sd & Hkc & Hm & Hisd & Hj & Hf).
    exists (c, cell_boundary ct cells k c). split.
    + apply in_map_iff. exists (k, c). split; [reflexivity|apply In_enumerate; exact Hkc].
    + simpl. apply andb_true_iff. split; apply memb_In; [exact Hm|].
      unfold cell_boundary. apply in_flat_map. exists (i, sd). split; [apply In_enumerate; exact Hisd|]. simpl.
      apply side_has_neighbour_false in Hf. rewrite Hf. exact Hj.
Qed.

(** * fixing by position *)
Open Scope Q_scope.
Lemma fix_points_spec n p targets tol2 j :
  In j (fix_points n p targets tol2) <->
  (j < n)%nat /\ exists t, In t targets /\ sqdist t (pt_at p j) < tol2.
Proof.
  unfold fix_points. rewrite filter_In, in_seq, existsb_exists. split.
  - intros [Hn [t [Ht Hb]]]. split; [lia|]. exists t. split; [exact Ht|].
    unfold Qlt_b in Hb. apply negb_true_iff in Hb. apply Qnot_le_lt. intro Hle.
    apply Qle_bool_iff in Hle. congruence.
  - intros [Hn [t [Ht Hlt]]]. split; [lia|]. exists t. split; [exact Ht|].
    unfold Qlt_b. apply negb_true_iff. apply not_true_is_false. intro Hb. apply Qle_bool_iff in Hb.
    apply (Qlt_not_le _ _ Hlt Hb).
Qed.
Close Scope Q_scope.

(** * frame, in three dimensions *)
Definition fixed_set (g : grid) (fixed_idx : list nat) (targets : list pt) (tol2 : Q) (p : pts) : list nat :=
  fixed_idx ++ fix_points (g_n g) p targets tol2.

Definition is_free (g : grid) (fixed : list nat) (j : nat) : Prop :=
  j < g_n g /\ is_boundary (g_ct g) (g_cells g) j = false /\ ~ In j fixed.

Theorem smooth_frame g fixed_idx targets tol2 iters p j :
  ~ is_free g (fixed_set g fixed_idx targets tol2 p) j ->
  pt_at (smooth g fixed_idx targets tol2 iters p) j = pt_at p j.
Proof.
  intro H. unfold smooth. destruct p as [[xs ys] zs].
  fold (fixed_set g fixed_idx targets tol2 (xs, ys, zs)).
  set (fx := fixed_set g fixed_idx targets tol2 (xs, ys, zs)) in *.
  assert (N : ~ In j (map fst (schedule (g_ct g) (g_cells g) (g_n g) fx))).
  { intro Hin. apply schedule_fst_spec in Hin. apply H. exact Hin. }
  unfold pt_at. rewrite !iterate_frame by exact N. reflexivity.
Qed.

Theorem smooth_frame_cases g fixed_idx targets tol2 iters p j :
  (is_boundary (g_ct g) (g_cells g) j = true \/ In j fixed_idx
   \/ (exists t, In t targets /\ (sqdist t (pt_at p j) < tol2)%Q) \/ g_n g <= j) ->
  pt_at (smooth g fixed_idx targets tol2 iters p) j = pt_at p j.
Proof.
  intro H. apply smooth_frame.
  intros (Hn & Hb & Hf). unfold fixed_set in Hf. rewrite in_app_iff in Hf.
  destruct H as [H|[H|[H|H]]].
  - congruence.
  - tauto.
  - apply Hf. right. apply fix_points_spec. split; [exact Hn|exact H].
  - lia.
Qed.

Lemma smooth_lengths g fixed_idx targets tol2 iters xs ys zs :
  let '(xs', ys', zs') := smooth g fixed_idx targets tol2 iters (xs, ys, zs) in
  length xs' = length xs /\ length ys' = length ys /\ length zs' = length zs.
Proof. unfold smooth. rewrite !iterate_length. auto. Qed.

(** * decidable side conditions *)
Definition wf_schedb (n : nat) (sched : list (nat * list nat)) : bool :=
  forallb (fun jn => (fst jn <? n) && negb (match snd jn with [] => true | _ => false end)
                     && forallb (fun t => t <? n) (snd jn)) sched.

Lemma wf_schedb_sound n sched : wf_schedb n sched = true -> wf_sched n sched.
Proof.
  unfold wf_schedb, wf_sched. rewrite forallb_forall. intros H jn Hin. specialize (H jn Hin).
  apply andb_true_iff in H. destruct H as [H H3]. apply andb_true_iff in H. destruct H as [H1 H2].
  apply Nat.ltb_lt in H1. split; [exact H1|]. split.
  - destruct (snd jn); [discriminate|congruence].
  - rewrite forallb_forall in H3. intros t Ht. apply Nat.ltb_lt. apply H3. exact Ht.
Qed.

Lemma schedule_wf_lt ct cells n fixed jn :
  In jn (schedule ct cells n fixed) -> fst jn < n /\ forall t, In t (snd jn) -> t < n.
Proof.
  destruct jn as [j nb]. rewrite In_schedule. intros [(A & _ & _) ->]. simpl. split; [exact A|].
  intros t Ht. apply nbrs_spec in Ht. tauto.
Qed.

(** every visited junction reaches a junction that is not visited (boundary or fixed) *)
(** [existsb] that stops at the first hit also under call-by-value evaluation *)
Fixpoint lazy_exists (f : nat -> bool) (l : list nat) : bool :=
  match l with
  | [] => false
  | a :: r => if f a then true else lazy_exists f r
  end.

Lemma lazy_exists_spec f l : lazy_exists f l = true -> exists t, In t l /\ f t = true.
Proof.
  induction l as [|a r IH]; simpl; [discriminate|].
  destruct (f a) eqn:E.
  - intros _. exists a. auto.
  - intro H. destruct (IH H) as [t [A B]]. exists t. auto.
Qed.

Fixpoint reach_fuel (sched : list (nat * list nat)) (fuel : nat) (i : nat) : bool :=
  match fuel with
  | O => false
  | S f =>
      match find (fun jn => fst jn =? i) sched with
      | None => true
      | Some jn => lazy_exists (reach_fuel sched f) (snd jn)
      end
  end.

Lemma reach_fuel_sound sched fuel : forall i, reach_fuel sched fuel i = true -> reach sched i.
Proof.
  induction fuel as [|f IH]; intros i H; [discriminate|]. simpl in H.
  destruct (find (fun jn => fst jn =? i) sched) as [[j nb]|] eqn:E.
  - apply find_some in E. destruct E as [Hin Hj]. simpl in Hj. apply Nat.eqb_eq in Hj. subst j.
    simpl in H. apply lazy_exists_spec in H. destruct H as [t [Ht Hr]].
    apply (reach_go sched i nb t Hin Ht). apply IH. exact Hr.
  - apply reach_stop. intro Hin. apply in_map_iff in Hin. destruct Hin as [jn [Hj Hin]].
    pose proof (find_none _ _ E jn Hin) as N. simpl in N. rewrite Hj, Nat.eqb_refl in N. discriminate.
Qed.

Definition all_reach (sched : list (nat * list nat)) : bool :=
  forallb (fun jn => reach_fuel sched (S (length sched)) (fst jn)) sched.

Lemma all_reach_sound sched : all_reach sched = true -> forall i, In i (map fst sched) -> reach sched i.
Proof.
  unfold all_reach. rewrite forallb_forall. intros H i Hin. apply in_map_iff in Hin.
  destruct Hin as [jn [<- Hin]]. eapply reach_fuel_sound. apply H. exact Hin.
Qed.

(** * structured maps *)
Definition sidx (nx i j : nat) : nat := j * S nx + i.
Definition struct_cells (nx ny : nat) : list cell :=
  flat_map (fun j => map (fun i => [sidx nx i j; sidx nx (S i) j; sidx nx (S i) (S j); sidx nx i (S j)]) (seq 0 nx))
           (seq 0 ny).
Definition struct_n (nx ny : nat) : nat := S nx * S ny.
Definition struct_grid (ct : celltype) (nx ny : nat) : grid :=
  {| g_ct := ct; g_cells := struct_cells nx ny; g_n := struct_n nx ny |}.

Definition colX (nx k : nat) : Q := inject_Z (Z.of_nat (k mod S nx)).
Definition rowY (nx k : nat) : Q := inject_Z (Z.of_nat (k / S nx)).

Definition border (nx ny k : nat) : bool :=
  let i := k mod S nx in let j := k / S nx in (i =? 0) || (i =? nx) || (j =? 0) || (j =? ny).

Definition harmonic_fnb (f : nat -> Q) (jn : nat * list nat) : bool :=
  Qeq_bool (qlen (snd jn) * f (fst jn)) (qsum (map f (snd jn))).

(** everything the lattice theorem needs of one size, decidable; [sch] is the schedule *)
Definition lattice_ok_sch (ct : celltype) (nx ny : nat) (sch : list (nat * list nat)) : bool :=
  let n := struct_n nx ny in
  let cells := struct_cells nx ny in
  let bs := boundaries ct cells in
  wf_schedb n sch
  && forallb (fun jn => harmonic_fnb (colX nx) jn && harmonic_fnb (rowY nx) jn) sch
  && forallb (fun k => Bool.eqb (is_boundary_in bs k) (border nx ny k)) (seq 0 n)
  && forallb (fun jn => length (snd jn) =? 4) sch
  && all_reach sch.
Definition lattice_ok (ct : celltype) (nx ny : nat) : bool :=
  lattice_ok_sch ct nx ny (schedule ct (struct_cells nx ny) (struct_n nx ny) []).

(** the regular lattice: point k = origin + (k mod (nx+1)) * a + (k / (nx+1)) * b, one coordinate *)
Definition lattice (nx ny : nat) (o a b : Q) : list Q :=
  map (fun k => (o + a * colX nx k + b * rowY nx k)%Q) (seq 0 (struct_n nx ny)).

Theorem lattice_harmonic ct nx ny : lattice_ok ct nx ny = true ->
  forall fixed o a b jn, In jn (schedule ct (struct_cells nx ny) (struct_n nx ny) fixed) ->
    harmonic_at (lattice nx ny o a b) jn.
Proof.
  unfold lattice_ok, lattice_ok_sch. intros H fixed o a b jn Hin. apply schedule_sub in Hin.
  apply andb_true_iff in H. destruct H as [H _]. apply andb_true_iff in H. destruct H as [H _].
  apply andb_true_iff in H. destruct H as [H _]. apply andb_true_iff in H. destruct H as [Hwf Hh].
  apply wf_schedb_sound in Hwf. destruct (Hwf jn Hin) as (A & B & C).
  rewrite forallb_forall in Hh. specialize (Hh jn Hin). apply andb_true_iff in Hh. destruct Hh as [Hx Hy].
  unfold harmonic_fnb in Hx, Hy. apply Qeq_bool_iff in Hx, Hy.
  unfold lattice. apply harmonic_fn_at; auto.
  apply (harmonic_fn_lin (colX nx) (rowY nx) o a b jn Hx Hy).
Qed.

Theorem lattice_fixed_point ct nx ny : lattice_ok ct nx ny = true ->
  forall fixed iters o a b,
    eqv (iterate iters (schedule ct (struct_cells nx ny) (struct_n nx ny) fixed) (lattice nx ny o a b))
        (lattice nx ny o a b).
Proof.
  intros H fixed iters o a b.
  set (sch := schedule ct (struct_cells nx ny) (struct_n nx ny) fixed).
  assert (L : length (lattice nx ny o a b) = struct_n nx ny) by (unfold lattice; rewrite map_length, seq_length; reflexivity).
  assert (S1 : forall s, eqv s (lattice nx ny o a b) -> eqv (sweep sch s) (lattice nx ny o a b)).
  { intros s E. eapply eqv_trans; [apply sweep_eqv; exact E|].
    assert (ND : NoDup (map fst sch)) by apply schedule_NoDup.
    assert (Hlt : forall jn, In jn sch -> fst jn < length (lattice nx ny o a b)).
    { intros jn Hin. rewrite L. exact (proj1 (schedule_wf_lt _ _ _ _ _ Hin)). }
    apply (proj2 (sweep_fixed_point sch _ ND Hlt)).
    intros jn Hin. apply (lattice_harmonic ct nx ny H fixed). exact Hin. }
  assert (G : forall k s, eqv s (lattice nx ny o a b) -> eqv (iterate k sch s) (lattice nx ny o a b)).
  { induction k as [|k IH]; intros s E; [exact E|]. simpl. apply IH. apply S1. exact E. }
  apply G. apply eqv_refl.
Qed.
