(** The provenance invariant of grading propagation and its consequences (C01, C02):
    every defined wire carries the count of a chopped axis of its family; an axis that is defined by
    copied wires only has, behind each wire, an axis holding chops at the same spot (the "chopless
    neighbour lemma"); wires of chopped axes keep their own chops. *)
From Coq Require Import List Bool Arith Lia.
From CB Require Import Model.Propagate Proofs.PropagateBasics Proofs.PropagateTerm.
Import ListNotations.
Set Default Proof Using "Type".

Section Inv.
  Variable bs : list blk.
  Variable o_coin : wire -> list wire.
  Variable o_nbrs : axis -> list axis.

  Notation n := (nblocks bs).
  Notation ends := (ends bs).
  Notation coincident := (coincident bs).
  Notation is_nbr := (is_nbr bs).
  Notation chopped := (chopped bs).
  Notation user_chops := (user_chops bs).
  Notation copy_wire := (copy_wire bs o_coin).
  Notation grade_axis := (grade_axis bs o_coin).
  Notation copy_axis := (copy_axis bs o_coin o_nbrs).
  Notation copy_block := (copy_block bs o_coin o_nbrs).
  Notation scan := (scan bs o_coin o_nbrs).
  Notation propagate := (propagate bs o_coin o_nbrs).

  Definition vw (w : wire) : Prop := In w (all_wires n).
  Definition va (x : axis) : Prop := In x (all_axes n).

  Definition same_ends (u w : wire) : bool :=
    pair_eqb (ends u) (ends w) || pair_eqb (ends u) (swap (ends w)).

  Lemma pair_eqb_eq p q : pair_eqb p q = true <-> p = q.
  Proof.
    destruct p, q. unfold pair_eqb. simpl. rewrite andb_true_iff, !Nat.eqb_eq. split.
    - intros [-> ->]. reflexivity.
    - intro H; inversion H; auto.
  Qed.

  Lemma same_ends_iff u w : same_ends u w = true <-> ends u = ends w \/ ends u = swap (ends w).
  Proof. unfold same_ends. rewrite orb_true_iff, !pair_eqb_eq. reflexivity. Qed.

  Lemma swap_swap p : swap (swap p) = p.
  Proof. destruct p. reflexivity. Qed.

  Lemma same_ends_refl w : same_ends w w = true.
  Proof. apply same_ends_iff. left. reflexivity. Qed.

  Lemma same_ends_sym u w : same_ends u w = true -> same_ends w u = true.
  Proof.
    rewrite !same_ends_iff. intros [H | H]; [left; congruence|]. right. rewrite H, swap_swap. reflexivity.
  Qed.

  Lemma same_ends_trans u v w : same_ends u v = true -> same_ends v w = true -> same_ends u w = true.
  Proof.
    rewrite !same_ends_iff. intros [H1 | H1] [H2 | H2].
    - left; congruence.
    - right; congruence.
    - right; congruence.
    - left. rewrite H1, H2, swap_swap. reflexivity.
  Qed.

  Lemma coincident_iff u w : coincident u w = true <-> w_blk u <> w_blk w /\ same_ends u w = true.
  Proof.
    unfold Propagate.coincident, same_ends. rewrite andb_true_iff, negb_true_iff, Nat.eqb_neq. reflexivity.
  Qed.

  Lemma coincident_sym u w : coincident u w = true -> coincident w u = true.
  Proof. rewrite !coincident_iff. intros [H1 H2]. split; [congruence | apply same_ends_sym; exact H2]. Qed.

  Lemma in_coin_set w c : In c (coin_set bs w) <-> vw c /\ coincident w c = true.
  Proof. unfold coin_set. rewrite filter_In. reflexivity. Qed.

  Lemma in_nbr_set x y : In y (nbr_set bs x) <-> va y /\ is_nbr x y = true.
  Proof. unfold nbr_set. rewrite filter_In. reflexivity. Qed.

  Lemma w_blk_axis w : w_blk w = fst (w_axis w).
  Proof. destruct w as [[b a] k]. reflexivity. Qed.

  Lemma is_nbr_intro u v :
    snd u < 4 -> snd v < 4 -> coincident u v = true -> is_nbr (w_axis u) (w_axis v) = true.
  Proof.
    intros Hu Hv C. unfold Propagate.is_nbr. apply andb_true_iff. split.
    - apply coincident_iff in C. destruct C as [C _]. rewrite !w_blk_axis in C.
      apply negb_true_iff. apply Nat.eqb_neq. exact C.
    - apply existsb_exists. exists u. split; [apply in_wires_of_axis; auto|].
      apply existsb_exists. exists v. split; [apply in_wires_of_axis; auto | exact C].
  Qed.

  Lemma is_nbr_elim x y : is_nbr x y = true ->
    fst x <> fst y /\ exists u v, In u (wires_of_axis x) /\ In v (wires_of_axis y) /\ coincident u v = true.
  Proof.
    unfold Propagate.is_nbr. rewrite andb_true_iff, negb_true_iff, Nat.eqb_neq. intros [H1 H2]. split; [exact H1|].
    apply existsb_exists in H2. destruct H2 as [u [Hu H2]]. apply existsb_exists in H2. destruct H2 as [v [Hv H2]].
    exists u, v. auto.
  Qed.

  Lemma is_nbr_sym x y : is_nbr x y = true -> is_nbr y x = true.
  Proof.
    intro H. apply is_nbr_elim in H. destruct H as (_ & u & v & Hu & Hv & C).
    apply in_wires_of_axis in Hu, Hv. destruct Hu as [<- Hu], Hv as [<- Hv].
    apply is_nbr_intro; auto. apply coincident_sym. exact C.
  Qed.

  Lemma vw_axis w : vw w -> va (w_axis w) /\ snd w < 4.
  Proof. intro H. apply in_all_wires in H. exact H. Qed.

  Lemma vw_of_axis x w : va x -> In w (wires_of_axis x) -> vw w.
  Proof. intros Hx Hw. apply in_wires_of_axis in Hw. destruct Hw as [<- Hk]. apply in_all_wires. auto. Qed.

  (** families of block directions: closure of the neighbour relation on valid axes *)
  Inductive fam : axis -> axis -> Prop :=
  | fam_refl x : fam x x
  | fam_step x y z : fam x y -> va z -> is_nbr y z = true -> fam x z.

  Definition total := Propagate.total.

  Lemma total_app l m : total (l ++ m) = total l + total m.
  Proof. unfold total, Propagate.total. induction l; simpl; lia. Qed.

  Lemma total_rev l : total (rev l) = total l.
  Proof. induction l; simpl; [reflexivity|]. rewrite total_app, IHl. unfold total, Propagate.total. simpl. lia. Qed.

  Definition has_chopsP (s : st) (x : axis) : Prop := ach s x <> [].
  Lemma has_chops_iff s x : has_chops s x = true <-> ach s x <> [].
  Proof. unfold has_chops. destruct (ach s x); simpl; split; intro H; try discriminate; try congruence; auto. Qed.

  Lemma chopped_iff x : chopped x = true <-> user_chops x <> [].
  Proof. unfold Propagate.chopped. destruct (user_chops x); simpl; split; intro H; try discriminate; try congruence; auto. Qed.

  (** origin: a wire at the same spot whose axis holds chops *)
  Definition origin (P : axis -> Prop) (w : wire) : Prop :=
    exists o, vw o /\ same_ends o w = true /\ P (w_axis o).
  Definition sourced (v : list nat) (x : axis) : Prop :=
    exists c, va c /\ chopped c = true /\ fam c x /\ total v = total (user_chops c).

  Record Good (s : st) : Prop := {
    G1 : forall x, va x -> ach s x <> [] -> a_defined s x = true;
    G2 : forall w, vw w -> g s w <> [] -> origin (fun x => ach s x <> []) w;
    G3 : forall w, vw w -> g s w <> [] -> sourced (g s w) (w_axis w);
    G4 : forall x, va x -> ach s x <> [] -> sourced (ach s x) x;
    G5 : forall x, va x -> chopped x = true -> forall w, In w (wires_of_axis x) -> g s w = user_chops x
  }.

  (** oracle soundness *)
  Hypothesis Hco : forall w c, vw w -> In c (o_coin w) -> In c (coin_set bs w).
  Hypothesis Hnb : forall x y, va x -> In y (o_nbrs x) -> In y (nbr_set bs x).

  Lemma sourced_step v y x : sourced v y -> va x -> is_nbr y x = true -> sourced v x.
  Proof.
    intros (c & Hc & Ch & F & T) Hx N. exists c. repeat split; auto. eapply fam_step; eauto.
  Qed.

  Lemma sourced_total v v' x : sourced v x -> total v' = total v -> sourced v' x.
  Proof. intros (c & Hc & Ch & F & T) E. exists c. repeat split; auto. congruence. Qed.

  (** detail of the copy fold for wires whose oracle wires are outside the list *)
  Lemma fold_copy_detail ws : forall s, NoDup ws ->
    (forall w c, In w ws -> In c (o_coin w) -> ~ In c ws) ->
    forall w, In w ws ->
      let s' := fold_left copy_wire ws s in
      g s' w = g s w \/
      (g s' w <> [] /\ exists c, In c (o_coin w) /\ g s c <> [] /\ (g s' w = g s c \/ g s' w = rev (g s c))).
  Proof.
    induction ws as [|a ws IH]; intros s ND Hout w Hw; [destruct Hw|].
    inversion ND as [|? ? Hnot ND']; subst. simpl.
    destruct (copy_wire_spec bs o_coin s a) as (A1 & O1 & V1).
    destruct Hw as [E | Hw].
    - subst a. destruct (fold_copy_spec bs o_coin ws (copy_wire s w)) as (_ & _ & O). simpl in O.
      rewrite O by exact Hnot.
      destruct V1 as [V1 | (V1 & c & Hc & V2)]; [left; exact V1|]. right. split; [exact V1|].
      destruct V2 as [(N & D & V2) | E].
      + exists c. auto.
      + subst c. exfalso. apply (Hout w w); simpl; auto.
    - assert (w <> a) as Ne by (intro X; subst; contradiction).
      specialize (IH (copy_wire s a) ND' (fun w c Hw Hc => fun X => Hout w c (or_intror Hw) Hc (or_intror X)) w Hw).
      simpl in IH. destruct IH as [IH | (IH1 & c & Hc & D & IH2)].
      + left. rewrite IH. apply O1. exact Ne.
      + right. split; [exact IH1|]. exists c. split; [exact Hc|].
        assert (c <> a) as Nc. { intro X; subst. apply (Hout w a); simpl; auto. }
        rewrite O1 in D, IH2 by exact Nc. auto.
  Qed.

  Lemma oracle_outside x w c : va x -> In w (wires_of_axis x) -> In c (o_coin w) -> ~ In c (wires_of_axis x).
  Proof using Hco.
    intros Vx Hw Hc X. apply Hco in Hc; [|eapply vw_of_axis; eauto]. apply in_coin_set in Hc. destruct Hc as [_ C].
    apply coincident_iff in C. destruct C as [C _].
    apply in_wires_of_axis in Hw, X. destruct Hw as [Hw _], X as [X _].
    rewrite !w_blk_axis in C. congruence.
  Qed.

  (** what the un-chopped branch of grade_axis leaves on the wires of the axis *)
  Lemma grade_unchopped_detail s x : va x -> chopped x = false ->
    forall w, In w (wires_of_axis x) ->
      let s' := grade_axis s x in
      (g s' w = g s w /\ g s w <> []) \/
      (g s w = [] /\ g s' w = ach s x) \/
      (g s' w <> [] /\ exists c, In c (o_coin w) /\ g s c <> [] /\ (g s' w = g s c \/ g s' w = rev (g s c))).
  Proof using Hco.
    intros Vx Hc w Hw. unfold Propagate.grade_axis. rewrite Hc. cbv zeta.
    set (s1 := fold_left copy_wire (wires_of_axis x) s).
    destruct (fold_copy_spec bs o_coin (wires_of_axis x) s) as (A1 & _ & _). fold s1 in A1.
    destruct (fold_fill_spec x (wires_of_axis x) s1 (wires_of_axis_nodup x)) as (_ & _ & _ & V).
    rewrite V by exact Hw.
    pose proof (fold_copy_detail (wires_of_axis x) s (wires_of_axis_nodup x)
                  (fun w c Hw Hc => oracle_outside x w c Vx Hw Hc) w Hw) as D. fold s1 in D. cbv zeta in D.
    destruct (w_defined s1 w) eqn:W.
    - apply w_defined_iff in W. destruct D as [D | D].
      + left. rewrite D in *. auto.
      + right. right. exact D.
    - apply w_defined_false_iff in W. destruct D as [D | [D _]]; [|contradiction].
      right. left. rewrite A1. split; congruence.
  Qed.

  Lemma coin_wire_facts w c : vw w -> In c (o_coin w) ->
    vw c /\ same_ends c w = true /\ is_nbr (w_axis c) (w_axis w) = true.
  Proof using Hco.
    intros Hw Hc. apply Hco in Hc; [|exact Hw]. apply in_coin_set in Hc. destruct Hc as [Vc C].
    split; [exact Vc|]. split.
    - apply coincident_iff in C. apply same_ends_sym. destruct C as [_ C]. exact C.
    - apply is_nbr_intro; [apply vw_axis; exact Vc | apply vw_axis; exact Hw | apply coincident_sym; exact C].
  Qed.

  (** ** Phase 2: copy_axis preserves Good *)
  Lemma copy_axis_good s x s' u : Good s -> va x -> copy_axis s x = (s', u) -> Good s'.
  Proof using Hco Hnb.
    intros GS Hx. unfold Propagate.copy_axis. destruct (a_defined s x) eqn:D; [intro H; inversion H; subst; exact GS|].
    destruct (find _ (o_nbrs x)) as [y|] eqn:F; [|intro H; inversion H; subst; exact GS].
    intro H. inversion H; subst; clear H.
    apply find_some in F. destruct F as [Hy F]. apply andb_true_iff in F. destruct F as [Dy Cy].
    apply has_chops_iff in Cy. apply Hnb in Hy; [|exact Hx]. apply in_nbr_set in Hy. destruct Hy as [Vy Nxy].
    (* x holds no chops and is not chopped *)
    assert (ach s x = []) as Ax.
    { destruct (ach s x) eqn:E; [reflexivity|]. exfalso.
      assert (ach s x <> []) as Ne by (rewrite E; discriminate). rewrite (G1 s GS x Hx Ne) in D. discriminate. }
    assert (chopped x = false) as Cx.
    { destruct (chopped x) eqn:E; [|reflexivity]. exfalso.
      assert (a_defined s x = true) as X; [|rewrite X in D; discriminate].
      unfold Propagate.a_defined. apply forallb_forall. intros w Hw. apply w_defined_iff.
      rewrite (G5 s GS x Hx E w Hw). apply chopped_iff. exact E. }
    set (cs := if axis_aligned bs y x then ach s y else rev (ach s y)).
    assert (cs <> []) as Hcs. { unfold cs. destruct (axis_aligned bs y x); [exact Cy | apply rev_nonnil; exact Cy]. }
    assert (total cs = total (ach s y)) as Tcs. { unfold cs. destruct (axis_aligned bs y x); [reflexivity | apply total_rev]. }
    set (s1 := {| g := g s; ach := upd_a (ach s) x (ach s x ++ cs) |}).
    assert (ach s1 x = cs) as A1x. { simpl. rewrite upd_a_same, Ax. reflexivity. }
    assert (forall z, z <> x -> ach s1 z = ach s z) as A1o. { intros z Hz. simpl. apply upd_a_other. exact Hz. }
    destruct (grade_axis_basic bs o_coin s1 x) as (A2 & M2 & O2).
    assert (forall z, ach s z <> [] -> ach (grade_axis s1 x) z <> []) as Amono.
    { intros z Hz. rewrite A2. destruct (axis_eqb z x) eqn:E.
      - apply axis_eqb_eq in E. subst. rewrite A1x. exact Hcs.
      - rewrite A1o; [exact Hz|]. intro X; subst. rewrite axis_eqb_refl in E. discriminate. }
    assert (sourced cs x) as Scs.
    { apply sourced_total with (v := ach s y); [|exact Tcs].
      eapply sourced_step; [apply (G4 s GS y Vy Cy) | exact Hx | apply is_nbr_sym; exact Nxy]. }
    constructor.
    - (* G1 *) intros z Vz Hz. rewrite A2 in Hz. destruct (axis_eqb z x) eqn:E.
      + apply axis_eqb_eq in E. subst z. apply grade_axis_defines. rewrite A1x. exact Hcs.
      + assert (z <> x) as Ne by (intro X; subst; rewrite axis_eqb_refl in E; discriminate).
        rewrite A1o in Hz by exact Ne. eapply mono_axis; [exact M2|]. apply (G1 s GS z Vz Hz).
    - (* G2 *) intros w Vw Hw.
      destruct (in_dec wire_eq_dec w (wires_of_axis x)) as [Hin | Hout].
      + destruct (grade_unchopped_detail s1 x Hx Cx w Hin) as [[E1 E2] | [[E1 E2] | (E1 & c & Hc & Dc & E2)]].
        * simpl in E1, E2. destruct (G2 s GS w Vw E2) as (o & Vo & So & Po). exists o. repeat split; auto.
        * exists w. repeat split; auto. { apply same_ends_refl. }
          apply in_wires_of_axis in Hin. destruct Hin as [-> _]. rewrite A2, A1x. exact Hcs.
        * simpl in Dc. destruct (coin_wire_facts w c Vw Hc) as (Vc & Sc & _).
          destruct (G2 s GS c Vc Dc) as (o & Vo & So & Po). exists o. repeat split; auto.
          eapply same_ends_trans; eauto.
      + rewrite O2 in Hw by exact Hout. simpl in Hw.
        destruct (G2 s GS w Vw Hw) as (o & Vo & So & Po). exists o. repeat split; auto.
    - (* G3 *) intros w Vw Hw.
      destruct (in_dec wire_eq_dec w (wires_of_axis x)) as [Hin | Hout].
      + destruct (grade_unchopped_detail s1 x Hx Cx w Hin) as [[E1 E2] | [[E1 E2] | (E1 & c & Hc & Dc & E2)]].
        * simpl in E1, E2. rewrite E1. simpl. apply (G3 s GS w Vw E2).
        * rewrite E2, A1x. apply in_wires_of_axis in Hin. destruct Hin as [-> _]. exact Scs.
        * simpl in Dc, E2. destruct (coin_wire_facts w c Vw Hc) as (Vc & _ & Nc).
          pose proof (G3 s GS c Vc Dc) as S3.
          apply sourced_total with (v := g s c).
          -- eapply sourced_step; [exact S3 | apply vw_axis; exact Vw | exact Nc].
          -- destruct E2 as [E2 | E2]; rewrite E2; [reflexivity | apply total_rev].
      + rewrite O2 in * by exact Hout. simpl in *. apply (G3 s GS w Vw Hw).
    - (* G4 *) intros z Vz Hz. rewrite A2 in *. destruct (axis_eqb z x) eqn:E.
      + apply axis_eqb_eq in E. subst z. rewrite A1x. exact Scs.
      + assert (z <> x) as Ne by (intro X; subst; rewrite axis_eqb_refl in E; discriminate).
        rewrite A1o in * by exact Ne. apply (G4 s GS z Vz Hz).
    - (* G5 *) intros z Vz Cz w Hw.
      assert (z <> x) as Ne by (intro X; subst; congruence).
      rewrite O2.
      + simpl. apply (G5 s GS z Vz Cz w Hw).
      + intro X. apply in_wires_of_axis in Hw, X. destruct Hw as [Hw _], X as [X _]. congruence.
  Qed.
End Inv.
