(** C08 - the angle/axis arc: centre, mid point, side (lemmas for Properties/C08.v). *)
From Coq Require Import Reals Lra Psatz List.
From CB Require Import Base.Vec3 Model.C08_Arcs.
Open Scope R_scope.

(** ** small vector toolkit *)
Ltac vec_field := apply vec_eq; vec_simpl; field.

Lemma vscale_vscale k m v : vscale k (vscale m v) = vscale (k * m) v.
Proof. vec_ring. Qed.

Lemma vscale_1 v : vscale 1 v = v.
Proof. vec_ring. Qed.

Lemma norm2_pos_neq v : v <> vzero -> 0 < norm2 v.
Proof.
  intros H. destruct v as [[x y] z]. unfold vzero in H.
  destruct (Req_dec x 0) as [Hx|Hx]; [destruct (Req_dec y 0) as [Hy|Hy]; [destruct (Req_dec z 0) as [Hz|Hz]|]|].
  - subst. exfalso. apply H. reflexivity.
  - vec_simpl. nra.
  - vec_simpl. nra.
  - vec_simpl. nra.
Qed.

Lemma norm_pos_neq v : v <> vzero -> 0 < norm v.
Proof. intros H. unfold norm. apply sqrt_lt_R0. apply norm2_pos_neq. exact H. Qed.

Lemma norm_eq_of_norm2 a b : norm2 a = norm2 b -> norm a = norm b.
Proof. unfold norm. intros ->. reflexivity. Qed.

Lemma cross_a_cross_d_a a d :
  cross a (cross d a) = vsub (vscale (dot a a) d) (vscale (dot a d) a).
Proof. vec_ring. Qed.

(** rotation of a vector of the plane spanned by d and d x a, without side conditions *)
Lemma rot_plane_general a al d x y :
  rot a al (vadd (vscale x d) (vscale y (cross d a))) =
  vadd (vadd (vscale (x * cos al + y * sin al * dot a a) d)
             (vscale (y * cos al - x * sin al) (cross d a)))
       (vscale (dot a d * (x * (1 - cos al) - y * sin al)) a).
Proof. unfold rot. vec_ring. Qed.

Lemma rot_plane a al d x y :
  dot a a = 1 -> dot d a = 0 ->
  rot a al (vadd (vscale x d) (vscale y (cross d a))) =
  vadd (vscale (x * cos al + y * sin al) d) (vscale (y * cos al - x * sin al) (cross d a)).
Proof.
  intros Ha Hd. rewrite rot_plane_general. rewrite Ha. rewrite (dot_comm a d), Hd. vec_ring.
Qed.

(** ** what the hypotheses "unit axis perpendicular to the chord" give *)
Lemma cross_perp_norm d a : dot a a = 1 -> dot d a = 0 -> norm (cross d a) = norm d.
Proof.
  intros Ha Hd. apply norm_eq_of_norm2. rewrite lagrange. unfold norm2. rewrite Ha, Hd. ring.
Qed.

Lemma theta_chord_perp p1 p2 a : dot (vsub p2 p1) a = 0 -> theta_chord p1 p2 a = vsub p2 p1.
Proof. intros H. unfold theta_chord, theta_len. rewrite H. vec_ring. Qed.

Lemma sin_half_neq th : 0 < Rabs th < 2 * PI -> sin (th / 2) <> 0.
Proof.
  intros [H0 H1]. unfold Rabs in *. destruct (Rcase_abs th).
  - assert (sin (- (th / 2)) > 0). { apply sin_gt_0; lra. }
    rewrite sin_neg in H. lra.
  - assert (sin (th / 2) > 0). { apply sin_gt_0; lra. } lra.
Qed.

Lemma half_angle_split th :
  sin (th / 2) = 2 * sin (th / 4) * cos (th / 4) /\ cos (th / 2) = 1 - 2 * sin (th / 4) * sin (th / 4).
Proof.
  replace (th / 2) with (2 * (th / 4)) by field. split; [apply sin_2a | apply cos_2a_sin].
Qed.

(** the scalar identity behind the sagitta: -k + k cos + sin/2 = tan(th/4)/2 with k = cot(th/2)/2 *)
Lemma sagitta_coeff th :
  sin (th / 2) <> 0 ->
  let k := cos (th / 2) / (2 * sin (th / 2)) in
  k * cos (th / 2) + / 2 * sin (th / 2) - k = tan (th / 4) / 2.
Proof.
  intros Hs k. unfold k. clear k.
  destruct (half_angle_split th) as [E1 E2]. rewrite E1 in Hs. rewrite E1, E2. unfold tan.
  pose proof (sin2_cos2 (th / 4)) as Hsc. unfold Rsqr in Hsc.
  set (s := sin (th / 4)) in *. set (c := cos (th / 4)) in *.
  assert (Hs0 : s <> 0). { intro E. apply Hs. rewrite E. ring. }
  assert (Hc0 : c <> 0). { intro E. apply Hs. rewrite E. ring. }
  assert (Hc2 : c * c = 1 - s * s) by lra.
  apply Rminus_diag_uniq.
  assert (E : (1 - 2 * s * s) / (2 * (2 * s * c)) * (1 - 2 * s * s) + / 2 * (2 * s * c) - (1 - 2 * s * s) / (2 * (2 * s * c)) - s / c / 2
              = s * (2 * (c * c) - 2 * (1 - s * s)) / (2 * c)).
  { field. split; assumption. }
  rewrite E, Hc2. field. assumption.
Qed.

Lemma zero_coeff th :
  sin (th / 2) <> 0 ->
  - / 2 * cos (th / 2) + cos (th / 2) / (2 * sin (th / 2)) * sin (th / 2) = 0.
Proof. intros Hs. field. exact Hs. Qed.

(** ** the fixed code: the third point is the point of the specified arc at half the angle *)
Lemma theta_model_simplified p1 p2 th a :
  dot a a = 1 -> dot (vsub p2 p1) a = 0 -> vsub p2 p1 <> vzero ->
  arc_from_theta p1 p2 th a = vadd (theta_pm p1 p2) (vscale (tan (th / 4) / 2) (cross (vsub p2 p1) a)).
Proof.
  intros Ha Hd Hn. unfold arc_from_theta, theta_rm, vunit.
  rewrite (theta_chord_perp _ _ _ Hd). rewrite (cross_perp_norm _ _ Ha Hd).
  rewrite vscale_vscale. f_equal. f_equal. field.
  apply Rgt_not_eq. apply norm_pos_neq. exact Hn.
Qed.

Lemma spec_radius_vec p1 p2 th a :
  vsub p1 (spec_centre p1 p2 th a) =
  vadd (vscale (- / 2) (vsub p2 p1)) (vscale (cos (th / 2) / (2 * sin (th / 2))) (cross (vsub p2 p1) a)).
Proof. unfold spec_centre, theta_pm. set (k := cos (th / 2) / (2 * sin (th / 2))). vec_field. Qed.

Theorem theta_mid_is_spec_half p1 p2 th a :
  dot a a = 1 -> dot (vsub p2 p1) a = 0 -> vsub p2 p1 <> vzero -> 0 < Rabs th < 2 * PI ->
  arc_from_theta p1 p2 th a = spec_point p1 p2 th a (/ 2).
Proof.
  intros Ha Hd Hn Hth. pose proof (sin_half_neq th Hth) as Hs.
  rewrite (theta_model_simplified _ _ _ _ Ha Hd Hn).
  unfold spec_point. rewrite spec_radius_vec. replace (th * / 2) with (th / 2) by field.
  rewrite (rot_plane _ _ _ _ _ Ha Hd).
  rewrite (zero_coeff th Hs).
  rewrite <- (sagitta_coeff th Hs).
  unfold spec_centre, theta_pm.
  set (k := cos (th / 2) / (2 * sin (th / 2))). set (w := cross (vsub p2 p1) a).
  vec_ring.
Qed.

(** ** the specified arc really is the arc of the OpenFOAM definition: it starts at p1, ends at p2,
    stays on a circle about the centre in the plane perpendicular to the axis *)
Lemma spec_point_0 p1 p2 th a : spec_point p1 p2 th a 0 = p1.
Proof.
  unfold spec_point, rot. rewrite Rmult_0_r, cos_0, sin_0.
  set (c := spec_centre p1 p2 th a). vec_ring.
Qed.

Lemma spec_point_1 p1 p2 th a :
  dot a a = 1 -> dot (vsub p2 p1) a = 0 -> sin (th / 2) <> 0 ->
  spec_point p1 p2 th a 1 = p2.
Proof.
  intros Ha Hd Hs. unfold spec_point. rewrite spec_radius_vec. rewrite Rmult_1_r.
  rewrite (rot_plane _ _ _ _ _ Ha Hd).
  assert (Es : sin th = 2 * sin (th / 2) * cos (th / 2)).
  { replace th with (2 * (th / 2)) at 1 by field. apply sin_2a. }
  assert (Ec : cos th = 1 - 2 * sin (th / 2) * sin (th / 2)).
  { replace th with (2 * (th / 2)) at 1 by field. apply cos_2a_sin. }
  rewrite Es, Ec.
  pose proof (sin2_cos2 (th / 2)) as Hsc. unfold Rsqr in Hsc.
  unfold spec_centre, theta_pm.
  set (s := sin (th / 2)) in *. set (c := cos (th / 2)) in *.
  assert (E1 : - / 2 * (1 - 2 * s * s) + c / (2 * s) * (2 * s * c) = / 2).
  { assert (Hc2 : c * c = 1 - s * s) by lra.
    replace (c / (2 * s) * (2 * s * c)) with (c * c) by (field; assumption). rewrite Hc2. field. }
  assert (E2 : c / (2 * s) * (1 - 2 * s * s) - - / 2 * (2 * s * c) = c / (2 * s)).
  { field. assumption. }
  rewrite E1, E2. set (k := c / (2 * s)). vec_field.
Qed.

(** every point of the specified arc is at the same distance from the centre and in the plane through
    p1 perpendicular to the axis *)
Lemma rot_plane_norm2 a al d x y :
  dot a a = 1 -> dot d a = 0 ->
  norm2 (rot a al (vadd (vscale x d) (vscale y (cross d a)))) = (x * x + y * y) * norm2 d.
Proof.
  intros Ha Hd. rewrite (rot_plane _ _ _ _ _ Ha Hd).
  set (X := x * cos al + y * sin al). set (Y := y * cos al - x * sin al).
  assert (E : norm2 (vadd (vscale X d) (vscale Y (cross d a))) =
              X * X * norm2 d + Y * Y * norm2 (cross d a) + 2 * X * Y * dot d (cross d a)).
  { vec_simpl. ring. }
  rewrite E, dot_cross_self_l, lagrange. unfold norm2 at 3. rewrite Ha, Hd.
  unfold X, Y. pose proof (sin2_cos2 al) as Hsc. unfold Rsqr in Hsc.
  replace ((x * cos al + y * sin al) * (x * cos al + y * sin al) * norm2 d +
           (y * cos al - x * sin al) * (y * cos al - x * sin al) * (norm2 d * 1 - 0 * 0) + 2 * (x * cos al + y * sin al) * (y * cos al - x * sin al) * 0)
    with ((x * x + y * y) * (sin al * sin al + cos al * cos al) * norm2 d) by ring.
  rewrite Hsc. ring.
Qed.

Lemma spec_point_on_circle p1 p2 th a lam :
  dot a a = 1 -> dot (vsub p2 p1) a = 0 ->
  norm2 (vsub (spec_point p1 p2 th a lam) (spec_centre p1 p2 th a)) =
  norm2 (vsub p1 (spec_centre p1 p2 th a)).
Proof.
  intros Ha Hd. unfold spec_point.
  replace (vsub (vadd (spec_centre p1 p2 th a) (rot a (th * lam) (vsub p1 (spec_centre p1 p2 th a)))) (spec_centre p1 p2 th a))
    with (rot a (th * lam) (vsub p1 (spec_centre p1 p2 th a))) by vec_ring.
  rewrite spec_radius_vec. rewrite (rot_plane_norm2 _ _ _ _ _ Ha Hd).
  set (k := cos (th / 2) / (2 * sin (th / 2))). set (d := vsub p2 p1).
  assert (E : norm2 (vadd (vscale (- / 2) d) (vscale k (cross d a))) =
              (- / 2) * (- / 2) * norm2 d + k * k * norm2 (cross d a) + 2 * (- / 2) * k * dot d (cross d a)).
  { vec_simpl. ring. }
  rewrite E, dot_cross_self_l, lagrange. unfold norm2 at 4. fold d in Hd. rewrite Ha, Hd. ring.
Qed.

Lemma spec_point_in_plane p1 p2 th a lam :
  dot a a = 1 -> dot (vsub p2 p1) a = 0 ->
  dot (vsub (spec_point p1 p2 th a lam) p1) a = 0.
Proof.
  intros Ha Hd. unfold spec_point.
  set (c := spec_centre p1 p2 th a).
  replace (vsub (vadd c (rot a (th * lam) (vsub p1 c))) p1)
    with (vsub (rot a (th * lam) (vsub p1 c)) (vsub p1 c)) by vec_ring.
  unfold c. rewrite spec_radius_vec. rewrite (rot_plane _ _ _ _ _ Ha Hd).
  set (k := cos (th / 2) / (2 * sin (th / 2))). set (d := vsub p2 p1) in *.
  set (X := - / 2 * cos (th * lam) + k * sin (th * lam)). set (Y := k * cos (th * lam) - - / 2 * sin (th * lam)).
  assert (E : dot (vsub (vadd (vscale X d) (vscale Y (cross d a))) (vadd (vscale (- / 2) d) (vscale k (cross d a)))) a
              = (X + / 2) * dot d a + (Y - k) * dot a (cross d a)).
  { vec_simpl. ring. }
  rewrite E, Hd, dot_cross_self_r. ring.
Qed.

(** squared radius of the specified circle: |d|^2 / (4 sin^2(th/2)) *)
Lemma spec_radius2 p1 p2 th a :
  dot a a = 1 -> dot (vsub p2 p1) a = 0 -> sin (th / 2) <> 0 ->
  norm2 (vsub p1 (spec_centre p1 p2 th a)) = norm2 (vsub p2 p1) / (4 * (sin (th / 2) * sin (th / 2))).
Proof.
  intros Ha Hd Hs. rewrite spec_radius_vec.
  set (k := cos (th / 2) / (2 * sin (th / 2))). set (d := vsub p2 p1) in *.
  assert (E : norm2 (vadd (vscale (- / 2) d) (vscale k (cross d a))) =
              (- / 2) * (- / 2) * norm2 d + k * k * norm2 (cross d a) + 2 * (- / 2) * k * dot d (cross d a)).
  { vec_simpl. ring. }
  rewrite E, dot_cross_self_l, lagrange. unfold norm2 at 3. rewrite Ha, Hd. unfold k.
  pose proof (sin2_cos2 (th / 2)) as Hsc. unfold Rsqr in Hsc.
  set (s := sin (th / 2)) in *. set (c := cos (th / 2)) in *.
  assert (Hc2 : c * c = 1 - s * s) by lra.
  replace (- / 2 * - / 2 * norm2 d + c / (2 * s) * (c / (2 * s)) * (norm2 d * 1 - 0 * 0) + 2 * - / 2 * (c / (2 * s)) * 0)
    with (norm2 d * (s * s + c * c) / (4 * (s * s))) by (field; assumption).
  rewrite Hc2. field. assumption.
Qed.

(** the centre of the code (written with tan) is the specified centre whenever tan(th/2) is defined *)
Lemma theta_centre_is_spec p1 p2 th a :
  dot a a = 1 -> dot (vsub p2 p1) a = 0 -> vsub p2 p1 <> vzero ->
  sin (th / 2) <> 0 -> cos (th / 2) <> 0 ->
  theta_centre p1 p2 th a = spec_centre p1 p2 th a.
Proof.
  intros Ha Hd Hn Hs Hc. unfold theta_centre, spec_centre, theta_rm, vunit, theta_len.
  rewrite (theta_chord_perp _ _ _ Hd). rewrite (cross_perp_norm _ _ Ha Hd). rewrite Hd.
  rewrite vscale_vscale. unfold tan.
  replace (norm (vsub p2 p1) / 2 / (sin (th / 2) / cos (th / 2)) * / norm (vsub p2 p1))
    with (cos (th / 2) / (2 * sin (th / 2))).
  - set (k := cos (th / 2) / (2 * sin (th / 2))). vec_field.
  - field. repeat split; try assumption. apply Rgt_not_eq. apply norm_pos_neq. exact Hn.
Qed.
