(** C14 - the quality value is invariant under rotations and translations (exact, for every guard,
    every side table, every measured edge list and all weights). *)
From Coq Require Import Reals List Lra Psatz Nsatz.
From CB Require Import Base.Vec3 Model.C14_Quality Proofs.C14_Algebra.
Import ListNotations.
Open Scope R_scope.

(** a 3x3 matrix given by its rows *)
Definition mat := (vec * vec * vec)%type.
Definition mapply (M : mat) (v : vec) : vec :=
  (dot (fst (fst M)) v, dot (snd (fst M)) v, dot (snd M) v).
Definition mcol (M : mat) (j : nat) : vec :=
  match j with
  | O => (vx (fst (fst M)), vx (snd (fst M)), vx (snd M))
  | S O => (vy (fst (fst M)), vy (snd (fst M)), vy (snd M))
  | _ => (vz (fst (fst M)), vz (snd (fst M)), vz (snd M))
  end.
Definition mdet (M : mat) : R := triple (fst (fst M)) (snd (fst M)) (snd M).
(** proper rotation: orthonormal columns and determinant 1 *)
Definition is_rotation (M : mat) : Prop :=
  dot (mcol M 0) (mcol M 0) = 1 /\ dot (mcol M 1) (mcol M 1) = 1 /\ dot (mcol M 2) (mcol M 2) = 1 /\
  dot (mcol M 0) (mcol M 1) = 0 /\ dot (mcol M 0) (mcol M 2) = 0 /\ dot (mcol M 1) (mcol M 2) = 0 /\
  mdet M = 1.
Definition rigid (M : mat) (t : vec) (p : vec) : vec := vadd (mapply M p) t.

Ltac crush := cbv [is_rotation mdet triple mcol mapply rigid dot cross vx vy vz fst snd vsub vadd vscale] in *.
Ltac dm M := destruct M as [[[[?a11 ?a12] ?a13] [[?a21 ?a22] ?a23]] [[?a31 ?a32] ?a33]].
Ltac dv v := destruct v as [[?x ?y] ?z].

Lemma dot_rot M u v : is_rotation M -> dot (mapply M u) (mapply M v) = dot u v.
Proof. dm M; dv u; dv v. crush. intros (H1 & H2 & H3 & H4 & H5 & H6 & H7). nsatz. Qed.

Lemma cross_rot M u v : is_rotation M -> cross (mapply M u) (mapply M v) = mapply M (cross u v).
Proof.
  dm M; dv u; dv v. crush. intros (H1 & H2 & H3 & H4 & H5 & H6 & H7).
  f_equal; [f_equal|]; nsatz.
Qed.

Lemma norm_rot M u : is_rotation M -> norm (mapply M u) = norm u.
Proof. intros H. unfold norm, norm2. rewrite dot_rot by assumption. reflexivity. Qed.

Lemma mapply_scale M k u : mapply M (vscale k u) = vscale k (mapply M u).
Proof. dm M; dv u. crush. f_equal; [f_equal|]; ring. Qed.
Lemma mapply_sub M u v : mapply M (vsub u v) = vsub (mapply M u) (mapply M v).
Proof. dm M; dv u; dv v. crush. f_equal; [f_equal|]; ring. Qed.
Lemma rigid_sub M t a b : vsub (rigid M t a) (rigid M t b) = mapply M (vsub a b).
Proof. dm M; dv t; dv a; dv b. crush. f_equal; [f_equal|]; ring. Qed.
Lemma rigid_c4 M t a b c d : c4 (rigid M t a) (rigid M t b) (rigid M t c) (rigid M t d) = rigid M t (c4 a b c d).
Proof. dm M; dv t; dv a; dv b; dv c; dv d. unfold c4. crush. f_equal; [f_equal|]; field. Qed.
Lemma rigid_c2 M t a b : c2 (rigid M t a) (rigid M t b) = rigid M t (c2 a b).
Proof. dm M; dv t; dv a; dv b. unfold c2. crush. f_equal; [f_equal|]; field. Qed.

Lemma rigid_centre8 M t P : centre8 (fun i => rigid M t (P i)) = rigid M t (centre8 P).
Proof.
  unfold centre8. cbn [seq map vsum fold_right].
  generalize (P 0%nat) (P 1%nat) (P 2%nat) (P 3%nat) (P 4%nat) (P 5%nat) (P 6%nat) (P 7%nat).
  intros p0 p1 p2 p3 p4 p5 p6 p7.
  dm M; dv t; dv p0; dv p1; dv p2; dv p3; dv p4; dv p5; dv p6; dv p7.
  cbv [vzero]. crush. f_equal; [f_equal|]; field.
Qed.

Lemma unitg_rot M add e v : is_rotation M -> unitg add e (mapply M v) = mapply M (unitg add e v).
Proof. intros H. unfold unitg. rewrite norm_rot by assumption. rewrite mapply_scale. reflexivity. Qed.
Lemma unit_rot M v : is_rotation M -> unit (mapply M v) = mapply M (unit v).
Proof. intros H. unfold unit. rewrite norm_rot by assumption. rewrite mapply_scale. reflexivity. Qed.

Section Rigid.
  Variable M : mat.
  Variable t : vec.
  Hypothesis HM : is_rotation M.
  Let g := rigid M t.

  Lemma g_sub a b : vsub (g a) (g b) = mapply M (vsub a b).
  Proof. apply rigid_sub. Qed.
  Lemma g_c4 a b c d : c4 (g a) (g b) (g c) (g d) = g (c4 a b c d).
  Proof. apply rigid_c4. Qed.
  Lemma g_c2 a b : c2 (g a) (g b) = g (c2 a b).
  Proof. apply rigid_c2. Qed.

  Lemma nonortho1_rigid k sc c a b :
    nonortho1 k (g sc) (mapply M c) (g a) (g b) = nonortho1 k sc c a b.
  Proof.
    unfold nonortho1. rewrite !g_sub, cross_rot, unitg_rot, dot_rot by assumption. reflexivity.
  Qed.

  Lemma inner1_rigid k p q r : inner1 k (g p) (g q) (g r) = inner1 k p q r.
  Proof.
    unfold inner1. rewrite !g_sub, !unitg_rot, dot_rot by assumption. reflexivity.
  Qed.

  Lemma side_term_rigid k center other a b c d :
    side_term k (g center) (option_map g other) (g a) (g b) (g c) (g d) = side_term k center other a b c d.
  Proof.
    unfold side_term. rewrite g_c4.
    assert (E : vsub (g center) (match option_map g other with Some o => o | None => g (c4 a b c d) end)
                = mapply M (vsub center (match other with Some o => o | None => c4 a b c d end))).
    { destruct other; simpl; apply g_sub. }
    rewrite E. rewrite unit_rot by assumption. rewrite !nonortho1_rigid, !inner1_rigid. reflexivity.
  Qed.

  Lemma side_term_l_rigid k center other l :
    side_term_l k (g center) (option_map g other) (map g l) = side_term_l k center other l.
  Proof.
    destruct l as [|a [|b [|c [|d [|e l]]]]]; try reflexivity. simpl. apply side_term_rigid.
  Qed.

  Lemma edge_len_rigid P e : edge_len (fun i => g (P i)) e = edge_len P e.
  Proof. unfold edge_len. rewrite g_sub, norm_rot by assumption. reflexivity. Qed.

  Theorem hexq_rigid k T E P nb :
    hexq k T E (fun i => g (P i)) (fun i => option_map g (nb i)) = hexq k T E P nb.
  Proof.
    unfold hexq. replace (centre8 (fun i => g (P i))) with (g (centre8 P)) by (symmetry; apply rigid_centre8).
    f_equal.
    - f_equal. apply map_ext. intro i. rewrite <- (map_map P g). apply side_term_l_rigid.
    - f_equal. apply map_ext. intro e. apply edge_len_rigid.
  Qed.

  Lemma quad_side_rigid k center other nrm prev a b :
    quad_side k (g center) (option_map g other) (mapply M nrm) (g prev) (g a) (g b)
    = quad_side k center other nrm prev a b.
  Proof.
    unfold quad_side. rewrite g_c2.
    assert (E : vsub (g center) (match option_map g other with Some o => o | None => g (c2 a b) end)
                = mapply M (vsub center (match other with Some o => o | None => c2 a b end))).
    { destruct other; simpl; apply g_sub. }
    rewrite E. rewrite !g_sub. rewrite cross_rot by assumption.
    rewrite !unit_rot by assumption. rewrite !dot_rot by assumption. reflexivity.
  Qed.

  Theorem quadq_rigid k E P nb :
    quadq k E (fun i => g (P i)) (fun i => option_map g (nb i)) = quadq k E P nb.
  Proof.
    unfold quadq. rewrite g_c4. rewrite !g_sub, cross_rot by assumption.
    rewrite !quad_side_rigid. f_equal. f_equal. apply map_ext. intro e. apply edge_len_rigid.
  Qed.
End Rigid.

(** the hypotheses are satisfiable: the identity, a quarter turn, and a rotation with irrational-free
    generic entries (the 3-4-5 rotation about z composed with a 5-12-13 rotation about x) *)
Example rotation_id : is_rotation ((1, 0, 0), (0, 1, 0), (0, 0, 1)).
Proof. crush. repeat split; ring. Qed.
Example rotation_quarter : is_rotation ((0, -1, 0), (1, 0, 0), (0, 0, 1)).
Proof. crush. repeat split; ring. Qed.
Example rotation_generic :
  is_rotation ((3/5, -4/5 * (5/13), -4/5 * (-12/13)), (4/5, 3/5 * (5/13), 3/5 * (-12/13)), (0, 12/13, 5/13)).
Proof. crush. repeat split; field. Qed.
