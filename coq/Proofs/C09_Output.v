(** C09 - the full output statement: everything computed from transformed leaves is the transformed output,
    including the length of a three-point arc. *)
From Coq Require Import Reals Lra List Bool Arith.
From CB Require Import Base.Vec3 Model.C09_Transform Proofs.C09_Leaves Proofs.C09_Commute Proofs.C09_Equivariance
  Proofs.C09_ArcLength Proofs.C09_Main.
Import ListNotations.
Open Scope R_scope.

Theorem output_full :
  forall t, valid t ->
    let A := image_pos t in let D := image_axis t in let k := ratio_of t in
    (forall x y, norm (vsub (A x) (A y)) = Rabs k * norm (vsub x y)) /\
    (forall l, polyline_length (map A l) = Rabs k * polyline_length l) /\
    (forall p1 p2 c, arc_from_origin (A p1) (A p2) (A c) = A (arc_from_origin p1 p2 c)) /\
    (forall p1 p2 t2 a, arc_from_theta (A p1) (A p2) t2 (D a) = A (arc_from_theta p1 p2 t2 a)) /\
    (forall ps pb pe, noncollinear ps pb pe -> arc_length_3point (A ps) (A pb) (A pe) = Rabs k * arc_length_3point ps pb pe).
Proof.
  intros t H A D k. destruct (M09_output_partial t H) as (H1 & H2 & H3 & H4).
  split; [exact H1 | split; [exact H2 | split; [exact H3 | split; [exact H4 |]]]].
  intros ps pb pe Hn. unfold A.
  rewrite (image_pos_affine t ps), (image_pos_affine t pb), (image_pos_affine t pe).
  exact (arc_length_3point_scaled (lin_of t) (ratio_of t) (sigma_of t) (image_pos t vzero) (image_similarity t H) ps pb pe Hn).
Qed.

Example noncollinear_sat : noncollinear (1, 0, 0) (0, 1, 0) (-1, 0, 0).
Proof. unfold noncollinear. vec_simpl. lra. Qed.
