(** The tactic that proves "translated source = hand model" (Gen/<ID>/Source.v, written by harness/translate_np.py on
    every run, against Model/<ID>_*.v), shared by Proofs/C18_SourceEq.v, C09_SourceEq.v, C17_SourceEq.v.  It is the
    tactic of Proofs/C08_SourceEq.v (see the header there for how it works and what it is robust against), made
    independent of any generated file:  the generated [s_clip] is unfolded to [Rmin (Rmax x lo) hi] by the users
    ([Ltac norm_prims ::= unfold s_clip in *]), the model's definitions are unfolded by the hook [unfold_model_all].
    Each user defines
      Ltac src_eq := unfold_src; norm_prims; unfold_model_all; sym_atoms; go; fail "the translated source differs from the model". *)
From Coq Require Import Reals Lra Psatz List Bool.
From CB Require Import Base.Vec3.
Import ListNotations.
Open Scope R_scope.

(** ** facts about the primitives *)
Lemma norm2_zero r : norm2 r = 0 -> r = vzero.
Proof.
  destruct r as [[x y] z]. unfold norm2, dot, vzero, vx, vy, vz. simpl. intros H.
  assert (x = 0) by nra. assert (y = 0) by nra. assert (z = 0) by nra. subst. reflexivity.
Qed.

Lemma norm_eq_0 v : norm v = 0 -> v = vzero.
Proof.
  intros H. apply norm2_zero. rewrite <- norm_sq, H. ring.
Qed.

Lemma norm_vopp v : norm (vopp v) = norm v.
Proof. unfold norm. f_equal. vec_simpl. ring. Qed.

Lemma norm_neq_0 v : v <> vzero -> norm v <> 0.
Proof. intros H E. apply H. apply norm_eq_0. exact E. Qed.

Lemma norm_pos_of_neq v : v <> vzero -> 0 < norm v.
Proof. intros H. pose proof (norm_nonneg v). pose proof (norm_neq_0 v H). lra. Qed.

Lemma vsub_eq_zero x y : vsub x y = vzero -> x = y.
Proof.
  intros E. apply vec_eq; [apply (f_equal vx) in E|apply (f_equal vy) in E|apply (f_equal vz) in E];
    revert E; unfold vsub, vzero, vx, vy, vz; simpl; lra.
Qed.

(** np.clip(x, -1, 1) *)
Lemma clip1_bounds x : -1 <= Rmin (Rmax x (-1)) 1 <= 1.
Proof.
  unfold Rmin, Rmax. destruct (Rle_dec x (-1)); destruct (Rle_dec _ 1); lra.
Qed.

(** Coq's [acos] is constant outside [-1, 1]: clipping its argument changes nothing *)
Lemma acos_clip1 x : acos (Rmin (Rmax x (-1)) 1) = acos x.
Proof.
  assert (C : (x <= -1 /\ Rmin (Rmax x (-1)) 1 = -1) \/ (1 <= x /\ Rmin (Rmax x (-1)) 1 = 1) \/ Rmin (Rmax x (-1)) 1 = x).
  { destruct (Rle_dec x (-1)) as [H|H]; [left|destruct (Rle_dec 1 x) as [H'|H']; [right; left|right; right]].
    - split; [exact H|]. rewrite (Rmax_right x (-1)) by exact H. apply Rmin_left. lra.
    - split; [exact H'|]. rewrite (Rmax_left x (-1)) by lra. apply Rmin_right. exact H'.
    - rewrite (Rmax_left x (-1)) by lra. apply Rmin_left. lra. }
  destruct C as [[H E]|[[H E]|E]]; rewrite E; [|  |reflexivity]; unfold acos.
  - destruct (Rle_dec (-1) (-1)); [|lra]. destruct (Rle_dec x (-1)); [reflexivity|lra].
  - destruct (Rle_dec 1 (-1)); [lra|]. destruct (Rle_dec 1 1); [|lra].
    destruct (Rle_dec x (-1)); [lra|]. destruct (Rle_dec 1 x); [reflexivity|lra].
Qed.

(** `acc = set(); for x in l: if test(x): acc.add(x)` against [filter]: stated on any function with the equations of
    the generated [s_filter] (each Gen/<ID>/Source.v has its own copy) *)
Lemma filter_loop_total {A : Type} (sf : (A -> option bool) -> list A -> option (list A)) :
  (forall f, sf f [] = Some []) ->
  (forall f x r, sf f (x :: r) = match f x with
                                 | None => None
                                 | Some b => match sf f r with None => None | Some r' => Some (if b then x :: r' else r') end
                                 end) ->
  forall (f : A -> option bool) (g : A -> bool) (l : list A),
    (forall x, In x l -> f x = Some (g x)) -> sf f l = Some (filter g l).
Proof.
  intros E0 E1 f g l. induction l as [|x r IH]; intros H.
  - apply E0.
  - rewrite E1, (H x (or_introl eq_refl)), IH by (intros y Hy; apply H; right; exact Hy).
    simpl. destruct (g x); reflexivity.
Qed.

Lemma norm_vsub_sym a b : norm (vsub a b) = norm (vsub b a).
Proof. rewrite <- (norm_vopp (vsub b a)). f_equal. apply vec_eq; vec_simpl; ring. Qed.

(** [norm (a - b)] and [norm (b - a)], [Rabs (x - y)] and [Rabs (y - x)] both present in the goal (in decisions, where
    [unify_atoms] does not look): one orientation *)
Ltac sym_atoms :=
  repeat match goal with
  | |- context [norm (vsub ?a ?b)] =>
      lazymatch a with b => fail | _ => idtac end;
      match goal with |- context [norm (vsub b a)] => rewrite (norm_vsub_sym b a) end
  | |- context [Rabs (?x - ?y)] =>
      lazymatch x with y => fail | _ => idtac end;
      match goal with |- context [Rabs (y - x)] => rewrite (Rabs_minus_sym y x) end
  end.

(** ** the tactic *)
(** hooks, re-defined by the users ([Ltac name ::= ...]) *)
Ltac unfold_model_all := idtac.
Ltac norm_prims := idtac.
Ltac vcoord := cbv [vadd vsub vopp vscale dot cross norm2 vzero vx vy vz fst snd].

(** a non-zero side condition of [field]: a hypothesis, possibly written differently *)
Ltac nz :=
  repeat split;
  first [ assumption | lra
        | match goal with H : ?y <> 0 |- ?x <> 0 => let E := fresh "E" in intro E; apply H; rewrite <- E; ring end
        | match goal with H : 0 < ?y |- ?x <> 0 => apply Rgt_not_eq; replace x with y by ring; exact H end ].
(** equal reals / equal vectors.  [peel]: syntactically, or argument by argument when both sides apply the same
    function (so that a small rewrite deep inside a big expression is compared where it is), or - the node as a whole -
    as polynomials / fractions, coordinate by coordinate, after the vector sub-expressions that both sides share
    syntactically have been replaced by variables (the circumcentre, the adjusted centre ... are never expanded into
    coordinates unless they are themselves what differs).  Time-limited: a difference must fail, not hang. *)
Ltac gen_common :=
  repeat match goal with
  | |- ?l = ?r =>
      match l with
      | context [?t] =>
          lazymatch type of t with vec => idtac end;
          lazymatch t with ?f ?a => idtac end;
          lazymatch t with (_, _) => fail | _ => idtac end;
          match r with context [t] => generalize t; intro end
      end
  end.
Ltac poly := first [ ring | (field; nz) ].
(** the values of the non-polynomial functions are opaque to [ring] / [field] anyway: they become variables (in the
    hypotheses too), so that their arguments are not expanded into coordinates *)
Ltac gen_atom f :=
  match goal with |- context [f ?x] => let a := fresh "atom" in set (a := f x) in *; clearbody a end.
Ltac gen_atom2 f :=
  match goal with |- context [f ?x ?y] => let a := fresh "atom" in set (a := f x y) in *; clearbody a end.
Ltac gen_atoms :=
  repeat first [ gen_atom norm | gen_atom sqrt | gen_atom acos | gen_atom tan | gen_atom cos | gen_atom sin | gen_atom Rabs
               | gen_atom2 Rmax | gen_atom2 Rmin ].
Ltac whole :=
  first [ timeout 2 ring
        | timeout 4 (gen_atoms; vcoord; poly)
        | timeout 4 (gen_atoms; apply vec_eq; vcoord; poly)
        | timeout 8 (gen_atoms; gen_common; first [ vcoord; poly | apply vec_eq; vcoord; poly ]) ].
Ltac peel n :=
  first [ reflexivity
        | lazymatch n with S ?k => solve [ progress f_equal; peel k ] end
        | whole ].
Ltac eqd := peel 40%nat.
Ltac req := eqd.
Ltac veq := eqd.

(** bring the arguments of the non-polynomial functions that are equal (as polynomials / fractions, coordinate by
    coordinate) to one form, innermost first by repetition *)
Definition tried (a b : R) : Prop := True.
Ltac untried a b := lazymatch goal with _ : tried a b |- _ => fail | _ => idtac end.
(** one untried pair (an atom of the source side, an atom of the model side; not both already present on the other
    side as they are): made equal, or marked as different *)
Ltac absent t r := lazymatch r with context [t] => fail | _ => idtac end.
Ltac unify1 f tac :=
  match goal with
  | |- ?l = ?r =>
      match l with
      | context [f ?x] =>
          match r with
          | context [f ?y] =>
              lazymatch y with x => fail | _ => idtac end; untried (f x) (f y);
              first [ absent (f x) r | absent (f y) l ];
              first [ replace (f x) with (f y) by (f_equal; timeout 6 tac) | pose proof (I : tried (f x) (f y)) ]
          end
      end
  end.
Ltac unify2 f :=
  match goal with
  | |- ?l = ?r =>
      match l with
      | context [f ?x1 ?x2] =>
          match r with
          | context [f ?y1 ?y2] =>
              lazymatch constr:((y1, y2)) with (x1, x2) => fail | _ => idtac end; untried (f x1 x2) (f y1 y2);
              first [ absent (f x1 x2) r | absent (f y1 y2) l ];
              first [ replace (f x1 x2) with (f y1 y2) by (f_equal; timeout 6 req) | pose proof (I : tried (f x1 x2) (f y1 y2)) ]
          end
      end
  end.
(** |v| = |-v|, |x| = |-x|: [norm (a - b)] and [norm (b - a)] are the same number *)
Ltac unify_norm_opp :=
  match goal with
  | |- ?l = ?r =>
      match l with
      | context [norm ?x] =>
          match r with
          | context [norm ?y] =>
              lazymatch y with x => fail | _ => idtac end; untried (norm (vopp x)) (norm y);
              first [ absent (norm x) r | absent (norm y) l ];
              first [ replace (norm x) with (norm y) by (rewrite <- (norm_vopp y); f_equal; timeout 6 veq)
                    | pose proof (I : tried (norm (vopp x)) (norm y)) ]
          end
      end
  end.
Ltac unify_abs_opp :=
  match goal with
  | |- ?l = ?r =>
      match l with
      | context [Rabs ?x] =>
          match r with
          | context [Rabs ?y] =>
              lazymatch y with x => fail | _ => idtac end; untried (Rabs (- x)) (Rabs y);
              first [ absent (Rabs x) r | absent (Rabs y) l ];
              first [ replace (Rabs x) with (Rabs y) by (rewrite <- (Rabs_Ropp y); f_equal; timeout 6 req)
                    | pose proof (I : tried (Rabs (- x)) (Rabs y)) ]
          end
      end
  end.
Ltac unify_atoms :=
  repeat first [ unify1 sqrt req | unify1 Rabs req | unify2 Rmax | unify2 Rmin | unify1 tan req | unify1 cos req | unify1 sin req
               | unify1 acos req | unify1 norm veq | unify_abs_opp | unify_norm_opp ];
  repeat match goal with H : tried _ _ |- _ => clear H end.

Ltac head_scrut t :=
  lazymatch t with
  | match ?c with _ => _ end => head_scrut c
  | _ => t
  end.
Ltac is_done t := lazymatch t with Some _ => idtac | None => idtac end.
Ltac split_head t :=
  let c := head_scrut t in
  lazymatch c with
  | Rlt_dec ?a ?b => destruct (Rlt_dec a b)
  | Rle_dec ?a ?b => destruct (Rle_dec a b)
  | Req_EM_T ?a ?b => destruct (Req_EM_T a b)
  | _ => fail "a decision of an unexpected kind:" c
  end.

(** the same comparison written differently *)
Ltac same_by tac H1 H2 :=
  lazymatch type of H2 with
  | ~ ?c < ?d => lazymatch type of H1 with ?a < ?b => apply H2; replace d with b by tac; replace c with a by tac; exact H1 end
  | ~ ?c <= ?d => lazymatch type of H1 with ?a <= ?b => apply H2; replace d with b by tac; replace c with a by tac; exact H1 end
  | ?c <> ?d => lazymatch type of H1 with ?a = ?b => apply H2; replace d with b by tac; replace c with a by tac; exact H1 end
  end.
Ltac by_norm0 H E :=
  lazymatch type of E with norm ?v = 0 =>
    lazymatch type of H with ?w <> vzero => apply H; first [ exact (norm_eq_0 v E) | replace w with v by veq; exact (norm_eq_0 v E) ] end end.
(** a hypothesis next to the newest ones that speaks about the same quantities written differently
    ([Rabs (a * b - c)] and [Rabs (b * a - c)], ...): its sides are brought to the form of the other's, then [lra] *)
Ltac whole_cheap :=
  first [ timeout 1 ring | timeout 2 (gen_atoms; vcoord; poly) | timeout 2 (gen_atoms; apply vec_eq; vcoord; poly)
        | timeout 3 (gen_atoms; gen_common; vcoord; poly) ].
Ltac peelc n :=
  first [ reflexivity | lazymatch n with S ?k => solve [ progress f_equal; peelc k ] end | whole_cheap ].
Ltac ceq := peelc 40%nat.
Ltac is_numeral t :=
  lazymatch t with IZR _ => idtac | / IZR _ => idtac | - IZR _ => idtac | IZR _ / IZR _ => idtac end.
Ltac rel_sides P k :=
  lazymatch P with
  | ?a < ?b => k a b | ?a <= ?b => k a b | ~ ?a < ?b => k a b | ~ ?a <= ?b => k a b
  | ?a = ?b => let T := type of a in lazymatch T with R => k a b end
  | ?a <> ?b => let T := type of a in lazymatch T with R => k a b end
  end.
Ltac head_of t := lazymatch t with ?f _ => head_of f | _ => t end.
Ltac try_side H2 t2 t1 :=
  lazymatch t2 with
  | t1 => idtac
  | _ => first [ is_numeral t2 | is_numeral t1
               | (let h1 := head_of t1 in let h2 := head_of t2 in constr_eq h1 h2); replace t2 with t1 in H2 by ceq
               | idtac ]
  end.
Ltac align H1 H2 :=
  let P1 := type of H1 in
  let P2 := type of H2 in
  rel_sides P1 ltac:(fun a b => rel_sides P2 ltac:(fun c d =>
    try_side H2 c a; try_side H2 c b; try_side H2 d a; try_side H2 d b)).
Ltac contra :=
  exfalso;
  first
  [ lra
  | match goal with H : ~ -1 <= Rmin (Rmax ?x (-1)) 1 |- _ => destruct (clip1_bounds x); lra end
  | match goal with H : ~ Rmin (Rmax ?x (-1)) 1 <= 1 |- _ => destruct (clip1_bounds x); lra end
  | match goal with E : norm ?v = 0, H : ?w <> vzero |- _ => solve [by_norm0 H E] end
  | match goal with E : norm ?v * norm ?w = 0 |- _ =>
      let E1 := fresh "E" in
      destruct (Rmult_integral _ _ E) as [E1|E1]; match goal with H : ?u <> vzero |- _ => solve [by_norm0 H E1] end end
  | match goal with H1 : _, H2 : _ |- _ => solve [same_by ceq H1 H2] end
  | match goal with H2 : _ |- _ =>
      match goal with H1 : _ |- _ =>
        lazymatch H1 with H2 => fail | _ => idtac end; align H1 H2; solve [ lra | contradiction ]
      end
    end ].
(** during the case analysis only the contradictions that [lra] sees; the rest where a branch has to go *)
Ltac prune := try solve [exfalso; lra].

Ltac inner_decisions :=
  repeat match goal with
  | |- context [Rlt_dec ?a ?b] => destruct (Rlt_dec a b); prune
  | |- context [Rle_dec ?a ?b] => destruct (Rle_dec a b); prune
  | |- context [Req_EM_T ?a ?b] => destruct (Req_EM_T a b); prune
  end.
Ltac leaf n :=
  first [ reflexivity | req | veq | lazymatch n with S ?k => progress f_equal; leaf k end ].
(** a leaf that cannot be closed is left open (no backtracking into the case analysis) *)
Ltac finish :=
  lazymatch goal with
  | |- None = None => reflexivity
  | |- Some _ = Some _ =>
      inner_decisions;
      try solve [ exfalso; match goal with H1 : _, H2 : _ |- _ => solve [same_by ceq H1 H2] end ];
      rewrite ?acos_clip1; unify_atoms; try solve [ leaf 4%nat | contra ]
  | |- _ => try solve [contra]
  end.
Ltac go :=
  cbv beta iota zeta; prune;
  lazymatch goal with
  | |- ?l = ?r =>
      tryif is_done l then (tryif is_done r then finish else (split_head r; go)) else (split_head l; go)
  | |- _ => idtac
  end.
