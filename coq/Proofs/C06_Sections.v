(** C06 - the boundary, faces and geometry sections of the model's file are exactly what was declared,
    for every mesh (no bound on the number of operations, calls, patches, modifications, geometries).

    Vocabulary of the statements (first part of this file):
    - [keep_first same l]: [l] with every element dropped that is [same] as an earlier kept one
      (order of first occurrence) - what [Patch.add_side], [FaceList.add_side], [PatchList.get] and the
      dict merge of [GeometryList.add] do;
    - [assigned fm obs]: the (patch name, quad) pairs declared by the operations [obs] (each paired with
      its hex entry), operations in order, sides in the order of [Operation.patch_names];
    - [projected fm obs]: the (quad, label) pairs of the projected sides, sides in the order of [FaceList.add];
    - [geom_defs m]: all geometry definitions, the user's dictionaries first, then the automatic ones of
      the entities in depot order.

    Method: the assembly is shown to be a left fold of elementary actions over these declaration lists
    ([patches_trace], [faces_trace], [geometry_trace]: induction over entities and operations); the fold
    factorises per patch name / per geometry name ([view_run], [gview_run]: induction over the action list). *)
From Coq Require Import List Bool Arith String Lia.
From CB Require Import Base.Hex Model.C06_Render Model.C06_Mesh Proofs.C06_Mesh.
Import ListNotations.
Open Scope nat_scope.
Open Scope list_scope.

(** * vocabulary *)
Definition kf_step {A} (same : A -> A -> bool) (acc : list A) (x : A) : list A :=
  if existsb (same x) acc then acc else acc ++ [x].
Definition keep_first {A} (same : A -> A -> bool) (l : list A) : list A := fold_left (kf_step same) l [].

(** no two elements are the same *)
Definition pairwise_distinct {A} (same : A -> A -> bool) (l : list A) : Prop :=
  forall i j x y, i < j -> nth_error l i = Some x -> nth_error l j = Some y -> same y x = false.

Definition op_sides (fm : side -> list nat) (ob : op * ablock) : list (string * list nat) :=
  flat_map (fun s => match patch_of (o_calls (fst ob)) s with
                     | Some n => [(n, side_quad fm (b_vids (snd ob)) s)]
                     | None => []
                     end) patch_order.
Definition assigned (fm : side -> list nat) (obs : list (op * ablock)) : list (string * list nat) :=
  flat_map (op_sides fm) obs.

Definition op_pfaces (fm : side -> list nat) (ob : op * ablock) : list (list nat * string) :=
  flat_map (fun s => match pface_of (o_calls (fst ob)) s with
                     | Some l => [(side_quad fm (b_vids (snd ob)) s, l)]
                     | None => []
                     end) face_order.
Definition projected (fm : side -> list nat) (obs : list (op * ablock)) : list (list nat * string) :=
  flat_map (op_pfaces fm) obs.

Definition face_same (x y : list nat * string) : bool := same_set (fst x) (fst y).

Definition auto_geoms (es : list entity) : list (list ageom) :=
  flat_map (fun e => match e_geom e with Some g => [g] | None => [] end) es.
Definition geom_defs (m : mesh) : list ageom := List.concat (m_geometry m ++ auto_geoms (m_depot m)).

Definition mod_name (md : modification) : string := fst (fst md).
Definition mod_kind (md : modification) : string := snd (fst md).
Definition has_settings (md : modification) : bool := match snd md with Some _ => true | None => false end.

(** * generic list facts *)
Lemma fold_left_ext {A B} (f g : A -> B -> A) : (forall a x, f a x = g a x) ->
  forall l a, fold_left f l a = fold_left g l a.
Proof. intros H l. induction l as [|x l IH]; simpl; intro a; [reflexivity|]. rewrite H. apply IH. Qed.

Lemma existsb_ext' {A} (f g : A -> bool) l : (forall x, f x = g x) -> existsb f l = existsb g l.
Proof. intro H. induction l as [|x l IH]; simpl; [reflexivity|]. rewrite H, IH. reflexivity. Qed.

Lemma fold_left_concat {A B} (f : A -> B -> A) ls : forall a,
  fold_left (fun acc l => fold_left f l acc) ls a = fold_left f (List.concat ls) a.
Proof. induction ls as [|l ls IH]; simpl; intro a; [reflexivity|]. rewrite fold_left_app. apply IH. Qed.

Lemma combine_app' {A B} (l1 l2 : list A) (b1 b2 : list B) :
  List.length l1 = List.length b1 -> combine (l1 ++ l2) (b1 ++ b2) = combine l1 b1 ++ combine l2 b2.
Proof.
  revert b1. induction l1 as [|x l1 IH]; intros [|y b1] H; simpl in *; try discriminate; [reflexivity|].
  f_equal. apply IH. lia.
Qed.

Lemma nth_error_combine {A B} (l : list A) (r : list B) : forall k x y,
  nth_error l k = Some x -> nth_error r k = Some y -> nth_error (combine l r) k = Some (x, y).
Proof.
  revert r. induction l as [|a l IH]; intros r k x y Hl Hr; [destruct k; discriminate|].
  destruct r as [|b r]; [destruct k; discriminate|].
  destruct k as [|k]; simpl in *.
  - inversion Hl. inversion Hr. reflexivity.
  - apply IH; assumption.
Qed.

Lemma nth_error_combine_inv {A B} (l : list A) (r : list B) : forall k x y,
  nth_error (combine l r) k = Some (x, y) -> nth_error l k = Some x /\ nth_error r k = Some y.
Proof.
  revert r. induction l as [|a l IH]; intros r k x y H; [destruct k; discriminate|].
  destruct r as [|b r]; [destruct k; discriminate|].
  destruct k as [|k]; simpl in *.
  - inversion H. split; reflexivity.
  - apply IH. exact H.
Qed.

Lemma fold_last_filter {A B} (P : A -> bool) (g : A -> B) l : forall b0,
  fold_left (fun _ m => g m) (filter P l) b0 = match find P (rev l) with Some m => g m | None => b0 end.
Proof.
  induction l as [|x l IH] using rev_ind; intro b0; [reflexivity|].
  rewrite filter_app, fold_left_app, rev_app_distr. simpl.
  destruct (P x); simpl; [reflexivity|apply IH].
Qed.

Lemma fold_last_some {A B} (P : A -> bool) (h : A -> option B) l : forall b0,
  fold_left (fun s m => match h m with Some s' => s' | None => s end) (filter P l) b0
  = match find (fun m => P m && match h m with Some _ => true | None => false end) (rev l) with
    | Some m => match h m with Some s => s | None => b0 end
    | None => b0
    end.
Proof.
  induction l as [|x l IH] using rev_ind; intro b0; [reflexivity|].
  rewrite filter_app, fold_left_app, rev_app_distr. simpl.
  destruct (P x); simpl; [|apply IH].
  destruct (h x) eqn:E; simpl; [rewrite E; reflexivity|apply IH].
Qed.

Lemma same_set_sym l m : same_set l m = same_set m l.
Proof. unfold same_set. apply andb_comm. Qed.

Lemma same_set_refl l : same_set l l = true.
Proof.
  assert (H : forallb (fun x => existsb (Nat.eqb x) l) l = true).
  { apply forallb_forall. intros x Hx. apply existsb_exists. exists x. split; [exact Hx|apply Nat.eqb_refl]. }
  unfold same_set. rewrite H. reflexivity.
Qed.

(** * keep_first *)
Section KeepFirst.
  Context {A : Type} (same : A -> A -> bool).

  Lemma kf_step_cases acc a :
    (existsb (same a) acc = true /\ kf_step same acc a = acc)
    \/ (existsb (same a) acc = false /\ kf_step same acc a = acc ++ [a]).
  Proof. unfold kf_step. destruct (existsb (same a) acc); [left|right]; split; reflexivity. Qed.

  Lemma kf_incl l : forall acc x, In x acc -> In x (fold_left (kf_step same) l acc).
  Proof.
    induction l as [|a l IH]; simpl; intros acc x H; [exact H|].
    apply IH. destruct (kf_step_cases acc a) as [[_ ->]|[_ ->]]; [exact H|apply in_or_app; left; exact H].
  Qed.

  Lemma kf_sub l : forall acc x, In x (fold_left (kf_step same) l acc) -> In x acc \/ In x l.
  Proof.
    induction l as [|a l IH]; simpl; intros acc x H; [left; exact H|].
    apply IH in H. destruct H as [H|H]; [|right; right; exact H].
    destruct (kf_step_cases acc a) as [[_ E]|[_ E]]; rewrite E in H; [left; exact H|].
    apply in_app_or in H. destruct H as [H|[<-|[]]]; [left; exact H|right; left; reflexivity].
  Qed.

  Lemma kf_covers (Hrefl : forall x, same x x = true) l : forall acc x, In x l ->
    exists y, In y (fold_left (kf_step same) l acc) /\ same x y = true.
  Proof.
    induction l as [|a l IH]; simpl; intros acc x H; [destruct H|].
    destruct H as [<-|H]; [|apply IH; exact H].
    destruct (kf_step_cases acc a) as [[E ->]|[E ->]].
    - apply existsb_exists in E. destruct E as (y & Hy & Sy). exists y. split; [apply kf_incl; exact Hy|exact Sy].
    - exists a. split; [apply kf_incl; apply in_or_app; right; left; reflexivity|apply Hrefl].
  Qed.

  Lemma pairwise_snoc acc a :
    pairwise_distinct same acc -> existsb (same a) acc = false -> pairwise_distinct same (acc ++ [a]).
  Proof.
    intros H E i j x y Hij Hi Hj.
    assert (Hj' : j < List.length (acc ++ [a])) by (apply nth_error_Some; rewrite Hj; discriminate).
    rewrite app_length in Hj'. simpl in Hj'.
    rewrite nth_error_app1 in Hi by lia.
    destruct (Nat.eq_dec j (List.length acc)) as [->|Hne].
    - rewrite nth_error_app2 in Hj by lia. rewrite Nat.sub_diag in Hj. simpl in Hj. inversion Hj; subst y.
      apply nth_error_In in Hi.
      destruct (same a x) eqn:S; [|reflexivity].
      rewrite <- E. symmetry. apply existsb_exists. exists x. split; assumption.
    - rewrite nth_error_app1 in Hj by lia. exact (H i j x y Hij Hi Hj).
  Qed.

  Lemma kf_pairwise l : forall acc, pairwise_distinct same acc -> pairwise_distinct same (fold_left (kf_step same) l acc).
  Proof.
    induction l as [|a l IH]; simpl; intros acc H; [exact H|].
    apply IH. destruct (kf_step_cases acc a) as [[E ->]|[E ->]]; [exact H|apply pairwise_snoc; assumption].
  Qed.

  Lemma keep_first_pairwise l : pairwise_distinct same (keep_first same l).
  Proof. apply kf_pairwise. intros i j x y _ Hi. destruct i; discriminate. Qed.

  Lemma keep_first_sub l x : In x (keep_first same l) -> In x l.
  Proof. intro H. apply kf_sub in H. destruct H as [[]|H]. exact H. Qed.

  Lemma keep_first_covers (Hrefl : forall x, same x x = true) l x : In x l ->
    exists y, In y (keep_first same l) /\ same x y = true.
  Proof. apply kf_covers. exact Hrefl. Qed.
End KeepFirst.

Lemma kf_str_nodup l : forall acc, NoDup acc -> NoDup (fold_left (kf_step String.eqb) l acc).
Proof.
  induction l as [|a l IH]; simpl; intros acc H; [exact H|].
  apply IH. destruct (kf_step_cases String.eqb acc a) as [[E ->]|[E ->]]; [exact H|].
  rewrite <- (rev_involutive (acc ++ [a])). apply NoDup_rev. rewrite rev_app_distr. simpl.
  constructor; [|apply NoDup_rev; exact H].
  intro Hin. apply in_rev in Hin.
  assert (T : existsb (String.eqb a) acc = true).
  { apply existsb_exists. exists a. split; [exact Hin|apply String.eqb_refl]. }
  rewrite T in E. discriminate.
Qed.

Lemma keep_first_str_nodup l : NoDup (keep_first String.eqb l).
Proof. apply kf_str_nodup. constructor. Qed.

(** * the boundary section as a fold of elementary actions *)
Inductive pact := PMod (m : modification) | PSide (d : string * list nat).
Definition pact_name (a : pact) : string := match a with PMod m => mod_name m | PSide d => fst d end.
Definition mod_fun (m : modification) (p : apatch) : apatch :=
  mkPatch (p_name p) (mod_kind m) (match snd m with Some s => s | None => p_settings p end) (p_quads p).
Definition pact_fun (a : pact) : apatch -> apatch :=
  match a with PMod m => mod_fun m | PSide d => fun p => patch_add_side p (snd d) end.
Definition pact_run (ps : list apatch) (a : pact) : list apatch := patches_update ps (pact_name a) (pact_fun a).

Lemma patch_modify_run ps m : patch_modify ps m = pact_run ps (PMod m).
Proof. destruct m as [[n k] st]. reflexivity. Qed.

Lemma fold_modify_run ms : forall ps, fold_left patch_modify ms ps = fold_left pact_run (map PMod ms) ps.
Proof. induction ms as [|m ms IH]; simpl; intro ps; [reflexivity|]. rewrite patch_modify_run. apply IH. Qed.

Lemma add_patches_run fm o b ps :
  add_patches fm o (b_vids b) ps = fold_left pact_run (map PSide (op_sides fm (o, b))) ps.
Proof.
  unfold add_patches, op_sides. simpl fst. simpl snd. generalize patch_order. intro l. revert ps.
  induction l as [|s l IH]; simpl; intro ps; [reflexivity|].
  destruct (patch_of (o_calls o) s) as [n|]; simpl; rewrite IH; reflexivity.
Qed.

Definition face_run (fs : list (list nat * string)) (d : list nat * string) := faces_add fs (fst d) (snd d).

Lemma add_faces_run fm o b fs :
  add_faces fm o (b_vids b) fs = fold_left face_run (op_pfaces fm (o, b)) fs.
Proof.
  unfold add_faces, op_pfaces. simpl fst. simpl snd. generalize face_order. intro l. revert fs.
  induction l as [|s l IH]; simpl; intro fs; [reflexivity|].
  destruct (pface_of (o_calls o) s) as [n|]; simpl; rewrite IH; reflexivity.
Qed.

Definition livef (o : op) : bool := negb (o_deleted o).

(** [st'] is [st] after the live operations [ops]: one hex entry each, their sides assigned and projected in order *)
Definition trace_rel (fm : side -> list nat) (st st' : asm) (ops : list op) : Prop :=
  exists bs, a_blocks st' = a_blocks st ++ bs /\ List.length ops = List.length bs
    /\ a_patches st' = fold_left pact_run (map PSide (assigned fm (combine ops bs))) (a_patches st)
    /\ a_faces st' = fold_left face_run (projected fm (combine ops bs)) (a_faces st).

Lemma trace_refl fm st : trace_rel fm st st [].
Proof. exists []. rewrite app_nil_r. repeat split. Qed.

Lemma trace_trans fm st st1 st2 l1 l2 :
  trace_rel fm st st1 l1 -> trace_rel fm st1 st2 l2 -> trace_rel fm st st2 (l1 ++ l2).
Proof.
  intros (b1 & B1 & L1 & P1 & F1) (b2 & B2 & L2 & P2 & F2). exists (b1 ++ b2).
  repeat split.
  - rewrite B2, B1, app_assoc. reflexivity.
  - rewrite !app_length. lia.
  - rewrite P2, P1. rewrite combine_app' by exact L1. unfold assigned. rewrite flat_map_app, map_app, fold_left_app. reflexivity.
  - rewrite F2, F1. rewrite combine_app' by exact L1. unfold projected. rewrite flat_map_app, fold_left_app. reflexivity.
Qed.

Lemma add_op_trace fm slaves st o : trace_rel fm st (add_op fm slaves st o) (filter livef [o]).
Proof.
  unfold add_op, livef. simpl. destruct (o_deleted o); simpl; [apply trace_refl|].
  destruct (add_corners slaves o (a_verts st)) as [vs vids].
  destruct (grading_of (o_wires o)) as [kw gs].
  set (nb := mkBlock vids (zone_of (o_zone o)) (o_counts o) kw gs).
  exists [nb]. simpl. repeat split.
  - rewrite app_nil_r. exact (add_patches_run fm o nb (a_patches st)).
  - rewrite app_nil_r. exact (add_faces_run fm o nb (a_faces st)).
Qed.

Lemma fold_add_op_trace fm slaves ops : forall st,
  trace_rel fm st (fold_left (add_op fm slaves) ops st) (filter livef ops).
Proof.
  induction ops as [|o ops IH]; intro st; [apply trace_refl|].
  change (o :: ops) with ([o] ++ ops). rewrite filter_app, fold_left_app.
  eapply trace_trans; [apply add_op_trace|apply IH].
Qed.

Lemma add_entity_trace fm slaves st e : trace_rel fm st (add_entity fm slaves st e) (filter livef (e_ops e)).
Proof.
  unfold add_entity. assert (H := fold_add_op_trace fm slaves (e_ops e) st).
  destruct (e_geom e); exact H.
Qed.

Lemma fold_add_entity_trace fm slaves es : forall st,
  trace_rel fm st (fold_left (add_entity fm slaves) es st) (filter livef (flat_map e_ops es)).
Proof.
  induction es as [|e es IH]; intro st; [apply trace_refl|].
  simpl. rewrite filter_app. eapply trace_trans; [apply add_entity_trace|apply IH].
Qed.

Definition patch_acts (fm : side -> list nat) (m : mesh) : list pact :=
  map PMod (m_modify_pre m)
  ++ map PSide (assigned fm (combine (live_ops m) (f_blocks (ast_of fm m))))
  ++ map PMod (m_modify_post m).

Lemma assemble_trace fm m :
  f_patches (ast_of fm m) = fold_left pact_run (patch_acts fm m) []
  /\ f_faces (ast_of fm m) = fold_left face_run (projected fm (combine (live_ops m) (f_blocks (ast_of fm m)))) [].
Proof.
  unfold patch_acts, ast_of, assemble. cbn [f_patches f_faces f_blocks a_patches a_faces a_blocks].
  set (st0 := mkAsm [] [] (fold_left patch_modify (m_modify_pre m) []) [] (fold_left geom_merge (m_geometry m) [])).
  destruct (fold_add_entity_trace fm (map snd (m_merged m)) (m_depot m) st0) as (bs & B & L & P & F).
  fold (live_ops m) in L, P, F. simpl in B. rewrite B. split.
  - rewrite P. simpl. rewrite !fold_left_app, <- !fold_modify_run. reflexivity.
  - rewrite F. reflexivity.
Qed.

Theorem patches_trace fm m : f_patches (ast_of fm m) = fold_left pact_run (patch_acts fm m) [].
Proof. apply assemble_trace. Qed.

(** * per-name view of the fold *)
Definition view (ps : list apatch) (n : string) : option apatch := find (fun p => String.eqb (p_name p) n) ps.
Definition fresh (n : string) : apatch := mkPatch n "patch" [] [].

Lemma view_update ps n f : (forall p, p_name (f p) = p_name p) -> forall n',
  view (patches_update ps n f) n'
  = if String.eqb n n' then Some (f (match view ps n with Some p => p | None => fresh n end)) else view ps n'.
Proof.
  intros Hf n'. unfold view. induction ps as [|p ps IH]; simpl.
  - rewrite Hf. simpl. destruct (String.eqb n n'); reflexivity.
  - destruct (String.eqb (p_name p) n) eqn:E; simpl.
    + rewrite Hf. apply String.eqb_eq in E. rewrite E. destruct (String.eqb n n'); reflexivity.
    + destruct (String.eqb (p_name p) n') eqn:E'.
      * apply String.eqb_eq in E'. subst n'. rewrite String.eqb_sym in E. rewrite E. reflexivity.
      * exact IH.
Qed.

Lemma names_update ps n f : (forall p, p_name (f p) = p_name p) ->
  map p_name (patches_update ps n f) = kf_step String.eqb (map p_name ps) n.
Proof.
  intro Hf. unfold kf_step. induction ps as [|p ps IH]; simpl.
  - rewrite Hf. reflexivity.
  - rewrite (String.eqb_sym n (p_name p)). destruct (String.eqb (p_name p) n) eqn:E; simpl.
    + rewrite Hf. reflexivity.
    + rewrite IH. destruct (existsb (String.eqb n) (map p_name ps)); reflexivity.
Qed.

Lemma pact_fun_name a p : p_name (pact_fun a p) = p_name p.
Proof. destruct a; simpl; [reflexivity|]. unfold patch_add_side. destruct (existsb _ _); reflexivity. Qed.

Lemma run_names acts : forall ps,
  map p_name (fold_left pact_run acts ps) = fold_left (kf_step String.eqb) (map pact_name acts) (map p_name ps).
Proof.
  induction acts as [|a acts IH]; simpl; intro ps; [reflexivity|].
  rewrite IH. unfold pact_run. rewrite names_update by apply pact_fun_name. reflexivity.
Qed.

Definition pstep (n : string) (p : apatch) (a : pact) : apatch := if String.eqb (pact_name a) n then pact_fun a p else p.
Definition pstate (n : string) (acts : list pact) : apatch := fold_left (pstep n) acts (fresh n).

Lemma pstate_absent n acts : existsb (String.eqb n) (map pact_name acts) = false ->
  forall p, fold_left (pstep n) acts p = p.
Proof.
  induction acts as [|a acts IH]; simpl; intros H p; [reflexivity|].
  apply orb_false_iff in H. destruct H as [H1 H2]. unfold pstep at 2.
  rewrite String.eqb_sym, H1. apply IH. exact H2.
Qed.

Lemma view_run acts : forall n,
  view (fold_left pact_run acts []) n
  = if existsb (String.eqb n) (map pact_name acts) then Some (pstate n acts) else None.
Proof.
  induction acts as [|a acts IH] using rev_ind; intro n; [reflexivity|].
  rewrite fold_left_app. simpl. unfold pact_run at 1. rewrite view_update by apply pact_fun_name.
  rewrite map_app, existsb_app. simpl. unfold pstate. rewrite fold_left_app. simpl. unfold pstep at 1.
  destruct (String.eqb (pact_name a) n) eqn:E.
  - apply String.eqb_eq in E. subst n. rewrite String.eqb_refl. rewrite orb_true_r.
    rewrite IH. destruct (existsb (String.eqb (pact_name a)) (map pact_name acts)) eqn:X; [reflexivity|].
    rewrite (pstate_absent _ _ X). reflexivity.
  - rewrite String.eqb_sym in E. rewrite E. rewrite !orb_false_r. apply IH.
Qed.

Definition quads_for (n : string) (acts : list pact) : list (list nat) :=
  flat_map (fun a => match a with PSide d => if String.eqb (fst d) n then [snd d] else [] | PMod _ => [] end) acts.
Definition mods_for (n : string) (acts : list pact) : list modification :=
  flat_map (fun a => match a with PMod m => if String.eqb (mod_name m) n then [m] else [] | PSide _ => [] end) acts.

Lemma patch_add_side_quads p qd : p_quads (patch_add_side p qd) = kf_step same_set (p_quads p) qd.
Proof.
  unfold patch_add_side, kf_step. change (quad_same qd) with (same_set qd).
  destruct (existsb (same_set qd) (p_quads p)); reflexivity.
Qed.

Lemma pstate_name n acts : forall p, p_name (fold_left (pstep n) acts p) = p_name p.
Proof.
  induction acts as [|a acts IH]; simpl; intro p; [reflexivity|].
  rewrite IH. unfold pstep. destruct (String.eqb (pact_name a) n); [apply pact_fun_name|reflexivity].
Qed.

Lemma pstate_quads n acts : forall p,
  p_quads (fold_left (pstep n) acts p) = fold_left (kf_step same_set) (quads_for n acts) (p_quads p).
Proof.
  induction acts as [|a acts IH]; simpl; intro p; [reflexivity|].
  rewrite IH, fold_left_app. unfold pstep. destruct a as [m|d]; simpl.
  - destruct (String.eqb (mod_name m) n); reflexivity.
  - destruct (String.eqb (fst d) n); simpl; [rewrite patch_add_side_quads|]; reflexivity.
Qed.

Lemma pstate_kind n acts : forall p,
  p_kind (fold_left (pstep n) acts p) = fold_left (fun _ m => mod_kind m) (mods_for n acts) (p_kind p).
Proof.
  induction acts as [|a acts IH]; simpl; intro p; [reflexivity|].
  rewrite IH, fold_left_app. unfold pstep. destruct a as [m|d]; simpl.
  - destruct (String.eqb (mod_name m) n); reflexivity.
  - destruct (String.eqb (fst d) n); simpl; [|reflexivity].
    unfold patch_add_side. destruct (existsb _ _); reflexivity.
Qed.

Lemma pstate_settings n acts : forall p,
  p_settings (fold_left (pstep n) acts p)
  = fold_left (fun s m => match snd m with Some s' => s' | None => s end) (mods_for n acts) (p_settings p).
Proof.
  induction acts as [|a acts IH]; simpl; intro p; [reflexivity|].
  rewrite IH, fold_left_app. unfold pstep. destruct a as [m|d]; simpl.
  - destruct (String.eqb (mod_name m) n); reflexivity.
  - destruct (String.eqb (fst d) n); simpl; [|reflexivity].
    unfold patch_add_side. destruct (existsb _ _); reflexivity.
Qed.

Lemma mods_for_mods n l : mods_for n (map PMod l) = filter (fun m => String.eqb (mod_name m) n) l.
Proof. induction l as [|m l IH]; simpl; [reflexivity|]. rewrite IH. destruct (String.eqb (mod_name m) n); reflexivity. Qed.
Lemma mods_for_sides n l : mods_for n (map PSide l) = [].
Proof. induction l as [|d l IH]; simpl; [reflexivity|exact IH]. Qed.
Lemma quads_for_mods n l : quads_for n (map PMod l) = [].
Proof. induction l as [|d l IH]; simpl; [reflexivity|exact IH]. Qed.
Lemma quads_for_sides n l : quads_for n (map PSide l) = map snd (filter (fun d => String.eqb (fst d) n) l).
Proof. induction l as [|d l IH]; simpl; [reflexivity|]. rewrite IH. destruct (String.eqb (fst d) n); reflexivity. Qed.

Lemma mods_for_app n a b : mods_for n (a ++ b) = mods_for n a ++ mods_for n b.
Proof. unfold mods_for. apply flat_map_app. Qed.
Lemma quads_for_app n a b : quads_for n (a ++ b) = quads_for n a ++ quads_for n b.
Proof. unfold quads_for. apply flat_map_app. Qed.

Lemma mods_for_acts fm m n :
  mods_for n (patch_acts fm m) = filter (fun md => String.eqb (mod_name md) n) (m_modify_pre m ++ m_modify_post m).
Proof.
  unfold patch_acts. rewrite !mods_for_app.
  rewrite !mods_for_mods, mods_for_sides, filter_app. reflexivity.
Qed.

Lemma quads_for_acts fm m n :
  quads_for n (patch_acts fm m)
  = map snd (filter (fun d => String.eqb (fst d) n) (assigned fm (combine (live_ops m) (f_blocks (ast_of fm m))))).
Proof.
  unfold patch_acts. rewrite !quads_for_app.
  rewrite !quads_for_mods, quads_for_sides, app_nil_r. reflexivity.
Qed.

Lemma names_acts fm m :
  map pact_name (patch_acts fm m)
  = map mod_name (m_modify_pre m)
    ++ map fst (assigned fm (combine (live_ops m) (f_blocks (ast_of fm m))))
    ++ map mod_name (m_modify_post m).
Proof. unfold patch_acts. rewrite !map_app, !map_map. reflexivity. Qed.

Lemma in_view ps p : NoDup (map p_name ps) -> In p ps -> view ps (p_name p) = Some p.
Proof.
  unfold view. induction ps as [|a ps IH]; simpl; intros ND H; [destruct H|].
  inversion ND as [|x l Hn ND']; subst. destruct H as [<-|H].
  - rewrite String.eqb_refl. reflexivity.
  - destruct (String.eqb (p_name a) (p_name p)) eqn:E.
    + apply String.eqb_eq in E. exfalso. apply Hn. rewrite E. apply in_map. exact H.
    + apply IH; assumption.
Qed.

(** ** the boundary section *)
Theorem patch_names_exact fm m :
  map p_name (f_patches (ast_of fm m))
  = keep_first String.eqb (map mod_name (m_modify_pre m)
                           ++ map fst (assigned fm (combine (live_ops m) (f_blocks (ast_of fm m))))
                           ++ map mod_name (m_modify_post m)).
Proof. rewrite patches_trace, run_names, names_acts. reflexivity. Qed.

Lemma patch_names_nodup fm m : NoDup (map p_name (f_patches (ast_of fm m))).
Proof. rewrite patch_names_exact. apply keep_first_str_nodup. Qed.

Lemma patch_is_pstate fm m p : In p (f_patches (ast_of fm m)) -> p = pstate (p_name p) (patch_acts fm m).
Proof.
  intro H. assert (V := in_view _ _ (patch_names_nodup fm m) H).
  rewrite patches_trace, view_run in V.
  destruct (existsb (String.eqb (p_name p)) (map pact_name (patch_acts fm m))); [|discriminate].
  inversion V. rewrite <- H1 at 1. reflexivity.
Qed.

Theorem patch_exact fm m p : In p (f_patches (ast_of fm m)) ->
  let mods := rev (m_modify_pre m ++ m_modify_post m) in
  p_quads p = keep_first same_set
                (map snd (filter (fun d => String.eqb (fst d) (p_name p))
                                 (assigned fm (combine (live_ops m) (f_blocks (ast_of fm m))))))
  /\ match find (fun md => String.eqb (mod_name md) (p_name p)) mods with
     | Some md => p_kind p = mod_kind md
     | None => p_kind p = "patch"%string /\ p_settings p = []
     end
  /\ match find (fun md => String.eqb (mod_name md) (p_name p) && has_settings md) mods with
     | Some md => snd md = Some (p_settings p)
     | None => p_settings p = []
     end.
Proof.
  intros H mods. subst mods. assert (E := patch_is_pstate fm m p H). set (n := p_name p) in *.
  assert (Q : p_quads p = fold_left (kf_step same_set) (quads_for n (patch_acts fm m)) []).
  { rewrite E. unfold pstate. rewrite pstate_quads. reflexivity. }
  assert (K : p_kind p = fold_left (fun _ md => mod_kind md) (mods_for n (patch_acts fm m)) "patch"%string).
  { rewrite E. unfold pstate. rewrite pstate_kind. reflexivity. }
  assert (S : p_settings p = fold_left (fun s md => match snd md with Some s' => s' | None => s end)
                                       (mods_for n (patch_acts fm m)) []).
  { rewrite E. unfold pstate. rewrite pstate_settings. reflexivity. }
  rewrite quads_for_acts in Q. rewrite mods_for_acts in K, S.
  rewrite fold_last_filter in K. rewrite fold_last_some in S.
  set (mods := rev (m_modify_pre m ++ m_modify_post m)).
  assert (K' : p_kind p = match find (fun md => String.eqb (mod_name md) n) mods with
                          | Some md => mod_kind md | None => "patch"%string end) by exact K.
  assert (S' : p_settings p = match find (fun md => String.eqb (mod_name md) n && has_settings md) mods with
                              | Some md => match snd md with Some s => s | None => [] end
                              | None => [] end) by exact S.
  clear K S. split; [exact Q|]. split.
  - destruct (find (fun md => String.eqb (mod_name md) n) mods) as [md|] eqn:F; [exact K'|].
    split; [exact K'|].
    destruct (find (fun md => String.eqb (mod_name md) n && has_settings md) mods) as [md|] eqn:F'; [|exact S'].
    apply find_some in F'. destruct F' as [Hin Hb]. apply andb_true_iff in Hb. destruct Hb as [Hb _].
    assert (X := find_none _ _ F _ Hin). simpl in X. rewrite Hb in X. discriminate.
  - destruct (find (fun md => String.eqb (mod_name md) n && has_settings md) mods) as [md|] eqn:F'; [|exact S'].
    apply find_some in F'. destruct F' as [_ Hb]. apply andb_true_iff in Hb. destruct Hb as [_ Hb].
    unfold has_settings in Hb. destruct (snd md); [rewrite S'; reflexivity|discriminate].
Qed.

Lemma patch_order_all s : In s patch_order.
Proof. destruct s; simpl; tauto. Qed.
Lemma face_order_all s : In s face_order.
Proof. destruct s; simpl; tauto. Qed.

Lemma in_assigned fm obs n qd :
  In (n, qd) (assigned fm obs) <->
  exists o b s, In (o, b) obs /\ patch_of (o_calls o) s = Some n /\ qd = side_quad fm (b_vids b) s.
Proof.
  unfold assigned, op_sides. rewrite in_flat_map. split.
  - intros ([o b] & Hob & H). apply in_flat_map in H. destruct H as (s & _ & H). simpl in H.
    destruct (patch_of (o_calls o) s) as [n'|] eqn:E; [|destruct H].
    destruct H as [H|[]]. inversion H; subst. exists o, b, s. repeat split; assumption.
  - intros (o & b & s & Hob & E & ->). exists (o, b). split; [exact Hob|].
    apply in_flat_map. exists s. split; [apply patch_order_all|]. simpl. rewrite E. left. reflexivity.
Qed.

Lemma in_projected fm obs qd l :
  In (qd, l) (projected fm obs) <->
  exists o b s, In (o, b) obs /\ pface_of (o_calls o) s = Some l /\ qd = side_quad fm (b_vids b) s.
Proof.
  unfold projected, op_pfaces. rewrite in_flat_map. split.
  - intros ([o b] & Hob & H). apply in_flat_map in H. destruct H as (s & _ & H). simpl in H.
    destruct (pface_of (o_calls o) s) as [l'|] eqn:E; [|destruct H].
    destruct H as [H|[]]. inversion H; subst. exists o, b, s. repeat split; assumption.
  - intros (o & b & s & Hob & E & ->). exists (o, b). split; [exact Hob|].
    apply in_flat_map. exists s. split; [apply face_order_all|]. simpl. rewrite E. left. reflexivity.
Qed.

Lemma in_combine_nth {A B} (l : list A) (r : list B) x y :
  In (x, y) (combine l r) <-> exists k, nth_error l k = Some x /\ nth_error r k = Some y.
Proof.
  split.
  - intro H. apply In_nth_error in H. destruct H as (k & H). exists k. apply nth_error_combine_inv. exact H.
  - intros (k & H1 & H2). eapply nth_error_In. apply nth_error_combine; eassumption.
Qed.

(** every assigned side of a live operation is in its patch *)
Theorem assigned_side_written fm m k o b s n :
  nth_error (live_ops m) k = Some o -> nth_error (f_blocks (ast_of fm m)) k = Some b ->
  patch_of (o_calls o) s = Some n ->
  exists p qd, In p (f_patches (ast_of fm m)) /\ p_name p = n /\ In qd (p_quads p)
               /\ same_set qd (side_quad fm (b_vids b) s) = true.
Proof.
  intros Ho Hb Hs. set (sq := side_quad fm (b_vids b) s).
  assert (Hin : In (n, sq) (assigned fm (combine (live_ops m) (f_blocks (ast_of fm m))))).
  { apply in_assigned. exists o, b, s. repeat split; [|exact Hs]. apply in_combine_nth. exists k. split; assumption. }
  assert (X : existsb (String.eqb n) (map pact_name (patch_acts fm m)) = true).
  { apply existsb_exists. exists n. split; [|apply String.eqb_refl].
    rewrite names_acts. apply in_or_app. right. apply in_or_app. left.
    apply in_map_iff. exists (n, sq). split; [reflexivity|exact Hin]. }
  assert (V := view_run (patch_acts fm m) n). rewrite X, <- patches_trace in V.
  apply find_some in V. destruct V as [Vin _].
  set (p := pstate n (patch_acts fm m)) in *.
  assert (Np : p_name p = n) by (unfold p, pstate; rewrite pstate_name; reflexivity).
  destruct (patch_exact fm m p Vin) as (Q & _). rewrite Np in Q.
  assert (Hq : In sq (map snd (filter (fun d => String.eqb (fst d) n)
                                      (assigned fm (combine (live_ops m) (f_blocks (ast_of fm m))))))).
  { apply in_map_iff. exists (n, sq). split; [reflexivity|]. apply filter_In. split; [exact Hin|apply String.eqb_refl]. }
  destruct (keep_first_covers same_set same_set_refl _ _ Hq) as (qd & Hqd & Sq).
  exists p, qd. repeat split; [exact Vin|exact Np|rewrite Q; exact Hqd|rewrite same_set_sym; exact Sq].
Qed.

(** ... and nothing else is *)
Theorem written_quad_assigned fm m p qd :
  In p (f_patches (ast_of fm m)) -> In qd (p_quads p) ->
  exists k o b s, nth_error (live_ops m) k = Some o /\ nth_error (f_blocks (ast_of fm m)) k = Some b
                  /\ patch_of (o_calls o) s = Some (p_name p) /\ qd = side_quad fm (b_vids b) s.
Proof.
  intros Hp Hq. destruct (patch_exact fm m p Hp) as (Q & _). rewrite Q in Hq.
  apply keep_first_sub in Hq. apply in_map_iff in Hq. destruct Hq as ([n' q'] & E & Hf). simpl in E. subst q'.
  apply filter_In in Hf. destruct Hf as [Hin En]. simpl in En. apply String.eqb_eq in En. subst n'.
  apply in_assigned in Hin. destruct Hin as (o & b & s & Hob & Hs & ->).
  apply in_combine_nth in Hob. destruct Hob as (k & H1 & H2).
  exists k, o, b, s. repeat split; assumption.
Qed.

Theorem patch_quads_distinct fm m p : In p (f_patches (ast_of fm m)) -> pairwise_distinct same_set (p_quads p).
Proof. intro H. destruct (patch_exact fm m p H) as (Q & _). rewrite Q. apply keep_first_pairwise. Qed.

(** ** the faces section *)
Lemma face_run_step fs d : face_run fs d = kf_step face_same fs d.
Proof.
  destruct d as [qd l]. unfold face_run, faces_add, kf_step, face_same, quad_same. simpl.
  rewrite (existsb_ext' (fun f => same_set (fst f) qd) (fun y => same_set qd (fst y))) by (intro; apply same_set_sym).
  reflexivity.
Qed.

Theorem faces_exact fm m :
  f_faces (ast_of fm m) = keep_first face_same (projected fm (combine (live_ops m) (f_blocks (ast_of fm m)))).
Proof.
  destruct (assemble_trace fm m) as [_ F]. rewrite F. unfold keep_first.
  apply fold_left_ext. exact face_run_step.
Qed.

Lemma face_same_refl x : face_same x x = true.
Proof. apply same_set_refl. Qed.

Theorem projected_side_written fm m k o b s l :
  nth_error (live_ops m) k = Some o -> nth_error (f_blocks (ast_of fm m)) k = Some b ->
  pface_of (o_calls o) s = Some l ->
  exists qd l', In (qd, l') (f_faces (ast_of fm m)) /\ same_set qd (side_quad fm (b_vids b) s) = true.
Proof.
  intros Ho Hb Hs. set (sq := side_quad fm (b_vids b) s).
  assert (Hin : In (sq, l) (projected fm (combine (live_ops m) (f_blocks (ast_of fm m))))).
  { apply in_projected. exists o, b, s. repeat split; [|exact Hs]. apply in_combine_nth. exists k. split; assumption. }
  destruct (keep_first_covers face_same face_same_refl _ _ Hin) as ([qd l'] & Hy & Sy).
  exists qd, l'. rewrite faces_exact. split; [exact Hy|]. unfold face_same in Sy. simpl in Sy.
  rewrite same_set_sym. exact Sy.
Qed.

Theorem written_face_projected fm m qd l :
  In (qd, l) (f_faces (ast_of fm m)) ->
  exists k o b s, nth_error (live_ops m) k = Some o /\ nth_error (f_blocks (ast_of fm m)) k = Some b
                  /\ pface_of (o_calls o) s = Some l /\ qd = side_quad fm (b_vids b) s.
Proof.
  intro H. rewrite faces_exact in H. apply keep_first_sub in H.
  apply in_projected in H. destruct H as (o & b & s & Hob & Hs & ->).
  apply in_combine_nth in Hob. destruct Hob as (k & H1 & H2).
  exists k, o, b, s. repeat split; assumption.
Qed.

Theorem faces_distinct fm m : pairwise_distinct face_same (f_faces (ast_of fm m)).
Proof. rewrite faces_exact. apply keep_first_pairwise. Qed.

(** ** the geometry section *)
Lemma add_op_geom fm slaves st o : a_geom (add_op fm slaves st o) = a_geom st.
Proof.
  unfold add_op. destruct (o_deleted o); [reflexivity|].
  destruct (add_corners slaves o (a_verts st)). destruct (grading_of (o_wires o)). reflexivity.
Qed.

Lemma fold_add_op_geom fm slaves ops : forall st, a_geom (fold_left (add_op fm slaves) ops st) = a_geom st.
Proof. induction ops as [|o ops IH]; simpl; intro st; [reflexivity|]. rewrite IH. apply add_op_geom. Qed.

Lemma fold_add_entity_geom fm slaves es : forall st,
  a_geom (fold_left (add_entity fm slaves) es st) = fold_left geom_merge (auto_geoms es) (a_geom st).
Proof.
  induction es as [|e es IH]; simpl; intro st; [reflexivity|].
  rewrite IH. unfold auto_geoms. simpl. rewrite fold_left_app. f_equal.
  unfold add_entity. destruct (e_geom e); simpl; rewrite fold_add_op_geom; reflexivity.
Qed.

Theorem geometry_trace fm m : f_geometry (ast_of fm m) = fold_left geom_set (geom_defs m) [].
Proof.
  unfold ast_of, assemble, geom_defs. cbn [f_geometry a_geom].
  rewrite fold_add_entity_geom. cbn [a_geom]. rewrite <- fold_left_app.
  unfold geom_merge. apply fold_left_concat.
Qed.

Definition gview (g : list ageom) (n : string) : option ageom := find (fun x => String.eqb (fst x) n) g.

Lemma gview_set g e n : gview (geom_set g e) n = if String.eqb (fst e) n then Some e else gview g n.
Proof.
  unfold gview. induction g as [|a g IH]; simpl; [reflexivity|].
  destruct (String.eqb (fst a) (fst e)) eqn:E; simpl.
  - apply String.eqb_eq in E. rewrite E. destruct (String.eqb (fst e) n); reflexivity.
  - destruct (String.eqb (fst a) n) eqn:E'.
    + apply String.eqb_eq in E'. subst n. rewrite String.eqb_sym in E. rewrite E. reflexivity.
    + exact IH.
Qed.

Lemma gnames_set g e : map fst (geom_set g e) = kf_step String.eqb (map fst g) (fst e).
Proof.
  unfold kf_step. induction g as [|a g IH]; simpl; [reflexivity|].
  rewrite (String.eqb_sym (fst e) (fst a)). destruct (String.eqb (fst a) (fst e)) eqn:E; simpl.
  - apply String.eqb_eq in E. rewrite E. reflexivity.
  - rewrite IH. destruct (existsb (String.eqb (fst e)) (map fst g)); reflexivity.
Qed.

Lemma gnames_run defs : forall g,
  map fst (fold_left geom_set defs g) = fold_left (kf_step String.eqb) (map fst defs) (map fst g).
Proof. induction defs as [|d defs IH]; simpl; intro g; [reflexivity|]. rewrite IH, gnames_set. reflexivity. Qed.

Lemma gview_run defs n : gview (fold_left geom_set defs []) n = find (fun x => String.eqb (fst x) n) (rev defs).
Proof.
  induction defs as [|d defs IH] using rev_ind; [reflexivity|].
  rewrite fold_left_app, rev_app_distr. simpl. rewrite gview_set.
  destruct (String.eqb (fst d) n); [reflexivity|exact IH].
Qed.

Lemma g_in_view g n ps : NoDup (map fst g) -> (In (n, ps) g <-> gview g n = Some (n, ps)).
Proof.
  intro ND. split.
  - unfold gview. induction g as [|a g IH]; simpl; intro H; [destruct H|].
    inversion ND as [|x l Hn ND']; subst. destruct H as [->|H].
    + simpl. rewrite String.eqb_refl. reflexivity.
    + destruct (String.eqb (fst a) n) eqn:E.
      * apply String.eqb_eq in E. exfalso. apply Hn. rewrite E. change n with (fst (n, ps)). apply in_map. exact H.
      * apply IH; assumption.
  - intro H. apply find_some in H. apply H.
Qed.

Theorem geometry_names_exact fm m :
  map fst (f_geometry (ast_of fm m)) = keep_first String.eqb (map fst (geom_defs m)).
Proof. rewrite geometry_trace, gnames_run. reflexivity. Qed.

(** a geometry is written with the properties of its last definition *)
Theorem geometry_last_wins fm m n ps :
  In (n, ps) (f_geometry (ast_of fm m))
  <-> find (fun d => String.eqb (fst d) n) (rev (geom_defs m)) = Some (n, ps).
Proof.
  rewrite g_in_view by (rewrite geometry_names_exact; apply keep_first_str_nodup).
  rewrite geometry_trace, gview_run. reflexivity.
Qed.

Theorem geometry_declared fm m n ps : In (n, ps) (f_geometry (ast_of fm m)) ->
  (exists g, In g (m_geometry m) /\ In (n, ps) g)
  \/ (exists e g, In e (m_depot m) /\ e_geom e = Some g /\ In (n, ps) g).
Proof.
  intro H. apply geometry_last_wins in H. apply find_some in H. destruct H as [H _].
  apply in_rev in H. unfold geom_defs in H. apply in_concat in H. destruct H as (g & Hg & Hin).
  apply in_app_or in Hg. destruct Hg as [Hg|Hg].
  - left. exists g. split; assumption.
  - right. unfold auto_geoms in Hg. apply in_flat_map in Hg. destruct Hg as (e & He & Hg).
    destruct (e_geom e) as [g'|] eqn:E; [|destruct Hg]. destruct Hg as [<-|[]].
    exists e, g'. repeat split; assumption.
Qed.

(** every declared geometry name is written *)
Theorem geometry_complete fm m n : In n (map fst (geom_defs m)) -> In n (map fst (f_geometry (ast_of fm m))).
Proof.
  intro H. rewrite geometry_names_exact.
  destruct (keep_first_covers String.eqb String.eqb_refl _ _ H) as (y & Hy & E).
  apply String.eqb_eq in E. subst y. exact Hy.
Qed.
