(** C05 - lemmas about Model/C05_VertexList.v: the model refines first-fit classification
    (Proofs/C05_Classify.v) with  same (p,k) (q,k') := near p q && (k' = k). *)
From Coq Require Import List Bool Arith Lia Permutation ZArith.
From CB Require Import Base.Hex Model.C05_VertexList Proofs.C05_Classify.
Import ListNotations.
Open Scope nat_scope.

(** ** keys *)
Lemma key_eqb_eq a : forall b, key_eqb a b = true <-> a = b.
Proof.
  induction a as [|x a IH]; intros [|y b]; simpl; split; intros H; try reflexivity; try discriminate.
  - apply andb_true_iff in H. destruct H as [H1 H2]. apply Nat.eqb_eq in H1. apply IH in H2. congruence.
  - inversion H; subst. rewrite Nat.eqb_refl. simpl. apply IH. reflexivity.
Qed.

Lemma key_eqb_refl a : key_eqb a a = true.
Proof. apply key_eqb_eq. reflexivity. Qed.

Fixpoint lsorted (l : list nat) : Prop :=
  match l with
  | [] => True
  | x :: t => (forall y, In y t -> x <= y) /\ lsorted t
  end.

Lemma insert_In x l y : In y (insert x l) <-> y = x \/ In y l.
Proof.
  induction l as [|z t IH]; simpl.
  - intuition.
  - destruct (x <=? z); simpl; [intuition|]. rewrite IH. intuition.
Qed.

Lemma sort_In l y : In y (sort l) <-> In y l.
Proof.
  induction l as [|x t IH]; simpl; [reflexivity|]. rewrite insert_In, IH. intuition.
Qed.

Lemma insert_sorted x l : lsorted l -> lsorted (insert x l).
Proof.
  induction l as [|z t IH]; simpl; intros H.
  - split; [intros y []|exact I].
  - destruct H as [H1 H2]. destruct (x <=? z) eqn:E.
    + apply Nat.leb_le in E. simpl. split; [|split; assumption].
      intros y [<-|Hy]; [assumption|]. specialize (H1 y Hy). lia.
    + apply Nat.leb_gt in E. simpl. split; [|apply IH; assumption].
      intros y Hy. apply insert_In in Hy. destruct Hy as [->|Hy]; [lia|auto].
Qed.

Lemma sort_sorted l : lsorted (sort l).
Proof. induction l as [|x t IH]; simpl; [exact I|apply insert_sorted; assumption]. Qed.

Lemma sort_id l : lsorted l -> sort l = l.
Proof.
  induction l as [|x t IH]; simpl; intros H; [reflexivity|].
  destruct H as [H1 H2]. rewrite IH by assumption.
  destruct t as [|y t']; simpl; [reflexivity|].
  assert (x <= y) by (apply H1; left; reflexivity).
  apply Nat.leb_le in H. rewrite H. reflexivity.
Qed.

Lemma sort_idem l : sort (sort l) = sort l.
Proof. apply sort_id, sort_sorted. Qed.

Lemma insert_comm x y l : insert x (insert y l) = insert y (insert x l).
Proof.
  induction l as [|z t IH]; simpl;
    repeat (match goal with |- context [?a <=? ?b] => destruct (Nat.leb_spec a b) end; simpl);
    try reflexivity; try lia; try (assert (x = y) by lia; subst; reflexivity).
  rewrite IH. reflexivity.
Qed.

(** the order in which Python iterates over the set of names is irrelevant *)
Lemma sort_perm l l' : Permutation l l' -> sort l = sort l'.
Proof.
  induction 1; simpl; try congruence.
  apply insert_comm.
Qed.

Lemma sort_eq_members k1 k2 : sort k1 = sort k2 -> forall n, In n k1 <-> In n k2.
Proof. intros H n. rewrite <- (sort_In k1), <- (sort_In k2), H. reflexivity. Qed.

Lemma members_sort_eq k1 k2 : NoDup k1 -> NoDup k2 -> (forall n, In n k1 <-> In n k2) -> sort k1 = sort k2.
Proof. intros A B C. apply sort_perm. apply NoDup_Permutation; assumption. Qed.

Lemma memb_In x l : memb x l = true <-> In x l.
Proof.
  unfold memb. rewrite existsb_exists. split.
  - intros (y & Hy & E). apply Nat.eqb_eq in E. subst. assumption.
  - intros H. exists x. split; [assumption|apply Nat.eqb_refl].
Qed.

Lemma dedup_In l x : In x (dedup l) <-> In x l.
Proof.
  induction l as [|y t IH]; simpl; [reflexivity|].
  destruct (memb y t) eqn:E.
  - rewrite IH. split; [auto|]. intros [<-|H]; [apply memb_In; assumption|assumption].
  - simpl. rewrite IH. reflexivity.
Qed.

Lemma dedup_NoDup l : NoDup (dedup l).
Proof.
  induction l as [|y t IH]; simpl; [constructor|].
  destruct (memb y t) eqn:E; [assumption|].
  constructor; [|assumption]. rewrite dedup_In. intros H. apply memb_In in H. congruence.
Qed.

Section Refine.
  Variable P : Type.
  Variable near : P -> P -> bool.

  Notation vertex := (@vertex P).
  Notation dupe := (@dupe P).
  Notation vlist := (@vlist P).
  Definition req := (P * list nat)%type.

  Definition same (r e : req) : bool := near (fst r) (fst e) && key_eqb (snd e) (snd r).
  Definition entry (d : dupe) : req := (vpos (dvertex d), dpatches d).
  Definition entries (l : vlist) : list req := map entry (duplicated l).
  Definition canon (r : req) : req := (fst r, sort (snd r)).

  Definition Inv (l : vlist) : Prop :=
    map dvertex (duplicated l) = vertices l /\ map vindex (vertices l) = seq 0 (length (vertices l)).

  Lemma Inv_empty : Inv vl_empty.
  Proof. split; reflexivity. Qed.

  Lemma Inv_lengths l : Inv l -> length (entries l) = length (vertices l).
  Proof. intros [A _]. unfold entries. rewrite map_length, <- A, map_length. reflexivity. Qed.

  Lemma Inv_positions l : Inv l -> map fst (entries l) = map vpos (vertices l).
  Proof. intros [A _]. unfold entries. rewrite map_map, <- A, map_map. reflexivity. Qed.

  Lemma find_dup_cfind dd ds p k :
    find_duplicated P near ds p k = option_map (fun i => dvertex (nth i ds dd)) (cfind req same (map entry ds) (p, k)).
  Proof.
    induction ds as [|d r IH]; simpl; [reflexivity|].
    unfold same at 1. simpl.
    destruct (near p (vpos (dvertex d)) && key_eqb (dpatches d) k); [reflexivity|].
    rewrite IH. destruct (cfind req same (map entry r) (p, k)); reflexivity.
  Qed.

  Lemma Inv_nth l i dd :
    Inv l -> i < length (vertices l) ->
    vindex (dvertex (nth i (duplicated l) dd)) = i /\
    nth_error (vertices l) i = Some (dvertex (nth i (duplicated l) dd)).
  Proof.
    intros [A B] Hi.
    assert (E : dvertex (nth i (duplicated l) dd) = nth i (vertices l) (dvertex dd)).
    { rewrite <- A. rewrite map_nth. reflexivity. }
    split.
    - rewrite E. rewrite <- (map_nth vindex). rewrite B. rewrite seq_nth by assumption. reflexivity.
    - rewrite E. apply nth_error_nth'. assumption.
  Qed.

  Lemma add_refines l p k :
    Inv l ->
    let r := add P near l p k in
    let c := cadd req same (entries l) (p, sort k) in
    Inv (fst r) /\ entries (fst r) = fst c /\ vindex (snd r) = snd c
    /\ nth_error (vertices (fst r)) (vindex (snd r)) = Some (snd r)
    /\ (exists x, vertices (fst r) = vertices l ++ x).
  Proof.
    intros HI. unfold add, cadd.
    rewrite (find_dup_cfind (mkD (mkV p 0) [])). fold (entries l).
    destruct (cfind req same (entries l) (p, sort k)) as [i|] eqn:Hc; simpl.
    - apply (cfind_Some _ _ _ _ _ (p, sort k)) in Hc. destruct Hc as (Li & _ & _).
      assert (Li' : i < length (vertices l)) by (rewrite <- (Inv_lengths l HI); exact Li).
      clear Li. rename Li' into Li.
      destruct (Inv_nth l i (mkD (mkV p 0) []) HI Li) as [A B].
      repeat split; try assumption; try (apply HI).
      + rewrite A. assumption.
      + exists []. rewrite app_nil_r. reflexivity.
    - destruct HI as [A B]. repeat split; simpl.
      + rewrite map_app. simpl. rewrite A. reflexivity.
      + rewrite map_app, app_length. simpl. rewrite B, Nat.add_1_r, seq_S. reflexivity.
      + unfold entries. simpl. rewrite map_app. simpl. unfold entry at 2. simpl. rewrite sort_idem. reflexivity.
      + unfold entries. rewrite map_length, <- A, map_length. reflexivity.
      + rewrite nth_error_app2 by lia. rewrite Nat.sub_diag. reflexivity.
      + eexists. reflexivity.
  Qed.

  Lemma run_refines reqs : forall l,
    Inv l ->
    let r := run P near l reqs in
    let c := crun req same (entries l) (map canon reqs) in
    Inv (fst r) /\ entries (fst r) = fst c /\ map vindex (snd r) = snd c
    /\ Forall (fun v => nth_error (vertices (fst r)) (vindex v) = Some v) (snd r)
    /\ (exists x, vertices (fst r) = vertices l ++ x).
  Proof.
    induction reqs as [|[p k] t IH]; intros l HI; simpl.
    - repeat split; try apply HI; [constructor|exists []; rewrite app_nil_r; reflexivity].
    - pose proof (add_refines l p k HI) as HA. simpl in HA.
      change (canon (p, k)) with (p, sort k).
      destruct (add P near l p k) as [l1 v] eqn:Ea.
      destruct (cadd req same (entries l) (p, sort k)) as [es1 i] eqn:Ec.
      simpl in HA. destruct HA as (I1 & E1 & V1 & N1 & (x1 & X1)).
      specialize (IH l1 I1). simpl in IH. rewrite E1 in IH.
      destruct (run P near l1 t) as [l2 vs] eqn:Er.
      destruct (crun req same es1 (map canon t)) as [es2 js] eqn:Ecr.
      simpl in *. destruct IH as (I2 & E2 & V2 & N2 & (x2 & X2)).
      repeat split; try apply I2; try assumption.
      + rewrite V1, V2. reflexivity.
      + constructor; [|assumption]. rewrite X2. rewrite nth_error_app1; [assumption|].
        apply nth_error_Some. rewrite N1. discriminate.
      + exists (x1 ++ x2). rewrite X2, X1, app_assoc. reflexivity.
  Qed.

  (** *** request-level theorems, from the empty list *)
  Section FromEmpty.
    Variable reqs : list req.
    Let res := run P near vl_empty reqs.
    Let final := fst res.
    Let vs := snd res.
    Let cres := crun req same [] (map canon reqs).

    Lemma run_crun :
      Inv final /\ entries final = fst cres /\ map vindex vs = snd cres
      /\ Forall (fun v => nth_error (vertices final) (vindex v) = Some v) vs.
    Proof.
      pose proof (run_refines reqs vl_empty Inv_empty) as H. simpl in H.
      destruct H as (A & B & C & D & _). repeat split; try apply A; assumption.
    Qed.

    Lemma vs_length : length vs = length reqs.
    Proof.
      destruct run_crun as (_ & _ & C & _).
      rewrite <- (map_length vindex), C. unfold cres. rewrite crun_length, map_length. reflexivity.
    Qed.

    (** numbering is dense: the index a vertex carries is its position in the list, every vertex
        handed to a corner is in the list at its index, and every vertex of the list was handed out *)
    Theorem run_dense :
      map vindex (vertices final) = seq 0 (length (vertices final))
      /\ (forall v, In v vs -> nth_error (vertices final) (vindex v) = Some v)
      /\ (forall j, j < length (vertices final) -> exists v, In v vs /\ vindex v = j).
    Proof.
      destruct run_crun as (A & B & C & D). split; [apply A|]. split.
      - rewrite Forall_forall in D. exact D.
      - intros j Hj. rewrite <- (Inv_lengths final A), B in Hj.
        assert (Hin : In j (snd cres)).
        { unfold cres in *. apply crun_surjective. simpl. split; [lia|exact Hj]. }
        rewrite <- C in Hin. apply in_map_iff in Hin. destruct Hin as (v & Hv & Hin). exists v. auto.
    Qed.

  End FromEmpty.

  (** *** defaults for [nth] *)
  Variable dp : P.
  Definition dr : req := (dp, []).
  Definition dv : vertex := mkV dp 0.
  Definition dd : dupe := mkD dv [].

  Lemma nth_vindex (vs : list vertex) k : nth k (map vindex vs) 0 = vindex (nth k vs dv).
  Proof. change 0 with (vindex dv). apply map_nth. Qed.

  Lemma nth_canon (reqs : list req) k : nth k (map canon reqs) (canon dr) = canon (nth k reqs dr).
  Proof. apply map_nth. Qed.

  (** the vertex handed to a request is registered with exactly the request's (sorted) patch list
      and lies at the request's position; no hypothesis on [near] *)
  Theorem run_key_exact reqs k :
    k < length reqs ->
    let final := fst (run P near vl_empty reqs) in
    let v := nth k (snd (run P near vl_empty reqs)) dv in
    let r := nth k reqs dr in
    exists d, nth_error (duplicated final) (vindex v) = Some d /\ dvertex d = v
              /\ dpatches d = sort (snd r)
              /\ (vpos v = fst r \/ near (fst r) (vpos v) = true).
  Proof.
    intros Hk final v r.
    destruct (run_crun reqs) as (A & B & C & F). fold final in A, B, F.
    set (vs := snd (run P near vl_empty reqs)) in *.
    set (cres := crun req same [] (map canon reqs)) in *.
    assert (Lk : k < length (map canon reqs)) by (rewrite map_length; exact Hk).
    assert (Lvs : length vs = length reqs) by (apply vs_length).
    pose proof (crun_match req same (map canon reqs) (canon dr) [] k Lk) as M. simpl in M.
    fold cres in M. rewrite nth_canon in M. fold r in M.
    assert (Ei : nth k (snd cres) 0 = vindex v) by (rewrite <- C; apply nth_vindex).
    rewrite Ei in M.
    assert (Li : vindex v < length (fst cres)).
    { apply crun_bound. rewrite <- Ei. apply nth_In. unfold cres. rewrite crun_length. exact Lk. }
    rewrite <- B in M, Li.
    assert (Lv : vindex v < length (vertices final)) by (rewrite <- (Inv_lengths final A); exact Li).
    destruct (Inv_nth final (vindex v) dd A Lv) as [N1 N2].
    assert (Hv : In v vs) by (apply nth_In; rewrite Lvs; exact Hk).
    rewrite Forall_forall in F. specialize (F v Hv). rewrite F in N2. inversion N2 as [N3].
    exists (nth (vindex v) (duplicated final) dd).
    assert (Ld : vindex v < length (duplicated final)) by (unfold entries in Li; rewrite map_length in Li; exact Li).
    split; [apply nth_error_nth'; exact Ld|]. split; [symmetry; exact N3|].
    unfold entries in M. change (canon dr) with (entry dd) in M. rewrite map_nth in M.
    assert (Epos : vpos v = vpos (dvertex (nth (vindex v) (duplicated final) dd))) by (f_equal; exact N3).
    subst r.
    destruct M as [M|M].
    - unfold entry, canon in M. inversion M as [[M1 M2]]. split; [exact M2|]. left. rewrite Epos. exact M1.
    - unfold same in M. simpl in M. apply andb_true_iff in M. destruct M as [M1 M2].
      apply key_eqb_eq in M2. split; [exact M2|]. right. rewrite Epos. exact M1.
  Qed.

  (** corners with different slave-patch lists never share a vertex; no hypothesis on [near] *)
  Theorem run_keys_separate reqs k l :
    k < length reqs -> l < length reqs ->
    let vs := snd (run P near vl_empty reqs) in
    vindex (nth k vs dv) = vindex (nth l vs dv) ->
    sort (snd (nth k reqs dr)) = sort (snd (nth l reqs dr)).
  Proof.
    intros Hk Hl vs E.
    destruct (run_key_exact reqs k Hk) as (d1 & N1 & _ & K1 & _).
    destruct (run_key_exact reqs l Hl) as (d2 & N2 & _ & K2 & _).
    fold vs in N1, N2. rewrite E in N1. rewrite N1 in N2. inversion N2; subst. congruence.
  Qed.

  (** *** [near] an equivalence on the points of the program *)
  Definition near_equiv_on (pts : list P) : Prop :=
    (forall a, In a pts -> near a a = true)
    /\ (forall a b, In a pts -> In b pts -> near a b = true -> near b a = true)
    /\ (forall a b c, In a pts -> In b pts -> In c pts -> near a b = true -> near b c = true -> near a c = true).

  Definition Dom (pts : list P) (r : req) : Prop := In (fst r) pts.

  Lemma same_refl pts : near_equiv_on pts -> forall a, Dom pts a -> same a a = true.
  Proof. intros (R & _ & _) a Ha. unfold same. rewrite (R _ Ha), key_eqb_refl. reflexivity. Qed.

  Lemma same_sym pts : near_equiv_on pts -> forall a b, Dom pts a -> Dom pts b -> same a b = true -> same b a = true.
  Proof.
    intros (_ & S & _) a b Ha Hb H. unfold same in *. apply andb_true_iff in H. destruct H as [H1 H2].
    apply key_eqb_eq in H2. rewrite (S _ _ Ha Hb H1), H2, key_eqb_refl. reflexivity.
  Qed.

  Lemma same_trans pts : near_equiv_on pts ->
    forall a b c, Dom pts a -> Dom pts b -> Dom pts c -> same a b = true -> same b c = true -> same a c = true.
  Proof.
    intros (_ & _ & T) a b c Ha Hb Hc H1 H2. unfold same in *.
    apply andb_true_iff in H1, H2. destruct H1 as [A1 A2], H2 as [B1 B2].
    apply key_eqb_eq in A2, B2. rewrite (T _ _ _ Ha Hb Hc A1 B1). rewrite B2, A2, key_eqb_refl. reflexivity.
  Qed.

  Lemma Dom_canon reqs : Forall (Dom (map fst reqs)) (map canon reqs).
  Proof.
    rewrite Forall_forall. intros x Hx. apply in_map_iff in Hx. destruct Hx as (r & <- & Hr).
    unfold Dom, canon. simpl. apply in_map. exact Hr.
  Qed.

  (** identity: two requests are handed the same vertex iff their positions are near and their
      slave-patch lists agree up to order *)
  Theorem run_identity reqs k l :
    near_equiv_on (map fst reqs) -> k < length reqs -> l < length reqs ->
    let vs := snd (run P near vl_empty reqs) in
    (vindex (nth k vs dv) = vindex (nth l vs dv)
     <-> near (fst (nth k reqs dr)) (fst (nth l reqs dr)) = true
         /\ sort (snd (nth k reqs dr)) = sort (snd (nth l reqs dr))).
  Proof.
    intros Heq Hk Hl vs.
    destruct (run_crun reqs) as (_ & _ & C & _). fold vs in C.
    rewrite <- !nth_vindex, C.
    assert (Lk : k < length (map canon reqs)) by (rewrite map_length; exact Hk).
    assert (Ll : l < length (map canon reqs)) by (rewrite map_length; exact Hl).
    rewrite (crun_identity req same (Dom (map fst reqs)) (same_refl _ Heq) (same_sym _ Heq) (same_trans _ Heq)
               (map canon reqs) (canon dr) k l (Dom_canon reqs) Lk Ll).
    rewrite !nth_canon. unfold same, canon. simpl. rewrite andb_true_iff, key_eqb_eq.
    split; intros [A B]; split; auto.
  Qed.

  (** what [add] would hand out for a request in a given state *)
  Definition lookup (l : vlist) (r : req) : option nat :=
    option_map vindex (find_duplicated P near (duplicated l) (fst r) (sort (snd r))).

  Lemma lookup_cfind l r : Inv l -> lookup l r = cfind req same (entries l) (canon r).
  Proof.
    intros HI. unfold lookup. rewrite (find_dup_cfind dd). fold (entries l).
    change (fst r, sort (snd r)) with (canon r).
    destruct (cfind req same (entries l) (canon r)) as [i|] eqn:Hc; simpl; [|reflexivity].
    apply (cfind_Some _ _ _ _ _ (canon r)) in Hc. destruct Hc as (Li & _ & _).
    rewrite (Inv_lengths l HI) in Li. f_equal. apply (Inv_nth l i dd HI Li).
  Qed.

  (** the vertex handed out during the run is the one the final state still answers with *)
  Theorem run_lookup_stable reqs k :
    near_equiv_on (map fst reqs) -> k < length reqs ->
    lookup (fst (run P near vl_empty reqs)) (nth k reqs dr)
    = Some (vindex (nth k (snd (run P near vl_empty reqs)) dv)).
  Proof.
    intros Heq Hk. destruct (run_crun reqs) as (A & B & C & _).
    rewrite (lookup_cfind _ _ A), B, <- nth_vindex, C, <- nth_canon.
    apply (crun_stable req same (Dom (map fst reqs)) (same_refl _ Heq)).
    - apply Dom_canon.
    - rewrite map_length. exact Hk.
  Qed.

  (** independence of the order of arrival: same number of vertices, same partition of the requests *)
  Theorem run_order_independent reqs reqs' :
    near_equiv_on (map fst reqs) -> Permutation reqs reqs' ->
    let final := fst (run P near vl_empty reqs) in
    let final' := fst (run P near vl_empty reqs') in
    length (vertices final) = length (vertices final')
    /\ (forall a b, In a reqs -> In b reqs ->
          (lookup final a = lookup final b <-> lookup final' a = lookup final' b)).
  Proof.
    intros Heq HP final final'.
    destruct (run_crun reqs) as (A & B & _ & _). destruct (run_crun reqs') as (A' & B' & _ & _).
    fold final in A, B. fold final' in A', B'.
    assert (HPc : Permutation (map canon reqs) (map canon reqs')) by (apply Permutation_map; exact HP).
    split.
    - rewrite <- (Inv_lengths final A), <- (Inv_lengths final' A'), B, B'.
      apply (crun_count_perm req same (Dom (map fst reqs)) (same_refl _ Heq) (same_sym _ Heq) (same_trans _ Heq)).
      + apply Dom_canon.
      + exact HPc.
    - intros a b Ha Hb. rewrite !(lookup_cfind _ _ A), !(lookup_cfind _ _ A'), B, B'.
      apply (crun_partition_perm req same (Dom (map fst reqs)) (same_refl _ Heq) (same_sym _ Heq) (same_trans _ Heq)).
      + apply Dom_canon.
      + exact HPc.
      + apply in_map. exact Ha.
      + apply in_map. exact Hb.
  Qed.

  (** ** operations and assembly *)
  Notation operation := (@operation P).
  Variable slaves : list nat.
  Definition dop : operation := mkOp [] [].
  Definition all_requests (ops : list operation) : list req := flat_map (op_requests slaves dp) ops.
  Definition corner_point (op : operation) (c : nat) : P := nth c (opoints op) dp.
  Definition corner_req (op : operation) (c : nat) : req := (corner_point op c, slave_key slaves op c).
  Definition mesh_points (ops : list operation) : list P := map fst (all_requests ops).

  (** the corner lies on a side whose patch is declared a slave *)
  Definition slave_at (op : operation) (c n : nat) : Prop :=
    In n slaves /\ exists s, In s (sides_at c) /\ patch_of op s = Some n.

  Lemma slave_key_In (op : operation) c n : In n (slave_key slaves op c) <-> slave_at op c n.
  Proof.
    unfold slave_key, slave_at, patches_at_corner. rewrite filter_In, dedup_In, memb_In, in_flat_map.
    split.
    - intros [(s & Hs & Hn) Hsl]. split; [exact Hsl|]. exists s. split; [exact Hs|].
      destruct (patch_of op s) as [m|]; simpl in Hn; [destruct Hn as [<-|[]]; reflexivity|contradiction].
    - intros [Hsl (s & Hs & Hp)]. split; [|exact Hsl]. exists s. split; [exact Hs|]. rewrite Hp. left. reflexivity.
  Qed.

  Lemma slave_key_NoDup (op : operation) c : NoDup (slave_key slaves op c).
  Proof. unfold slave_key. apply NoDup_filter. apply dedup_NoDup. Qed.

  Lemma slave_key_sort_eq (op : operation) c (op' : operation) c' :
    sort (slave_key slaves op c) = sort (slave_key slaves op' c') <-> (forall n, slave_at op c n <-> slave_at op' c' n).
  Proof.
    split.
    - intros H n. rewrite <- !slave_key_In. apply sort_eq_members. exact H.
    - intros H. apply members_sort_eq; try apply slave_key_NoDup. intros n. rewrite !slave_key_In. apply H.
  Qed.

  Lemma run_app a : forall l b,
    run P near l (a ++ b) =
    let '(l1, v1) := run P near l a in let '(l2, v2) := run P near l1 b in (l2, v1 ++ v2).
  Proof.
    induction a as [|[p k] t IH]; intros l b; simpl.
    - destruct (run P near l b). reflexivity.
    - destruct (add P near l p k) as [l1 v]. rewrite IH.
      destruct (run P near l1 t) as [l2 vs]. destruct (run P near l2 b). reflexivity.
  Qed.

  Lemma run_length reqs : forall l, length (snd (run P near l reqs)) = length reqs.
  Proof.
    induction reqs as [|[p k] t IH]; intros l; simpl; [reflexivity|].
    destruct (add P near l p k) as [l1 v]. specialize (IH l1). destruct (run P near l1 t). simpl in *. lia.
  Qed.

  Lemma op_requests_length op : length (op_requests slaves dp op) = 8.
  Proof. unfold op_requests. rewrite map_length. reflexivity. Qed.

  Lemma op_requests_nth op c : c < 8 -> nth c (op_requests slaves dp op) dr = corner_req op c.
  Proof.
    intros Hc. unfold op_requests.
    set (f := fun c0 : nat => (nth c0 (opoints op) dp, slave_key slaves op c0)).
    rewrite (nth_indep _ dr (f 0)) by (rewrite map_length; exact Hc).
    rewrite map_nth. unfold f, corners. rewrite seq_nth by exact Hc. reflexivity.
  Qed.

  Lemma assemble_run ops : forall l,
    fst (assemble_from P near slaves dp l ops) = fst (run P near l (all_requests ops))
    /\ concat (snd (assemble_from P near slaves dp l ops)) = snd (run P near l (all_requests ops))
    /\ Forall (fun b => length b = 8) (snd (assemble_from P near slaves dp l ops))
    /\ length (snd (assemble_from P near slaves dp l ops)) = length ops.
  Proof.
    induction ops as [|op t IH]; intros l.
    - simpl. repeat split; constructor.
    - change (all_requests (op :: t)) with (op_requests slaves dp op ++ all_requests t).
      rewrite run_app. cbn [assemble_from]. unfold add_vertices.
      pose proof (run_length (op_requests slaves dp op) l) as L. rewrite op_requests_length in L.
      destruct (run P near l (op_requests slaves dp op)) as [l1 vs].
      specialize (IH l1).
      destruct (assemble_from P near slaves dp l1 t) as [l2 bs].
      destruct (run P near l1 (all_requests t)) as [l2' vs']. simpl in *.
      destruct IH as (A & B & C & D). subst. repeat split; auto.
  Qed.

  Lemma concat_nth8 {A} (bs : list (list A)) (d : A) : forall i c,
    Forall (fun b => length b = 8) bs -> i < length bs -> c < 8 ->
    nth (8 * i + c) (concat bs) d = nth c (nth i bs []) d.
  Proof.
    induction bs as [|b t IH]; intros i c HF Hi Hc; simpl in Hi; [lia|].
    inversion HF; subst. change (concat (b :: t)) with (b ++ concat t). destruct i as [|i].
    - replace (8 * 0 + c) with c by lia. simpl. apply app_nth1. lia.
    - change (nth (S i) (b :: t) []) with (nth i t []).
      rewrite app_nth2 by lia. replace (8 * S i + c - length b) with (8 * i + c) by lia.
      apply IH; auto; lia.
  Qed.

  Lemma all_requests_nth ops i c :
    i < length ops -> c < 8 -> nth (8 * i + c) (all_requests ops) dr = corner_req (nth i ops dop) c.
  Proof.
    intros Hi Hc. unfold all_requests. rewrite flat_map_concat_map.
    rewrite concat_nth8.
    - rewrite (nth_indep _ [] (op_requests slaves dp dop)) by (rewrite map_length; exact Hi).
      rewrite map_nth. apply op_requests_nth. exact Hc.
    - rewrite Forall_forall. intros b Hb. apply in_map_iff in Hb. destruct Hb as (op & <- & _).
      apply op_requests_length.
    - rewrite map_length. exact Hi.
    - exact Hc.
  Qed.

  Lemma all_requests_length ops : length (all_requests ops) = 8 * length ops.
  Proof.
    induction ops as [|op t IH]; [reflexivity|].
    change (all_requests (op :: t)) with (op_requests slaves dp op ++ all_requests t).
    rewrite app_length, op_requests_length. unfold req in *. rewrite IH. simpl length. lia.
  Qed.

  Lemma all_requests_In ops op c : In op ops -> c < 8 -> In (corner_req op c) (all_requests ops).
  Proof.
    intros Hop Hc. unfold all_requests. apply in_flat_map. exists op. split; [exact Hop|].
    rewrite <- (op_requests_nth op c Hc). apply nth_In. rewrite op_requests_length. exact Hc.
  Qed.

  (** the vertex of corner [c] of the [i]-th block *)
  Definition block_vertex (blocks : list (list vertex)) (i c : nat) : vertex := nth c (nth i blocks []) dv.

  Lemma block_vertex_run ops i c :
    i < length ops -> c < 8 ->
    block_vertex (snd (assemble_from P near slaves dp vl_empty ops)) i c
    = nth (8 * i + c) (snd (run P near vl_empty (all_requests ops))) dv.
  Proof.
    intros Hi Hc. destruct (assemble_run ops vl_empty) as (_ & B & C & D).
    rewrite <- B. unfold block_vertex. symmetry. apply concat_nth8; [exact C|rewrite D; exact Hi|exact Hc].
  Qed.

  Lemma idx_bound ops i c : i < length ops -> c < 8 -> 8 * i + c < length (all_requests ops).
  Proof. intros Hi Hc. rewrite all_requests_length. lia. Qed.

  (** dense numbering after assembly *)
  Theorem assemble_dense ops :
    let res := assemble_from P near slaves dp vl_empty ops in
    map vindex (vertices (fst res)) = seq 0 (length (vertices (fst res)))
    /\ (forall i c, i < length ops -> c < 8 ->
          nth_error (vertices (fst res)) (vindex (block_vertex (snd res) i c)) = Some (block_vertex (snd res) i c))
    /\ (forall j, j < length (vertices (fst res)) ->
          exists i c, i < length ops /\ c < 8 /\ vindex (block_vertex (snd res) i c) = j).
  Proof.
    intros res. destruct (assemble_run ops vl_empty) as (A & B & C & D). fold res in A, B, C, D.
    destruct (run_dense (all_requests ops)) as (E & F & G). rewrite <- A in E, F, G.
    split; [exact E|]. split.
    - intros i c Hi Hc. apply F. unfold res. rewrite block_vertex_run by assumption.
      apply nth_In. rewrite run_length. apply idx_bound; assumption.
    - intros j Hj. destruct (G j Hj) as (v & Hv & Ev).
      destruct (In_nth _ _ dv Hv) as (n & Hn & En). rewrite run_length, all_requests_length in Hn.
      exists (n / 8), (n mod 8).
      assert (Hi : n / 8 < length ops) by (apply Nat.div_lt_upper_bound; lia).
      assert (Hc : n mod 8 < 8) by (apply Nat.mod_upper_bound; lia).
      split; [exact Hi|]. split; [exact Hc|].
      unfold res. rewrite block_vertex_run by assumption.
      rewrite <- (Nat.div_mod n 8) by lia. rewrite En. exact Ev.
  Qed.

  (** identity of vertices after assembly *)
  Theorem assemble_identity ops i j c d :
    near_equiv_on (mesh_points ops) -> i < length ops -> j < length ops -> c < 8 -> d < 8 ->
    let blocks := snd (assemble_from P near slaves dp vl_empty ops) in
    (vindex (block_vertex blocks i c) = vindex (block_vertex blocks j d)
     <-> near (corner_point (nth i ops dop) c) (corner_point (nth j ops dop) d) = true
         /\ (forall n, slave_at (nth i ops dop) c n <-> slave_at (nth j ops dop) d n)).
  Proof.
    intros Heq Hi Hj Hc Hd blocks. unfold blocks. rewrite !block_vertex_run by assumption.
    rewrite (run_identity (all_requests ops) (8 * i + c) (8 * j + d) Heq (idx_bound _ _ _ Hi Hc) (idx_bound _ _ _ Hj Hd)).
    rewrite !all_requests_nth by assumption. unfold corner_req. simpl. rewrite slave_key_sort_eq. reflexivity.
  Qed.

  (** unconditional half: a shared vertex means equal slave-patch sets (so a corner on a slave patch
      never shares a vertex with a corner on no slave patch, whatever [near] is) *)
  Theorem assemble_slave_sets_equal ops i j c d :
    i < length ops -> j < length ops -> c < 8 -> d < 8 ->
    let blocks := snd (assemble_from P near slaves dp vl_empty ops) in
    vindex (block_vertex blocks i c) = vindex (block_vertex blocks j d) ->
    forall n, slave_at (nth i ops dop) c n <-> slave_at (nth j ops dop) d n.
  Proof.
    intros Hi Hj Hc Hd blocks. unfold blocks. rewrite !block_vertex_run by assumption. intros E.
    apply (run_keys_separate (all_requests ops) _ _ (idx_bound _ _ _ Hi Hc) (idx_bound _ _ _ Hj Hd)) in E.
    rewrite !all_requests_nth in E by assumption. unfold corner_req in E. simpl in E.
    apply slave_key_sort_eq. exact E.
  Qed.

  (** every vertex lies at the position of the corners that use it, and is registered with their slave set *)
  Theorem assemble_position ops i c :
    i < length ops -> c < 8 ->
    let res := assemble_from P near slaves dp vl_empty ops in
    let v := block_vertex (snd res) i c in
    vpos v = corner_point (nth i ops dop) c \/ near (corner_point (nth i ops dop) c) (vpos v) = true.
  Proof.
    intros Hi Hc res v. unfold v, res. rewrite block_vertex_run by assumption.
    destruct (run_key_exact (all_requests ops) (8 * i + c) (idx_bound _ _ _ Hi Hc)) as (dd0 & _ & _ & _ & H).
    rewrite all_requests_nth in H by assumption. exact H.
  Qed.

  (** the vertex a corner would be given in a final state *)
  Definition corner_vertex (l : vlist) (op : operation) (c : nat) : option nat := lookup l (corner_req op c).

  Theorem assemble_corner_vertex ops i c :
    near_equiv_on (mesh_points ops) -> i < length ops -> c < 8 ->
    let res := assemble_from P near slaves dp vl_empty ops in
    corner_vertex (fst res) (nth i ops dop) c = Some (vindex (block_vertex (snd res) i c)).
  Proof.
    intros Heq Hi Hc res. unfold res, corner_vertex. destruct (assemble_run ops vl_empty) as (A & _).
    rewrite A, block_vertex_run by assumption. rewrite <- all_requests_nth by assumption.
    apply run_lookup_stable; [exact Heq|apply idx_bound; assumption].
  Qed.

  (** independence of the insertion order of the operations *)
  Theorem assemble_order_independent ops ops' :
    near_equiv_on (mesh_points ops) -> Permutation ops ops' ->
    let final := fst (assemble_from P near slaves dp vl_empty ops) in
    let final' := fst (assemble_from P near slaves dp vl_empty ops') in
    length (vertices final) = length (vertices final')
    /\ (forall a b c d, In a ops -> In b ops -> c < 8 -> d < 8 ->
          (corner_vertex final a c = corner_vertex final b d <-> corner_vertex final' a c = corner_vertex final' b d)).
  Proof.
    intros Heq HP final final'. unfold final, final'.
    destruct (assemble_run ops vl_empty) as (A & _). destruct (assemble_run ops' vl_empty) as (A' & _).
    rewrite A, A'.
    assert (HPr : Permutation (all_requests ops) (all_requests ops')) by (apply Permutation_flat_map; exact HP).
    destruct (run_order_independent (all_requests ops) (all_requests ops') Heq HPr) as [L Q].
    split; [exact L|]. intros a b c d Ha Hb Hc Hd. unfold corner_vertex.
    apply Q; apply all_requests_In; assumption.
  Qed.
End Refine.

(** ** the integer instance *)
Lemma zdist2_sym a b : zdist2 a b = zdist2 b a.
Proof. destruct a as [[x y] z], b as [[u v] w]. unfold zdist2. ring. Qed.

Lemma zdist2_refl a : zdist2 a a = 0%Z.
Proof. destruct a as [[x y] z]. unfold zdist2. ring. Qed.

Lemma near_z_refl tol2 a : (0 <= tol2)%Z -> near_z tol2 a a = true.
Proof. intros H. unfold near_z. rewrite zdist2_refl. apply Z.leb_le. exact H. Qed.

Lemma near_z_sym tol2 a b : near_z tol2 a b = near_z tol2 b a.
Proof. unfold near_z. rewrite zdist2_sym. reflexivity. Qed.

(** exact coincidence ([tol2 = 0]) is an equivalence on every set of points: the hypothesis of the
    identity theorems is satisfiable *)
Lemma near_z_0_eq a b : near_z 0 a b = true <-> a = b.
Proof.
  destruct a as [[x y] z], b as [[u v] w]. unfold near_z, zdist2. rewrite Z.leb_le. split.
  - intros H.
    pose proof (Z.square_nonneg (x - u)) as A. pose proof (Z.square_nonneg (y - v)) as B.
    pose proof (Z.square_nonneg (z - w)) as C.
    assert (A0 : ((x - u) * (x - u) = 0)%Z) by lia.
    assert (B0 : ((y - v) * (y - v) = 0)%Z) by lia.
    assert (C0 : ((z - w) * (z - w) = 0)%Z) by lia.
    apply Z.mul_eq_0 in A0, B0, C0.
    f_equal; [f_equal|]; lia.
  - intros H. inversion H; subst. rewrite !Z.sub_diag. simpl. lia.
Qed.

Lemma near_z_0_equiv pts : near_equiv_on zpoint (near_z 0) pts.
Proof.
  split; [|split].
  - intros a _. apply near_z_0_eq. reflexivity.
  - intros a b _ _ H. apply near_z_0_eq in H. apply near_z_0_eq. congruence.
  - intros a b c _ _ _ H1 H2. apply near_z_0_eq in H1, H2. apply near_z_0_eq. congruence.
Qed.
