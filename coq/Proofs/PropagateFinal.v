(** Consequences of the invariants for the outcome of [run] (C01, C02): the outcome is a function
    of the family partition and the chop totals only. *)
From Coq Require Import List Bool Arith Lia.
From CB Require Import Model.Propagate Proofs.PropagateBasics Proofs.PropagateTerm Proofs.PropagateInv Proofs.PropagateInit Proofs.PropagateShort.
Import ListNotations.
Set Default Proof Using "Type".

Section Final.
  Variable bs : list blk.
  Notation n := (nblocks bs).
  Notation chopped := (chopped bs).
  Notation user_chops := (user_chops bs).
  Notation vw := (vw bs).
  Notation va := (va bs).
  Notation same_ends := (same_ends bs).
  Notation fam := (fam bs).
  Notation is_nbr := (is_nbr bs).
  Notation coincident := (coincident bs).

  (** ** families *)
  Lemma fam_va x y : va x -> fam x y -> va y.
  Proof. intros Hx F. induction F; auto. Qed.

  Lemma fam_trans x y z : fam x y -> fam y z -> fam x z.
  Proof. intros F1 F2. induction F2 as [y | y z t F2 IH Vt N]; [exact F1|]. eapply fam_step; [apply IH; exact F1 | exact Vt | exact N]. Qed.

  Lemma fam_sym x y : va x -> fam x y -> fam y x.
  Proof.
    intros Hx F. induction F as [x | x y z F IH Vz N].
    - apply fam_refl.
    - specialize (IH Hx). pose proof (fam_va _ _ Hx F) as Vy.
      apply fam_trans with (y := y); [|exact IH].
      eapply fam_step; [apply fam_refl | exact Vy | apply is_nbr_sym; exact N].
  Qed.

  (** blocks are non-degenerate: no two distinct wires of one block join the same two vertices *)
  Definition nondegenerate : bool :=
    forallb (fun u => forallb (fun w =>
      negb ((w_blk u =? w_blk w) && same_ends u w) || wire_eqb u w) (all_wires n)) (all_wires n).

  Lemma nondegenerate_spec : nondegenerate = true ->
    forall u w, vw u -> vw w -> w_blk u = w_blk w -> same_ends u w = true -> u = w.
  Proof.
    intros H u w Vu Vw B S. unfold nondegenerate in H. rewrite forallb_forall in H.
    specialize (H u Vu). rewrite forallb_forall in H. specialize (H w Vw).
    apply Nat.eqb_eq in B. rewrite B, S in H. simpl in H. apply wire_eqb_eq. exact H.
  Qed.

  (** ** counts are constant on a family under the consistency check *)
  Lemma consistent_cc s : consistent bs s = true -> consistent_counts bs s = true.
  Proof. unfold consistent. intro H. apply andb_true_iff in H. apply H. Qed.

  Lemma consistent_ga s : consistent bs s = true -> gradings_agree bs s = true.
  Proof. unfold consistent. intro H. apply andb_true_iff in H. apply H. Qed.

  Lemma consistent_axis s x : consistent_counts bs s = true -> va x ->
    (forall w, In w (wires_of_axis x) -> wcount s w = wcount s (fst x, snd x, 0)) /\
    (forall w c, In w (wires_of_axis x) -> vw c -> coincident w c = true -> wcount s c = wcount s w).
  Proof.
    intros C Vx. unfold consistent_counts in C. rewrite forallb_forall in C. specialize (C x Vx).
    unfold axis_consistent in C. apply andb_true_iff in C. destruct C as [C1 C2].
    rewrite forallb_forall in C1, C2. split.
    - intros w Hw. apply Nat.eqb_eq. apply C1. exact Hw.
    - intros w c Hw Vc Cc. specialize (C2 w Hw). rewrite forallb_forall in C2. apply Nat.eqb_eq. apply C2.
      apply in_coin_set. auto.
  Qed.

  Lemma consistent_fam s x y : consistent_counts bs s = true -> va x -> fam x y ->
    wcount s (fst y, snd y, 0) = wcount s (fst x, snd x, 0).
  Proof.
    intros C Vx F. induction F as [x | x y z F IH Vz N]; [reflexivity|].
    specialize (IH Vx). pose proof (fam_va _ _ Vx F) as Vy. rewrite <- IH.
    apply is_nbr_elim in N. destruct N as (_ & u & v & Hu & Hv & Cuv).
    destruct (consistent_axis s y C Vy) as [Y1 Y2]. destruct (consistent_axis s z C Vz) as [Z1 _].
    rewrite <- (Z1 v Hv), <- (Y1 u Hu). exact (Y2 u v Hu (vw_of_axis bs z v Vz Hv) Cuv).
  Qed.

  Section Oracles.
    Variable o_coin : wire -> list wire.
    Variable o_nbrs : axis -> list axis.
    Hypothesis Hco : forall w c, In w (all_wires n) -> In c (o_coin w) -> In c (coin_set bs w).
    Hypothesis Hnb : forall x y, In x (all_axes n) -> In y (o_nbrs x) -> In y (nbr_set bs x).
    Hypothesis Hnb' : forall x y, In x (all_axes n) -> In y (nbr_set bs x) -> In y (o_nbrs x).

    Notation copy_axis := (copy_axis bs o_coin o_nbrs).
    Notation copy_block := (copy_block bs o_coin o_nbrs).
    Notation propagate := (propagate bs o_coin o_nbrs).
    Notation Good := (Good bs).

    Definition start : st := grade_blocks bs o_coin (init bs).

    Lemma final_inv :
      match propagate (fuel0 bs) start (seq 0 n) with
      | Done s' => Good s' /\ Outside bs s' []
      | Stuck s' undef' =>
          Good s' /\ Outside bs s' undef' /\ undef' <> [] /\ (forall i, In i undef' -> i < n) /\
          scan bs o_coin o_nbrs s' [] undef' false = (s', undef', false)
      | OutOfFuel => True
      end.
    Proof using Hco Hnb.
      apply propagate_inv; auto.
      - intros i Hi. apply in_seq in Hi. lia.
      - apply grade_blocks_good. exact Hco.
      - intros b Hb Nb. exfalso. apply Nb. apply in_seq. lia.
    Qed.

    Lemma outside_all_defined s w : Outside bs s [] -> vw w -> g s w <> [].
    Proof.
      intros O Vw. destruct (vw_axis bs w Vw) as [Vx Hk]. apply in_all_axes in Vx. destruct Vx as [Hb Ha].
      specialize (O (fst (w_axis w)) Hb (fun X => X)). unfold b_defined in O. rewrite forallb_forall in O.
      specialize (O (w_axis w)). assert (In (w_axis w) (axes_of_block (fst (w_axis w)))) as X by (apply in_axes_of_block; auto).
      specialize (O X). unfold a_defined in O. rewrite forallb_forall in O.
      apply w_defined_iff. apply O. apply in_wires_of_axis. auto.
    Qed.

    Lemma final_short : single_section bs ->
      match propagate (fuel0 bs) start (seq 0 n) with
      | Done s' => Short bs s'
      | Stuck s' _ => Short bs s'
      | OutOfFuel => True
      end.
    Proof using Hco Hnb.
      intro SS. apply propagate_short; auto.
      - intros i Hi. apply in_seq in Hi. lia.
      - apply grade_blocks_good. exact Hco.
      - apply grade_blocks_short; auto.
    Qed.

    (** one-section gradings: the section-list comparison adds nothing to the count comparison *)
    Lemma short_agree s : Short bs s -> Outside bs s [] -> consistent_counts bs s = true -> gradings_agree bs s = true.
    Proof.
      intros [Sg _] O C. unfold gradings_agree. apply forallb_forall. intros x Vx.
      unfold axis_agree. apply forallb_forall. intros w Hw. apply forallb_forall. intros c Hc.
      pose proof (vw_of_axis bs x w Vx Hw) as Vw.
      apply in_coin_set in Hc. destruct Hc as [Vc Cc].
      destruct (consistent_axis s x C Vx) as [_ X]. specialize (X w c Hw Vc Cc).
      destruct (short_list_eq (g s w) (g s c) (Sg w Vw) (Sg c Vc)
                  (outside_all_defined s w O Vw) (outside_all_defined s c O Vc)) as [E1 E2].
      { unfold wcount in X. symmetry. exact X. }
      destruct (aligned bs c w); assumption.
    Qed.

    (** Done: every family holds a chopped axis *)
    Lemma done_families s x : Good s -> Outside bs s [] -> va x -> exists c, va c /\ chopped c = true /\ fam c x.
    Proof.
      intros GS O Vx. pose proof (vw_of_axis bs x _ Vx (wire0_in x)) as Vw.
      destruct (G3 bs s GS _ Vw (outside_all_defined s _ O Vw)) as (c & Vc & Cc & F & _).
      exists c. unfold w_axis in F. simpl in F. destruct x. auto.
    Qed.

    (** copy_block without update: no axis of the block could copy *)
    Lemma copy_block_fold_false xs : forall s u0 s',
      fold_left (fun sb x => let '(s', u) := copy_axis (fst sb) x in (s', u || snd sb)) xs (s, u0) = (s', false) ->
      forall x, In x xs -> copy_axis s x = (s, false).
    Proof.
      induction xs as [|a xs IH]; intros s u0 s' H x Hx; [destruct Hx|]. simpl in H.
      destruct (copy_axis s a) as [s1 u1] eqn:E. simpl in H.
      assert (u1 = false /\ s1 = s) as [-> ->].
      { destruct u1.
        - exfalso. simpl in H.
          assert (forall ys s1 s2, fold_left (fun sb x => let '(s', u) := copy_axis (fst sb) x in (s', u || snd sb)) ys (s1, true) = (s2, false) -> False) as X.
          { induction ys as [|y ys IHy]; intros s2 s3 H0; simpl in H0; [inversion H0|].
            destruct (copy_axis s2 y) as [s4 u4]. simpl in H0. rewrite orb_true_r in H0. eapply IHy; eauto. }
          eapply X; exact H.
        - split; [reflexivity|]. eapply copy_axis_false; eauto. }
      destruct Hx as [-> | Hx]; [exact E|]. eapply IH; eauto.
    Qed.

    Hypothesis ND : nondegenerate = true.

    (** Stuck: with a chopped axis in its family every axis would be defined (chopless-neighbour lemma) *)
    Lemma stuck_defined s undef : Good s -> Outside bs s undef -> (forall i, In i undef -> i < n) ->
      scan bs o_coin o_nbrs s [] undef false = (s, undef, false) ->
      forall c z, va c -> chopped c = true -> fam c z -> a_defined s z = true.
    Proof using Hco Hnb Hnb' ND.
      intros GS O Hn SC c z Vc Cc F. induction F as [c | c y z F IH Vz N].
      - unfold a_defined. apply forallb_forall. intros w Hw. apply w_defined_iff.
        rewrite (G5 bs s GS c Vc Cc w Hw). apply chopped_iff. exact Cc.
      - specialize (IH Vc Cc). pose proof (fam_va _ _ Vc F) as Vy.
        destruct (a_defined s z) eqn:Dz; [reflexivity|]. exfalso.
        (* z's block is in the work list and could not copy *)
        pose proof Vz as Vz'. apply in_all_axes in Vz'. destruct Vz' as [Hb Ha].
        assert (In (fst z) undef) as Hin.
        { destruct (in_dec Nat.eq_dec (fst z) undef) as [X | X]; [exact X|]. exfalso.
          specialize (O (fst z) Hb X). unfold b_defined in O. rewrite forallb_forall in O.
          rewrite (O z) in Dz; [discriminate|]. apply in_axes_of_block. auto. }
        destruct (scan_no_update_stuck bs o_coin o_nbrs undef s [] Hn SC (fst z) Hin) as [Db CB].
        unfold Propagate.copy_block in CB. rewrite Db in CB.
        assert (copy_axis s z = (s, false)) as CA.
        { eapply copy_block_fold_false; [exact CB|]. apply in_axes_of_block. auto. }
        unfold Propagate.copy_axis in CA. rewrite Dz in CA.
        destruct (find (fun y0 => a_defined s y0 && has_chops s y0) (o_nbrs z)) as [y0|] eqn:Fd; [inversion CA|].
        assert (forall y0, va y0 -> is_nbr z y0 = true -> a_defined s y0 = true -> ach s y0 <> [] -> False) as NoGiver.
        { intros y0 V0 N0 D0 A0.
          assert (In y0 (o_nbrs z)) as I0 by (apply Hnb'; [exact Vz | apply in_nbr_set; auto]).
          pose proof (find_none _ _ Fd y0 I0) as X. cbv beta in X.
          assert (has_chops s y0 = true) as HC by (apply has_chops_iff; exact A0).
          rewrite D0, HC in X. discriminate. }
        destruct (ach s y) eqn:Ay.
        + (* y is defined by copied wires only: behind the shared wire sits an axis with chops *)
          apply is_nbr_elim in N. destruct N as (_ & u & v & Hu & Hv & Cuv).
          pose proof (vw_of_axis bs y u Vy Hu) as Vu. pose proof (vw_of_axis bs z v Vz Hv) as Vv.
          assert (g s u <> []) as Du.
          { apply w_defined_iff. unfold a_defined in IH. rewrite forallb_forall in IH. apply IH. exact Hu. }
          destruct (G2 bs s GS u Vu Du) as (o & Vo & So & Po).
          apply coincident_iff in Cuv. destruct Cuv as [Buv Suv].
          assert (same_ends o v = true) as Sov by (eapply same_ends_trans; eauto).
          destruct (Nat.eq_dec (w_blk o) (w_blk v)) as [B | B].
          * pose proof (nondegenerate_spec ND o v Vo Vv B Sov) as E. subst o.
            apply in_wires_of_axis in Hv. destruct Hv as [Ev _]. rewrite Ev in Po.
            pose proof (G1 bs s GS z Vz Po) as X. congruence.
          * apply (NoGiver (w_axis o)).
            -- apply vw_axis. exact Vo.
            -- apply in_wires_of_axis in Hv. destruct Hv as [<- Hv].
               apply is_nbr_intro; auto.
               ++ apply vw_axis in Vo. apply Vo.
               ++ apply coincident_iff. split; [congruence | apply same_ends_sym; exact Sov].
            -- apply (G1 bs s GS); [apply vw_axis; exact Vo | exact Po].
            -- exact Po.
        + apply (NoGiver y); auto. { apply is_nbr_sym. exact N. } rewrite Ay. discriminate.
    Qed.

    Lemma stuck_family s undef : Good s -> Outside bs s undef -> (forall i, In i undef -> i < n) -> undef <> [] ->
      scan bs o_coin o_nbrs s [] undef false = (s, undef, false) ->
      exists x, va x /\ forall c, va c -> chopped c = true -> ~ fam c x.
    Proof using Hco Hnb Hnb' ND.
      intros GS O Hn Ne SC. destruct undef as [|i rest]; [congruence|].
      destruct (scan_no_update_stuck bs o_coin o_nbrs (i :: rest) s [] Hn SC i (or_introl eq_refl)) as [Db _].
      unfold b_defined in Db.
      assert (exists x, In x (axes_of_block i) /\ a_defined s x = false) as (x & Hx & Dx).
      { clear - Db. induction (axes_of_block i) as [|a l IH]; simpl in Db; [discriminate|].
        apply andb_false_iff in Db. destruct Db as [Db | Db].
        - exists a. split; [left; reflexivity | exact Db].
        - destruct (IH Db) as (x & Hx & Dx). exists x. split; [right; exact Hx | exact Dx]. }
      assert (va x) as Vx.
      { apply in_axes_of_block in Hx. apply in_all_axes. destruct Hx as [E Ha]. rewrite E. split; [|exact Ha].
        apply Hn. left. reflexivity. }
      exists x. split; [exact Vx|]. intros c Vc Cc F.
      rewrite (stuck_defined s (i :: rest) GS O Hn SC c x Vc Cc F) in Dx. discriminate.
    Qed.

    (** ** the outcome of [run] *)
    Definition all_families_chopped : Prop := forall x, va x -> exists c, va c /\ chopped c = true /\ fam c x.
    Definition some_family_unchopped : Prop := exists x, va x /\ forall c, va c -> chopped c = true -> ~ fam c x.
    Definition conflict : Prop :=
      exists c c', va c /\ va c' /\ chopped c = true /\ chopped c' = true /\ fam c c' /\
                   total (user_chops c) <> total (user_chops c').

    Hypothesis Hok : oracle_ok bs o_coin o_nbrs = true.

    Lemma run_unfold :
      run bs o_coin o_nbrs =
      match propagate (fuel0 bs) start (seq 0 n) with
      | OutOfFuel => NoFuel
      | Stuck _ _ => Undefined
      | Done s =>
          if consistent bs s
          then Ok (map (fun b => map (written bs s) (axes_of_block b)) (seq 0 n))
                  (map (fun b => map (wcount s) (flat_map wires_of_axis (axes_of_block b))) (seq 0 n))
          else Inconsistent
      end.
    Proof using Hok. unfold run. rewrite Hok. reflexivity. Qed.

    Theorem run_undefined_iff : run bs o_coin o_nbrs = Undefined <-> some_family_unchopped.
    Proof using Hco Hnb Hnb' ND Hok.
      rewrite run_unfold. pose proof final_inv as FI. pose proof (propagate_terminates bs o_coin o_nbrs start) as PT.
      destruct (propagate (fuel0 bs) start (seq 0 n)) as [s | s undef |].
      - destruct FI as [GS O]. split.
        + destruct (consistent bs s); discriminate.
        + intros (x & Vx & Hx). exfalso. destruct (done_families s x GS O Vx) as (c & Vc & Cc & F). eapply Hx; eauto.
      - destruct FI as (GS & O & Ne & Hn & SC). split; [|reflexivity]. intros _. eapply stuck_family; eauto.
      - congruence.
    Qed.

    Theorem run_done_or_undefined :
      (exists s, propagate (fuel0 bs) start (seq 0 n) = Done s /\ Good s /\ Outside bs s []) \/ run bs o_coin o_nbrs = Undefined.
    Proof using Hco Hnb Hok.
      rewrite run_unfold. pose proof final_inv as FI. pose proof (propagate_terminates bs o_coin o_nbrs start) as PT.
      destruct (propagate (fuel0 bs) start (seq 0 n)) as [s | s undef |].
      - left. exists s. destruct FI. auto.
      - right. reflexivity.
      - congruence.
    Qed.

    (** written count = count of every wire of the axis = total of ANY chopped axis of the family *)
    Lemma done_counts s : Good s -> consistent_counts bs s = true ->
      forall x, va x ->
        (forall w, In w (wires_of_axis x) -> wcount s w = written bs s x) /\
        (forall c, va c -> chopped c = true -> fam c x -> written bs s x = total (user_chops c)).
    Proof.
      intros GS C x Vx. destruct (consistent_axis s x C Vx) as [X1 _].
      assert (written bs s x = wcount s (fst x, snd x, 0)) as W.
      { unfold written. destruct (chopped x) eqn:Cx; [|reflexivity].
        unfold wcount. rewrite (G5 bs s GS x Vx Cx _ (wire0_in x)). reflexivity. }
      split.
      - intros w Hw. rewrite W. apply X1. exact Hw.
      - intros c Vc Cc F. rewrite W. rewrite (consistent_fam s c x C Vc F).
        unfold wcount. rewrite (G5 bs s GS c Vc Cc _ (wire0_in c)). reflexivity.
    Qed.

    Theorem conflict_never_ok : conflict -> forall cs ws, run bs o_coin o_nbrs <> Ok cs ws.
    Proof using Hco Hnb Hok.
      intros (c & c' & Vc & Vc' & Cc & Cc' & F & Ne) cs ws. rewrite run_unfold. pose proof final_inv as FI.
      destruct (propagate (fuel0 bs) start (seq 0 n)) as [s | s undef |]; try discriminate.
      destruct FI as [GS O]. destruct (consistent bs s) eqn:C; [|discriminate]. exfalso. apply Ne.
      apply consistent_cc in C.
      destruct (done_counts s GS C c' Vc') as [_ X].
      rewrite <- (X c Vc Cc F). rewrite <- (X c' Vc' Cc' (fam_refl bs c')). reflexivity.
    Qed.

    (** without conflict every wire count is determined, so the check passes *)
    Lemma no_conflict_wcount s : Good s -> Outside bs s [] -> ~ conflict ->
      forall w c, vw w -> va c -> chopped c = true -> fam c (w_axis w) -> wcount s w = total (user_chops c).
    Proof.
      intros GS O NC w c Vw Vc Cc F.
      destruct (G3 bs s GS w Vw (outside_all_defined s w O Vw)) as (c1 & V1 & C1 & F1 & T1).
      unfold wcount. fold (Proofs.PropagateInv.total). rewrite T1.
      destruct (Nat.eq_dec (total (user_chops c1)) (total (user_chops c))) as [E | E]; [exact E|].
      exfalso. apply NC. exists c1, c. repeat split; auto.
      eapply fam_trans; [exact F1|]. apply fam_sym; auto.
    Qed.

    Lemma no_conflict_cc s : Good s -> Outside bs s [] -> all_families_chopped -> ~ conflict -> consistent_counts bs s = true.
    Proof.
      intros GS O AF NC.
      unfold consistent_counts. apply forallb_forall. intros x Vx. unfold axis_consistent.
      destruct (AF x Vx) as (c & Vc & Cc & F).
      assert (forall w, In w (wires_of_axis x) -> wcount s w = total (user_chops c)) as X.
      { intros w Hw. apply (no_conflict_wcount s GS O NC w c (vw_of_axis bs x w Vx Hw) Vc Cc).
        apply in_wires_of_axis in Hw. destruct Hw as [Hw _]. rewrite Hw. exact F. }
      apply andb_true_iff. split; apply forallb_forall.
      + intros w Hw. apply Nat.eqb_eq. rewrite (X w Hw), (X _ (wire0_in x)). reflexivity.
      + intros w Hw. apply forallb_forall. intros c0 Hc0. apply Nat.eqb_eq. rewrite (X w Hw).
        apply in_coin_set in Hc0. destruct Hc0 as [V0 C0].
        apply (no_conflict_wcount s GS O NC c0 c V0 Vc Cc).
        eapply fam_step; [exact F | apply vw_axis; exact V0 |].
        pose proof Hw as Hw'. apply in_wires_of_axis in Hw'. destruct Hw' as [Ew Hk]. rewrite <- Ew.
        apply is_nbr_intro; auto. apply vw_axis in V0. apply V0.
    Qed.

    (** every family chopped, no conflicting totals, one-section chops: writing succeeds *)
    Theorem no_conflict_ok : single_section bs -> all_families_chopped -> ~ conflict -> exists cs ws, run bs o_coin o_nbrs = Ok cs ws.
    Proof using Hco Hnb Hnb' ND Hok.
      intros SS AF NC. destruct run_done_or_undefined as [(s & P & GS & O) | U].
      - rewrite run_unfold, P.
        assert (consistent bs s = true) as C; [|rewrite C; eauto].
        pose proof (final_short SS) as FS. rewrite P in FS.
        pose proof (no_conflict_cc s GS O AF NC) as CC.
        unfold consistent. rewrite CC, (short_agree s FS O CC). reflexivity.
      - exfalso. apply run_undefined_iff in U. destruct U as (x & Vx & Hx).
        destruct (AF x Vx) as (c & Vc & Cc & F). eapply Hx; eauto.
    Qed.

    (** in general (sections of any number): the count check passes; the outcome is [Ok] exactly when
        in addition the section lists of coincident wires agree *)
    Theorem no_conflict_counts : all_families_chopped -> ~ conflict ->
      exists s, propagate (fuel0 bs) start (seq 0 n) = Done s /\ consistent_counts bs s = true /\
                (gradings_agree bs s = true -> exists cs ws, run bs o_coin o_nbrs = Ok cs ws) /\
                (gradings_agree bs s = false -> run bs o_coin o_nbrs = Inconsistent).
    Proof using Hco Hnb Hnb' ND Hok.
      intros AF NC. destruct run_done_or_undefined as [(s & P & GS & O) | U].
      - exists s. pose proof (no_conflict_cc s GS O AF NC) as CC. repeat split; auto.
        + intro GA. rewrite run_unfold, P. unfold consistent. rewrite CC, GA. simpl. eauto.
        + intro GA. rewrite run_unfold, P. unfold consistent. rewrite CC, GA. reflexivity.
      - exfalso. apply run_undefined_iff in U. destruct U as (x & Vx & Hx).
        destruct (AF x Vx) as (c & Vc & Cc & F). eapply Hx; eauto.
    Qed.
  End Oracles.
End Final.

(** * valid oracles, oracle independence *)
Section Indep.
  Variable bs : list blk.
  Notation n := (nblocks bs).

  Lemma perm_of_incl {A} (eqb : A -> A -> bool) (l m : list A) :
    (forall x y, eqb x y = true -> x = y) -> perm_of eqb l m = true ->
    (forall x, In x l -> In x m) /\ (forall x, In x m -> In x l).
  Proof.
    intros E H. unfold perm_of in H. apply andb_true_iff in H. destruct H as [H H2].
    apply andb_true_iff in H. destruct H as [_ H1]. rewrite forallb_forall in H1, H2. split.
    - intros x Hx. specialize (H1 x Hx). apply existsb_exists in H1. destruct H1 as [y [Hy Exy]].
      apply E in Exy. subst. exact Hy.
    - intros x Hx. specialize (H2 x Hx). apply existsb_exists in H2. destruct H2 as [y [Hy Exy]].
      apply E in Exy. subst. exact Hy.
  Qed.

  Lemma oracle_ok_incl o_coin o_nbrs : oracle_ok bs o_coin o_nbrs = true ->
    (forall w c, In w (all_wires n) -> In c (o_coin w) -> In c (coin_set bs w)) /\
    (forall x y, In x (all_axes n) -> In y (o_nbrs x) -> In y (nbr_set bs x)) /\
    (forall x y, In x (all_axes n) -> In y (nbr_set bs x) -> In y (o_nbrs x)).
  Proof.
    intro H. unfold oracle_ok in H. apply andb_true_iff in H. destruct H as [H1 H2].
    rewrite forallb_forall in H1, H2. repeat split.
    - intros w c Hw Hc. specialize (H1 w Hw). apply perm_of_incl in H1; [|intros; apply wire_eqb_eq; auto].
      apply H1. exact Hc.
    - intros x y Hx Hy. specialize (H2 x Hx). apply perm_of_incl in H2; [|intros; apply axis_eqb_eq; auto].
      apply H2. exact Hy.
    - intros x y Hx Hy. specialize (H2 x Hx). apply perm_of_incl in H2; [|intros; apply axis_eqb_eq; auto].
      apply H2. exact Hy.
  Qed.

  Lemma perm_of_refl {A} (eqb : A -> A -> bool) (l : list A) : (forall x, eqb x x = true) -> perm_of eqb l l = true.
  Proof.
    intro R. unfold perm_of. rewrite Nat.eqb_refl. simpl.
    assert (forallb (fun x => existsb (eqb x) l) l = true) as X.
    { apply forallb_forall. intros x Hx. apply existsb_exists. exists x. auto. }
    rewrite X. reflexivity.
  Qed.

  (** the insertion order of BlockList.update_neighbours is a valid oracle *)
  Lemma insertion_oracle_ok : oracle_ok bs (o_coin_ins bs) (o_nbrs_ins bs) = true.
  Proof.
    unfold oracle_ok, o_coin_ins, o_nbrs_ins. apply andb_true_iff. split; apply forallb_forall; intros x _.
    - apply perm_of_refl. apply wire_eqb_refl.
    - apply perm_of_refl. apply axis_eqb_refl.
  Qed.
End Indep.

Section Indep2.
  Variable bs : list blk.
  Notation n := (nblocks bs).
  Hypothesis ND : nondegenerate bs = true.

  Lemma forallb_ext_in {A} (f f' : A -> bool) l : (forall x, In x l -> f x = f' x) -> forallb f l = forallb f' l.
  Proof.
    induction l as [|a l IH]; intro H; simpl; [reflexivity|].
    rewrite (H a (or_introl eq_refl)). rewrite IH; [reflexivity|]. intros x Hx. apply H. right. exact Hx.
  Qed.

  Lemma consistent_ext s s' :
    (forall w, In w (all_wires n) -> wcount s w = wcount s' w) -> consistent_counts bs s = consistent_counts bs s'.
  Proof.
    intro H. unfold consistent_counts. apply forallb_ext_in. intros x Vx. unfold axis_consistent.
    assert (forall w, In w (wires_of_axis x) -> In w (all_wires n)) as V by (intros w Hw; eapply vw_of_axis; eauto).
    f_equal.
    - apply forallb_ext_in. intros w Hw. rewrite (H w (V w Hw)), (H _ (V _ (wire0_in x))). reflexivity.
    - apply forallb_ext_in. intros w Hw. apply forallb_ext_in. intros c Hc.
      apply in_coin_set in Hc. destruct Hc as [Vc _]. rewrite (H w (V w Hw)), (H c Vc). reflexivity.
  Qed.

  (** the wire counts of a consistent final state are forced on any other final state *)
  Lemma forced_counts s1 s2 :
    Good bs s1 -> consistent_counts bs s1 = true -> Good bs s2 -> Outside bs s2 [] ->
    forall w, In w (all_wires n) -> wcount s2 w = wcount s1 w.
  Proof.
    intros G1' C1 G2' O2 w Vw.
    destruct (G3 bs s2 G2' w Vw (outside_all_defined bs s2 w O2 Vw)) as (c & Vc & Cc & F & T).
    destruct (vw_axis bs w Vw) as [Vx Hk].
    destruct (done_counts bs s1 G1' C1 (w_axis w) Vx) as [X1 X2].
    rewrite (X1 w) by (apply in_wires_of_axis; auto). rewrite (X2 c Vc Cc F). exact T.
  Qed.

  (** one-section gradings: the full check is the count check *)
  Lemma consistent_short s :
    Short bs s -> Outside bs s [] -> consistent bs s = consistent_counts bs s.
  Proof.
    intros SS O. unfold consistent. destruct (consistent_counts bs s) eqn:C; [|reflexivity].
    rewrite (short_agree bs s SS O C). reflexivity.
  Qed.

  Theorem run_oracle_independent o1 n1 o2 n2 : single_section bs ->
    oracle_ok bs o1 n1 = true -> oracle_ok bs o2 n2 = true -> run bs o1 n1 = run bs o2 n2.
  Proof using ND.
    intros SS K1 K2.
    destruct (oracle_ok_incl bs o1 n1 K1) as (A1 & B1 & B1').
    destruct (oracle_ok_incl bs o2 n2 K2) as (A2 & B2 & B2').
    pose proof (run_undefined_iff bs o1 n1 A1 B1 B1' ND K1) as U1.
    pose proof (run_undefined_iff bs o2 n2 A2 B2 B2' ND K2) as U2.
    destruct (run_done_or_undefined bs o1 n1 A1 B1 K1) as [(s1 & P1 & G1' & O1) | R1];
    destruct (run_done_or_undefined bs o2 n2 A2 B2 K2) as [(s2 & P2 & G2' & O2) | R2].
    - rewrite (run_unfold bs o1 n1 K1), (run_unfold bs o2 n2 K2), P1, P2.
      pose proof (final_short bs o1 n1 A1 B1 SS) as S1. rewrite P1 in S1.
      pose proof (final_short bs o2 n2 A2 B2 SS) as S2. rewrite P2 in S2.
      rewrite (consistent_short s1 S1 O1), (consistent_short s2 S2 O2).
      assert (consistent_counts bs s1 = true -> forall w, In w (all_wires n) -> wcount s2 w = wcount s1 w) as F12
        by (intros C; apply forced_counts; auto).
      assert (consistent_counts bs s2 = true -> forall w, In w (all_wires n) -> wcount s1 w = wcount s2 w) as F21
        by (intros C; apply forced_counts; auto).
      assert (forall sa sb, (forall w, In w (all_wires n) -> wcount sa w = wcount sb w) ->
              map (fun b => map (written bs sa) (axes_of_block b)) (seq 0 n) = map (fun b => map (written bs sb) (axes_of_block b)) (seq 0 n)
              /\ map (fun b => map (wcount sa) (flat_map wires_of_axis (axes_of_block b))) (seq 0 n)
                 = map (fun b => map (wcount sb) (flat_map wires_of_axis (axes_of_block b))) (seq 0 n)) as OUT.
      { intros sa sb H. split; apply map_ext_in; intros b Hb; apply map_ext_in.
        - intros x Hx. assert (In x (all_axes n)) as Vx.
          { apply in_axes_of_block in Hx. apply in_all_axes. apply in_seq in Hb. lia. }
          unfold written. destruct (chopped bs x); [reflexivity|]. apply H. eapply vw_of_axis; [exact Vx | apply wire0_in].
        - intros w Hw. apply in_flat_map in Hw. destruct Hw as [x [Hx Hw]]. apply H.
          eapply vw_of_axis; [|exact Hw]. apply in_axes_of_block in Hx. apply in_all_axes. apply in_seq in Hb. lia. }
      destruct (consistent_counts bs s1) eqn:C1.
      + specialize (F12 eq_refl). rewrite (consistent_ext s2 s1 F12), C1.
        destruct (OUT s1 s2 (fun w Hw => eq_sym (F12 w Hw))) as [E1 E2]. rewrite E1, E2. reflexivity.
      + destruct (consistent_counts bs s2) eqn:C2; [|reflexivity].
        specialize (F21 eq_refl). rewrite (consistent_ext s1 s2 F21), C2 in C1. discriminate.
    - exfalso. apply U2 in R2. apply U1 in R2. rewrite (run_unfold bs o1 n1 K1), P1 in R2. destruct (consistent bs s1); discriminate.
    - exfalso. apply U1 in R1. apply U2 in R1. rewrite (run_unfold bs o2 n2 K2), P2 in R1. destruct (consistent bs s2); discriminate.
    - congruence.
  Qed.

  (** for chops of any number of sections the COUNT part of the outcome is independent of the
      iteration order: whenever both orders succeed they write the same counts, and a count conflict
      is reported under every order *)
  Theorem run_oracle_independent_counts o1 n1 o2 n2 cs1 ws1 cs2 ws2 :
    oracle_ok bs o1 n1 = true -> oracle_ok bs o2 n2 = true ->
    run bs o1 n1 = Ok cs1 ws1 -> run bs o2 n2 = Ok cs2 ws2 -> cs1 = cs2 /\ ws1 = ws2.
  Proof using ND.
    intros K1 K2 R1 R2.
    destruct (oracle_ok_incl bs o1 n1 K1) as (A1 & B1 & B1').
    destruct (oracle_ok_incl bs o2 n2 K2) as (A2 & B2 & B2').
    rewrite (run_unfold bs o1 n1 K1) in R1. rewrite (run_unfold bs o2 n2 K2) in R2.
    pose proof (final_inv bs o1 n1 A1 B1) as FI1. pose proof (final_inv bs o2 n2 A2 B2) as FI2.
    destruct (propagate bs o1 n1 (fuel0 bs) (start bs o1) (seq 0 n)) as [s1 | |]; try discriminate.
    destruct (propagate bs o2 n2 (fuel0 bs) (start bs o2) (seq 0 n)) as [s2 | |]; try discriminate.
    destruct FI1 as [G1' O1]. destruct FI2 as [G2' O2].
    destruct (consistent bs s1) eqn:C1; [|discriminate]. destruct (consistent bs s2) eqn:C2; [|discriminate].
    assert (E1 : cs1 = map (fun b => map (written bs s1) (axes_of_block b)) (seq 0 n)) by congruence.
    assert (E2 : ws1 = map (fun b => map (wcount s1) (flat_map wires_of_axis (axes_of_block b))) (seq 0 n)) by congruence.
    assert (E3 : cs2 = map (fun b => map (written bs s2) (axes_of_block b)) (seq 0 n)) by congruence.
    assert (E4 : ws2 = map (fun b => map (wcount s2) (flat_map wires_of_axis (axes_of_block b))) (seq 0 n)) by congruence.
    subst cs1 ws1 cs2 ws2. clear R1 R2.
    pose proof (forced_counts s1 s2 G1' (consistent_cc bs s1 C1) G2' O2) as F.
    split; apply map_ext_in; intros b Hb; apply map_ext_in.
    - intros x Hx. assert (In x (all_axes n)) as Vx.
      { apply in_axes_of_block in Hx. apply in_all_axes. apply in_seq in Hb. lia. }
      unfold written. destruct (chopped bs x); [reflexivity|]. symmetry. apply F. eapply vw_of_axis; [exact Vx | apply wire0_in].
    - intros w Hw. apply in_flat_map in Hw. destruct Hw as [x [Hx Hw]]. symmetry. apply F.
      eapply vw_of_axis; [|exact Hw]. apply in_axes_of_block in Hx. apply in_all_axes. apply in_seq in Hb. lia.
  Qed.
End Indep2.

Section OkInv.
  Variable bs : list blk.
  Notation n := (nblocks bs).

  (** what an [Ok] outcome says, in terms of the written counts *)
  Theorem run_ok_inv o_coin o_nbrs cs ws :
    oracle_ok bs o_coin o_nbrs = true -> run bs o_coin o_nbrs = Ok cs ws ->
    exists s,
      cs = map (fun b => map (written bs s) (axes_of_block b)) (seq 0 n) /\
      ws = map (fun b => map (wcount s) (flat_map wires_of_axis (axes_of_block b))) (seq 0 n) /\
      (* the four parallel wires carry the written count *)
      (forall x w, In x (all_axes n) -> In w (wires_of_axis x) -> wcount s w = written bs s x) /\
      (* wires of different blocks joining the same two vertices carry the same count *)
      (forall w c, In w (all_wires n) -> In c (all_wires n) -> coincident bs w c = true -> wcount s c = wcount s w) /\
      (* the count is that of every chopped direction of the family *)
      (forall x c, In x (all_axes n) -> In c (all_axes n) -> chopped bs c = true -> fam bs c x ->
                   written bs s x = total (user_chops bs c)).
  Proof.
    intros K R. destruct (oracle_ok_incl bs o_coin o_nbrs K) as (A & B & _).
    rewrite (run_unfold bs o_coin o_nbrs K) in R. pose proof (final_inv bs o_coin o_nbrs A B) as FI.
    destruct (propagate bs o_coin o_nbrs (fuel0 bs) (start bs o_coin) (seq 0 n)) as [s | s undef |]; try discriminate.
    destruct FI as [GS O]. destruct (consistent bs s) eqn:C0; [|discriminate]. inversion R; subst. exists s.
    pose proof (consistent_cc bs s C0) as C.
    split; [reflexivity|]. split; [reflexivity|]. split; [|split].
    - intros x w Vx Hw. destruct (done_counts bs s GS C x Vx) as [X _]. apply X. exact Hw.
    - intros w c Vw Vc Cc. destruct (vw_axis bs w Vw) as [Vx Hk].
      destruct (consistent_axis bs s (w_axis w) C Vx) as [_ X]. apply X; auto. apply in_wires_of_axis. auto.
    - intros x c Vx Vc Cc F. destruct (done_counts bs s GS C x Vx) as [_ X]. apply X; auto.
  Qed.
End OkInv.
