(** Frame and effect lemmas of the addressing state machine (C10_frame): a call changes only the
    slot(s) it addresses, hence sequences of calls compose. *)
From Coq Require Import List Bool Arith Lia.
From CB Require Import Base.Hex Model.OpAddr.
Import ListNotations.

Definition touches_patch (c : call) (t : side) : bool :=
  match c with SetPatch sd _ => side_eqb sd t | _ => false end.
Definition touches_pface (c : call) (t : side) : bool :=
  match c with ProjectSide sd _ _ _ => side_eqb sd t | _ => false end.
Definition pair_eqb (p q : nat * nat) : bool := (fst p =? fst q) && (snd p =? snd q).
Definition touches_pedge (c : call) (i j : nat) : bool :=
  match c with
  | ProjectEdge a b _ => pair_eqb (key a b) (i, j)
  | ProjectSide sd _ true _ => existsb (pair_eqb (i, j)) (side_edges sd)
  | _ => false
  end.
Definition touches_pvert (c : call) (i : nat) : bool :=
  match c with
  | ProjectCorner a _ => a =? i
  | ProjectSide sd _ _ true => existsb (Nat.eqb i) (side_corners sd)
  | _ => false
  end.

Lemma side_eqb_refl s : side_eqb s s = true.
Proof. destruct s; reflexivity. Qed.

Lemma side_eqb_eq s t : side_eqb s t = true <-> s = t.
Proof. destruct s, t; simpl; split; intro H; try reflexivity; try discriminate. Qed.

(* --- single edge projection ------------------------------------------------------------- *)
Lemma project_edge_st_frame s a b x s' :
  project_edge_st s a b x = Some s' ->
  patch s' = patch s /\ pface s' = pface s /\ pvert s' = pvert s /\
  (forall i j, pair_eqb (key a b) (i, j) = false -> pedge s' i j = pedge s i j).
Proof.
  unfold project_edge_st. destruct (is_edge a b); [|discriminate].
  unfold upd_edge. destruct (key a b) as [lo hi] eqn:K.
  destruct (2 <? _); [discriminate|]. intro H; inversion H; subst; clear H. simpl.
  repeat split; try reflexivity.
  intros i j Hk. unfold pair_eqb in Hk. simpl in Hk.
  rewrite (Nat.eqb_sym i lo), (Nat.eqb_sym j hi). rewrite Hk. reflexivity.
Qed.

Lemma project_edge_st_effect s a b x s' :
  project_edge_st s a b x = Some s' ->
  is_edge a b = true /\
  pedge s' (fst (key a b)) (snd (key a b)) = add_label (pedge s (fst (key a b)) (snd (key a b))) x.
Proof.
  unfold project_edge_st. destruct (is_edge a b) eqn:E; [|discriminate].
  unfold upd_edge. destruct (key a b) as [lo hi] eqn:K.
  destruct (2 <? _); [discriminate|]. intro H; inversion H; subst; clear H. simpl.
  split; [reflexivity|]. rewrite !Nat.eqb_refl. reflexivity.
Qed.

Lemma project_edges_st_frame es : forall s x s',
  project_edges_st s es x = Some s' ->
  patch s' = patch s /\ pface s' = pface s /\ pvert s' = pvert s /\
  (forall i j, existsb (fun e => pair_eqb (key (fst e) (snd e)) (i, j)) es = false -> pedge s' i j = pedge s i j).
Proof.
  induction es as [|[a b] r IH]; intros s x s' H; simpl in H.
  - inversion H; subst. repeat split; reflexivity.
  - destruct (project_edge_st s a b x) as [s1|] eqn:E1; [|discriminate].
    destruct (project_edge_st_frame _ _ _ _ _ E1) as (P1 & F1 & V1 & E1').
    destruct (IH _ _ _ H) as (P2 & F2 & V2 & E2').
    repeat split; try congruence.
    intros i j Hex. simpl in Hex. apply orb_false_iff in Hex. destruct Hex as [H1 H2].
    rewrite E2' by exact H2. apply E1'. exact H1.
Qed.

Lemma project_verts_st_frame cs : forall s x,
  patch (project_verts_st s cs x) = patch s /\ pface (project_verts_st s cs x) = pface s /\
  pedge (project_verts_st s cs x) = pedge s /\
  (forall i, existsb (Nat.eqb i) cs = false -> pvert (project_verts_st s cs x) i = pvert s i).
Proof.
  induction cs as [|c r IH]; intros s x; simpl.
  - repeat split; reflexivity.
  - unfold project_verts_st in *. simpl.
    specialize (IH {| patch := patch s; pface := pface s; pedge := pedge s; pvert := upd_vert (pvert s) c x |} x).
    simpl in IH. destruct IH as (P & F & E & V). repeat split; try assumption.
    intros i Hi. apply orb_false_iff in Hi. destruct Hi as [H1 H2].
    rewrite V by exact H2. unfold upd_vert. rewrite H1. reflexivity.
Qed.

(* keys of the edges of a side are the pairs themselves (lo < hi) *)
Lemma all_edges_key : forallb (fun e => pair_eqb (key (fst e) (snd e)) e) all_edges = true.
Proof. vm_compute. reflexivity. Qed.

Lemma side_edges_key sd e : In e (side_edges sd) -> key (fst e) (snd e) = e.
Proof.
  intro H. unfold side_edges in H. apply filter_In in H. destruct H as [H _].
  pose proof (forallb_In _ _ all_edges_key e H) as K. unfold pair_eqb in K.
  apply andb_true_iff in K. destruct K as [K1 K2]. apply Nat.eqb_eq in K1, K2.
  destruct e as [a b]. unfold key in *. cbn [fst snd] in *. rewrite K1, K2. reflexivity.
Qed.

Lemma existsb_key_side sd i j :
  existsb (pair_eqb (i, j)) (side_edges sd) = false ->
  existsb (fun e => pair_eqb (key (fst e) (snd e)) (i, j)) (side_edges sd) = false.
Proof.
  intro H. apply not_true_is_false. intro T. apply existsb_exists in T. destruct T as [e [He Hk]].
  rewrite (side_edges_key _ _ He) in Hk.
  assert (existsb (pair_eqb (i, j)) (side_edges sd) = true) as C.
  { apply existsb_exists. exists e. split; [exact He|]. unfold pair_eqb in *. simpl in *.
    rewrite (Nat.eqb_sym i), (Nat.eqb_sym j). exact Hk. }
  congruence.
Qed.

(** * one step *)
Theorem step_frame s c s' :
  step s c = Some s' ->
  (forall t, touches_patch c t = false -> patch s' t = patch s t) /\
  (forall t, touches_pface c t = false -> pface s' t = pface s t) /\
  (forall i j, touches_pedge c i j = false -> pedge s' i j = pedge s i j) /\
  (forall i, touches_pvert c i = false -> pvert s' i = pvert s i).
Proof.
  destruct c as [sd n | sd l e p | a b l | c l]; simpl; intro H.
  - inversion H; subst; clear H; simpl. repeat split; try reflexivity.
    intros t Ht. unfold upd_side. rewrite Ht. reflexivity.
  - set (s1 := {| patch := patch s; pface := upd_side (pface s) sd l; pedge := pedge s; pvert := pvert s |}) in *.
    destruct e.
    + destruct (project_edges_st s1 (side_edges sd) l) as [s2|] eqn:E2; [|discriminate].
      destruct (project_edges_st_frame _ _ _ _ E2) as (P2 & F2 & V2 & E2').
      destruct p; inversion H; subst; clear H.
      * destruct (project_verts_st_frame (side_corners sd) s2 l) as (P3 & F3 & E3 & V3).
        repeat split.
        -- intros t _. rewrite P3, P2. reflexivity.
        -- intros t Ht. rewrite F3, F2. simpl. unfold upd_side. rewrite Ht. reflexivity.
        -- intros i j Hij. rewrite E3. apply E2'. apply existsb_key_side. exact Hij.
        -- intros i Hi. rewrite V3 by exact Hi. rewrite V2. reflexivity.
      * repeat split.
        -- intros t _. rewrite P2. reflexivity.
        -- intros t Ht. rewrite F2. simpl. unfold upd_side. rewrite Ht. reflexivity.
        -- intros i j Hij. apply E2'. apply existsb_key_side. exact Hij.
        -- intros i _. rewrite V2. reflexivity.
    + destruct p; inversion H; subst; clear H.
      * destruct (project_verts_st_frame (side_corners sd) s1 l) as (P3 & F3 & E3 & V3).
        repeat split.
        -- intros t _. rewrite P3. reflexivity.
        -- intros t Ht. rewrite F3. simpl. unfold upd_side. rewrite Ht. reflexivity.
        -- intros i j _. rewrite E3. reflexivity.
        -- intros i Hi. rewrite V3 by exact Hi. reflexivity.
      * simpl. repeat split; try reflexivity.
        intros t Ht. unfold upd_side. rewrite Ht. reflexivity.
  - destruct (project_edge_st_frame _ _ _ _ _ H) as (P & F & V & E).
    repeat split; intros; try congruence. apply E. assumption.
  - destruct (valid c); [|discriminate]. inversion H; subst; clear H; simpl.
    repeat split; try reflexivity.
    intros i Hi. unfold upd_vert. rewrite (Nat.eqb_sym i c), Hi. reflexivity.
Qed.

(** effect of the addressed slot *)
Theorem step_effect_patch s sd n s' : step s (SetPatch sd n) = Some s' -> patch s' sd = Some n.
Proof. simpl. intro H; inversion H; subst; simpl. unfold upd_side. rewrite side_eqb_refl. reflexivity. Qed.

Theorem step_effect_corner s c l s' :
  step s (ProjectCorner c l) = Some s' -> c < 8 /\ pvert s' c = pvert s c ++ [l].
Proof.
  simpl. destruct (valid c) eqn:V; [|discriminate]. intro H; inversion H; subst; simpl.
  split. { unfold valid in V. apply Nat.ltb_lt in V. exact V. }
  unfold upd_vert. rewrite Nat.eqb_refl. reflexivity.
Qed.

Theorem step_effect_edge s a b l s' :
  step s (ProjectEdge a b l) = Some s' ->
  is_edge a b = true /\
  pedge s' (fst (key a b)) (snd (key a b)) = add_label (pedge s (fst (key a b)) (snd (key a b))) l.
Proof. simpl. apply project_edge_st_effect. Qed.

Theorem step_effect_side_face s sd l e p s' : step s (ProjectSide sd l e p) = Some s' -> pface s' sd = Some l.
Proof.
  intro H. pose proof H as H0. simpl in H.
  set (s1 := {| patch := patch s; pface := upd_side (pface s) sd l; pedge := pedge s; pvert := pvert s |}) in *.
  assert (pface s1 sd = Some l) as H1 by (simpl; unfold upd_side; rewrite side_eqb_refl; reflexivity).
  destruct e.
  - destruct (project_edges_st s1 (side_edges sd) l) as [s2|] eqn:E2; [|discriminate].
    destruct (project_edges_st_frame _ _ _ _ E2) as (_ & F2 & _ & _).
    destruct p; inversion H; subst; clear H.
    + destruct (project_verts_st_frame (side_corners sd) s2 l) as (_ & F3 & _ & _). rewrite F3, F2. exact H1.
    + rewrite F2. exact H1.
  - destruct p; inversion H; subst; clear H.
    + destruct (project_verts_st_frame (side_corners sd) s1 l) as (_ & F3 & _ & _). rewrite F3. exact H1.
    + exact H1.
Qed.

(** * sequences: a slot that no call of the sequence addresses is unchanged *)
Theorem steps_frame cs : forall s s',
  steps s cs = Some s' ->
  (forall t, forallb (fun c => negb (touches_patch c t)) cs = true -> patch s' t = patch s t) /\
  (forall t, forallb (fun c => negb (touches_pface c t)) cs = true -> pface s' t = pface s t) /\
  (forall i j, forallb (fun c => negb (touches_pedge c i j)) cs = true -> pedge s' i j = pedge s i j) /\
  (forall i, forallb (fun c => negb (touches_pvert c i)) cs = true -> pvert s' i = pvert s i).
Proof.
  induction cs as [|c r IH]; intros s s' H; simpl in H.
  - inversion H; subst. repeat split; reflexivity.
  - destruct (step s c) as [s1|] eqn:E1; [|discriminate].
    destruct (step_frame _ _ _ E1) as (P1 & F1 & E1' & V1).
    destruct (IH _ _ H) as (P2 & F2 & E2' & V2).
    repeat split.
    + intros t Ht. simpl in Ht. apply andb_true_iff in Ht. destruct Ht as [Ha Hb].
      rewrite P2 by exact Hb. apply P1. apply negb_true_iff. exact Ha.
    + intros t Ht. simpl in Ht. apply andb_true_iff in Ht. destruct Ht as [Ha Hb].
      rewrite F2 by exact Hb. apply F1. apply negb_true_iff. exact Ha.
    + intros i j Ht. simpl in Ht. apply andb_true_iff in Ht. destruct Ht as [Ha Hb].
      rewrite E2' by exact Hb. apply E1'. apply negb_true_iff. exact Ha.
    + intros i Ht. simpl in Ht. apply andb_true_iff in Ht. destruct Ht as [Ha Hb].
      rewrite V2 by exact Hb. apply V1. apply negb_true_iff. exact Ha.
Qed.
