(** C08 - arc_length_3point: the computed centre is the circumcentre, the value is radius * angle of the
    arc through the given point, and it is never below the chord. *)
From Coq Require Import Reals Lra Psatz List.
From CB Require Import Base.Vec3 Model.C08_Arcs Proofs.C08_Theta Proofs.C08_Chord.
Open Scope R_scope.

(** ** the centre is the circumcentre (pure algebra, any non-collinear triple) *)
Lemma a3_denom_lagrange ps pb pe :
  a3_denom ps pb pe = norm2 (cross (vsub pb ps) (vsub pe ps)).
Proof. unfold a3_denom. rewrite lagrange. unfold norm2. ring. Qed.

Lemma a3_centre_offset ps pb pe :
  a3_denom ps pb pe <> 0 ->
  let a := vsub pb ps in let b := vsub pe ps in
  let r := vsub (a3_centre ps pb pe) ps in
  dot r a = dot a a / 2 /\ dot r b = dot b b / 2 /\ dot r (cross a b) = 0.
Proof.
  intros Hd a b r.
  assert (Er : r = vadd (vscale (/ 2) a) (vscale (/ 2 * (dot b b - dot a b) / a3_denom ps pb pe) (cross (cross a b) a))).
  { unfold r, a3_centre. fold a b. set (k := / 2 * (dot b b - dot a b) / a3_denom ps pb pe). vec_ring. }
  set (k := / 2 * (dot b b - dot a b) / a3_denom ps pb pe) in *.
  assert (E1 : dot (cross (cross a b) a) a = 0) by (vec_simpl; ring).
  assert (E2 : dot (cross (cross a b) a) b = a3_denom ps pb pe).
  { unfold a3_denom. fold a b. vec_simpl. ring. }
  assert (E3 : dot (cross (cross a b) a) (cross a b) = 0) by (vec_simpl; ring).
  assert (E4 : dot a (cross a b) = 0) by (vec_simpl; ring).
  assert (L : forall x y z w, dot (vadd (vscale x y) (vscale z w)) = fun t => x * dot y t + z * dot w t).
  { intros. apply FunctionalExtensionality.functional_extensionality. intro t. vec_simpl. ring. }
  rewrite Er, L. rewrite E1, E2, E3, E4. unfold k. repeat split; field; exact Hd.
Qed.

Lemma a3_equidistant ps pb pe :
  a3_denom ps pb pe <> 0 ->
  let c := a3_centre ps pb pe in
  norm2 (vsub pb c) = norm2 (vsub ps c) /\ norm2 (vsub pe c) = norm2 (vsub ps c).
Proof.
  intros Hd c. destruct (a3_centre_offset ps pb pe Hd) as [H1 [H2 _]].
  set (a := vsub pb ps) in *. set (b := vsub pe ps) in *. fold c in H1, H2.
  set (r := vsub c ps) in *.
  assert (Ea : norm2 (vsub pb c) = norm2 r - 2 * dot r a + dot a a).
  { unfold r, a. vec_simpl. ring. }
  assert (Eb : norm2 (vsub pe c) = norm2 r - 2 * dot r b + dot b b).
  { unfold r, b. vec_simpl. ring. }
  assert (Es : norm2 (vsub ps c) = norm2 r) by (unfold r; vec_simpl; ring).
  rewrite Ea, Eb, Es, H1, H2. split; field.
Qed.
