(** C13 - a clamp that holds its own copy of the point defining its line keeps the vertex on that line, inside
    the bounds counted from the position at clamp creation, through every sequence of optimize() calls; a clamp
    that holds the vertex' live position array drifts by every chosen parameter (Model/C13_Alias.v). *)
From Coq Require Import List Bool Arith ZArith Lia.
From CB Require Import Model.C13_Alias.
Import ListNotations.
Open Scope Z_scope.

(** * 1. one cell *)
Lemma write_length : forall r v h, length (write r v h) = length h.
Proof. intros r v h. revert r. induction h as [|x t IH]; intros [|r]; simpl; auto. Qed.

Lemma read_write_same : forall r v h, (r < length h)%nat -> read (write r v h) r = v.
Proof.
  intros r v h. revert r. unfold read. induction h as [|x t IH]; intros [|r] H; simpl in *; try lia; auto.
  apply IH. lia.
Qed.

Lemma read_write_other : forall r r' v h, r' <> r -> read (write r v h) r' = read h r'.
Proof.
  intros r r' v h. revert r r'. unfold read. induction h as [|x t IH]; intros [|r] [|r'] H; simpl; auto; try congruence.
Qed.

(** * 2. one call *)
Lemma step_heap_length : forall o r h c, length (step_heap o r h c) = length h.
Proof. intros. apply write_length. Qed.

Lemma step_heap_other : forall o r h c r', r' <> r -> read (step_heap o r h c) r' = read h r'.
Proof. intros. apply read_write_other. assumption. Qed.

Lemma step_heap_copy : forall o r h c p1, c_def c = ByCopy p1 -> (r < length h)%nat ->
  read (step_heap o r h c) r = p1 + o h c.
Proof.
  intros o r h c p1 Hd Hr. unfold step_heap, backport. rewrite read_write_same by exact Hr.
  unfold clamp_pos, def_point, step_clamp. simpl. rewrite Hd. reflexivity.
Qed.

Lemma step_heap_ref : forall o r h c, c_def c = ByRef r -> (r < length h)%nat ->
  read (step_heap o r h c) r = read h r + o h c.
Proof.
  intros o r h c Hd Hr. unfold step_heap, backport. rewrite read_write_same by exact Hr.
  unfold clamp_pos, def_point, step_clamp. simpl. rewrite Hd. reflexivity.
Qed.

(** * 3. ByCopy: every state after a call *)
(** the clamp still describes the same line and bounds, the vertex sits at p1 + t with t inside the bounds,
    no cell is created and no other cell has changed *)
Definition good (p1 lo hi : Z) (r : nat) (h0 : heap) (st : heap * clamp) : Prop :=
  c_def (snd st) = ByCopy p1 /\ c_lo (snd st) = lo /\ c_hi (snd st) = hi /\
  read (fst st) r = p1 + c_t (snd st) /\ lo <= c_t (snd st) <= hi /\
  length (fst st) = length h0 /\ (forall r', r' <> r -> read (fst st) r' = read h0 r').

Lemma copy_trace : forall os r h c p1,
  c_def c = ByCopy p1 -> (r < length h)%nat -> respectsb os r h c = true ->
  Forall (good p1 (c_lo c) (c_hi c) r h) (trace os r h c).
Proof.
  induction os as [|o os IH]; intros r h c p1 Hd Hr Hb; [constructor|].
  cbn [respectsb] in Hb. apply andb_true_iff in Hb. destruct Hb as [Hb Hb'].
  apply andb_true_iff in Hb. destruct Hb as [Hlo Hhi]. apply Z.leb_le in Hlo. apply Z.leb_le in Hhi.
  cbn [trace].
  assert (Hd' : c_def (step_clamp o h c) = ByCopy p1) by exact Hd.
  assert (Hl' : length (step_heap o r h c) = length h) by apply step_heap_length.
  assert (Hr' : (r < length (step_heap o r h c))%nat) by (rewrite Hl'; exact Hr).
  constructor.
  - unfold good. cbn [fst snd]. split; [exact Hd'|]. split; [reflexivity|]. split; [reflexivity|].
    split; [apply step_heap_copy; assumption|]. split; [simpl; lia|]. split; [exact Hl'|].
    intros r' Hne. apply step_heap_other. exact Hne.
  - specialize (IH r _ _ p1 Hd' Hr' Hb'). eapply Forall_impl; [|exact IH].
    intros [h2 c2] G. unfold good in *. cbn [fst snd] in *. simpl c_lo in G. simpl c_hi in G.
    destruct G as [G1 [G2 [G3 [G4 [G5 [G6 G7]]]]]].
    repeat split; try assumption; try lia.
    intros r' Hne. rewrite G7 by exact Hne. apply step_heap_other. exact Hne.
Qed.

(** the state a (non-empty) run ends in is one of the states of its trace *)
Lemma run_in_trace : forall os r h c, os <> [] -> In (run os r h c) (trace os r h c).
Proof.
  induction os as [|o os IH]; intros r h c Hne; [congruence|].
  cbn [run trace]. destruct os as [|o' os'].
  - left. reflexivity.
  - right. apply IH. discriminate.
Qed.

(** * 4. the theorem for clamps made the way the examples make them *)
(** [on_line_stmt copy]: a clamp is made from vertex [r] (at [p1 = read h r]) with bounds (lo, hi); after each
    of any number of optimize() calls whose minimiser stayed inside the bounds, the vertex is at p1 + t for the
    clamp's current parameter t, lo <= t <= hi - i.e. on the line described at clamping time, inside the
    bounds counted from the position it had then - and no other vertex has moved *)
Definition on_line_stmt (copy : bool) : Prop :=
  forall (os : list oracle) (h : heap) (r : nat) (lo hi : Z),
    (r < length h)%nat ->
    let c := make_clamp copy h r lo hi in
    respectsb os r h c = true ->
    Forall (fun st : heap * clamp =>
              read (fst st) r = read h r + c_t (snd st) /\ lo <= c_t (snd st) <= hi /\
              lo <= read (fst st) r - read h r <= hi /\
              clamp_pos (fst st) (snd st) = read (fst st) r /\
              length (fst st) = length h /\ (forall r', r' <> r -> read (fst st) r' = read h r'))
           (trace os r h c).

Theorem copy_on_line : on_line_stmt true.
Proof.
  intros os h r lo hi Hr c Hb.
  pose proof (copy_trace os r h c (read h r) eq_refl Hr Hb) as H.
  eapply Forall_impl; [|exact H]. intros [h2 c2] G. unfold good in G. cbn [fst snd] in *. simpl c_lo in G. simpl c_hi in G.
  destruct G as [G1 [G2 [G3 [G4 [G5 [G6 G7]]]]]].
  split; [exact G4|]. split; [exact G5|]. split; [lia|]. split; [|split; assumption].
  unfold clamp_pos, def_point. rewrite G1. symmetry. exact G4.
Qed.

(** the same about the state a run ends in *)
Corollary copy_run_on_line : forall os h r lo hi,
  (r < length h)%nat -> os <> [] -> respectsb os r h (make_clamp true h r lo hi) = true ->
  let st := run os r h (make_clamp true h r lo hi) in
  read (fst st) r = read h r + c_t (snd st) /\ lo <= c_t (snd st) <= hi /\
  (forall r', r' <> r -> read (fst st) r' = read h r').
Proof.
  intros os h r lo hi Hr Hne Hb st. pose proof (copy_on_line os h r lo hi Hr Hb) as H.
  rewrite Forall_forall in H. unfold st.
  pose proof (run_in_trace os r h (make_clamp true h r lo hi) Hne) as Hin.
  destruct (H _ Hin) as [H1 [H2 [_ [_ [_ H6]]]]]. repeat split; try assumption; apply H2.
Qed.

(** * 5. ByRef: the drift *)
(** the clamp holds the live array of the vertex it clamps: every call adds the chosen parameter to the
    position, bounds or no bounds *)
Theorem ref_drift : forall os r h c,
  c_def c = ByRef r -> (r < length h)%nat ->
  read (fst (run os r h c)) r = read h r + sumz (chosen os r h c) /\
  (forall r', r' <> r -> read (fst (run os r h c)) r' = read h r').
Proof.
  induction os as [|o os IH]; intros r h c Hd Hr.
  - simpl. split; [lia | reflexivity].
  - cbn [run chosen]. assert (Hd' : c_def (step_clamp o h c) = ByRef r) by exact Hd.
    assert (Hr' : (r < length (step_heap o r h c))%nat) by (rewrite step_heap_length; exact Hr).
    destruct (IH r _ _ Hd' Hr') as [I1 I2]. split.
    + rewrite I1, step_heap_ref by assumption. unfold sumz. simpl. lia.
    + intros r' Hne. rewrite I2 by exact Hne. apply step_heap_other. exact Hne.
Qed.

Corollary ref_drift_made : forall os h r lo hi,
  (r < length h)%nat ->
  read (fst (run os r h (make_clamp false h r lo hi))) r
    = read h r + sumz (chosen os r h (make_clamp false h r lo hi)).
Proof. intros. apply ref_drift; [reflexivity | assumption]. Qed.

(** n calls that all go to the upper bound: p1 + n * hi *)
Lemma chosen_to_hi : forall n r h c, sumz (chosen (repeat to_hi n) r h c) = Z.of_nat n * c_hi c.
Proof.
  induction n as [|n IH]; intros r h c; [reflexivity|].
  cbn [repeat chosen]. unfold sumz in *. cbn [fold_right]. rewrite IH. unfold to_hi at 1. simpl c_hi. lia.
Qed.

Corollary ref_drift_to_hi : forall n h r lo hi,
  (r < length h)%nat ->
  read (fst (run (repeat to_hi n) r h (make_clamp false h r lo hi))) r = read h r + Z.of_nat n * hi.
Proof. intros. rewrite ref_drift_made by assumption. rewrite chosen_to_hi. reflexivity. Qed.

(** * 6. the hypotheses are satisfiable; the two variants on the miniature *)
Example mini_copy :
  let c := make_clamp true mini_heap 1 0 3 in
  let os := [to_hi; to_hi; half_up; to_lo; to_hi] in
  (1 < length mini_heap)%nat /\ respectsb os 1 mini_heap c = true /\
  map (fun st => read (fst st) 1) (trace os 1 mini_heap c) = [13; 13; 13; 10; 13] /\
  fst (run os 1 mini_heap c) = [7; 13; 20].
Proof. split; [vm_compute; lia|]. vm_compute. repeat split. Qed.

Example mini_ref :
  let c := make_clamp false mini_heap 1 0 3 in
  let os := [to_hi; to_hi; half_up; to_lo; to_hi] in
  respectsb os 1 mini_heap c = true /\
  map (fun st => read (fst st) 1) (trace os 1 mini_heap c) = [13; 16; 19; 19; 22] /\
  chosen os 1 mini_heap c = [3; 3; 3; 0; 3].
Proof. vm_compute. repeat split. Qed.

(** * 7. the defect: with the aliased clamp the statement is false - two calls that go to the upper bound *)
Theorem aliased_on_line_refuted :
  ~ on_line_stmt false /\
  (let c := make_clamp false mini_heap 1 0 3 in
   respectsb [to_hi; to_hi] 1 mini_heap c = true /\
   read (fst (run [to_hi] 1 mini_heap c)) 1 = 10 + 3 /\
   read (fst (run [to_hi; to_hi] 1 mini_heap c)) 1 = 10 + 2 * 3 /\
   c_t (snd (run [to_hi; to_hi] 1 mini_heap c)) = 3).
Proof.
  split; [|vm_compute; repeat split].
  intro H. specialize (H [to_hi; to_hi] mini_heap 1%nat 0 3).
  assert (Hr : (1 < length mini_heap)%nat) by (vm_compute; lia).
  specialize (H Hr eq_refl). cbn [trace] in H.
  inversion H as [|? ? _ H2]; subst. inversion H2 as [|? ? H3 _]; subst.
  destruct H3 as [_ [_ [[_ H3] _]]]. vm_compute in H3. apply H3. reflexivity.
Qed.
