(** C15: structured nx x ny quad maps.  Gen-independent part: the soundness of the decidable check
    [lattice_ok] for any cell type, and the check itself evaluated once for the reference quad cell
    ([quad_ref]; Properties/C15.v shows that the tabulated QuadCell of the run is this table). *)
From Coq Require Import List Bool Arith ZArith QArith Qabs Lia Lqa.
From CB Require Import Model.C15_Smooth Proofs.C15_Smooth Proofs.C15_SmoothGraph Proofs.C15_Fast Proofs.C15_Converge.
Import ListNotations.
Close Scope Q_scope.
Open Scope nat_scope.

(** what [lattice_ok ct nx ny] establishes *)
Definition lattice_concl (ct : celltype) (nx ny : nat) : Prop :=
  let cells := struct_cells nx ny in
  let n := struct_n nx ny in
  (forall k, k < n -> is_boundary ct cells k = border nx ny k)
  /\ (forall fixed jn, In jn (schedule ct cells n fixed) -> length (snd jn) = 4)
  /\ (forall fixed iters o a b, eqv (iterate iters (schedule ct cells n fixed) (lattice nx ny o a b)) (lattice nx ny o a b))
  /\ (forall o a b h, length h = n ->
        (forall jn, In jn (schedule ct cells n []) -> harmonic_at h jn) ->
        (forall k, k < n -> border nx ny k = true -> (nth k h 0 == nth k (lattice nx ny o a b) 0)%Q) ->
        eqv h (lattice nx ny o a b)).

Theorem lattice_ok_sound ct nx ny : lattice_ok ct nx ny = true -> lattice_concl ct nx ny.
Proof.
  intro OK. unfold lattice_concl. cbv zeta. set (cells := struct_cells nx ny). set (n := struct_n nx ny).
  pose proof OK as OK0. unfold lattice_ok, lattice_ok_sch in OK0. fold cells n in OK0.
  apply andb_true_iff in OK0. destruct OK0 as [OK0 Hreach].
  apply andb_true_iff in OK0. destruct OK0 as [OK0 H4].
  apply andb_true_iff in OK0. destruct OK0 as [OK0 Hbd].
  apply andb_true_iff in OK0. destruct OK0 as [Hwf _].
  rewrite forallb_forall in Hbd, H4.
  assert (Hbd' : forall k, k < n -> is_boundary ct cells k = border nx ny k).
  { intros k Hk. apply eqb_prop. apply (Hbd k). apply in_seq. lia. }
  split; [|split; [|split]].
  - exact Hbd'.
  - intros fixed jn Hin. apply Nat.eqb_eq. apply H4. apply (schedule_sub _ _ _ fixed). exact Hin.
  - intros fixed iters o a b. apply (lattice_fixed_point ct nx ny OK).
  - intros o a b h Lh Hh Hb.
    assert (Ll : length (lattice nx ny o a b) = n) by (unfold lattice; rewrite map_length, seq_length; reflexivity).
    apply (harmonic_unique (schedule ct cells n [])).
    + congruence.
    + rewrite Lh. apply wf_schedb_sound. exact Hwf.
    + exact Hh.
    + intros jn Hin. apply (lattice_harmonic ct nx ny OK []). exact Hin.
    + intros i Hi. destruct (Nat.lt_ge_cases i n) as [Hlt|Hge].
      * apply Hb; [exact Hlt|]. rewrite <- (Hbd' i Hlt).
        destruct (is_boundary ct cells i) eqn:E; [reflexivity|].
        exfalso. apply Hi. apply schedule_fst_spec. repeat split; auto.
      * rewrite !nth_overflow; [reflexivity|lia|lia].
    + apply all_reach_sound. exact Hreach.
Qed.

(** a regular border yields the regular lattice: from any interior positions the sweeps converge to it *)
Definition lattice_converges_concl (ct : celltype) (nx ny : nat) : Prop :=
  let cells := struct_cells nx ny in
  let n := struct_n nx ny in
  forall o a b s, length s = n ->
    (forall k, k < n -> border nx ny k = true -> (nth k s 0 == nth k (lattice nx ny o a b) 0)%Q) ->
    forall eps, (0 < eps)%Q -> exists K, forall k, K <= k ->
      within eps (iterate k (schedule ct cells n []) s) (lattice nx ny o a b).

Theorem lattice_converges ct nx ny : lattice_ok ct nx ny = true -> lattice_converges_concl ct nx ny.
Proof.
  intro OK. unfold lattice_converges_concl. cbv zeta.
  set (cells := struct_cells nx ny). set (n := struct_n nx ny).
  pose proof OK as OK0. unfold lattice_ok, lattice_ok_sch in OK0. fold cells n in OK0.
  apply andb_true_iff in OK0. destruct OK0 as [OK0 Hreach].
  apply andb_true_iff in OK0. destruct OK0 as [OK0 _].
  apply andb_true_iff in OK0. destruct OK0 as [OK0 Hbd].
  apply andb_true_iff in OK0. destruct OK0 as [Hwf _].
  rewrite forallb_forall in Hbd.
  assert (Hbd' : forall k, k < n -> is_boundary ct cells k = border nx ny k).
  { intros k Hk. apply eqb_prop. apply (Hbd k). apply in_seq. lia. }
  intros o a b s Ls Hb eps He.
  assert (Ll : length (lattice nx ny o a b) = n) by (unfold lattice; rewrite map_length, seq_length; reflexivity).
  apply convergence; auto.
  - congruence.
  - rewrite Ls. apply wf_schedb_sound. exact Hwf.
  - apply schedule_NoDup.
  - intros jn Hin. apply (lattice_harmonic ct nx ny OK []). exact Hin.
  - intros i Hi. destruct (Nat.lt_ge_cases i n) as [Hlt|Hge].
    + apply Hb; [exact Hlt|]. rewrite <- (Hbd' i Hlt).
      destruct (is_boundary ct cells i) eqn:E; [reflexivity|].
      exfalso. apply Hi. apply schedule_fst_spec. repeat split; auto.
    + rewrite !nth_overflow; [reflexivity|lia|lia].
  - apply all_reach_sound. exact Hreach.
Qed.

(** the same check with the schedule computed the efficient way *)
Definition lattice_ok_fast (ct : celltype) (nx ny : nat) : bool :=
  lattice_ok_sch ct nx ny (schedule_fast ct (struct_cells nx ny) (struct_n nx ny) []).

Lemma lattice_ok_fast_eq ct nx ny : lattice_ok_fast ct nx ny = lattice_ok ct nx ny.
Proof. unfold lattice_ok_fast, lattice_ok. rewrite schedule_fast_eq. reflexivity. Qed.

(** the reference cell types (QuadCell / HexCell tables as of the verified revision) *)
Definition quad_ref : celltype := {| ct_sides := [[0; 1]; [1; 2]; [2; 3]; [3; 0]];
  ct_edges := [(0, 1); (1, 2); (2, 3); (0, 3)] |}.
Definition hex_ref : celltype := {| ct_sides := [[0; 1; 2; 3]; [7; 6; 5; 4]; [4; 0; 3; 7]; [6; 2; 1; 5]; [0; 4; 5; 1]; [7; 3; 2; 6]];
  ct_edges := [(0, 1); (2, 3); (6, 7); (4, 5); (0, 3); (1, 2); (5, 6); (4, 7); (0, 4); (1, 5); (2, 6); (3, 7)] |}.

Definition max_size : nat := 10.
Definition sizes : list nat := seq 1 max_size.

Lemma sizes_spec k : 1 <= k <= max_size -> In k sizes.
Proof. intro H. apply in_seq. unfold max_size in *. lia. Qed.

Definition lattice_ok_all (ct : celltype) : bool :=
  forallb (fun nx => forallb (fun ny => lattice_ok_fast ct nx ny) sizes) sizes.

Lemma lattice_ok_all_sound ct : lattice_ok_all ct = true ->
  forall nx ny, 1 <= nx <= max_size -> 1 <= ny <= max_size -> lattice_ok ct nx ny = true.
Proof.
  intros H nx ny Hx Hy. unfold lattice_ok_all in H. rewrite forallb_forall in H.
  specialize (H nx (sizes_spec nx Hx)). rewrite forallb_forall in H.
  rewrite <- lattice_ok_fast_eq. exact (H ny (sizes_spec ny Hy)).
Qed.

Lemma lattice_ok_all_ref : lattice_ok_all quad_ref = true.
Proof. vm_compute. reflexivity. Qed.
