(** C08 - the code as found in the snapshot ([arc_from_theta_v0]: project the middle of the chord from the
    centre) yields the middle of the complementary arc for sector angles above pi.  Witness: end points
    (0,0,0) and (1,0,0), axis z, sector angle 4 rad: the specified arc bulges towards -y, the computed point
    has a positive y coordinate. *)
From Coq Require Import Reals Lra.
From Interval Require Import Tactic.
From CB Require Import Base.Vec3 Model.C08_Arcs.
Open Scope R_scope.

Definition w_p1 : vec := (0, 0, 0).
Definition w_p2 : vec := (1, 0, 0).
Definition w_a : vec := (0, 0, 1).

Ltac wcbv := cbv [arc_from_theta_v0 theta_centre theta_pm theta_rm theta_len theta_chord arc_mid secant_mid vunit
                  spec_point spec_centre rot tan w_p1 w_p2 w_a norm norm2 dot cross vadd vsub vscale vx vy vz fst snd].

Lemma v0_witness_positive : 0 < vy (arc_from_theta_v0 w_p1 w_p2 4 w_a).
Proof. wcbv. interval with (i_prec 40). Qed.

Lemma spec_witness_negative : vy (spec_point w_p1 w_p2 4 w_a (/ 2)) < 0.
Proof. wcbv. interval with (i_prec 40). Qed.

Lemma v0_reflex_differs : arc_from_theta_v0 w_p1 w_p2 4 w_a <> spec_point w_p1 w_p2 4 w_a (/ 2).
Proof.
  intros E. apply (f_equal vy) in E.
  pose proof v0_witness_positive. pose proof spec_witness_negative. lra.
Qed.

Lemma four_in_range : 0 < Rabs 4 < 2 * PI /\ PI < 4.
Proof.
  rewrite Rabs_right by lra. repeat split; try lra; interval with (i_prec 40).
Qed.
