(** C16 - the length of a piecewise-linear interpolated curve (repaired InterpolatedCurveBase.get_length):
    it is the difference of the arc-length function of the polyline, hence additive, independent of the order of
    the two parameters and equal to the polyline length over the whole curve; the formula of the snapshot is not. *)
From Coq Require Import Reals List Arith ZArith Lia Lra Psatz.
From CB Require Import Base.Vec3 Model.C16_Curves Proofs.C16_Curves.
Import ListNotations.
Open Scope R_scope.

(** ** clamp *)
Lemma pos_nonneg x : 0 <= x -> pos x = x.
Proof. intros H. unfold pos. rewrite Rabs_pos_eq by exact H. lra. Qed.
Lemma pos_nonpos x : x <= 0 -> pos x = 0.
Proof. intros H. unfold pos. rewrite Rabs_left1 by exact H. lra. Qed.
Lemma clamp01_lo x : x <= 0 -> clamp01 x = 0.
Proof. intros H. unfold clamp01. rewrite !pos_nonpos by lra. lra. Qed.
Lemma clamp01_mid x : 0 <= x <= 1 -> clamp01 x = x.
Proof. intros H. unfold clamp01. rewrite pos_nonneg by lra. rewrite pos_nonpos by lra. lra. Qed.
Lemma clamp01_hi x : 1 <= x -> clamp01 x = 1.
Proof. intros H. unfold clamp01. rewrite !pos_nonneg by lra. lra. Qed.

Lemma quot_lo t0 t1 x : t0 < t1 -> x <= t0 -> (x - t0) / (t1 - t0) <= 0.
Proof.
  intros H A. assert (0 < / (t1 - t0)) by (apply Rinv_0_lt_compat; lra). unfold Rdiv. nra.
Qed.
Lemma quot_mid t0 t1 x : t0 < t1 -> t0 <= x <= t1 -> 0 <= (x - t0) / (t1 - t0) <= 1.
Proof.
  intros H [A B]. assert (0 < / (t1 - t0)) by (apply Rinv_0_lt_compat; lra).
  assert (E : (t1 - t0) * / (t1 - t0) = 1) by (apply Rinv_r; lra). unfold Rdiv. split; nra.
Qed.
Lemma quot_hi t0 t1 x : t0 < t1 -> t1 <= x -> 1 <= (x - t0) / (t1 - t0).
Proof.
  intros H A. assert (0 < / (t1 - t0)) by (apply Rinv_0_lt_compat; lra).
  assert (E : (t1 - t0) * / (t1 - t0) = 1) by (apply Rinv_r; lra). unfold Rdiv. nra.
Qed.

(** ** one segment *)
Lemma seg_point_sub t0 t1 p0 p1 s t : t0 < t1 ->
  vsub (seg_point t0 t1 p0 p1 s) (seg_point t0 t1 p0 p1 t) = vscale ((s - t) / (t1 - t0)) (vsub p1 p0).
Proof.
  intros H. unfold seg_point. destruct p0 as [[a b] c], p1 as [[d e] f].
  apply vec_eq; cbv [vadd vsub vscale vx vy vz fst snd]; field; lra.
Qed.

Lemma seg_dist t0 t1 p0 p1 s t : t0 < t1 ->
  dist (seg_point t0 t1 p0 p1 s) (seg_point t0 t1 p0 p1 t) = Rabs (s - t) / (t1 - t0) * dist p0 p1.
Proof.
  intros H. unfold dist at 1. rewrite seg_point_sub by exact H. rewrite norm_scale.
  rewrite (dist_sym p0 p1). unfold dist. f_equal.
  unfold Rdiv. rewrite Rabs_mult. f_equal. apply Rabs_pos_eq. left. apply Rinv_0_lt_compat. lra.
Qed.

Lemma polylen_two a b : polylen [a; b] = dist a b.
Proof. simpl. lra. Qed.

(** ** the interpolation on the first segment and on the rest *)
Lemma lin_point_first t0 t1 ts p0 p1 ps t :
  t <= t1 -> lin_point (t0 :: t1 :: ts) (p0 :: p1 :: ps) t = seg_point t0 t1 p0 p1 t.
Proof.
  intros H. destruct ts as [|t2 ts]; [reflexivity|].
  change (lin_point (t0 :: t1 :: t2 :: ts) (p0 :: p1 :: ps) t) with
    (if Rle_dec t t1 then seg_point t0 t1 p0 p1 t else lin_point (t1 :: t2 :: ts) (p1 :: ps) t).
  destruct (Rle_dec t t1); [reflexivity|lra].
Qed.

Lemma lin_point_tail t0 t1 t2 ts p0 p1 p2 ps t :
  incr (t0 :: t1 :: t2 :: ts) -> t1 <= t ->
  lin_point (t0 :: t1 :: t2 :: ts) (p0 :: p1 :: p2 :: ps) t = lin_point (t1 :: t2 :: ts) (p1 :: p2 :: ps) t.
Proof.
  intros Hinc H.
  change (lin_point (t0 :: t1 :: t2 :: ts) (p0 :: p1 :: p2 :: ps) t) with
    (if Rle_dec t t1 then seg_point t0 t1 p0 p1 t else lin_point (t1 :: t2 :: ts) (p1 :: p2 :: ps) t).
  destruct (Rle_dec t t1) as [Hle|]; [|reflexivity].
  assert (t = t1) by lra. subst t.
  destruct Hinc as [H01 [H12 Hinc]].
  rewrite seg_point_end by lra.
  rewrite lin_point_first by lra. rewrite seg_point_start. reflexivity.
Qed.

Lemma lin_first_dist t0 t1 ts p0 p1 ps s t : t0 < t1 -> s <= t -> t <= t1 ->
  dist (lin_point (t0 :: t1 :: ts) (p0 :: p1 :: ps) s) (lin_point (t0 :: t1 :: ts) (p0 :: p1 :: ps) t)
  = (t - s) / (t1 - t0) * dist p0 p1.
Proof.
  intros H Hs Ht. rewrite !lin_point_first by lra. rewrite seg_dist by exact H.
  rewrite Rabs_left1 by lra. field. lra.
Qed.

(** ** the knots between two parameters *)
Lemma between_true lo hi t : between lo hi t = true <-> lo < t < hi.
Proof.
  unfold between. destruct (Rlt_dec lo t), (Rlt_dec t hi); split; intros H; try discriminate; try reflexivity; lra.
Qed.

Lemma between_false lo hi t : t <= lo \/ hi <= t -> between lo hi t = false.
Proof.
  intros H. destruct (between lo hi t) eqn:E; [|reflexivity]. apply between_true in E. destruct H; lra.
Qed.

Lemma filter_cons_false {A} (p : A -> bool) a l : p a = false -> filter p (a :: l) = filter p l.
Proof. intros H. simpl. rewrite H. reflexivity. Qed.
Lemma filter_cons_true {A} (p : A -> bool) a l : p a = true -> filter p (a :: l) = a :: filter p l.
Proof. intros H. simpl. rewrite H. reflexivity. Qed.

Lemma filter_between_nil lo hi l : (forall t, In t l -> t <= lo \/ hi <= t) -> filter (between lo hi) l = [].
Proof.
  induction l as [|a l IH]; intros H; [reflexivity|].
  rewrite filter_cons_false by (apply between_false; apply H; left; reflexivity).
  apply IH. intros t Ht. apply H. right. exact Ht.
Qed.

Lemma filter_between_ext lo lo' hi l :
  (forall t, In t l -> lo < t /\ lo' < t) -> filter (between lo hi) l = filter (between lo' hi) l.
Proof.
  intros H. apply filter_ext_in. intros t Ht. destruct (H t Ht) as [H1 H2].
  destruct (between lo hi t) eqn:E1, (between lo' hi t) eqn:E2; try reflexivity.
  - apply between_true in E1. assert (between lo' hi t = true) by (apply between_true; lra). congruence.
  - apply between_true in E2. assert (between lo hi t = true) by (apply between_true; lra). congruence.
Qed.

Lemma incr_In_lt : forall l a x, incr (a :: l) -> In x l -> a < x.
Proof.
  induction l as [|b l IH]; intros a x H Hx; [destruct Hx|].
  destruct H as [Hab H]. destruct Hx as [<-|Hx]; [exact Hab|].
  apply Rlt_trans with b; [exact Hab|]. apply IH; assumption.
Qed.

Lemma incr_le_last : forall l a, incr (a :: l) -> a <= last (a :: l) 0.
Proof.
  induction l as [|b l IH]; intros a H; [simpl; lra|].
  destruct H as [Hab H]. change (last (a :: b :: l) 0) with (last (b :: l) 0).
  specialize (IH b H). lra.
Qed.

(** ** the arc-length function *)
Lemma arclen_cons t0 t1 ts p0 p1 ps t :
  arclen (t0 :: t1 :: ts) (p0 :: p1 :: ps) t
  = dist p0 p1 * clamp01 ((t - t0) / (t1 - t0)) + arclen (t1 :: ts) (p1 :: ps) t.
Proof. reflexivity. Qed.

Lemma arclen_before : forall ts ps t, incr ts -> t <= hd 0 ts -> arclen ts ps t = 0.
Proof.
  induction ts as [|t0 ts IH]; intros ps t Hinc Ht; [reflexivity|].
  destruct ps as [|p0 ps]; [reflexivity|].
  destruct ts as [|t1 ts]; [reflexivity|]. destruct ps as [|p1 ps]; [reflexivity|].
  rewrite arclen_cons. simpl in Ht. destruct Hinc as [H01 Hinc].
  rewrite (IH (p1 :: ps) t Hinc) by (simpl; lra).
  rewrite clamp01_lo by (apply quot_lo; lra). ring.
Qed.

Lemma arclen_full : forall ts ps t, incr ts -> length ps = length ts -> last ts 0 <= t -> arclen ts ps t = polylen ps.
Proof.
  induction ts as [|t0 ts IH]; intros ps t Hinc Hlen Ht.
  - destruct ps; [reflexivity|simpl in Hlen; lia].
  - destruct ps as [|p0 ps]; [simpl in Hlen; lia|].
    destruct ts as [|t1 ts].
    + destruct ps; [reflexivity|simpl in Hlen; lia].
    + destruct ps as [|p1 ps]; [simpl in Hlen; lia|].
      rewrite arclen_cons, polylen_cons2.
      change (last (t0 :: t1 :: ts) 0) with (last (t1 :: ts) 0) in Ht.
      destruct Hinc as [H01 Hinc].
      rewrite (IH (p1 :: ps) t Hinc) by (simpl in *; try lia; lra).
      pose proof (incr_le_last ts t1 Hinc).
      rewrite clamp01_hi by (apply quot_hi; lra). ring.
Qed.

(** ** main lemma: the polyline through the two end points and the knots between them *)
Lemma il_points_len : forall ts ps lo hi,
  incr ts -> length ps = length ts -> (2 <= length ts)%nat ->
  hd 0 ts <= lo -> lo <= hi -> hi <= last ts 0 ->
  polylen (map (lin_point ts ps) (il_params ts lo hi)) = arclen ts ps hi - arclen ts ps lo.
Proof.
  induction ts as [|t0 ts IH]; intros ps lo hi Hinc Hlen H2 Hlo Hlh Hhi; [simpl in H2; lia|].
  destruct ts as [|t1 ts]; [simpl in H2; lia|].
  destruct ps as [|p0 [|p1 ps]]; try (simpl in Hlen; lia).
  simpl hd in Hlo.
  assert (H01 : t0 < t1) by (destruct Hinc; assumption).
  destruct ts as [|t2 ts].
  - (* a single segment *)
    destruct ps; [|simpl in Hlen; lia]. simpl last in Hhi.
    unfold il_params. rewrite filter_between_nil.
    2:{ intros t [<-|[<-|[]]]; [left|right]; lra. }
    cbn [app map]. rewrite polylen_two, lin_first_dist by lra.
    rewrite !arclen_cons. simpl (arclen [t1] [p1] _).
    rewrite !clamp01_mid by (apply quot_mid; lra). field. lra.
  - destruct ps as [|p2 ps]; [simpl in Hlen; lia|].
    assert (Hinc' : incr (t1 :: t2 :: ts)) by (eapply incr_tail; exact Hinc).
    assert (Hgt : forall x, In x (t2 :: ts) -> t1 < x) by (intros x Hx; eapply incr_In_lt; eauto).
    assert (Hf : forall t, t1 <= t ->
              lin_point (t0 :: t1 :: t2 :: ts) (p0 :: p1 :: p2 :: ps) t = lin_point (t1 :: t2 :: ts) (p1 :: p2 :: ps) t)
      by (intros t Ht; apply lin_point_tail; assumption).
    assert (Hlen' : length (p1 :: p2 :: ps) = length (t1 :: t2 :: ts)) by (simpl in *; lia).
    assert (H2' : (2 <= length (t1 :: t2 :: ts))%nat) by (simpl; lia).
    change (last (t0 :: t1 :: t2 :: ts) 0) with (last (t1 :: t2 :: ts) 0) in Hhi.
    rewrite !(arclen_cons t0 t1).
    destruct (Rle_dec hi t1) as [Hh|Hh].
    + (* both parameters on the first segment *)
      unfold il_params. rewrite filter_between_nil.
      2:{ intros t [<-|[<-|Ht]]; [left; lra|right; lra|right]. specialize (Hgt t Ht). lra. }
      cbn [app map]. rewrite polylen_two, lin_first_dist by lra.
      rewrite (arclen_before (t1 :: t2 :: ts) (p1 :: p2 :: ps) hi Hinc') by (simpl; lra).
      rewrite (arclen_before (t1 :: t2 :: ts) (p1 :: p2 :: ps) lo Hinc') by (simpl; lra).
      rewrite !clamp01_mid by (apply quot_mid; lra). field. lra.
    + destruct (Rle_dec t1 lo) as [Hl|Hl].
      * (* both parameters beyond the first segment *)
        unfold il_params.
        rewrite (filter_cons_false _ t0) by (apply between_false; left; lra).
        rewrite (map_ext_in _ (lin_point (t1 :: t2 :: ts) (p1 :: p2 :: ps))).
        2:{ intros t [<-|Ht]; [apply Hf; lra|]. apply Hf. apply in_app_or in Ht.
            destruct Ht as [Ht|[<-|[]]]; [|lra].
            apply filter_In in Ht. destruct Ht as [_ Ht]. apply between_true in Ht. lra. }
        fold (il_params (t1 :: t2 :: ts) lo hi).
        rewrite (IH (p1 :: p2 :: ps) lo hi Hinc' Hlen' H2') by (try assumption; simpl; lra).
        rewrite !clamp01_hi by (apply quot_hi; lra). ring.
      * (* the first knot lies strictly between the parameters *)
        unfold il_params.
        rewrite (filter_cons_false _ t0) by (apply between_false; left; lra).
        rewrite (filter_cons_true _ t1) by (apply between_true; lra).
        rewrite (filter_between_ext lo t1 hi (t2 :: ts)) by (intros x Hx; specialize (Hgt x Hx); lra).
        assert (E : filter (between t1 hi) (t2 :: ts) = filter (between t1 hi) (t1 :: t2 :: ts))
          by (symmetry; apply filter_cons_false; apply between_false; left; lra).
        rewrite E. cbn [app map]. rewrite polylen_cons2. rewrite lin_first_dist by lra.
        change (lin_point (t0 :: t1 :: t2 :: ts) (p0 :: p1 :: p2 :: ps) t1
                :: map (lin_point (t0 :: t1 :: t2 :: ts) (p0 :: p1 :: p2 :: ps))
                     (filter (between t1 hi) (t1 :: t2 :: ts) ++ [hi]))
          with (map (lin_point (t0 :: t1 :: t2 :: ts) (p0 :: p1 :: p2 :: ps)) (il_params (t1 :: t2 :: ts) t1 hi)).
        rewrite (map_ext_in _ (lin_point (t1 :: t2 :: ts) (p1 :: p2 :: ps))).
        2:{ intros t [<-|Ht]; [apply Hf; lra|]. apply Hf. apply in_app_or in Ht.
            destruct Ht as [Ht|[<-|[]]]; [|lra].
            apply filter_In in Ht. destruct Ht as [_ Ht]. apply between_true in Ht. lra. }
        rewrite (IH (p1 :: p2 :: ps) t1 hi Hinc' Hlen' H2') by (try assumption; simpl; lra).
        rewrite (arclen_before (t1 :: t2 :: ts) (p1 :: p2 :: ps) t1 Hinc') by (simpl; lra).
        rewrite (arclen_before (t1 :: t2 :: ts) (p1 :: p2 :: ps) lo Hinc') by (simpl; lra).
        rewrite clamp01_hi by (apply quot_hi; lra).
        rewrite clamp01_mid by (apply quot_mid; lra). field. lra.
Qed.

(** ** consequences for [il_length] *)
Lemma il_length_sym f ts a b : il_length f ts a b = il_length f ts b a.
Proof. unfold il_length. rewrite (Rmin_comm a b), (Rmax_comm a b). reflexivity. Qed.

Definition in_range (ts : list R) (t : R) : Prop := hd 0 ts <= t <= last ts 0.

Lemma il_length_ordered ts ps a b :
  incr ts -> length ps = length ts -> (2 <= length ts)%nat -> in_range ts a -> in_range ts b -> a <= b ->
  il_length (lin_point ts ps) ts a b = arclen ts ps b - arclen ts ps a.
Proof.
  intros Hinc Hlen H2 [Ha1 Ha2] [Hb1 Hb2] Hab. unfold il_length.
  rewrite Rmin_left, Rmax_right by exact Hab. apply il_points_len; assumption.
Qed.

Lemma il_length_arclen ts ps a b :
  incr ts -> length ps = length ts -> (2 <= length ts)%nat -> in_range ts a -> in_range ts b ->
  il_length (lin_point ts ps) ts a b = Rabs (arclen ts ps b - arclen ts ps a).
Proof.
  intros Hinc Hlen H2 Ha Hb. destruct (Rle_dec a b) as [Hab|Hab].
  - rewrite il_length_ordered by assumption. symmetry. apply Rabs_pos_eq.
    rewrite <- (il_length_ordered ts ps a b) by assumption. apply polylen_nonneg.
  - rewrite il_length_sym, il_length_ordered by (try assumption; lra).
    rewrite Rabs_minus_sym. symmetry. apply Rabs_pos_eq.
    rewrite <- (il_length_ordered ts ps b a) by (try assumption; lra). apply polylen_nonneg.
Qed.

(** additivity over a split, for parameters in either order *)
Lemma il_length_additive ts ps a m b :
  incr ts -> length ps = length ts -> (2 <= length ts)%nat -> in_range ts a -> in_range ts b ->
  Rmin a b <= m <= Rmax a b ->
  il_length (lin_point ts ps) ts a b = il_length (lin_point ts ps) ts a m + il_length (lin_point ts ps) ts m b.
Proof.
  intros Hinc Hlen H2 Ha Hb Hm.
  assert (Hmr : in_range ts m).
  { destruct Ha, Hb. unfold in_range. unfold Rmin, Rmax in Hm. destruct (Rle_dec a b); lra. }
  destruct (Rle_dec a b) as [Hab|Hab].
  - rewrite Rmin_left, Rmax_right in Hm by exact Hab.
    rewrite !il_length_ordered by (try assumption; lra). lra.
  - rewrite Rmin_right, Rmax_left in Hm by lra.
    rewrite (il_length_sym _ ts a b), (il_length_sym _ ts a m), (il_length_sym _ ts m b).
    rewrite !il_length_ordered by (try assumption; lra). lra.
Qed.

(** over the whole curve the length is the length of the polyline through the defining points *)
Lemma il_length_full ts ps :
  incr ts -> length ps = length ts -> (2 <= length ts)%nat ->
  il_length (lin_point ts ps) ts (hd 0 ts) (last ts 0) = polylen ps.
Proof.
  intros Hinc Hlen H2.
  assert (Hle : hd 0 ts <= last ts 0).
  { destruct ts as [|a l]; [simpl; lra|]. apply incr_le_last. exact Hinc. }
  rewrite il_length_ordered; try assumption; unfold in_range; try lra.
  rewrite arclen_full, arclen_before by (try assumption; lra). lra.
Qed.

(** the arc-length function at a knot is the length of the polyline up to that point *)
Lemma arclen_knot : forall ts ps k,
  incr ts -> length ps = length ts -> (k < length ts)%nat -> arclen ts ps (nth k ts 0) = cum ps k.
Proof.
  induction ts as [|t0 ts IH]; intros ps k Hinc Hlen Hk; [simpl in Hk; lia|].
  destruct ps as [|p0 ps]; [simpl in Hlen; lia|].
  destruct k as [|k].
  - rewrite arclen_before by (try exact Hinc; simpl; lra). unfold cum. destruct ps; reflexivity.
  - destruct ts as [|t1 ts]; [simpl in Hk; lia|]. destruct ps as [|p1 ps]; [simpl in Hlen; lia|].
    rewrite arclen_cons. rewrite cum_S by (simpl; lia). simpl hd.
    change (nth (S k) (t0 :: t1 :: ts) 0) with (nth k (t1 :: ts) 0).
    assert (Hinc' : incr (t1 :: ts)) by (eapply incr_tail; exact Hinc).
    rewrite (IH (p1 :: ps) k Hinc') by (simpl in *; lia).
    assert (H01 : t0 < t1) by (destruct Hinc; assumption).
    assert (Hk1 : t1 <= nth k (t1 :: ts) 0).
    { change t1 with (nth 0 (t1 :: ts) 0) at 1. apply incr_nth_le; [exact Hinc'|lia|simpl in *; lia]. }
    rewrite clamp01_hi by (apply quot_hi; lra). ring.
Qed.

(** ** the formula of the snapshot (knots taken as i/segments) is not the polyline length *)
Definition old_ts : list R := [0; 5 / 7; 1].
Definition old_ps : list vec := [(0, 0, 0); (10, 0, 0); (10, 4, 0)].

Lemma old_incr : incr old_ts.
Proof. unfold old_ts. simpl. lra. Qed.

Lemma old_floor_from : is_floor (0 * INR 2) 0.
Proof. unfold is_floor. simpl. lra. Qed.
Lemma old_floor_to : is_floor (1 * INR 2) 2.
Proof. unfold is_floor. simpl. lra. Qed.

Lemma old_length_value : il_length_old (lin_point old_ts old_ps) 2 0 2 0 1 < 13.
Proof.
  unfold il_length_old, il_params_old. simpl seq. cbn [map app Nat.ltb Nat.leb].
  assert (E0 : lin_point old_ts old_ps 0 = (0, 0, 0)).
  { unfold old_ts, old_ps. rewrite lin_point_first by lra. unfold seg_point. apply vec_eq; cbv [vadd vsub vscale vx vy vz fst snd]; field. }
  assert (E1 : lin_point old_ts old_ps (INR 1 / INR 2) = (7, 0, 0)).
  { unfold old_ts, old_ps. rewrite lin_point_first by (simpl; lra). unfold seg_point. simpl INR.
    apply vec_eq; cbv [vadd vsub vscale vx vy vz fst snd]; field. }
  assert (E2 : lin_point old_ts old_ps 1 = (10, 4, 0)).
  { unfold old_ts, old_ps. rewrite lin_point_tail by (simpl; lra). rewrite lin_point_first by lra.
    unfold seg_point. apply vec_eq; cbv [vadd vsub vscale vx vy vz fst snd]; field. }
  rewrite E0, E1, E2.
  cbv [polylen dist norm norm2 vsub dot vx vy vz fst snd].
  replace ((0 - 7) * (0 - 7) + (0 - 0) * (0 - 0) + (0 - 0) * (0 - 0)) with (7 * 7) by ring.
  replace ((7 - 10) * (7 - 10) + (0 - 4) * (0 - 4) + (0 - 0) * (0 - 0)) with (5 * 5) by ring.
  rewrite !sqrt_square by lra. lra.
Qed.

Lemma old_polyline_value : polylen old_ps = 14.
Proof.
  unfold old_ps. cbv [polylen dist norm norm2 vsub dot vx vy vz fst snd].
  replace ((0 - 10) * (0 - 10) + (0 - 0) * (0 - 0) + (0 - 0) * (0 - 0)) with (10 * 10) by ring.
  replace ((10 - 10) * (10 - 10) + (0 - 4) * (0 - 4) + (0 - 0) * (0 - 0)) with (4 * 4) by ring.
  rewrite !sqrt_square by lra. lra.
Qed.

Lemma il_length_old_refuted :
  ~ (forall ts ps seg kf kt a b,
       incr ts -> length ps = length ts -> S seg = length ts ->
       is_floor (a * INR seg) kf -> is_floor (b * INR seg) kt -> in_range ts a -> in_range ts b -> a <= b ->
       il_length_old (lin_point ts ps) seg kf kt a b = arclen ts ps b - arclen ts ps a).
Proof.
  intros H.
  specialize (H old_ts old_ps 2%nat 0%nat 2%nat 0 1 old_incr eq_refl eq_refl old_floor_from old_floor_to).
  assert (R0 : in_range old_ts 0) by (unfold in_range, old_ts; simpl; lra).
  assert (R1 : in_range old_ts 1) by (unfold in_range, old_ts; simpl; lra).
  specialize (H R0 R1 ltac:(lra)).
  pose proof old_length_value as Hv. rewrite H in Hv.
  change 1 with (last old_ts 0) in Hv at 1. change 0 with (hd 0 old_ts) in Hv at 2.
  rewrite arclen_full in Hv by (try reflexivity; try apply old_incr; unfold old_ts; simpl; lra).
  rewrite arclen_before in Hv by (try apply old_incr; unfold old_ts; simpl; lra).
  rewrite old_polyline_value in Hv. lra.
Qed.

(** ** parameterisation by normalised chord length: the arc length is proportional to the parameter *)
Fixpoint chordal (L : R) (ts : list R) (ps : list vec) : Prop :=
  match ts, ps with
  | t0 :: ts', p0 :: ps' =>
      match ts', ps' with
      | t1 :: _, p1 :: _ => t1 - t0 = dist p0 p1 / L /\ chordal L ts' ps'
      | _, _ => True
      end
  | _, _ => True
  end.

Lemma arclen_chordal L : 0 < L -> forall ts ps t,
  incr ts -> length ps = length ts -> chordal L ts ps -> hd 0 ts <= t <= last ts 0 ->
  arclen ts ps t = (t - hd 0 ts) * L.
Proof.
  intros HL. induction ts as [|t0 ts IH]; intros ps t Hinc Hlen Hc Ht.
  - simpl in Ht. simpl. assert (t = 0) by lra. subst. ring.
  - destruct ps as [|p0 ps]; [simpl in Hlen; lia|].
    destruct ts as [|t1 ts].
    + simpl in Ht. destruct ps; [|simpl in Hlen; lia]. simpl. assert (t = t0) by lra. subst. ring.
    + destruct ps as [|p1 ps]; [simpl in Hlen; lia|].
      destruct Hc as [Hd Hc]. destruct Hinc as [H01 Hinc].
      rewrite arclen_cons. cbn [hd] in *.
      change (last (t0 :: t1 :: ts) 0) with (last (t1 :: ts) 0) in Ht.
      assert (Hdd : dist p0 p1 = (t1 - t0) * L) by (rewrite Hd; field; lra).
      destruct (Rle_dec t t1) as [Hle|Hgt].
      * rewrite (arclen_before (t1 :: ts) (p1 :: ps) t Hinc) by (simpl; lra).
        rewrite clamp01_mid by (apply quot_mid; lra). rewrite Hdd. field. lra.
      * rewrite (IH (p1 :: ps) t Hinc) by (try assumption; simpl in *; try lia; lra).
        rewrite clamp01_hi by (apply quot_hi; lra). cbn [hd]. rewrite Hdd. ring.
Qed.

Lemma chordal_cumlen L : L <> 0 -> forall ps acc h, h = acc / L ->
  chordal L (h :: map (fun s => s / L) (cumlen acc ps)) ps.
Proof.
  intros HL. induction ps as [|a ps IH]; intros acc h Hh; [exact I|].
  destruct ps as [|b ps]; [exact I|].
  change (cumlen acc (a :: b :: ps)) with ((acc + dist a b) :: cumlen (acc + dist a b) (b :: ps)).
  cbn [map]. split.
  - rewrite Hh. field. exact HL.
  - apply IH. reflexivity.
Qed.

Lemma arclen_chord_params ps t :
  0 < polylen ps -> incr (chord_params ps) -> length ps = length (chord_params ps) ->
  in_range (chord_params ps) t -> arclen (chord_params ps) ps t = t * polylen ps.
Proof.
  intros HL Hinc Hlen Ht.
  rewrite (arclen_chordal (polylen ps) HL (chord_params ps) ps t Hinc Hlen).
  - unfold chord_params. cbn [hd]. ring.
  - unfold chord_params. apply chordal_cumlen; [lra|]. unfold Rdiv. ring.
  - exact Ht.
Qed.

(** the length between two parameters is the fraction |b - a| of the total length *)
Lemma il_length_chord_params ps a b :
  0 < polylen ps -> incr (chord_params ps) -> length ps = length (chord_params ps) -> (2 <= length (chord_params ps))%nat ->
  in_range (chord_params ps) a -> in_range (chord_params ps) b ->
  il_length (lin_point (chord_params ps) ps) (chord_params ps) a b = Rabs (b - a) * polylen ps.
Proof.
  intros HL Hinc Hlen H2 Ha Hb.
  rewrite il_length_arclen by assumption. rewrite !arclen_chord_params by assumption.
  replace (b * polylen ps - a * polylen ps) with ((b - a) * polylen ps) by ring.
  rewrite Rabs_mult. f_equal. apply Rabs_pos_eq. lra.
Qed.

(** the hypotheses are satisfiable (the three-point curve of the refutation, whose chord parameters are 0, 10/14, 1) *)
Lemma old_d01 : dist (0, 0, 0) (10, 0, 0) = 10.
Proof.
  cbv [dist norm norm2 vsub dot vx vy vz fst snd].
  replace ((0 - 10) * (0 - 10) + (0 - 0) * (0 - 0) + (0 - 0) * (0 - 0)) with (10 * 10) by ring.
  rewrite sqrt_square by lra. reflexivity.
Qed.
Lemma old_d12 : dist (10, 0, 0) (10, 4, 0) = 4.
Proof.
  cbv [dist norm norm2 vsub dot vx vy vz fst snd].
  replace ((10 - 10) * (10 - 10) + (0 - 4) * (0 - 4) + (0 - 0) * (0 - 0)) with (4 * 4) by ring.
  rewrite sqrt_square by lra. reflexivity.
Qed.
Example chord_params_example :
  0 < polylen old_ps /\ incr (chord_params old_ps) /\ length old_ps = length (chord_params old_ps)
  /\ in_range (chord_params old_ps) (1 / 2).
Proof.
  rewrite old_polyline_value. unfold in_range, chord_params. rewrite old_polyline_value.
  unfold old_ps. cbn [cumlen map hd last length]. rewrite old_d01, old_d12. cbn [incr].
  repeat split; try reflexivity; lra.
Qed.
