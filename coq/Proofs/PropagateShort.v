(** Single-section chops: every grading and every chop list that ever exists has at most one section.
    Used to relate the full consistency check (counts AND section lists of coincident wires, as the
    repaired WireManagerBase.check_consistency compares them) to the count check the main theorems
    reason about: for one-section gradings the two coincide. *)
From Coq Require Import List Bool Arith Lia.
From CB Require Import Model.Propagate Proofs.PropagateBasics Proofs.PropagateTerm Proofs.PropagateInv Proofs.PropagateInit.
Import ListNotations.

Section Short.
  Variable bs : list blk.
  Variable o_coin : wire -> list wire.
  Variable o_nbrs : axis -> list axis.
  Hypothesis Hco : forall w c, In w (all_wires (nblocks bs)) -> In c (o_coin w) -> In c (coin_set bs w).
  Hypothesis Hnb : forall x y, In x (all_axes (nblocks bs)) -> In y (o_nbrs x) -> In y (nbr_set bs x).

  Notation n := (nblocks bs).
  Notation chopped := (chopped bs).
  Notation user_chops := (user_chops bs).
  Notation grade_axis := (grade_axis bs o_coin).
  Notation copy_axis := (copy_axis bs o_coin o_nbrs).
  Notation copy_block := (copy_block bs o_coin o_nbrs).
  Notation scan := (scan bs o_coin o_nbrs).
  Notation propagate := (propagate bs o_coin o_nbrs).
  Notation vw := (vw bs).
  Notation va := (va bs).
  Notation Good := (Good bs).

  Definition single_section : Prop := forall x, va x -> length (user_chops x) <= 1.

  Definition Short (s : st) : Prop :=
    (forall w, vw w -> length (g s w) <= 1) /\ (forall x, va x -> length (ach s x) <= 1).

  Lemma short_init : single_section -> Short (init bs).
  Proof. intro SS. split; simpl; intros; [lia | apply SS; assumption]. Qed.

  Lemma short_grade_unchopped s x : va x -> chopped x = false -> Short s -> Short (grade_axis s x).
  Proof using Hco.
    intros Vx Cx [Sg Sa]. destruct (grade_axis_basic bs o_coin s x) as (A & _ & O). split.
    - intros w Vw. destruct (in_dec wire_eq_dec w (wires_of_axis x)) as [Hin | Hout].
      + destruct (grade_unchopped_detail bs o_coin Hco s x Vx Cx w Hin) as [[E1 _] | [[_ E2] | (_ & c & Hc & _ & E2)]].
        * rewrite E1. apply Sg. exact Vw.
        * rewrite E2. apply Sa. exact Vx.
        * destruct (coin_wire_facts bs o_coin Hco w c Vw Hc) as (Vc & _ & _).
          destruct E2 as [E2 | E2]; rewrite E2; [|rewrite rev_length]; apply Sg; exact Vc.
      + rewrite O by exact Hout. apply Sg. exact Vw.
    - intros y Vy. rewrite A. apply Sa. exact Vy.
  Qed.

  Lemma short_grade_chopped s x : va x -> chopped x = true ->
    (forall w, In w (wires_of_axis x) -> g s w = []) -> Short s -> Short (grade_axis s x).
  Proof.
    intros Vx Cx E [Sg Sa]. destruct (grade_axis_basic bs o_coin s x) as (A & _ & O). split.
    - intros w Vw. destruct (in_dec wire_eq_dec w (wires_of_axis x)) as [Hin | Hout].
      + unfold Propagate.grade_axis. rewrite Cx.
        destruct (fold_append_spec x (wires_of_axis x) s (wires_of_axis_nodup x)) as (_ & _ & _ & V).
        rewrite V by exact Hin. rewrite (E w Hin). simpl. apply Sa. exact Vx.
      + rewrite O by exact Hout. apply Sg. exact Vw.
    - intros y Vy. rewrite A. apply Sa. exact Vy.
  Qed.

  (** phase 1: grade_blocks *)
  Lemma short0_fold rest : forall done s,
    NoDup (done ++ rest) -> (forall x, In x rest -> va x) -> Good0 bs done s -> Short s ->
    Short (fold_left grade_axis rest s).
  Proof using Hco.
    induction rest as [|x rest IH]; intros done s ND Hv GS SS; simpl; [exact SS|].
    assert (~ In x done) as Nx.
    { intro X. apply NoDup_remove_2 in ND. apply ND. apply in_app_iff. left. exact X. }
    assert (va x) as Vx by (apply Hv; left; reflexivity).
    replace (done ++ x :: rest) with ((done ++ [x]) ++ rest) in ND by (rewrite <- app_assoc; reflexivity).
    apply (IH (done ++ [x])); auto.
    - intros y Hy. apply Hv. right. exact Hy.
    - apply good0_step; auto.
    - destruct (chopped x) eqn:Cx.
      + apply short_grade_chopped; auto. intros w Hw. apply (P1 _ _ _ GS x Vx Nx w Hw).
      + apply short_grade_unchopped; auto.
  Qed.

  Theorem grade_blocks_short : single_section -> Short (grade_blocks bs o_coin (init bs)).
  Proof using Hco.
    intro SS. rewrite grade_blocks_flat.
    apply (short0_fold (all_axes n) [] (init bs)); simpl; auto.
    - apply all_axes_nodup.
    - apply good0_init.
    - apply short_init. exact SS.
  Qed.

  (** phase 2 *)
  Lemma copy_axis_short s x s' u : Good s -> Short s -> va x -> copy_axis s x = (s', u) -> Short s'.
  Proof using Hco Hnb.
    intros GS [Sg Sa] Vx. unfold Propagate.copy_axis. destruct (a_defined s x) eqn:D.
    - intro H; inversion H; subst. split; assumption.
    - destruct (find _ (o_nbrs x)) as [y|] eqn:F; [|intro H; inversion H; subst; split; assumption].
      intro H. inversion H; subst; clear H.
      assert (ach s x = []) as Ax.
      { destruct (ach s x) eqn:E; [reflexivity|]. exfalso.
        assert (a_defined s x = true) as X by (apply (G1 _ _ GS x Vx); rewrite E; discriminate). congruence. }
      assert (chopped x = false) as Cx.
      { destruct (chopped x) eqn:Cx; [|reflexivity]. exfalso.
        assert (a_defined s x = true) as X; [|congruence].
        unfold a_defined. apply forallb_forall. intros w Hw. apply w_defined_iff.
        rewrite (G5 _ _ GS x Vx Cx w Hw). apply chopped_iff. exact Cx. }
      apply find_some in F. destruct F as [Hy _].
      assert (va y) as Vy by (apply Hnb in Hy; [|exact Vx]; apply in_nbr_set in Hy; apply Hy).
      apply short_grade_unchopped; auto. split; simpl.
      + exact Sg.
      + intros z Vz. destruct (axis_eqb z x) eqn:E.
        * apply axis_eqb_eq in E. subst z. rewrite upd_a_same, Ax. simpl.
          destruct (axis_aligned bs y x); [|rewrite rev_length]; apply Sa; exact Vy.
        * rewrite upd_a_other; [apply Sa; exact Vz|]. intro X; subst. rewrite axis_eqb_refl in E. discriminate.
  Qed.

  Lemma copy_block_fold_short xs : forall s u0 s' u,
    fold_left (fun sb x => let '(s', u) := copy_axis (fst sb) x in (s', u || snd sb)) xs (s, u0) = (s', u) ->
    (forall x, In x xs -> va x) -> Good s -> Short s -> Short s'.
  Proof using Hco Hnb.
    induction xs as [|x xs IH]; intros s u0 s' u H Hv GS SS; simpl in H.
    - inversion H; subst. exact SS.
    - destruct (copy_axis s x) as [s1 u1] eqn:E. simpl in H.
      assert (va x) as Vx by (apply Hv; left; reflexivity).
      eapply IH; [exact H | intros y Hy; apply Hv; right; exact Hy | |].
      + eapply copy_axis_good; eauto.
      + eapply copy_axis_short; eauto.
  Qed.

  Lemma copy_block_short s b s' u : b < n -> copy_block s b = (s', u) -> Good s -> Short s -> Short s'.
  Proof using Hco Hnb.
    intros Hb. unfold Propagate.copy_block. destruct (b_defined s b).
    - intro H; inversion H; subst. auto.
    - intros H GS SS. eapply copy_block_fold_short; eauto.
      intros x Hx. apply in_axes_of_block in Hx. apply in_all_axes. lia.
  Qed.

  Lemma scan_short todo : forall s before upd s' undef' u',
    scan s before todo upd = (s', undef', u') -> (forall i, In i todo -> i < n) -> Good s -> Short s -> Short s'.
  Proof using Hco Hnb.
    induction todo as [|i rest IH]; intros s before upd s' undef' u' H Hn GS SS; simpl in H.
    - inversion H; subst. exact SS.
    - destruct (b_defined s i).
      + inversion H; subst. exact SS.
      + destruct (copy_block s i) as [s1 u1] eqn:E.
        assert (i < n) as Hi by (apply Hn; left; reflexivity).
        eapply IH; [exact H | intros j Hj; apply Hn; right; exact Hj | |].
        * eapply copy_block_good; eauto.
        * eapply copy_block_short; eauto.
  Qed.

  Lemma propagate_short fuel : forall s undef,
    (forall i, In i undef -> i < n) -> Good s -> Short s ->
    match propagate fuel s undef with
    | Done s' => Short s'
    | Stuck s' _ => Short s'
    | OutOfFuel => True
    end.
  Proof using Hco Hnb.
    induction fuel as [|f IH]; intros s undef Hn GS SS.
    - destruct undef; simpl; auto.
    - destruct undef as [|i rest]; [simpl; auto|].
      rewrite propagate_unfold.
      destruct (scan s [] (i :: rest) false) as [[s' undef'] u'] eqn:E.
      pose proof (scan_spec bs o_coin o_nbrs (i :: rest) s [] false s' undef' u' E Hn) as (M & L & T & I1 & I2).
      rewrite app_nil_l in *.
      pose proof (scan_good bs o_coin o_nbrs Hco Hnb _ _ _ _ _ _ _ E Hn GS) as GS'.
      pose proof (scan_short _ _ _ _ _ _ _ E Hn GS SS) as SS'.
      destruct u'.
      + apply IH; auto.
      + destruct undef' as [|j undef']; exact SS'.
  Qed.

  (** ** one-section gradings: list equality is count equality *)
  Lemma nl_eqb_refl l : nl_eqb l l = true.
  Proof.
    unfold nl_eqb. rewrite Nat.eqb_refl. simpl. induction l as [|a l IH]; simpl; [reflexivity|].
    rewrite Nat.eqb_refl. exact IH.
  Qed.

  Lemma short_list_eq (l m : list nat) :
    length l <= 1 -> length m <= 1 -> l <> [] -> m <> [] -> Propagate.total l = Propagate.total m ->
    nl_eqb l (rev m) = true /\ nl_eqb l m = true.
  Proof.
    intros Hl Hm Nl Nm T.
    destruct l as [|a [|a' l]]; [congruence | | simpl in Hl; lia].
    destruct m as [|b [|b' m]]; [congruence | | simpl in Hm; lia].
    unfold Propagate.total in T. simpl in T. assert (a = b) by lia. subst. simpl.
    split; apply nl_eqb_refl.
  Qed.
End Short.
