(** C13 - optimize() as a whole, from ANY entry state.

    [run_events_no_worse] needs "every clamp sits" on entry.  optimize() establishes that itself: the
    first thing an iteration does is the sensitivity probe of every clamp, and a completed probe
    leaves its clamp on function(params) with the parameters it found.  So the summed quality of the
    result is no worse than the quality of the "snapped" state (entry state with every clamped
    junction put on its manifold point for its own initial parameters and every follower on its
    image) - without any hypothesis on the entry state. *)
From Coq Require Import List Bool Arith Lia.
From CB Require Import Model.C13_Optimizer Proofs.C13_Optimizer.
Import ListNotations.

Section Whole.
  Variables X P V : Type.
  Variable leb : V -> V -> bool.
  Notation grid := (grid X P V).
  Notation state := (state X P).

  Lemma completed_cons (so : state * outcome V) tr :
    completed (so :: tr) = negb (is_raised (snd so)) && completed tr.
  Proof. reflexivity. Qed.

  Lemma completed_app (tr1 tr2 : list (state * outcome V)) :
    completed (tr1 ++ tr2) = completed tr1 && completed tr2.
  Proof. unfold completed. apply forallb_app. Qed.

  (** running a concatenation = running the first part and, if it completed, the second *)
  Lemma run_events_app (g : grid) : forall a b (st : state),
    run_events leb g st (a ++ b) =
      (let '(tr1, st1) := run_events leb g st a in
       if completed tr1 then (let '(tr2, fin) := run_events leb g st1 b in (tr1 ++ tr2, fin))
       else (tr1, st1)).
  Proof.
    induction a as [|e r IH]; intros b st.
    - simpl. destruct (run_events leb g st b); reflexivity.
    - simpl. destruct (step leb g st e) as [st' o]. destruct (is_raised o) eqn:Hr.
      + rewrite completed_cons. simpl. rewrite Hr. reflexivity.
      + rewrite IH. destruct (run_events leb g st' r) as [tr1 st1].
        rewrite completed_cons. simpl. rewrite Hr. simpl.
        destruct (completed tr1); [|reflexivity].
        destruct (run_events leb g st1 b); reflexivity.
  Qed.

  (** the sensitivity pass of one iteration *)
  Definition probe_events (probes : list (list X)) : list (event X) :=
    map (fun ce => EProbe (fst ce) (snd ce)) (combine (seq 0 (length probes)) probes).

  Definition opt_events (order : list (nat * oracle X)) : list (event X) :=
    map (fun co => EOpt (fst co) (snd co)) order.

  Lemma iteration_events_split probes order :
    iteration_events probes order = (EMeasure :: probe_events probes) ++ (opt_events order ++ [EMeasure]).
  Proof. reflexivity. Qed.

  Lemma map_fst_combine {A B} : forall (l : list A) (m : list B), length l = length m -> map fst (combine l m) = l.
  Proof.
    induction l as [|a l IH]; intros [|b m] H; simpl in *; try discriminate; auto.
    f_equal. apply IH. lia.
  Qed.

  Lemma ev_cids_probe_events probes : ev_cids (probe_events probes) = seq 0 (length probes).
  Proof.
    unfold probe_events.
    assert (G : forall l : list (nat * list X), ev_cids (map (fun ce => EProbe (fst ce) (snd ce)) l) = map fst l).
    { induction l as [|a l IH]; simpl; auto. unfold ev_cids in *. simpl. rewrite IH. reflexivity. }
    rewrite G. apply map_fst_combine. rewrite seq_length. reflexivity.
  Qed.

  Definition no_opt (e : event X) : bool := match e with EOpt _ _ => false | _ => true end.

  (** measuring and probing never change the parameters *)
  Lemma run_events_probe_prm (g : grid) : forall evs (st : state) tr (fin : state),
    forallb no_opt evs = true -> run_events leb g st evs = (tr, fin) -> completed tr = true ->
    prm fin = prm st.
  Proof.
    induction evs as [|e r IH]; intros st tr fin Hn H C; simpl in H.
    - inversion H; subst; auto.
    - simpl in Hn. apply andb_true_iff in Hn. destruct Hn as [He Hn].
      destruct (step leb g st e) as [st1 oc] eqn:Hs. destruct (is_raised oc) eqn:Hr.
      + inversion H; subst. rewrite completed_cons in C. simpl in C. rewrite Hr in C. discriminate.
      + destruct (run_events leb g st1 r) as [tr1 fin1] eqn:Hre. inversion H; subst.
        rewrite completed_cons in C. simpl in C. rewrite Hr in C. simpl in C.
        rewrite (IH st1 tr1 fin Hn Hre C).
        destruct e as [|cid ev|cid o]; simpl in Hs; try discriminate.
        * inversion Hs; subst; auto.
        * apply probe_spec_ok in Hs. inversion Hs; subst; try discriminate.
          simpl. apply upd_same. auto.
  Qed.

  Lemma opt_entry_gq (g : grid) cid (st : state) o (st' : state) oc :
    optimize_clamp leb g cid st o = (st', oc) -> is_raised oc = false -> exists q, g_gq g (pts st) = Some q.
  Proof.
    unfold optimize_clamp. intros H Hr.
    destruct (nth_error (g_clamps g) cid); [|inversion H; subst; discriminate].
    destruct (nth_error (prm st) cid); [|inversion H; subst; discriminate].
    destruct (g_gq g (pts st)) as [q|]; [eauto|inversion H; subst; discriminate].
  Qed.

  (** a completed run that starts with a measurement or an optimize_clamp started from a valid grid *)
  Lemma run_events_entry_gq (g : grid) e r (st : state) tr (fin : state) :
    no_opt e = false \/ e = EMeasure ->
    run_events leb g st (e :: r) = (tr, fin) -> completed tr = true -> exists q, g_gq g (pts st) = Some q.
  Proof.
    intros He H C. simpl in H. destruct (step leb g st e) as [st1 oc] eqn:Hs. destruct (is_raised oc) eqn:Hr.
    - inversion H; subst. rewrite completed_cons in C. simpl in C. rewrite Hr in C. discriminate.
    - destruct e as [|cid ev|cid o]; simpl in Hs.
      + destruct (g_gq g (pts st)) as [q|]; [eauto|]. inversion Hs; subst. discriminate.
      + destruct He as [He|He]; discriminate.
      + eapply opt_entry_gq; eauto.
  Qed.

  (** after a completed run of measurements and probes every probed clamp sits - no hypothesis on the
      rollback test is needed (nothing is ever "kept" here) *)
  Lemma run_probes_establish (g : grid) : forall evs (st : state) tr (fin : state),
    forallb no_opt evs = true -> wf g (length (pts st)) ->
    run_events leb g st evs = (tr, fin) -> completed tr = true ->
    forall cid, In cid (ev_cids evs) -> sits g fin cid.
  Proof.
    induction evs as [|e r IH]; intros st tr fin Hn Hwf H C cid Hin; simpl in H.
    - destruct Hin.
    - simpl in Hn. apply andb_true_iff in Hn. destruct Hn as [He Hn].
      destruct (step leb g st e) as [st1 oc] eqn:Hs. destruct (is_raised oc) eqn:Hr.
      + inversion H; subst. rewrite completed_cons in C. simpl in C. rewrite Hr in C. discriminate.
      + destruct (run_events leb g st1 r) as [tr1 fin1] eqn:Hre. inversion H; subst.
        rewrite completed_cons in C. simpl in C. rewrite Hr in C. simpl in C.
        pose proof (step_length _ _ _ _ _ _ _ _ _ Hs) as [Lp _].
        assert (Hwf1 : wf g (length (pts st1))) by (rewrite Lp; exact Hwf).
        unfold ev_cids in Hin. simpl in Hin. apply in_app_or in Hin. destruct Hin as [Hin|Hin].
        * destruct (ev_cid e) as [c0|] eqn:Hc; [|destruct Hin]. destruct Hin as [->|[]].
          eapply (run_events_sits _ _ _ leb g cid r st1); [exact Hwf1 | exact Hre |].
          apply (step_establishes _ _ _ leb g st e st1 oc cid Hwf Hs Hc Hr).
          intros q0 q1 E. subst oc. destruct e as [|c1 ev|c1 o]; simpl in *; try discriminate.
          apply probe_spec_ok in Hs. inversion Hs; subst. destruct H3; discriminate.
        * eapply (IH st1); eauto.
  Qed.

  (** the order of the statement may differ from the code's rollback test (see [keeps_no_worse]) *)
  Variable le : V -> V -> bool.

  (** optimize() with at least one iteration, from any entry state *)
  Theorem optimize_any_entry_gen (g : grid) : reflexive_le le -> transitive_le le -> keeps_no_worse leb le ->
    forall probes order rest (st : state) mesh tr (fin : state) mesh',
      wf g (length (pts st)) -> length probes = length (g_clamps g) ->
      optimize leb g st mesh ((probes, order) :: rest) = (tr, fin, mesh') -> completed tr = true ->
      exists tr0 (snap : state) q_s q',
        run_events leb g st (EMeasure :: probe_events probes) = (tr0, snap) /\ completed tr0 = true /\
        prm snap = prm st /\ inv g snap /\
        g_gq g (pts snap) = Some q_s /\ mesh' = pts fin /\ inv g fin /\
        g_gq g mesh' = Some q' /\ le q' q_s = true.
  Proof.
    intros T Tr K probes order rest st mesh tr fin mesh' Hwf Hlen H C.
    unfold optimize in H.
    assert (E : optimize_events ((probes, order) :: rest)
                = (EMeasure :: probe_events probes) ++ ((opt_events order ++ [EMeasure]) ++ optimize_events rest)).
    { change (optimize_events ((probes, order) :: rest)) with (iteration_events probes order ++ optimize_events rest).
      rewrite iteration_events_split. rewrite <- app_assoc. reflexivity. }
    rewrite E in H. clear E. rewrite run_events_app in H.
    destruct (run_events leb g st (EMeasure :: probe_events probes)) as [tr0 snap] eqn:HA.
    destruct (completed tr0) eqn:C0.
    2:{ inversion H; subst. congruence. }
    destruct (run_events leb g snap ((opt_events order ++ [EMeasure]) ++ optimize_events rest)) as [tr2 fin2] eqn:HB.
    inversion H; subst. clear H.
    rewrite completed_app, C0 in C. simpl in C. rewrite completed_app, C0, C. simpl.
    pose proof (run_events_length _ _ _ _ _ _ _ _ _ HA) as [Lp _].
    assert (Hwf' : wf g (length (pts snap))) by (rewrite Lp; exact Hwf).
    assert (Hno : forallb no_opt (EMeasure :: probe_events probes) = true).
    { simpl. unfold probe_events. rewrite forallb_forall. intros e He. apply in_map_iff in He.
      destruct He as [ce [<- _]]. reflexivity. }
    assert (I : inv g snap).
    { intros cid Hc. apply (run_probes_establish g (EMeasure :: probe_events probes) st tr0 snap Hno Hwf HA C0).
      change (In cid (ev_cids (probe_events probes))).
      rewrite ev_cids_probe_events. apply in_seq. lia. }
    assert (Hq : exists q, g_gq g (pts snap) = Some q).
    { destruct order as [|co order'].
      - exact (run_events_entry_gq g EMeasure (optimize_events rest) snap tr2 fin (or_intror eq_refl) HB C).
      - exact (run_events_entry_gq g (EOpt (fst co) (snd co)) ((opt_events order' ++ [EMeasure]) ++ optimize_events rest)
                 snap tr2 fin (or_introl eq_refl) HB C). }
    destruct Hq as [q_s Hqs].
    destruct (run_events_no_worse_gen _ _ _ leb le g T Tr K _ _ _ _ _ Hwf' I HB C Hqs) as (q' & Hq' & L).
    exists tr0, snap, q_s, q'. repeat split; auto.
    - eapply run_events_probe_prm; eauto.
    - eapply run_events_inv; eauto.
  Qed.

End Whole.

(** the code's own test as the order *)
Theorem optimize_any_entry (X P V : Type) (leb : V -> V -> bool) (g : grid X P V) : total leb -> transitive leb ->
  forall probes order rest (st : state X P) mesh tr (fin : state X P) mesh',
    wf g (length (pts st)) -> length probes = length (g_clamps g) ->
    optimize leb g st mesh ((probes, order) :: rest) = (tr, fin, mesh') -> completed tr = true ->
    exists tr0 (snap : state X P) q_s q',
      run_events leb g st (EMeasure :: probe_events X probes) = (tr0, snap) /\ completed tr0 = true /\
      prm snap = prm st /\ inv g snap /\
      g_gq g (pts snap) = Some q_s /\ mesh' = pts fin /\ inv g fin /\
      g_gq g mesh' = Some q' /\ leb q' q_s = true.
Proof.
  intros T Tr. apply (optimize_any_entry_gen X P V leb leb g (total_refl V leb T) Tr (total_keeps V leb T)).
Qed.

Arguments probe_events {X}.
Arguments opt_events {X}.
