(** C08 - lemmas used by the generated correspondence files (.work/C08/cases_*.v).

    The correspondence goals are statements about the model functions of Model/C08_Arcs.v themselves
    ([arc_from_theta], [arc_from_origin], [arc_length_3point], [arc_edge_length], [polyline_length]) applied
    to the dyadic inputs of one Python call.  To keep the terms given to [interval] small the goals are proved
    in stages: an intermediate value (the centre of the circle, the adjusted radius) is first enclosed in a
    small box by [interval], then the rest is proved for every point of the box.  The lemmas below are the glue:
    they are trivial instantiations, so nothing is assumed about the intermediate values. *)
From Coq Require Import Reals Lra Psatz.
From CB Require Import Base.Vec3 Model.C08_Arcs.
Open Scope R_scope.

Definition close3 (p m : vec) (t : R) : Prop :=
  Rabs (vx p - vx m) <= t /\ Rabs (vy p - vy m) <= t /\ Rabs (vz p - vz m) <= t.

Definition inbox (lo hi p : vec) : Prop :=
  vx lo <= vx p <= vx hi /\ vy lo <= vy p <= vy hi /\ vz lo <= vz p <= vz hi.

Lemma stage_vec (P : vec -> Prop) (f lo hi : vec) :
  inbox lo hi f ->
  (forall x y z, vx lo <= x <= vx hi -> vy lo <= y <= vy hi -> vz lo <= z <= vz hi -> P (x, y, z)) ->
  P f.
Proof. destruct f as [[x y] z]. intros (Hx & Hy & Hz) H. apply H; assumption. Qed.

Lemma stage_R (P : R -> Prop) (f lo hi : R) :
  lo <= f <= hi -> (forall r, lo <= r <= hi -> P r) -> P f.
Proof. intros H K. apply K. exact H. Qed.

(** ** acos through atan *)
Lemma acos_atan_eq x : -1 < x < 1 -> acos x = acos_atan x.
Proof.
  intros [H1 H2]. unfold acos, acos_atan.
  destruct (Rle_dec x (-1)); [lra|]. destruct (Rle_dec 1 x); [lra|]. unfold Rsqr. reflexivity.
Qed.

Lemma x_range_of_sq x : 0 < 1 - x * x -> -1 < x < 1.
Proof. intros H. split; nra. Qed.

(** ** arc_length_3point: the branch taken and the value, for a centre known to lie in a box *)
Lemma a3_len_at_flip c ps pb pe L t :
  a3_flipq_at c ps pb pe < 0 /\ 0 < 1 - a3_x_at c ps pe * a3_x_at c ps pe /\ Rabs (a3_len_flip_at c ps pe - L) <= t ->
  Rabs (a3_len_at c ps pb pe - L) <= t.
Proof.
  intros (Hq & Hx & H). unfold a3_len_at. destruct (Rlt_dec (a3_flipq_at c ps pb pe) 0); [|lra].
  rewrite (acos_atan_eq _ (x_range_of_sq _ Hx)). exact H.
Qed.

Lemma a3_len_at_noflip c ps pb pe L t :
  0 <= a3_flipq_at c ps pb pe /\ 0 < 1 - a3_x_at c ps pe * a3_x_at c ps pe /\ Rabs (a3_len_noflip_at c ps pe - L) <= t ->
  Rabs (a3_len_at c ps pb pe - L) <= t.
Proof.
  intros (Hq & Hx & H). unfold a3_len_at. destruct (Rlt_dec (a3_flipq_at c ps pb pe) 0); [lra|].
  rewrite (acos_atan_eq _ (x_range_of_sq _ Hx)). exact H.
Qed.

(** both branches agree with the observed value (half circles: the sign test is within rounding of 0) *)
Lemma a3_len_at_either c ps pb pe L t :
  0 < 1 - a3_x_at c ps pe * a3_x_at c ps pe /\ Rabs (a3_len_flip_at c ps pe - L) <= t /\ Rabs (a3_len_noflip_at c ps pe - L) <= t ->
  Rabs (a3_len_at c ps pb pe - L) <= t.
Proof.
  intros (Hx & H1 & H2). destruct (Rlt_dec (a3_flipq_at c ps pb pe) 0).
  - apply a3_len_at_flip. auto.
  - apply a3_len_at_noflip. split; [lra | auto].
Qed.

(** ** half circles: the cosine is within rounding of -1, where the atan form of acos is not available; acos is
    decreasing, so the angle lies between acos xh and pi for any upper bound xh of the cosine *)
Lemma acos_decr x y : -1 <= x -> x <= y -> y <= 1 -> acos y <= acos x.
Proof.
  intros Hx Hxy Hy. destruct (Rle_lt_dec (acos y) (acos x)) as [H|H]; [exact H|exfalso].
  pose proof (acos_bound x) as Bx. pose proof (acos_bound y) as By.
  assert (K : cos (acos y) < cos (acos x)) by (apply cos_decreasing_1; lra).
  rewrite !cos_acos in K by lra. lra.
Qed.

Lemma acos_lower x xh : x <= xh -> -1 < xh < 1 -> acos xh <= acos x <= PI.
Proof.
  intros Hx Hh. split; [|apply acos_bound].
  destruct (Rle_dec x (-1)) as [L|L].
  - unfold acos at 2. destruct (Rle_dec x (-1)); [|contradiction]. apply acos_bound.
  - apply acos_decr; lra.
Qed.

Lemma Rabs_le_elim a b : Rabs a <= b -> - b <= a <= b.
Proof. unfold Rabs. destruct (Rcase_abs a); lra. Qed.

Lemma Rabs_le_intro a b : - b <= a <= b -> Rabs a <= b.
Proof. unfold Rabs. destruct (Rcase_abs a); lra. Qed.

Lemma a3_len_at_near_pi c ps pb pe L t xh :
  -1 < xh < 1 -> a3_x_at c ps pe <= xh ->
  Rabs (acos_atan xh * norm (vsub pe c) - L) <= t ->
  Rabs ((2 * PI - acos_atan xh) * norm (vsub pe c) - L) <= t ->
  Rabs (a3_len_at c ps pb pe - L) <= t.
Proof.
  intros Hh Hx H1 H2. rewrite <- (acos_atan_eq _ Hh) in H1, H2.
  destruct (acos_lower _ _ Hx Hh) as [A1 A2].
  pose proof (norm_nonneg (vsub pe c)) as Hr.
  apply Rabs_le_elim in H1. apply Rabs_le_elim in H2. apply Rabs_le_intro.
  unfold a3_len_at. set (A := acos (a3_x_at c ps pe)) in *. set (a := acos xh) in *. set (r := norm (vsub pe c)) in *.
  destruct (Rlt_dec (a3_flipq_at c ps pb pe) 0); split; nra.
Qed.

Lemma a3_length_staged ps pb pe L t lo hi :
  inbox lo hi (a3_centre ps pb pe) ->
  (forall x y z, vx lo <= x <= vx hi -> vy lo <= y <= vy hi -> vz lo <= z <= vz hi ->
     Rabs (a3_len_at (x, y, z) ps pb pe - L) <= t) ->
  Rabs (arc_length_3point ps pb pe - L) <= t.
Proof. intros Hb H. unfold arc_length_3point. apply (stage_vec (fun c => Rabs (a3_len_at c ps pb pe - L) <= t) _ lo hi Hb H). Qed.

(** ** ArcEdgeBase.length *)
Lemma arc_edge_length_valid tol v1 p3 v2 L t :
  tol <= dist v1 v2 -> tol < arc_collinearity v1 p3 v2 -> Rabs (arc_length_3point v1 p3 v2 - L) <= t ->
  Rabs (arc_edge_length tol v1 p3 v2 - L) <= t.
Proof.
  intros H1 H2 H. unfold arc_edge_length. destruct (Rlt_dec (dist v1 v2) tol); [lra|].
  destruct (Rlt_dec tol (arc_collinearity v1 p3 v2)); [exact H | lra].
Qed.

Lemma arc_edge_length_collinear tol v1 p3 v2 L t :
  arc_collinearity v1 p3 v2 <= tol -> Rabs (dist v1 v2 - L) <= t ->
  Rabs (arc_edge_length tol v1 p3 v2 - L) <= t.
Proof.
  intros H2 H. unfold arc_edge_length. destruct (Rlt_dec (dist v1 v2) tol); [exact H|].
  destruct (Rlt_dec tol (arc_collinearity v1 p3 v2)); [lra | exact H].
Qed.

(** ** arc_from_origin: which of the three paths the code takes *)
Lemma origin_case_noadj tol p1 p3 c m t :
  Rabs (norm (vsub p1 c) - norm (vsub p3 c)) <= tol -> close3 (arc_from_origin_noadj p1 p3 c) m t ->
  close3 (arc_from_origin tol p1 p3 c 1) m t.
Proof.
  intros H K. unfold arc_from_origin. destruct (Req_EM_T 1 1); [|lra].
  destruct (Rlt_dec tol (Rabs (norm (vsub p1 c) - norm (vsub p3 c)))); [lra | exact K].
Qed.

Lemma origin_case_adj tol p1 p3 c m t :
  tol < Rabs (norm (vsub p1 c) - norm (vsub p3 c)) ->
  close3 (arc_from_origin_adj p1 p3 c (origin_mean_radius p1 p3 c)) m t ->
  close3 (arc_from_origin tol p1 p3 c 1) m t.
Proof.
  intros H K. unfold arc_from_origin. destruct (Req_EM_T 1 1); [|lra].
  destruct (Rlt_dec tol (Rabs (norm (vsub p1 c) - norm (vsub p3 c)))); [exact K | lra].
Qed.

Lemma origin_case_flat tol p1 p3 c mult m t :
  mult < 1 \/ 1 < mult ->
  close3 (arc_from_origin_adj p1 p3 c (origin_flat_radius p1 p3 c mult)) m t ->
  close3 (arc_from_origin tol p1 p3 c mult) m t.
Proof.
  intros H K. unfold arc_from_origin. destruct (Req_EM_T mult 1); [lra | exact K].
Qed.

(** the adjusted centre first, then the mid point *)
Lemma origin_adj_staged p1 p3 c r m t lo hi :
  inbox lo hi (origin_new_centre p1 p3 c r) ->
  (forall x y z, vx lo <= x <= vx hi -> vy lo <= y <= vy hi -> vz lo <= z <= vz hi -> close3 (arc_mid (x, y, z) p1 p3) m t) ->
  close3 (arc_from_origin_adj p1 p3 c r) m t.
Proof.
  intros Hc Hm. unfold arc_from_origin_adj.
  apply (stage_vec (fun n => close3 (arc_mid n p1 p3) m t) _ lo hi Hc Hm).
Qed.

(** which argument of the max in the flattened radius is taken *)
Lemma origin_flat_radius_scaled p1 p3 c mult :
  0 <= origin_mean_radius p1 p3 c * mult - 1001 / 1000 * / 2 * norm (vsub p3 p1) ->
  origin_flat_radius p1 p3 c mult = origin_mean_radius p1 p3 c * mult.
Proof. intros H. unfold origin_flat_radius. apply Rmax_left. lra. Qed.

Lemma origin_flat_radius_floor p1 p3 c mult :
  0 <= 1001 / 1000 * / 2 * norm (vsub p3 p1) - origin_mean_radius p1 p3 c * mult ->
  origin_flat_radius p1 p3 c mult = 1001 / 1000 * / 2 * norm (vsub p3 p1).
Proof. intros H. unfold origin_flat_radius. apply Rmax_right. lra. Qed.

(** ** inputs: [x = literal] read as the degenerate box [literal <= x <= literal] (the form [interval] uses) *)
Lemma eq_box (x l : R) : x = l -> l <= x <= l.
Proof. intros ->. split; apply Rle_refl. Qed.

Ltac boxes := repeat match goal with H : _ = _ |- _ => apply eq_box in H end.
