(** C19 - what the boolean specification predicates of Model/C19_Spec.v mean (reflection lemmas). *)
From Coq Require Import String.
From Coq Require Import List Bool Arith Lia.
From CB Require Import Model.C19_Stack Model.C19_Spec.
Import ListNotations.
Open Scope nat_scope.

Lemma mem_In x l : mem x l = true <-> In x l.
Proof.
  unfold mem. rewrite existsb_exists. split.
  - intros [y [Hy E]]. apply Nat.eqb_eq in E. subst. exact Hy.
  - intro H. exists x. split; [exact H | apply Nat.eqb_refl].
Qed.

Lemma nodupb_NoDup l : nodupb l = true -> NoDup l.
Proof.
  induction l as [|x l IH]; simpl; intro H; [constructor|].
  apply andb_true_iff in H. destruct H as [H1 H2]. constructor; [|apply IH; exact H2].
  intro C. apply mem_In in C. rewrite C in H1. discriminate.
Qed.

(** [l] lists the numbers below [n], each exactly once *)
Definition lists_range (n : nat) (l : list nat) : Prop := NoDup l /\ forall x, In x l <-> x < n.

Lemma perm_of_range_spec n l : perm_of_range n l = true -> lists_range n l.
Proof.
  unfold perm_of_range. intro H. apply andb_true_iff in H. destruct H as [H H3].
  apply andb_true_iff in H. destruct H as [H1 H2]. apply Nat.eqb_eq in H1. apply nodupb_NoDup in H2.
  rewrite forallb_forall in H3.
  split; [exact H2|]. intro x. split.
  - intro Hx. apply Nat.ltb_lt. apply H3. exact Hx.
  - intro Hx.
    assert (incl (seq 0 n) l) as Hincl.
    { apply NoDup_length_incl; [exact H2 | rewrite seq_length; lia |].
      intros y Hy. apply in_seq. specialize (H3 y Hy). apply Nat.ltb_lt in H3. lia. }
    apply Hincl. apply in_seq. lia.
Qed.

(** two lists that together list the range are disjoint and cover it: a partition *)
Lemma lists_range_app n c s :
  lists_range n (c ++ s) ->
  (forall x, In x c -> ~ In x s) /\ (forall x, x < n -> In x c \/ In x s) /\
  (forall x, In x c \/ In x s -> x < n) /\ NoDup c /\ NoDup s.
Proof.
  intros [Hnd Hin]. repeat split.
  - intros x Hc Hs. revert Hnd Hc Hs. clear. induction c as [|y c IH]; simpl; intros Hnd Hc Hs; [exact Hc|].
    inversion Hnd; subst. destruct Hc as [->|Hc].
    + apply H1. apply in_or_app. right. exact Hs.
    + apply IH; assumption.
  - intros x Hx. apply in_app_or. apply Hin. exact Hx.
  - intros x Hx. apply Hin. apply in_or_app. exact Hx.
  - revert Hnd. clear. induction c as [|y c IH]; simpl; intro H; [constructor|].
    inversion H; subst. constructor; [|apply IH; exact H3]. intro C. apply H2. apply in_or_app. left. exact C.
  - revert Hnd. clear. induction c as [|y c IH]; simpl; intro H; [exact H|]. inversion H; subst. apply IH. exact H3.
Qed.

Lemma nat_list_eqb_eq (a : list nat) : forall b, list_eqb Nat.eqb a b = true -> a = b.
Proof.
  induction a as [|x a IH]; intros [|y b] H; simpl in *; try reflexivity; try discriminate.
  apply andb_true_iff in H. destruct H as [H1 H2]. apply Nat.eqb_eq in H1. apply IH in H2. congruence.
Qed.

(** the rows of the grid are rings: the first [k] rows are the core, the others the shell *)
Definition rings (grid : list (list nat)) (c shell : list nat) : Prop :=
  exists k, k <= length grid /\ concat (firstn k grid) = c /\ concat (skipn k grid) = shell.

Lemma rings_ok_spec grid c shell : rings_ok grid c shell = true -> rings grid c shell.
Proof.
  unfold rings_ok, rings. intro H. apply existsb_exists in H. destruct H as [k [Hk H]].
  apply andb_true_iff in H. destruct H as [H1 H2]. apply nat_list_eqb_eq in H1, H2.
  exists k. split; [apply in_seq in Hk; lia|]. split; assumption.
Qed.

(** Prop reading of the sketch predicate *)
Definition sketch_spec (e : sketch_entry) : Prop :=
  let '(_, (quads, outer, grid, core, shell)) := e in
  let nf := length quads in
  lists_range nf (opt_list core ++ shell) /\
  (forall f, In f shell -> has_outer_edge outer (quad_of quads f) = true) /\
  (forall f, In f (opt_list core) -> has_outer_point outer (quad_of quads f) = false) /\
  lists_range nf (concat grid) /\
  rings grid (opt_list core) shell.

Lemma sketch_ok_spec e : sketch_ok e = true -> sketch_spec e.
Proof.
  destruct e as [name [[[[quads outer] grid] core] shell]]. unfold sketch_ok, sketch_spec.
  cbv zeta. intro H.
  apply andb_true_iff in H. destruct H as [H Hrings].
  apply andb_true_iff in H. destruct H as [H Hgrid].
  apply andb_true_iff in H. destruct H as [H Hcore].
  apply andb_true_iff in H. destruct H as [H Hshell].
  apply andb_true_iff in H. destruct H as [_ Hperm].
  split; [apply perm_of_range_spec; assumption|].
  split; [intros f Hf; rewrite forallb_forall in Hshell; apply Hshell; exact Hf|].
  split; [intros f Hf; rewrite forallb_forall in Hcore; apply negb_true_iff; apply Hcore; exact Hf|].
  split; [apply perm_of_range_spec; assumption | apply rings_ok_spec; assumption].
Qed.

Definition lofted_spec (e : lofted_entry) : Prop :=
  let '(_, (quads, outer, bottom, joined, grid, sgrid, core, shell)) := e in
  let n := length bottom in
  exists c, core = Some c /\
  lists_range n (c ++ shell) /\
  (forall o, In o shell -> has_outer_edge outer (quad_of quads (nth o bottom 0)) = true) /\
  (forall o, In o c -> has_outer_point outer (quad_of quads (nth o bottom 0)) = false) /\
  (length joined = n /\ forall b, In b joined -> b = true) /\
  list_eqb (list_eqb Nat.eqb) (map (map (fun o => nth o bottom 0)) grid) sgrid = true /\
  rings grid c shell.

Lemma lofted_ok_spec e : lofted_ok e = true -> lofted_spec e.
Proof.
  destruct e as [name [[[[[[[quads outer] bottom] joined] grid] sgrid] core] shell]].
  unfold lofted_ok, lofted_spec. destruct core as [c|]; [|discriminate].
  cbv zeta. intro H.
  apply andb_true_iff in H. destruct H as [H Hrings].
  apply andb_true_iff in H. destruct H as [H Hgrid].
  apply andb_true_iff in H. destruct H as [H Hjoined].
  apply andb_true_iff in H. destruct H as [H Hlen].
  apply andb_true_iff in H. destruct H as [H Hcore].
  apply andb_true_iff in H. destruct H as [Hperm Hshell].
  exists c. split; [reflexivity|].
  split; [apply perm_of_range_spec; exact Hperm|].
  split; [intros o Ho; rewrite forallb_forall in Hshell; apply Hshell; exact Ho|].
  split; [intros o Ho; rewrite forallb_forall in Hcore; apply negb_true_iff; apply Hcore; exact Ho|].
  split; [split; [apply Nat.eqb_eq; assumption|]; intros b Hb; rewrite forallb_forall in Hjoined; apply Hjoined; exact Hb|].
  split; [assumption | apply rings_ok_spec; assumption].
Qed.

Definition solid_spec (e : solid_entry) : Prop :=
  let '(_, (n, touch, anyp, grid, core, shell)) := e in
  exists c g, core = Some c /\ grid = Some g /\
  lists_range n (c ++ shell) /\
  (forall o, In o shell -> nth o touch false = true) /\
  (forall o, In o c -> nth o anyp true = false) /\
  lists_range n (concat g) /\
  rings g c shell.

Lemma solid_ok_spec e : solid_ok e = true -> solid_spec e.
Proof.
  destruct e as [name [[[[[n touch] anyp] grid] core] shell]].
  unfold solid_ok, solid_spec. destruct core as [c|]; [|discriminate]. destruct grid as [g|]; [|discriminate].
  cbv zeta. intro H.
  apply andb_true_iff in H. destruct H as [H Hrings].
  apply andb_true_iff in H. destruct H as [H Hgrid].
  apply andb_true_iff in H. destruct H as [H Hcore].
  apply andb_true_iff in H. destruct H as [Hperm Hshell].
  exists c, g. split; [reflexivity|]. split; [reflexivity|].
  split; [apply perm_of_range_spec; exact Hperm|].
  split; [intros o Ho; rewrite forallb_forall in Hshell; apply Hshell; exact Ho|].
  split; [intros o Ho; rewrite forallb_forall in Hcore; apply negb_true_iff; apply Hcore; exact Ho|].
  split; [apply perm_of_range_spec; assumption | apply rings_ok_spec; assumption].
Qed.
