(** C19 - what the boolean specification predicates of Model/C19_Spec.v mean (reflection lemmas). *)
From Coq Require Import String.
From Coq Require Import List Bool Arith Lia.
From CB Require Import Model.C19_Stack Model.C19_Spec.
Import ListNotations.
Open Scope nat_scope.

Lemma mem_In x l : mem x l = true <-> In x l.
Proof.
  unfold mem. rewrite existsb_exists. split.
  - intros [y [Hy E]]. apply Nat.eqb_eq in E. subst. exact Hy.
  - intro H. exists x. split; [exact H | apply Nat.eqb_refl].
Qed.

Lemma nodupb_NoDup l : nodupb l = true -> NoDup l.
Proof.
  induction l as [|x l IH]; simpl; intro H; [constructor|].
  apply andb_true_iff in H. destruct H as [H1 H2]. constructor; [|apply IH; exact H2].
  intro C. apply mem_In in C. rewrite C in H1. discriminate.
Qed.

(** [l] lists the numbers below [n], each exactly once *)
Definition lists_range (n : nat) (l : list nat) : Prop := NoDup l /\ forall x, In x l <-> x < n.

Lemma perm_of_range_spec n l : perm_of_range n l = true -> lists_range n l.
Proof.
  unfold perm_of_range. intro H. apply andb_true_iff in H. destruct H as [H H3].
  apply andb_true_iff in H. destruct H as [H1 H2]. apply Nat.eqb_eq in H1. apply nodupb_NoDup in H2.
  rewrite forallb_forall in H3.
  split; [exact H2|]. intro x. split.
  - intro Hx. apply Nat.ltb_lt. apply H3. exact Hx.
  - intro Hx.
    assert (incl (seq 0 n) l) as Hincl.
    { apply NoDup_length_incl; [exact H2 | rewrite seq_length; lia |].
      intros y Hy. apply in_seq. specialize (H3 y Hy). apply Nat.ltb_lt in H3. lia. }
    apply Hincl. apply in_seq. lia.
Qed.

(** two lists that together list the range are disjoint and cover it: a partition *)
Lemma lists_range_app n c s :
  lists_range n (c ++ s) ->
  (forall x, In x c -> ~ In x s) /\ (forall x, x < n -> In x c \/ In x s) /\
  (forall x, In x c \/ In x s -> x < n) /\ NoDup c /\ NoDup s.
Proof.
  intros [Hnd Hin]. repeat split.
  - intros x Hc Hs. revert Hnd Hc Hs. clear. induction c as [|y c IH]; simpl; intros Hnd Hc Hs; [exact Hc|].
    inversion Hnd; subst. destruct Hc as [->|Hc].
    + apply H1. apply in_or_app. right. exact Hs.
    + apply IH; assumption.
  - intros x Hx. apply in_app_or. apply Hin. exact Hx.
  - intros x Hx. apply Hin. apply in_or_app. exact Hx.
  - revert Hnd. clear. induction c as [|y c IH]; simpl; intro H; [constructor|].
    inversion H; subst. constructor; [|apply IH; exact H3]. intro C. apply H2. apply in_or_app. left. exact C.
  - revert Hnd. clear. induction c as [|y c IH]; simpl; intro H; [exact H|]. inversion H; subst. apply IH. exact H3.
Qed.

(** Prop reading of the sketch predicate *)
Definition sketch_spec (e : sketch_entry) : Prop :=
  let '(_, (quads, outer, grid, core, shell)) := e in
  let nf := length quads in
  lists_range nf (opt_list core ++ shell) /\
  (forall f, In f shell -> has_outer_edge outer (quad_of quads f) = true) /\
  (forall f, In f (opt_list core) -> has_outer_point outer (quad_of quads f) = false) /\
  lists_range nf (concat grid).

Lemma sketch_ok_spec e : sketch_ok e = true -> sketch_spec e.
Proof.
  destruct e as [name [[[[quads outer] grid] core] shell]]. unfold sketch_ok, sketch_spec.
  cbv zeta. intro H. repeat (apply andb_true_iff in H; destruct H as [H ?]).
  split; [apply perm_of_range_spec; assumption|].
  split; [intros f Hf; rewrite forallb_forall in H2; apply H2; exact Hf|].
  split; [intros f Hf; rewrite forallb_forall in H1; apply negb_true_iff; apply H1; exact Hf|].
  apply perm_of_range_spec; assumption.
Qed.

Definition lofted_spec (e : lofted_entry) : Prop :=
  let '(_, (quads, outer, bottom, joined, grid, sgrid, core, shell)) := e in
  let n := length bottom in
  exists c, core = Some c /\
  lists_range n (c ++ shell) /\
  (forall o, In o shell -> has_outer_edge outer (quad_of quads (nth o bottom 0)) = true) /\
  (forall o, In o c -> has_outer_point outer (quad_of quads (nth o bottom 0)) = false) /\
  (length joined = n /\ forall b, In b joined -> b = true) /\
  list_eqb (list_eqb Nat.eqb) (map (map (fun o => nth o bottom 0)) grid) sgrid = true.

Lemma lofted_ok_spec e : lofted_ok e = true -> lofted_spec e.
Proof.
  destruct e as [name [[[[[[[quads outer] bottom] joined] grid] sgrid] core] shell]].
  unfold lofted_ok, lofted_spec. destruct core as [c|]; [|discriminate].
  cbv zeta. intro H. repeat (apply andb_true_iff in H; destruct H as [H ?]).
  exists c. split; [reflexivity|].
  split; [apply perm_of_range_spec; unfold perm_of_range; rewrite H, H6, H5; reflexivity|].
  split; [intros o Ho; rewrite forallb_forall in H4; apply H4; exact Ho|].
  split; [intros o Ho; rewrite forallb_forall in H3; apply negb_true_iff; apply H3; exact Ho|].
  split; [|assumption].
  split; [apply Nat.eqb_eq; assumption|]. intros b Hb. rewrite forallb_forall in H1. apply H1. exact Hb.
Qed.

Definition solid_spec (e : solid_entry) : Prop :=
  let '(_, (n, touch, anyp, grid, core, shell)) := e in
  exists c g, core = Some c /\ grid = Some g /\
  lists_range n (c ++ shell) /\
  (forall o, In o shell -> nth o touch false = true) /\
  (forall o, In o c -> nth o anyp true = false) /\
  lists_range n (concat g).

Lemma solid_ok_spec e : solid_ok e = true -> solid_spec e.
Proof.
  destruct e as [name [[[[[n touch] anyp] grid] core] shell]].
  unfold solid_ok, solid_spec. destruct core as [c|]; [|discriminate]. destruct grid as [g|]; [|discriminate].
  cbv zeta. intro H. repeat (apply andb_true_iff in H; destruct H as [H ?]).
  exists c, g. split; [reflexivity|]. split; [reflexivity|].
  split; [apply perm_of_range_spec; unfold perm_of_range; rewrite H, H4, H3; reflexivity|].
  split; [intros o Ho; rewrite forallb_forall in H2; apply H2; exact Ho|].
  split; [intros o Ho; rewrite forallb_forall in H1; apply negb_true_iff; apply H1; exact Ho|].
  apply perm_of_range_spec; assumption.
Qed.
