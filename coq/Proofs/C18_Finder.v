(** C18 - lemmas about the finder models. *)
From Coq Require Import Reals Lra Psatz List Bool ZArith Lia.
From CB Require Import Base.Vec3 Model.C18_Finder Model.C18_RoundSpec.
Import ListNotations.

(** * Real part *)
Open Scope R_scope.

Lemma Rltb_true_iff a b : Rltb a b = true <-> a < b.
Proof. unfold Rltb. destruct (Rlt_dec a b); split; intros; auto; try discriminate; contradiction. Qed.

Lemma Rltb_false_iff a b : Rltb a b = false <-> b <= a.
Proof. unfold Rltb. destruct (Rlt_dec a b); split; intros; auto; try discriminate; lra. Qed.

Lemma Rltb_true a b : a < b -> Rltb a b = true.
Proof. apply Rltb_true_iff. Qed.

Lemma Rltb_false a b : b <= a -> Rltb a b = false.
Proof. apply Rltb_false_iff. Qed.

(** the Euclidean distance written out in coordinates: the specification side *)
Definition dist (a b : vec) : R :=
  sqrt ((vx a - vx b) * (vx a - vx b) + (vy a - vy b) * (vy a - vy b) + (vz a - vz b) * (vz a - vz b)).

Lemma norm_vsub_dist a b : norm (vsub a b) = dist a b.
Proof. unfold norm, dist. f_equal. Qed.

Lemma dist_sym a b : dist a b = dist b a.
Proof. unfold dist. f_equal. ring. Qed.

(** ** sphere *)
Lemma find_by_position_spec tol vs p radius v :
  In v (find_by_position tol vs p radius) <->
  In v vs /\ dist v p < match radius with Some r => r | None => tol end.
Proof.
  unfold find_by_position. rewrite filter_In. unfold in_sphere_b.
  rewrite Rltb_true_iff, norm_vsub_dist. reflexivity.
Qed.

Lemma find_by_position_sublist tol vs p radius :
  exists mask, length mask = length vs /\
    find_by_position tol vs p radius = map fst (filter snd (combine vs mask)).
Proof.
  unfold find_by_position. set (f := in_sphere_b p _). exists (map f vs). split.
  - apply map_length.
  - induction vs as [|x l IH]; simpl; [reflexivity|]. destruct (f x); simpl; rewrite IH; reflexivity.
Qed.

(** monotone in the radius *)
Lemma find_by_position_mono tol vs p r1 r2 v :
  r1 <= r2 -> In v (find_by_position tol vs p (Some r1)) -> In v (find_by_position tol vs p (Some r2)).
Proof. rewrite !find_by_position_spec. intros H [H1 H2]. split; [assumption|lra]. Qed.

(** ** Cauchy-Schwarz *)
Lemma cauchy_schwarz_sq a b : dot a b * dot a b <= norm2 a * norm2 b.
Proof. pose proof (lagrange a b) as L. pose proof (norm2_nonneg (cross a b)). lra. Qed.

Lemma Rabs_sq_le x y : 0 <= y -> x * x <= y * y -> Rabs x <= y.
Proof.
  intros Hy H. unfold Rabs. destruct (Rcase_abs x); nra.
Qed.

Lemma cauchy_schwarz a b : Rabs (dot a b) <= norm a * norm b.
Proof.
  apply Rabs_sq_le.
  - apply Rmult_le_pos; apply norm_nonneg.
  - replace (norm a * norm b * (norm a * norm b)) with ((norm a * norm a) * (norm b * norm b)) by ring.
    rewrite !norm_sq. apply cauchy_schwarz_sq.
Qed.

Lemma norm_pos_of_norm2 v : 0 < norm2 v -> 0 < norm v.
Proof. intros H. unfold norm. apply sqrt_lt_R0. exact H. Qed.

Lemma norm_vsub_sym a b : norm (vsub a b) = norm (vsub b a).
Proof. rewrite !norm_vsub_dist. apply dist_sym. Qed.

Lemma dot_unit_vector a n : 0 < norm n -> dot a (unit_vector n) = dot a n / norm n.
Proof. intros H. unfold unit_vector. vec_simpl. field. lra. Qed.

(** ** plane: the specification is the distance to the plane through [o] with normal [n] *)
Definition plane_dist (o n v : vec) : R := Rabs (dot (vsub v o) n) / norm n.

Lemma plane_dist_le_dist o n v : 0 < norm n -> plane_dist o n v <= norm (vsub v o).
Proof.
  intros Hn. unfold plane_dist. apply Rmult_le_reg_r with (norm n); [exact Hn|].
  unfold Rdiv. rewrite Rmult_assoc, Rinv_l by lra. rewrite Rmult_1_r. apply cauchy_schwarz.
Qed.

Lemma point_to_plane_distance_far tol o n v :
  0 < norm n -> tol <= norm (vsub o v) -> point_to_plane_distance tol o n v = plane_dist o n v.
Proof.
  intros Hn H. unfold point_to_plane_distance. rewrite Rltb_false by exact H.
  rewrite dot_unit_vector by exact Hn. unfold plane_dist, Rdiv.
  rewrite Rabs_mult. f_equal. apply Rabs_pos_eq. left. apply Rinv_0_lt_compat. exact Hn.
Qed.

(** the branch for coincident points does not change the verdict *)
Lemma is_point_on_plane_spec tol o n v :
  0 < norm n -> (is_point_on_plane tol o n v = true <-> plane_dist o n v < tol).
Proof.
  intros Hn. unfold is_point_on_plane. rewrite Rltb_true_iff.
  destruct (Rlt_dec (norm (vsub o v)) tol) as [Hc|Hf].
  - unfold point_to_plane_distance. rewrite (Rltb_true _ _ Hc). split; intros _; [|exact Hc].
    apply Rle_lt_trans with (norm (vsub v o)); [apply plane_dist_le_dist; exact Hn|].
    rewrite norm_vsub_sym. exact Hc.
  - rewrite point_to_plane_distance_far; [reflexivity|exact Hn|lra].
Qed.

Lemma find_on_plane_spec tol vs o n v :
  0 < norm n -> (In v (find_on_plane tol vs o n) <-> In v vs /\ plane_dist o n v < tol).
Proof.
  intros Hn. unfold find_on_plane. rewrite filter_In. rewrite (is_point_on_plane_spec tol o n v Hn). reflexivity.
Qed.

(** the plane does not depend on the length or the sign of the normal ... *)
Lemma plane_dist_scale o n v k : k <> 0 -> 0 < norm n -> plane_dist o (vscale k n) v = plane_dist o n v.
Proof.
  intros Hk Hn. unfold plane_dist. rewrite norm_scale.
  replace (dot (vsub v o) (vscale k n)) with (k * dot (vsub v o) n) by (vec_simpl; ring).
  rewrite Rabs_mult. field. split; [lra|]. apply Rabs_no_R0. exact Hk.
Qed.

(** ... nor on which of its points is taken as origin *)
Lemma plane_dist_origin o o' n v : dot (vsub o' o) n = 0 -> plane_dist o' n v = plane_dist o n v.
Proof.
  intros H. unfold plane_dist. f_equal. f_equal.
  replace (dot (vsub v o') n) with (dot (vsub v o) n - dot (vsub o' o) n) by (vec_simpl; ring).
  rewrite H. ring.
Qed.

Lemma find_on_plane_scale tol vs o n k v :
  k <> 0 -> 0 < norm n ->
  (In v (find_on_plane tol vs o (vscale k n)) <-> In v (find_on_plane tol vs o n)).
Proof.
  intros Hk Hn.
  assert (Hkn : 0 < norm (vscale k n)).
  { rewrite norm_scale. apply Rmult_lt_0_compat; [apply Rabs_pos_lt; exact Hk|exact Hn]. }
  rewrite !find_on_plane_spec by assumption. rewrite plane_dist_scale by assumption. reflexivity.
Qed.

(** ** the square-root free comparison used by the rational model *)
Lemma norm_lt_iff_sq a r : 0 < r -> (norm a < r <-> norm2 a < r * r).
Proof.
  intros Hr. pose proof (norm_nonneg a) as Hn. pose proof (norm_sq a) as Hs. split; intros H.
  - rewrite <- Hs. nra.
  - destruct (Rlt_dec (norm a) r) as [|Hge]; [assumption|]. exfalso. nra.
Qed.

(** the final forms used by Properties/C18.v *)
Lemma norm_pos_nonzero n : n <> vzero -> 0 < norm n.
Proof.
  intros H. apply norm_pos_of_norm2. destruct n as [[x y] z]. vec_simpl.
  destruct (Req_dec x 0) as [Hx|Hx]; [|nra]. destruct (Req_dec y 0) as [Hy|Hy]; [|nra].
  destruct (Req_dec z 0) as [Hz|Hz]; [|nra]. exfalso. apply H. subst. reflexivity.
Qed.

Lemma find_on_plane_exact tol vs o n v : n <> vzero ->
  (In v (find_on_plane tol vs o n) <-> In v vs /\ Rabs (dot (vsub v o) n) / norm n < tol).
Proof. intros Hn. exact (find_on_plane_spec tol vs o n v (norm_pos_nonzero n Hn)). Qed.

Lemma find_on_plane_invariant tol vs o o' n v k : n <> vzero -> k <> 0 -> dot (vsub o' o) n = 0 ->
  (In v (find_on_plane tol vs o' (vscale k n)) <-> In v (find_on_plane tol vs o n)).
Proof.
  intros Hn Hk Ho. pose proof (norm_pos_nonzero n Hn) as Hp.
  rewrite (find_on_plane_scale tol vs o' n k v Hk Hp).
  rewrite !find_on_plane_spec by exact Hp. rewrite (plane_dist_origin o o' n v Ho). reflexivity.
Qed.

(** * Integer part *)
Open Scope Z_scope.

Lemma found_from_points_spec T points v :
  found_from_points T points v = true <-> exists p, In p points /\ zdist2 v p < T * T.
Proof.
  unfold found_from_points. rewrite existsb_exists. unfold znear.
  split; intros [p [Hp H]]; exists p; (split; [exact Hp|]); apply Z.ltb_lt; exact H.
Qed.

Lemma found_from_faces_spec T faces v :
  found_from_faces T faces v = true <->
  exists f p, In f faces /\ In p f /\ zdist2 v p < T * T.
Proof.
  unfold found_from_faces. rewrite existsb_exists. split.
  - intros [f [Hf H]]. apply found_from_points_spec in H. destruct H as [p [Hp H]]. exists f, p. auto.
  - intros [f [p [Hf [Hp H]]]]. exists f. split; [exact Hf|]. apply found_from_points_spec. exists p. auto.
Qed.

Lemma select_idx_spec {A} (f : A -> bool) (l : list A) : forall k i,
  In i (select_idx f l k) <-> exists x, (k <= i)%nat /\ nth_error l (i - k) = Some x /\ f x = true.
Proof.
  induction l as [|a l IH]; intros k i; simpl.
  - split; [intros []|]. intros [x [_ [H _]]]. destruct (i - k)%nat; discriminate.
  - assert (Hrec : In i (select_idx f l (S k)) <->
                   exists x, (k <= i)%nat /\ i <> k /\ nth_error l (i - S k) = Some x /\ f x = true).
    { rewrite IH. split.
      - intros [x [Hk H]]. exists x. repeat split; try lia; apply H.
      - intros [x [Hk [Hne H]]]. exists x. split; [lia|exact H]. }
    destruct (f a) eqn:Fa; simpl; [|]; rewrite Hrec; clear Hrec IH.
    + split.
      * intros [Hi | [x [Hk [Hne [Hn Hf]]]]].
        -- subst. exists a. rewrite Nat.sub_diag. simpl. auto.
        -- exists x. split; [exact Hk|]. replace (i - k)%nat with (S (i - S k)) by lia. simpl. auto.
      * intros [x [Hk [Hn Hf]]]. destruct (Nat.eq_dec i k) as [->|Hne]; [left; reflexivity|right].
        exists x. repeat split; auto. replace (i - k)%nat with (S (i - S k)) in Hn by lia. exact Hn.
    + split.
      * intros [x [Hk [Hne [Hn Hf]]]]. exists x. split; [exact Hk|].
        replace (i - k)%nat with (S (i - S k)) by lia. simpl. auto.
      * intros [x [Hk [Hn Hf]]]. destruct (Nat.eq_dec i k) as [->|Hne].
        -- rewrite Nat.sub_diag in Hn. simpl in Hn. congruence.
        -- exists x. repeat split; auto. replace (i - k)%nat with (S (i - S k)) in Hn by lia. exact Hn.
Qed.

(** exactness of the model of the round finder: index [i] is returned iff vertex [i] exists and is
    within [T] of a point of a face of the given group *)
Lemma find_core_spec T vs core i :
  In i (find_core T vs core) <->
  exists v, nth_error vs i = Some v /\ exists f p, In f core /\ In p f /\ zdist2 v p < T * T.
Proof.
  unfold find_core. rewrite select_idx_spec. split.
  - intros [x [_ [Hn Hf]]]. rewrite Nat.sub_0_r in Hn. exists x. split; [exact Hn|]. apply found_from_faces_spec. exact Hf.
  - intros [v [Hn Hf]]. exists v. rewrite Nat.sub_0_r. repeat split; [lia|exact Hn|]. apply found_from_faces_spec. exact Hf.
Qed.

Lemma find_shell_spec T vs core shell i :
  In i (find_shell T vs core shell) <->
  exists v, nth_error vs i = Some v
    /\ (exists f p, In f shell /\ In p f /\ zdist2 v p < T * T)
    /\ ~ (exists f p, In f core /\ In p f /\ zdist2 v p < T * T).
Proof.
  unfold find_shell. rewrite select_idx_spec. split.
  - intros [x [_ [Hn Hf]]]. rewrite Nat.sub_0_r in Hn. exists x. split; [exact Hn|].
    apply andb_true_iff in Hf. destruct Hf as [H1 H2]. apply negb_true_iff in H2. split.
    + apply found_from_faces_spec. exact H1.
    + intros H. apply found_from_faces_spec in H. congruence.
  - intros [v [Hn [H1 H2]]]. exists v. rewrite Nat.sub_0_r. repeat split; [lia|exact Hn|].
    apply andb_true_iff. split.
    + apply found_from_faces_spec. exact H1.
    + apply negb_true_iff. destruct (found_from_faces T core v) eqn:E; [|reflexivity].
      exfalso. apply H2. apply found_from_faces_spec. exact E.
Qed.

(** shell and core are disjoint, and the shell result is the set difference *)
Lemma find_shell_core_disjoint T vs core shell i :
  In i (find_shell T vs core shell) -> ~ In i (find_core T vs core).
Proof.
  rewrite find_shell_spec, find_core_spec. intros [v [Hn [_ H2]]] [v' [Hn' H]]. rewrite Hn in Hn'.
  inversion Hn'. subst. contradiction.
Qed.

Lemma find_shell_is_difference T vs core shell i :
  In i (find_shell T vs core shell) <-> In i (find_core T vs shell) /\ ~ In i (find_core T vs core).
Proof.
  rewrite find_shell_spec, !find_core_spec. split.
  - intros [v [Hn [H1 H2]]]. split; [exists v; auto|]. intros [v' [Hn' H]]. rewrite Hn in Hn'. inversion Hn'. subst. contradiction.
  - intros [[v [Hn H1]] H2]. exists v. repeat split; auto. intros H. apply H2. exists v. auto.
Qed.

Lemma round_model_exact T vs core shell i :
  (In i (find_core T vs core) <->
     exists v, nth_error vs i = Some v /\ exists f p, In f core /\ In p f /\ zdist2 v p < T * T)
  /\ (In i (find_shell T vs core shell) <-> In i (find_core T vs shell) /\ ~ In i (find_core T vs core)).
Proof. split; [apply find_core_spec|apply find_shell_is_difference]. Qed.

(** ** the integer comparison is the comparison of real distances: with the unit [u > 0] and
    [TOL = T u > 0], [|v - p|^2 < T^2] on the mantissas iff [dist v p < TOL] on the points *)
Lemma norm2_zR u a b : norm2 (vsub (zR u a) (zR u b)) = (IZR (zdist2 a b) * (u * u))%R.
Proof.
  destruct a as [[a1 a2] a3], b as [[b1 b2] b3]. unfold zdist2, zsub, zdot, zR.
  rewrite !plus_IZR, !mult_IZR, !minus_IZR. vec_simpl. ring.
Qed.

Lemma znear_real u T p v : (0 < u)%R -> 0 < T ->
  (zdist2 v p < T * T <-> (dist (zR u v) (zR u p) < IZR T * u)%R).
Proof.
  intros Hu HT. rewrite <- norm_vsub_dist.
  assert (HTu : (0 < IZR T * u)%R) by (apply Rmult_lt_0_compat; [apply IZR_lt; exact HT|exact Hu]).
  rewrite (norm_lt_iff_sq _ _ HTu), norm2_zR.
  replace (IZR T * u * (IZR T * u))%R with (IZR (T * T) * (u * u))%R by (rewrite mult_IZR; ring).
  assert (Huu : (0 < u * u)%R) by nra. split; intros H.
  - apply Rmult_lt_compat_r; [exact Huu|]. apply IZR_lt. exact H.
  - apply lt_IZR. apply Rmult_lt_reg_r with (u * u)%R; assumption.
Qed.

(** ** a cheaper evaluator: a coordinate difference of at least [T] decides "not near" without any
    multiplication.  It is equal to the model, so the finite checks may use it. *)
Definition znear_fast (T : Z) (p v : zvec) : bool :=
  let '(a, b, c) := zsub v p in
  if (T <=? Z.abs a) || (T <=? Z.abs b) || (T <=? Z.abs c) then false else znear T p v.

Lemma znear_fast_eq T p v : 0 < T -> znear_fast T p v = znear T p v.
Proof.
  intros HT. unfold znear_fast, znear, zdist2. destruct (zsub v p) as [[a b] c]. unfold zdot.
  destruct ((T <=? Z.abs a) || (T <=? Z.abs b) || (T <=? Z.abs c)) eqn:E; [|reflexivity].
  symmetry. apply Z.ltb_ge.
  assert (Ha : 0 <= a * a) by nia. assert (Hb : 0 <= b * b) by nia. assert (Hc : 0 <= c * c) by nia.
  apply orb_true_iff in E. destruct E as [E|E]; [apply orb_true_iff in E; destruct E as [E|E]|];
    apply Z.leb_le in E; nia.
Qed.

Definition found_from_faces_fast (T : Z) (faces : list (list zvec)) (v : zvec) : bool :=
  existsb (fun f => existsb (fun p => znear_fast T p v) f) faces.

Lemma existsb_ext {A} (f g : A -> bool) l : (forall x, f x = g x) -> existsb f l = existsb g l.
Proof. intros H. induction l as [|x l IH]; simpl; [reflexivity|]. rewrite H, IH. reflexivity. Qed.

Lemma select_idx_ext {A} (f g : A -> bool) l : (forall x, f x = g x) -> forall k, select_idx f l k = select_idx g l k.
Proof. intros H. induction l as [|x l IH]; intros k; simpl; [reflexivity|]. rewrite H, !IH. reflexivity. Qed.

Lemma found_from_faces_fast_eq T faces v : 0 < T -> found_from_faces_fast T faces v = found_from_faces T faces v.
Proof.
  intros HT. unfold found_from_faces_fast, found_from_faces, found_from_points.
  apply existsb_ext. intros f. apply existsb_ext. intros p. apply znear_fast_eq. exact HT.
Qed.

Definition rc_model_ok_fast (c : round_case) : bool :=
  (0 <? rc_tol c)
  && nat_list_eqb (select_idx (found_from_faces_fast (rc_tol c) (rc_core c)) (rc_verts c) 0) (rc_found_core c)
  && nat_list_eqb (select_idx (fun v => found_from_faces_fast (rc_tol c) (rc_shell c) v
                                        && negb (found_from_faces_fast (rc_tol c) (rc_core c) v)) (rc_verts c) 0)
                  (rc_found_shell c).

Lemma rc_model_ok_fast_sound c : rc_model_ok_fast c = true -> 0 < rc_tol c /\ rc_model_ok c = true.
Proof.
  unfold rc_model_ok_fast, rc_model_ok, find_core, find_shell. intros H.
  apply andb_true_iff in H. destruct H as [H H2]. apply andb_true_iff in H. destruct H as [HT H1].
  apply Z.ltb_lt in HT. split; [exact HT|].
  rewrite (select_idx_ext _ (found_from_faces_fast (rc_tol c) (rc_core c))), H1
    by (intros x; symmetry; apply found_from_faces_fast_eq; exact HT).
  rewrite (select_idx_ext _ (fun v => found_from_faces_fast (rc_tol c) (rc_shell c) v
                                      && negb (found_from_faces_fast (rc_tol c) (rc_core c) v))), H2
    by (intros x; rewrite !found_from_faces_fast_eq by exact HT; reflexivity).
  reflexivity.
Qed.

Lemma nat_list_eqb_eq a : forall b, nat_list_eqb a b = true -> a = b.
Proof.
  unfold nat_list_eqb. induction a as [|x a IH]; intros [|y b] H; simpl in *; try reflexivity; try discriminate.
  apply andb_true_iff in H. destruct H as [Hl H]. apply andb_true_iff in H. destruct H as [Hx H].
  apply Nat.eqb_eq in Hx. subst. f_equal. apply IH. rewrite Hl. exact H.
Qed.

(** everything one table row is checked for, as one boolean, and what it means *)
Definition rc_row_ok (tol_m tol_e : Z) (c : round_case) : bool :=
  rc_model_ok_fast c && rc_spec_ok c && (3 <=? length (rc_found_shell c))%nat
  && (tol_e <=? rc_exp c) && (rc_tol c =? tol_m * 2 ^ (rc_exp c - tol_e)).

Lemma rc_row_ok_sound tol_m tol_e c : rc_row_ok tol_m tol_e c = true ->
  find_core (rc_tol c) (rc_verts c) (rc_core c) = rc_found_core c
  /\ find_shell (rc_tol c) (rc_verts c) (rc_core c) (rc_shell c) = rc_found_shell c
  /\ select_idx (is_inner (rc_center c) (rc_normal c) (rc_radius c)) (rc_verts c) 0 = rc_found_core c
  /\ select_idx (is_rim (rc_center c) (rc_normal c) (rc_radius c)) (rc_verts c) 0 = rc_found_shell c
  /\ (3 <= length (rc_found_shell c))%nat
  /\ 0 < rc_tol c /\ tol_e <= rc_exp c /\ rc_tol c = tol_m * 2 ^ (rc_exp c - tol_e).
Proof.
  unfold rc_row_ok. intros H.
  apply andb_true_iff in H. destruct H as [H Ht]. apply andb_true_iff in H. destruct H as [H He].
  apply andb_true_iff in H. destruct H as [H Hn]. apply andb_true_iff in H. destruct H as [Hm Hs].
  apply rc_model_ok_fast_sound in Hm. destruct Hm as [HT Hm].
  unfold rc_model_ok in Hm. apply andb_true_iff in Hm. destruct Hm as [Hm1 Hm2].
  unfold rc_spec_ok in Hs. apply andb_true_iff in Hs. destruct Hs as [Hs1 Hs2].
  apply nat_list_eqb_eq in Hm1, Hm2, Hs1, Hs2. apply Nat.leb_le in Hn. apply Z.leb_le in He. apply Z.eqb_eq in Ht.
  repeat split; assumption.
Qed.
