(** C16 - the exact distance from a query point to a piecewise-linear curve (certificate of the closest-parameter
    query on linear-interpolated curves). *)
From Coq Require Import QArith Qreals Reals ZArith List Bool Arith Lia Lra Psatz.
From CB Require Import Base.Vec3 Model.C16_Curves Model.C16_CurvesQ Proofs.C16_Curves Proofs.C16_Length Proofs.C16_Edge
  Proofs.C16_QSound.
Import ListNotations.
Open Scope R_scope.

(** squared version of [line_closest_opt] *)
Lemma line_closest_opt2 p1 p2 lo hi q t :
  0 < norm2 (vsub p2 p1) -> lo <= hi -> lo <= t <= hi ->
  norm2 (vsub (line_point p1 p2 (line_topt p1 p2 lo hi q)) q) <= norm2 (vsub (line_point p1 p2 t) q).
Proof.
  intros HA Hlh Ht.
  pose proof (line_closest_opt p1 p2 lo hi q t HA Hlh Ht) as H. unfold dist, norm in H.
  apply sqrt_le_0 in H; [exact H|apply norm2_nonneg|apply norm2_nonneg].
Qed.

(** squared distance from [q] to the segment [p0, p1] and to a polyline *)
Definition seg_mind2 (p0 p1 q : vec) : R := norm2 (vsub (line_point p0 p1 (line_topt p0 p1 0 1 q)) q).
Fixpoint pl_mind2 (l : list vec) (q : vec) : option R :=
  match l with
  | [] => None
  | a :: t =>
      match t with
      | [] => None
      | b :: _ => match pl_mind2 t q with
                  | None => Some (seg_mind2 a b q)
                  | Some m => Some (Rmin (seg_mind2 a b q) m)
                  end
      end
  end.
Fixpoint distinct_consecutive (l : list vec) : Prop :=
  match l with
  | [] => True
  | a :: t => match t with [] => True | b :: _ => 0 < norm2 (vsub b a) /\ distinct_consecutive t end
  end.

Lemma pl_mind2_cons a b t q :
  pl_mind2 (a :: b :: t) q = match pl_mind2 (b :: t) q with
                             | None => Some (seg_mind2 a b q)
                             | Some m => Some (Rmin (seg_mind2 a b q) m)
                             end.
Proof. reflexivity. Qed.

Lemma seg_point_line t0 t1 p0 p1 t : seg_point t0 t1 p0 p1 t = line_point p0 p1 ((t - t0) / (t1 - t0)).
Proof. reflexivity. Qed.

(** no point of the curve is nearer to [q] than [pl_mind2] says *)
Lemma pl_mind2_opt : forall ts ps q t m2,
  incr ts -> length ps = length ts -> (2 <= length ts)%nat -> distinct_consecutive ps ->
  hd 0 ts <= t <= last ts 0 -> pl_mind2 ps q = Some m2 ->
  m2 <= norm2 (vsub (lin_point ts ps t) q).
Proof.
  induction ts as [|t0 ts IH]; intros ps q t m2 Hinc Hlen H2 Hd Ht Hm; [simpl in H2; lia|].
  destruct ts as [|t1 ts]; [simpl in H2; lia|].
  destruct ps as [|p0 [|p1 ps]]; try (simpl in Hlen; lia).
  destruct Hd as [Hd01 Hd]. assert (H01 : t0 < t1) by (destruct Hinc; assumption).
  cbn [hd] in Ht. rewrite pl_mind2_cons in Hm.
  assert (Hseg : t <= t1 -> seg_mind2 p0 p1 q <= norm2 (vsub (lin_point (t0 :: t1 :: ts) (p0 :: p1 :: ps) t) q)).
  { intros Hle. rewrite lin_point_first by exact Hle. rewrite seg_point_line. unfold seg_mind2.
    apply line_closest_opt2; [exact Hd01|lra|]. apply quot_mid; lra. }
  destruct ts as [|t2 ts].
  - destruct ps; [|simpl in Hlen; lia]. simpl in Hm. inversion Hm; subst. apply Hseg. simpl in Ht. lra.
  - destruct ps as [|p2 ps]; [simpl in Hlen; lia|].
    change (last (t0 :: t1 :: t2 :: ts) 0) with (last (t1 :: t2 :: ts) 0) in Ht.
    assert (Hinc' : incr (t1 :: t2 :: ts)) by (eapply incr_tail; exact Hinc).
    destruct (Rle_dec t t1) as [Hle|Hgt].
    + specialize (Hseg Hle). destruct (pl_mind2 (p1 :: p2 :: ps) q) as [m|]; inversion Hm; subst; [|exact Hseg].
      eapply Rle_trans; [apply Rmin_l|exact Hseg].
    + rewrite lin_point_tail by (try exact Hinc; lra).
      destruct (pl_mind2 (p1 :: p2 :: ps) q) as [m|] eqn:E.
      * inversion Hm; subst. eapply Rle_trans; [apply Rmin_r|].
        apply (IH (p1 :: p2 :: ps) q t m Hinc'); try assumption; try (simpl in *; lia). cbn [hd]; split; lra.
      * exfalso. rewrite pl_mind2_cons in E. destruct (pl_mind2 (p2 :: ps) q); discriminate.
Qed.

(** the rational evaluator computes it *)
Fixpoint qdistinct_consecutive (l : list qvec) : Prop :=
  match l with
  | [] => True
  | a :: t => match t with [] => True | b :: _ => (0 < qn2 (qvsub b a))%Q /\ qdistinct_consecutive t end
  end.

Lemma Q2R_qn2 a : Q2R (qn2 a) = norm2 (q2v a).
Proof. unfold qn2, norm2. apply Q2R_qdot. Qed.

Lemma qseg_mind2_sound p0 p1 q : (0 < qn2 (qvsub p1 p0))%Q ->
  Q2R (qseg_mind2 p0 p1 q) = seg_mind2 (q2v p0) (q2v p1) (q2v q).
Proof.
  intros Hn. unfold qseg_mind2, seg_mind2. cbv zeta.
  assert (E : Qle_bool (qn2 (qvsub p1 p0)) 0 = false).
  { destruct (Qle_bool (qn2 (qvsub p1 p0)) 0) eqn:E; [|reflexivity]. apply Qle_bool_iff in E.
    exfalso. apply (Qlt_not_le _ _ Hn). exact E. }
  rewrite E. rewrite Q2R_qd2, q2v_add, q2v_scale, q2v_sub.
  change (qclamp 0 1 (qdot (qvsub q p0) (qvsub p1 p0) / qn2 (qvsub p1 p0))) with (qline_topt p0 p1 0 1 q).
  rewrite qline_topt_sound.
  - rewrite Q2R_zero. replace (Q2R 1) with 1 by (unfold Q2R; simpl; field). reflexivity.
  - intros Hz. rewrite Hz in Hn. apply (Qlt_irrefl 0). exact Hn.
  - discriminate.
Qed.

Lemma qpl_mind2_sound : forall l q, qdistinct_consecutive l ->
  pl_mind2 (map q2v l) (q2v q) = option_map Q2R (qpl_mind2 l q).
Proof.
  induction l as [|a [|b t] IH]; intros q Hd; try reflexivity.
  destruct Hd as [Hab Hd].
  change (map q2v (a :: b :: t)) with (q2v a :: q2v b :: map q2v t). rewrite pl_mind2_cons.
  change (q2v b :: map q2v t) with (map q2v (b :: t)). rewrite (IH q Hd).
  change (qpl_mind2 (a :: b :: t) q) with
    (match qpl_mind2 (b :: t) q with
     | None => Some (qseg_mind2 a b q)
     | Some m => Some (qmin (qseg_mind2 a b q) m)
     end).
  destruct (qpl_mind2 (b :: t) q) as [m|]; cbn [option_map]; rewrite ?Q2R_qmin, qseg_mind2_sound by exact Hab; reflexivity.
Qed.

Lemma qdistinct_sound : forall l, qdistinct_consecutive l -> distinct_consecutive (map q2v l).
Proof.
  induction l as [|a [|b t] IH]; intros H; try exact I.
  destruct H as [Hab H]. split; [|apply IH; exact H].
  rewrite <- q2v_sub, <- Q2R_qn2. apply Qlt_Rlt in Hab. rewrite Q2R_zero in Hab. exact Hab.
Qed.

(** what a passed polyline certificate means: the implementation's point [x] is at most [tol] farther from the query
    than every point of the linear-interpolated curve *)
Theorem qpl_certificate ts pts q x tol m2 t :
  qincr ts -> length pts = length ts -> (2 <= length ts)%nat -> qdistinct_consecutive pts ->
  qpl_mind2 pts q = Some m2 -> qnot_farther tol x q m2 = true ->
  hd 0 (map Q2R ts) <= t <= last (map Q2R ts) 0 ->
  dist (q2v x) (q2v q) <= dist (lin_point (map Q2R ts) (map q2v pts) t) (q2v q) + Q2R tol.
Proof.
  intros Hinc Hlen H2 Hd Hm Hn Ht.
  apply qnot_farther_sound in Hn. eapply Rle_trans; [exact Hn|]. apply Rplus_le_compat_r.
  unfold dist, norm. apply sqrt_le_1_alt.
  apply (pl_mind2_opt (map Q2R ts) (map q2v pts) (q2v q) t (Q2R m2)).
  - apply qincr_incr. exact Hinc.
  - rewrite !map_length. exact Hlen.
  - rewrite map_length. exact H2.
  - apply qdistinct_sound. exact Hd.
  - exact Ht.
  - rewrite qpl_mind2_sound by exact Hd. rewrite Hm. reflexivity.
Qed.

(** ** circle curve: [circle_lb] is a lower bound of the squared distance from the query to every point of the circle *)
Ltac cc_cbv := cbv [circle_point_k rodrigues circle_centre circle_u circle_w norm2 dot cross vadd vsub vscale vx vy vz fst snd].

Lemma circle_expand o rim k q c s :
  let P := vadd o (vadd (vadd (vscale c (vsub rim o)) (vscale s (cross k (vsub rim o))))
                        (vscale (dot k (vsub rim o) * (1 - c)) k)) in
  let ce := circle_centre o rim k in
  let u := circle_u o rim k in
  let w := circle_w o rim k in
  norm2 (vsub P q)
  = norm2 (vsub ce q) + c * c * norm2 u + s * s * norm2 w + 2 * c * s * dot u w
    - 2 * (c * dot (vsub q ce) u + s * dot (vsub q ce) w).
Proof.
  destruct o as [[o1 o2] o3], rim as [[r1 r2] r3], k as [[k1 k2] k3], q as [[q1 q2] q3].
  cbv zeta. cc_cbv. ring.
Qed.

Lemma circle_uw o rim k : dot (circle_u o rim k) (circle_w o rim k) = 0.
Proof. destruct o as [[o1 o2] o3], rim as [[r1 r2] r3], k as [[k1 k2] k3]. cc_cbv. ring. Qed.

Lemma circle_w_u o rim k : norm2 k = 1 -> norm2 (circle_w o rim k) = norm2 (circle_u o rim k).
Proof.
  intros Hk.
  assert (E : norm2 (circle_w o rim k) - norm2 (circle_u o rim k)
              = (norm2 k - 1) * (norm2 (vsub rim o) - dot k (vsub rim o) * dot k (vsub rim o))).
  { destruct o as [[o1 o2] o3], rim as [[r1 r2] r3], k as [[k1 k2] k3]. cc_cbv. ring. }
  rewrite Hk in E. lra.
Qed.

Lemma cs_bound a b c s : c * c + s * s = 1 -> a * c + b * s <= sqrt (a * a + b * b).
Proof.
  intros H. apply Rle_trans with (Rabs (a * c + b * s)); [apply Rle_abs|].
  rewrite <- sqrt_Rsqr_abs. apply sqrt_le_1_alt. unfold Rsqr.
  assert (E : a * a + b * b - (a * c + b * s) * (a * c + b * s) = (a * s - b * c) * (a * s - b * c) + (a * a + b * b) * (1 - (c * c + s * s))) by ring.
  rewrite H in E. pose proof (Rle_0_sqr (a * s - b * c)) as S. unfold Rsqr in S. lra.
Qed.

Lemma circle_lb_le o rim k q t : norm2 k = 1 ->
  circle_lb o rim k q <= norm2 (vsub (circle_point_k o rim k t) q).
Proof.
  intros Hk. unfold circle_point_k, rodrigues.
  pose proof (circle_expand o rim k q (cos t) (sin t)) as E. cbv zeta in E. rewrite E.
  rewrite circle_uw, (circle_w_u o rim k Hk). unfold circle_lb. cbv zeta.
  set (ce := circle_centre o rim k). set (u := circle_u o rim k). set (w := circle_w o rim k).
  assert (H1 : cos t * cos t + sin t * sin t = 1).
  { pose proof (sin2_cos2 t) as H. unfold Rsqr in H. lra. }
  pose proof (cs_bound (dot (vsub q ce) u) (dot (vsub q ce) w) (cos t) (sin t) H1) as Hb.
  set (a := dot (vsub q ce) u) in *. set (b := dot (vsub q ce) w) in *.
  set (U := norm2 u). set (N := norm2 (vsub ce q)).
  assert (E2 : N + cos t * cos t * U + sin t * sin t * U + 2 * cos t * sin t * 0 - 2 * (cos t * a + sin t * b)
               = N + (cos t * cos t + sin t * sin t) * U - 2 * (a * cos t + b * sin t)) by ring.
  rewrite E2, H1. lra.
Qed.

(** hence the distance of the implementation's result to the query exceeds the distance to the nearest point of
    the whole circle by at most [circle_defect] *)
Lemma circle_defect_opt o rim k q r t : norm2 k = 1 ->
  dist (circle_point_k o rim k r) q <= dist (circle_point_k o rim k t) q + circle_defect o rim k q r.
Proof.
  intros Hk. unfold circle_defect.
  assert (sqrt (circle_lb o rim k q) <= dist (circle_point_k o rim k t) q).
  { unfold dist, norm. apply sqrt_le_1_alt. apply circle_lb_le. exact Hk. }
  lra.
Qed.
