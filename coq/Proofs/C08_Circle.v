(** C08 - arc_length_3point on an analytic circle.

    A circle is given by its centre [c], radius [rad > 0] and an orthonormal pair [u], [v] spanning its plane;
    [cpt c rad u v t] is the point at angle [t].  For three points at angles 0 < psi < phi < 2 pi the centre
    computed by the code is [c] and the value of arc_length_3point is rad * phi when psi < pi, and
    rad * (2 pi - phi) when psi >= pi (the sign test of the code, transcribed from blockMesh, then picks the
    complementary arc). *)
From Coq Require Import Reals Lra Psatz List.
From CB Require Import Base.Vec3 Model.C08_Arcs Proofs.C08_Theta Proofs.C08_Chord Proofs.C08_ThreePoint.
Open Scope R_scope.

Definition lin (u v : vec) (x y : R) : vec := vadd (vscale x u) (vscale y v).
Definition onb (u v : vec) : Prop := dot u u = 1 /\ dot v v = 1 /\ dot u v = 0.
Definition cpt (c : vec) (rad : R) (u v : vec) (t : R) : vec := vadd c (vscale rad (lin u v (cos t) (sin t))).

Ltac d2 u v := destruct u as [[? ?] ?], v as [[? ?] ?].
Ltac d3 u v w := destruct u as [[? ?] ?], v as [[? ?] ?], w as [[? ?] ?].
Ltac vcbv := cbv [lin vadd vsub vopp vscale dot cross norm2 vzero vx vy vz fst snd].

(** ** algebra of the plane spanned by u and v *)
Lemma dot_lin u v x1 y1 x2 y2 :
  dot (lin u v x1 y1) (lin u v x2 y2) = x1 * x2 * dot u u + (x1 * y2 + y1 * x2) * dot u v + y1 * y2 * dot v v.
Proof. d2 u v. vcbv. ring. Qed.

Lemma cross_lin u v x1 y1 x2 y2 :
  cross (lin u v x1 y1) (lin u v x2 y2) = vscale (x1 * y2 - y1 * x2) (cross u v).
Proof. d2 u v. apply vec_eq; vcbv; ring. Qed.

Lemma norm2_cross_onb u v : onb u v -> norm2 (cross u v) = 1.
Proof. intros (Hu & Hv & Huv). rewrite lagrange. unfold norm2. rewrite Hu, Hv, Huv. ring. Qed.

Lemma dot_lin_onb u v x1 y1 x2 y2 : onb u v -> dot (lin u v x1 y1) (lin u v x2 y2) = x1 * x2 + y1 * y2.
Proof. intros (Hu & Hv & Huv). rewrite dot_lin, Hu, Hv, Huv. ring. Qed.

Lemma dot_vscale k m a b : dot (vscale k a) (vscale m b) = k * m * dot a b.
Proof. d2 a b. vcbv. ring. Qed.

Lemma cross_vscale k m a b : cross (vscale k a) (vscale m b) = vscale (k * m) (cross a b).
Proof. d2 a b. apply vec_eq; vcbv; ring. Qed.

Lemma vsub_vadd_l c r : vsub (vadd c r) c = r.
Proof. d2 c r. apply vec_eq; vcbv; ring. Qed.

Lemma vsub_lin u v x1 y1 x2 y2 : vsub (lin u v x1 y1) (lin u v x2 y2) = lin u v (x1 - x2) (y1 - y2).
Proof. d2 u v. apply vec_eq; vcbv; ring. Qed.

Lemma vsub_cpt c rad u v t1 t2 :
  vsub (cpt c rad u v t1) (cpt c rad u v t2) = vscale rad (lin u v (cos t1 - cos t2) (sin t1 - sin t2)).
Proof. unfold cpt. d3 c u v. apply vec_eq; vcbv; ring. Qed.

Lemma sc1 t : cos t * cos t + sin t * sin t = 1.
Proof. pose proof (sin2_cos2 t) as H. unfold Rsqr in H. lra. Qed.

Lemma norm_vscale_lin u v rad x y : onb u v -> 0 < rad -> x * x + y * y = 1 -> norm (vscale rad (lin u v x y)) = rad.
Proof.
  intros H Hr Hxy. rewrite norm_scale. unfold norm, norm2. rewrite (dot_lin_onb _ _ _ _ _ _ H), Hxy, sqrt_1.
  rewrite Rabs_right; lra.
Qed.

Lemma norm_cpt c rad u v t : onb u v -> 0 < rad -> norm (vsub (cpt c rad u v t) c) = rad.
Proof. intros H Hr. unfold cpt. rewrite vsub_vadd_l. apply norm_vscale_lin; [assumption | assumption | apply sc1]. Qed.

Lemma norm2_cpt c rad u v t : onb u v -> norm2 (vsub (cpt c rad u v t) c) = rad * rad.
Proof.
  intros H. unfold cpt. rewrite vsub_vadd_l. unfold norm2. rewrite dot_vscale, (dot_lin_onb _ _ _ _ _ _ H), sc1. ring.
Qed.

(** ** the quantities of arc_length_3point evaluated at the true centre *)
Lemma a3_x_at_circle c rad u v t1 t2 : onb u v -> 0 < rad ->
  a3_x_at c (cpt c rad u v t1) (cpt c rad u v t2) = cos t1 * cos t2 + sin t1 * sin t2.
Proof.
  intros H Hr. unfold a3_x_at. rewrite !(norm_cpt _ _ _ _ _ H Hr). unfold cpt. rewrite !vsub_vadd_l.
  rewrite dot_vscale, (dot_lin_onb _ _ _ _ _ _ H). field. lra.
Qed.

Lemma a3_flipq_at_circle c rad u v t1 t2 t3 : onb u v ->
  a3_flipq_at c (cpt c rad u v t1) (cpt c rad u v t2) (cpt c rad u v t3) =
  rad ^ 4 * (cos t1 * sin t2 - sin t1 * cos t2) * (cos t1 * sin t3 - sin t1 * cos t3).
Proof.
  intros H. unfold a3_flipq_at, cpt. rewrite !vsub_vadd_l. rewrite !cross_vscale, !cross_lin, !dot_vscale.
  change (dot (cross u v) (cross u v)) with (norm2 (cross u v)). rewrite (norm2_cross_onb _ _ H). ring.
Qed.

Lemma cos_2PI_minus x : cos (2 * PI - x) = cos x.
Proof.
  replace (2 * PI - x) with (- x + 2 * INR 1 * PI) by (simpl; ring). rewrite cos_period. apply cos_neg.
Qed.

Lemma prod3_nonneg a b c : 0 < a -> 0 <= b -> 0 <= c -> 0 <= a * b * c.
Proof. intros. apply Rmult_le_pos; [apply Rmult_le_pos; lra | lra]. Qed.

Lemma prod3_neg a b c : 0 < a -> 0 < b -> c < 0 -> a * b * c < 0.
Proof. intros Ha Hb Hc. assert (0 < a * b) by (apply Rmult_lt_0_compat; assumption). nra. Qed.

Lemma a3_at_circle_reduce c rad u v psi phi : onb u v -> 0 < rad ->
  a3_len_at c (cpt c rad u v 0) (cpt c rad u v psi) (cpt c rad u v phi) =
  (if Rlt_dec (rad ^ 4 * sin psi * sin phi) 0 then 2 * PI - acos (cos phi) else acos (cos phi)) * rad.
Proof.
  intros H Hr. unfold a3_len_at.
  rewrite (a3_x_at_circle _ _ _ _ _ _ H Hr), (a3_flipq_at_circle _ _ _ _ _ _ _ H), (norm_cpt _ _ _ _ _ H Hr).
  rewrite cos_0, sin_0.
  replace (1 * cos phi + 0 * sin phi) with (cos phi) by ring.
  replace (rad ^ 4 * (1 * sin psi - 0 * cos psi) * (1 * sin phi - 0 * cos phi)) with (rad ^ 4 * sin psi * sin phi) by ring.
  reflexivity.
Qed.

(** the given point less than half a turn after the start point: radius * angle *)
Lemma a3_len_at_circle c rad u v psi phi : onb u v -> 0 < rad ->
  0 < psi -> psi < phi -> phi < 2 * PI -> psi < PI ->
  a3_len_at c (cpt c rad u v 0) (cpt c rad u v psi) (cpt c rad u v phi) = rad * phi.
Proof.
  intros H Hr H0 H1 H2 H3. rewrite (a3_at_circle_reduce _ _ _ _ _ _ H Hr).
  assert (Hp : 0 < rad ^ 4) by (apply pow_lt; assumption).
  assert (Hs : 0 < sin psi) by (apply sin_gt_0; assumption).
  destruct (Rle_dec phi PI) as [Hle|Hgt].
  - assert (0 <= sin phi) by (apply sin_ge_0; lra).
    pose proof (prod3_nonneg (rad ^ 4) (sin psi) (sin phi) Hp (Rlt_le _ _ Hs) H4).
    destruct (Rlt_dec (rad ^ 4 * sin psi * sin phi) 0); [lra|].
    rewrite acos_cos by lra. ring.
  - assert (sin phi < 0) by (apply sin_lt_0; lra).
    pose proof (prod3_neg (rad ^ 4) (sin psi) (sin phi) Hp Hs H4).
    destruct (Rlt_dec (rad ^ 4 * sin psi * sin phi) 0); [|lra].
    rewrite <- (cos_2PI_minus phi). rewrite acos_cos by lra. ring.
Qed.

(** the given point half a turn or more after the start point: the complementary arc *)
Lemma a3_len_at_circle_late c rad u v psi phi : onb u v -> 0 < rad ->
  PI <= psi -> psi < phi -> phi < 2 * PI ->
  a3_len_at c (cpt c rad u v 0) (cpt c rad u v psi) (cpt c rad u v phi) = rad * (2 * PI - phi).
Proof.
  intros H Hr H0 H1 H2. rewrite (a3_at_circle_reduce _ _ _ _ _ _ H Hr).
  assert (Hp : 0 < rad ^ 4) by (apply pow_lt; assumption).
  assert (Hs : sin psi <= 0) by (apply sin_le_0; lra).
  assert (Hs' : sin phi < 0) by (apply sin_lt_0; lra).
  assert (0 <= rad ^ 4 * sin psi * sin phi).
  { replace (rad ^ 4 * sin psi * sin phi) with (rad ^ 4 * (- sin psi) * (- sin phi)) by ring.
    apply prod3_nonneg; lra. }
  destruct (Rlt_dec (rad ^ 4 * sin psi * sin phi) 0); [lra|].
  rewrite <- (cos_2PI_minus phi). rewrite acos_cos by lra. ring.
Qed.

(** ** the centre computed by the code is the centre of the circle *)
Lemma norm2_zero r : norm2 r = 0 -> r = vzero.
Proof.
  destruct r as [[x y] z]. vcbv. intros H.
  assert (x = 0) by nra. assert (y = 0) by nra. assert (z = 0) by nra. subst. reflexivity.
Qed.

Lemma triple_unique a b r :
  norm2 (cross a b) <> 0 -> dot r a = 0 -> dot r b = 0 -> dot r (cross a b) = 0 -> r = vzero.
Proof.
  intros Hn Ha Hb Hc. apply norm2_zero.
  assert (E : norm2 r * norm2 (cross a b) =
              dot r (cross a b) * dot r (cross a b) + norm2 (vsub (vscale (dot r b) a) (vscale (dot r a) b))).
  { d3 a b r. vcbv. ring. }
  rewrite Ha, Hb, Hc in E.
  assert (Z : norm2 (vsub (vscale 0 a) (vscale 0 b)) = 0) by (d2 a b; vcbv; ring).
  rewrite Z in E. assert (E' : norm2 r * norm2 (cross a b) = 0) by lra.
  apply Rmult_integral in E'. destruct E'; [assumption | contradiction].
Qed.

Lemma equi_dot c p q :
  norm2 (vsub q c) = norm2 (vsub p c) -> dot (vsub c p) (vsub q p) = dot (vsub q p) (vsub q p) / 2.
Proof. d3 c p q. vcbv. intros H. nra. Qed.

Lemma dot_vsub_l x y a : dot (vsub x y) a = dot x a - dot y a.
Proof. d3 x y a. vcbv. ring. Qed.

Lemma vsub_vsub_common x y p : vsub x y = vsub (vsub x p) (vsub y p).
Proof. d3 x y p. apply vec_eq; vcbv; ring. Qed.

Lemma vsub_zero_eq x y : vsub x y = vzero -> x = y.
Proof.
  d2 x y. vcbv. intros H. injection H as H1 H2 H3.
  f_equal; [f_equal|]; lra.
Qed.

Lemma a3_centre_is c ps pb pe :
  a3_denom ps pb pe <> 0 ->
  norm2 (vsub pb c) = norm2 (vsub ps c) -> norm2 (vsub pe c) = norm2 (vsub ps c) ->
  dot (vsub c ps) (cross (vsub pb ps) (vsub pe ps)) = 0 ->
  a3_centre ps pb pe = c.
Proof.
  intros Hd Hb He Hp.
  pose proof (a3_centre_offset ps pb pe Hd) as K. cbv zeta in K. destruct K as (K1 & K2 & K3).
  apply vsub_zero_eq.
  apply (triple_unique (vsub pb ps) (vsub pe ps)).
  - rewrite <- a3_denom_lagrange. exact Hd.
  - rewrite (vsub_vsub_common _ _ ps), dot_vsub_l, K1, (equi_dot _ _ _ Hb). field.
  - rewrite (vsub_vsub_common _ _ ps), dot_vsub_l, K2, (equi_dot _ _ _ He). field.
  - rewrite (vsub_vsub_common _ _ ps), dot_vsub_l, K3, Hp. ring.
Qed.

(** ** three points of the circle are not collinear *)
Lemma chord_det A B :
  (cos (2 * A) - 1) * sin (2 * (A + B)) - sin (2 * A) * (cos (2 * (A + B)) - 1) = 4 * sin A * sin B * sin (A + B).
Proof.
  rewrite (cos_2a_sin A), (sin_2a A), (cos_2a_sin (A + B)), (sin_2a (A + B)).
  assert (E : cos A * sin (A + B) - sin A * cos (A + B) = sin B).
  { rewrite sin_plus, cos_plus.
    replace (cos A * (sin A * cos B + cos A * sin B) - sin A * (cos A * cos B - sin A * sin B))
      with (sin B * (cos A * cos A + sin A * sin A)) by ring.
    rewrite sc1. ring. }
  replace (4 * sin A * sin B * sin (A + B)) with (4 * sin A * sin (A + B) * (cos A * sin (A + B) - sin A * cos (A + B)))
    by (rewrite E; ring).
  ring.
Qed.

Lemma a3_denom_circle c rad u v psi phi : onb u v -> 0 < rad -> 0 < psi -> psi < phi -> phi < 2 * PI ->
  a3_denom (cpt c rad u v 0) (cpt c rad u v psi) (cpt c rad u v phi) <> 0.
Proof.
  intros H Hr H0 H1 H2. rewrite a3_denom_lagrange. rewrite !vsub_cpt, cross_vscale, cross_lin.
  unfold norm2. rewrite !dot_vscale.
  change (dot (cross u v) (cross u v)) with (norm2 (cross u v)). rewrite (norm2_cross_onb _ _ H).
  rewrite cos_0, sin_0.
  set (k := (cos psi - 1) * (sin phi - 0) - (sin psi - 0) * (cos phi - 1)).
  assert (Hk : 0 < k).
  { unfold k. set (A := psi / 2). set (B := (phi - psi) / 2).
    replace psi with (2 * A) by (unfold A; field). replace phi with (2 * (A + B)) by (unfold A, B; field).
    replace ((cos (2 * A) - 1) * (sin (2 * (A + B)) - 0) - (sin (2 * A) - 0) * (cos (2 * (A + B)) - 1))
      with ((cos (2 * A) - 1) * sin (2 * (A + B)) - sin (2 * A) * (cos (2 * (A + B)) - 1)) by ring.
    rewrite chord_det.
    assert (0 < sin A) by (apply sin_gt_0; unfold A; lra).
    assert (0 < sin B) by (apply sin_gt_0; unfold B; lra).
    assert (0 < sin (A + B)) by (apply sin_gt_0; unfold A, B; lra).
    apply Rmult_lt_0_compat; [apply Rmult_lt_0_compat; [lra | assumption] | assumption]. }
  assert (0 < rad * rad * k) by (apply Rmult_lt_0_compat; [nra | assumption]).
  nra.
Qed.

Lemma a3_centre_circle c rad u v psi phi : onb u v -> 0 < rad -> 0 < psi -> psi < phi -> phi < 2 * PI ->
  a3_centre (cpt c rad u v 0) (cpt c rad u v psi) (cpt c rad u v phi) = c.
Proof.
  intros H Hr H0 H1 H2. apply a3_centre_is.
  - apply a3_denom_circle; assumption.
  - rewrite !(norm2_cpt _ _ _ _ _ H). reflexivity.
  - rewrite !(norm2_cpt _ _ _ _ _ H). reflexivity.
  - rewrite !vsub_cpt, cross_vscale, cross_lin.
    replace (vsub c (cpt c rad u v 0)) with (vscale (- rad) (lin u v (cos 0) (sin 0)))
      by (unfold cpt; d3 c u v; apply vec_eq; vcbv; ring).
    rewrite dot_vscale. unfold lin.
    set (k := (cos psi - cos 0) * (sin phi - sin 0) - (sin psi - sin 0) * (cos phi - cos 0)).
    assert (E : forall x y m, dot (vadd (vscale x u) (vscale y v)) (vscale m (cross u v)) =
                              m * (x * dot u (cross u v) + y * dot v (cross u v))).
    { intros. d2 u v. vcbv. ring. }
    rewrite E, dot_cross_self_l, dot_cross_self_r. ring.
Qed.

(** ** the value *)
Theorem three_point_length_circle c rad u v psi phi : onb u v -> 0 < rad ->
  0 < psi -> psi < phi -> phi < 2 * PI -> psi < PI ->
  arc_length_3point (cpt c rad u v 0) (cpt c rad u v psi) (cpt c rad u v phi) = rad * phi.
Proof.
  intros H Hr H0 H1 H2 H3. unfold arc_length_3point.
  rewrite (a3_centre_circle _ _ _ _ _ _ H Hr H0 H1 H2). apply a3_len_at_circle; assumption.
Qed.

Theorem three_point_length_circle_late c rad u v psi phi : onb u v -> 0 < rad ->
  PI <= psi -> psi < phi -> phi < 2 * PI ->
  arc_length_3point (cpt c rad u v 0) (cpt c rad u v psi) (cpt c rad u v phi) = rad * (2 * PI - phi).
Proof.
  intros H Hr H0 H1 H2. unfold arc_length_3point.
  assert (0 < psi) by (pose proof PI_RGT_0; lra).
  rewrite (a3_centre_circle _ _ _ _ _ _ H Hr H3 H1 H2). apply a3_len_at_circle_late; assumption.
Qed.

(** chord bound for circular arcs: rad * phi >= distance of the end points = 2 rad sin(phi/2) *)
Lemma dist_cpt c rad u v phi : onb u v -> 0 < rad -> 0 <= phi <= 2 * PI ->
  dist (cpt c rad u v 0) (cpt c rad u v phi) = 2 * rad * sin (phi / 2).
Proof.
  intros H Hr Hphi. unfold dist. rewrite vsub_cpt, norm_scale, (Rabs_right rad) by lra.
  unfold norm, norm2. rewrite (dot_lin_onb _ _ _ _ _ _ H), cos_0, sin_0.
  replace ((1 - cos phi) * (1 - cos phi) + (0 - sin phi) * (0 - sin phi)) with (2 - 2 * cos phi)
    by (pose proof (sc1 phi); nra).
  replace phi with (2 * (phi / 2)) at 1 by field. rewrite cos_2a_sin.
  replace (2 - 2 * (1 - 2 * sin (phi / 2) * sin (phi / 2))) with ((2 * sin (phi / 2)) * (2 * sin (phi / 2))) by ring.
  assert (0 <= sin (phi / 2)) by (apply sin_ge_0; lra).
  rewrite sqrt_square by lra. ring.
Qed.

Lemma arc_chord_bound c rad u v phi : onb u v -> 0 < rad -> 0 <= phi <= 2 * PI ->
  dist (cpt c rad u v 0) (cpt c rad u v phi) <= rad * phi.
Proof.
  intros H Hr Hphi. rewrite (dist_cpt _ _ _ _ _ H Hr Hphi).
  assert (sin (phi / 2) <= phi / 2).
  { destruct (Req_dec phi 0) as [->|Hn].
    - replace (0 / 2) with 0 by field. rewrite sin_0. lra.
    - apply Rlt_le. apply sin_lt_x. lra. }
  nra.
Qed.
