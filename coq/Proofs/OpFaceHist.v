(** C10, sequences of face calls: for EVERY history of invert / shift (any count) / reorient / move /
    swap calls each face still holds its own four points and every edge still joins the two points
    it joined at the start.  Proof: the reachable states form a finite set (128 states) that is
    closed under the four generators; every call acts as one of the generators. *)
From Coq Require Import List Bool Arith ZArith Lia.
From CB Require Import Base.Hex Model.OpFaceHist.
Import ListNotations.

Definition fst8_eqb (a b : fst8) : bool :=
  nat_list_eqb (bpts a) (bpts b) && nat_list_eqb (tpts a) (tpts b)
  && nat_list_eqb (beds a) (beds b) && nat_list_eqb (teds a) (teds b).

Lemma nat_list_eqb_eq l : forall m, nat_list_eqb l m = true -> l = m.
Proof.
  unfold nat_list_eqb. induction l as [|x l IH]; intros [|y m] H; simpl in *; try reflexivity; try discriminate.
  apply andb_true_iff in H. destruct H as [Hl H]. apply andb_true_iff in H. destruct H as [Hx H].
  apply Nat.eqb_eq in Hx. subst. f_equal. apply IH. rewrite Hl. exact H.
Qed.

Lemma nat_list_eqb_refl l : nat_list_eqb l l = true.
Proof.
  unfold nat_list_eqb. rewrite Nat.eqb_refl. simpl.
  induction l as [|x l IH]; simpl; [reflexivity|]. rewrite Nat.eqb_refl. exact IH.
Qed.

Lemma fst8_eqb_eq a b : fst8_eqb a b = true -> a = b.
Proof.
  unfold fst8_eqb. intro H.
  apply andb_true_iff in H; destruct H as [H H4]. apply andb_true_iff in H; destruct H as [H H3].
  apply andb_true_iff in H; destruct H as [H1 H2].
  apply nat_list_eqb_eq in H1, H2, H3, H4.
  destruct a, b; simpl in *. subst. reflexivity.
Qed.

Lemma fst8_eqb_refl a : fst8_eqb a a = true.
Proof. unfold fst8_eqb. rewrite !nat_list_eqb_refl. reflexivity. Qed.

(** generators *)
Definition gens : list fcall :=
  [FInvert false; FInvert true; OpInvert;
   FShift false 0; FShift false 1; FShift false 2; FShift false 3;
   FShift true 0; FShift true 1; FShift true 2; FShift true 3].

Definition mem (s : fst8) (l : list fst8) : bool := existsb (fst8_eqb s) l.

(** breadth-first closure with fuel *)
Definition expand (l : list fst8) : list fst8 :=
  fold_left (fun acc s => if mem s acc then acc else acc ++ [s])
            (flat_map (fun s => map (fstep s) gens) l) l.
Fixpoint close (n : nat) (l : list fst8) : list fst8 :=
  match n with 0 => l | S n' => close n' (expand l) end.

Definition reach : list fst8 := Eval vm_compute in close 6 [finit].

Lemma reach_size : length reach = 128.
Proof. vm_compute. reflexivity. Qed.

Lemma reach_init : mem finit reach = true.
Proof. vm_compute. reflexivity. Qed.

Lemma reach_closed : forallb (fun s => forallb (fun g => mem (fstep s g) reach) gens) reach = true.
Proof. vm_compute. reflexivity. Qed.

Lemma mem_In s l : mem s l = true -> In s l.
Proof.
  unfold mem. rewrite existsb_exists. intros (x & Hx & E). apply fst8_eqb_eq in E. subst. exact Hx.
Qed.

Lemma In_mem s l : In s l -> mem s l = true.
Proof. intro H. unfold mem. rewrite existsb_exists. exists s. split; [exact H | apply fst8_eqb_refl]. Qed.

Lemma gen_step_reach s g : In s reach -> In g gens -> In (fstep s g) reach.
Proof.
  intros Hs Hg. pose proof reach_closed as C. rewrite forallb_forall in C. specialize (C _ Hs).
  rewrite forallb_forall in C. apply mem_In. apply C. exact Hg.
Qed.

(** every call acts as a generator *)
Lemma shift_list_mod k l : shift_list k l = shift_list (k mod 4) l.
Proof.
  unfold shift_list. apply map_ext. intro i. f_equal. f_equal. rewrite Zminus_mod_idemp_r. reflexivity.
Qed.

Lemma shift_small k : (0 <= k < 4)%Z -> k = 0%Z \/ k = 1%Z \/ k = 2%Z \/ k = 3%Z.
Proof. lia. Qed.

Lemma call_as_gen s c : In s reach -> In (fstep s c) reach.
Proof.
  intro Hs. destruct c as [t | t k | t j | t | | | sd]; simpl; try exact Hs.
  - apply (gen_step_reach s (FInvert t) Hs). destruct t; simpl; auto.
  - assert (E : fstep s (FShift t k) = fstep s (FShift t (k mod 4))).
    { simpl. unfold on_face. destruct t; rewrite (shift_list_mod k (tpts s)) || rewrite (shift_list_mod k (bpts s));
        rewrite ?(shift_list_mod k (teds s)), ?(shift_list_mod k (beds s)); reflexivity. }
    change (In (fstep s (FShift t k)) reach). rewrite E.
    apply gen_step_reach; [exact Hs|].
    destruct (shift_small (k mod 4) (Z.mod_pos_bound k 4 eq_refl)) as [K | [K | [K | K]]]; rewrite K;
      destruct t; simpl; auto 12.
  - (* reorient j = shift (-j) *)
    assert (E : fstep s (FReorient t j) = fstep s (FShift t ((- Z.of_nat j) mod 4))).
    { simpl. unfold on_face, reorient_list.
      destruct t; rewrite (shift_list_mod (- Z.of_nat j) (tpts s)) || rewrite (shift_list_mod (- Z.of_nat j) (bpts s));
        rewrite ?(shift_list_mod (- Z.of_nat j) (teds s)), ?(shift_list_mod (- Z.of_nat j) (beds s)); reflexivity. }
    change (In (fstep s (FReorient t j)) reach). rewrite E.
    apply gen_step_reach; [exact Hs|].
    destruct (shift_small ((- Z.of_nat j) mod 4) (Z.mod_pos_bound _ 4 eq_refl)) as [K | [K | [K | K]]]; rewrite K;
      destruct t; simpl; auto 12.
  - apply (gen_step_reach s OpInvert Hs). simpl; auto.
Qed.

Lemma frun_final_reach cs : forall s, In s reach -> In (snd (frun s cs)) reach.
Proof.
  induction cs as [|c r IH]; intros s Hs; simpl; [exact Hs|].
  specialize (IH (fstep s c) (call_as_gen s c Hs)).
  destruct (frun (fstep s c) r) as [o sf]. simpl in *. exact IH.
Qed.

(** ** what holds in every reachable state *)
Definition sorted_ids (l : list nat) : list nat :=
  filter (fun x => existsb (Nat.eqb x) l) (seq 0 20).

(** original end points of a face edge: edge 10+i joins i and (i+1) mod 4, edge 14+i joins 4+i and 4+(i+1) mod 4 *)
Definition edge_ends (e : nat) : list nat :=
  if e <? 14 then [e - 10; (e - 10 + 1) mod 4] else [4 + (e - 14); 4 + (e - 14 + 1) mod 4].

Definition face_ok (pts eds : list nat) : bool :=
  (length pts =? 4) && (length eds =? 4) &&
  forallb (fun i => nat_set_eqb (edge_ends (nth4 eds i)) [nth4 pts i; nth4 pts (i + 1)]) [0; 1; 2; 3].

Definition state_ok (s : fst8) : bool :=
  face_ok (bpts s) (beds s) && face_ok (tpts s) (teds s) &&
  ((nat_list_eqb (sorted_ids (bpts s)) [0; 1; 2; 3] && nat_list_eqb (sorted_ids (tpts s)) [4; 5; 6; 7]) ||
   (nat_list_eqb (sorted_ids (bpts s)) [4; 5; 6; 7] && nat_list_eqb (sorted_ids (tpts s)) [0; 1; 2; 3])).

Lemma reach_ok : forallb state_ok reach = true.
Proof. vm_compute. reflexivity. Qed.

(** every side face requested in a reachable state consists of four different points of the operation *)
Definition obs_ok (s : fst8) : bool :=
  forallb (fun sd => nat_list_eqb (sorted_ids (face_obs s sd)) (sorted_ids (face_obs s sd)) &&
                     (length (sorted_ids (face_obs s sd)) =? 4) &&
                     forallb (fun x => x <? 8) (face_obs s sd)) sides.

Lemma reach_obs_ok : forallb obs_ok reach = true.
Proof. vm_compute. reflexivity. Qed.

Theorem history_state_ok cs : state_ok (snd (frun finit cs)) = true.
Proof.
  pose proof reach_ok as R. rewrite forallb_forall in R. apply R.
  apply frun_final_reach. apply mem_In. exact reach_init.
Qed.

Theorem history_obs_ok cs : obs_ok (snd (frun finit cs)) = true.
Proof.
  pose proof reach_obs_ok as R. rewrite forallb_forall in R. apply R.
  apply frun_final_reach. apply mem_In. exact reach_init.
Qed.

(** each observation made during a history is the corner set of the state at that moment *)
Lemma frun_app s cs c :
  frun s (cs ++ [c]) =
  let '(o, sf) := frun s cs in
  (o ++ match c with GetFace sd => [face_obs (fstep sf c) sd] | _ => [] end, fstep sf c).
Proof.
  revert s. induction cs as [|d r IH]; intro s; simpl.
  - destruct c; reflexivity.
  - rewrite IH. destruct (frun (fstep s d) r) as [o sf]. destruct d; destruct c; reflexivity.
Qed.

Theorem get_face_is_current cs sd :
  fst (frun finit (cs ++ [GetFace sd])) =
  fst (frun finit cs) ++ [face_obs (snd (frun finit cs)) sd].
Proof. rewrite frun_app. destruct (frun finit cs) as [o sf]. reflexivity. Qed.

