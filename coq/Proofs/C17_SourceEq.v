(** C17 - the hand-written model of the clamp position functions and of the links IS what the code of the working
    tree says.

    Gen/C17/Source.v is produced on every run by harness/translate_np.py (python [ast] -> Gallina, fail closed) from
      util/functions.py        norm, unit_vector, angle_between, point_to_line_distance, mirror_matrix, mirror
      optimize/clamps/curve.py   the closure [function] of LineClamp.__init__ and the lambda of RadialClamp.__init__
      optimize/clamps/surface.py the closure [position_function] of PlaneClamp.__init__
                                 (each: the statements of the constructor before it, then its body; checked to be what
                                 super().__init__ receives as [function], i.e. what ClampBase stores as self.function)
      optimize/links.py          TranslationLink.transform, SymmetryLink._get_follower / transform,
                                 RotationLink._get_height / _get_radius / transform (functions of the link's attributes)
    This file - compiled on every run, after the generated one - proves that each translated function equals the
    function of Model/C17_ClampLink.v that Properties/C17.v is about, for ALL arguments on which the python text has
    a real-number reading; where it has none (unit_vector of the zero vector, a division by a zero radius: numpy's
    nan / inf) the translated function is [None] and the lemma carries the condition as a hypothesis.

    Two values the translation does not look into are INPUTS of the translated functions:
      [o_random_1]  the value of np.random.random(3) in PlaneClamp.__init__ (the model's [r]);
      [o_rotate]    functions.rotate (scipy.linalg.expm inside, outside the fragment), read as an uninterpreted total
                    function of the values of its four arguments.  The lemmas instantiate it with the model's [rotate]
                    (Rodrigues): that rotate IS that function remains tied by the sampled interval correspondence only;
                    everything around it (the signed angle of RotationLink.transform: angle_between with its clip, the
                    sign test, the projections _get_radius / _get_height; the angle params[0] / radius of RadialClamp
                    with radius = point_to_line_distance) is proved here.
    Not translated (class machinery outside the fragment; tied by the sampled correspondence as before): the
    constructors of the links (super().__init__, self.vector = follower - leader, the ValueError of RotationLink),
    LinkBase.update, ClampBase.__init__ / get_params (scipy.optimize.minimize) / update_params, CurveClamp,
    ParametricSurfaceClamp, default bounds of LineClamp.  Aliasing (does functions.mirror alter its argument?) is not
    seen by the translator's value reading: it stays with Gen/C17/Flags.v.

    Tactic: Proofs/SourceEqTac.v; no specialisation is named ([unfold_src] is generated with Gen/C17/Source.v). *)
From Coq Require Import Reals Lra Psatz List Bool.
From CB Require Import Base.Vec3 Model.C17_ClampLink Proofs.C17_ClampLink Proofs.SourceEqTac.
From CB Require Import Gen.C17.Source.
Import ListNotations.
Open Scope R_scope.

(** [rotate] / [rot_cs] stay folded: the rotation is an opaque function on the source side *)
Ltac unfold_model_all ::=
  cbv beta iota zeta delta [unit mirror mirror_mat_apply clip1 angle_between point_to_line_distance line_pos plane_u plane_v
    plane_pos radial_radius radial_pos tl_step tl_follower tl_leader tl_vector sl_step sl_follower sl_leader sl_normal sl_origin
    rl_height rl_radius rl_angle rl_transform rc_origin rc_axis rc_r0 rc_f0 fst snd] in *.
Ltac norm_prims ::= unfold s_clip in *.
Ltac src_eq :=
  unfold_src; norm_prims; unfold_model_all; sym_atoms; go;
  fail "the translated source differs from the model (or the difference is beyond this tactic)".

(** ** util/functions.py *)
Lemma src_norm_eq tol v : src_norm tol v = Some (norm v).
Proof. src_eq. Qed.

Lemma src_unit_vector_eq tol v : v <> vzero -> src_unit_vector tol v = Some (unit v).
Proof. intros H. src_eq. Qed.

Lemma src_unit_vector_zero tol : src_unit_vector tol vzero = None.
Proof.
  unfold_src. destruct (Req_EM_T (norm vzero) 0) as [_|n]; [reflexivity|].
  exfalso. apply n. unfold norm, norm2. vcoord. replace (0 * 0 + 0 * 0 + 0 * 0) with 0 by ring. apply sqrt_0.
Qed.

Lemma src_angle_between_eq tol v1 v2 :
  v1 <> vzero -> v2 <> vzero -> src_angle_between tol v1 v2 = Some (angle_between v1 v2).
Proof. intros H1 H2. src_eq. Qed.

Lemma src_point_to_line_distance_eq tol o d p :
  d <> vzero -> src_point_to_line_distance tol o d p = Some (point_to_line_distance o d p).
Proof. intros H. src_eq. Qed.

Lemma src_mirror_matrix_eq tol n :
  exists m, src_mirror_matrix tol n = Some m /\ forall v, s_vM v m = mirror_mat_apply n v.
Proof.
  unfold_src. eexists. split; [reflexivity|].
  intros v; unfold_src; unfold mirror_mat_apply; cbv beta iota zeta; apply vec_eq; vcoord; ring.
Qed.

(** the returned point; whether the argument array is altered ([snd (mirror b ..)]) is not a question of values *)
Lemma src_mirror_eq tol b p n o : n <> vzero -> src_mirror tol p n o = Some (fst (mirror b p n o)).
Proof. intros H. src_eq. Qed.

(** ** the position functions of the clamps *)
Lemma vsub_neq_zero a b : a <> b -> vsub b a <> vzero.
Proof. intros H E. apply H. symmetry. apply vsub_eq_zero. exact E. Qed.

Lemma src_LineClamp_function_eq tol pos p1 p2 t :
  p1 <> p2 -> src_LineClamp_function tol pos p1 p2 t = Some (line_pos p1 p2 t).
Proof. intros H. pose proof (vsub_neq_zero p1 p2 H) as H'. src_eq. Qed.

(** coincident points: unit_vector of the zero vector, no real-number reading *)
Lemma src_LineClamp_function_degenerate tol pos p t : src_LineClamp_function tol pos p p t = None.
Proof.
  unfold_src. replace (vsub p p) with vzero by (unfold vzero; apply vec_eq; vcoord; ring).
  destruct (Req_EM_T (norm vzero) 0) as [_|n]; [reflexivity|].
  exfalso. apply n. unfold norm, norm2. vcoord. replace (0 * 0 + 0 * 0 + 0 * 0) with 0 by ring. apply sqrt_0.
Qed.

(** PlaneClamp: where the python text has a real-number reading - none of the four unit_vector calls divides by zero *)
Definition plane_dom (n r : vec) : Prop :=
  n <> vzero /\ vadd (unit n) r <> vzero /\ cross (unit (vadd (unit n) r)) (unit n) <> vzero
  /\ cross (plane_u n r) (unit n) <> vzero.

Lemma src_PlaneClamp_function_eq tol pos point n u v r :
  plane_dom n r -> src_PlaneClamp_function tol pos point n u v r = Some (plane_pos point n r (u, v)).
Proof. unfold plane_dom, plane_u. intros (H1 & H2 & H3 & H4). src_eq. Qed.

(** ... which is the case as soon as the auxiliary direction is not collinear with the normal (the hypothesis of
    [C17_plane] / [C17_initial_plane]) *)
Lemma plane_dom_of_cross n r : cross r n <> vzero -> plane_dom n r.
Proof.
  intro H.
  assert (N : n <> vzero) by (intro E; apply H; rewrite E; unfold vzero; apply vec_eq; vcoord; ring).
  pose proof (norm_pos n N) as Pn.
  assert (Hnn : norm2 (unit n) = 1) by (apply unit_norm2; exact N).
  assert (X1 : cross r (unit n) <> vzero).
  { unfold unit. rewrite cross_vscale_r. apply vscale_nonzero; [|exact H]. apply Rinv_neq_0_compat. lra. }
  assert (W : vadd (unit n) r <> vzero).
  { intro E. apply X1. rewrite <- cross_vadd_self, E. unfold vzero. apply vec_eq; vcoord; ring. }
  assert (X2 : cross (unit (vadd (unit n) r)) (unit n) <> vzero).
  { unfold unit at 1. rewrite cross_vscale_l. apply vscale_nonzero.
    - apply Rinv_neq_0_compat. pose proof (norm_pos _ W). lra.
    - rewrite cross_vadd_self. exact X1. }
  assert (HU : norm2 (plane_u n r) = 1) by (unfold plane_u; apply unit_norm2; exact X2).
  assert (HY : norm2 (cross (plane_u n r) (unit n)) = 1).
  { rewrite lagrange, HU, Hnn, plane_u_perp. ring. }
  repeat split; [exact N | exact W | exact X2 |].
  intro E. rewrite E in HY. unfold norm2, dot, vzero, vx, vy, vz in HY. simpl in HY. lra.
Qed.

(** RadialClamp: [rot] stands for functions.rotate *)
Lemma src_RadialClamp_function_eq tol p0 c n t :
  n <> vzero -> radial_radius p0 c n <> 0 ->
  src_RadialClamp_function tol p0 c n t rotate = Some (radial_pos p0 c n t).
Proof. unfold radial_radius, point_to_line_distance. intros H1 H2. src_eq. Qed.

(** ** the links: transform() on the attributes of the link *)
Lemma src_TranslationLink_transform_eq tol l f v :
  src_TranslationLink_transform tol l v = Some (tl_follower (tl_step (l, f, v) Update)).
Proof. src_eq. Qed.

Lemma src_SymmetryLink_transform_eq tol b l f n o :
  n <> vzero ->
  src_SymmetryLink_transform tol l n o = Some (sl_follower (sl_step b (l, f, (n, o)) Update))
  /\ src_SymmetryLink_get_follower tol l n o = Some (fst (mirror b l n o)).
Proof. intros H. split; src_eq. Qed.

Lemma src_RotationLink_radius_eq tol l o a r0 f0 p :
  src_RotationLink_get_height tol l o a r0 f0 p = Some (rl_height o a p)
  /\ src_RotationLink_get_radius tol l o a r0 f0 p = Some (rl_radius o a p).
Proof. split; src_eq. Qed.

(** [rot] stands for functions.rotate; off the axis: neither the original nor the current radius vector vanishes *)
Lemma src_RotationLink_transform_eq tol l o a r0 f0 :
  r0 <> vzero -> rl_radius o a l <> vzero ->
  src_RotationLink_transform tol l o a r0 f0 rotate
  = Some (rl_transform {| rc_origin := o; rc_axis := a; rc_r0 := r0; rc_f0 := f0 |} l).
Proof. unfold rl_radius, rl_height. intros H1 H2. src_eq. Qed.

(** the leader on the axis: unit_vector of the zero vector inside angle_between, no real-number reading *)
Lemma src_RotationLink_transform_on_axis tol l o a r0 f0 (rot : vec -> R -> vec -> vec -> vec) :
  rl_radius o a l = vzero -> src_RotationLink_transform tol l o a r0 f0 rot = None.
Proof.
  unfold rl_radius, rl_height. intros E. unfold_src. rewrite E.
  destruct (Req_EM_T (norm r0) 0); [reflexivity|].
  destruct (Req_EM_T (norm vzero) 0) as [_|n']; [reflexivity|].
  exfalso. apply n'. unfold norm, norm2. vcoord. replace (0 * 0 + 0 * 0 + 0 * 0) with 0 by ring. apply sqrt_0.
Qed.

(** the hypotheses are satisfiable *)
Example plane_dom_hyp_sat : cross (1, 0, 0) (0, 0, 1) <> vzero.
Proof. intros H. apply (f_equal vy) in H. revert H. vcoord. intros H. lra. Qed.

Example radial_hyp_sat : (0, 0, 1) <> vzero /\ radial_radius (1, 0, 0) (0, 0, 0) (0, 0, 1) <> 0.
Proof.
  split; [intros H; inversion H; lra|].
  unfold radial_radius, point_to_line_distance, norm, norm2. vcoord.
  match goal with |- sqrt ?a / sqrt ?b <> 0 => replace a with 1 by ring; replace b with 1 by ring end.
  rewrite sqrt_1. lra.
Qed.
