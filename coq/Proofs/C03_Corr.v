(** C03 - lemmas and tactics used by the generated correspondence goals (.work/C03/cases_*.v).
    Every numeric side condition is discharged by the [interval] tactic, i.e. checked by the kernel. *)
From Coq Require Import Reals ZArith List Bool Lra Lia.
From Flocq Require Import Core.Raux.
From Interval Require Import Tactic.
From CB Require Import Base.Vec3 Model.C03_Relations Proofs.C03_GeomSeries Proofs.C03_Relations.
Open Scope R_scope.

Lemma Reqb_t a b : a = b -> Reqb a b = true.
Proof. intros ->. unfold Reqb. destruct (Req_EM_T b b); [reflexivity|contradiction]. Qed.
Lemma Reqb_f a b : a <> b -> Reqb a b = false.
Proof. unfold Reqb. destruct (Req_EM_T a b); [contradiction|reflexivity]. Qed.
Lemma Rleb_t a b : a <= b -> Rleb a b = true.
Proof. unfold Rleb. destruct (Rle_dec a b); [reflexivity|contradiction]. Qed.
Lemma Rleb_f a b : b < a -> Rleb a b = false.
Proof. unfold Rleb. destruct (Rle_dec a b); [lra|reflexivity]. Qed.

(** the constant oracle: "scipy returned v" *)
Definition orc (v : R) : brentq := Build_brentq (fun _ _ _ => Some v) (fun _ _ _ => Some v) (fun _ _ _ => Some v).

Lemma ceil_eq x n : IZR (n - 1) < x <= IZR n -> Zceil x = n.
Proof. apply Zceil_imp. Qed.

(** closed form of the residual of the brentq ratios *)
Lemma resid_closed s v n : v <> 1 -> (1 <= n)%Z ->
  s * ((1 - powerRZ v n) / (1 - v)) = s * gsum v (Z.to_nat n).
Proof. intros Hv Hn. rewrite powerRZ_nat by lia. rewrite gsum_closed_div by assumption. reflexivity. Qed.

Ltac itv := cbv [dy]; interval with (i_prec 90).

Ltac red_guards :=
  cbn [guard bind option_map negb andb orb Z.leb Z.ltb Z.eqb Z.compare Pos.compare Pos.compare_cont CompOpp
       Pos.eqb orc bq_c2c_start bq_c2c_end bq_count].

(** decide one real comparison (the first one met) by interval arithmetic *)
Ltac dec1 :=
  match goal with
  | |- context [Rltb ?a ?b] =>
      first [ rewrite (Rltb_intro a b) by itv | rewrite (Rltb_intro_false a b) by itv ]
  | |- context [Rleb ?a ?b] =>
      first [ rewrite (Rleb_t a b) by itv | rewrite (Rleb_f a b) by itv ]
  | |- context [Reqb ?a ?b] =>
      first [ rewrite (Reqb_t a b) by reflexivity
            | rewrite (Reqb_f a b) by (apply Rlt_not_eq; itv)
            | rewrite (Reqb_f a b) by (apply Rgt_not_eq; itv) ]
  end; red_guards.

Ltac unfold_rel :=
  cbv [start_count_c2c start_end_total end_start_total count_start_c2c count_end_c2c count_total_c2c
       x_start_c2c x_end_c2c x_total_c2c count_total_start c2c_count_start c2c_count_end c2c_count_total
       total_count_c2c total_start_end valid_length d_min agreesR int_plus1_is ceil_is];
  red_guards.

Ltac decide_all := unfold_rel; repeat dec1.

(** goal shapes *)
Ltac solve_real := decide_all; cbv [agreesR]; itv.
Ltac solve_none := decide_all; reflexivity.
Ltac solve_count := decide_all; apply f_equal; apply pyint_plus1_eq; [itv | split; itv].
Ltac solve_count_bnd := decide_all; repeat split; itv.
Ltac solve_ceil := decide_all; apply f_equal; apply ceil_eq; split; itv.

(** ** additions used by harness/props/C03.py *)

(** "scipy raised": the oracle that never answers *)
Definition onone : brentq := Build_brentq (fun _ _ _ => None) (fun _ _ _ => None) (fun _ _ _ => None).

Ltac itvp := cbv [dy Rpower]; interval with (i_prec 90).
Ltac red_guards2 :=
  cbn [guard bind option_map negb andb orb Z.leb Z.ltb Z.eqb Z.compare Pos.compare Pos.compare_cont CompOpp
       Pos.eqb orc onone bq_c2c_start bq_c2c_end bq_count].
Ltac dec2 :=
  match goal with
  | |- context [Rltb ?a ?b] =>
      first [ rewrite (Rltb_intro a b) by itvp | rewrite (Rltb_intro_false a b) by itvp ]
  | |- context [Rleb ?a ?b] =>
      first [ rewrite (Rleb_t a b) by itvp | rewrite (Rleb_f a b) by itvp ]
  | |- context [Reqb ?a ?b] =>
      first [ rewrite (Reqb_t a b) by first [ reflexivity | apply Rle_antisym; itvp ]
            | rewrite (Reqb_f a b) by (apply Rlt_not_eq; itvp)
            | rewrite (Reqb_f a b) by (apply Rgt_not_eq; itvp) ]
  end; red_guards2.
Ltac decide_all2 := unfold_rel; red_guards2; repeat dec2.

(** goal shapes (version 2: also unfold Rpower, know [onone]) *)
Ltac c_real := decide_all2; cbv [agreesR]; itvp.
Ltac c_none := decide_all2; reflexivity.
Ltac c_count := decide_all2; apply f_equal; apply pyint_plus1_eq; [itvp | split; itvp].
Ltac c_count_bnd := decide_all2; repeat split; itvp.
Ltac c_ceil := decide_all2; apply f_equal; apply ceil_eq; split; itvp.
Ltac c_ceil_bnd := cbv [ceil_is d_min]; repeat dec2; split; itvp.

(** residuals of the defining equations of the brentq relations *)
Ltac ne1 := first [ apply Rlt_not_eq; itvp | apply Rgt_not_eq; itvp ].
Ltac c_resid := try (rewrite <- !resid_closed by (first [ ne1 | lia ])); cbv [Gcode]; itvp.

(** Chop.invert / Grading.inverted: agreement of the real fields to a relative tolerance *)
Definition oR_agrees (a b : option R) (tol : R) : Prop :=
  match a, b with
  | Some x, Some y => Rabs (x - y) <= tol * Rabs y
  | None, None => True
  | _, _ => False
  end.
Definition data_agrees (a b : data) (tol : R) : Prop :=
  d_count a = d_count b /\ oR_agrees (d_total a) (d_total b) tol /\ oR_agrees (d_c2c a) (d_c2c b) tol /\
  oR_agrees (d_start a) (d_start b) tol /\ oR_agrees (d_end a) (d_end b) tol.
Fixpoint spec_agrees (a b : list division) (tol : R) : Prop :=
  match a, b with
  | nil, nil => True
  | (l1, n1, e1) :: a', (l2, n2, e2) :: b' =>
      l1 = l2 /\ n1 = n2 /\ Rabs (e1 - e2) <= tol * Rabs e2 /\ spec_agrees a' b' tol
  | _, _ => False
  end.
Ltac c_data :=
  cbv [data_agrees invert post_init oR_agrees option_map d_count d_total d_c2c d_start d_end
       spec_agrees inverted rev map app fst snd];
  repeat split; first [ reflexivity | exact I | itvp ].
