(** C03 - the ten plans of Chop.calculate: what (count, total_expansion) they return and what
    blockMesh makes of it. *)
From Coq Require Import Reals ZArith List Bool Lra Lia Psatz.
From Flocq Require Import Core.Raux.
From CB Require Import Model.C03_Relations Proofs.C03_GeomSeries Proofs.C03_Relations.
Import ListNotations.
Open Scope R_scope.

Lemma bm_ratio_one n : bm_ratio n 1 = 1.
Proof. unfold bm_ratio. destruct n as [|[|n]]; try reflexivity. unfold Rpower. rewrite ln_1, Rmult_0_r. apply exp_0. Qed.

Lemma bm_first_uniform L n : (1 <= n)%nat -> bm_first L n 1 = L / INR n.
Proof. intros. unfold bm_first. rewrite bm_ratio_one, gsum_one. reflexivity. Qed.

Lemma shortcut_bound L n v tau :
  0 < L -> 0 < n -> Rabs (n * v - L) / L < tau -> Rabs (L / n - v) <= tau * (L / n).
Proof.
  intros HL Hn Hb.
  assert (Hin : 0 < / n) by (apply Rinv_0_lt_compat; assumption).
  replace (L / n - v) with (- (n * v - L) * / n) by (field; lra).
  rewrite Rabs_mult, Rabs_Ropp, (Rabs_pos_eq (/ n)) by lra.
  apply Rmult_lt_compat_r with (r := L) in Hb; [|assumption].
  replace (Rabs (n * v - L) / L * L) with (Rabs (n * v - L)) in Hb by (field; lra).
  unfold Rdiv. nra.
Qed.

Lemma to_nat_ge2 n : (2 <= n)%Z -> (2 <= Z.to_nat n)%nat.
Proof. lia. Qed.

(** (count, c2c) : count and ratio reproduced exactly *)
Lemma plan_count_c2c_law tau L n r d :
  plan_count_c2c tau L n r = Some d -> 0 < r ->
  exists E, returned d = Some (n, E) /\ (1 <= n)%Z /\ 0 < E /\ E = r ^ (Z.to_nat n - 1) /\
            ((2 <= n)%Z -> bm_ratio (Z.to_nat n) E = r).
Proof.
  unfold plan_count_c2c. intros H Hr. inv_guards.
  match goal with Ht : total_count_c2c _ _ _ = Some ?E |- _ =>
    destruct (total_count_c2c_law _ _ _ _ Ht Hr) as [_ [Hn [HE [HE0 Hrat]]]]; exists E end.
  simpl. auto.
Qed.

(** (count, total) : count and total expansion reproduced exactly (last/first = E) *)
Lemma plan_count_total_law tau L n E d :
  plan_count_total tau L n E = Some d -> 0 < E ->
  returned d = Some (n, E) /\ (2 <= n)%Z /\
  bm_last L (Z.to_nat n) E = bm_first L (Z.to_nat n) E * E.
Proof.
  unfold plan_count_total. intros H HE. inv_guards.
  match goal with Ht : c2c_count_total _ _ _ = Some _ |- _ =>
    destruct (c2c_count_total_law _ _ _ _ Ht) as [_ [Hn _]] end.
  simpl. repeat split; [assumption|]. apply bm_last_first; [assumption|lia].
Qed.

(** (count, start) : the first cell is the requested one (to within TOL when the shortcut fires) *)
Lemma plan_count_start_law tau bq L n s d :
  plan_count_start tau bq L n s = Some d -> brentq_sound bq -> 0 <= tau ->
  exists E, returned d = Some (n, E) /\ (1 <= n)%Z /\ 0 < E /\
    ((2 <= n)%Z -> Rabs (bm_first L (Z.to_nat n) E - s) <= tau * bm_first L (Z.to_nat n) E).
Proof.
  unfold plan_count_start. intros H Hbq Htau. inv_guards.
  match goal with Hc : c2c_count_start _ _ _ _ _ = Some ?r |- _ =>
    destruct (c2c_count_start_law _ _ _ _ _ _ Hc Hbq) as [HL [Hn [Hs [Hr Hcase]]]] end.
  match goal with Ht : total_count_c2c _ _ _ = Some ?E |- _ =>
    destruct (total_count_c2c_law _ _ _ _ Ht Hr) as [_ [_ [HE [HE0 _]]]]; exists E end.
  simpl. repeat split; try assumption. intros Hn2.
  assert (Hk : (2 <= Z.to_nat n)%nat) by lia.
  destruct Hcase as [[Hn1 _]|[[_ [Hb Hr1]]|[_ Heq]]]; [lia| |].
  - subst. rewrite pow1. rewrite bm_first_uniform by lia. rewrite IZR_to_nat by lia.
    assert (Hnpos : 0 < IZR n) by (apply IZR_lt; lia).
    apply shortcut_bound; assumption.
  - rewrite HE. rewrite (bm_first_of_ratio L _ _ s) by assumption.
    replace (s - s) with 0 by ring. rewrite Rabs_R0. nra.
Qed.

(** (count, end) : the last cell is the requested one *)
Lemma plan_count_end_law tau bq L n e d :
  plan_count_end tau bq L n e = Some d -> brentq_sound bq -> 0 <= tau ->
  exists E, returned d = Some (n, E) /\ (1 <= n)%Z /\ 0 < E /\
    Rabs (bm_last L (Z.to_nat n) E - e) <= tau * bm_last L (Z.to_nat n) E.
Proof.
  unfold plan_count_end. intros H Hbq Htau. inv_guards.
  match goal with Hc : c2c_count_end _ _ _ _ _ = Some ?r |- _ =>
    destruct (c2c_count_end_law _ _ _ _ _ _ Hc Hbq) as [HL [Hn [He [Hr Hcase]]]] end.
  match goal with Ht : total_count_c2c _ _ _ = Some ?E |- _ =>
    destruct (total_count_c2c_law _ _ _ _ Ht Hr) as [_ [_ [HE [HE0 Hrat]]]]; exists E end.
  simpl. repeat split; try assumption.
  assert (Hk : (1 <= Z.to_nat n)%nat) by lia.
  destruct Hcase as [[Hb Hr1]|[Hn2 Heq]].
  - subst. rewrite pow1. unfold bm_last, bm_cell. rewrite bm_ratio_one, pow1, Rmult_1_r.
    rewrite bm_first_uniform by lia. rewrite IZR_to_nat by lia.
    assert (Hnpos : 0 < IZR n) by (apply IZR_lt; lia).
    apply shortcut_bound; assumption.
  - assert (Hlast : bm_last L (Z.to_nat n) x1 = e).
    { subst x1. unfold bm_last, bm_cell, bm_first. rewrite Hrat by assumption.
      assert (0 < gsum x (Z.to_nat n)) by (apply gsum_pos; [lra|lia]).
      apply Rmult_eq_reg_r with (gsum x (Z.to_nat n)); [|lra].
      rewrite Heq. field. lra. }
    rewrite Hlast. replace (e - e) with 0 by ring. rewrite Rabs_R0. nra.
Qed.

(** (start, c2c) : ratio exact; first cell not coarser than requested, one cell fewer not finer *)
Lemma plan_start_c2c_law tau L s r d :
  plan_start_c2c tau L s r = Some d -> 0 < r -> (r = 1 \/ tau < Rabs (r - 1)) -> 0 <= tau ->
  exists n E, returned d = Some (n, E) /\ (1 <= n)%Z /\ 0 < E /\ E = r ^ (Z.to_nat n - 1) /\
    ((2 <= n)%Z -> bm_ratio (Z.to_nat n) E = r) /\
    bm_first L (Z.to_nat n) E < s /\
    ((2 <= n)%Z -> s <= L / gsum r (Z.to_nat n - 1)).
Proof.
  unfold plan_start_c2c. intros H Hr Hband Htau. inv_guards.
  match goal with Hc : count_start_c2c _ _ _ _ = Some ?n |- _ =>
    destruct (count_start_c2c_law _ _ _ _ _ Hc Hr Hband Htau) as [HL [Hs [Hn [Hlo Hhi]]]]; exists n end.
  match goal with Ht : total_count_c2c _ _ _ = Some ?E |- _ =>
    destruct (total_count_c2c_law _ _ _ _ Ht Hr) as [_ [_ [HE [HE0 Hrat]]]]; exists E end.
  simpl. repeat split; try assumption.
  - assert (Hg : 0 < gsum r (Z.to_nat x)) by (apply gsum_pos; [lra|lia]).
    destruct (Z.eq_dec x 1) as [->|Hne].
    + rewrite bm_first_one. simpl in Hhi. lra.
    + unfold bm_first. rewrite Hrat by lia.
      apply Rmult_lt_reg_r with (gsum r (Z.to_nat x)); [assumption|].
      replace (L / gsum r (Z.to_nat x) * gsum r (Z.to_nat x)) with L by (field; lra). assumption.
  - intros Hn2. assert (Hg : 0 < gsum r (Z.to_nat x - 1)) by (apply gsum_pos; [lra|lia]).
    apply Rmult_le_reg_r with (gsum r (Z.to_nat x - 1)); [assumption|].
    replace (L / gsum r (Z.to_nat x - 1) * gsum r (Z.to_nat x - 1)) with L by (field; lra). assumption.
Qed.

(** (end, c2c) : the same at the other end *)
Lemma plan_end_c2c_law tau L e r d :
  plan_end_c2c tau L e r = Some d -> 0 < r -> 0 < e -> (r = 1 \/ tau < Rabs (r - 1)) -> 0 <= tau ->
  exists n E, returned d = Some (n, E) /\ (1 <= n)%Z /\ 0 < E /\ E = r ^ (Z.to_nat n - 1) /\
    ((2 <= n)%Z -> bm_ratio (Z.to_nat n) E = r) /\
    bm_last L (Z.to_nat n) E < e /\
    ((2 <= n)%Z -> e <= L / gsum (/ r) (Z.to_nat n - 1)).
Proof.
  unfold plan_end_c2c. intros H Hr He Hband Htau. inv_guards.
  match goal with Hc : count_end_c2c _ _ _ _ = Some ?n |- _ =>
    destruct (count_end_c2c_law _ _ _ _ _ Hc Hr He Hband Htau) as [HL [Hn [Hlo Hhi]]]; exists n end.
  match goal with Ht : total_count_c2c _ _ _ = Some ?E |- _ =>
    destruct (total_count_c2c_law _ _ _ _ Ht Hr) as [_ [_ [HE [HE0 Hrat]]]]; exists E end.
  simpl. assert (Hq : 0 < / r) by (apply Rinv_0_lt_compat; assumption).
  repeat split; try assumption.
  - destruct (Z.eq_dec x 1) as [->|Hne].
    + unfold bm_last, bm_cell. rewrite bm_first_one. simpl in *. lra.
    + assert (Hk : (1 <= Z.to_nat x)%nat) by lia.
      assert (Hg : 0 < gsum r (Z.to_nat x)) by (apply gsum_pos; [lra|lia]).
      assert (Hgi : 0 < gsum (/ r) (Z.to_nat x)) by (apply gsum_pos; [lra|lia]).
      pose proof (gsum_rev_n r (Z.to_nat x) Hr Hk) as Hrev.
      unfold bm_last, bm_cell, bm_first. rewrite Hrat by lia.
      assert (Heq : L / gsum r (Z.to_nat x) * r ^ (Z.to_nat x - 1) = L / gsum (/ r) (Z.to_nat x)).
      { assert (r ^ (Z.to_nat x - 1) <> 0) by (apply pow_nonzero; lra). rewrite <- Hrev. field. repeat split; lra. }
      rewrite Heq. apply Rmult_lt_reg_r with (gsum (/ r) (Z.to_nat x)); [assumption|].
      replace (L / gsum (/ r) (Z.to_nat x) * gsum (/ r) (Z.to_nat x)) with L by (field; lra). assumption.
  - intros Hn2. assert (Hg : 0 < gsum (/ r) (Z.to_nat x - 1)) by (apply gsum_pos; [lra|lia]).
    apply Rmult_le_reg_r with (gsum (/ r) (Z.to_nat x - 1)); [assumption|].
    replace (L / gsum (/ r) (Z.to_nat x - 1) * gsum (/ r) (Z.to_nat x - 1)) with L by (field; lra). assumption.
Qed.

(** (total, c2c) : total exact; the count is the largest for which r^(n-1) does not overshoot E *)
Lemma plan_total_c2c_law tau L E r d :
  plan_total_c2c tau L E r = Some d -> 0 <= tau ->
  exists n, returned d = Some (n, E) /\ (1 <= n)%Z /\ 0 < E /\ 0 < r /\
    (0 <= ln E / ln r ->
       (1 < r -> r ^ (Z.to_nat n - 1) <= E < r ^ Z.to_nat n) /\
       (r < 1 -> r ^ Z.to_nat n < E <= r ^ (Z.to_nat n - 1))).
Proof.
  unfold plan_total_c2c. intros H Htau. inv_guards.
  match goal with Hc : count_total_c2c _ _ _ _ = Some ?n |- _ => exists n; rename Hc into Hcnt end.
  match goal with Hs : start_count_c2c _ _ _ _ = Some _ |- _ => unfold start_count_c2c in Hs; inv_guards end.
  pose proof Hcnt as Hcnt2. unfold count_total_c2c, x_total_c2c in Hcnt2. inv_guards.
  simpl. repeat split; try assumption;
  intros; destruct (count_total_c2c_law _ _ _ _ _ Hcnt Htau) as [_ [_ [_ [_ [Hgt Hlt]]]]]; auto;
  try (apply Hgt; assumption); try (apply Hlt; assumption).
Qed.

(** the function behind count <- (total, start) below one cell *)
Lemma Galt_lt_1 x E : 0 < E -> E <> 1 -> 0 < x -> x < 1 -> Galt x E < 1.
Proof.
  intros HE HE1 Hx0 Hx1. unfold Galt.
  assert (Hy : 1 / (x - 1) < 0).
  { unfold Rdiv. rewrite Rmult_1_l. apply Rinv_lt_0_compat. lra. }
  destruct (Rlt_dec E 1) as [Hlt|Hge].
  - assert (Hq : 1 < Rpower E (1 / (x - 1))).
    { pose proof (Rpower_smono_lt1 E _ 0 HE Hlt Hy) as Hm. rewrite Rpower_O in Hm by assumption. assumption. }
    assert ((1 - E) / (1 - Rpower E (1 / (x - 1))) < 0).
    { replace ((1 - E) / (1 - Rpower E (1 / (x - 1)))) with (- ((1 - E) / (Rpower E (1 / (x - 1)) - 1))) by (field; lra).
      assert (0 < (1 - E) / (Rpower E (1 / (x - 1)) - 1)) by (apply Rdiv_lt_0_compat; lra). lra. }
    lra.
  - assert (Hgt : 1 < E) by lra.
    assert (Hq : Rpower E (1 / (x - 1)) < 1).
    { pose proof (Rpower_smono_gt1 E _ 0 Hgt Hy) as Hm. rewrite Rpower_O in Hm by assumption. assumption. }
    pose proof (Rpower_pos E (1 / (x - 1))) as Hq0.
    assert ((1 - E) / (1 - Rpower E (1 / (x - 1))) < 1 - E).
    { apply Rmult_lt_reg_r with (1 - Rpower E (1 / (x - 1))); [lra|].
      replace ((1 - E) / (1 - Rpower E (1 / (x - 1))) * (1 - Rpower E (1 / (x - 1)))) with (1 - E) by (field; lra).
      nra. }
    lra.
Qed.

(** count <- (total, start), all branches: never coarser than requested *)
Lemma count_total_start_law tau bq L E s n :
  count_total_start tau bq L E s = Some n -> brentq_sound bq -> 0 < tau -> 0 < E ->
  0 < L /\ 0 < s /\ (1 <= n)%Z /\ bm_first L (Z.to_nat n) E <= s /\
  (tau <= Rabs (E - 1) -> (3 <= n)%Z -> s <= bm_first L (Z.to_nat n - 1) E) /\
  (E = 1 -> (2 <= n)%Z -> s < L / IZR (n - 1)).
Proof.
  intros H Hbq Htau HE.
  destruct (count_total_start_cases _ _ _ _ _ _ H Hbq) as [HL [Hs [_ Hcase]]].
  destruct Hcase as [[Hb Hn]|[Hb [x [Hx0 [Hx1 [HG Hn]]]]]].
  - destruct (uniform_branch_law L E s n HL Hs HE Hn) as [Hn1 [Hf Hc]].
    repeat split; try assumption. intros. lra.
  - assert (HE1 : E <> 1). { intros ->. replace (1 - 1) with 0 in Hb by ring. rewrite Rabs_R0 in Hb. lra. }
    destruct (Rlt_dec 1 x) as [Hgt|Hle].
    + destruct (count_root_law L E s x n HL Hs HE HE1 Hgt HG Hn) as [Hn2 [HsL [Hf Hc]]].
      repeat split; try assumption; try lia; try lra;
        try (intros _ Hn3; apply Hc; assumption); try (intros ->; contradiction).
    + assert (Hlt : x < 1) by lra.
      assert (Hn1 : n = 1%Z).
      { subst n. apply pyint_plus1_eq; [lra|]. simpl. lra. }
      rewrite Gcode_alt in HG by (try assumption; lra).
      pose proof (Galt_lt_1 x E HE HE1 Hx0 Hlt) as Hg. rewrite HG in Hg.
      assert (L < s).
      { apply Rmult_lt_compat_r with (r := s) in Hg; [|assumption].
        replace (L / s * s) with L in Hg by (field; lra). lra. }
      subst n. rewrite !Hn1. repeat split; try assumption; try lia;
        try (simpl; rewrite bm_first_one; lra); try (intros ->; contradiction).
Qed.

(** (total, start), (total, end), (start, end): total exact, sizes never coarser than requested *)
Lemma plan_total_start_law tau bq L E s d :
  plan_total_start tau bq L E s = Some d -> brentq_sound bq -> 0 < tau -> 0 < E ->
  exists n, returned d = Some (n, E) /\ (1 <= n)%Z /\ bm_first L (Z.to_nat n) E <= s /\
    (tau <= Rabs (E - 1) -> (3 <= n)%Z -> s <= bm_first L (Z.to_nat n - 1) E).
Proof.
  unfold plan_total_start. intros H Hbq Htau HE. inv_guards.
  match goal with Hc : count_total_start _ _ _ _ _ = Some ?n |- _ =>
    destruct (count_total_start_law _ _ _ _ _ _ Hc Hbq Htau HE) as [HL [Hs [Hn [Hf [Hc2 _]]]]]; exists n end.
  simpl. repeat split; assumption.
Qed.

Lemma plan_total_end_law tau bq L E e d :
  plan_total_end tau bq L E e = Some d -> brentq_sound bq -> 0 < tau -> 0 < E ->
  exists n, returned d = Some (n, E) /\ (1 <= n)%Z /\ bm_first L (Z.to_nat n) E * E <= e /\
    (tau <= Rabs (E - 1) -> (3 <= n)%Z -> e <= bm_first L (Z.to_nat n - 1) E * E).
Proof.
  unfold plan_total_end. intros H Hbq Htau HE. inv_guards.
  match goal with Hs : start_end_total _ _ _ = Some _ |- _ =>
    destruct (start_end_total_law _ _ _ _ Hs) as [_ [_ Hse]] end.
  match goal with Hc : count_total_start _ _ _ _ _ = Some ?n |- _ =>
    destruct (count_total_start_law _ _ _ _ _ _ Hc Hbq Htau HE) as [HL [Hs [Hn [Hf [Hc2 _]]]]]; exists n end.
  simpl. subst. repeat split; try assumption.
  - apply Rmult_le_compat_r with (r := E) in Hf; [|lra].
    replace (e / E * E) with e in Hf by (field; lra). assumption.
  - intros Hb Hn3. specialize (Hc2 Hb Hn3).
    apply Rmult_le_compat_r with (r := E) in Hc2; [|lra].
    replace (e / E * E) with e in Hc2 by (field; lra). assumption.
Qed.

Lemma plan_start_end_law tau bq L s e d :
  plan_start_end tau bq L s e = Some d -> brentq_sound bq -> 0 < tau ->
  exists n, returned d = Some (n, e / s) /\ (1 <= n)%Z /\ 0 < e / s /\
    bm_first L (Z.to_nat n) (e / s) <= s /\ bm_first L (Z.to_nat n) (e / s) * (e / s) <= e /\
    (tau <= Rabs (e / s - 1) -> (3 <= n)%Z -> s <= bm_first L (Z.to_nat n - 1) (e / s)).
Proof.
  unfold plan_start_end. intros H Hbq Htau. inv_guards.
  match goal with Ht : total_start_end _ _ _ = Some _ |- _ =>
    destruct (total_start_end_law _ _ _ _ Ht) as [_ [Hs0 [He0 [HEq HE]]]] end.
  subst.
  match goal with Hc : count_total_start _ _ _ _ _ = Some ?n |- _ =>
    destruct (count_total_start_law _ _ _ _ _ _ Hc Hbq Htau HE) as [HL [Hs [Hn [Hf [Hc2 _]]]]]; exists n end.
  simpl. repeat split; try assumption.
  apply Rmult_le_compat_r with (r := e / s) in Hf; [|lra].
  replace (s * (e / s)) with e in Hf by (field; lra). assumption.
Qed.

(** ** every plan returns a count >= 1 and a positive (finite: it is a real) total expansion *)
Definition returns_pos (d : data) : Prop := exists n E, returned d = Some (n, E) /\ (1 <= n)%Z /\ 0 < E.

Lemma plans_return_pos tau bq L d :
  brentq_sound bq ->
  (forall n r, 0 < r -> plan_count_c2c tau L n r = Some d -> returns_pos d) /\
  (forall n E, 0 < E -> plan_count_total tau L n E = Some d -> returns_pos d) /\
  (forall n s, plan_count_start tau bq L n s = Some d -> returns_pos d) /\
  (forall n e, plan_count_end tau bq L n e = Some d -> returns_pos d) /\
  (forall s r, 0 < r -> plan_start_c2c tau L s r = Some d -> returns_pos d) /\
  (forall e r, 0 < r -> plan_end_c2c tau L e r = Some d -> returns_pos d) /\
  (forall E r, plan_total_c2c tau L E r = Some d -> returns_pos d) /\
  (forall E s, 0 < E -> plan_total_start tau bq L E s = Some d -> returns_pos d) /\
  (forall E e, 0 < E -> plan_total_end tau bq L E e = Some d -> returns_pos d) /\
  (forall s e, plan_start_end tau bq L s e = Some d -> returns_pos d).
Proof.
  intros Hbq. unfold returns_pos. repeat split.
  - intros n r Hr H. destruct (plan_count_c2c_law _ _ _ _ _ H Hr) as [E [H1 [H2 [H3 _]]]]. eauto.
  - intros n E HE H. destruct (plan_count_total_law _ _ _ _ _ H HE) as [H1 [H2 _]].
    exists n, E. repeat split; [assumption|lia|assumption].
  - intros n s H. unfold plan_count_start in H. inv_guards.
    match goal with Hc : c2c_count_start _ _ _ _ _ = Some ?r |- _ =>
      destruct (c2c_count_start_law _ _ _ _ _ _ Hc Hbq) as [_ [_ [_ [Hr _]]]] end.
    match goal with Ht : total_count_c2c _ _ _ = Some ?E |- _ =>
      destruct (total_count_c2c_law _ _ _ _ Ht Hr) as [_ [Hn [_ [HE0 _]]]]; exists n, E end.
    simpl. auto.
  - intros n e H. unfold plan_count_end in H. inv_guards.
    match goal with Hc : c2c_count_end _ _ _ _ _ = Some ?r |- _ =>
      destruct (c2c_count_end_law _ _ _ _ _ _ Hc Hbq) as [_ [_ [_ [Hr _]]]] end.
    match goal with Ht : total_count_c2c _ _ _ = Some ?E |- _ =>
      destruct (total_count_c2c_law _ _ _ _ Ht Hr) as [_ [Hn [_ [HE0 _]]]]; exists n, E end.
    simpl. auto.
  - intros s r Hr H. unfold plan_start_c2c in H. inv_guards.
    match goal with Ht : total_count_c2c _ ?n _ = Some ?E |- _ =>
      destruct (total_count_c2c_law _ _ _ _ Ht Hr) as [_ [Hn [_ [HE0 _]]]]; exists n, E end.
    simpl. auto.
  - intros e r Hr H. unfold plan_end_c2c in H. inv_guards.
    match goal with Ht : total_count_c2c _ ?n _ = Some ?E |- _ =>
      destruct (total_count_c2c_law _ _ _ _ Ht Hr) as [_ [Hn [_ [HE0 _]]]]; exists n, E end.
    simpl. auto.
  - intros E r H. unfold plan_total_c2c in H. inv_guards.
    match goal with Hs : start_count_c2c _ _ ?n _ = Some _ |- _ => unfold start_count_c2c in Hs; inv_guards; exists n, E end.
    match goal with Hc : count_total_c2c _ _ _ _ = Some _ |- _ => unfold count_total_c2c, x_total_c2c in Hc; inv_guards end.
    simpl. auto.
  - intros E s HE H. unfold plan_total_start in H. inv_guards.
    match goal with Hc : c2c_count_end _ _ _ ?n _ = Some _ |- _ =>
      destruct (c2c_count_end_law _ _ _ _ _ _ Hc Hbq) as [_ [Hn _]]; exists n, E end.
    simpl. auto.
  - intros E e HE H. unfold plan_total_end in H. inv_guards.
    match goal with Hc : c2c_count_end _ _ _ ?n _ = Some _ |- _ =>
      destruct (c2c_count_end_law _ _ _ _ _ _ Hc Hbq) as [_ [Hn _]]; exists n, E end.
    simpl. auto.
  - intros s e H. unfold plan_start_end in H. inv_guards.
    match goal with Ht : total_start_end _ _ _ = Some ?E |- _ =>
      destruct (total_start_end_law _ _ _ _ Ht) as [_ [_ [_ [_ HE]]]] end.
    match goal with Hc : c2c_count_end _ _ _ ?n _ = Some _ |- _ =>
      destruct (c2c_count_end_law _ _ _ _ _ _ Hc Hbq) as [_ [Hn _]]; exists n end.
    exists x. simpl. auto.
Qed.
