(** C09 - the centre of a sphere shape follows every sequence of transformations when it is kept by
    reference, and only every second mirror when it is looked up by position (Model/C09_Sphere.v). *)
From Coq Require Import List Bool Arith ZArith Lia Permutation.
From CB Require Import Model.C09_Sphere.
Import ListNotations.

(** * 1. boolean predicates *)
Lemma memb_In : forall r l, memb r l = true <-> In r l.
Proof.
  intros r l. unfold memb. rewrite existsb_exists. split.
  - intros [x [Hin He]]. apply Nat.eqb_eq in He. subst. exact Hin.
  - intros Hin. exists r. split; [exact Hin | apply Nat.eqb_refl].
Qed.

Lemma nodupb_NoDup : forall l, nodupb l = true <-> NoDup l.
Proof.
  induction l as [|x t IH]; simpl.
  - split; [constructor | reflexivity].
  - rewrite andb_true_iff, negb_true_iff, IH. split.
    + intros [Hm Ht]. constructor; [|exact Ht]. intro Hin. apply memb_In in Hin. congruence.
    + intros Hn. inversion Hn as [|? ? Hx Ht]; subst. split; [|exact Ht].
      destruct (memb x t) eqn:E; [|reflexivity]. apply memb_In in E. contradiction.
Qed.

(** * 2. one cell, a list of references *)
Section Heap.
Context {P : Type}.
Implicit Types (f : P -> P) (h : heap P).

Lemma upd_length : forall f r h, length (upd f r h) = length h.
Proof. intros f r h. revert r. induction h as [|x t IH]; intros [|r]; simpl; auto. Qed.

Lemma upd_same : forall f r h, nth_error (upd f r h) r = option_map f (nth_error h r).
Proof. intros f r h. revert r. induction h as [|x t IH]; intros [|r]; simpl; auto. Qed.

Lemma upd_other : forall f r r' h, r <> r' -> nth_error (upd f r h) r' = nth_error h r'.
Proof.
  intros f r r' h. revert r r'. induction h as [|x t IH]; intros [|r] [|r'] Hne; simpl;
    try reflexivity; try (exfalso; apply Hne; reflexivity).
  apply IH. congruence.
Qed.

Lemma apply_refs_cons : forall f r rs h, apply_refs f (r :: rs) h = apply_refs f rs (upd f r h).
Proof. reflexivity. Qed.

Lemma apply_refs_app : forall f rs1 rs2 h, apply_refs f (rs1 ++ rs2) h = apply_refs f rs2 (apply_refs f rs1 h).
Proof. intros. unfold apply_refs. apply fold_left_app. Qed.

Lemma apply_refs_length : forall f rs h, length (apply_refs f rs h) = length h.
Proof.
  intros f rs. induction rs as [|r rs IH]; intros h; [reflexivity|].
  rewrite apply_refs_cons, IH. apply upd_length.
Qed.

(** frame: a cell that is not referenced keeps its value *)
Lemma apply_refs_notin : forall f rs h r, ~ In r rs -> nth_error (apply_refs f rs h) r = nth_error h r.
Proof.
  intros f rs. induction rs as [|a rs IH]; intros h r Hn; [reflexivity|].
  rewrite apply_refs_cons, IH by (intro; apply Hn; right; assumption).
  apply upd_other. intro; subst; apply Hn; left; reflexivity.
Qed.

(** a cell referenced exactly once is moved exactly once *)
Lemma apply_refs_in : forall f rs h r, NoDup rs -> In r rs ->
  nth_error (apply_refs f rs h) r = option_map f (nth_error h r).
Proof.
  intros f rs. induction rs as [|a rs IH]; intros h r Hnd Hin; [contradiction|].
  inversion Hnd as [|? ? Ha Hrs]; subst. rewrite apply_refs_cons.
  destruct Hin as [->|Hin].
  - rewrite apply_refs_notin by exact Ha. apply upd_same.
  - rewrite IH by assumption. f_equal. apply upd_other. intro; subst; contradiction.
Qed.

(** * 3. shapes *)
Lemma shape_apply_refs : forall f sh h, shape_apply f sh h = apply_refs f (shape_refs sh) h.
Proof.
  intros f sh. induction sh as [|o t IH]; intros h; [reflexivity|].
  simpl shape_refs. rewrite apply_refs_app. unfold shape_apply in *. simpl. rewrite IH. reflexivity.
Qed.

(** mirroring the operations one after the other = mirroring all points, inverting all operations *)
Lemma shape_mirror_eq : forall f sh h, shape_mirror f sh h = (map op_invert sh, shape_apply f sh h).
Proof.
  intros f sh. induction sh as [|o t IH]; intros h; [reflexivity|].
  simpl. rewrite IH. reflexivity.
Qed.
End Heap.

Lemma op_invert_invol : forall o, op_invert (op_invert o) = o.
Proof. intros [b t]. reflexivity. Qed.

Lemma map_op_invert_invol : forall sh, map op_invert (map op_invert sh) = sh.
Proof. intros sh. rewrite map_map. rewrite <- (map_id sh) at 2. apply map_ext. apply op_invert_invol. Qed.

Lemma shape_refs_invert : forall sh, Permutation (shape_refs (map op_invert sh)) (shape_refs sh).
Proof.
  induction sh as [|o t IH]; [constructor|].
  simpl. apply Permutation_app; [|exact IH]. unfold op_refs. simpl. apply Permutation_app_comm.
Qed.

Lemma wf_NoDup : forall sh, wf sh = true <-> NoDup (shape_refs sh).
Proof. intros. apply nodupb_NoDup. Qed.

Lemma wf_invert : forall sh, wf sh = true -> wf (map op_invert sh) = true.
Proof.
  intros sh H. apply wf_NoDup. apply wf_NoDup in H.
  eapply Permutation_NoDup; [apply Permutation_sym, shape_refs_invert | exact H].
Qed.

Lemma corner0_In : forall sh r, corner0 sh = Some r -> In r (shape_refs sh).
Proof.
  intros [|[b t] sh] r H; [discriminate|]. simpl in *. destruct b as [|x b]; [discriminate|].
  simpl in H. inversion H; subst. left. reflexivity.
Qed.

(** * 4. one step *)
Section Steps.
Context {P : Type}.
Implicit Types (ts : list (step P)) (h : heap P) (t : step P).

(** the shape after a step *)
Lemma do_step_shape : forall t sh h,
  fst (do_step t (sh, h)) = if is_mirror t then map op_invert sh else sh.
Proof. intros [f|f] sh h; simpl; [reflexivity | rewrite shape_mirror_eq; reflexivity]. Qed.

(** the heap after a step: in both cases the leaf map over the references of the shape *)
Lemma do_step_heap : forall t sh h,
  snd (do_step t (sh, h)) = apply_refs (step_map t) (shape_refs sh) h.
Proof. intros [f|f] sh h; simpl; [|rewrite shape_mirror_eq; simpl]; apply shape_apply_refs. Qed.

Lemma do_step_wf : forall t sh h, wf sh = true -> wf (fst (do_step t (sh, h))) = true.
Proof. intros t sh h H. rewrite do_step_shape. destruct (is_mirror t); [apply wf_invert|]; exact H. Qed.

Lemma do_step_refs : forall t sh h r, In r (shape_refs sh) <-> In r (shape_refs (fst (do_step t (sh, h)))).
Proof.
  intros t sh h r. rewrite do_step_shape. destruct (is_mirror t); [|tauto].
  split; apply Permutation_in; [apply Permutation_sym|]; apply shape_refs_invert.
Qed.

(** * 5. any sequence: the state after it *)
Lemma run_shape : forall ts sh h,
  fst (run ts (sh, h)) = if Nat.even (mirrors ts) then sh else map op_invert sh.
Proof.
  induction ts as [|t ts IH]; intros sh h; [reflexivity|].
  simpl run. destruct (do_step t (sh, h)) as [sh1 h1] eqn:E.
  rewrite IH. assert (Hs : sh1 = fst (do_step t (sh, h))) by (rewrite E; reflexivity).
  rewrite do_step_shape in Hs. unfold mirrors in *. simpl filter.
  destruct (is_mirror t); subst sh1; [|reflexivity].
  simpl length. rewrite Nat.even_succ, <- Nat.negb_even.
  destruct (Nat.even (length (filter is_mirror ts))); simpl; [reflexivity | apply map_op_invert_invol].
Qed.

(** every referenced cell holds the composed image, every other cell is untouched, no cell is created *)
Lemma run_heap : forall ts sh h, wf sh = true ->
  (forall r, In r (shape_refs sh) ->
     nth_error (snd (run ts (sh, h))) r = option_map (compose ts) (nth_error h r)) /\
  (forall r, ~ In r (shape_refs sh) -> nth_error (snd (run ts (sh, h))) r = nth_error h r) /\
  length (snd (run ts (sh, h))) = length h.
Proof.
  induction ts as [|t ts IH]; intros sh h Hwf.
  - simpl. repeat split; auto. intros r _. destruct (nth_error h r); reflexivity.
  - simpl run. destruct (do_step t (sh, h)) as [sh1 h1] eqn:E.
    assert (Hs : sh1 = fst (do_step t (sh, h))) by (rewrite E; reflexivity).
    assert (Hh : h1 = snd (do_step t (sh, h))) by (rewrite E; reflexivity).
    rewrite do_step_heap in Hh.
    assert (Hwf1 : wf sh1 = true) by (subst sh1; apply do_step_wf; exact Hwf).
    destruct (IH sh1 h1 Hwf1) as [I1 [I2 I3]].
    assert (Hrefs : forall r, In r (shape_refs sh) <-> In r (shape_refs sh1)) by (intro r; subst sh1; apply do_step_refs).
    apply wf_NoDup in Hwf.
    split; [|split].
    + intros r Hin. rewrite I1 by (apply Hrefs; exact Hin). subst h1.
      rewrite apply_refs_in by assumption. destruct (nth_error h r); reflexivity.
    + intros r Hn. rewrite I2 by (rewrite <- Hrefs; exact Hn). subst h1. apply apply_refs_notin. exact Hn.
    + rewrite I3. subst h1. apply apply_refs_length.
Qed.

(** * 6. the theorems *)
(** any remembered Point object of the shape (centre, radius point) follows the sequence *)
Theorem reference_follows : forall ts sh h r c,
  wf sh = true -> In r (shape_refs sh) -> nth_error h r = Some c ->
  center_by_reference r (snd (run ts (sh, h))) = Some (compose ts c).
Proof.
  intros ts sh h r c Hwf Hin Hc. unfold center_by_reference.
  destruct (run_heap ts sh h Hwf) as [H1 _]. rewrite H1 by exact Hin. rewrite Hc. reflexivity.
Qed.

(** the repaired code: the reference kept at construction *)
Theorem center_by_reference_follows : forall ts sh h r c,
  wf sh = true -> keep_center sh = Some r -> center_by_reference r h = Some c ->
  center_by_reference r (snd (run ts (sh, h))) = Some (compose ts c).
Proof. intros ts sh h r c Hwf Hk Hc. apply reference_follows; [exact Hwf | apply corner0_In; exact Hk | exact Hc]. Qed.

(** the old code agrees with it when the number of mirrors is even ... *)
Theorem center_by_position_even : forall ts sh h r,
  keep_center sh = Some r -> Nat.even (mirrors ts) = true ->
  center_by_position (fst (run ts (sh, h))) (snd (run ts (sh, h))) = center_by_reference r (snd (run ts (sh, h))).
Proof.
  intros ts sh h r Hk He. rewrite run_shape, He. unfold center_by_position, keep_center in *. rewrite Hk. reflexivity.
Qed.

Corollary center_by_position_even_follows : forall ts sh h c,
  wf sh = true -> center_by_position sh h = Some c -> Nat.even (mirrors ts) = true ->
  center_by_position (fst (run ts (sh, h))) (snd (run ts (sh, h))) = Some (compose ts c).
Proof.
  intros ts sh h c Hwf Hc He. unfold center_by_position in Hc. destruct (corner0 sh) as [r|] eqn:Hk; [|discriminate].
  rewrite (center_by_position_even ts sh h r Hk He). apply center_by_reference_follows; assumption.
Qed.

(** ... and when it is odd it returns the image of corner 0 of what was the TOP face of operation 0 *)
Theorem center_by_position_odd : forall ts sh h r c,
  wf sh = true -> corner0 (map op_invert sh) = Some r -> nth_error h r = Some c -> Nat.even (mirrors ts) = false ->
  center_by_position (fst (run ts (sh, h))) (snd (run ts (sh, h))) = Some (compose ts c).
Proof.
  intros ts sh h r c Hwf Hk Hc Ho. rewrite run_shape, Ho. unfold center_by_position. rewrite Hk.
  apply reference_follows; [exact Hwf | | exact Hc].
  apply (Permutation_in _ (shape_refs_invert sh)). apply corner0_In. exact Hk.
Qed.
End Steps.

(** * 7. copies *)
Lemma shape_refs_shift : forall n sh, shape_refs (map (shift_oper n) sh) = map (Nat.add n) (shape_refs sh).
Proof.
  intros n sh. induction sh as [|o t IH]; [reflexivity|].
  simpl. rewrite IH, map_app. f_equal. unfold op_refs. simpl. rewrite map_app. reflexivity.
Qed.

Lemma wf_shift : forall n sh, wf sh = true -> wf (map (shift_oper n) sh) = true.
Proof.
  intros n sh H. apply wf_NoDup. apply wf_NoDup in H. rewrite shape_refs_shift.
  apply FinFun.Injective_map_NoDup; [|exact H]. intros a b Hab. lia.
Qed.

Lemma corner0_shift : forall n sh, corner0 (map (shift_oper n) sh) = option_map (Nat.add n) (corner0 sh).
Proof. intros n [|[b t] sh]; [reflexivity|]. simpl. destruct b; reflexivity. Qed.

Section Copy.
Context {P : Type}.
Implicit Types (ts : list (step P)) (h : heap P).

Lemma copy_cell : forall h r, nth_error (h ++ h) (copy_ref h r) = nth_error h r.
Proof.
  intros h r. unfold copy_ref. rewrite nth_error_app2 by lia. f_equal. lia.
Qed.

(** the copy is well formed, its corner 0 is the remapped corner 0, and it has the same centre *)
Lemma copy_wf : forall sh h, wf sh = true -> wf (fst (shape_copy sh h)) = true.
Proof. intros. apply wf_shift. assumption. Qed.

Lemma copy_keep_center : forall sh h r,
  keep_center sh = Some r -> keep_center (fst (shape_copy sh h)) = Some (copy_ref h r).
Proof. intros sh h r H. unfold keep_center, shape_copy in *. simpl. rewrite corner0_shift, H. reflexivity. Qed.

Lemma copy_same_center : forall sh h,
  center_by_position (fst (shape_copy sh h)) (snd (shape_copy sh h)) = center_by_position sh h.
Proof.
  intros sh h. unfold center_by_position, shape_copy. simpl. rewrite corner0_shift.
  destruct (corner0 sh) as [r|]; [|reflexivity]. simpl. apply (copy_cell h r).
Qed.

(** transformations of the copy: its remembered (remapped) centre follows, the original's centre stays,
    and the positional lookup agrees for an even number of mirrors *)
Theorem copy_center_follows : forall ts sh h r c,
  wf sh = true -> keep_center sh = Some r -> center_by_reference r h = Some c ->
  let cp := shape_copy sh h in
  let st := run ts cp in
  center_by_reference (copy_ref h r) (snd cp) = Some c /\
  center_by_reference (copy_ref h r) (snd st) = Some (compose ts c) /\
  center_by_reference r (snd st) = Some c /\
  (Nat.even (mirrors ts) = true -> center_by_position (fst st) (snd st) = Some (compose ts c)).
Proof.
  intros ts sh h r c Hwf Hk Hc cp st. unfold center_by_reference in Hc.
  assert (Hc0 : center_by_reference (copy_ref h r) (snd cp) = Some c).
  { unfold center_by_reference, cp, shape_copy. simpl. rewrite copy_cell. exact Hc. }
  assert (Hwf' : wf (fst cp) = true) by (apply copy_wf; exact Hwf).
  assert (Hk' : keep_center (fst cp) = Some (copy_ref h r)) by (apply copy_keep_center; exact Hk).
  assert (Hst : st = run ts (fst cp, snd cp)) by (unfold st; destruct cp; reflexivity).
  assert (H2 : center_by_reference (copy_ref h r) (snd st) = Some (compose ts c)).
  { rewrite Hst. apply center_by_reference_follows; assumption. }
  split; [exact Hc0|]. split; [exact H2|]. split.
  - rewrite Hst. unfold center_by_reference. destruct (run_heap ts (fst cp) (snd cp) Hwf') as [_ [Hfr _]].
    rewrite Hfr.
    + unfold cp, shape_copy. simpl. rewrite nth_error_app1; [exact Hc|]. apply nth_error_Some. congruence.
    + unfold cp, shape_copy. simpl. rewrite shape_refs_shift. intro Hin. apply in_map_iff in Hin.
      destruct Hin as [x [Hx _]]. assert (r < length h) by (apply nth_error_Some; congruence). lia.
  - intro He. rewrite <- H2. rewrite Hst. apply center_by_position_even; assumption.
Qed.
End Copy.

(** * 7b. everything together (the statement of Properties/C09.v) *)
Theorem sphere_center_follows : forall (P : Type) (ts : list (step P)) (sh : shape) (h : heap P) (r : nat) (c : P),
  wf sh = true -> keep_center sh = Some r -> center_by_reference r h = Some c ->
  let st := run ts (sh, h) in
  let cp := shape_copy sh h in
  let st' := run ts cp in
  center_by_reference r (snd st) = Some (compose ts c) /\
  (Nat.even (mirrors ts) = true -> center_by_position (fst st) (snd st) = Some (compose ts c)) /\
  (forall r' c', In r' (shape_refs sh) -> center_by_reference r' h = Some c' ->
     center_by_reference r' (snd st) = Some (compose ts c')) /\
  (forall r', ~ In r' (shape_refs sh) -> center_by_reference r' (snd st) = center_by_reference r' h) /\
  (keep_center (fst cp) = Some (copy_ref h r) /\
   center_by_reference (copy_ref h r) (snd cp) = Some c /\
   center_by_reference (copy_ref h r) (snd st') = Some (compose ts c) /\
   center_by_reference r (snd st') = Some c /\
   (Nat.even (mirrors ts) = true -> center_by_position (fst st') (snd st') = Some (compose ts c))).
Proof.
  intros P ts sh h r c Hwf Hk Hc st cp st'.
  split; [apply center_by_reference_follows; assumption|].
  split.
  { intro He. apply center_by_position_even_follows; try assumption.
    unfold center_by_position. unfold keep_center in Hk. rewrite Hk. exact Hc. }
  split; [intros r' c' Hin Hc'; apply reference_follows; assumption|].
  split; [intros r' Hn; destruct (run_heap ts sh h Hwf) as [_ [Hfr _]]; apply Hfr; exact Hn|].
  split; [apply copy_keep_center; exact Hk|].
  exact (copy_center_follows ts sh h r c Hwf Hk Hc).
Qed.

(** * 8. the hypotheses are satisfiable: the miniature eighth sphere *)
Example mini_wf :
  wf mini_shape = true /\ four_corners mini_shape = true /\ in_heap mini_shape mini_heap = true /\
  keep_center mini_shape = Some 0 /\ center_by_reference 0 mini_heap = Some (0, 0, 0)%Z /\
  center_by_position mini_shape mini_heap = Some (0, 0, 0)%Z.
Proof. vm_compute. repeat split. Qed.

Example mini_run :
  let ts := [TMirror mirror_x1; TApply shift_y5; TMirror mirror_x1; TMirror mirror_x1] in
  let st := run ts (mini_shape, mini_heap) in
  compose ts (0, 0, 0)%Z = (2, 5, 0)%Z /\ center_by_reference 0 (snd st) = Some (2, 5, 0)%Z /\
  center_by_position (fst st) (snd st) = Some (2, 5, 1)%Z.
Proof. vm_compute. repeat split. Qed.

(** * 9. the defect: looked up by position, the centre does NOT follow a single mirror *)
Definition by_position_follows_stmt : Prop :=
  forall (ts : list (step pt)) sh h c,
    wf sh = true -> center_by_position sh h = Some c ->
    center_by_position (fst (run ts (sh, h))) (snd (run ts (sh, h))) = Some (compose ts c).

Theorem center_by_position_refuted :
  ~ by_position_follows_stmt /\
  (let st := run [TMirror mirror_x1] (mini_shape, mini_heap) in
   center_by_reference 0 (snd st) = Some (2, 0, 0)%Z /\ center_by_position (fst st) (snd st) = Some (2, 0, 1)%Z) /\
  (let st := run [TMirror mirror_x1] (shape_copy mini_shape mini_heap) in
   center_by_reference (copy_ref mini_heap 0) (snd st) = Some (2, 0, 0)%Z /\
   center_by_position (fst st) (snd st) = Some (2, 0, 1)%Z).
Proof.
  split; [|split; vm_compute; split; reflexivity].
  intro H. specialize (H [TMirror mirror_x1] mini_shape mini_heap (0, 0, 0)%Z eq_refl eq_refl).
  vm_compute in H. discriminate H.
Qed.
