(** C17 - staged evaluation of Model/C17_ClampLink.v for the interval-checked correspondence.

    The model functions nest [unit] (a square root) several levels deep; fully unfolded, one
    RotationLink update is a tree of ~10^5 nodes and [interval] needs ~25 s for it.  The generated
    case files therefore state their goal directly about the model functions applied to literals,
    unfold the composite definitions only ([prep]), and then run [stage_all]: it repeatedly picks an
    innermost occurrence of [unit _], [norm _], [rl_radius _ _ _], [cos _] or [sin _], lets Coq
    compute an enclosure of it ([interval_intro], 40 bits: relative width 1e-12, the tolerances are 1e-9; earlier enclosures are used for the
    variables it contains), and replaces every occurrence of that term in the goal by a variable that
    is only known to lie in the enclosure.  This is sound (the goal is proved for every value in the
    enclosure), shares common subterms, and nothing is computed outside Coq.  [fin] closes the rest
    with [interval].

    Only two lemmas (enclosing a clipped value) and tactics; the theorems of the property are in
    Proofs/C17_ClampLink.v. *)
From Coq Require Import Reals List Lra.
From Interval Require Import Tactic.
From CB Require Import Base.Vec3 Model.C17_ClampLink.
Import ListNotations.
Open Scope R_scope.

(** enclosing a clipped value: sound for any [ta], [tb] *)
Lemma clipR_lower lo hi x ta : ta <= lo \/ (ta <= hi /\ ta <= x) -> ta <= clipR lo hi x.
Proof.
  unfold clipR, Rmax, Rmin. intros [H|[H1 H2]]; repeat destruct Rle_dec; lra.
Qed.

Lemma clipR_upper lo hi x tb : lo <= tb /\ (hi <= tb \/ x <= tb) -> clipR lo hi x <= tb.
Proof.
  unfold clipR, Rmax, Rmin. intros [H0 [H|H]]; repeat destruct Rle_dec; lra.
Qed.

(** closeness in the Euclidean norm (one [interval] call instead of three); it implies the
    component-wise [vclose] of the model file *)
Definition vnear (a b : vec) (tol : R) : Prop := norm2 (vsub a b) <= tol * tol.

Lemma vnear_vclose a b tol : 0 <= tol -> vnear a b tol -> vclose a b tol.
Proof.
  destruct a as [[a1 a2] a3], b as [[b1 b2] b3]. unfold vnear, vclose, norm2, dot, vsub, vx, vy, vz. cbn [fst snd].
  intros Ht H.
  assert (Q : forall x, x * x <= tol * tol -> Rabs x <= tol).
  { intros x Hx. apply Rabs_le. split; nra. }
  pose proof (Rle_0_sqr (a1 - b1)) as Q1. pose proof (Rle_0_sqr (a2 - b2)) as Q2. pose proof (Rle_0_sqr (a3 - b3)) as Q3.
  unfold Rsqr in *. repeat split; apply Q; lra.
Qed.

(** composite definitions: the link state machines, the clamp record, and the geometric functions
    down to the primitives [unit norm rl_radius rot_cs mirror_mat_apply clipR dot cross ...] *)
Ltac prep :=
  cbv [clamp_update clamp_position clamp_params curve_pos surface_pos free_pos
       tl_init tl_step tl_run tl_leader tl_follower tl_vector
       rl_mk rl_step_cs rl_run_cs rl_leader rl_follower rl_const
       rl_transform_cs rl_cos rl_sin rc_origin rc_axis rc_r0 rc_f0
       sl_init sl_step sl_run sl_leader sl_follower sl_normal sl_origin mirror
       line_pos line_closest_t line_default_bounds
       plane_pos plane_u plane_v plane_closest_uv plane_closest_point
       radial_pos radial_pos_k radial_radius point_to_line_distance rotate
       fold_left fst snd].

Ltac unfv :=
  cbv [unit rot_cs mirror_mat_apply rl_radius rl_height vclose
       vadd vsub vscale vopp dot cross norm norm2 vx vy vz fst snd dy].
Ltac unfv_in E :=
  cbv [unit rot_cs mirror_mat_apply rl_radius rl_height vclose
       vadd vsub vscale vopp dot cross norm norm2 vx vy vz fst snd dy] in E.

Ltac has_staged x :=
  lazymatch x with
  | context [unit _] => idtac
  | context [norm _] => idtac
  | context [rl_radius _ _ _] => idtac
  | context [cos _] => idtac
  | context [sin _] => idtac
  | context [clipR _ _ _] => idtac
  end.
Ltac inner x := tryif has_staged x then fail else idtac.

Ltac stage_vec T :=
  let v := fresh "v" in
  let B1 := fresh "B" in let B2 := fresh "B" in let B3 := fresh "B" in
  let e1 := eval cbv [unit rot_cs mirror_mat_apply rl_radius rl_height vadd vsub vscale vopp dot cross norm norm2 vx vy vz fst snd dy] in (vx T) in
  let e2 := eval cbv [unit rot_cs mirror_mat_apply rl_radius rl_height vadd vsub vscale vopp dot cross norm norm2 vx vy vz fst snd dy] in (vy T) in
  let e3 := eval cbv [unit rot_cs mirror_mat_apply rl_radius rl_height vadd vsub vscale vopp dot cross norm norm2 vx vy vz fst snd dy] in (vz T) in
  (interval_intro e1 with (i_prec 40) as B1);
  (interval_intro e2 with (i_prec 40) as B2);
  (interval_intro e3 with (i_prec 40) as B3);
  set (v := T) in *;
  change e1 with (vx v) in B1; change e2 with (vy v) in B2; change e3 with (vz v) in B3;
  clearbody v; destruct v as [[? ?] ?]; cbv [vx vy vz fst snd] in B1, B2, B3.

Ltac stage_R T :=
  let x := fresh "x" in let B := fresh "B" in
  let e := eval cbv [unit rot_cs mirror_mat_apply rl_radius rl_height vadd vsub vscale vopp dot cross norm norm2 vx vy vz fst snd dy] in T in
  (interval_intro e with (i_prec 40) as B);
  set (x := T) in *; change e with x in B; clearbody x.

Ltac stage_step :=
  match goal with
  | |- context [unit ?x] => inner x; stage_vec (unit x)
  | |- context [rl_radius ?o ?a ?p] => inner o; inner a; inner p; stage_vec (rl_radius o a p)
  | |- context [norm ?x] => inner x; stage_R (norm x)
  | |- context [cos ?x] => inner x; stage_R (cos x)
  | |- context [sin ?x] => inner x; stage_R (sin x)
  end.
Ltac stage_all := repeat stage_step.

(** [clipR lo hi x] (its arguments already staged): [ta], [tb] are any two numbers proposed by the
    harness; Coq checks that they enclose the clipped value *)
Ltac stage_clip ta tb :=
  match goal with
  | |- context [clipR ?lo ?hi ?x] =>
      inner lo; inner hi; inner x;
      let t := fresh "t" in let B := fresh "B" in
      assert (B : ta <= clipR lo hi x <= tb)
        by (split;
            [ apply clipR_lower; unfv;
              first [ left; interval with (i_prec 80) | right; split; interval with (i_prec 80) ]
            | apply clipR_upper; unfv; split;
              [ interval with (i_prec 80) | first [ left; interval with (i_prec 80) | right; interval with (i_prec 80) ] ] ]);
      set (t := clipR lo hi x) in *; clearbody t; unfv_in B
  end.

Ltac fin := cbv [vnear]; unfv; repeat split; interval with (i_prec 60).
