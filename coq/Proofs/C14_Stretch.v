(** C14 - boxes: with inactive guards every angle term of a rectangular box vanishes, the value is
    the aspect term [qs w_as (log10 (longest / shortest))]; stretching a cube along one direction
    never lowers the value and the three directions give the same value. *)
From Coq Require Import Reals List Lra Lia Psatz Arith.
From CB Require Import Base.Vec3 Model.C14_Quality Proofs.C14_Algebra Proofs.C14_Scale.
Import ListNotations.
Open Scope R_scope.

(** zero guard: [unitg] is [unit] *)
Lemma unitg_zero add v : unitg add 0 v = unit v.
Proof.
  unfold unitg, unit, guard. destruct add.
  - rewrite Rplus_0_r. reflexivity.
  - rewrite rmax_ge by apply norm_nonneg. reflexivity.
Qed.

Lemma norm_pos_of_norm2 v : 0 < norm2 v -> norm v <> 0.
Proof. intros H. unfold norm. apply Rgt_not_eq. apply sqrt_lt_R0. assumption. Qed.

Lemma norm2_pos_scale s v : s <> 0 -> 0 < norm2 v -> 0 < norm2 (vscale s v).
Proof. intros Hs Hv. rewrite norm2_scale. assert (0 < s * s) by nra. nra. Qed.

(** parallel vectors (positive factors) make the angle zero *)
Lemma parallel_term w0 k s1 s2 w :
  0 < s1 -> 0 < s2 -> 0 < norm2 w ->
  qs w0 (deg (macos (dot (unitg (additive k) 0 (vscale s1 w)) (unit (vscale s2 w))))) = 0.
Proof.
  intros H1 H2 Hw. rewrite unitg_zero, !unit_scale by assumption.
  rewrite dot_unit_self by (apply norm_pos_of_norm2; assumption).
  rewrite macos_1, deg_0. apply qs_0.
Qed.

(** perpendicular edges make the inner-angle deviation zero *)
Lemma perpendicular_term w0 k u v :
  dot u v = 0 ->
  qs w0 (Rabs (deg (macos (dot (unitg (additive k) 0 u) (unitg (additive k) 0 v))) - 90)) = 0.
Proof.
  intros H. rewrite !unitg_zero. unfold unit. rewrite dot_scale_l, dot_scale_r, H, !Rmult_0_r.
  rewrite macos_0, deg_half_pi. replace (90 - 90) with 0 by lra. rewrite Rabs_R0. apply qs_0.
Qed.

(** a rectangle [A, A+u, A+u+v, A+v] with [u.v = 0] whose cell centre lies straight above its
    centre on the side the normal [u x v] points to: all eight terms of the side vanish *)
Ltac comp3 A u v :=
  destruct A as [[?a1 ?a2] ?a3], u as [[?u1 ?u2] ?u3], v as [[?v1 ?v2] ?v3];
  cbv [c4 cross dot vsub vadd vscale vopp vx vy vz fst snd] in *.

Lemma rect_normals A u v :
  let B := vadd A u in let C := vadd (vadd A u) v in let D := vadd A v in
  let sc := c4 A B C D in
  cross (vsub A sc) (vsub B sc) = vscale (/ 2) (cross u v) /\
  cross (vsub B sc) (vsub C sc) = vscale (/ 2) (cross u v) /\
  cross (vsub C sc) (vsub D sc) = vscale (/ 2) (cross u v) /\
  cross (vsub D sc) (vsub A sc) = vscale (/ 2) (cross u v).
Proof.
  intros B C D sc. subst B C D sc. comp3 A u v.
  repeat split; (f_equal; [f_equal|]); field.
Qed.

Lemma rect_edges A u v :
  let B := vadd A u in let C := vadd (vadd A u) v in let D := vadd A v in
  vsub B A = u /\ vsub D A = v /\ vsub C B = v /\ vsub A B = vopp u /\
  vsub D C = vopp u /\ vsub B C = vopp v /\ vsub A D = vopp v /\ vsub C D = u.
Proof.
  intros B C D. subst B C D. comp3 A u v.
  repeat split; (f_equal; [f_equal|]); ring.
Qed.

Lemma dot_opp_l u v : dot (vopp u) v = - dot u v.
Proof. destruct u as [[? ?] ?], v as [[? ?] ?]. cbv [dot vopp vx vy vz fst snd]. ring. Qed.
Lemma dot_opp_r u v : dot u (vopp v) = - dot u v.
Proof. destruct u as [[? ?] ?], v as [[? ?] ?]. cbv [dot vopp vx vy vz fst snd]. ring. Qed.

Lemma side_term_rect k center A u v mu :
  dot u v = 0 -> 0 < norm2 u -> 0 < norm2 v -> 0 < mu ->
  vsub center (c4 A (vadd A u) (vadd (vadd A u) v) (vadd A v)) = vscale mu (cross u v) ->
  side_term (with_eps k 0 0) center None A (vadd A u) (vadd (vadd A u) v) (vadd A v) = 0.
Proof.
  intros Huv Hu Hv Hmu Hc.
  assert (Hw : 0 < norm2 (cross u v)) by (rewrite lagrange, Huv; nra).
  destruct (rect_normals A u v) as (N1 & N2 & N3 & N4).
  destruct (rect_edges A u v) as (E1 & E2 & E3 & E4 & E5 & E6 & E7 & E8).
  cbv zeta in N1, N2, N3, N4, E1, E2, E3, E4, E5, E6, E7, E8.
  unfold side_term. rewrite Hc. unfold nonortho1, inner1. cbn [with_eps additive eps_a eps_l w_no w_in].
  rewrite N1, N2, N3, N4, E1, E2, E3, E4, E5, E6, E7, E8.
  rewrite !(parallel_term (w_no k) k (/ 2) mu (cross u v)) by (assumption || lra).
  rewrite !perpendicular_term; [lra | | | | ];
    rewrite ?dot_opp_l, ?dot_opp_r, ?(dot_comm v u), ?Huv; lra.
Qed.

Lemma side_term_rect' k center A B C D u v mu :
  B = vadd A u -> C = vadd (vadd A u) v -> D = vadd A v ->
  dot u v = 0 -> 0 < norm2 u -> 0 < norm2 v -> 0 < mu ->
  vsub center (c4 A B C D) = vscale mu (cross u v) ->
  side_term (with_eps k 0 0) center None A B C D = 0.
Proof. intros -> -> ->. apply side_term_rect. Qed.

(** ** the box [a x b x c] in the reference numbering *)
Definition box (a b c : R) : nat -> vec := fun i =>
  match i with
  | 0%nat => (0, 0, 0) | 1%nat => (a, 0, 0) | 2%nat => (a, b, 0) | 3%nat => (0, b, 0)
  | 4%nat => (0, 0, c) | 5%nat => (a, 0, c) | 6%nat => (a, b, c) | _ => (0, b, c)
  end.

Lemma centre8_box a b c : centre8 (box a b c) = (a / 2, b / 2, c / 2).
Proof.
  unfold centre8. cbn [seq map vsum fold_right box].
  cbv [vzero vadd vscale vx vy vz fst snd]. f_equal; [f_equal|]; field.
Qed.

Ltac veq := cbv [c4 cross dot norm2 vsub vadd vscale vopp vx vy vz fst snd]; try (f_equal; [f_equal|]); try field; try nra; try lra.

Lemma box_sides_zero k a b c : 0 < a -> 0 < b -> 0 < c ->
  rsum (map (fun i => side_term_l (with_eps k 0 0) (centre8 (box a b c)) (none_nb i) (map (box a b c) (nth i ref_T [])))
            (seq 0 (length ref_T))) = 0.
Proof.
  intros Ha Hb Hc. rewrite centre8_box.
  assert (Hab : 0 < a * b) by nra. assert (Hbc : 0 < b * c) by nra. assert (Hac : 0 < a * c) by nra.
  cbn [ref_T length seq map nth rsum fold_right side_term_l box none_nb].
  rewrite (side_term_rect' k _ _ _ _ _ (a, 0, 0) (0, b, 0) (c / (2 * (a * b)))); [ | veq ..].
  2: { apply Rdiv_lt_0_compat; lra. }
  rewrite (side_term_rect' k _ _ _ _ _ (a, 0, 0) (0, - b, 0) (c / (2 * (a * b)))); [ | veq ..].
  2: { apply Rdiv_lt_0_compat; lra. }
  rewrite (side_term_rect' k _ _ _ _ _ (0, 0, - c) (0, b, 0) (a / (2 * (b * c)))); [ | veq ..].
  2: { apply Rdiv_lt_0_compat; lra. }
  rewrite (side_term_rect' k _ _ _ _ _ (0, 0, - c) (0, - b, 0) (a / (2 * (b * c)))); [ | veq ..].
  2: { apply Rdiv_lt_0_compat; lra. }
  rewrite (side_term_rect' k _ _ _ _ _ (0, 0, c) (a, 0, 0) (b / (2 * (a * c)))); [ | veq ..].
  2: { apply Rdiv_lt_0_compat; lra. }
  rewrite (side_term_rect' k _ _ _ _ _ (0, 0, - c) (a, 0, 0) (b / (2 * (a * c)))); [ | veq ..].
  2: { apply Rdiv_lt_0_compat; lra. }
  lra.
Qed.

Lemma norm_of_square v x : 0 <= x -> norm2 v = x * x -> norm v = x.
Proof. intros Hx H. unfold norm. rewrite H. apply sqrt_square. assumption. Qed.

Lemma box_lengths a b c : 0 < a -> 0 < b -> 0 < c ->
  map (edge_len (box a b c)) ref_E = [a; a; a; a; b; b; b; b; c; c; c; c].
Proof.
  intros Ha Hb Hc. cbn [ref_E map]. unfold edge_len. cbn [fst snd box].
  repeat match goal with |- (_ :: _) = (_ :: _) => f_equal end;
    (apply norm_of_square; [lra | cbv [norm2 dot vsub vx vy vz fst snd]; ring]).
Qed.

(** the value of a box is its aspect term *)
Theorem hexq_box k a b c : 0 < a -> 0 < b -> 0 < c ->
  hexq (with_eps k 0 0) ref_T ref_E (box a b c) none_nb
  = aspect (with_eps k 0 0) [a; a; a; a; b; b; b; b; c; c; c; c].
Proof.
  intros Ha Hb Hc. unfold hexq. rewrite box_sides_zero, box_lengths by assumption. lra.
Qed.

Lemma rmax_idem x : rmax x x = x.
Proof. rewrite rmax_Rmax. apply Rmax_left. lra. Qed.
Lemma rmin_idem x : rmin x x = x.
Proof. rewrite rmin_Rmin. apply Rmin_left. lra. Qed.

Lemma aspect_stretch k a l : 1 <= a ->
  lmax l = a -> lmin l = 1 -> aspect (with_eps k 0 0) l = qs (w_as k) (ln a / ln 10).
Proof.
  intros Ha H1 H2. unfold aspect. cbn [with_eps additive eps_l w_as]. rewrite H1, H2.
  replace (guard (additive k) 0 1) with 1.
  - unfold Rdiv at 2. rewrite Rinv_1, Rmult_1_r. reflexivity.
  - unfold guard. destruct (additive k); [lra | rewrite rmax_ge; lra].
Qed.

Lemma rmax_1a a : 1 <= a -> rmax 1 a = a.
Proof. intros. rewrite rmax_Rmax. apply Rmax_right. assumption. Qed.
Lemma rmax_a1 a : 1 <= a -> rmax a 1 = a.
Proof. intros. rewrite rmax_Rmax. apply Rmax_left. assumption. Qed.
Lemma rmin_1a a : 1 <= a -> rmin 1 a = 1.
Proof. intros. rewrite rmin_Rmin. apply Rmin_left. assumption. Qed.
Lemma rmin_a1 a : 1 <= a -> rmin a 1 = 1.
Proof. intros. rewrite rmin_Rmin. apply Rmin_right. assumption. Qed.

Ltac minmax Ha :=
  cbn [lmax lmin fold_right];
  repeat first [ rewrite rmax_idem | rewrite rmin_idem
               | rewrite (rmax_1a _ Ha) | rewrite (rmax_a1 _ Ha)
               | rewrite (rmin_1a _ Ha) | rewrite (rmin_a1 _ Ha) ];
  reflexivity.

(** stretching the unit cube by [a >= 1] along x, y or z: the same value [qs w_as (log10 a)] *)
Theorem hexq_stretch_x k a : 1 <= a ->
  hexq (with_eps k 0 0) ref_T ref_E (box a 1 1) none_nb = qs (w_as k) (ln a / ln 10).
Proof.
  intros Ha. rewrite hexq_box by lra. apply aspect_stretch; [assumption | minmax Ha | minmax Ha].
Qed.
Theorem hexq_stretch_y k a : 1 <= a ->
  hexq (with_eps k 0 0) ref_T ref_E (box 1 a 1) none_nb = qs (w_as k) (ln a / ln 10).
Proof.
  intros Ha. rewrite hexq_box by lra. apply aspect_stretch; [assumption | minmax Ha | minmax Ha].
Qed.
Theorem hexq_stretch_z k a : 1 <= a ->
  hexq (with_eps k 0 0) ref_T ref_E (box 1 1 a) none_nb = qs (w_as k) (ln a / ln 10).
Proof.
  intros Ha. rewrite hexq_box by lra. apply aspect_stretch; [assumption | minmax Ha | minmax Ha].
Qed.

(** the cube has value 0; the value of the stretched cube is non-decreasing in the stretch factor *)
Theorem hexq_cube k : hexq (with_eps k 0 0) ref_T ref_E (box 1 1 1) none_nb = 0.
Proof. rewrite hexq_stretch_x by lra. rewrite ln_1. unfold Rdiv. rewrite Rmult_0_l. apply qs_0. Qed.

Theorem stretch_monotone b e f a a' :
  1 <= b -> 0 <= e -> 0 <= f -> 1 <= a <= a' ->
  qs (b, e, f) (ln a / ln 10) <= qs (b, e, f) (ln a' / ln 10).
Proof.
  intros Hb He Hf [H1 H2]. apply qs_mono; try assumption.
  assert (0 < ln 10) by (rewrite <- ln_1; apply ln_increasing; lra).
  apply Rmult_le_compat_r; [left; apply Rinv_0_lt_compat; assumption|].
  destruct H2 as [H2|H2]; [left; apply ln_increasing; lra | subst; lra].
Qed.

(** with the [max] form of the guard the same holds for every area guard <= 1/2 and length guard
    <= 1 (the triangles of a box with edges >= 1 have double area >= 1/2, its edges length >= 1) *)
Lemma le_norm x y v : x <= y -> 0 <= y -> y * y <= norm2 v -> x <= norm v.
Proof.
  intros H1 H2 H3. apply Rle_trans with y; [assumption|]. unfold norm.
  rewrite <- (sqrt_square y) by assumption. apply sqrt_le_1_alt. assumption.
Qed.

Lemma fold_rmin_ge m x r : m <= x -> (forall y, In y r -> m <= y) -> m <= fold_right rmin x r.
Proof.
  intros Hx. induction r; simpl; intros H; [assumption|].
  rewrite rmin_Rmin. apply Rmin_glb; [apply H; left; reflexivity | apply IHr; intros; apply H; right; assumption].
Qed.
Lemma lmin_ge l m : l <> [] -> (forall x, In x l -> m <= x) -> m <= lmin l.
Proof.
  destruct l as [|x r]; [congruence|]. intros _ H. simpl. apply fold_rmin_ge.
  - apply H. left. reflexivity.
  - intros. apply H. right. assumption.
Qed.

Lemma norm2_opp v : norm2 (vopp v) = norm2 v.
Proof. destruct v as [[? ?] ?]. cbv [norm2 dot vopp vx vy vz fst snd]. ring. Qed.

Lemma rect_above ea el A B C D u v :
  B = vadd A u -> C = vadd (vadd A u) v -> D = vadd A v ->
  ea <= 1 / 2 -> 0 <= el <= 1 -> 1 <= norm2 u -> 1 <= norm2 v -> 1 <= norm2 (cross u v) ->
  side_above ea el A B C D.
Proof.
  intros -> -> -> Hea Hel Hu Hv Hw.
  destruct (rect_normals A u v) as (N1 & N2 & N3 & N4).
  destruct (rect_edges A u v) as (E1 & E2 & E3 & E4 & E5 & E6 & E7 & E8).
  cbv zeta in N1, N2, N3, N4, E1, E2, E3, E4, E5, E6, E7, E8.
  unfold side_above, tri_area. rewrite N1, N2, N3, N4, E1, E2, E3, E4, E5, E6, E7, E8.
  assert (A1 : ea <= norm (vscale (/ 2) (cross u v))).
  { apply (le_norm ea (1 / 2)); [assumption | lra | rewrite norm2_scale; lra]. }
  assert (L1 : el <= norm u) by (apply (le_norm el 1); lra).
  assert (L2 : el <= norm v) by (apply (le_norm el 1); lra).
  assert (L3 : el <= norm (vopp u)) by (apply (le_norm el 1); rewrite ?norm2_opp; lra).
  assert (L4 : el <= norm (vopp v)) by (apply (le_norm el 1); rewrite ?norm2_opp; lra).
  repeat split; assumption.
Qed.

Lemma box_above a b c ea el : 1 <= a -> 1 <= b -> 1 <= c -> ea <= 1 / 2 -> 0 <= el <= 1 ->
  hex_above ea el ref_T ref_E (box a b c).
Proof.
  intros Ha Hb Hc Hea Hel.
  assert (Hab2 : 1 <= (a * b) * (a * b)) by (assert (1 <= a * b) by nra; nra).
  assert (Hbc2 : 1 <= (b * c) * (b * c)) by (assert (1 <= b * c) by nra; nra).
  assert (Hac2 : 1 <= (a * c) * (a * c)) by (assert (1 <= a * c) by nra; nra).
  assert (Ha2 : 1 <= a * a) by nra. assert (Hb2 : 1 <= b * b) by nra. assert (Hc2 : 1 <= c * c) by nra.
  split.
  - intro i. destruct (Nat.lt_ge_cases i 6) as [Hi|Hi].
    2: { rewrite nth_overflow by (simpl; lia). exact I. }
    destruct i as [|[|[|[|[|[|i]]]]]]; [.. | lia]; cbn [ref_T nth map box side_above_l].
    + apply (rect_above ea el _ _ _ _ (a, 0, 0) (0, b, 0)); try assumption; veq.
    + apply (rect_above ea el _ _ _ _ (a, 0, 0) (0, - b, 0)); try assumption; veq.
    + apply (rect_above ea el _ _ _ _ (0, 0, - c) (0, b, 0)); try assumption; veq.
    + apply (rect_above ea el _ _ _ _ (0, 0, - c) (0, - b, 0)); try assumption; veq.
    + apply (rect_above ea el _ _ _ _ (0, 0, c) (a, 0, 0)); try assumption; veq.
    + apply (rect_above ea el _ _ _ _ (0, 0, - c) (a, 0, 0)); try assumption; veq.
  - rewrite box_lengths by lra. split; [lra|].
    apply lmin_ge; [discriminate|]. intros x Hx. simpl in Hx.
    repeat (destruct Hx as [<-|Hx]; [lra|]). contradiction.
Qed.

Theorem hexq_box_guarded k a b c :
  additive k = false -> eps_a k <= 1 / 2 -> 0 <= eps_l k <= 1 -> 1 <= a -> 1 <= b -> 1 <= c ->
  hexq k ref_T ref_E (box a b c) none_nb = hexq (with_eps k 0 0) ref_T ref_E (box a b c) none_nb.
Proof.
  intros Hk Hea Hel Ha Hb Hc. rewrite <- (with_eps_id k) at 1.
  apply hexq_guard_inactive; [assumption | apply box_above; assumption].
Qed.
