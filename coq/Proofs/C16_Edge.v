(** C16 - points written for an edge snapped to a curve (OnCurveEdge.point_array), and additivity of the length of
    any interpolated curve (spline included) over a split at a knot. *)
From Coq Require Import Reals List Arith ZArith Lia Lra Psatz.
From CB Require Import Base.Vec3 Model.C16_Curves Proofs.C16_Curves Proofs.C16_Length.
Import ListNotations.
Open Scope R_scope.

(** ** interior of a list *)
Lemma removelast_len {A} : forall l : list A, length (removelast l) = (length l - 1)%nat.
Proof.
  induction l as [|a [|b t] IH]; try reflexivity.
  change (removelast (a :: b :: t)) with (a :: removelast (b :: t)).
  cbn [length]. rewrite IH. cbn [length]. lia.
Qed.

Lemma nth_removelast {A} : forall (l : list A) k d, (S k < length l)%nat -> nth k (removelast l) d = nth k l d.
Proof.
  induction l as [|a [|b t] IH]; intros k d H; try (simpl in H; lia).
  change (removelast (a :: b :: t)) with (a :: removelast (b :: t)).
  destruct k as [|k]; [reflexivity|]. cbn [nth]. apply IH. simpl in *. lia.
Qed.

Lemma interior_length {A} (l : list A) : length (interior l) = (length l - 2)%nat.
Proof.
  unfold interior. rewrite removelast_len. destruct l as [|a t]; [reflexivity|]. cbn [tl length]. lia.
Qed.

Lemma nth_interior {A} (l : list A) k d : (S (S k) < length l)%nat -> nth k (interior l) d = nth (S k) l d.
Proof.
  intros H. unfold interior. destruct l as [|a t]; [simpl in H; lia|]. cbn [tl].
  rewrite nth_removelast by (simpl in H; lia). reflexivity.
Qed.

(** ** edge on a function curve: [n] points, the k-th one is the curve point at the (k+1)-th of n+2 evenly spaced
    parameters from the parameter of the first vertex to that of the second, which lies between the two *)
Lemma edge_points_length f ps pe n : length (edge_points f ps pe n) = n.
Proof.
  unfold edge_points. rewrite interior_length. unfold fc_discretize. rewrite map_length, linspace_length. lia.
Qed.

Lemma edge_points_nth f ps pe n k d :
  (k < n)%nat -> nth k (edge_points f ps pe n) d = f (lin_at ps pe (n + 2) (S k)).
Proof.
  intros H. unfold edge_points.
  rewrite nth_interior by (unfold fc_discretize; rewrite map_length, linspace_length; lia).
  apply fc_discretize_nth. lia.
Qed.

Lemma lin_at_lambda a b n i : (2 <= n)%nat -> (i <= n - 1)%nat ->
  exists l, 0 <= l <= 1 /\ lin_at a b n i = a + l * (b - a).
Proof.
  intros Hn Hi. unfold lin_at.
  assert (Hp : 0 < IZR (Z.of_nat (n - 1))) by (apply IZR_lt; lia).
  assert (H0 : 0 <= IZR (Z.of_nat i)) by (apply IZR_le; lia).
  assert (H1 : IZR (Z.of_nat i) <= IZR (Z.of_nat (n - 1))) by (apply IZR_le; lia).
  set (x := IZR (Z.of_nat i)) in *. set (m := IZR (Z.of_nat (n - 1))) in *.
  assert (Hi' : 0 < / m) by (apply Rinv_0_lt_compat; lra).
  assert (E : m * / m = 1) by (apply Rinv_r; lra).
  exists (x * / m). split; [split; nra|]. unfold Rdiv. ring.
Qed.

Lemma lin_at_between a b n i : (2 <= n)%nat -> (i <= n - 1)%nat -> Rmin a b <= lin_at a b n i <= Rmax a b.
Proof.
  intros Hn Hi. destruct (lin_at_lambda a b n i Hn Hi) as (l & Hl & ->).
  unfold Rmin, Rmax. destruct (Rle_dec a b); split; nra.
Qed.

(** the parameters run from the first vertex to the second *)
Lemma lin_at_step a b n i : lin_at a b n (S i) - lin_at a b n i = (b - a) / IZR (Z.of_nat (n - 1)).
Proof. unfold lin_at. rewrite Nat2Z.inj_succ, succ_IZR. unfold Rdiv. ring. Qed.

Lemma lin_at_mono a b n i : (2 <= n)%nat ->
  (a <= b -> lin_at a b n i <= lin_at a b n (S i)) /\ (b <= a -> lin_at a b n (S i) <= lin_at a b n i).
Proof.
  intros Hn. pose proof (lin_at_step a b n i) as H.
  assert (Hp : 0 < / IZR (Z.of_nat (n - 1))) by (apply Rinv_0_lt_compat; apply IZR_lt; lia).
  unfold Rdiv in H. split; intros Hab; nra.
Qed.

(** ** edge on a discrete curve *)
Lemma dc_discretize_length {A} (pts : list A) a b :
  (a < length pts)%nat -> (b < length pts)%nat -> length (dc_discretize pts a b) = S (Nat.max a b - Nat.min a b).
Proof.
  intros Ha Hb. unfold dc_discretize. destruct (a <=? b)%nat eqn:E.
  - apply Nat.leb_le in E. rewrite slice_length by assumption. lia.
  - apply Nat.leb_gt in E. rewrite rev_length, slice_length by lia. lia.
Qed.

Lemma dc_edge_points_length {A} (pts : list A) a b :
  (a < length pts)%nat -> (b < length pts)%nat -> length (dc_edge_points pts a b) = (Nat.max a b - Nat.min a b - 1)%nat.
Proof.
  intros Ha Hb. unfold dc_edge_points. rewrite interior_length, dc_discretize_length by assumption. lia.
Qed.

Lemma dc_edge_points_nth pts a b k :
  (a < length pts)%nat -> (b < length pts)%nat -> (S k < Nat.max a b - Nat.min a b)%nat ->
  nth k (dc_edge_points pts a b) vzero = dc_point pts (if (a <=? b)%nat then a + S k else a - S k).
Proof.
  intros Ha Hb Hk. unfold dc_edge_points.
  rewrite nth_interior by (rewrite dc_discretize_length by assumption; lia).
  apply dc_discretize_nth; try assumption. rewrite dc_discretize_length by assumption. lia.
Qed.

(** ** additivity over a split at a knot, for any curve function (chords through the knots) *)
Lemma filter_between_split : forall ts lo m hi, incr ts -> In m ts -> lo < m < hi ->
  filter (between lo hi) ts = filter (between lo m) ts ++ m :: filter (between m hi) ts.
Proof.
  induction ts as [|t ts IH]; intros lo m hi Hinc Hin Hm; [destruct Hin|].
  destruct Hin as [->|Hin].
  - rewrite (filter_cons_true _ m) by (apply between_true; lra).
    rewrite (filter_cons_false (between lo m) m) by (apply between_false; right; lra).
    rewrite (filter_cons_false (between m hi) m) by (apply between_false; left; lra).
    rewrite (filter_between_nil lo m ts).
    2:{ intros x Hx. right. pose proof (incr_In_lt ts m x Hinc Hx). lra. }
    cbn [app]. f_equal. apply filter_between_ext.
    intros x Hx. pose proof (incr_In_lt ts m x Hinc Hx). lra.
  - assert (Htm : t < m) by (eapply incr_In_lt; eauto).
    assert (Hinc' : incr ts) by (eapply incr_tail; eauto).
    rewrite (filter_cons_false (between m hi) t) by (apply between_false; left; lra).
    destruct (between lo hi t) eqn:E.
    + assert (E2 : between lo m t = true) by (apply between_true in E; apply between_true; lra).
      rewrite (filter_cons_true _ t _ E), (filter_cons_true _ t _ E2). cbn [app]. f_equal. apply IH; assumption.
    + assert (E2 : between lo m t = false).
      { destruct (between lo m t) eqn:E2; [|reflexivity]. apply between_true in E2.
        assert (between lo hi t = true) by (apply between_true; lra). congruence. }
      rewrite (filter_cons_false _ t _ E), (filter_cons_false _ t _ E2). apply IH; assumption.
Qed.

Lemma il_points_split (f : R -> vec) ts lo m hi : incr ts -> In m ts -> lo < m < hi ->
  polylen (map f (il_params ts lo hi)) = polylen (map f (il_params ts lo m)) + polylen (map f (il_params ts m hi)).
Proof.
  intros Hinc Hin Hm. unfold il_params. rewrite (filter_between_split ts lo m hi) by assumption.
  cbn [map]. rewrite !map_app. cbn [map]. rewrite <- app_assoc. cbn [app].
  rewrite (app_comm_cons _ _ (f lo)). rewrite polylen_app. reflexivity.
Qed.

Lemma il_length_additive_knot (f : R -> vec) ts a m b : incr ts -> In m ts -> Rmin a b < m < Rmax a b ->
  il_length f ts a b = il_length f ts a m + il_length f ts m b.
Proof.
  intros Hinc Hin Hm. unfold il_length. destruct (Rle_dec a b) as [Hab|Hab].
  - rewrite Rmin_left, Rmax_right in Hm by exact Hab.
    rewrite (Rmin_left a b), (Rmax_right a b), (Rmin_left a m), (Rmax_right a m), (Rmin_left m b), (Rmax_right m b) by lra.
    apply il_points_split; assumption.
  - rewrite Rmin_right, Rmax_left in Hm by lra.
    rewrite (Rmin_right a b), (Rmax_left a b), (Rmin_right a m), (Rmax_left a m), (Rmin_right m b), (Rmax_left m b) by lra.
    rewrite Rplus_comm. apply il_points_split; assumption.
Qed.

(** ** closest point of a line curve: the clamped projection is the exact minimiser over the bounds *)
Lemma line_norm2 p1 p2 q t :
  norm2 (vsub (line_point p1 p2 t) q)
  = t * t * norm2 (vsub p2 p1) - 2 * t * dot (vsub q p1) (vsub p2 p1) + norm2 (vsub q p1).
Proof.
  destruct p1 as [[a b] c], p2 as [[d e] f], q as [[g h] i].
  cbv [line_point norm2 dot vsub vadd vscale vx vy vz fst snd]. ring.
Qed.

Lemma clamp_cases lo hi x : lo <= hi ->
  (x <= lo /\ clamp lo hi x = lo) \/ (lo <= x <= hi /\ clamp lo hi x = x) \/ (hi <= x /\ clamp lo hi x = hi).
Proof.
  intros H. unfold clamp. destruct (Rle_dec x lo) as [H1|H1].
  - left. split; [exact H1|]. rewrite !pos_nonpos by lra. lra.
  - destruct (Rle_dec x hi) as [H2|H2].
    + right; left. split; [lra|]. rewrite pos_nonneg by lra. rewrite pos_nonpos by lra. lra.
    + right; right. split; [lra|]. rewrite !pos_nonneg by lra. lra.
Qed.

Lemma line_closest_opt p1 p2 lo hi q t :
  0 < norm2 (vsub p2 p1) -> lo <= hi -> lo <= t <= hi ->
  dist (line_point p1 p2 (line_topt p1 p2 lo hi q)) q <= dist (line_point p1 p2 t) q.
Proof.
  intros HA Hlh Ht. unfold dist, norm. apply sqrt_le_1_alt. rewrite !line_norm2.
  unfold line_topt.
  set (A := norm2 (vsub p2 p1)) in *. set (B := dot (vsub q p1) (vsub p2 p1)). set (C := norm2 (vsub q p1)).
  assert (HB : B = A * (B / A)) by (field; lra).
  set (x := B / A) in *. clearbody x. clearbody A B C.
  assert (Hg : forall s, s * s * A - 2 * s * B + C = A * (s - x) * (s - x) + (C - A * x * x))
    by (intros s; rewrite HB; ring).
  rewrite !Hg.
  destruct (clamp_cases lo hi x Hlh) as [[H1 ->]|[[H1 ->]|[H1 ->]]].
  - assert (P : 0 <= (t - lo) * (t + lo - 2 * x)) by (apply Rmult_le_pos; lra).
    assert (E : A * (t - x) * (t - x) - A * (lo - x) * (lo - x) = A * ((t - lo) * (t + lo - 2 * x))) by ring.
    assert (0 <= A * ((t - lo) * (t + lo - 2 * x))) by (apply Rmult_le_pos; lra). lra.
  - assert (E : A * (x - x) * (x - x) = 0) by ring.
    assert (0 <= A * ((t - x) * (t - x))) by (apply Rmult_le_pos; [lra|exact (Rle_0_sqr (t - x))]).
    replace (A * (t - x) * (t - x)) with (A * ((t - x) * (t - x))) by ring. lra.
  - assert (P : 0 <= (hi - t) * (2 * x - t - hi)) by (apply Rmult_le_pos; lra).
    assert (E : A * (t - x) * (t - x) - A * (hi - x) * (hi - x) = A * ((hi - t) * (2 * x - t - hi))) by ring.
    assert (0 <= A * ((hi - t) * (2 * x - t - hi))) by (apply Rmult_le_pos; lra). lra.
Qed.
