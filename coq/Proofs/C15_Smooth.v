(** Lemmas about the sweep of Model/C15_Smooth.v on one coordinate column (C15):
    frame, update = average, fixed point <-> harmonic, max-norm monotonicity, uniqueness of the
    harmonic configuration (discrete maximum principle), affine lattices, copy back. *)
From Coq Require Import List Bool Arith ZArith QArith Qabs Lia Lqa.
From CB Require Import Model.C15_Smooth.
Import ListNotations.
Close Scope Q_scope.
Open Scope nat_scope.

(** * set_nth *)
Lemma set_nth_length s : forall j v, length (set_nth s j v) = length s.
Proof. induction s as [|x r IH]; intros [|j] v; simpl; auto. Qed.

Lemma nth_set_nth s : forall j i v,
  nth i (set_nth s j v) 0%Q = if (i =? j) && (j <? length s) then v else nth i s 0%Q.
Proof.
  induction s as [|x r IH]; intros [|j] [|i] v; simpl; try reflexivity.
  - rewrite andb_false_r. reflexivity.
  - rewrite IH. reflexivity.
Qed.

Lemma nth_set_nth_neq s j i v d : i <> j -> nth i (set_nth s j v) d = nth i s d.
Proof.
  revert j i. induction s as [|x r IH]; intros [|j] [|i] H; simpl; try reflexivity; try congruence.
  apply IH. congruence.
Qed.

Lemma nth_set_nth_eq s j v : j < length s -> nth j (set_nth s j v) 0%Q = v.
Proof.
  intro H. rewrite nth_set_nth, Nat.eqb_refl. simpl.
  apply Nat.ltb_lt in H. rewrite H. reflexivity.
Qed.

(** * frame *)
Lemma step_length s jn : length (step s jn) = length s.
Proof. apply set_nth_length. Qed.

Lemma sweep_length sched : forall s, length (sweep sched s) = length s.
Proof.
  induction sched as [|jn r IH]; intro s; simpl; [reflexivity|].
  unfold sweep in *. simpl. rewrite IH. apply step_length.
Qed.

Lemma iterate_length k : forall sched s, length (iterate k sched s) = length s.
Proof. induction k as [|k IH]; intros; simpl; [reflexivity|]. rewrite IH. apply sweep_length. Qed.

Lemma step_frame s jn i d : i <> fst jn -> nth i (step s jn) d = nth i s d.
Proof. intro H. apply nth_set_nth_neq. exact H. Qed.

Lemma sweep_frame sched : forall s i d, ~ In i (map fst sched) -> nth i (sweep sched s) d = nth i s d.
Proof.
  induction sched as [|jn r IH]; intros s i d H; [reflexivity|].
  unfold sweep in *. simpl in *. rewrite IH by tauto. apply step_frame. intro E. apply H. left. congruence.
Qed.

Lemma iterate_frame k : forall sched s i d, ~ In i (map fst sched) -> nth i (iterate k sched s) d = nth i s d.
Proof.
  induction k as [|k IH]; intros sched s i d H; simpl; [reflexivity|].
  rewrite IH by exact H. apply sweep_frame. exact H.
Qed.

(** * update = average *)
Open Scope Q_scope.

Definition avg_spec (s : list Q) (nb : list nat) : Q := qsum (map (fun t => nth t s 0) nb) / qlen nb.

Lemma average_spec s nb : average s nb == avg_spec s nb.
Proof. unfold average, avg_spec. apply Qred_correct. Qed.

Lemma step_value s j nb : (j < length s)%nat -> nth j (step s (j, nb)) 0 = average s nb.
Proof. intro H. unfold step. simpl. apply nth_set_nth_eq. exact H. Qed.

(** * pointwise equality of states *)
Definition eqv (s s' : list Q) : Prop := length s = length s' /\ forall i, nth i s 0 == nth i s' 0.

Lemma eqv_refl s : eqv s s.
Proof. split; [reflexivity|]. intro. reflexivity. Qed.
Lemma eqv_sym s s' : eqv s s' -> eqv s' s.
Proof. intros [L H]. split; [auto|]. intro i. symmetry. apply H. Qed.
Lemma eqv_trans a b c : eqv a b -> eqv b c -> eqv a c.
Proof. intros [L1 H1] [L2 H2]. split; [congruence|]. intro i. rewrite H1. apply H2. Qed.

Lemma qsum_ext (f g : nat -> Q) nb : (forall t, In t nb -> f t == g t) -> qsum (map f nb) == qsum (map g nb).
Proof.
  induction nb as [|a r IH]; intro H; simpl; [reflexivity|].
  rewrite (H a) by (left; reflexivity). rewrite IH; [reflexivity|]. intros t Ht. apply H. right. exact Ht.
Qed.

Lemma avg_spec_eqv s s' nb : eqv s s' -> avg_spec s nb == avg_spec s' nb.
Proof.
  intros [_ H]. unfold avg_spec. rewrite (qsum_ext (fun t => nth t s 0) (fun t => nth t s' 0)); [reflexivity|].
  intros t _. apply H.
Qed.

Lemma set_nth_eqv s s' j v v' : eqv s s' -> v == v' -> eqv (set_nth s j v) (set_nth s' j v').
Proof.
  intros [L H] Hv. split; [rewrite !set_nth_length; exact L|].
  intro i. rewrite !nth_set_nth, L. destruct ((i =? j)%nat && (j <? length s')%nat); [exact Hv|apply H].
Qed.

Lemma step_eqv s s' jn : eqv s s' -> eqv (step s jn) (step s' jn).
Proof.
  intro H. unfold step. apply set_nth_eqv; [exact H|].
  rewrite !average_spec. apply avg_spec_eqv. exact H.
Qed.

Lemma sweep_eqv sched : forall s s', eqv s s' -> eqv (sweep sched s) (sweep sched s').
Proof.
  induction sched as [|jn r IH]; intros s s' H; [exact H|].
  unfold sweep in *. simpl. apply IH. apply step_eqv. exact H.
Qed.

(** * fixed point <-> harmonic *)
Definition harmonic_at (s : list Q) (jn : nat * list nat) : Prop := nth (fst jn) s 0 == avg_spec s (snd jn).

Lemma step_harmonic_eqv s jn : harmonic_at s jn -> eqv (step s jn) s.
Proof.
  intro H. split; [apply step_length|]. intro i. unfold step. rewrite nth_set_nth.
  destruct (Nat.eqb_spec i (fst jn)) as [E|E]; simpl; [|reflexivity].
  destruct (fst jn <? length s)%nat; [|reflexivity].
  subst i. rewrite average_spec. symmetry. exact H.
Qed.

Lemma sweep_cons jn r s : sweep (jn :: r) s = sweep r (step s jn).
Proof. reflexivity. Qed.

Theorem sweep_fixed_point sched : forall s,
  NoDup (map fst sched) -> (forall jn, In jn sched -> (fst jn < length s)%nat) ->
  (eqv (sweep sched s) s <-> forall jn, In jn sched -> harmonic_at s jn).
Proof.
  induction sched as [|[j nb] r IH]; intros s ND Hlt.
  - split; [intros _ jn []|intros _; apply eqv_refl].
  - simpl in ND. apply NoDup_cons_iff in ND. destruct ND as [Hnotin ND].
    assert (Hlt' : forall jn, In jn r -> (fst jn < length s)%nat) by (intros; apply Hlt; right; assumption).
    rewrite sweep_cons. split.
    + intro E.
      assert (Hj : harmonic_at s (j, nb)).
      { unfold harmonic_at. simpl. destruct E as [_ E]. specialize (E j).
        rewrite sweep_frame in E by exact Hnotin.
        rewrite step_value in E by (apply (Hlt (j, nb)); left; reflexivity).
        rewrite <- E. apply average_spec. }
      assert (E1 : eqv (sweep r s) s).
      { eapply eqv_trans; [|exact E]. apply sweep_eqv. apply eqv_sym. apply step_harmonic_eqv. exact Hj. }
      intros jn [<-|Hin]; [exact Hj|]. apply (proj1 (IH s ND Hlt') E1). exact Hin.
    + intro H.
      assert (Hj : harmonic_at s (j, nb)) by (apply H; left; reflexivity).
      eapply eqv_trans; [apply sweep_eqv; apply step_harmonic_eqv; exact Hj|].
      apply (IH s ND Hlt'). intros jn Hin. apply H. right. exact Hin.
Qed.

(** * sums *)
Lemma qlen_cons a r : qlen (a :: r) == 1 + qlen r.
Proof.
  unfold qlen. simpl length. rewrite Nat2Z.inj_succ, <- Z.add_1_l, inject_Z_plus. reflexivity.
Qed.

Lemma qlen_nil : qlen [] == 0.
Proof. reflexivity. Qed.

Lemma qlen_nonneg nb : 0 <= qlen nb.
Proof. unfold qlen. change 0 with (inject_Z 0). rewrite <- Zle_Qle. lia. Qed.

Lemma qlen_pos nb : nb <> [] -> 0 < qlen nb.
Proof. destruct nb as [|a r]; [congruence|]. intros _. rewrite qlen_cons. pose proof (qlen_nonneg r). lra. Qed.

Lemma qsum_le (f : nat -> Q) nb M : (forall t, In t nb -> f t <= M) -> qsum (map f nb) <= qlen nb * M.
Proof.
  induction nb as [|a r IH]; intro H.
  - simpl map. simpl qsum. rewrite qlen_nil. lra.
  - simpl map. simpl qsum. rewrite qlen_cons.
    assert (f a <= M) by (apply H; left; reflexivity).
    assert (qsum (map f r) <= qlen r * M) by (apply IH; intros; apply H; right; assumption).
    lra.
Qed.

Lemma qsum_ge (f : nat -> Q) nb M : (forall t, In t nb -> M <= f t) -> qlen nb * M <= qsum (map f nb).
Proof.
  induction nb as [|a r IH]; intro H.
  - simpl map. simpl qsum. rewrite qlen_nil. lra.
  - simpl map. simpl qsum. rewrite qlen_cons.
    assert (M <= f a) by (apply H; left; reflexivity).
    assert (qlen r * M <= qsum (map f r)) by (apply IH; intros; apply H; right; assumption).
    lra.
Qed.

Lemma qsum_sub (f g : nat -> Q) nb : qsum (map (fun t => f t - g t) nb) == qsum (map f nb) - qsum (map g nb).
Proof. induction nb as [|a r IH]; simpl; [lra|]. rewrite IH. lra. Qed.

(** if the sum attains the bound, every term does *)
Lemma qsum_max (f : nat -> Q) nb M :
  (forall t, In t nb -> f t <= M) -> qsum (map f nb) == qlen nb * M -> forall t, In t nb -> f t == M.
Proof.
  induction nb as [|a r IH]; intros H E t Ht; [destruct Ht|].
  simpl map in E. simpl qsum in E. rewrite qlen_cons in E.
  assert (Ha : f a <= M) by (apply H; left; reflexivity).
  assert (Hr : qsum (map f r) <= qlen r * M) by (apply qsum_le; intros; apply H; right; assumption).
  destruct Ht as [<-|Ht]; [lra|].
  apply IH; [intros; apply H; right; assumption|lra|exact Ht].
Qed.

(** harmonic, multiplied out *)
Lemma harmonic_mult s jn : snd jn <> [] ->
  (harmonic_at s jn <-> qlen (snd jn) * nth (fst jn) s 0 == qsum (map (fun t => nth t s 0) (snd jn))).
Proof.
  intro Hne. pose proof (qlen_pos _ Hne) as Hp. unfold harmonic_at, avg_spec. split; intro H.
  - rewrite H. apply Qmult_div_r. lra.
  - rewrite <- H. rewrite Qmult_comm. rewrite Qdiv_mult_l; [reflexivity|lra].
Qed.

(** * max-norm monotonicity *)
Definition wf_sched (n : nat) (sched : list (nat * list nat)) : Prop :=
  forall jn, In jn sched -> (fst jn < n)%nat /\ snd jn <> [] /\ forall t, In t (snd jn) -> (t < n)%nat.

Definition within (M : Q) (s h : list Q) : Prop :=
  forall i, (i < length s)%nat -> Qabs (nth i s 0 - nth i h 0) <= M.

Lemma avg_diff_bound s h nb M : nb <> [] ->
  (forall t, In t nb -> Qabs (nth t s 0 - nth t h 0) <= M) ->
  Qabs (avg_spec s nb - avg_spec h nb) <= M.
Proof.
  intros Hne H. pose proof (qlen_pos _ Hne) as Hp.
  assert (E : avg_spec s nb - avg_spec h nb == qsum (map (fun t => nth t s 0 - nth t h 0) nb) / qlen nb).
  { unfold avg_spec. rewrite (qsum_sub (fun t => nth t s 0) (fun t => nth t h 0)). field. lra. }
  rewrite E. apply Qabs_Qle_condition. split.
  - apply Qle_shift_div_l; [exact Hp|]. rewrite Qmult_comm. apply qsum_ge.
    intros t Ht. apply (proj1 (proj1 (Qabs_Qle_condition _ _) (H t Ht))).
  - apply Qle_shift_div_r; [exact Hp|]. rewrite Qmult_comm. apply qsum_le.
    intros t Ht. apply (proj2 (proj1 (Qabs_Qle_condition _ _) (H t Ht))).
Qed.

Lemma step_monotone s h jn M :
  length s = length h -> (fst jn < length s)%nat -> snd jn <> [] -> (forall t, In t (snd jn) -> (t < length s)%nat) ->
  harmonic_at h jn -> within M s h -> within M (step s jn) h.
Proof.
  intros L Hj Hne Hnb Hh W i Hi. rewrite step_length in Hi. unfold step. rewrite nth_set_nth.
  destruct (Nat.eqb_spec i (fst jn)) as [E|E]; cbn [andb]; [|apply W; exact Hi].
  apply Nat.ltb_lt in Hj. rewrite Hj. subst i.
  rewrite average_spec. unfold harmonic_at in Hh. rewrite Hh.
  apply avg_diff_bound; [exact Hne|]. intros t Ht. apply W. apply Hnb. exact Ht.
Qed.

Theorem sweep_monotone sched : forall s h M,
  length s = length h -> wf_sched (length s) sched ->
  (forall jn, In jn sched -> harmonic_at h jn) ->
  within M s h -> within M (sweep sched s) h.
Proof.
  induction sched as [|jn r IH]; intros s h M L WF Hh W; [exact W|].
  rewrite sweep_cons. destruct (WF jn (or_introl eq_refl)) as (Hj & Hne & Hnb).
  apply IH.
  - rewrite step_length. exact L.
  - rewrite step_length. intros x Hx. apply WF. right. exact Hx.
  - intros x Hx. apply Hh. right. exact Hx.
  - apply step_monotone; auto. apply Hh. left. reflexivity.
Qed.

Theorem iterate_monotone k : forall sched s h M,
  length s = length h -> wf_sched (length s) sched ->
  (forall jn, In jn sched -> harmonic_at h jn) ->
  within M s h -> within M (iterate k sched s) h.
Proof.
  induction k as [|k IH]; intros sched s h M L WF Hh W; [exact W|].
  simpl. apply IH; [rewrite sweep_length; exact L|rewrite sweep_length; exact WF|exact Hh|].
  apply sweep_monotone; assumption.
Qed.

(** * uniqueness of the harmonic configuration (discrete maximum principle) *)
Inductive reach (sched : list (nat * list nat)) : nat -> Prop :=
| reach_stop i : ~ In i (map fst sched) -> reach sched i
| reach_go i nb t : In (i, nb) sched -> In t nb -> reach sched t -> reach sched i.

Lemma exists_max (f : nat -> Q) n : (0 < n)%nat -> exists m, (m < n)%nat /\ forall i, (i < n)%nat -> f i <= f m.
Proof.
  induction n as [|n IH]; intro H; [lia|].
  destruct n as [|n].
  - exists 0%nat. split; [lia|]. intros i Hi. replace i with 0%nat by lia. lra.
  - destruct IH as [m [Hm Hmax]]; [lia|].
    destruct (Qlt_le_dec (f m) (f (S n))) as [Hlt|Hle].
    + exists (S n). split; [lia|]. intros i Hi.
      destruct (Nat.eq_dec i (S n)) as [->|Hne]; [lra|].
      assert (f i <= f m) by (apply Hmax; lia). lra.
    + exists m. split; [lia|]. intros i Hi.
      destruct (Nat.eq_dec i (S n)) as [->|Hne]; [exact Hle|]. apply Hmax. lia.
Qed.

Lemma max_principle_le sched h1 h2 :
  length h1 = length h2 -> wf_sched (length h1) sched ->
  (forall jn, In jn sched -> harmonic_at h1 jn) -> (forall jn, In jn sched -> harmonic_at h2 jn) ->
  (forall i, ~ In i (map fst sched) -> nth i h1 0 == nth i h2 0) ->
  (forall i, reach sched i) ->
  forall i, (i < length h1)%nat -> nth i h1 0 - nth i h2 0 <= 0.
Proof.
  intros L WF H1 H2 Hb Hreach i Hi.
  set (w := fun i => nth i h1 0 - nth i h2 0).
  destruct (exists_max w (length h1)) as [m [Hm Hmax]]; [lia|].
  assert (Key : forall k, reach sched k -> (k < length h1)%nat -> w k == w m -> w m <= 0).
  { intros k Hk. induction Hk as [k Hnot | k nb t Hin Ht Hr IH]; intros Hlt Ek.
    - unfold w in Ek at 1. rewrite (Hb k Hnot) in Ek. lra.
    - destruct (WF _ Hin) as (_ & Hne & Hnb). simpl in Hne, Hnb.
      pose proof (proj1 (harmonic_mult h1 (k, nb) Hne) (H1 _ Hin)) as E1.
      pose proof (proj1 (harmonic_mult h2 (k, nb) Hne) (H2 _ Hin)) as E2. simpl in E1, E2.
      assert (Es : qsum (map w nb) == qlen nb * w m).
      { unfold w at 1. rewrite (qsum_sub (fun t => nth t h1 0) (fun t => nth t h2 0)).
        rewrite <- E1, <- E2. rewrite <- Ek. unfold w. ring. }
      assert (Et : w t == w m).
      { apply (qsum_max w nb (w m)); [|exact Es|exact Ht]. intros x Hx. apply Hmax. apply Hnb. exact Hx. }
      apply IH; [apply Hnb; exact Ht|exact Et]. }
  assert (w m <= 0) by (apply (Key m (Hreach m) Hm); reflexivity).
  specialize (Hmax i Hi). unfold w in *. lra.
Qed.

Theorem harmonic_unique sched h1 h2 :
  length h1 = length h2 -> wf_sched (length h1) sched ->
  (forall jn, In jn sched -> harmonic_at h1 jn) -> (forall jn, In jn sched -> harmonic_at h2 jn) ->
  (forall i, ~ In i (map fst sched) -> nth i h1 0 == nth i h2 0) ->
  (forall i, In i (map fst sched) -> reach sched i) ->
  eqv h1 h2.
Proof.
  intros L WF H1 H2 Hb Hr.
  assert (Hreach : forall i, reach sched i).
  { intro i. destruct (in_dec Nat.eq_dec i (map fst sched)) as [Hin|Hnot]; [apply Hr; exact Hin|apply reach_stop; exact Hnot]. }
  split; [exact L|]. intro i.
  destruct (Nat.lt_ge_cases i (length h1)) as [Hi|Hi].
  - assert (A : nth i h1 0 - nth i h2 0 <= 0) by (apply (max_principle_le sched); assumption).
    assert (B : nth i h2 0 - nth i h1 0 <= 0).
    { apply (max_principle_le sched h2 h1);
        [congruence | rewrite <- L; exact WF | exact H2 | exact H1
         | intros k Hk; symmetry; apply Hb; exact Hk | exact Hreach | rewrite <- L; exact Hi]. }
    lra.
  - rewrite !nth_overflow; [reflexivity|lia|lia].
Qed.

(** * affine functions of harmonic coordinates are harmonic (used for lattices) *)
Definition harmonic_fn (f : nat -> Q) (jn : nat * list nat) : Prop :=
  qlen (snd jn) * f (fst jn) == qsum (map f (snd jn)).

Lemma qsum_lin (f g : nat -> Q) o a b nb :
  qsum (map (fun k => o + a * f k + b * g k) nb) == qlen nb * o + a * qsum (map f nb) + b * qsum (map g nb).
Proof.
  induction nb as [|x r IH].
  - simpl map. simpl qsum. rewrite qlen_nil. ring.
  - simpl map. simpl qsum. rewrite IH, qlen_cons. ring.
Qed.

Lemma harmonic_fn_lin f g o a b jn :
  harmonic_fn f jn -> harmonic_fn g jn -> harmonic_fn (fun k => o + a * f k + b * g k) jn.
Proof.
  unfold harmonic_fn. intros Hf Hg. rewrite qsum_lin, <- Hf, <- Hg. ring.
Qed.

Lemma nth_map_seq (F : nat -> Q) n t : (t < n)%nat -> nth t (map F (seq 0 n)) 0 = F t.
Proof.
  intro H. rewrite (nth_indep _ 0 (F 0%nat)) by (rewrite map_length, seq_length; exact H).
  rewrite map_nth. rewrite seq_nth by exact H. reflexivity.
Qed.

Lemma harmonic_fn_at (F : nat -> Q) n jn :
  (fst jn < n)%nat -> snd jn <> [] -> (forall t, In t (snd jn) -> (t < n)%nat) ->
  harmonic_fn F jn -> harmonic_at (map F (seq 0 n)) jn.
Proof.
  intros Hj Hne Hnb H. apply harmonic_mult; [exact Hne|].
  rewrite nth_map_seq by exact Hj. unfold harmonic_fn in H. rewrite H.
  apply qsum_ext. intros t Ht. rewrite nth_map_seq by (apply Hnb; exact Ht). reflexivity.
Qed.

(** * copy back *)
Close Scope Q_scope.

Lemma backport_nth {A} (d : A) pos quads i q :
  nth_error quads i = Some q -> nth i (backport d pos quads) [] = map (fun k => nth k pos d) q.
Proof.
  intro H. unfold backport.
  set (f := fun q0 : list nat => map (fun k => nth k pos d) q0).
  change (@nil A) with (f []).
  rewrite (map_nth f quads [] i). unfold f. f_equal. apply nth_error_nth. exact H.
Qed.

Theorem backport_consistent {A} (d : A) pos quads i q k :
  nth_error quads i = Some q -> k < length q ->
  nth k (nth i (backport d pos quads) []) d = nth (nth k q 0) pos d.
Proof.
  intros H Hk. rewrite (backport_nth d pos quads i q H).
  set (f := fun k0 => nth k0 pos d).
  rewrite (nth_indep _ d (f 0)) by (rewrite map_length; exact Hk).
  rewrite (map_nth f q 0 k). reflexivity.
Qed.

Lemma index_of_In x l : In x l -> index_of x l < length l /\ nth (index_of x l) l 0 = x.
Proof.
  induction l as [|y r IH]; intro H; [destruct H|].
  simpl. destruct (Nat.eqb_spec x y) as [E|E].
  - split; [lia|]. simpl. congruence.
  - destruct H as [H|H]; [congruence|]. destruct (IH H) as [A B]. split; [lia|]. simpl. exact B.
Qed.

Lemma concat_backport {A} (d : A) pos quads :
  concat (backport d pos quads) = map (fun k => nth k pos d) (concat quads).
Proof. unfold backport. rewrite concat_map. reflexivity. Qed.

Theorem positions_roundtrip {A} (d : A) pos quads :
  (forall i, i <= list_max (concat quads) -> In i (concat quads)) ->
  length (sketch_positions d (backport d pos quads) quads) = S (list_max (concat quads)) /\
  forall i, i <= list_max (concat quads) ->
    nth i (sketch_positions d (backport d pos quads) quads) d = nth i pos d.
Proof.
  intro Hall. unfold sketch_positions. rewrite concat_backport. split.
  - rewrite map_length, seq_length. reflexivity.
  - intros i Hi.
    set (F := fun i0 => nth (index_of i0 (concat quads)) (map (fun k => nth k pos d) (concat quads)) d).
    rewrite (nth_indep _ d (F 0)) by (rewrite map_length, seq_length; lia).
    rewrite (map_nth F (seq 0 (S (list_max (concat quads)))) 0 i). rewrite seq_nth by lia. simpl. unfold F.
    destruct (index_of_In i (concat quads) (Hall i Hi)) as [Hlt Hnth].
    set (f := fun k => nth k pos d).
    rewrite (nth_indep _ d (f 0)) by (rewrite map_length; exact Hlt).
    rewrite (map_nth f (concat quads) 0). rewrite Hnth. reflexivity.
Qed.
