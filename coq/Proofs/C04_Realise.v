(** C04 - real-valued half: what a written section realises (Model/C04_Realise.v) is blockMesh's
    progression of Model/C03_Relations.v; reading a section backwards (Grading.inverted) exchanges first
    and last cell and inverts the ratio; hence, with the transport invariants of Proofs/C04_Transport.v,
    every wire section of a successfully graded mesh realises the user's preserved quantity at the
    geometrically same end; simple/edge choice; shared edges. *)
From Coq Require Import Reals List Bool Arith ZArith QArith Qreals Lia Lra.
From CB Require Import Model.Propagate Proofs.PropagateBasics Proofs.PropagateInv
  Model.C03_Relations Proofs.C03_GeomSeries
  Model.C04_Payload Model.C04_Realise Proofs.C04_Transport.
Import ListNotations.
Local Open Scope R_scope.

(** ** [realised] is bm_first / bm_last / bm_ratio *)
Lemma horner_gsum r n : horner r n = gsum r n.
Proof. induction n as [|n IH]; [reflexivity|]. rewrite gsum_shift. simpl. rewrite IH. reflexivity. Qed.

Lemma ratio_of_bm n E : (2 <= n)%nat -> ratio_of n E = bm_ratio n E.
Proof.
  intro H. destruct n as [|[|k]]; try lia. unfold ratio_of, bm_ratio, Rpower. f_equal. unfold Rdiv. apply Rmult_comm.
Qed.

Lemma realised_start L n E : (2 <= n)%nat -> realised PStart L n E = bm_first L n E.
Proof. intro H. unfold realised, bm_first. rewrite horner_gsum, ratio_of_bm by exact H. reflexivity. Qed.

Lemma realised_end L n E : 0 < E -> (2 <= n)%nat -> realised PEnd L n E = bm_last L n E.
Proof.
  intros HE H. rewrite bm_last_first by assumption. unfold realised, bm_first.
  rewrite horner_gsum, ratio_of_bm by exact H. field. apply Rgt_not_eq, bm_gsum_pos. lia.
Qed.

Lemma realised_c2c L n E : (2 <= n)%nat -> realised PC2c L n E = bm_ratio n E.
Proof. intro H. unfold realised. apply ratio_of_bm. exact H. Qed.

(** the section read backwards *)
Lemma realised_inv f L n E : 0 < E -> (2 <= n)%nat ->
  realised (swap_fld f) L n (/ E) = match f with PC2c => / realised f L n E | _ => realised f L n E end.
Proof.
  intros HE Hn. assert (HiE : 0 < / E) by (apply Rinv_0_lt_compat; exact HE).
  destruct f; simpl swap_fld.
  - rewrite realised_end, realised_start by assumption. unfold bm_last.
    rewrite bm_cell_rev by (try assumption; lia). replace (n - 1 - (n - 1))%nat with 0%nat by lia.
    unfold bm_cell. simpl. ring.
  - rewrite realised_start, realised_end by assumption. unfold bm_last.
    replace (bm_first L n (/ E)) with (bm_cell L n (/ E) 0) by (unfold bm_cell; simpl; ring).
    rewrite bm_cell_rev by (try assumption; lia). f_equal. lia.
  - rewrite !realised_c2c by assumption. apply bm_ratio_inv. exact HE.
Qed.

Lemma realises_inv f v L n E : (2 <= n)%nat -> realises f v L n E ->
  realises (swap_fld f) (match f with PC2c => / v | _ => v end) L n (/ E).
Proof.
  intros Hn [HE H]. split; [apply Rinv_0_lt_compat; exact HE|]. rewrite realised_inv by assumption.
  destruct f; rewrite H; reflexivity.
Qed.

(** ** real-valued reading of the model's rationals *)
Definition cvalR (c : chop) : R := if c_inv c then / Q2R (c_val c) else Q2R (c_val c).
Definition secER (s : sec) : R := if s_inv s then / Q2R (s_E s) else Q2R (s_E s).
Definition numR (l : list sec) : list division := map (fun s => (Q2R (s_lr s), s_cnt s, secER s)) l.

(** the user's request seen from a wire running the same way / the other way *)
Definition frame_fld (same : bool) (t : fld) : fld := if same then t else swap_fld t.
Definition frame_val (same : bool) (t : fld) (v : R) : R := match t with PC2c => if same then v else / v | _ => v end.

(** what the calculate oracle must satisfy (one interval goal per recorded call in the correspondence):
    the section, as calculated on its source wire, realises the chop it was calculated from *)
Definition sections_sound (bs : list blk4) (len : wire -> R) (s : st) : Prop :=
  forall w sec, In sec (g s w) ->
    realises (c_fld (s_chop sec)) (cvalR (s_chop sec)) (len (s_src sec) * Q2R (s_lr sec))
             (Z.to_nat (s_cnt sec)) (Q2R (s_E sec)).

Section Realised.
  Variable bs : list blk4.
  Variable eor : wire -> nat -> Q.
  Variable o_coin : wire -> list wire.
  Variable o_nbrs : axis -> list axis.
  Variable dir : axis -> bool.
  Variable len : wire -> R.

  Lemma preserve_realised s :
    oracle_ok4 bs o_coin o_nbrs = true -> oriented bs dir -> len_shared bs R len ->
    final bs eor o_coin o_nbrs = Some s -> sections_sound bs len s ->
    forall w sec, In sec (g s w) ->
      exists y u, In u (user_chops4 bs y) /\
        s_cnt sec = u_cnt u /\ s_lr sec = u_lr u /\
        ((2 <= Z.to_nat (u_cnt u))%nat ->
         let same := Bool.eqb (dir (w_axis w)) (dir y) in
         realises (frame_fld same (u_tag u)) (frame_val same (u_tag u) (Q2R (u_val u)))
                  (len w * Q2R (u_lr u)) (Z.to_nat (u_cnt u)) (secER sec)).
  Proof.
    intros Hok Hor Hlen Hfin Hsound w sec Hs.
    destruct (oracle_ok4_spec _ _ _ Hok) as [Hco Hnb].
    destruct (final_inv bs eor o_coin o_nbrs dir R len Hor Hlen Hco Hnb s Hfin) as [HA HW].
    destruct (HW _ _ Hs) as (H1 & H2 & H3 & H4 & H5 & _).
    destruct (HA _ _ H1) as (y & u & Hu & Ec).
    pose proof (Hsound _ _ Hs) as Hr.
    exists y, u. split; [exact Hu|].
    rewrite H5, H4, Ec, seen_cnt, seen_lr. split; [reflexivity|]. split; [reflexivity|].
    intros Hn same.
    rewrite H5, H4, H3, Ec, seen_cnt, seen_lr in Hr.
    unfold cvalR in Hr. rewrite seen_fld, seen_inv, seen_val in Hr.
    unfold secER. rewrite H2.
    set (b1 := Bool.eqb (dir (w_axis w)) (dir (w_axis (s_src sec)))) in *.
    set (b0 := Bool.eqb (dir (w_axis (s_src sec))) (dir y)) in *.
    assert (same = Bool.eqb b1 b0) as Es.
    { unfold same, b1, b0. destruct (dir (w_axis w)), (dir (w_axis (s_src sec))), (dir y); reflexivity. }
    rewrite Es. clear Es same.
    destruct b1; simpl negb; cbv iota.
    - (* the wire runs like its source wire *)
      destruct b0; simpl Bool.eqb; unfold frame_fld, frame_val; destruct (u_tag u); simpl in *; exact Hr.
    - (* the wire runs against its source wire: the section is read backwards *)
      apply realises_inv in Hr; [|exact Hn].
      destruct b0; simpl Bool.eqb; unfold frame_fld, frame_val; destruct (u_tag u); simpl in *;
        try rewrite Rinv_inv in Hr; exact Hr.
  Qed.
End Realised.

(** ** Grading.inverted describes the reversed cell sequence (as Proofs/C03_Invert.v, re-proved here from
    [bm_cells_rev] so that this file depends on the C03 model and its geometric-series lemmas only) *)
Lemma c04_inverted_cons a l : inverted (a :: l) = inverted l ++ [(fst (fst a), snd (fst a), / snd a)].
Proof. unfold inverted. simpl. rewrite map_app. reflexivity. Qed.

Lemma c04_grading_cells_app L a b : grading_cells L (a ++ b) = grading_cells L a ++ grading_cells L b.
Proof. unfold grading_cells. apply flat_map_app. Qed.

Lemma c04_grading_cells_inverted L g :
  Forall (fun dv => 0 < snd dv) g -> grading_cells L (inverted g) = rev (grading_cells L g).
Proof.
  induction g as [|a g IH]; intros H; [reflexivity|].
  inversion H; subst. rewrite c04_inverted_cons, c04_grading_cells_app, IH by assumption.
  destruct a as [[lr n] E]. unfold grading_cells at 2 3. simpl in *. rewrite app_nil_r.
  rewrite rev_app_distr. f_equal. apply bm_cells_rev. assumption.
Qed.

Lemma numR_inv_secs l : numR (inv_secs l) = inverted (numR l).
Proof.
  unfold numR, inv_secs, inverted. rewrite <- map_rev. rewrite !map_map. apply map_ext.
  intros s. unfold secER, flip. simpl. destruct (s_inv s); simpl; [rewrite Rinv_inv|]; reflexivity.
Qed.

Lemma cells_inv_secs L l :
  Forall (fun s => 0 < Q2R (s_E s)) l ->
  grading_cells L (numR (inv_secs l)) = rev (grading_cells L (numR l)).
Proof.
  intro H. rewrite numR_inv_secs. apply c04_grading_cells_inverted.
  unfold numR. apply Forall_forall. intros dv Hdv. apply in_map_iff in Hdv. destruct Hdv as [s [<- Hs]].
  simpl. rewrite Forall_forall in H. specialize (H s Hs). unfold secER.
  destruct (s_inv s); [apply Rinv_0_lt_compat|]; exact H.
Qed.

(** ** what a successful run guarantees: the check and the simple/edge choice *)
Section RunOk.
  Variable bs : list blk4.
  Variable tau : Q.
  Variable eor : wire -> nat -> Q.
  Variable o_coin : wire -> list wire.
  Variable o_nbrs : axis -> list axis.

  Lemma run_ok_final cs sp k ch :
    run bs tau eor o_coin o_nbrs = Ok cs sp k ch ->
    exists s, final bs eor o_coin o_nbrs = Some s /\ oracle_ok4 bs o_coin o_nbrs = true /\
      consistent bs tau s = true /\ all_ok bs s = true /\
      sp = map (fun b => map (fun w => num (g s w)) (flat_map wires_of_axis (axes_of_block b))) (seq 0 (nblocks4 bs)) /\
      k = map (block_simple tau s) (seq 0 (nblocks4 bs)) /\
      cs = map (fun b => map (written bs s) (axes_of_block b)) (seq 0 (nblocks4 bs)).
  Proof.
    unfold run, final. destruct (oracle_ok4 bs o_coin o_nbrs); simpl; [|discriminate].
    destruct (propagate bs eor o_coin o_nbrs (fuel4 bs) (grade_blocks bs eor o_coin (init bs)) (seq 0 (nblocks4 bs)))
      as [s| |]; try discriminate.
    destruct (all_ok bs s) eqn:A; simpl; [|discriminate].
    destruct (consistent bs tau s) eqn:C; [|discriminate].
    intro E. inversion E; subst. exists s. repeat split; auto.
  Qed.

  Lemma consistent_spec s : consistent bs tau s = true ->
    forall x, In x (all_axes (nblocks4 bs)) ->
      (forall w, In w (wires_of_axis x) -> wcount s w = wcount s (fst x, snd x, 0%nat)) /\
      (forall w c, In w (wires_of_axis x) -> In c (coin_set (gb bs) w) ->
         wcount s c = wcount s w /\ spec_close tau (num (g s w)) (expected_from bs s w c) = true).
  Proof.
    intros C x Hx. unfold consistent in C. rewrite forallb_forall in C. specialize (C x Hx).
    unfold axis_consistent in C. apply andb_true_iff in C. destruct C as [C1 C2].
    rewrite forallb_forall in C1, C2. split.
    - intros w Hw. apply Z.eqb_eq. apply C1. exact Hw.
    - intros w c Hw Hc. specialize (C2 w Hw). unfold wire_consistent in C2. rewrite forallb_forall in C2.
      specialize (C2 c Hc). apply andb_true_iff in C2. destruct C2 as [A B]. apply Z.eqb_eq in A. auto.
  Qed.
End RunOk.
