(** C03 - the geometric series and blockMesh's realisation of (count, total expansion). *)
From Coq Require Import Reals ZArith List Lra Lia Psatz.
From CB Require Import Model.C03_Relations.
Import ListNotations.
Open Scope R_scope.

(** ** gsum *)
Lemma gsum_S r n : gsum r (S n) = gsum r n + r ^ n.
Proof. reflexivity. Qed.

Lemma gsum_shift r n : gsum r (S n) = 1 + r * gsum r n.
Proof. induction n as [|n IH]; [simpl; ring|]. simpl in *. lra. Qed.

Lemma gsum_closed r n : gsum r n * (1 - r) = 1 - r ^ n.
Proof. induction n as [|n IH]; [simpl; ring|]. rewrite gsum_S. simpl. nra. Qed.

Lemma gsum_closed_div r n : r <> 1 -> gsum r n = (1 - r ^ n) / (1 - r).
Proof. intros H. rewrite <- gsum_closed. field. lra. Qed.

Lemma gsum_one n : gsum 1 n = INR n.
Proof. induction n as [|n IH]; [reflexivity|]. rewrite gsum_S, IH, S_INR, pow1. ring. Qed.

Lemma gsum_nonneg r n : 0 <= r -> 0 <= gsum r n.
Proof. intros H. induction n as [|n IH]; [simpl; lra|]. rewrite gsum_S. pose proof (pow_le r n H). lra. Qed.

Lemma gsum_ge_1 r n : 0 <= r -> (1 <= n)%nat -> 1 <= gsum r n.
Proof.
  intros H Hn. destruct n as [|n]; [lia|]. rewrite gsum_shift.
  pose proof (gsum_nonneg r n H). nra.
Qed.

Lemma gsum_pos r n : 0 <= r -> (1 <= n)%nat -> 0 < gsum r n.
Proof. intros. pose proof (gsum_ge_1 r n H H0). lra. Qed.

Lemma gsum_S_lt r n : 0 < r -> gsum r n < gsum r (S n).
Proof. intros H. rewrite gsum_S. pose proof (pow_lt r n H). lra. Qed.

Lemma gsum_le_mono_n r n m : 0 <= r -> (n <= m)%nat -> gsum r n <= gsum r m.
Proof.
  intros H Hnm. induction Hnm as [|m Hnm IH]; [lra|]. rewrite gsum_S.
  pose proof (pow_le r m H). lra.
Qed.

Lemma gsum_lt_mono_n r n m : 0 < r -> (n < m)%nat -> gsum r n < gsum r m.
Proof.
  intros H Hnm. apply Rlt_le_trans with (gsum r (S n)); [apply gsum_S_lt; assumption|].
  apply gsum_le_mono_n; [lra|lia].
Qed.

Lemma pow_lt_mono_base a b k : 0 <= a -> a < b -> (1 <= k)%nat -> a ^ k < b ^ k.
Proof.
  intros Ha Hab Hk. induction k as [|k IH]; [lia|].
  destruct k as [|k]; [simpl; lra|].
  assert (H1 : a ^ S k < b ^ S k) by (apply IH; lia).
  assert (H2 : 0 <= a ^ S k) by (apply pow_le; lra).
  change (a * a ^ S k < b * b ^ S k). nra.
Qed.

Lemma gsum_le_mono_r a b n : 0 <= a -> a <= b -> gsum a n <= gsum b n.
Proof.
  intros Ha Hab. induction n as [|n IH]; [simpl; lra|]. rewrite !gsum_S.
  assert (a ^ n <= b ^ n) by (apply pow_incr; lra). lra.
Qed.

Lemma gsum_lt_mono_r a b n : 0 <= a -> a < b -> (2 <= n)%nat -> gsum a n < gsum b n.
Proof.
  intros Ha Hab Hn. destruct n as [|[|n]]; try lia. clear Hn.
  induction n as [|n IH]; [simpl; lra|].
  rewrite (gsum_S a (S (S n))), (gsum_S b (S (S n))).
  assert (a ^ S (S n) < b ^ S (S n)) by (apply pow_lt_mono_base; [lra|lra|lia]). lra.
Qed.

(** solutions of [s * gsum r n = L] are unique among positive ratios *)
Lemma gsum_inj_r a b n : 0 < a -> 0 < b -> (2 <= n)%nat -> gsum a n = gsum b n -> a = b.
Proof.
  intros Ha Hb Hn H. destruct (Rtotal_order a b) as [Hlt|[Heq|Hgt]]; [|assumption|].
  - pose proof (gsum_lt_mono_r a b n (Rlt_le _ _ Ha) Hlt Hn). lra.
  - pose proof (gsum_lt_mono_r b a n (Rlt_le _ _ Hb) Hgt Hn). lra.
Qed.

(** reversal: the series of 1/r is the series of r read backwards *)
Lemma gsum_rev r k : 0 < r -> gsum (/ r) (S k) * r ^ k = gsum r (S k).
Proof.
  intros Hr. induction k as [|k IH]; [simpl; ring|].
  rewrite (gsum_S (/ r) (S k)). rewrite (gsum_shift r (S k)). rewrite <- IH.
  rewrite Rmult_plus_distr_r. rewrite pow_inv. rewrite Rinv_l by (apply pow_nonzero; lra).
  simpl. ring.
Qed.

Lemma gsum_rev_n r n : 0 < r -> (1 <= n)%nat -> gsum (/ r) n * r ^ (n - 1) = gsum r n.
Proof. intros Hr Hn. destruct n as [|k]; [lia|]. replace (S k - 1)%nat with k by lia. apply gsum_rev; assumption. Qed.

(** bounds used for the near-uniform branch *)
Lemma gsum_ge_n r n : 1 <= r -> INR n <= gsum r n.
Proof.
  intros H. induction n as [|n IH]; [simpl; lra|]. rewrite gsum_S, S_INR.
  assert (1 <= r ^ n) by (apply pow_R1_Rle; assumption). lra.
Qed.

Lemma pow_ge_last r n k : 0 < r -> r <= 1 -> (k <= n)%nat -> r ^ n <= r ^ k.
Proof.
  intros H0 H1 Hk. induction Hk as [|m Hk IH]; [lra|]. simpl.
  assert (0 < r ^ m) by (apply pow_lt; assumption). nra.
Qed.

Lemma gsum_ge_n_last r n : 0 < r -> r <= 1 -> INR (S n) * r ^ n <= gsum r (S n).
Proof.
  intros H0 H1.
  assert (G : forall k, (k <= S n)%nat -> INR k * r ^ n <= gsum r k).
  { induction k as [|k IH]; intros Hk; [simpl; lra|]. rewrite gsum_S, S_INR.
    assert (r ^ n <= r ^ k) by (apply pow_ge_last; [assumption|assumption|lia]).
    assert (INR k * r ^ n <= gsum r k) by (apply IH; lia). lra. }
  apply G. lia.
Qed.

(** ** Rpower facts *)
Lemma Rpower_pos x y : 0 < Rpower x y.
Proof. unfold Rpower. apply exp_pos. Qed.

Lemma Rpower_inv_base x y : 0 < x -> Rpower (/ x) y = / Rpower x y.
Proof. intros H. unfold Rpower. rewrite ln_Rinv by assumption. rewrite <- exp_Ropp. f_equal. ring. Qed.

Lemma Rpower_root_pow E (k : nat) : 0 < E -> (1 <= k)%nat -> Rpower E (/ INR k) ^ k = E.
Proof.
  intros HE Hk. rewrite <- Rpower_pow by apply Rpower_pos. rewrite Rpower_mult.
  rewrite Rinv_l by (apply not_0_INR; lia). apply Rpower_1; assumption.
Qed.

Lemma Rpower_pow_root r (k : nat) : 0 < r -> (1 <= k)%nat -> Rpower (r ^ k) (/ INR k) = r.
Proof.
  intros Hr Hk. rewrite <- Rpower_pow by assumption. rewrite Rpower_mult.
  rewrite Rinv_r by (apply not_0_INR; lia). apply Rpower_1; assumption.
Qed.

(** ** blockMesh realisation *)
Lemma bm_ratio_pos n E : 0 < bm_ratio n E.
Proof. unfold bm_ratio. destruct n as [|[|n]]; try lra. apply Rpower_pos. Qed.

Lemma bm_ratio_pow n E : 0 < E -> (2 <= n)%nat -> bm_ratio n E ^ (n - 1) = E.
Proof.
  intros HE Hn. unfold bm_ratio. destruct n as [|[|n]]; try lia.
  apply Rpower_root_pow; [assumption|lia].
Qed.

Lemma bm_ratio_of_pow n r : 0 < r -> (2 <= n)%nat -> bm_ratio n (r ^ (n - 1)) = r.
Proof.
  intros Hr Hn. unfold bm_ratio. destruct n as [|[|n]]; try lia.
  apply Rpower_pow_root; [assumption|lia].
Qed.

Lemma bm_ratio_inv n E : 0 < E -> bm_ratio n (/ E) = / bm_ratio n E.
Proof.
  intros HE. unfold bm_ratio. destruct n as [|[|n]]; try (symmetry; apply Rinv_1).
  apply Rpower_inv_base; assumption.
Qed.

Lemma bm_gsum_pos n E : (1 <= n)%nat -> 0 < gsum (bm_ratio n E) n.
Proof. intros. apply gsum_pos; [apply Rlt_le, bm_ratio_pos|assumption]. Qed.

(** the cells fill the edge *)
Lemma bm_cells_sum L n E : (1 <= n)%nat -> bm_first L n E * gsum (bm_ratio n E) n = L.
Proof. intros Hn. unfold bm_first. field. apply Rgt_not_eq, bm_gsum_pos; assumption. Qed.

Lemma bm_first_pos L n E : 0 < L -> (1 <= n)%nat -> 0 < bm_first L n E.
Proof. intros HL Hn. unfold bm_first. apply Rdiv_lt_0_compat; [assumption|apply bm_gsum_pos; assumption]. Qed.

(** last / first = E *)
Lemma bm_last_first L n E : 0 < E -> (2 <= n)%nat -> bm_last L n E = bm_first L n E * E.
Proof. intros HE Hn. unfold bm_last, bm_cell. rewrite bm_ratio_pow by assumption. reflexivity. Qed.

(** one cell: the whole edge *)
Lemma bm_first_one L E : bm_first L 1 E = L.
Proof. unfold bm_first, bm_ratio. simpl. field. Qed.

(** first cell from a ratio: if [s * gsum r n = L] then n cells with E = r^(n-1) start with s *)
Lemma bm_first_of_ratio L n r s :
  0 < r -> (2 <= n)%nat -> s * gsum r n = L -> bm_first L n (r ^ (n - 1)) = s.
Proof.
  intros Hr Hn H. unfold bm_first. rewrite bm_ratio_of_pow by assumption. rewrite <- H. field.
  apply Rgt_not_eq, gsum_pos; [lra|lia].
Qed.

(** reversal of the whole cell sequence *)
Lemma bm_cell_rev L n E i :
  0 < E -> (i < n)%nat -> bm_cell L n (/ E) i = bm_cell L n E (n - 1 - i).
Proof.
  intros HE Hi. unfold bm_cell, bm_first. rewrite bm_ratio_inv by assumption.
  set (r := bm_ratio n E). assert (Hr : 0 < r) by apply bm_ratio_pos.
  assert (Hg : 0 < gsum r n) by (apply gsum_pos; [lra|lia]).
  assert (Hrev : gsum (/ r) n * r ^ (n - 1) = gsum r n) by (apply gsum_rev_n; [assumption|lia]).
  assert (Hgi : 0 < gsum (/ r) n).
  { apply gsum_pos; [|lia]. apply Rlt_le, Rinv_0_lt_compat; assumption. }
  replace (n - 1)%nat with ((n - 1 - i) + i)%nat in Hrev by lia. rewrite pow_add in Hrev.
  rewrite pow_inv.
  assert (Hri : 0 < r ^ i) by (apply pow_lt; assumption).
  assert (Hrn : 0 < r ^ (n - 1 - i)) by (apply pow_lt; assumption).
  rewrite <- Hrev. field. repeat split; lra.
Qed.

Lemma nth_map_seq (f : nat -> R) n i d : (i < n)%nat -> nth i (map f (seq 0 n)) d = f i.
Proof.
  intros Hi. rewrite nth_indep with (d' := f 0%nat) by (rewrite map_length, seq_length; lia).
  rewrite map_nth. rewrite seq_nth by lia. reflexivity.
Qed.

Lemma bm_cells_rev L n E : 0 < E -> bm_cells L n (/ E) = rev (bm_cells L n E).
Proof.
  intros HE. unfold bm_cells.
  apply nth_ext with (d := 0) (d' := 0).
  - rewrite rev_length, !map_length. reflexivity.
  - intros i Hi. rewrite map_length, seq_length in Hi.
    rewrite rev_nth by (rewrite map_length, seq_length; assumption).
    rewrite map_length, seq_length.
    rewrite !nth_map_seq by lia. rewrite bm_cell_rev by assumption. f_equal. lia.
Qed.
