(** C13 - lemmas about the optimizer model (Model/C13_Optimizer.v).
    Everything here holds for every clamp function, link transform, quality function and, above
    all, for every behaviour of the minimiser (arbitrary trial lists). *)
From Coq Require Import List Bool Arith Lia.
From CB Require Import Model.C13_Optimizer.
Import ListNotations.

(** * lists *)
Lemma upd_length {A} (l : list A) : forall i v, length (upd l i v) = length l.
Proof. induction l as [|a l IH]; intros [|i] v; simpl; auto. Qed.

Lemma nth_error_upd_eq {A} (l : list A) : forall i v, i < length l -> nth_error (upd l i v) i = Some v.
Proof.
  induction l as [|a l IH]; intros [|i] v H; simpl in *; try lia; auto.
  apply IH; lia.
Qed.

Lemma nth_error_upd_neq {A} (l : list A) : forall i k v, k <> i -> nth_error (upd l i v) k = nth_error l k.
Proof.
  induction l as [|a l IH]; intros [|i] [|k] v H; simpl; auto; try congruence.
Qed.

Lemma nth_error_upd_ge {A} (l : list A) : forall i v, length l <= i -> upd l i v = l.
Proof.
  induction l as [|a l IH]; intros [|i] v H; simpl in *; auto; try lia.
  f_equal. apply IH; lia.
Qed.

Lemma upd_same {A} (l : list A) : forall i v, nth_error l i = Some v -> upd l i v = l.
Proof.
  induction l as [|a l IH]; intros [|i] v H; simpl in *; try discriminate; auto.
  - congruence.
  - f_equal. apply IH; auto.
Qed.

Lemma upd_upd {A} (l : list A) : forall i a b, upd (upd l i a) i b = upd l i b.
Proof. induction l as [|c l IH]; intros [|i] x y; simpl; auto. f_equal. apply IH. Qed.

Lemma nth_error_ext_eq {A} : forall (l l' : list A), (forall i, nth_error l i = nth_error l' i) -> l = l'.
Proof.
  induction l as [|a l IH]; intros [|b l'] H; auto.
  - specialize (H 0); discriminate.
  - specialize (H 0); discriminate.
  - f_equal.
    + specialize (H 0); simpl in H; congruence.
    + apply IH. intro i. apply (H (S i)).
Qed.

Lemma Forall_upd {A} (B : A -> Prop) (l : list A) : forall i v, Forall B l -> B v -> Forall B (upd l i v).
Proof.
  induction l as [|a l IH]; intros [|i] v Hl Hv; simpl; auto; inversion Hl; subst; constructor; auto.
Qed.

Lemma nodupb_NoDup (l : list nat) : nodupb l = true -> NoDup l.
Proof.
  induction l as [|a l IH]; simpl; intro H; constructor.
  - apply andb_true_iff in H. destruct H as [H _]. intro Hin.
    apply negb_true_iff in H. assert (existsb (Nat.eqb a) l = true); [|congruence].
    apply existsb_exists. exists a. split; auto. apply Nat.eqb_refl.
  - apply IH. apply andb_true_iff in H. tauto.
Qed.

Lemma NoDup_app_l {A} (l m : list A) : NoDup (l ++ m) -> NoDup l.
Proof.
  induction l as [|a l IH]; simpl; intro H; constructor; inversion H; subst.
  - intro Hin. apply H2. apply in_or_app. auto.
  - auto.
Qed.

Lemma NoDup_app_r {A} (l m : list A) : NoDup (l ++ m) -> NoDup m.
Proof. induction l as [|a l IH]; simpl; intro H; auto. inversion H; auto. Qed.

Lemma NoDup_app_disj {A} (l m : list A) : NoDup (l ++ m) -> forall x, In x l -> In x m -> False.
Proof.
  induction l as [|a l IH]; simpl; intros H x Hl Hm; auto.
  inversion H; subst. destruct Hl as [->|Hl].
  - apply H2. apply in_or_app. auto.
  - eapply IH; eauto.
Qed.

(** distinct entries of a list contribute disjoint, duplicate-free parts to a duplicate-free flat_map *)
Lemma NoDup_flat_map_nth {A} (f : A -> list nat) (l : list A) :
  NoDup (flat_map f l) ->
  (forall a x, nth_error l a = Some x -> NoDup (f x)) /\
  (forall a b x y i, nth_error l a = Some x -> nth_error l b = Some y -> a <> b -> In i (f x) -> In i (f y) -> False).
Proof.
  induction l as [|h l IH]; simpl; intro H.
  - split; intros; destruct a; discriminate.
  - pose proof (NoDup_app_l _ _ H) as Hh. pose proof (NoDup_app_r _ _ H) as Hr.
    destruct (IH Hr) as [IH1 IH2]. split.
    + intros [|a] x Hx; simpl in Hx; [inversion Hx; subst; auto | eauto].
    + intros [|a] [|b] x y i Hx Hy Hab Hi Hj; simpl in *; try congruence.
      * inversion Hx; subst. eapply NoDup_app_disj; eauto.
        apply in_flat_map. exists y. split; auto. eapply nth_error_In; eauto.
      * inversion Hy; subst. eapply NoDup_app_disj; eauto.
        apply in_flat_map. exists x. split; auto. eapply nth_error_In; eauto.
      * eapply (IH2 a b); eauto.
Qed.

Section Proofs.
  Variables X P V : Type.
  Variable leb : V -> V -> bool.
  Notation grid := (grid X P V).
  Notation state := (state X P).
  Notation clamp := (clamp X P).

  (** * sequences of writes into the point array *)
  Fixpoint lastw (ws : list (nat * P)) (i : nat) : option P :=
    match ws with
    | [] => None
    | w :: r => match lastw r i with
                | Some v => Some v
                | None => if fst w =? i then Some (snd w) else None
                end
    end.

  Lemma apply_writes_length : forall ws (p : list P), length (apply_writes p ws) = length p.
  Proof.
    induction ws as [|w r IH]; intro p; simpl; auto.
    unfold apply_writes in *. simpl. rewrite IH. apply upd_length.
  Qed.

  Lemma nth_error_apply_writes : forall ws (p : list P) i,
    nth_error (apply_writes p ws) i =
    match lastw ws i with
    | Some v => if i <? length p then Some v else None
    | None => nth_error p i
    end.
  Proof.
    induction ws as [|w r IH]; intros p i; simpl; auto.
    unfold apply_writes in *. simpl. rewrite IH. rewrite upd_length.
    destruct (lastw r i) as [v|]; auto.
    destruct (Nat.eqb_spec (fst w) i) as [E|E].
    - subst i. destruct (Nat.ltb_spec (fst w) (length p)) as [L|L].
      + apply nth_error_upd_eq; auto.
      + rewrite nth_error_upd_ge by lia. apply nth_error_None. lia.
    - apply nth_error_upd_neq. congruence.
  Qed.

  Lemma lastw_None ws i : lastw ws i = None <-> ~ In i (map fst ws).
  Proof.
    induction ws as [|w r IH]; simpl; [tauto|].
    destruct (lastw r i) as [v|].
    - split; [discriminate|]. intro H. exfalso. apply H. right.
      destruct (in_dec Nat.eq_dec i (map fst r)) as [Hin|Hn]; auto.
      apply IH in Hn. discriminate.
    - destruct (Nat.eqb_spec (fst w) i) as [E|E].
      + split; [discriminate|]. intro H. exfalso. apply H. auto.
      + split; auto. intros _ [H|H]; [congruence|]. apply IH in H; auto.
  Qed.

  Lemma apply_writes_id : forall ws (p : list P),
    (forall w, In w ws -> nth_error p (fst w) = Some (snd w)) -> apply_writes p ws = p.
  Proof.
    induction ws as [|w r IH]; intros p H; auto.
    unfold apply_writes in *. simpl. rewrite upd_same by (apply H; left; auto).
    apply IH. intros w' Hw'. apply H. right; auto.
  Qed.

  Lemma writes_keys (g : grid) j pos : map fst (writes g j pos) = j :: followers g j.
  Proof. unfold writes, followers. simpl. f_equal. rewrite map_map. reflexivity. Qed.

  Lemma gu_pts_length (g : grid) p j pos : length (gu_pts g p j pos) = length p.
  Proof. apply apply_writes_length. Qed.

  (** frame: only the junction and its link followers are written *)
  Lemma gu_pts_frame (g : grid) p j pos i :
    ~ In i (j :: followers g j) -> nth_error (gu_pts g p j pos) i = nth_error p i.
  Proof.
    intro H. unfold gu_pts. rewrite nth_error_apply_writes.
    rewrite <- writes_keys with (pos := pos) in H. apply lastw_None in H. rewrite H. reflexivity.
  Qed.

  Lemma lastw_links (ls : list (link P)) pos : forall l,
    NoDup (map (@l_fol P) ls) -> In l ls ->
    lastw (map (fun l => (l_fol l, l_tr l pos)) ls) (l_fol l) = Some (l_tr l pos).
  Proof.
    induction ls as [|h r IH]; intros l Hnd Hin; [destruct Hin|].
    simpl in *. inversion Hnd; subst. destruct Hin as [->|Hin].
    - assert (lastw (map (fun l0 => (l_fol l0, l_tr l0 pos)) r) (l_fol l) = None) as ->.
      { apply lastw_None. rewrite map_map. simpl. auto. }
      rewrite Nat.eqb_refl. reflexivity.
    - rewrite IH; auto.
  Qed.

  (** after an update the junction sits at [pos] and every follower at its transform *)
  Lemma gu_pts_writes (g : grid) p j pos :
    NoDup (j :: followers g j) -> Forall (fun i => i < length p) (j :: followers g j) ->
    forall w, In w (writes g j pos) -> nth_error (gu_pts g p j pos) (fst w) = Some (snd w).
  Proof.
    intros Hnd Hlt w Hw. unfold gu_pts. rewrite nth_error_apply_writes.
    assert (Hk : In (fst w) (j :: followers g j)).
    { rewrite <- writes_keys with (pos := pos). apply in_map. auto. }
    rewrite Forall_forall in Hlt. specialize (Hlt _ Hk).
    apply Nat.ltb_lt in Hlt. inversion Hnd; subst.
    unfold writes in *. simpl. destruct Hw as [<-|Hw]; simpl.
    - assert (lastw (map (fun l => (l_fol l, l_tr l pos)) (g_links g j)) j = None) as ->.
      { apply lastw_None. rewrite map_map. simpl. exact H1. }
      rewrite Nat.eqb_refl. simpl in Hlt. rewrite Hlt. reflexivity.
    - apply in_map_iff in Hw. destruct Hw as [l [<- Hl]]. simpl in *.
      rewrite lastw_links; auto. rewrite Hlt. reflexivity.
  Qed.

  (** a second update overwrites the first completely *)
  Lemma gu_pts_twice (g : grid) p j a b : gu_pts g (gu_pts g p j a) j b = gu_pts g p j b.
  Proof.
    apply nth_error_ext_eq. intro i. unfold gu_pts at 1 3.
    rewrite !nth_error_apply_writes. rewrite gu_pts_length.
    destruct (lastw (writes g j b) i) as [v|] eqn:E; auto.
    apply gu_pts_frame. rewrite <- writes_keys with (pos := b). apply lastw_None. exact E.
  Qed.

  Lemma gu_pts_id (g : grid) p j pos :
    (forall w, In w (writes g j pos) -> nth_error p (fst w) = Some (snd w)) -> gu_pts g p j pos = p.
  Proof. apply apply_writes_id. Qed.

  (** * [move]: update_params + grid.update *)
  Definition mv (g : grid) (c : clamp) (cid : nat) (st : state) (x : X) : state :=
    {| pts := gu_pts g (pts st) (c_j c) (c_fun c x); prm := upd (prm st) cid x |}.

  Lemma move_fst g c cid st x : fst (move g c cid st x) = mv g c cid st x.
  Proof. unfold move, grid_update, mv. destruct (g_links g (c_j c)); reflexivity. Qed.

  Lemma move_eq g c cid st x : move g c cid st x = (mv g c cid st x, snd (move g c cid st x)).
  Proof. rewrite <- move_fst. destruct (move g c cid st x); reflexivity. Qed.

  Lemma mv_mv g c cid st a b : mv g c cid (mv g c cid st a) b = mv g c cid st b.
  Proof. unfold mv. simpl. rewrite gu_pts_twice, upd_upd. reflexivity. Qed.

  (** a clamp "sits": its junction is at function(params) and its followers at their transforms *)
  Definition sits (g : grid) (st : state) (cid : nat) : Prop :=
    exists c x, nth_error (g_clamps g) cid = Some c /\ nth_error (prm st) cid = Some x /\
      nth_error (pts st) (c_j c) = Some (c_fun c x) /\
      forall l, In l (g_links g (c_j c)) -> nth_error (pts st) (l_fol l) = Some (l_tr l (c_fun c x)).

  Lemma sits_writes (g : grid) (st : state) (c : clamp) x :
    nth_error (pts st) (c_j c) = Some (c_fun c x) ->
    (forall l, In l (g_links g (c_j c)) -> nth_error (pts st) (l_fol l) = Some (l_tr l (c_fun c x))) ->
    forall w, In w (writes g (c_j c) (c_fun c x)) -> nth_error (pts st) (fst w) = Some (snd w).
  Proof.
    intros H1 H2 w [<-|Hw]; simpl; auto.
    apply in_map_iff in Hw. destruct Hw as [l [<- Hl]]. simpl. auto.
  Qed.

  Lemma mv_id (g : grid) (st : state) cid (c : clamp) x :
    nth_error (prm st) cid = Some x ->
    nth_error (pts st) (c_j c) = Some (c_fun c x) ->
    (forall l, In l (g_links g (c_j c)) -> nth_error (pts st) (l_fol l) = Some (l_tr l (c_fun c x))) ->
    mv g c cid st x = st.
  Proof.
    intros Hx H1 H2. unfold mv. rewrite gu_pts_id by (apply sits_writes; auto).
    rewrite upd_same by auto. destruct st; reflexivity.
  Qed.

  Definition wf (g : grid) (n : nat) : Prop :=
    NoDup (flat_map (touched g) (g_clamps g)) /\ Forall (fun i => i < n) (flat_map (touched g) (g_clamps g)).

  Lemma wfb_wf g n : wfb g n = true -> wf g n.
  Proof.
    unfold wfb, wf. intro H. apply andb_true_iff in H. destruct H as [H1 H2]. split.
    - apply nodupb_NoDup; auto.
    - apply Forall_forall. intros i Hi. rewrite forallb_forall in H2. apply Nat.ltb_lt. auto.
  Qed.

  Lemma wf_clamp g n cid c : wf g n -> nth_error (g_clamps g) cid = Some c ->
    NoDup (touched g c) /\ Forall (fun i => i < n) (touched g c).
  Proof.
    intros [H1 H2] Hc. split.
    - destruct (NoDup_flat_map_nth (touched g) _ H1) as [A _]. eauto.
    - apply Forall_forall. intros i Hi. rewrite Forall_forall in H2. apply H2.
      apply in_flat_map. exists c. split; auto. eapply nth_error_In; eauto.
  Qed.

  Lemma wf_disjoint g n a b ca cb i : wf g n -> nth_error (g_clamps g) a = Some ca ->
    nth_error (g_clamps g) b = Some cb -> a <> b -> In i (touched g ca) -> In i (touched g cb) -> False.
  Proof.
    intros [H1 _]. destruct (NoDup_flat_map_nth (touched g) _ H1) as [_ B]. intros. eapply (B a b); eauto.
  Qed.

  Lemma sits_mv g st cid c x :
    wf g (length (pts st)) -> nth_error (g_clamps g) cid = Some c -> cid < length (prm st) ->
    sits g (mv g c cid st x) cid.
  Proof.
    intros Hwf Hc Hlen. destruct (wf_clamp _ _ _ _ Hwf Hc) as [Hnd Hlt].
    exists c, x. split; auto. split; [simpl; apply nth_error_upd_eq; auto|].
    pose proof (gu_pts_writes g (pts st) (c_j c) (c_fun c x) Hnd Hlt) as W. split.
    - apply (W (c_j c, c_fun c x)). left; reflexivity.
    - intros l Hl. apply (W (l_fol l, l_tr l (c_fun c x))). right.
      apply in_map_iff. exists l. auto.
  Qed.

  Lemma sits_other g st cid c x cid' :
    wf g (length (pts st)) -> nth_error (g_clamps g) cid = Some c -> cid' <> cid ->
    sits g st cid' -> sits g (mv g c cid st x) cid'.
  Proof.
    intros Hwf Hc Hne (c' & x' & Hc' & Hx' & H1 & H2).
    exists c', x'. split; auto. split; [simpl; rewrite nth_error_upd_neq; auto|].
    assert (D : forall i, In i (touched g c') -> ~ In i (c_j c :: followers g (c_j c))).
    { intros i Hi Hj. eapply (wf_disjoint g _ cid' cid); eauto. }
    split; simpl.
    - rewrite gu_pts_frame; auto. apply D. left; reflexivity.
    - intros l Hl. rewrite gu_pts_frame; auto. apply D. right. apply in_map. auto.
  Qed.

  (** * trials *)
  Lemma run_trials_spec g c cid : forall trials st st' ok,
    run_trials g c cid st trials = (st', ok) ->
    (st' = st /\ ok = true /\ trials = []) \/
    (exists x, In x trials /\ st' = mv g c cid st x /\ (ok = true -> x = last trials x)).
  Proof.
    induction trials as [|x r IH]; intros st st' ok H; simpl in H.
    - inversion H; subst. left; auto.
    - rewrite move_eq in H. destruct (snd (move g c cid st x)) as [q|].
      + apply IH in H. destruct H as [(-> & -> & ->)|(y & Hy & -> & Hl)].
        * right. exists x. simpl; auto.
        * right. exists y. split; [right; auto|]. split; [apply mv_mv|].
          intro Hok. specialize (Hl Hok). destruct r as [|z r']; [destruct Hy|].
          rewrite Hl at 1. reflexivity.
      + inversion H; subst. right. exists x. split; [left; auto|]. split; auto. discriminate.
  Qed.

  Lemma run_probe_spec g c cid : forall evals st st' ok,
    run_probe g c cid st evals = (st', ok) ->
    (st' = st /\ ok = true /\ evals = []) \/ (exists x, In x evals /\ st' = mv g c cid st x).
  Proof.
    induction evals as [|x r IH]; intros st st' ok H; simpl in H.
    - inversion H; subst. left; auto.
    - rewrite move_eq in H. cbv beta iota in H.
      destruct (snd (move g c cid st x)) as [q|]; [destruct (g_jq g (c_j c) (pts (mv g c cid st x))) as [q'|]|].
      + apply IH in H. destruct H as [(-> & -> & ->)|(y & Hy & ->)].
        * right. exists x. simpl; auto.
        * right. exists y. split; [right; auto|]. apply mv_mv.
      + inversion H; subst. right. exists x. simpl; auto.
      + inversion H; subst. right. exists x. simpl; auto.
  Qed.

  (** the state is the entry state or one [mv] away from it *)
  Definition near g c cid (st st' : state) : Prop := st' = st \/ exists x, st' = mv g c cid st x.

  Lemma near_mv g c cid st st1 x0 : near g c cid st st1 -> mv g c cid st1 x0 = mv g c cid st x0.
  Proof. intros [->|[x ->]]; auto. apply mv_mv. Qed.

  Lemma skip_branch_spec g c cid st st1 x0 st' oc :
    near g c cid st st1 -> skip_branch g c cid st1 x0 = (st', oc) ->
    st' = mv g c cid st x0 /\ (oc = Skipped \/ oc = Raised).
  Proof.
    intros Hn H. unfold skip_branch in H. rewrite move_eq in H.
    rewrite (near_mv _ _ _ _ _ _ Hn) in H.
    destruct (snd (move g c cid st1 x0)); inversion H; subst; auto.
  Qed.

  (** * optimize_clamp: every outcome characterised, for every oracle *)
  Inductive oc_spec (g : grid) (cid : nat) (st : state) (o : oracle X) (st' : state) : outcome V -> Prop :=
  | spec_raised_entry : st' = st -> oc_spec g cid st o st' Raised
  | spec_restored c x0 oc :
      nth_error (g_clamps g) cid = Some c -> nth_error (prm st) cid = Some x0 ->
      st' = mv g c cid st x0 ->
      (oc = Skipped \/ oc = Raised \/ exists q0 q1, oc = RolledBack q0 q1 /\ g_gq g (pts st) = Some q0) ->
      oc_spec g cid st o st' oc
  | spec_kept c x0 q0 q1 :
      nth_error (g_clamps g) cid = Some c -> nth_error (prm st) cid = Some x0 ->
      g_gq g (pts st) = Some q0 -> g_gq g (pts st') = Some q1 -> leb q0 q1 = false ->
      (st' = st \/ exists x, In x (o_trials o) /\ x = last (o_trials o) x /\ st' = mv g c cid st x) ->
      oc_spec g cid st o st' (Kept q0 q1).

  Lemma optimize_clamp_spec g cid st o st' oc :
    optimize_clamp leb g cid st o = (st', oc) -> oc_spec g cid st o st' oc.
  Proof.
    unfold optimize_clamp. intro H.
    destruct (nth_error (g_clamps g) cid) as [c|] eqn:Hc; [|inversion H; subst; constructor; auto].
    destruct (nth_error (prm st) cid) as [x0|] eqn:Hx; [|inversion H; subst; constructor; auto].
    destruct (g_gq g (pts st)) as [q0|] eqn:Hq0; [|inversion H; subst; constructor; auto].
    destruct (g_jq g (c_j c) (pts st)) as [jq0|]; [|inversion H; subst; constructor; auto].
    destruct (run_trials g c cid st (o_trials o)) as [st1 ok] eqn:Ht.
    apply run_trials_spec in Ht.
    assert (Hn : near g c cid st st1).
    { destruct Ht as [(-> & _)|(x & _ & -> & _)]; [left|right]; eauto. }
    assert (SK : forall s oc0, skip_branch g c cid st1 x0 = (s, oc0) -> oc_spec g cid st o s oc0).
    { intros s oc0 Hs. destruct (skip_branch_spec _ _ _ _ _ _ _ _ Hn Hs) as [-> Ho].
      eapply spec_restored; eauto. tauto. }
    destruct (ok && negb (o_raises o)) eqn:Hok; [|apply SK; auto].
    destruct (g_jq g (c_j c) (pts st1)) as [jq1|]; [|apply SK; auto].
    destruct (g_gq g (pts st1)) as [q1|] eqn:Hq1; [|apply SK; auto].
    destruct (leb q0 q1) eqn:Hle.
    - rewrite move_eq in H. rewrite (near_mv _ _ _ _ _ _ Hn) in H.
      destruct (snd (move g c cid st1 x0)).
      + inversion H; subst. eapply spec_restored; eauto. right; right. eauto.
      + assert (Hn2 : near g c cid st (mv g c cid st x0)) by (right; eauto).
        destruct (skip_branch_spec _ _ _ _ _ _ _ _ Hn2 H) as [-> Ho].
        eapply spec_restored; eauto. tauto.
    - inversion H; subst. eapply spec_kept; eauto.
      apply andb_true_iff in Hok. destruct Hok as [Hok _]. subst ok.
      destruct Ht as [(-> & _)|(x & Hin & -> & Hl)]; [left; auto|].
      right. exists x. auto.
  Qed.

  Inductive probe_spec (g : grid) (cid : nat) (st : state) (evals : list X) (st' : state) : outcome V -> Prop :=
  | pspec_entry : st' = st -> probe_spec g cid st evals st' Raised
  | pspec_mid c x : nth_error (g_clamps g) cid = Some c -> nth_error (prm st) cid <> None ->
      In x evals -> st' = mv g c cid st x ->
      probe_spec g cid st evals st' Raised
  | pspec_restored c x0 oc : nth_error (g_clamps g) cid = Some c -> nth_error (prm st) cid = Some x0 ->
      st' = mv g c cid st x0 -> (oc = Probed \/ oc = Raised) -> probe_spec g cid st evals st' oc.

  Lemma probe_spec_ok g cid st evals st' oc : probe g cid st evals = (st', oc) -> probe_spec g cid st evals st' oc.
  Proof.
    unfold probe. intro H.
    destruct (nth_error (g_clamps g) cid) as [c|] eqn:Hc; [|inversion H; subst; constructor; auto].
    destruct (nth_error (prm st) cid) as [x0|] eqn:Hx; [|inversion H; subst; constructor; auto].
    destruct (run_probe g c cid st evals) as [st1 ok] eqn:Ht. apply run_probe_spec in Ht.
    destruct ok.
    - rewrite move_eq in H.
      assert (Hn : near g c cid st st1) by (destruct Ht as [(-> & _)|(x & _ & ->)]; [left|right]; eauto).
      rewrite (near_mv _ _ _ _ _ _ Hn) in H.
      destruct (snd (move g c cid st1 x0)); inversion H; subst; eapply pspec_restored; eauto.
    - inversion H; subst. destruct Ht as [(_ & D & _)|(x & Hin & ->)]; [discriminate|].
      eapply pspec_mid; eauto. congruence.
  Qed.

  (** * consequences for one step *)
  (** the state after a step is the old one or one [mv] of the event's clamp away *)
  Definition ev_cid (e : event X) : option nat :=
    match e with EMeasure => None | EProbe c _ => Some c | EOpt c _ => Some c end.

  Lemma step_near (g : grid) (st : state) e (st' : state) oc : step leb g st e = (st', oc) ->
    st' = st \/ exists cid c x, ev_cid e = Some cid /\ nth_error (g_clamps g) cid = Some c /\
                                nth_error (prm st) cid <> None /\ st' = mv g c cid st x.
  Proof.
    destruct e as [|cid evals|cid o]; simpl; intro H.
    - inversion H; auto.
    - apply probe_spec_ok in H. inversion H; subst; auto; right; exists cid, c; eexists; repeat split; eauto; congruence.
    - apply optimize_clamp_spec in H. inversion H; subst; auto.
      + right. exists cid, c, x0. repeat split; auto. congruence.
      + destruct H5 as [->|(x & _ & _ & ->)]; auto. right. exists cid, c, x. repeat split; auto. congruence.
  Qed.

  Lemma nth_error_lt_Some {A} (l : list A) i : nth_error l i <> None -> i < length l.
  Proof. apply nth_error_Some. Qed.

  Lemma step_length (g : grid) (st : state) e (st' : state) oc : step leb g st e = (st', oc) ->
    length (pts st') = length (pts st) /\ length (prm st') = length (prm st).
  Proof.
    intro H. apply step_near in H. destruct H as [->|(cid & c & x & _ & _ & _ & ->)]; auto.
    simpl. rewrite gu_pts_length, upd_length. auto.
  Qed.

  Lemma step_frame_pts (g : grid) (st : state) e (st' : state) oc i : step leb g st e = (st', oc) ->
    (forall cid c, ev_cid e = Some cid -> nth_error (g_clamps g) cid = Some c -> ~ In i (touched g c)) ->
    nth_error (pts st') i = nth_error (pts st) i.
  Proof.
    intros H Hi. apply step_near in H. destruct H as [->|(cid & c & x & He & Hc & _ & ->)]; auto.
    simpl. apply gu_pts_frame. apply (Hi cid c); auto.
  Qed.

  Lemma step_frame_prm (g : grid) (st : state) e (st' : state) oc k : step leb g st e = (st', oc) -> ev_cid e <> Some k ->
    nth_error (prm st') k = nth_error (prm st) k.
  Proof.
    intros H Hk. apply step_near in H. destruct H as [->|(cid & c & x & He & _ & _ & ->)]; auto.
    simpl. apply nth_error_upd_neq. congruence.
  Qed.

  Lemma step_sits (g : grid) (st : state) e (st' : state) oc k : wf g (length (pts st)) -> step leb g st e = (st', oc) ->
    sits g st k -> sits g st' k.
  Proof.
    intros Hwf H Hs. apply step_near in H. destruct H as [->|(cid & c & x & He & Hc & Hp & ->)]; auto.
    destruct (Nat.eq_dec k cid) as [->|Hne].
    - apply sits_mv; auto. apply nth_error_Some; auto.
    - apply sits_other; auto.
  Qed.

  (** a completed probe or optimisation of clamp [cid] leaves it sitting, whatever the entry state *)
  Lemma step_establishes (g : grid) (st : state) e (st' : state) oc cid : wf g (length (pts st)) -> step leb g st e = (st', oc) ->
    ev_cid e = Some cid -> is_raised oc = false -> (forall q0 q1, oc <> Kept q0 q1) -> sits g st' cid.
  Proof.
    intros Hwf H He Hr Hk. destruct e as [|c0 evals|c0 o]; simpl in *; try discriminate; inversion He; subst c0.
    - apply probe_spec_ok in H. inversion H; subst; try discriminate.
      apply sits_mv; auto. apply nth_error_Some; congruence.
    - apply optimize_clamp_spec in H. inversion H; subst; try discriminate.
      + apply sits_mv; auto. apply nth_error_Some; congruence.
      + exfalso. eapply Hk; eauto.
  Qed.

  (** rollback / skip / probe: with the clamp sitting on entry the state is restored exactly *)
  Lemma optimize_clamp_restores (g : grid) cid (st : state) o (st' : state) oc :
    optimize_clamp leb g cid st o = (st', oc) -> sits g st cid ->
    (forall q0 q1, oc <> Kept q0 q1) -> st' = st.
  Proof.
    intros H (c & x & Hc & Hx & H1 & H2) Hk. apply optimize_clamp_spec in H. inversion H; subst; auto.
    - rewrite Hc in H0. inversion H0; subst c0. rewrite Hx in H3. inversion H3; subst x0.
      apply mv_id; auto.
    - exfalso. eapply Hk; eauto.
  Qed.

  Lemma probe_restores (g : grid) cid (st : state) evals (st' : state) oc :
    probe g cid st evals = (st', oc) -> sits g st cid -> oc = Probed -> st' = st.
  Proof.
    intros H (c & x & Hc & Hx & H1 & H2) Ho. apply probe_spec_ok in H. inversion H; subst; try discriminate.
    rewrite Hc in H0. inversion H0; subst c0. rewrite Hx in H3. inversion H3; subst x0.
    apply mv_id; auto.
  Qed.

  (** [leb] is a total preorder *)
  Definition total := forall a b : V, leb a b = true \/ leb b a = true.
  Definition transitive := forall a b c : V, leb a b = true -> leb b c = true -> leb a c = true.

  Lemma total_refl : total -> forall a, leb a a = true.
  Proof. intros T a. destruct (T a a); auto. Qed.

  (** The order [le] in which "no worse" is stated need not be the rollback test [leb] of the code
      (reporter.improvement <= 0, i.e. [leb q0 q1]): all that matters is that a result which is NOT
      rolled back is no worse.  [leb] itself (with [total]) is one instance, the strict test
      "improvement < 0" (ties are kept) with the same order is another. *)
  Variable le : V -> V -> bool.
  Definition reflexive_le := forall a : V, le a a = true.
  Definition transitive_le := forall a b c : V, le a b = true -> le b c = true -> le a c = true.
  Definition keeps_no_worse := forall a b : V, leb a b = false -> le b a = true.

  Lemma step_no_worse (g : grid) (st : state) e (st' : state) oc q :
    reflexive_le -> keeps_no_worse -> step leb g st e = (st', oc) -> is_raised oc = false ->
    (forall cid, ev_cid e = Some cid -> sits g st cid) ->
    g_gq g (pts st) = Some q -> exists q', g_gq g (pts st') = Some q' /\ le q' q = true.
  Proof.
    intros T K H Hr Hs Hq. destruct e as [|cid evals|cid o]; simpl in H.
    - inversion H; subst. exists q. split; auto.
    - assert (st' = st) as ->.
      { eapply probe_restores; eauto. apply probe_spec_ok in H. inversion H; subst; try discriminate.
        destruct H3; subst; auto; discriminate. }
      exists q. split; auto.
    - pose proof (optimize_clamp_spec _ _ _ _ _ _ H) as S. inversion S; subst; try discriminate.
      + match goal with |- exists q', g_gq g (pts ?s) = _ /\ _ => assert (E0 : s = st) end.
        { eapply optimize_clamp_restores; eauto. intros q0 q1 E.
          destruct H3 as [E'|[E'|(a & b & E' & _)]]; rewrite E' in E; discriminate. }
        rewrite E0. exists q. split; auto.
      + rewrite Hq in H2. inversion H2; subst q0. exists q1. split; auto.
  Qed.

  (** * sequences of events *)
  Definition ev_cids (evs : list (event X)) : list nat :=
    flat_map (fun e => match ev_cid e with Some c => [c] | None => [] end) evs.

  Lemma in_ev_cids e evs cid : In e evs -> ev_cid e = Some cid -> In cid (ev_cids evs).
  Proof. intros Hin He. unfold ev_cids. apply in_flat_map. exists e. rewrite He. simpl; auto. Qed.

  Lemma run_events_length (g : grid) : forall evs (st : state) tr (fin : state), run_events leb g st evs = (tr, fin) ->
    length (pts fin) = length (pts st) /\ length (prm fin) = length (prm st).
  Proof.
    induction evs as [|e r IH]; intros st tr fin H; simpl in H.
    - inversion H; auto.
    - destruct (step leb g st e) as [st1 oc] eqn:Hs. pose proof (step_length _ _ _ _ _ Hs) as [L1 L2].
      destruct (is_raised oc).
      + inversion H; subst; auto.
      + destruct (run_events leb g st1 r) as [tr1 fin1] eqn:Hr. inversion H; subst.
        apply IH in Hr. destruct Hr. split; congruence.
  Qed.

  Lemma run_events_frame_pts (g : grid) i : forall evs (st : state) tr (fin : state), run_events leb g st evs = (tr, fin) ->
    (forall cid c, In cid (ev_cids evs) -> nth_error (g_clamps g) cid = Some c -> ~ In i (touched g c)) ->
    nth_error (pts fin) i = nth_error (pts st) i.
  Proof.
    induction evs as [|e r IH]; intros st tr fin H Hi; simpl in H.
    - inversion H; auto.
    - destruct (step leb g st e) as [st1 oc] eqn:Hs.
      assert (F1 : nth_error (pts st1) i = nth_error (pts st) i).
      { eapply step_frame_pts; eauto. intros cid c He. apply Hi. eapply in_ev_cids; eauto. left; auto. }
      destruct (is_raised oc).
      + inversion H; subst; auto.
      + destruct (run_events leb g st1 r) as [tr1 fin1] eqn:Hr. inversion H; subst.
        rewrite <- F1. eapply IH; eauto. intros cid c Hin. apply Hi.
        unfold ev_cids in *. simpl. apply in_or_app. auto.
  Qed.

  Lemma run_events_frame_prm (g : grid) k : forall evs (st : state) tr (fin : state), run_events leb g st evs = (tr, fin) ->
    ~ In k (ev_cids evs) -> nth_error (prm fin) k = nth_error (prm st) k.
  Proof.
    induction evs as [|e r IH]; intros st tr fin H Hk; simpl in H.
    - inversion H; auto.
    - destruct (step leb g st e) as [st1 oc] eqn:Hs.
      assert (F1 : nth_error (prm st1) k = nth_error (prm st) k).
      { eapply step_frame_prm; eauto. intro He. apply Hk. eapply in_ev_cids; eauto. left; auto. }
      destruct (is_raised oc).
      + inversion H; subst; auto.
      + destruct (run_events leb g st1 r) as [tr1 fin1] eqn:Hr. inversion H; subst.
        rewrite <- F1. eapply IH; eauto. intro Hin. apply Hk.
        unfold ev_cids in *. simpl. apply in_or_app. auto.
  Qed.

  Lemma run_events_sits (g : grid) k : forall evs (st : state) tr (fin : state), wf g (length (pts st)) ->
    run_events leb g st evs = (tr, fin) -> sits g st k -> sits g fin k.
  Proof.
    induction evs as [|e r IH]; intros st tr fin Hwf H Hk; simpl in H.
    - inversion H; subst; auto.
    - destruct (step leb g st e) as [st1 oc] eqn:Hs.
      pose proof (step_sits _ _ _ _ _ k Hwf Hs Hk) as S1.
      pose proof (step_length _ _ _ _ _ Hs) as [L1 _].
      destruct (is_raised oc).
      + inversion H; subst; auto.
      + destruct (run_events leb g st1 r) as [tr1 fin1] eqn:Hr. inversion H; subst.
        eapply (IH st1); [rewrite L1; exact Hwf | exact Hr | exact S1].
  Qed.

  (** all clamps sit *)
  Definition inv (g : grid) (st : state) : Prop := forall cid, cid < length (g_clamps g) -> sits g st cid.

  Lemma run_events_inv (g : grid) evs (st : state) tr (fin : state) : wf g (length (pts st)) ->
    run_events leb g st evs = (tr, fin) -> inv g st -> inv g fin.
  Proof. intros Hwf H I cid Hc. eapply run_events_sits; eauto. Qed.

  (** completed run from a sitting state: quality never gets worse, at every prefix *)
  Lemma run_events_no_worse_gen (g : grid) : reflexive_le -> transitive_le -> keeps_no_worse ->
    forall evs (st : state) tr (fin : state) q,
    wf g (length (pts st)) -> inv g st -> run_events leb g st evs = (tr, fin) -> completed tr = true ->
    g_gq g (pts st) = Some q -> exists q', g_gq g (pts fin) = Some q' /\ le q' q = true.
  Proof.
    intros T Tr K. induction evs as [|e r IH]; intros st tr fin q Hwf I H C Hq; simpl in H.
    - inversion H; subst. exists q. split; auto.
    - destruct (step leb g st e) as [st1 oc] eqn:Hs.
      destruct (is_raised oc) eqn:Hr.
      + inversion H; subst. simpl in C. rewrite Hr in C. discriminate.
      + destruct (run_events leb g st1 r) as [tr1 fin1] eqn:Hre. inversion H; subst.
        simpl in C. rewrite Hr in C. simpl in C.
        assert (Hs' : forall cid, ev_cid e = Some cid -> sits g st cid).
        { intros cid He. apply I. destruct (step_near _ _ _ _ _ Hs) as [E|(cid' & c & x & He' & Hc & _)].
          - destruct e as [|c0 ev|c0 o]; simpl in *; try discriminate; inversion He; subst c0.
            + apply probe_spec_ok in Hs. inversion Hs; subst; try discriminate; apply nth_error_Some; congruence.
            + apply optimize_clamp_spec in Hs. inversion Hs; subst; try discriminate; apply nth_error_Some; congruence.
          - rewrite He in He'. inversion He'; subst. apply nth_error_Some; congruence. }
        destruct (step_no_worse _ _ _ _ _ _ T K Hs Hr Hs' Hq) as (q1 & Hq1 & L1).
        pose proof (step_length _ _ _ _ _ Hs) as [Lp _].
        assert (I1 : inv g st1) by (intros cid Hc; eapply step_sits; eauto).
        assert (Hwf1 : wf g (length (pts st1))) by (rewrite Lp; exact Hwf).
        destruct (IH st1 tr1 fin q1 Hwf1 I1 Hre C Hq1) as (q' & Hq' & L').
        exists q'. split; auto. eapply Tr; eauto.
  Qed.

  (** every clamp that took part in a completed run sits afterwards, whatever the entry state *)
  Definition ties_roll_back := forall a : V, leb a a = true.

  Lemma run_events_establishes_gen (g : grid) : ties_roll_back -> forall evs (st : state) tr (fin : state),
    wf g (length (pts st)) -> run_events leb g st evs = (tr, fin) -> completed tr = true ->
    forall cid, In cid (ev_cids evs) -> sits g fin cid.
  Proof.
    intros T. induction evs as [|e r IH]; intros st tr fin Hwf H C cid Hin; simpl in H.
    - destruct Hin.
    - destruct (step leb g st e) as [st1 oc] eqn:Hs.
      destruct (is_raised oc) eqn:Hr.
      + inversion H; subst. simpl in C. rewrite Hr in C. discriminate.
      + destruct (run_events leb g st1 r) as [tr1 fin1] eqn:Hre. inversion H; subst.
        simpl in C. rewrite Hr in C. simpl in C.
        pose proof (step_length _ _ _ _ _ Hs) as [Lp _].
        unfold ev_cids in Hin. simpl in Hin. apply in_app_or in Hin. destruct Hin as [Hin|Hin].
        * destruct (ev_cid e) as [c0|] eqn:He; [|destruct Hin]. destruct Hin as [->|[]].
          assert (Hwf1 : wf g (length (pts st1))) by (rewrite Lp; exact Hwf).
          eapply (run_events_sits g cid r st1); [exact Hwf1 | exact Hre |].
          (* after the step itself the clamp sits: either restored/probed, or kept at a trial *)
          destruct e as [|c1 ev|c1 o]; simpl in He; try discriminate; inversion He; subst c1.
          -- simpl in Hs. pose proof (probe_spec_ok _ _ _ _ _ _ Hs) as S. inversion S; subst; try discriminate.
             apply sits_mv; auto. apply nth_error_Some; congruence.
          -- simpl in Hs. pose proof (optimize_clamp_spec _ _ _ _ _ _ Hs) as S. inversion S; subst; try discriminate.
             ++ apply sits_mv; auto. apply nth_error_Some; congruence.
             ++ destruct H5 as [->|(x & _ & _ & ->)].
                ** exfalso. rewrite H2 in H3. inversion H3; subst. rewrite (T _) in H4. discriminate.
                ** apply sits_mv; auto. apply nth_error_Some; congruence.
        * eapply (IH st1); [rewrite Lp; exact Hwf | exact Hre | exact C | exact Hin].
  Qed.

  (** parameters stay among the initial ones and the minimiser's trial points *)
  Definition opt_trials (e : event X) : list X := match e with EOpt _ o => o_trials o | _ => [] end.

  Lemma run_events_params (B : X -> Prop) (g : grid) : forall evs (st : state) tr (fin : state),
    run_events leb g st evs = (tr, fin) -> completed tr = true ->
    Forall B (prm st) -> (forall e x, In e evs -> In x (opt_trials e) -> B x) -> Forall B (prm fin).
  Proof.
    induction evs as [|e r IH]; intros st tr fin H C HB Ht; simpl in H.
    - inversion H; subst; auto.
    - destruct (step leb g st e) as [st1 oc] eqn:Hs.
      destruct (is_raised oc) eqn:Hr.
      + inversion H; subst. simpl in C. rewrite Hr in C. discriminate.
      + destruct (run_events leb g st1 r) as [tr1 fin1] eqn:Hre. inversion H; subst.
        simpl in C. rewrite Hr in C. simpl in C.
        eapply IH; eauto; [|intros e' x He'; apply Ht; right; auto].
        assert (Hx0 : forall cid x0, nth_error (prm st) cid = Some x0 -> B x0).
        { intros cid x0 Hx0. rewrite Forall_forall in HB. apply HB. eapply nth_error_In; eauto. }
        destruct e as [|cid ev|cid o]; simpl in Hs.
        * inversion Hs; subst; auto.
        * apply probe_spec_ok in Hs. inversion Hs; subst; try discriminate.
          simpl. apply Forall_upd; eauto.
        * apply optimize_clamp_spec in Hs. inversion Hs; subst; try discriminate.
          -- simpl. apply Forall_upd; eauto.
          -- destruct H5 as [->|(x & Hin & _ & ->)]; auto. simpl. apply Forall_upd; auto.
             apply (Ht (EOpt cid o) x); simpl; auto.
  Qed.

  (** * corollaries in the form used by Properties/C13.v *)
  Lemma optimize_clamp_kept (g : grid) cid (st st' : state) o q0 q1 :
    optimize_clamp leb g cid st o = (st', Kept q0 q1) ->
    g_gq g (pts st) = Some q0 /\ g_gq g (pts st') = Some q1 /\ leb q0 q1 = false /\
    (st' = st \/ exists c x, nth_error (g_clamps g) cid = Some c /\ In x (o_trials o) /\
                            x = last (o_trials o) x /\ st' = mv g c cid st x).
  Proof.
    intro H. apply optimize_clamp_spec in H. inversion H; subst.
    - destruct H3 as [E|[E|(a & b & E & _)]]; discriminate.
    - repeat split; auto.
      match goal with Hd : _ \/ _ |- _ => destruct Hd as [->|(x & Hin & Hl & ->)] end; auto.
      right. exists c, x. auto.
  Qed.

  Lemma run_events_establishes (g : grid) : total -> forall evs (st : state) tr (fin : state),
    wf g (length (pts st)) -> run_events leb g st evs = (tr, fin) -> completed tr = true ->
    forall cid, In cid (ev_cids evs) -> sits g fin cid.
  Proof. intro T. apply run_events_establishes_gen. exact (total_refl T). Qed.

  Lemma run_events_on_manifold (g : grid) : total -> forall evs (st : state) tr (fin : state),
    wf g (length (pts st)) -> run_events leb g st evs = (tr, fin) -> completed tr = true ->
    forall cid, In cid (ev_cids evs) ->
    exists c x, nth_error (g_clamps g) cid = Some c /\ nth_error (prm fin) cid = Some x /\
                nth_error (pts fin) (c_j c) = Some (c_fun c x).
  Proof.
    intros T evs st tr fin Hwf H C cid Hin.
    destruct (run_events_establishes g T evs st tr fin Hwf H C cid Hin) as (c & x & Hc & Hx & H1 & _).
    exists c, x. auto.
  Qed.

  Lemma run_events_links (g : grid) : total -> forall evs (st : state) tr (fin : state),
    wf g (length (pts st)) -> run_events leb g st evs = (tr, fin) -> completed tr = true ->
    forall cid c l, In cid (ev_cids evs) -> nth_error (g_clamps g) cid = Some c -> In l (g_links g (c_j c)) ->
    exists p, nth_error (pts fin) (c_j c) = Some p /\ nth_error (pts fin) (l_fol l) = Some (l_tr l p).
  Proof.
    intros T evs st tr fin Hwf H C cid c l Hin Hc Hl.
    destruct (run_events_establishes g T evs st tr fin Hwf H C cid Hin) as (c' & x & Hc' & Hx & H1 & H2).
    rewrite Hc in Hc'. inversion Hc'; subst c'. exists (c_fun c x). auto.
  Qed.

  Lemma optimize_backport (g : grid) its (st : state) mesh tr (fin : state) mesh' :
    optimize leb g st mesh its = (tr, fin, mesh') ->
    (completed tr = true -> mesh' = pts fin) /\ (completed tr = false -> mesh' = mesh).
  Proof.
    unfold optimize. destruct (run_events leb g st (optimize_events its)) as [tr0 fin0].
    intro H. inversion H; subst. split; intro E; rewrite E; reflexivity.
  Qed.

  Lemma optimize_no_worse_gen (g : grid) : reflexive_le -> transitive_le -> keeps_no_worse ->
    forall its (st : state) mesh tr (fin : state) mesh' q,
      wf g (length (pts st)) -> inv g st ->
      optimize leb g st mesh its = (tr, fin, mesh') -> completed tr = true ->
      g_gq g (pts st) = Some q ->
      exists q', g_gq g mesh' = Some q' /\ le q' q = true.
  Proof.
    intros T Tr K its st mesh tr fin mesh' q Hwf I H C Hq. unfold optimize in H.
    destruct (run_events leb g st (optimize_events its)) as [tr0 fin0] eqn:Hr.
    inversion H; subst. rewrite C. eapply run_events_no_worse_gen; eauto.
  Qed.

  (** * backport *)
  Lemma index_of_nth i : forall l n, index_of i l = Some n -> nth_error l n = Some i.
  Proof.
    induction l as [|a r IH]; intros n H; simpl in H; [discriminate|].
    destruct (Nat.eqb_spec a i) as [->|E].
    - inversion H; subst. reflexivity.
    - destruct (index_of i r) as [m|]; [|discriminate]. inversion H; subst. simpl. apply IH; auto.
  Qed.

  Lemma index_of_In i : forall l, In i l -> exists n, index_of i l = Some n.
  Proof.
    induction l as [|a r IH]; intro H; [destruct H|]. simpl.
    destruct (Nat.eqb_spec a i) as [->|E]; [eauto|].
    destruct H as [H|H]; [congruence|]. destruct (IH H) as [n ->]. simpl. eauto.
  Qed.

  Lemma sketch_update_concat quads (p : list P) :
    concat (sketch_update quads p) = map (fun i => nth_error p i) (concat quads).
  Proof. unfold sketch_update. rewrite concat_map. reflexivity. Qed.

  Lemma sketch_backport quads (p : list P) i : In i (concat quads) ->
    sketch_position quads (sketch_update quads p) i = nth_error p i.
  Proof.
    intro Hin. unfold sketch_position. destruct (index_of_In _ _ Hin) as [n Hn]. rewrite Hn.
    apply index_of_nth in Hn. rewrite sketch_update_concat.
    rewrite (map_nth_error _ _ _ Hn). destruct (nth_error p i); reflexivity.
  Qed.

  Lemma sketch_faces quads (p : list P) f quad k i :
    nth_error quads f = Some quad -> nth_error quad k = Some i ->
    exists face, nth_error (sketch_update quads p) f = Some face /\ nth_error face k = Some (nth_error p i).
  Proof.
    intros Hq Hk. unfold sketch_update. rewrite (map_nth_error _ _ _ Hq). eexists. split; eauto.
    rewrite (map_nth_error _ _ _ Hk). reflexivity.
  Qed.

End Proofs.

Arguments mv {X P V}. Arguments sits {X P V}. Arguments wf {X P V}. Arguments inv {X P V}.
Arguments total {V}. Arguments transitive {V}. Arguments ev_cids {X}. Arguments ev_cid {X}.
Arguments opt_trials {X}. Arguments near {X P V}.
Arguments reflexive_le {V}. Arguments transitive_le {V}. Arguments keeps_no_worse {V}.
Arguments ties_roll_back {V}.

(** the code's own test as the order: [leb] total and transitive *)
Section OwnOrder.
  Variables X P V : Type.
  Variable leb : V -> V -> bool.

  Lemma total_keeps : total leb -> keeps_no_worse leb leb.
  Proof. intros T a b H. destruct (T a b) as [E|E]; auto. congruence. Qed.

  Lemma run_events_no_worse (g : grid X P V) : total leb -> transitive leb ->
    forall evs (st : state X P) tr (fin : state X P) q,
    wf g (length (pts st)) -> inv g st -> run_events leb g st evs = (tr, fin) -> completed tr = true ->
    g_gq g (pts st) = Some q -> exists q', g_gq g (pts fin) = Some q' /\ leb q' q = true.
  Proof.
    intros T Tr. apply (run_events_no_worse_gen X P V leb leb g (total_refl V leb T) Tr (total_keeps T)).
  Qed.

  Lemma optimize_no_worse (g : grid X P V) : total leb -> transitive leb ->
    forall its (st : state X P) mesh tr (fin : state X P) mesh' q,
      wf g (length (pts st)) -> inv g st ->
      optimize leb g st mesh its = (tr, fin, mesh') -> completed tr = true ->
      g_gq g (pts st) = Some q ->
      exists q', g_gq g mesh' = Some q' /\ leb q' q = true.
  Proof.
    intros T Tr. apply (optimize_no_worse_gen X P V leb leb g (total_refl V leb T) Tr (total_keeps T)).
  Qed.
End OwnOrder.
