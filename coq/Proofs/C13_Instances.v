(** C13 - instances of the generic optimizer theorems: quality in R, a concrete run that satisfies
    every hypothesis (satisfiability), and the counterexample showing that "no worse" needs the
    clamps to sit on entry. *)
From Coq Require Import List Bool Arith Lia Reals Lra QArith.
From CB Require Import Model.C13_Optimizer Model.C13_Cases Proofs.C13_Optimizer Proofs.C13_Whole.
Import ListNotations.
Close Scope Q_scope.
Open Scope nat_scope.

(** * quality in R *)
Definition Rleb (a b : R) : bool := if Rle_dec a b then true else false.

Lemma Rleb_le a b : Rleb a b = true <-> (a <= b)%R.
Proof. unfold Rleb. destruct (Rle_dec a b); split; auto; discriminate. Qed.

Lemma Rleb_total : total Rleb.
Proof. intros a b. rewrite !Rleb_le. lra. Qed.

Lemma Rleb_trans : transitive Rleb.
Proof. intros a b c. rewrite !Rleb_le. lra. Qed.

Lemma no_worse_real :
  forall (X P : Type) (g : grid X P R) (evs : list (event X)) (st : state X P) tr fin q,
    wf g (length (pts st)) -> inv g st ->
    run_events Rleb g st evs = (tr, fin) -> completed tr = true ->
    g_gq g (pts st) = Some q ->
    exists q', g_gq g (pts fin) = Some q' /\ (q' <= q)%R.
Proof.
  intros X P g evs st tr fin q Hwf I H C Hq.
  destruct (run_events_no_worse X P R Rleb g Rleb_total Rleb_trans evs st tr fin q Hwf I H C Hq) as (q' & Hq' & L).
  exists q'. split; auto. apply Rleb_le; auto.
Qed.

(** the strict rollback test "improvement < 0" (ties are kept), order <= *)
Definition Rltb (a b : R) : bool := if Rlt_dec a b then true else false.

Lemma Rleb_refl : reflexive_le Rleb.
Proof. intro a. apply Rleb_le. lra. Qed.

Lemma Rltb_keeps : keeps_no_worse Rltb Rleb.
Proof. intros a b H. apply Rleb_le. unfold Rltb in H. destruct (Rlt_dec a b); [discriminate|lra]. Qed.

Lemma no_worse_real_strict :
  forall (X P : Type) (g : grid X P R) (evs : list (event X)) (st : state X P) tr fin q,
    wf g (length (pts st)) -> inv g st ->
    run_events Rltb g st evs = (tr, fin) -> completed tr = true ->
    g_gq g (pts st) = Some q ->
    exists q', g_gq g (pts fin) = Some q' /\ (q' <= q)%R.
Proof.
  intros X P g evs st tr fin q Hwf I H C Hq.
  destruct (run_events_no_worse_gen X P R Rltb Rleb g Rleb_refl Rleb_trans Rltb_keeps evs st tr fin q Hwf I H C Hq)
    as (q' & Hq' & L).
  exists q'. split; auto. apply Rleb_le; auto.
Qed.

(** * the two tests the correspondence accepts (Model/C13_Cases.v: exact binary64 values in Q) satisfy
    the hypotheses of the theorems *)
Lemma Qle_bool_total : total Qle_bool.
Proof.
  intros a b. rewrite !Qle_bool_iff. destruct (Qlt_le_dec a b) as [H|H]; [left; apply Qlt_le_weak; auto|right; auto].
Qed.

Lemma Qle_bool_trans : transitive Qle_bool.
Proof. intros a b c. rewrite !Qle_bool_iff. apply Qle_trans. Qed.

Lemma Qle_bool_refl : reflexive_le Qle_bool.
Proof. intro a. apply Qle_bool_iff. apply Qle_refl. Qed.

Lemma Qlt_bool_keeps : keeps_no_worse Qlt_bool Qle_bool.
Proof. intros a b H. unfold Qlt_bool in H. apply negb_false_iff in H. exact H. Qed.

Lemma Qle_bool_keeps : keeps_no_worse Qle_bool Qle_bool.
Proof. apply total_keeps. exact Qle_bool_total. Qed.

(** * natural numbers as points, parameters and quality values *)
Lemma nat_total : total Nat.leb.
Proof. intros a b. rewrite !Nat.leb_le. lia. Qed.

Lemma nat_trans : transitive Nat.leb.
Proof. intros a b c. rewrite !Nat.leb_le. lia. Qed.

Definition sum (l : list nat) : nat := fold_right Nat.add 0 l.

(** two clamps (junctions 0 and 1), junction 0 leads point 2 through a "translation by 10" *)
Definition ex_grid : grid nat nat nat :=
  {| g_clamps := [ {| c_j := 0; c_fun := fun x => x |}; {| c_j := 1; c_fun := fun x => x |} ];
     g_links := fun j => match j with 0 => [ {| l_fol := 2; l_tr := fun p => p + 10 |} ] | _ => [] end;
     g_gq := fun p => Some (sum p);
     g_jq := fun _ p => Some (sum p) |}.

Definition ex_st : state nat nat := {| pts := [3; 4; 13; 7]; prm := [3; 4] |}.

Definition ex_events : list (event nat) :=
  [ EMeasure; EProbe 0 [3; 4]; EProbe 1 [4; 5];
    EOpt 0 {| o_trials := [3; 1]; o_raises := false |};      (* 27 -> 23: kept *)
    EOpt 1 {| o_trials := [4; 6]; o_raises := false |};      (* 23 -> 25: rolled back *)
    EOpt 1 {| o_trials := [4; 2]; o_raises := true |};       (* the minimiser raises: skipped *)
    EMeasure ].

Lemma ex_wf : wf ex_grid (length (pts ex_st)).
Proof. apply wfb_wf. reflexivity. Qed.

Lemma ex_inv : inv ex_grid ex_st.
Proof.
  intros cid Hc. simpl in Hc. destruct cid as [|[|cid]]; [| |lia].
  - exists {| c_j := 0; c_fun := fun x => x |}, 3. repeat split; auto.
    simpl. intros l [<-|[]]. reflexivity.
  - exists {| c_j := 1; c_fun := fun x => x |}, 4. repeat split; auto.
    simpl. intros l [].
Qed.

(** the hypotheses of the theorems are satisfiable, with all three outcomes occurring *)
Lemma hypotheses_satisfiable :
  exists tr fin,
    total Nat.leb /\ transitive Nat.leb /\ wf ex_grid (length (pts ex_st)) /\ inv ex_grid ex_st /\
    run_events Nat.leb ex_grid ex_st ex_events = (tr, fin) /\ completed tr = true /\
    map snd tr = [Measured 27; Probed; Probed; Kept 27 23; RolledBack 23 25; Skipped; Measured 23] /\
    fin = {| pts := [1; 4; 11; 7]; prm := [1; 4] |}.
Proof.
  eexists. eexists. split; [exact nat_total|]. split; [exact nat_trans|].
  split; [exact ex_wf|]. split; [exact ex_inv|].
  split; [vm_compute; reflexivity|]. split; [reflexivity|]. split; reflexivity.
Qed.

(** * "no worse" needs the clamp to sit on entry *)
Definition cex_grid : grid nat nat nat :=
  {| g_clamps := [ {| c_j := 0; c_fun := fun x => x |} ];
     g_links := fun _ => [];
     g_gq := fun p => Some (sum p);
     g_jq := fun _ p => Some (sum p) |}.

(** the junction is at 5 although function(params) = 9 *)
Definition cex_st : state nat nat := {| pts := [5]; prm := [9] |}.

Lemma no_worse_unconditional_refuted :
  ~ (forall (X P V : Type) (leb : V -> V -> bool) (g : grid X P V),
       total leb -> transitive leb ->
       forall (evs : list (event X)) (st : state X P) tr fin q,
         wf g (length (pts st)) ->
         run_events leb g st evs = (tr, fin) -> completed tr = true ->
         g_gq g (pts st) = Some q ->
         exists q', g_gq g (pts fin) = Some q' /\ leb q' q = true).
Proof.
  intro H.
  assert (Hwf : wf cex_grid (length (pts cex_st))) by (apply wfb_wf; reflexivity).
  destruct (H nat nat nat Nat.leb cex_grid nat_total nat_trans
              [EOpt 0 {| o_trials := []; o_raises := false |}] cex_st
              [(cex_st, RolledBack 5 5)] {| pts := [9]; prm := [9] |} 5 Hwf eq_refl eq_refl eq_refl)
    as (q' & Hq & Hl).
  vm_compute in Hq. inversion Hq; subst q'. vm_compute in Hl. discriminate.
Qed.
