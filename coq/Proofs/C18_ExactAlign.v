(** C18 - the sort key of [ViewpointReorienter._get_aligned] on dyadic inputs, decided exactly.

    [alignment] (Model/C18_Reorient.v) is a real number built with three normalisations (square
    roots).  For the order in which [sorted] puts two triangles only the sign pattern and a comparison
    of squares matter:  alignment = K * x / sqrt P  with a factor K > 0 that is the same for all
    triangles (it depends on the direction only), an integer x (signed, unnormalised alignment) and an
    integer P > 0 (squared length of the unnormalised normal) - all polynomial in the integer
    mantissas of the inputs.  [z_align_lt] compares two such keys in integer arithmetic. *)
From Coq Require Import Reals Lra Psatz List Bool ZArith Lia.
From CB Require Import Base.Hex Base.Vec3 Model.C18_Finder Model.C18_Reorient Proofs.C18_Finder Proofs.C18_Reorient Proofs.C18_Exact.
Import ListNotations.

(** * Part 1 (reals): the frame directions are positive multiples of polynomial vectors *)
Open Scope R_scope.

Definition Wdir (A B : vec) : vec := vsub (vscale (norm2 A) B) (vscale (dot A B) A).

Definition dirR (A B : vec) (s : side) : vec :=
  match s with
  | Front => A | Back => vopp A
  | Top => Wdir A B | Bottom => vopp (Wdir A B)
  | Left => cross A B | Right => vopp (cross A B)
  end.

Lemma unit_vector_form v : unit_vector v = vscale (/ norm v) v.
Proof. reflexivity. Qed.

Lemma vscale_vscale k l v : vscale k (vscale l v) = vscale (k * l) v.
Proof. vec_ring. Qed.

Lemma vopp_vscale k v : vopp (vscale k v) = vscale k (vopp v).
Proof. vec_ring. Qed.

Lemma unit_vector_scale_pos c v : 0 < c -> 0 < norm v -> unit_vector (vscale c v) = unit_vector v.
Proof.
  intros Hc Hv. unfold unit_vector. rewrite norm_scale, (Rabs_pos_eq c) by lra. rewrite vscale_vscale.
  f_equal. field. lra.
Qed.

Lemma norm2_Wdir A B : norm2 (Wdir A B) = norm2 A * norm2 (cross A B).
Proof. rewrite lagrange. unfold Wdir. vec_simpl. ring. Qed.

Lemma cross_A_Wdir A B : cross A (Wdir A B) = vscale (norm2 A) (cross A B).
Proof. unfold Wdir. vec_ring. Qed.

Lemma w_form_gen A B : 0 < norm A -> 0 < norm B ->
  vsub (unit_vector B) (vscale (dot (unit_vector B) (unit_vector A)) (unit_vector A))
  = vscale (/ (norm B * norm2 A)) (Wdir A B).
Proof.
  intros Ha Hb. unfold unit_vector, Wdir.
  rewrite <- (norm_sq A). set (a := norm A) in *. set (b := norm B) in *.
  replace (dot A B) with (dot B A) by apply dot_comm.
  destruct A as [[a1 a2] a3], B as [[b1 b2] b3].
  apply vec_eq; cbv [vsub vscale dot vx vy vz fst snd]; field; lra.
Qed.

Section FrameDir.
  Variables observer ceiling center : vec.
  Let A := vsub observer center.
  Let B := vsub ceiling center.
  Hypothesis general : 0 < norm2 (cross A B).

  Let HA : 0 < norm2 A := general_a observer ceiling center general.
  Let HB : 0 < norm2 B := general_b observer ceiling center general.

  Lemma vo_form : v_observer observer center = vscale (/ norm A) A.
  Proof. reflexivity. Qed.

  Lemma w_form :
    vsub (unit_vector B) (vscale (dot (unit_vector B) (v_observer observer center)) (v_observer observer center))
    = vscale (/ (norm B * norm2 A)) (Wdir A B).
  Proof.
    unfold v_observer. fold A. apply w_form_gen; apply norm_pos_of_norm2; assumption.
  Qed.

  Lemma Wdir_pos : 0 < norm (Wdir A B).
  Proof. apply norm_pos_of_norm2. rewrite norm2_Wdir. apply Rmult_lt_0_compat; assumption. Qed.

  Lemma vc_form : v_ceiling observer ceiling center = vscale (/ norm (Wdir A B)) (Wdir A B).
  Proof.
    unfold v_ceiling. cbv zeta. fold B. rewrite w_form.
    rewrite unit_vector_scale_pos; [reflexivity| |exact Wdir_pos].
    apply Rinv_0_lt_compat. apply Rmult_lt_0_compat; [apply norm_pos_of_norm2; exact HB|exact HA].
  Qed.

  Lemma vl_form : v_left observer ceiling center = vscale (/ norm (cross A B)) (cross A B).
  Proof.
    unfold v_left. rewrite vc_form, vo_form. rewrite cross_scale_scale, cross_A_Wdir, vscale_vscale.
    apply unit_vector_scale_pos; [|apply norm_pos_of_norm2; exact general].
    pose proof (norm_pos_of_norm2 _ HA) as Ha. pose proof Wdir_pos as Hw.
    apply Rmult_lt_0_compat; [|exact HA].
    apply Rmult_lt_0_compat; apply Rinv_0_lt_compat; assumption.
  Qed.

  Lemma frame_dir s : exists k, 0 < k /\ frame_normal observer ceiling center s = vscale k (dirR A B s).
  Proof.
    pose proof (Rinv_0_lt_compat _ (norm_pos_of_norm2 _ HA)) as Ka.
    pose proof (Rinv_0_lt_compat _ Wdir_pos) as Kw.
    pose proof (Rinv_0_lt_compat _ (norm_pos_of_norm2 _ general)) as Kc.
    destruct s; simpl frame_normal; unfold dirR.
    - exists (/ norm (Wdir A B)). split; [exact Kw|]. rewrite vc_form. apply vopp_vscale.
    - exists (/ norm (Wdir A B)). split; [exact Kw|]. apply vc_form.
    - exists (/ norm (cross A B)). split; [exact Kc|]. apply vl_form.
    - exists (/ norm (cross A B)). split; [exact Kc|]. rewrite vl_form. apply vopp_vscale.
    - exists (/ norm A). split; [exact Ka|]. apply vo_form.
    - exists (/ norm A). split; [exact Ka|]. rewrite vo_form. apply vopp_vscale.
  Qed.
End FrameDir.

(** * Part 2 (reals): the oriented normal is  sg / |N| * N *)
Definition triN (p0 p1 p2 : vec) : vec := cross (vsub p1 p0) (vsub p2 p0).

Definition sgR (hc p0 p1 p2 : vec) : R :=
  if Rltb (dot (vsub (tri_center p0 p1 p2) hc) (triN p0 p1 p2)) 0 then -1 else 1.

Lemma triN_rev p0 p1 p2 : triN p2 p1 p0 = vopp (triN p0 p1 p2).
Proof. unfold triN. vec_ring. Qed.

Lemma norm_vopp v : norm (vopp v) = norm v.
Proof. unfold norm. rewrite norm2_vopp. reflexivity. Qed.

Lemma oriented_normal_form hc p0 p1 p2 :
  0 < norm2 (triN p0 p1 p2) ->
  oriented_normal hc p0 p1 p2 = vscale (sgR hc p0 p1 p2 / norm (triN p0 p1 p2)) (triN p0 p1 p2).
Proof.
  intros HN. pose proof (norm_pos_of_norm2 _ HN) as Hn. unfold oriented_normal, sgR.
  assert (Hd : dot (vsub (tri_center p0 p1 p2) hc) (tri_normal p0 p1 p2)
               = dot (vsub (tri_center p0 p1 p2) hc) (triN p0 p1 p2) / norm (triN p0 p1 p2)).
  { unfold tri_normal. fold (triN p0 p1 p2). apply dot_unit_vector. exact Hn. }
  rewrite Hd. set (d := dot (vsub (tri_center p0 p1 p2) hc) (triN p0 p1 p2)).
  pose proof (Rinv_0_lt_compat _ Hn) as Hi.
  destruct (Rlt_dec d 0) as [Hneg|Hpos].
  - rewrite (Rltb_true (d / norm (triN p0 p1 p2)) 0) by (unfold Rdiv; nra).
    rewrite (Rltb_true d 0) by exact Hneg.
    unfold tri_normal. fold (triN p2 p1 p0). rewrite triN_rev. unfold unit_vector. rewrite norm_vopp.
    apply vec_eq; vec_simpl; field; lra.
  - rewrite (Rltb_false (d / norm (triN p0 p1 p2)) 0) by (unfold Rdiv; nra).
    rewrite (Rltb_false d 0) by lra.
    unfold tri_normal. fold (triN p0 p1 p2). unfold unit_vector. apply vec_eq; vec_simpl; field; lra.
Qed.

(** * Part 3 (reals): comparing  x1 / sqrt P1  with  x2 / sqrt P2  without square roots *)
Definition lt_sqrtP (x1 P1 x2 P2 : R) : Prop :=
  (x1 < 0 /\ 0 <= x2) \/ (0 <= x1 /\ 0 < x2 /\ x1 * x1 * P2 < x2 * x2 * P1) \/ (x1 < 0 /\ x2 < 0 /\ x2 * x2 * P1 < x1 * x1 * P2).

Lemma lt_sqrt_iff x1 P1 x2 P2 : 0 < P1 -> 0 < P2 -> (x1 / sqrt P1 < x2 / sqrt P2 <-> lt_sqrtP x1 P1 x2 P2).
Proof.
  intros H1 H2. pose proof (sqrt_lt_R0 _ H1) as S1. pose proof (sqrt_lt_R0 _ H2) as S2.
  pose proof (sqrt_sqrt P1 (Rlt_le _ _ H1)) as Q1. pose proof (sqrt_sqrt P2 (Rlt_le _ _ H2)) as Q2.
  set (s1 := sqrt P1) in *. set (s2 := sqrt P2) in *.
  assert (E : x1 / s1 < x2 / s2 <-> x1 * s2 < x2 * s1).
  { split; intros H.
    - apply Rmult_lt_reg_r with (/ (s1 * s2)); [apply Rinv_0_lt_compat; nra|].
      replace (x1 * s2 * / (s1 * s2)) with (x1 / s1) by (field; lra).
      replace (x2 * s1 * / (s1 * s2)) with (x2 / s2) by (field; lra). exact H.
    - apply Rmult_lt_reg_r with (s1 * s2); [nra|].
      replace (x1 / s1 * (s1 * s2)) with (x1 * s2) by (field; lra).
      replace (x2 / s2 * (s1 * s2)) with (x2 * s1) by (field; lra). exact H. }
  rewrite E. unfold lt_sqrtP. rewrite <- Q1, <- Q2.
  destruct (Rlt_dec x1 0) as [N1|N1], (Rlt_dec x2 0) as [N2|N2].
  - (* both negative: compare squares of the positive quantities (-x1) s2 and (-x2) s1 *)
    split.
    + intros H. right. right. repeat split; try assumption.
      assert (0 < - x2 * s1) by nra. assert (- x2 * s1 < - x1 * s2) by lra. nra.
    + intros [[_ H]|[[H _]|[_ [_ H]]]]; [lra|lra|].
      assert (0 < - x2 * s1) by nra. assert (0 < - x1 * s2) by nra.
      destruct (Rlt_dec (x1 * s2) (x2 * s1)) as [|Hn]; [assumption|exfalso]. nra.
  - split; [intros _; left; split; lra|intros _]. assert (x1 * s2 < 0) by nra. assert (0 <= x2 * s1) by nra. lra.
  - split.
    + intros H. exfalso. assert (0 <= x1 * s2) by nra. assert (x2 * s1 < 0) by nra. lra.
    + intros [[H _]|[[_ [H _]]|[H _]]]; lra.
  - split.
    + intros H. right. left. assert (0 <= x1 * s2) by nra. assert (0 < x2) by (destruct (Rlt_dec 0 x2); [assumption|exfalso; nra]).
      repeat split; try lra. nra.
    + intros [[H _]|[[_ [Hx2 H]]|[H _]]]; [lra| |lra].
      assert (0 <= x1 * s2) by nra. assert (0 < x2 * s1) by nra.
      destruct (Rlt_dec (x1 * s2) (x2 * s1)) as [|Hn]; [assumption|exfalso]. nra.
Qed.

(** * Part 4: integer mantissas *)
Open Scope Z_scope.

Definition zadd (a b : zvec) : zvec :=
  let '(a1, a2, a3) := a in let '(b1, b2, b3) := b in (a1 + b1, a2 + b2, a3 + b3).
Definition zscale (k : Z) (a : zvec) : zvec := let '(a1, a2, a3) := a in (k * a1, k * a2, k * a3).
Definition zcross (a b : zvec) : zvec :=
  let '(a1, a2, a3) := a in let '(b1, b2, b3) := b in (a2 * b3 - a3 * b2, a3 * b1 - a1 * b3, a1 * b2 - a2 * b1).
Definition zsum (l : list zvec) : zvec := fold_right zadd (0, 0, 0) l.
Definition zWdir (A B : zvec) : zvec := zsub (zscale (zdot A A) B) (zscale (zdot A B) A).
Definition zdir (A B : zvec) (s : side) : zvec :=
  match s with
  | Front => A | Back => zscale (-1) A
  | Top => zWdir A B | Bottom => zscale (-1) (zWdir A B)
  | Left => zcross A B | Right => zscale (-1) (zcross A B)
  end.
Definition ztriN (p0 p1 p2 : zvec) : zvec := zcross (zsub p1 p0) (zsub p2 p0).
(** 24 (triangle centre - hull centre) *)
Definition zoff (S p0 p1 p2 : zvec) : zvec := zsub (zscale 8 (zadd (zadd p0 p1) p2)) (zscale 3 S).
Definition zsg (S p0 p1 p2 : zvec) : Z := if zdot (zoff S p0 p1 p2) (ztriN p0 p1 p2) <? 0 then -1 else 1.
(** 8 (observer - hull centre), 8 (ceiling - hull centre) *)
Definition zA (obs : zvec) (ps : list zvec) : zvec := zsub (zscale 8 obs) (zsum ps).

(** the key (x, P): alignment = K x / sqrt P *)
Definition zkey (obs cei : zvec) (ps : list zvec) (s : side) (p0 p1 p2 : zvec) : Z * Z :=
  let N := ztriN p0 p1 p2 in
  (zsg (zsum ps) p0 p1 p2 * zdot N (zdir (zA obs ps) (zA cei ps) s), zdot N N).

Definition lt_sqrtZ (x1 P1 x2 P2 : Z) : bool :=
  ((x1 <? 0) && (0 <=? x2))
  || ((0 <=? x1) && (0 <? x2) && (x1 * x1 * P2 <? x2 * x2 * P1))
  || ((x1 <? 0) && (x2 <? 0) && (x2 * x2 * P1 <? x1 * x1 * P2)).

Definition z_general (obs cei : zvec) (ps : list zvec) : bool :=
  let C := zcross (zA obs ps) (zA cei ps) in 0 <? zdot C C.

(** [alignment(t1) < alignment(t2)] for the direction of side [s], triangles given by their corner mantissas *)
Definition z_align_lt (obs cei : zvec) (ps : list zvec) (s : side) (t1 t2 : zvec * zvec * zvec) : bool :=
  let '(p0, p1, p2) := t1 in let '(q0, q1, q2) := t2 in
  let k1 := zkey obs cei ps s p0 p1 p2 in let k2 := zkey obs cei ps s q0 q1 q2 in
  (0 <? snd k1) && (0 <? snd k2) && lt_sqrtZ (fst k1) (snd k1) (fst k2) (snd k2).

Open Scope R_scope.

Definition iv (a : zvec) : vec := let '(a1, a2, a3) := a in (IZR a1, IZR a2, IZR a3).

Lemma zR_iv u a : zR u a = vscale u (iv a).
Proof. destruct a as [[a1 a2] a3]. unfold zR, iv. apply vec_eq; vec_simpl; ring. Qed.

Lemma iv_sub a b : iv (zsub a b) = vsub (iv a) (iv b).
Proof. destruct a as [[a1 a2] a3], b as [[b1 b2] b3]. unfold zsub, iv. rewrite !minus_IZR. reflexivity. Qed.

Lemma iv_add a b : iv (zadd a b) = vadd (iv a) (iv b).
Proof. destruct a as [[a1 a2] a3], b as [[b1 b2] b3]. unfold zadd, iv. rewrite !plus_IZR. reflexivity. Qed.

Lemma iv_scale k a : iv (zscale k a) = vscale (IZR k) (iv a).
Proof. destruct a as [[a1 a2] a3]. unfold zscale, iv. rewrite !mult_IZR. reflexivity. Qed.

Lemma iv_cross a b : iv (zcross a b) = cross (iv a) (iv b).
Proof.
  destruct a as [[a1 a2] a3], b as [[b1 b2] b3]. unfold zcross, iv. rewrite !minus_IZR, !mult_IZR. reflexivity.
Qed.

Lemma iv_dot a b : IZR (zdot a b) = dot (iv a) (iv b).
Proof.
  destruct a as [[a1 a2] a3], b as [[b1 b2] b3]. unfold zdot, iv. rewrite !plus_IZR, !mult_IZR. reflexivity.
Qed.

Lemma iv_Wdir A B : iv (zWdir A B) = Wdir (iv A) (iv B).
Proof. unfold zWdir, Wdir. rewrite iv_sub, !iv_scale, !iv_dot. reflexivity. Qed.

Lemma vscale_m1 v : vscale (IZR (-1)) v = vopp v.
Proof. vec_ring. Qed.

Lemma iv_dir A B s : iv (zdir A B s) = dirR (iv A) (iv B) s.
Proof.
  destruct s; unfold zdir, dirR; rewrite ?iv_scale, ?vscale_m1, ?iv_Wdir, ?iv_cross; reflexivity.
Qed.

Lemma vsum_zR u ps : vsum (map (zR u) ps) = zR u (zsum ps).
Proof.
  induction ps as [|p ps IH]; simpl.
  - unfold zR, vzero. apply vec_eq; vec_simpl; ring.
  - unfold vsum in *. simpl. rewrite IH. rewrite !zR_iv, iv_add. vec_ring.
Qed.

Lemma center8_zR u ps : center8 (map (zR u) ps) = vscale (u / 8) (iv (zsum ps)).
Proof. unfold center8. rewrite vsum_zR, zR_iv. apply vec_eq; vec_simpl; field. Qed.

Lemma A_zR u o ps : vsub (zR u o) (center8 (map (zR u) ps)) = vscale (u / 8) (iv (zA o ps)).
Proof.
  rewrite center8_zR, zR_iv. unfold zA. rewrite iv_sub, iv_scale.
  apply vec_eq; vec_simpl; field.
Qed.

(** homogeneity of the polynomial directions *)
Lemma dirR_scale c A B s : 0 < c ->
  exists m, 0 < m /\ dirR (vscale c A) (vscale c B) s = vscale m (dirR A B s).
Proof.
  intros Hc.
  assert (HW : Wdir (vscale c A) (vscale c B) = vscale (c * c * c) (Wdir A B)) by (unfold Wdir; vec_ring).
  assert (HC : cross (vscale c A) (vscale c B) = vscale (c * c) (cross A B)) by vec_ring.
  assert (H3 : 0 < c * c * c) by (apply Rmult_lt_0_compat; nra). assert (H2 : 0 < c * c) by nra.
  destruct s; unfold dirR; rewrite ?HW, ?HC, ?vopp_vscale.
  - exists (c * c * c). split; [exact H3|reflexivity].
  - exists (c * c * c). split; [exact H3|reflexivity].
  - exists (c * c). split; [exact H2|reflexivity].
  - exists (c * c). split; [exact H2|reflexivity].
  - exists c. split; [exact Hc|reflexivity].
  - exists c. split; [exact Hc|reflexivity].
Qed.

Lemma triN_zR u p0 p1 p2 : triN (zR u p0) (zR u p1) (zR u p2) = vscale (u * u) (iv (ztriN p0 p1 p2)).
Proof. unfold triN, ztriN. rewrite iv_cross, !iv_sub, !zR_iv. vec_ring. Qed.

Lemma norm2_vscale_iv c a : norm2 (vscale c (iv a)) = c * c * IZR (zdot a a).
Proof. rewrite norm2_scale, iv_dot. reflexivity. Qed.

Lemma sqrt_sq_mult c x : 0 < c -> 0 <= x -> sqrt (c * c * x) = c * sqrt x.
Proof. intros Hc Hx. rewrite sqrt_mult by nra. rewrite sqrt_square by lra. reflexivity. Qed.

Lemma offset_zR u ps p0 p1 p2 :
  vsub (tri_center (zR u p0) (zR u p1) (zR u p2)) (center8 (map (zR u) ps))
  = vscale (u / 24) (iv (zoff (zsum ps) p0 p1 p2)).
Proof.
  rewrite center8_zR. unfold tri_center, zoff. rewrite iv_sub, !iv_scale, !iv_add, !zR_iv.
  apply vec_eq; vec_simpl; field.
Qed.

Lemma sgR_zR u ps p0 p1 p2 : 0 < u ->
  sgR (center8 (map (zR u) ps)) (zR u p0) (zR u p1) (zR u p2) = IZR (zsg (zsum ps) p0 p1 p2).
Proof.
  intros Hu. unfold sgR, zsg. rewrite offset_zR, triN_zR.
  set (E := zoff (zsum ps) p0 p1 p2). set (N := ztriN p0 p1 p2).
  replace (dot (vscale (u / 24) (iv E)) (vscale (u * u) (iv N))) with (u / 24 * (u * u) * IZR (zdot E N))
    by (rewrite iv_dot; vec_simpl; ring).
  assert (Hk : 0 < u / 24 * (u * u)) by (apply Rmult_lt_0_compat; [lra|nra]).
  destruct (Z.ltb_spec (zdot E N) 0) as [Hneg|Hpos].
  - rewrite Rltb_true; [reflexivity|]. apply IZR_lt in Hneg. nra.
  - rewrite Rltb_false; [reflexivity|]. apply IZR_le in Hpos. nra.
Qed.

(** the key: alignment = K x / sqrt P with K > 0 independent of the triangle *)
Lemma alignment_key u obs cei ps s : 0 < u -> z_general obs cei ps = true ->
  exists K, 0 < K /\ forall p0 p1 p2, (0 < snd (zkey obs cei ps s p0 p1 p2))%Z ->
    alignment (zR u obs) (zR u cei) (map (zR u) ps) s (zR u p0) (zR u p1) (zR u p2)
    = K * (IZR (fst (zkey obs cei ps s p0 p1 p2)) / sqrt (IZR (snd (zkey obs cei ps s p0 p1 p2)))).
Proof.
  intros Hu Hgen. unfold z_general in Hgen. apply Z.ltb_lt in Hgen.
  set (ctr := center8 (map (zR u) ps)).
  assert (Hc8 : 0 < u / 8) by lra.
  assert (EA : vsub (zR u obs) ctr = vscale (u / 8) (iv (zA obs ps))) by apply A_zR.
  assert (EB : vsub (zR u cei) ctr = vscale (u / 8) (iv (zA cei ps))) by apply A_zR.
  assert (Hgeneral : 0 < norm2 (cross (vsub (zR u obs) ctr) (vsub (zR u cei) ctr))).
  { rewrite EA, EB, cross_scale_scale, <- iv_cross, norm2_vscale_iv.
    apply Rmult_lt_0_compat; [apply Rmult_lt_0_compat; apply Rmult_lt_0_compat; exact Hc8|]. apply IZR_lt. exact Hgen. }
  destruct (frame_dir (zR u obs) (zR u cei) ctr Hgeneral s) as [k [Hk Ek]].
  rewrite EA, EB in Ek.
  destruct (dirR_scale (u / 8) (iv (zA obs ps)) (iv (zA cei ps)) s Hc8) as [m [Hm Em]].
  rewrite Em, vscale_vscale, <- iv_dir in Ek.
  exists (k * m). split; [apply Rmult_lt_0_compat; assumption|].
  intros p0 p1 p2 HP. unfold zkey in *. cbv zeta in *. cbn [fst snd] in *.
  set (N := ztriN p0 p1 p2) in *. set (D := zdir (zA obs ps) (zA cei ps) s) in *.
  assert (HPr : 0 < IZR (zdot N N)) by (apply IZR_lt; exact HP).
  assert (HN2 : norm2 (triN (zR u p0) (zR u p1) (zR u p2)) = u * u * (u * u) * IZR (zdot N N)).
  { rewrite triN_zR. fold N. rewrite norm2_vscale_iv. ring. }
  assert (HN2pos : 0 < norm2 (triN (zR u p0) (zR u p1) (zR u p2))).
  { rewrite HN2. apply Rmult_lt_0_compat; [|exact HPr]. apply Rmult_lt_0_compat; nra. }
  assert (HNn : norm (triN (zR u p0) (zR u p1) (zR u p2)) = u * u * sqrt (IZR (zdot N N))).
  { unfold norm. rewrite HN2. replace (u * u * (u * u) * IZR (zdot N N)) with ((u * u) * (u * u) * IZR (zdot N N)) by ring.
    apply sqrt_sq_mult; [nra|lra]. }
  unfold alignment. fold ctr. rewrite Ek. rewrite (oriented_normal_form ctr _ _ _ HN2pos).
  unfold ctr at 1. rewrite sgR_zR by exact Hu. rewrite HNn, triN_zR. fold N.
  pose proof (sqrt_lt_R0 _ HPr) as Hs.
  rewrite mult_IZR.
  replace (dot (vscale (IZR (zsg (zsum ps) p0 p1 p2) / (u * u * sqrt (IZR (zdot N N)))) (vscale (u * u) (iv N))) (vscale (k * m) (iv D)))
    with (IZR (zsg (zsum ps) p0 p1 p2) / (u * u * sqrt (IZR (zdot N N))) * (u * u) * (k * m) * dot (iv N) (iv D))
    by (vec_simpl; ring).
  rewrite <- iv_dot. field. split; lra.
Qed.

Lemma lt_sqrtZ_P x1 P1 x2 P2 : lt_sqrtZ x1 P1 x2 P2 = true <-> lt_sqrtP (IZR x1) (IZR P1) (IZR x2) (IZR P2).
Proof.
  unfold lt_sqrtZ, lt_sqrtP. rewrite !orb_true_iff, !andb_true_iff, !Z.ltb_lt, !Z.leb_le.
  rewrite <- !mult_IZR.
  split.
  - intros [[[H1 H2]|[[H1 H2] H3]]|[[H1 H2] H3]].
    + left. split; [apply (IZR_lt _ 0); exact H1|apply (IZR_le 0); exact H2].
    + right. left. repeat split; [apply (IZR_le 0); exact H1|apply (IZR_lt 0); exact H2|apply IZR_lt; exact H3].
    + right. right. repeat split; [apply (IZR_lt _ 0); exact H1|apply (IZR_lt _ 0); exact H2|apply IZR_lt; exact H3].
  - intros [[H1 H2]|[[H1 [H2 H3]]|[H1 [H2 H3]]]].
    + left. left. split; [apply lt_IZR; exact H1|apply le_IZR; exact H2].
    + left. right. repeat split; [apply le_IZR; exact H1|apply lt_IZR; exact H2|apply lt_IZR; exact H3].
    + right. repeat split; [apply lt_IZR; exact H1|apply lt_IZR; exact H2|apply lt_IZR; exact H3].
Qed.

(** the theorem used by the correspondence: on dyadic inputs the order of the real-valued sort keys of two
    triangles is decided by [z_align_lt] *)
Theorem z_align_lt_exact u obs cei ps s p0 p1 p2 q0 q1 q2 :
  0 < u -> z_general obs cei ps = true ->
  z_align_lt obs cei ps s (p0, p1, p2) (q0, q1, q2) = true ->
  alignment (zR u obs) (zR u cei) (map (zR u) ps) s (zR u p0) (zR u p1) (zR u p2)
  < alignment (zR u obs) (zR u cei) (map (zR u) ps) s (zR u q0) (zR u q1) (zR u q2).
Proof.
  intros Hu Hgen H. unfold z_align_lt in H. cbv zeta in H.
  apply andb_true_iff in H. destruct H as [H HL]. apply andb_true_iff in H. destruct H as [HP1 HP2].
  apply Z.ltb_lt in HP1, HP2.
  destruct (alignment_key u obs cei ps s Hu Hgen) as [K [HK HE]].
  rewrite (HE p0 p1 p2 HP1), (HE q0 q1 q2 HP2).
  apply Rmult_lt_compat_l; [exact HK|].
  apply lt_sqrt_iff; [apply IZR_lt; exact HP1|apply IZR_lt; exact HP2|].
  apply lt_sqrtZ_P. exact HL.
Qed.

(** * Part 5: the order oracle given to the discrete model is consistent with the real-valued keys

    [rank_consistentb] replays the loop of [reorient]: for every direction, each of the two triangles
    taken ([get_aligned]) must have a strictly larger key than every other remaining triangle.  Then the
    set Python's [sorted(...)[-2:]] returns is the one the model takes, whatever the order of ties. *)
Open Scope nat_scope.

Definition z0 : zvec := (0, 0, 0)%Z.

Definition tri_pts (ps : list zvec) (hull : list tri) (t : nat) : zvec * zvec * zvec :=
  match nth t hull [] with
  | [a; b; c] => (nth a ps z0, nth b ps z0, nth c ps z0)
  | _ => (z0, z0, z0)
  end.

Fixpoint rank_consistentb (obs cei : zvec) (ps : list zvec) (hull : list tri) (rank : side -> list nat)
         (keys : list side) (remaining : list nat) : bool :=
  match keys with
  | [] => true
  | k :: ks =>
      let al := get_aligned remaining (rank k) in
      forallb (fun o => memb o al
                        || forallb (fun c => z_align_lt obs cei ps k (tri_pts ps hull o) (tri_pts ps hull c)) al) remaining
      && rank_consistentb obs cei ps hull rank ks (filter (fun t => negb (memb t al)) remaining)
  end.

Fixpoint rank_consistentP (key : side -> nat -> R) (rank : side -> list nat) (keys : list side) (remaining : list nat) : Prop :=
  match keys with
  | [] => True
  | k :: ks =>
      let al := get_aligned remaining (rank k) in
      (forall o c, In o remaining -> ~ In o al -> In c al -> (key k o < key k c)%R)
      /\ rank_consistentP key rank ks (filter (fun t => negb (memb t al)) remaining)
  end.

(** the real-valued sort key of hull triangle [t] for the direction of side [s] *)
Definition key_of (u : R) (obs cei : zvec) (ps : list zvec) (hull : list tri) (s : side) (t : nat) : R :=
  let '(p0, p1, p2) := tri_pts ps hull t in
  alignment (zR u obs) (zR u cei) (map (zR u) ps) s (zR u p0) (zR u p1) (zR u p2).

Definition rank_check (obs cei : zvec) (ps : list zvec) (hull : list tri) (rank : side -> list nat) : bool :=
  z_general obs cei ps && rank_consistentb obs cei ps hull rank normals_order (seq 0 12).

Theorem rank_check_sound u obs cei ps hull rank : (0 < u)%R ->
  rank_check obs cei ps hull rank = true ->
  rank_consistentP (key_of u obs cei ps hull) rank normals_order (seq 0 12).
Proof.
  intros Hu H. unfold rank_check in H. apply andb_true_iff in H. destruct H as [Hgen H].
  revert H. generalize (seq 0 12). generalize normals_order.
  induction l as [|k ks IH]; intros remaining H; simpl; [exact I|].
  simpl in H. apply andb_true_iff in H. destruct H as [H1 H2]. split; [|apply IH; exact H2].
  intros o c Ho Hno Hc. rewrite forallb_forall in H1. specialize (H1 o Ho).
  apply orb_true_iff in H1. destruct H1 as [H1|H1]; [exfalso; apply Hno; apply memb_In; exact H1|].
  rewrite forallb_forall in H1. specialize (H1 c Hc). unfold key_of.
  destruct (tri_pts ps hull o) as [[p0 p1] p2]. destruct (tri_pts ps hull c) as [[q0 q1] q2].
  apply z_align_lt_exact; assumption.
Qed.
