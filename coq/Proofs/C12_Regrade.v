(** C12 - the un-reset Mesh.grade (the code before fixes/C12-4.diff, [grade_no_reset]) is idempotent on the state a
    successful grade leaves behind, and the repaired Mesh.grade ([grade], with the reset) does not depend on the state
    it starts from (end of the file).  For every block
    list (any number of blocks, any sharing of vertices), every choice of user chops (axes without
    chops take theirs from neighbours) and every iteration order of coincident wires / neighbour axes.

    [first_run_stable]: whatever the state before (fresh from assemble, or left by earlier writes), a
    grade that ends without error leaves a state where every wire is defined, the wires of an axis the
    user chopped hold exactly the user's chops, and the consistency check holds.
    [regrade_fix]: from such a state, grade ends without error again and no wire and no axis changes. *)
From Coq Require Import List Bool Arith Lia.
From CB Require Import Model.Propagate Proofs.PropagateBasics Proofs.PropagateTerm Proofs.PropagateInv
  Proofs.PropagateInit Proofs.PropagateFinal Model.C12_Regrade.
Import ListNotations.
Set Default Proof Using "Type".

Lemma forallb_ext_in' {A} (f f' : A -> bool) l : (forall x, In x l -> f x = f' x) -> forallb f l = forallb f' l.
Proof.
  induction l as [|a l IH]; intro H; simpl; [reflexivity|].
  rewrite (H a (or_introl eq_refl)). rewrite IH; [reflexivity|]. intros x Hx. apply H. right. exact Hx.
Qed.

Lemma nl_eqb_eq l : forall m, nl_eqb l m = true -> l = m.
Proof.
  unfold nl_eqb. induction l as [|a l IH]; intros [|b m] H; simpl in H; try discriminate; [reflexivity|].
  apply andb_true_iff in H. destruct H as [H1 H2]. simpl in H2. apply andb_true_iff in H2. destruct H2 as [H2 H3].
  apply Nat.eqb_eq in H2. f_equal; [exact H2|]. apply IH. apply andb_true_iff. split; assumption.
Qed.

Lemma nl_eqb_refl' l : nl_eqb l l = true.
Proof.
  unfold nl_eqb. rewrite Nat.eqb_refl. simpl. induction l as [|a l IH]; simpl; [reflexivity|].
  rewrite Nat.eqb_refl. exact IH.
Qed.

Section Regrade.
  Variable bs : list blk.
  Variable o_coin : wire -> list wire.
  Variable o_nbrs : axis -> list axis.

  Notation n := (nblocks bs).
  Notation vw := (vw bs).
  Notation va := (va bs).
  Notation chopped := (chopped bs).
  Notation user_chops := (user_chops bs).
  Notation grade_axis := (grade_axis bs o_coin).
  Notation grade_axis2 := (grade_axis2 bs o_coin).
  Notation grade_blocks2 := (grade_blocks2 bs o_coin).
  Notation copy_wire := (copy_wire bs o_coin).
  Notation copy_axis := (copy_axis bs o_coin o_nbrs).
  Notation copy_block := (copy_block bs o_coin o_nbrs).
  Notation scan := (scan bs o_coin o_nbrs).
  Notation propagate := (propagate bs o_coin o_nbrs).
  Notation Outside := (Outside bs).

  (** ** the chopped branch of grade_axis2 *)
  Lemma fold_set_spec v ws : forall s,
    let s' := fold_left (fun s w => {| g := upd_g (g s) w v; ach := ach s |}) ws s in
    ach s' = ach s /\ (forall u, ~ In u ws -> g s' u = g s u) /\ (forall w, In w ws -> g s' w = v).
  Proof.
    induction ws as [|w ws IH]; intros s; simpl.
    - repeat split; auto. intros w [].
    - set (s1 := {| g := upd_g (g s) w v; ach := ach s |}).
      specialize (IH s1). simpl in IH. destruct IH as (A & O & V).
      split; [rewrite A; reflexivity|]. split.
      + intros u Hu. rewrite O by (intro X; apply Hu; right; exact X). simpl.
        apply upd_g_other. intro X. subst. apply Hu. left. reflexivity.
      + intros u [Hu | Hu].
        * subst u. destruct (in_dec wire_eq_dec w ws) as [Hin | Hout]; [apply V; exact Hin|].
          rewrite O by exact Hout. simpl. apply upd_g_same.
        * apply V. exact Hu.
  Qed.

  Lemma grade_axis2_basic s x :
    ach (grade_axis2 s x) = ach s /\ mono s (grade_axis2 s x) /\
    (forall u, ~ In u (wires_of_axis x) -> g (grade_axis2 s x) u = g s u) /\
    (chopped x = true -> forall w, In w (wires_of_axis x) -> g (grade_axis2 s x) w = user_chops x).
  Proof.
    unfold C12_Regrade.grade_axis2. destruct (chopped x) eqn:C.
    - destruct (fold_set_spec (user_chops x) (wires_of_axis x) s) as (A & O & V).
      split; [exact A|]. split; [|split; [exact O | intros _; exact V]].
      intros u Hu. apply w_defined_iff. apply w_defined_iff in Hu.
      destruct (in_dec wire_eq_dec u (wires_of_axis x)) as [Hin | Hout].
      + rewrite (V u Hin). apply (chopped_iff bs). exact C.
      + rewrite (O u Hout). exact Hu.
    - destruct (grade_axis_basic bs o_coin s x) as (A & M & O).
      split; [exact A|]. split; [exact M|]. split; [exact O | discriminate].
  Qed.

  Lemma grade_blocks2_flat s : grade_blocks2 s = fold_left grade_axis2 (all_axes n) s.
  Proof. unfold C12_Regrade.grade_blocks2, grade_block2, all_axes. apply fold_left_flat_map. Qed.

  Lemma fold_grade2_keep l : forall s u,
    (forall x, In x l -> ~ In u (wires_of_axis x)) -> g (fold_left grade_axis2 l s) u = g s u.
  Proof.
    induction l as [|a l IH]; intros s u H; simpl; [reflexivity|].
    rewrite IH by (intros x Hx; apply H; right; exact Hx).
    destruct (grade_axis2_basic s a) as (_ & _ & O & _). apply O. apply H. left. reflexivity.
  Qed.

  Lemma fold_grade2_ach l : forall s, ach (fold_left grade_axis2 l s) = ach s.
  Proof.
    induction l as [|a l IH]; intros s; simpl; [reflexivity|]. rewrite IH.
    destruct (grade_axis2_basic s a) as (A & _). exact A.
  Qed.

  Lemma fold_grade2_chopped l : forall s x, NoDup l -> In x l -> chopped x = true ->
    forall w, In w (wires_of_axis x) -> g (fold_left grade_axis2 l s) w = user_chops x.
  Proof.
    induction l as [|a l IH]; intros s x ND Hx C w Hw; [destruct Hx|]. simpl.
    inversion ND as [|? ? Hnot ND']; subst.
    destruct (axis_eqb a x) eqn:E.
    - apply axis_eqb_eq in E. subst a.
      rewrite fold_grade2_keep.
      + destruct (grade_axis2_basic s x) as (_ & _ & _ & V). apply V; assumption.
      + intros y Hy X. assert (y = x) by (eapply wires_disjoint; eauto). subst. contradiction.
    - destruct Hx as [Hx | Hx]; [subst; rewrite axis_eqb_refl in E; discriminate|].
      apply IH; assumption.
  Qed.

  (** chopped axes hold the user's chops on all four wires *)
  Definition Pc (s : st) : Prop :=
    forall x, va x -> chopped x = true -> forall w, In w (wires_of_axis x) -> g s w = user_chops x.

  Lemma grade_blocks2_pc s : Pc (grade_blocks2 s).
  Proof.
    intros x Vx C w Hw. rewrite grade_blocks2_flat.
    apply fold_grade2_chopped; auto. apply all_axes_nodup.
  Qed.

  (** ** what the propagation loop preserves, from any state *)
  Lemma pc_defined s x : Pc s -> va x -> chopped x = true -> a_defined s x = true.
  Proof.
    intros P Vx C. unfold a_defined. apply forallb_forall. intros w Hw. apply w_defined_iff.
    rewrite (P x Vx C w Hw). apply (chopped_iff bs). exact C.
  Qed.

  Lemma copy_axis_pc s x s' u : Pc s -> va x -> copy_axis s x = (s', u) -> Pc s'.
  Proof.
    intros P Vx. unfold Propagate.copy_axis. destruct (a_defined s x) eqn:D; [intro H; inversion H; subst; exact P|].
    destruct (find _ _) as [y|]; intro H; inversion H; subst; [|exact P].
    assert (chopped x = false) as C.
    { destruct (chopped x) eqn:C; [|reflexivity]. rewrite (pc_defined s x P Vx C) in D. discriminate. }
    intros z Vz Cz w Hw.
    match goal with |- g (grade_axis ?s1 x) w = _ => destruct (grade_axis_basic bs o_coin s1 x) as (_ & _ & O) end.
    rewrite O.
    - simpl. apply (P z Vz Cz w Hw).
    - intro X. assert (z = x) by (eapply wires_disjoint; eauto). subst. congruence.
  Qed.

  Section Preserve.
    Variable P : st -> Prop.
    Hypothesis HP : forall s x s' u, P s -> va x -> copy_axis s x = (s', u) -> P s'.

    Lemma copy_block_fold_P xs : forall s u0 s' u,
      fold_left (fun sb x => let '(s', u) := copy_axis (fst sb) x in (s', u || snd sb)) xs (s, u0) = (s', u) ->
      (forall x, In x xs -> va x) -> P s -> P s'.
    Proof using HP.
      induction xs as [|x xs IH]; intros s u0 s' u H Hv GS; simpl in H.
      - inversion H; subst. exact GS.
      - destruct (copy_axis s x) as [s1 u1] eqn:E. simpl in H.
        eapply IH; [exact H | intros y Hy; apply Hv; right; exact Hy |].
        eapply HP; eauto. apply Hv. left. reflexivity.
    Qed.

    Lemma copy_block_P s b s' u : b < n -> copy_block s b = (s', u) -> P s -> P s'.
    Proof using HP.
      intros Hb. unfold Propagate.copy_block. destruct (b_defined s b).
      - intro H; inversion H; subst. auto.
      - intros H GS. eapply copy_block_fold_P; eauto.
        intros x Hx. apply in_axes_of_block in Hx. apply in_all_axes. lia.
    Qed.

    Lemma scan_P todo : forall s before upd s' undef' u',
      scan s before todo upd = (s', undef', u') -> (forall i, In i todo -> i < n) -> P s -> P s'.
    Proof using HP.
      induction todo as [|i rest IH]; intros s before upd s' undef' u' H Hn GS; simpl in H.
      - inversion H; subst. exact GS.
      - destruct (b_defined s i).
        + inversion H; subst. exact GS.
        + destruct (copy_block s i) as [s1 u1] eqn:E.
          eapply IH; [exact H | intros j Hj; apply Hn; right; exact Hj |].
          eapply copy_block_P; eauto. apply Hn. left. reflexivity.
    Qed.

    Lemma propagate_P fuel : forall s undef s',
      (forall i, In i undef -> i < n) -> P s -> Outside s undef ->
      propagate fuel s undef = Done s' -> P s' /\ Outside s' [].
    Proof using HP.
      induction fuel as [|f IH]; intros s undef s' Hn GS OS H.
      - destruct undef; simpl in H; [|discriminate]. inversion H; subst. auto.
      - destruct undef as [|i rest]; [simpl in H; inversion H; subst; auto|].
        rewrite propagate_unfold in H.
        destruct (scan s [] (i :: rest) false) as [[s1 undef1] u1] eqn:E.
        pose proof (scan_spec bs o_coin o_nbrs (i :: rest) s [] false s1 undef1 u1 E Hn) as (M & L & T & I1 & I2).
        rewrite app_nil_l in *.
        pose proof (scan_P _ _ _ _ _ _ _ E Hn GS) as GS'.
        assert (Outside s1 undef1) as OS'.
        { intros b Hb Nb. destruct (in_dec Nat.eq_dec b (i :: rest)) as [Hin | Hout].
          - apply I2; auto.
          - eapply mono_block; [exact M|]. apply OS; auto. }
        destruct u1.
        + eapply IH; [| exact GS' | exact OS' | exact H]. intros j Hj. apply Hn. apply I1. exact Hj.
        + destruct undef1 as [|j undef1]; [|discriminate]. inversion H; subst. auto.
    Qed.
  End Preserve.

  (** ** the state a successful grade leaves *)
  Definition AllDef (s : st) : Prop := forall w, vw w -> g s w <> [].
  Record Stable (s : st) : Prop := {
    S_def : AllDef s;
    S_pc : Pc s;
    S_cons : consistent bs s = true
  }.

  Lemma outside_alldef s : Outside s [] -> AllDef s.
  Proof.
    intros O w Vw. destruct (vw_axis bs w Vw) as [Vx Hk]. apply in_all_axes in Vx. destruct Vx as [Hb Ha].
    specialize (O (fst (w_axis w)) Hb (fun X => X)). unfold b_defined in O. rewrite forallb_forall in O.
    specialize (O (w_axis w)). unfold a_defined in O. rewrite forallb_forall in O.
    apply w_defined_iff. apply O.
    - apply in_axes_of_block. auto.
    - apply in_wires_of_axis. auto.
  Qed.

  Lemma outside_all s : Outside s (seq 0 n).
  Proof. intros b Hb Nb. exfalso. apply Nb. apply in_seq. lia. Qed.

  Lemma seq_lt i : In i (seq 0 n) -> i < n.
  Proof. intro H. apply in_seq in H. lia. Qed.

  Theorem first_run_stable s0 s : grade_no_reset bs o_coin o_nbrs true s0 = GOk s -> Stable s.
  Proof.
    unfold grade_no_reset. destruct (negb (oracle_ok bs o_coin o_nbrs)); [discriminate|].
    destruct (propagate (fuel0 bs) (grade_blocks2 s0) (seq 0 n)) as [s1| |] eqn:E; try discriminate.
    destruct (consistent bs s1) eqn:C; [|discriminate]. intro H. inversion H. subst s1.
    destruct (propagate_P Pc copy_axis_pc (fuel0 bs) (grade_blocks2 s0) (seq 0 n) s seq_lt
                (grade_blocks2_pc s0) (outside_all _) E) as [P O].
    constructor; [apply outside_alldef; exact O | exact P | exact C].
  Qed.

  (** ** the second run *)
  Hypothesis Hco : forall w c, vw w -> In c (o_coin w) -> In c (coin_set bs w).

  Definition eqin (s t : st) : Prop := forall w, vw w -> g s w = g t w.

  Lemma eqin_refl s : eqin s s.
  Proof. intros w _. reflexivity. Qed.

  Section Fix.
    Variable t : st.
    Hypothesis St : Stable t.

    Lemma agree_at w c : vw w -> In c (coin_set bs w) ->
      (if aligned bs c w then g t c else rev (g t c)) = g t w.
    Proof using St.
      intros Vw Hc. pose proof (S_cons _ St) as C. apply consistent_ga in C.
      unfold gradings_agree in C. rewrite forallb_forall in C.
      destruct (vw_axis bs w Vw) as [Vx Hk]. specialize (C (w_axis w) Vx).
      unfold axis_agree in C. rewrite forallb_forall in C.
      assert (In w (wires_of_axis (w_axis w))) as Hw by (apply in_wires_of_axis; auto).
      specialize (C w Hw). rewrite forallb_forall in C. specialize (C c Hc).
      symmetry. apply nl_eqb_eq. exact C.
    Qed.

    Lemma copy_wire_fix_gen w (l : list wire) : vw w -> (forall c, In c l -> In c (coin_set bs w)) ->
      forall s, eqin s t ->
      let s' := fold_left (fun s c =>
        if w_defined s c
        then {| g := upd_g (g s) w (if aligned bs c w then g s c else rev (g s c)); ach := ach s |}
        else s) l s in
      eqin s' t /\ ach s' = ach s.
    Proof using St.
      intros Vw. induction l as [|c l IH]; intros Hl s E; simpl; [split; [exact E | reflexivity]|].
      assert (In c (coin_set bs w)) as Hc by (apply Hl; left; reflexivity).
      assert (vw c) as Vc by (apply (in_coin_set bs) in Hc; apply Hc).
      destruct (w_defined s c).
      - match goal with |- context [fold_left _ l ?s1] => specialize (IH (fun d Hd => Hl d (or_intror Hd)) s1) end.
        simpl in IH. apply IH. intros u Vu. simpl.
        destruct (wire_eqb u w) eqn:Q.
        + apply wire_eqb_eq in Q. subst u. rewrite upd_g_same. rewrite (E c Vc). apply agree_at; assumption.
        + rewrite upd_g_other; [apply E; exact Vu|]. intro X. subst. rewrite wire_eqb_refl in Q. discriminate.
      - apply IH; [intros d Hd; apply Hl; right; exact Hd | exact E].
    Qed.

    Lemma copy_wire_fix s w : vw w -> eqin s t -> eqin (copy_wire s w) t /\ ach (copy_wire s w) = ach s.
    Proof using St Hco.
      intros Vw E. unfold Propagate.copy_wire. apply copy_wire_fix_gen; auto.
    Qed.

    Lemma fold_copy_fix ws : forall s, (forall w, In w ws -> vw w) -> eqin s t ->
      eqin (fold_left copy_wire ws s) t /\ ach (fold_left copy_wire ws s) = ach s.
    Proof using St Hco.
      induction ws as [|w ws IH]; intros s Hv E; simpl; [split; [exact E | reflexivity]|].
      destruct (copy_wire_fix s w (Hv w (or_introl eq_refl)) E) as [E1 A1].
      destruct (IH (copy_wire s w) (fun u Hu => Hv u (or_intror Hu)) E1) as [E2 A2].
      split; [exact E2 | congruence].
    Qed.

    Lemma fill_wire_fix x s w : vw w -> eqin s t -> fill_wire x s w = s.
    Proof using St.
      intros Vw E. unfold fill_wire. destruct (w_defined s w) eqn:D; [reflexivity|].
      exfalso. apply w_defined_false_iff in D. rewrite (E w Vw) in D. exact (S_def _ St w Vw D).
    Qed.

    Lemma fold_fill_fix x ws : forall s, (forall w, In w ws -> vw w) -> eqin s t ->
      fold_left (fill_wire x) ws s = s.
    Proof using St.
      induction ws as [|w ws IH]; intros s Hv E; simpl; [reflexivity|].
      rewrite (fill_wire_fix x s w (Hv w (or_introl eq_refl)) E).
      apply IH; [intros u Hu; apply Hv; right; exact Hu | exact E].
    Qed.

    Lemma grade_axis2_fix s x : va x -> eqin s t -> eqin (grade_axis2 s x) t /\ ach (grade_axis2 s x) = ach s.
    Proof using St Hco.
      intros Vx E.
      assert (forall w, In w (wires_of_axis x) -> vw w) as Hv by (intros w Hw; eapply vw_of_axis; eauto).
      unfold C12_Regrade.grade_axis2. destruct (chopped x) eqn:C.
      - destruct (fold_set_spec (user_chops x) (wires_of_axis x) s) as (A & O & V).
        split; [|exact A]. intros u Vu.
        destruct (in_dec wire_eq_dec u (wires_of_axis x)) as [Hin | Hout].
        + rewrite (V u Hin). symmetry. apply (S_pc _ St x Vx C u Hin).
        + rewrite (O u Hout). apply E. exact Vu.
      - unfold Propagate.grade_axis. rewrite C.
        destruct (fold_copy_fix (wires_of_axis x) s Hv E) as [E1 A1].
        rewrite (fold_fill_fix x (wires_of_axis x) _ Hv E1). split; [exact E1 | exact A1].
    Qed.

    Lemma fold_grade2_fix l : forall s, (forall x, In x l -> va x) -> eqin s t ->
      eqin (fold_left grade_axis2 l s) t /\ ach (fold_left grade_axis2 l s) = ach s.
    Proof using St Hco.
      induction l as [|x l IH]; intros s Hv E; simpl; [split; [exact E | reflexivity]|].
      destruct (grade_axis2_fix s x (Hv x (or_introl eq_refl)) E) as [E1 A1].
      destruct (IH (grade_axis2 s x) (fun y Hy => Hv y (or_intror Hy)) E1) as [E2 A2].
      split; [exact E2 | congruence].
    Qed.

    Lemma grade_blocks2_fix : eqin (grade_blocks2 t) t /\ ach (grade_blocks2 t) = ach t.
    Proof using St Hco.
      rewrite grade_blocks2_flat. apply fold_grade2_fix; [auto | apply eqin_refl].
    Qed.

    Lemma eqin_bdefined s b : eqin s t -> b < n -> b_defined s b = true.
    Proof using St.
      intros E Hb. unfold b_defined. apply forallb_forall. intros x Hx.
      unfold a_defined. apply forallb_forall. intros w Hw. apply w_defined_iff.
      assert (vw w) as Vw.
      { eapply vw_of_axis; [|exact Hw]. apply in_axes_of_block in Hx. apply in_all_axes. lia. }
      rewrite (E w Vw). apply (S_def _ St w Vw).
    Qed.

    Lemma propagate_defined s : eqin s t -> forall undef fuel,
      (forall i, In i undef -> i < n) -> length undef < fuel -> propagate fuel s undef = Done s.
    Proof using St.
      intros E. induction undef as [|i rest IH]; intros fuel Hn Hf.
      - destruct fuel; reflexivity.
      - destruct fuel as [|f]; [simpl in Hf; lia|]. rewrite propagate_unfold. simpl.
        rewrite (eqin_bdefined s i E (Hn i (or_introl eq_refl))). simpl.
        apply IH; [intros j Hj; apply Hn; right; exact Hj | simpl in Hf; lia].
    Qed.

    Lemma consistent_eqin s : eqin s t -> consistent bs s = consistent bs t.
    Proof.
      intros E. unfold consistent. f_equal.
      - apply consistent_ext. intros w Vw. unfold wcount. rewrite (E w Vw). reflexivity.
      - unfold gradings_agree. apply forallb_ext_in'. intros x Vx. unfold axis_agree.
        apply forallb_ext_in'. intros w Hw. assert (vw w) as Vw by (eapply vw_of_axis; eauto).
        apply forallb_ext_in'. intros c Hc. apply (in_coin_set bs) in Hc. destruct Hc as [Vc _].
        rewrite (E w Vw), (E c Vc). reflexivity.
    Qed.

    Theorem regrade_fix_inner : oracle_ok bs o_coin o_nbrs = true ->
      exists t', grade_no_reset bs o_coin o_nbrs true t = GOk t' /\ eqin t' t /\ ach t' = ach t.
    Proof using St Hco.
      intro K. destruct grade_blocks2_fix as [E A].
      exists (grade_blocks2 t). split; [|split; [exact E | exact A]].
      unfold grade_no_reset. rewrite K. simpl.
      rewrite (propagate_defined (grade_blocks2 t) E (seq 0 n) (fuel0 bs) seq_lt)
        by (rewrite seq_length; unfold fuel0; lia).
      rewrite (consistent_eqin _ E), (S_cons _ St). reflexivity.
    Qed.
  End Fix.

  (** stability only looks at the wires of the mesh *)
  Lemma stable_eqin s t : Stable t -> eqin s t -> Stable s.
  Proof.
    intros St E. constructor.
    - intros w Vw. rewrite (E w Vw). apply (S_def _ St w Vw).
    - intros x Vx C w Hw. rewrite (E w (vw_of_axis bs x w Vx Hw)). apply (S_pc _ St x Vx C w Hw).
    - rewrite (consistent_eqin t s E). apply (S_cons _ St).
  Qed.
End Regrade.

(** ** the two theorems with the oracle check of [grade] in place of the hypothesis *)
Section Main.
  Variable bs : list blk.
  Variable o_coin : wire -> list wire.
  Variable o_nbrs : axis -> list axis.

  Theorem regrade_fix t : Stable bs t -> oracle_ok bs o_coin o_nbrs = true ->
    exists t', grade_no_reset bs o_coin o_nbrs true t = GOk t' /\ eqin bs t' t /\ ach t' = ach t.
  Proof.
    intros St K. destruct (oracle_ok_incl bs o_coin o_nbrs K) as (Hco & _ & _).
    apply regrade_fix_inner; assumption.
  Qed.

  Lemma grade_ok_oracle fx s0 s : grade_no_reset bs o_coin o_nbrs fx s0 = GOk s -> oracle_ok bs o_coin o_nbrs = true.
  Proof. unfold grade_no_reset. destruct (oracle_ok bs o_coin o_nbrs); [reflexivity | discriminate]. Qed.

  (** Mesh.grade twice: the second run succeeds and changes no wire of the mesh and no axis *)
  Theorem grade_twice s0 s : grade_no_reset bs o_coin o_nbrs true s0 = GOk s ->
    exists s', grade_no_reset bs o_coin o_nbrs true s = GOk s' /\ eqin bs s' s /\ ach s' = ach s.
  Proof.
    intro H. apply regrade_fix; [eapply first_run_stable; exact H | eapply grade_ok_oracle; exact H].
  Qed.

  (** ** the repaired grade: the reset makes the result a function of the block list, the user's chops and
      the iteration orders only *)
  Theorem grade_state_independent s1 s2 : grade bs o_coin o_nbrs s1 = grade bs o_coin o_nbrs s2.
  Proof. reflexivity. Qed.

  Corollary grade_is_first_run s : grade bs o_coin o_nbrs s = grade_no_reset bs o_coin o_nbrs true (init bs).
  Proof. reflexivity. Qed.

  (** so the pre-repair second run and the repaired one agree on the wires of the mesh wherever the first run
      succeeded: the defect was invisible for count-only chops *)
  Corollary reset_changes_nothing s0 s : grade_no_reset bs o_coin o_nbrs true s0 = GOk s ->
    exists s', grade_no_reset bs o_coin o_nbrs true s = GOk s' /\ eqin bs s' s.
  Proof. intro H. destruct (grade_twice s0 s H) as (s' & G & E & _). exists s'. auto. Qed.
End Main.
