(** C09 - the hand-written leaf models ARE what the code of the working tree says (translate, scale, mirror).

    Gen/C09/Source.v is produced on every run by harness/translate_np.py (python [ast] -> Gallina, fail closed) from
    util/functions.py (norm, unit_vector, scale, mirror_matrix, mirror), construct/point.py (Point.translate / scale /
    mirror) and construct/array.py (Array.translate / scale / mirror).  This file - compiled on every run, after the
    generated one - proves that each translated function equals the leaf of Model/C09_Transform.v that
    [C09_leaf_affine] is about ([leaf_point t], [leaf_row t] for t = TTranslate / TScale / TMirror), for ALL arguments
    on which the python text has a real-number reading.  It has none for the zero normal of a mirror (unit_vector:
    numpy's [nan nan nan]); there the translated function is [None] and the lemma carries [n <> vzero] - which is
    [valid (TMirror n o)], the hypothesis of [C09_leaf_affine].

    Readings (harness/translate_np.py): a Point is its attribute [.position]; a method that ends with [return self]
    is read as the value of that attribute on return ([self.position += d], [self.position = f.scale(...)] re-bind it);
    [origin=None] is a specialisation of its own ([if origin is None: origin = f.vector(0, 0, 0)] is decided at
    translation time) and is proved to be the leaf with the zero origin.  An Array is read ROW-WISE: [self.points]
    stands for one row of the (N, 3) array - numpy broadcasting applies [+ displacement], [origin + (rows - origin) *
    ratio] and [np.dot(rows - origin, matrix.T) + origin] to every row independently (trusted; validated by the
    sampled interval correspondence of the Array leaves).  A 3 x 3 array literal is the triple of its rows,
    [v.dot(M)] / [np.dot(v, M)] is the row vector times the matrix, [M.T] the transpose.

    NOT translated: rotate / rotation_matrix (scipy.linalg.expm of the skew matrix; the model is Rodrigues' formula):
    Point.rotate and Array.rotate stay tied by the sampled interval correspondence only.

    Tactic: Proofs/SourceEqTac.v; no specialisation is named ([unfold_src] is generated with Gen/C09/Source.v). *)
From Coq Require Import Reals Lra Psatz List Bool.
From CB Require Import Base.Vec3 Model.C09_Transform Proofs.SourceEqTac.
From CB Require Import Gen.C09.Source.
Import ListNotations.
Open Scope R_scope.

Ltac unfold_model_all ::=
  cbv beta iota zeta delta [leaf_point leaf_row f_scale f_mirror arr_mirror_row mirror_vM mirror_vMT unitv] in *.
Ltac norm_prims ::= unfold s_clip in *.
Ltac src_eq :=
  unfold_src; norm_prims; unfold_model_all; sym_atoms; go;
  fail "the translated source differs from the model (or the difference is beyond this tactic)".

(** ** util/functions.py *)
Lemma src_norm_eq tol v : src_norm tol v = Some (norm v).
Proof. src_eq. Qed.

Lemma src_unit_vector_eq tol v : v <> vzero -> src_unit_vector tol v = Some (unitv v).
Proof. intros H. src_eq. Qed.

Lemma src_unit_vector_zero tol : src_unit_vector tol vzero = None.
Proof.
  unfold_src. destruct (Req_EM_T (norm vzero) 0) as [_|n]; [reflexivity|].
  exfalso. apply n. unfold norm, norm2. vcoord. replace (0 * 0 + 0 * 0 + 0 * 0) with 0 by ring. apply sqrt_0.
Qed.

Lemma src_scale_eq tol p r o : src_scale tol p r o = Some (f_scale p r o).
Proof. src_eq. Qed.

(** the matrix written in mirror_matrix, applied from the right ([v . M], functions.mirror) and as its transpose
    ([v . M^T], Array.mirror), is the model's [mirror_vM] / [mirror_vMT] *)
Lemma src_mirror_matrix_eq tol n :
  exists m, src_mirror_matrix tol n = Some m
            /\ (forall v, s_vM v m = mirror_vM n v) /\ (forall v, s_vM v (s_MT m) = mirror_vMT n v)
            /\ (forall v, s_Mv m v = mirror_vM n v).
Proof.
  unfold_src. eexists. split; [reflexivity|].
  repeat split; intros v; unfold_src; unfold mirror_vM, mirror_vMT; cbv beta iota zeta; apply vec_eq; vcoord; ring.
Qed.

Lemma src_mirror_eq tol p n o : n <> vzero -> src_mirror tol p n o = Some (f_mirror p n o).
Proof. intros H. src_eq. Qed.

Lemma src_mirror_zero tol p o : src_mirror tol p vzero o = None.
Proof.
  unfold_src. destruct (Req_EM_T (norm vzero) 0) as [_|n]; [reflexivity|].
  exfalso. apply n. unfold norm, norm2. vcoord. replace (0 * 0 + 0 * 0 + 0 * 0) with 0 by ring. apply sqrt_0.
Qed.

(** ** construct/point.py: the new value of self.position *)
Lemma src_Point_translate_eq tol pos d : src_Point_translate tol pos d = Some (leaf_point (TTranslate d) pos).
Proof. src_eq. Qed.

Lemma src_Point_scale_eq tol pos r o : src_Point_scale tol pos r o = Some (leaf_point (TScale r o) pos).
Proof. src_eq. Qed.

Lemma src_Point_scale_default_eq tol pos r : src_Point_scale_default tol pos r = Some (leaf_point (TScale r vzero) pos).
Proof. unfold vzero. src_eq. Qed.

Lemma src_Point_mirror_eq tol pos n o : n <> vzero -> src_Point_mirror tol pos n o = Some (leaf_point (TMirror n o) pos).
Proof. intros H. src_eq. Qed.

Lemma src_Point_mirror_default_eq tol pos n :
  n <> vzero -> src_Point_mirror_default tol pos n = Some (leaf_point (TMirror n vzero) pos).
Proof. intros H. unfold vzero. src_eq. Qed.

(** ** construct/array.py: the new value of one row of self.points *)
Lemma src_Array_translate_eq tol row d : src_Array_translate tol row d = Some (leaf_row (TTranslate d) row).
Proof. src_eq. Qed.

Lemma src_Array_scale_eq tol row r o : src_Array_scale tol row r o = Some (leaf_row (TScale r o) row).
Proof. src_eq. Qed.

Lemma src_Array_scale_default_eq tol row r : src_Array_scale_default tol row r = Some (leaf_row (TScale r vzero) row).
Proof. unfold vzero. src_eq. Qed.

Lemma src_Array_mirror_eq tol row n o : n <> vzero -> src_Array_mirror tol row n o = Some (leaf_row (TMirror n o) row).
Proof. intros H. src_eq. Qed.

Lemma src_Array_mirror_default_eq tol row n :
  n <> vzero -> src_Array_mirror_default tol row n = Some (leaf_row (TMirror n vzero) row).
Proof. intros H. unfold vzero. src_eq. Qed.

(** [n <> vzero] is the validity condition of the property *)
Lemma nonzero_of_norm2_pos n : 0 < norm2 n -> n <> vzero.
Proof. intros H E. rewrite E in H. unfold norm2, dot, vzero, vx, vy, vz in H. simpl in H. lra. Qed.

Example src_mirror_hyp_sat : (0, 0, 1) <> vzero.
Proof. intros H. inversion H. lra. Qed.
