(** C12 - lemmas about the vertex list, the operation store and the patch table of Model/C12_MeshLife.v *)
From Coq Require Import List Bool Arith ZArith Lia.
From CB Require Import Model.C12_MeshLife.
Import ListNotations.

Lemma pos_eqb_eq p q : pos_eqb p q = true -> p = q.
Proof.
  destruct p as [[a b] c], q as [[d e] f]. unfold pos_eqb. simpl. intro H.
  apply andb_true_iff in H. destruct H as [H H3]. apply andb_true_iff in H. destruct H as [H1 H2].
  apply Z.eqb_eq in H1, H2, H3. subst. reflexivity.
Qed.

(** * vertex list: append-only, the index returned holds the requested position *)
Lemma find_vertex_spec vs p key i :
  find_vertex vs p key = Some i -> i < length vs /\ v_pos (nth i vs dvtx) = p.
Proof.
  revert i. induction vs as [|v r IH]; intros i H; simpl in H; [discriminate|].
  destruct (pos_eqb (v_pos v) p && list_eqb (v_key v) key) eqn:E.
  - inversion H. subst. simpl. split; [lia|]. apply andb_true_iff in E. destruct E as [E _].
    apply pos_eqb_eq. exact E.
  - destruct (find_vertex r p key) as [j|] eqn:F; [|discriminate]. inversion H. subst.
    destruct (IH j eq_refl) as [Hl Hp]. simpl. split; [lia|exact Hp].
Qed.

Lemma add_vertex_spec vs p key vs' i :
  add_vertex vs p key = (vs', i) ->
  (exists ext, vs' = vs ++ ext) /\ i < length vs' /\ v_pos (nth i vs' dvtx) = p.
Proof.
  unfold add_vertex. destruct (find_vertex vs p key) as [j|] eqn:F; intro H; inversion H; subst.
  - destruct (find_vertex_spec _ _ _ _ F) as [Hl Hp]. split; [exists []; rewrite app_nil_r; reflexivity|]. auto.
  - split; [eexists; reflexivity|]. rewrite app_length. simpl. split; [lia|].
    rewrite app_nth2 by lia. rewrite Nat.sub_diag. reflexivity.
Qed.

Lemma geo_app V ext idx : Forall (fun i => i < length V) idx -> geo (V ++ ext) idx = geo V idx.
Proof.
  unfold geo. induction idx as [|i r IH]; intro H; simpl; [reflexivity|].
  inversion H; subst. rewrite app_nth1 by assumption. f_equal. apply IH. assumption.
Qed.

Lemma Forall_lt_app (V ext : list vtx) idx :
  Forall (fun i => i < length V) idx -> Forall (fun i => i < length (V ++ ext)) idx.
Proof. intro H. eapply Forall_impl; [|exact H]. intros a Ha. simpl in Ha. rewrite app_length. lia. Qed.

Lemma add_many_spec rq : forall vs vs' idx,
  add_many vs rq = (vs', idx) ->
  (exists ext, vs' = vs ++ ext) /\ Forall (fun i => i < length vs') idx /\ geo vs' idx = map fst rq.
Proof.
  induction rq as [|[p k] r IH]; intros vs vs' idx H; simpl in H.
  - inversion H. subst. split; [exists []; rewrite app_nil_r; reflexivity|]. split; [constructor|reflexivity].
  - destruct (add_vertex vs p k) as [vs1 i] eqn:A. destruct (add_many vs1 r) as [vs2 l] eqn:M.
    inversion H as [[Hv Hidx]]. clear H. rewrite <- Hv. clear Hv Hidx vs' idx.
    destruct (add_vertex_spec _ _ _ _ _ A) as [[e1 H1] [Hi Hp]].
    destruct (IH _ _ _ M) as [[e2 H2] [Hl Hg]]. rewrite H2 in *. rewrite H1 in *. clear H1 H2.
    split; [exists (e1 ++ e2); rewrite app_assoc; reflexivity|].
    split.
    + constructor; [rewrite app_length; lia|exact Hl].
    + simpl. f_equal; [|exact Hg]. unfold geo. rewrite app_nth1 by exact Hi. exact Hp.
Qed.

(** * operation store *)
Lemma get_set_pts store k p k' :
  get_op (set_pts store k p) k' =
  if k' =? k then option_map (fun o => with_pts o p) (get_op store k') else get_op store k'.
Proof.
  induction store as [|[j o] r IH]; simpl.
  - destruct (k' =? k); reflexivity.
  - destruct (j =? k') eqn:E1.
    + apply Nat.eqb_eq in E1. subst j. destruct (k' =? k); reflexivity.
    + exact IH.
Qed.

(** setting the points an operation already has changes nothing, provided keys are unique *)
Definition store_wf (store : list (nat * op)) : Prop :=
  forall k o, In (k, o) store -> get_op store k = Some o.

Lemma with_pts_same o : with_pts o (o_pts o) = o.
Proof. destruct o; reflexivity. Qed.

Lemma set_pts_same_gen store k o :
  (forall o', In (k, o') store -> o' = o) -> set_pts store k (o_pts o) = store.
Proof.
  induction store as [|[j o1] r IH]; intro H; simpl; [reflexivity|].
  f_equal.
  - destruct (j =? k) eqn:E; [|reflexivity]. apply Nat.eqb_eq in E. subst.
    rewrite (H o1 (or_introl eq_refl)). rewrite with_pts_same. reflexivity.
  - apply IH. intros o' Hin. apply H. right. exact Hin.
Qed.

Lemma set_pts_same store k o :
  store_wf store -> get_op store k = Some o -> set_pts store k (o_pts o) = store.
Proof.
  intros W G. apply set_pts_same_gen. intros o' Hin. apply W in Hin. congruence.
Qed.

Lemma set_pts_keys store k p : map fst (set_pts store k p) = map fst store.
Proof. induction store as [|[j o] r IH]; simpl; [reflexivity|]. f_equal. exact IH. Qed.

(** * patch table *)
Definition mods (ps : list pat) : list pat := map (fun p => with_sides p []) (filter p_mod ps).

Lemma clear_patches_fixed ps : clear_patches fixed ps = mods ps.
Proof. reflexivity. Qed.

Lemma push_side_mod p q : p_mod (push_side p q) = p_mod p.
Proof. unfold push_side. destruct (existsb _ _); reflexivity. Qed.

Lemma with_sides_push p q : with_sides (push_side p q) [] = with_sides p [].
Proof. unfold push_side. destruct (existsb _ _); reflexivity. Qed.

Lemma mods_add_side tb ps n q : mods (add_side tb ps n q) = mods ps.
Proof.
  unfold mods. induction ps as [|p r IH]; simpl.
  - try rewrite push_side_mod; reflexivity.
  - destruct (p_name p =? n); simpl.
    + rewrite push_side_mod. destruct (p_mod p); simpl; [rewrite with_sides_push|]; reflexivity.
    + destruct (p_mod p); simpl; [f_equal|]; exact IH.
Qed.

Lemma mods_add_op_patches tb o idx : forall ps, mods (add_op_patches tb ps o idx) = mods ps.
Proof.
  unfold add_op_patches. induction orients as [|j r IH]; intro ps; simpl; [reflexivity|].
  rewrite IH. destruct (nth j (o_pat o) None); [apply mods_add_side|reflexivity].
Qed.

Lemma mods_clean ps :
  Forall (fun p => p_mod p = true /\ p_sides p = []) ps -> mods ps = ps.
Proof.
  unfold mods. induction 1 as [|p r [Hm Hs] _ IH]; simpl; [reflexivity|].
  rewrite Hm. simpl. f_equal; [|exact IH]. destruct p; simpl in *; subst; reflexivity.
Qed.

Lemma mods_are_clean ps : Forall (fun p => p_mod p = true /\ p_sides p = []) (mods ps).
Proof.
  unfold mods. induction ps as [|p r IH]; simpl; [constructor|].
  destruct (p_mod p) eqn:E; simpl; [constructor; [split; [exact E|reflexivity]|exact IH]|exact IH].
Qed.

(** the first patch of a name, its type, settings and modified flag *)
Definition modded (ps : list pat) (n k : nat) (st : list nat) : Prop :=
  exists p, pfind ps n = Some p /\ p_mod p = true /\ p_kind p = k /\ p_set p = st.

Lemma push_side_props p q :
  p_name (push_side p q) = p_name p /\ p_kind (push_side p q) = p_kind p /\ p_set (push_side p q) = p_set p.
Proof. unfold push_side. destruct (existsb _ _); auto. Qed.

Lemma modded_add_side tb ps n' q n k st : modded ps n k st -> modded (add_side tb ps n' q) n k st.
Proof.
  intros [p [F [M [K S]]]]. unfold modded, pfind in *.
  induction ps as [|p0 r IH]; simpl in *; [discriminate|].
  destruct (p_name p0 =? n) eqn:E.
  - inversion F. subst p0. destruct (p_name p =? n') eqn:E'; simpl.
    + destruct (push_side_props p q) as [Hn [Hk Hs]]. rewrite Hn, E.
      exists (push_side p q). rewrite push_side_mod. repeat split; congruence.
    + rewrite E. exists p. auto.
  - destruct (p_name p0 =? n') eqn:E'; simpl.
    + destruct (push_side_props p0 q) as [Hn _]. rewrite Hn, E. exists p. auto.
    + rewrite E. apply IH. exact F.
Qed.

Lemma modded_add_op_patches tb o idx n k st : forall ps,
  modded ps n k st -> modded (add_op_patches tb ps o idx) n k st.
Proof.
  unfold add_op_patches. induction orients as [|j r IH]; intros ps H; simpl; [exact H|].
  apply IH. destruct (nth j (o_pat o) None); [apply modded_add_side|]; exact H.
Qed.

Lemma modded_mods ps n k st : modded ps n k st -> modded (mods ps) n k st.
Proof.
  intros [p [F [M [K S]]]]. unfold modded, pfind, mods in *.
  induction ps as [|p0 r IH]; simpl in *; [discriminate|].
  destruct (p_name p0 =? n) eqn:E.
  - inversion F. subst p0. rewrite M. simpl. rewrite E. exists (with_sides p []). auto.
  - destruct (p_mod p0); simpl; [rewrite E|]; apply IH; exact F.
Qed.

Lemma modded_modify_other tb ps n' k' set n k st :
  n' <> n -> modded ps n k st -> modded (modify tb ps n' k' set) n k st.
Proof.
  intros Hne [p [F [M [K S]]]]. unfold modded, pfind in *.
  induction ps as [|p0 r IH]; simpl in *; [discriminate|].
  destruct (p_name p0 =? n) eqn:E.
  - inversion F. subst p0. apply Nat.eqb_eq in E.
    destruct (p_name p =? n') eqn:E'; [apply Nat.eqb_eq in E'; congruence|].
    simpl. apply Nat.eqb_eq in E. rewrite E. exists p. auto.
  - destruct (p_name p0 =? n') eqn:E'; simpl.
    + apply Nat.eqb_eq in E'. subst n'. assert (n =? n = true) by apply Nat.eqb_refl.
      destruct (p_name p0 =? n) eqn:E2; [discriminate|].
      assert (Hx : (p_name p0 =? n) = false) by exact E2.
      replace (p_name p0 =? n) with false.
      simpl. rewrite Nat.eqb_sym in Hx.
      destruct (Nat.eqb_spec (p_name p0) n); [congruence|].
      exists p. auto.
    + rewrite E. apply IH. exact F.
Qed.

Lemma modded_modify_same tb ps n k set :
  exists st, modded (modify tb ps n k set) n k st /\ (forall x, set = Some x -> st = x).
Proof.
  unfold modded, pfind. induction ps as [|p0 r IH]; simpl.
  - rewrite Nat.eqb_refl. eexists. split; [eexists; repeat split|]. intros x Hx. subst. reflexivity.
  - destruct (p_name p0 =? n) eqn:E; simpl.
    + rewrite Nat.eqb_refl. eexists. split; [eexists; repeat split|]. intros x Hx. subst. reflexivity.
    + rewrite E. exact IH.
Qed.
