(** C14 - the exact law of uniform scaling: scaling the geometry by [s > 0] is the same as dividing
    the area guard by [s^2] and the length guard by [s].  Hence the value is scale invariant exactly
    when the guards are inactive (zero guard, or - with the [max] form of the guard - every guarded
    area and length at least the guard). *)
From Coq Require Import Reals List Lra Psatz.
From CB Require Import Base.Vec3 Model.C14_Quality Proofs.C14_Algebra.
Import ListNotations.
Open Scope R_scope.

Definition with_eps (k : consts) (ea el : R) : consts :=
  mkConsts (additive k) ea el (w_no k) (w_in k) (w_as k).

Lemma guard_scale add e s x : 0 < s -> guard add e (s * x) = s * guard add (e / s) x.
Proof.
  intros Hs. unfold guard. destruct add.
  - field. lra.
  - apply rmax_scale. assumption.
Qed.

Lemma inv_scale s g : s <> 0 -> / (s * g) * s = / g.
Proof.
  intros Hs. rewrite Rinv_mult. replace (/ s * / g * s) with (/ g * (/ s * s)) by ring.
  rewrite Rinv_l by assumption. ring.
Qed.

Lemma unitg_scale add e s v : 0 < s -> unitg add e (vscale s v) = unitg add (e / s) v.
Proof.
  intros Hs. unfold unitg. rewrite norm_scale_pos by lra. rewrite guard_scale by assumption.
  rewrite vscale_vscale. rewrite inv_scale by lra. reflexivity.
Qed.

Lemma unit_scale s v : 0 < s -> unit (vscale s v) = unit v.
Proof.
  intros Hs. unfold unit. rewrite norm_scale_pos by lra. rewrite vscale_vscale, inv_scale by lra. reflexivity.
Qed.

Lemma c4_scale s a b c d : c4 (vscale s a) (vscale s b) (vscale s c) (vscale s d) = vscale s (c4 a b c d).
Proof. unfold c4. rewrite !vadd_scale, !vscale_vscale. f_equal. ring. Qed.
Lemma c2_scale s a b : c2 (vscale s a) (vscale s b) = vscale s (c2 a b).
Proof. unfold c2. rewrite !vadd_scale, !vscale_vscale. f_equal. ring. Qed.

Lemma vsum_scale s l : vsum (map (vscale s) l) = vscale s (vsum l).
Proof.
  induction l; simpl.
  - unfold vzero. vec_ring.
  - rewrite IHl. apply vadd_scale.
Qed.
Lemma centre8_scale s P : centre8 (fun i => vscale s (P i)) = vscale s (centre8 P).
Proof.
  unfold centre8. rewrite <- (map_map P (vscale s)), vsum_scale, !vscale_vscale. f_equal. ring.
Qed.

Section Scale.
  Variable s : R.
  Hypothesis Hs : 0 < s.
  Let h := vscale s.

  Lemma h_sub a b : vsub (h a) (h b) = h (vsub a b).
  Proof. apply vsub_scale. Qed.
  Lemma h_c4 a b c d : c4 (h a) (h b) (h c) (h d) = h (c4 a b c d).
  Proof. apply c4_scale. Qed.
  Lemma h_c2 a b : c2 (h a) (h b) = h (c2 a b).
  Proof. apply c2_scale. Qed.
  Lemma h_unit v : unit (h v) = unit v.
  Proof. apply unit_scale. assumption. Qed.
  Lemma h_cross u v : cross (h u) (h v) = vscale (s * s) (cross u v).
  Proof. apply cross_scale. Qed.
  Lemma h_unitg add e v : unitg add e (h v) = unitg add (e / s) v.
  Proof. apply unitg_scale. assumption. Qed.

  Lemma nonortho1_scale k ea el sc c a b :
    nonortho1 (with_eps k ea el) (h sc) c (h a) (h b) = nonortho1 (with_eps k (ea / (s * s)) (el / s)) sc c a b.
  Proof.
    unfold nonortho1. simpl. rewrite !h_sub, h_cross.
    rewrite unitg_scale by nra. reflexivity.
  Qed.

  Lemma inner1_scale k ea el p q r :
    inner1 (with_eps k ea el) (h p) (h q) (h r) = inner1 (with_eps k (ea / (s * s)) (el / s)) p q r.
  Proof.
    unfold inner1. simpl. rewrite !h_sub, !h_unitg. reflexivity.
  Qed.

  Lemma side_term_scale k ea el center other a b c d :
    side_term (with_eps k ea el) (h center) (option_map h other) (h a) (h b) (h c) (h d)
    = side_term (with_eps k (ea / (s * s)) (el / s)) center other a b c d.
  Proof.
    unfold side_term. rewrite h_c4.
    assert (E : vsub (h center) (match option_map h other with Some o => o | None => h (c4 a b c d) end)
                = h (vsub center (match other with Some o => o | None => c4 a b c d end))).
    { destruct other; simpl; apply h_sub. }
    rewrite E. rewrite h_unit.
    rewrite !nonortho1_scale, !inner1_scale. reflexivity.
  Qed.

  Lemma side_term_l_scale k ea el center other l :
    side_term_l (with_eps k ea el) (h center) (option_map h other) (map h l)
    = side_term_l (with_eps k (ea / (s * s)) (el / s)) center other l.
  Proof.
    destruct l as [|a [|b [|c [|d [|e l]]]]]; try reflexivity. simpl. apply side_term_scale.
  Qed.

  Lemma edge_len_scale P e : edge_len (fun i => h (P i)) e = s * edge_len P e.
  Proof. unfold edge_len. rewrite h_sub. unfold h. apply norm_scale_pos. lra. Qed.

  Lemma aspect_scale k ea el P E :
    aspect (with_eps k ea el) (map (edge_len (fun i => h (P i))) E)
    = aspect (with_eps k (ea / (s * s)) (el / s)) (map (edge_len P) E).
  Proof.
    unfold aspect. simpl.
    rewrite (map_ext _ (fun e => s * edge_len P e) (edge_len_scale P)).
    rewrite <- (map_map (edge_len P) (Rmult s)).
    rewrite lmax_scale, lmin_scale by lra. rewrite guard_scale by assumption.
    f_equal. f_equal. f_equal. unfold Rdiv. rewrite Rinv_mult.
    set (a := lmax _). set (g0 := / guard _ _ _).
    replace (s * a * (/ s * g0)) with (a * g0 * (/ s * s)) by ring. rewrite Rinv_l by lra. ring.
  Qed.

  (** the scale law (hexahedron) *)
  Theorem hexq_scale_law k ea el T E P nb :
    hexq (with_eps k ea el) T E (fun i => h (P i)) (fun i => option_map h (nb i))
    = hexq (with_eps k (ea / (s * s)) (el / s)) T E P nb.
  Proof.
    unfold hexq. replace (centre8 (fun i => h (P i))) with (h (centre8 P)) by (symmetry; apply centre8_scale). f_equal.
    - f_equal. apply map_ext. intro i. rewrite <- (map_map P h). apply side_term_l_scale.
    - apply aspect_scale.
  Qed.

  Lemma quad_side_scale k ea el center other nrm prev a b :
    quad_side (with_eps k ea el) (h center) (option_map h other) (vscale (s * s) nrm) (h prev) (h a) (h b)
    = quad_side (with_eps k (ea / (s * s)) (el / s)) center other nrm prev a b.
  Proof.
    unfold quad_side. simpl. rewrite h_c2.
    assert (E : vsub (h center) (match option_map h other with Some o => o | None => h (c2 a b) end)
                = h (vsub center (match other with Some o => o | None => c2 a b end))).
    { destruct other; simpl; apply h_sub. }
    rewrite E. rewrite !h_sub, !h_unit. unfold h. rewrite cross_scale.
    assert (0 < s * s * s) by (apply Rmult_lt_0_compat; [apply Rmult_lt_0_compat|]; assumption).
    rewrite unit_scale by assumption. reflexivity.
  Qed.

  (** the scale law (quadrilateral) *)
  Theorem quadq_scale_law k ea el E P nb :
    quadq (with_eps k ea el) E (fun i => h (P i)) (fun i => option_map h (nb i))
    = quadq (with_eps k (ea / (s * s)) (el / s)) E P nb.
  Proof.
    unfold quadq. rewrite h_c4. rewrite !h_sub. rewrite h_cross.
    rewrite !quad_side_scale. f_equal. apply aspect_scale.
  Qed.
End Scale.

(** with a zero guard the value is exactly scale invariant *)
Corollary hexq_scale_zero_guard k T E P nb s : 0 < s ->
  hexq (with_eps k 0 0) T E (fun i => vscale s (P i)) (fun i => option_map (vscale s) (nb i))
  = hexq (with_eps k 0 0) T E P nb.
Proof.
  intros Hs. rewrite hexq_scale_law by assumption. unfold Rdiv. rewrite !Rmult_0_l. reflexivity.
Qed.
Corollary quadq_scale_zero_guard k E P nb s : 0 < s ->
  quadq (with_eps k 0 0) E (fun i => vscale s (P i)) (fun i => option_map (vscale s) (nb i))
  = quadq (with_eps k 0 0) E P nb.
Proof.
  intros Hs. rewrite quadq_scale_law by assumption. unfold Rdiv. rewrite !Rmult_0_l. reflexivity.
Qed.

(** ** the [max] form of the guard is inactive above the guard *)

(** every area and length the hexahedron value guards is at least the guard *)
Definition tri_area (sc a b : vec) : R := norm (cross (vsub a sc) (vsub b sc)).
Definition side_above (ea el : R) (a b c d : vec) : Prop :=
  let sc := c4 a b c d in
  ea <= tri_area sc a b /\ ea <= tri_area sc b c /\ ea <= tri_area sc c d /\ ea <= tri_area sc d a /\
  el <= norm (vsub b a) /\ el <= norm (vsub c b) /\ el <= norm (vsub d c) /\ el <= norm (vsub a d) /\
  el <= norm (vsub d a) /\ el <= norm (vsub a b) /\ el <= norm (vsub b c) /\ el <= norm (vsub c d).
Definition side_above_l (ea el : R) (l : list vec) : Prop :=
  match l with [a; b; c; d] => side_above ea el a b c d | _ => True end.
Definition hex_above (ea el : R) (T : list (list nat)) (E : list (nat * nat)) (P : nat -> vec) : Prop :=
  (forall i, side_above_l ea el (map P (nth i T []))) /\ 0 <= el <= lmin (map (edge_len P) E).

Lemma unitg_inactive e v : e <= norm v -> unitg false e v = unitg false 0 v.
Proof.
  intros H. unfold unitg, guard. rewrite !rmax_ge; [reflexivity | apply norm_nonneg | assumption].
Qed.

Lemma side_term_inactive k ea el center other a b c d :
  additive k = false -> side_above ea el a b c d ->
  side_term (with_eps k ea el) center other a b c d = side_term (with_eps k 0 0) center other a b c d.
Proof.
  intros Hk (H1 & H2 & H3 & H4 & H5 & H6 & H7 & H8 & H9 & H10 & H11 & H12).
  unfold side_term, nonortho1, inner1, tri_area in *. simpl. rewrite Hk.
  rewrite !(unitg_inactive ea) by assumption. rewrite !(unitg_inactive el) by assumption. reflexivity.
Qed.

Theorem hexq_guard_inactive k ea el T E P nb :
  additive k = false -> hex_above ea el T E P ->
  hexq (with_eps k ea el) T E P nb = hexq (with_eps k 0 0) T E P nb.
Proof.
  intros Hk [HS HE]. unfold hexq. f_equal.
  - f_equal. apply map_ext. intro i. specialize (HS i).
    destruct (map P (nth i T [])) as [|a [|b [|c [|d [|e l]]]]]; try reflexivity.
    simpl. apply side_term_inactive; assumption.
  - unfold aspect. simpl. rewrite Hk. unfold guard. rewrite !rmax_ge by lra. reflexivity.
Qed.

Lemma with_eps_id k : with_eps k (eps_a k) (eps_l k) = k.
Proof. destruct k; reflexivity. Qed.

(** scale invariance for sizes above the guard ([max] form of the guard) *)
Theorem hexq_scale_above k T E P nb s :
  0 < s -> additive k = false ->
  hex_above (eps_a k) (eps_l k) T E P ->
  hex_above (eps_a k) (eps_l k) T E (fun i => vscale s (P i)) ->
  hexq k T E (fun i => vscale s (P i)) (fun i => option_map (vscale s) (nb i)) = hexq k T E P nb.
Proof.
  intros Hs Hk H1 H2. rewrite <- (with_eps_id k) at 1 2.
  rewrite hexq_guard_inactive by assumption.
  rewrite hexq_scale_zero_guard by assumption.
  rewrite <- hexq_guard_inactive with (ea := eps_a k) (el := eps_l k) by assumption.
  rewrite with_eps_id. reflexivity.
Qed.

Definition quad_above (el : R) (E : list (nat * nat)) (P : nat -> vec) : Prop :=
  0 <= el <= lmin (map (edge_len P) E).

Theorem quadq_guard_inactive k ea el E P nb :
  additive k = false -> quad_above el E P ->
  quadq (with_eps k ea el) E P nb = quadq (with_eps k 0 0) E P nb.
Proof.
  intros Hk HE. unfold quadq. f_equal.
  unfold aspect. simpl. rewrite Hk. unfold guard. unfold quad_above in HE. rewrite !rmax_ge by lra. reflexivity.
Qed.

Theorem quadq_scale_above k E P nb s :
  0 < s -> additive k = false ->
  quad_above (eps_l k) E P -> quad_above (eps_l k) E (fun i => vscale s (P i)) ->
  quadq k E (fun i => vscale s (P i)) (fun i => option_map (vscale s) (nb i)) = quadq k E P nb.
Proof.
  intros Hs Hk H1 H2. rewrite <- (with_eps_id k) at 1 2.
  rewrite quadq_guard_inactive by assumption.
  rewrite quadq_scale_zero_guard by assumption.
  rewrite <- quadq_guard_inactive with (ea := eps_a k) (el := eps_l k) by assumption.
  rewrite with_eps_id. reflexivity.
Qed.
