(** C12 - the round trip clear / re-assemble on EVERY assembled state a history leads to, not only on a mesh that
    was never touched after its assembly: after modify_patch calls that FOLLOW the assembly (on patches the assembly
    created, on new names, repeated), set_default_patch and writes, the file written after [clear] is the file written
    without it - same vertices, blocks, gradings, and the same patches IN THE SAME ORDER with the same types, settings
    and faces (fixes/C12-5b.diff: PatchList.rank).

    Method: the vertices, the blocks and the sequence of (patch name, face) pushes of an assembly do not depend on the
    patch table ([skel], [asm_all_decomp]); what a push sequence does to the patch of one name is described through
    [eff] (the patch PatchList.get would return); an invariant [Good] of the assembled states ties the patch table to
    the push sequence of the last assembly and is kept by modify_patch / set_default_patch / write. *)
From Coq Require Import List Bool Arith ZArith Lia.
From CB Require Model.Propagate Model.C12_Regrade Proofs.C12_Regrade.
From CB Require Import Model.C12_MeshLife Proofs.C12_Lists Proofs.C12_MeshLife.
Import ListNotations.

(** * pushes *)
Definition push := (nat * list nat)%type.
Definition op_pushes (tb : tables) (o : op) (idx : list nat) : list push :=
  flat_map (fun j => match nth j (o_pat o) None with
                     | Some n => [(n, map (fun c => nth c idx 0) (nth j (face_map tb) []))]
                     | None => []
                     end) orients.
Definition push_all (tb : tables) (pu : list push) (ps : list pat) : list pat :=
  fold_left (fun ps nq => add_side tb ps (fst nq) (snd nq)) pu ps.

Lemma push_all_app tb a b ps : push_all tb (a ++ b) ps = push_all tb b (push_all tb a ps).
Proof. unfold push_all. apply fold_left_app. Qed.

Lemma add_op_patches_pushes tb o idx ps : add_op_patches tb ps o idx = push_all tb (op_pushes tb o idx) ps.
Proof.
  unfold add_op_patches, op_pushes, push_all. revert ps. induction orients as [|j r IH]; intro ps; simpl; [reflexivity|].
  destruct (nth j (o_pat o) None); simpl; apply IH.
Qed.

Lemma op_pushes_names tb o idx : map fst (op_pushes tb o idx) = op_names o.
Proof.
  unfold op_pushes, op_names, somes. induction orients as [|j r IH]; simpl; [reflexivity|].
  destruct (nth j (o_pat o) None); simpl; [f_equal|]; exact IH.
Qed.

(** vertices, blocks and pushes of an assembly, computed without the patch table *)
Definition skel_op (tb : tables) (sl : list nat) (L : list vtx * list blk * list push) (ko : nat * op)
  : list vtx * list blk * list push :=
  let '(V, B, pu) := L in
  let '(V', idx) := add_many V (reqs sl (snd ko)) in
  (V', B ++ [{| b_src := fst ko; b_verts := idx; b_chops := o_chops (snd ko); b_wg := []; b_ax := [] |}],
   pu ++ op_pushes tb (snd ko) idx).

Lemma skel_op_eq tb sl V B pu ko :
  skel_op tb sl (V, B, pu) ko =
  let '(V', idx) := add_many V (reqs sl (snd ko)) in
  (V', B ++ [{| b_src := fst ko; b_verts := idx; b_chops := o_chops (snd ko); b_wg := []; b_ax := [] |}],
   pu ++ op_pushes tb (snd ko) idx).
Proof. reflexivity. Qed.

Lemma asm_all_decomp tb sl l : forall V B pu0 V1 B1 pu,
  fold_left (skel_op tb sl) l (V, B, pu0) = (V1, B1, pu) ->
  forall P, asm_all tb sl l (V, B, push_all tb pu0 P) = (V1, B1, push_all tb pu P).
Proof.
  induction l as [|ko r IH]; intros V B pu0 V1 B1 pu H P.
  - simpl in H. inversion H. reflexivity.
  - change (asm_all tb sl (ko :: r) (V, B, push_all tb pu0 P))
      with (asm_all tb sl r (asm_op tb sl (V, B, push_all tb pu0 P) ko)).
    change (fold_left (skel_op tb sl) (ko :: r) (V, B, pu0))
      with (fold_left (skel_op tb sl) r (skel_op tb sl (V, B, pu0) ko)) in H.
    rewrite skel_op_eq in H.
    rewrite asm_op_eq. destruct (add_many V (reqs sl (snd ko))) as [V' idx] eqn:A.
    rewrite add_op_patches_pushes, <- push_all_app. apply IH. exact H.
Qed.

Lemma skel_names tb sl l : forall V B pu0 V1 B1 pu,
  fold_left (skel_op tb sl) l (V, B, pu0) = (V1, B1, pu) ->
  map fst pu = map fst pu0 ++ flat_map (fun ko => op_names (snd ko)) l.
Proof.
  induction l as [|ko r IH]; intros V B pu0 V1 B1 pu H.
  - simpl in H. inversion H. rewrite app_nil_r. reflexivity.
  - change (fold_left (skel_op tb sl) (ko :: r) (V, B, pu0))
      with (fold_left (skel_op tb sl) r (skel_op tb sl (V, B, pu0) ko)) in H.
    rewrite skel_op_eq in H.
    destruct (add_many V (reqs sl (snd ko))) as [V' idx] eqn:A.
    apply IH in H. rewrite H, map_app, op_pushes_names, <- app_assoc. reflexivity.
Qed.

Definition skel (tb : tables) (s : st) : list vtx * list blk * list push :=
  fold_left (skel_op tb (slaves s)) (live_ops s) ([], [], []).
Definition pushed (s : st) : list nat := flat_map (fun ko => op_names (snd ko)) (live_ops s).

(** * the patch of one name *)
Definition eff (tb : tables) (ps : list pat) (n : nat) : pat :=
  match pfind ps n with Some p => p | None => new_patch tb n end.
Definition ks (p : pat) : nat * list nat * bool := (p_kind p, p_set p, p_mod p).

Lemma pfind_name ps n p : pfind ps n = Some p -> p_name p = n.
Proof. unfold pfind. intro H. apply find_some in H. destruct H as [_ H]. apply Nat.eqb_eq. exact H. Qed.

Lemma push_side_name p q : p_name (push_side p q) = p_name p.
Proof. unfold push_side. destruct (existsb _ _); reflexivity. Qed.
Lemma push_side_ks p q : ks (push_side p q) = ks p.
Proof. unfold push_side, ks. destruct (existsb _ _); reflexivity. Qed.
Lemma push_side_sides p p' q : p_sides p = p_sides p' -> p_sides (push_side p q) = p_sides (push_side p' q).
Proof. unfold push_side. intro H. rewrite H. destruct (existsb _ _); simpl; congruence. Qed.

Lemma pfind_add_side tb ps n' q n :
  pfind (add_side tb ps n' q) n = if n' =? n then Some (push_side (eff tb ps n) q) else pfind ps n.
Proof.
  unfold eff, pfind. induction ps as [|p r IH].
  - cbn [add_side find]. rewrite push_side_name. cbn [new_patch p_name].
    destruct (n' =? n) eqn:E; [|reflexivity]. apply Nat.eqb_eq in E. subst. reflexivity.
  - cbn [add_side]. destruct (p_name p =? n') eqn:E1.
    + cbn [find]. rewrite push_side_name. apply Nat.eqb_eq in E1. rewrite E1.
      destruct (n' =? n) eqn:E; reflexivity.
    + cbn [find]. destruct (p_name p =? n) eqn:E2.
      * destruct (n' =? n) eqn:E; [|reflexivity]. apply Nat.eqb_eq in E, E2. subst. rewrite Nat.eqb_refl in E1. discriminate.
      * exact IH.
Qed.

Lemma eff_add_side tb ps n' q n :
  eff tb (add_side tb ps n' q) n = if n' =? n then push_side (eff tb ps n) q else eff tb ps n.
Proof. unfold eff at 1. rewrite pfind_add_side. destruct (n' =? n); reflexivity. Qed.

Lemma ks_push_all tb pu : forall ps n, ks (eff tb (push_all tb pu ps) n) = ks (eff tb ps n).
Proof.
  induction pu as [|[n' q] r IH]; intros ps n; simpl; [reflexivity|].
  change (ks (eff tb (push_all tb r (add_side tb ps n' q)) n) = ks (eff tb ps n)).
  rewrite IH, eff_add_side. destruct (n' =? n); [apply push_side_ks|reflexivity].
Qed.

Lemma sides_push_all tb pu : forall ps ps' n,
  p_sides (eff tb ps n) = p_sides (eff tb ps' n) ->
  p_sides (eff tb (push_all tb pu ps) n) = p_sides (eff tb (push_all tb pu ps') n).
Proof.
  induction pu as [|[n' q] r IH]; intros ps ps' n H; simpl; [exact H|].
  change (p_sides (eff tb (push_all tb r (add_side tb ps n' q)) n)
          = p_sides (eff tb (push_all tb r (add_side tb ps' n' q)) n)).
  apply IH. rewrite !eff_add_side. destruct (n' =? n); [apply push_side_sides|]; exact H.
Qed.

Definition present (ps : list pat) (n : nat) : bool := match pfind ps n with Some _ => true | None => false end.

Lemma present_push_all tb pu : forall ps n, present (push_all tb pu ps) n = present ps n || mem n (map fst pu).
Proof.
  induction pu as [|[n' q] r IH]; intros ps n; simpl; [rewrite orb_false_r; reflexivity|].
  change (present (push_all tb r (add_side tb ps n' q)) n = present ps n || ((n =? n') || mem n (map fst r))).
  rewrite IH. unfold present at 1. rewrite pfind_add_side. rewrite (Nat.eqb_sym n n').
  destruct (n' =? n); simpl.
  - rewrite orb_true_r. reflexivity.
  - reflexivity.
Qed.

Lemma names_add_side tb ps n q :
  map p_name (add_side tb ps n q) = if has_patch ps n then map p_name ps else map p_name ps ++ [n].
Proof.
  unfold has_patch. induction ps as [|p r IH].
  - cbn [add_side map existsb]. rewrite push_side_name. reflexivity.
  - cbn [add_side existsb]. destruct (p_name p =? n) eqn:E.
    + cbn [map orb]. rewrite push_side_name. reflexivity.
    + cbn [map orb]. rewrite IH. destruct (existsb _ r); reflexivity.
Qed.

Lemma has_patch_in ps n : has_patch ps n = true <-> In n (map p_name ps).
Proof.
  unfold has_patch. rewrite existsb_exists, in_map_iff. split.
  - intros [p [Hp E]]. apply Nat.eqb_eq in E. exists p. auto.
  - intros [p [E Hp]]. exists p. split; [exact Hp|apply Nat.eqb_eq; exact E].
Qed.

Lemma nodup_snoc {A} (l : list A) a : NoDup l -> ~ In a l -> NoDup (l ++ [a]).
Proof.
  induction l as [|x l IH]; intros H N; simpl; [constructor; [intros []|constructor]|].
  inversion H as [|? ? Hx Hl]; subst. constructor.
  - intro X. apply in_app_iff in X. destruct X as [X|[X|[]]]; [contradiction|]. subst. apply N. left. reflexivity.
  - apply IH; [exact Hl|]. intro X. apply N. right. exact X.
Qed.

Lemma nodup_add_side tb ps n q : NoDup (map p_name ps) -> NoDup (map p_name (add_side tb ps n q)).
Proof.
  intro H. rewrite names_add_side. destruct (has_patch ps n) eqn:E; [exact H|].
  apply nodup_snoc; [exact H|]. intro X. apply has_patch_in in X. congruence.
Qed.

Lemma nodup_push_all tb pu : forall ps, NoDup (map p_name ps) -> NoDup (map p_name (push_all tb pu ps)).
Proof.
  induction pu as [|[n q] r IH]; intros ps H; simpl; [exact H|]. apply IH. apply nodup_add_side. exact H.
Qed.

(** * the patches clear keeps, and modify_patch *)
Lemma pfind_none ps n : ~ In n (map p_name ps) -> pfind ps n = None.
Proof.
  unfold pfind. induction ps as [|p r IH]; intro H; simpl; [reflexivity|].
  destruct (p_name p =? n) eqn:E.
  - exfalso. apply H. left. apply Nat.eqb_eq. exact E.
  - apply IH. intro X. apply H. right. exact X.
Qed.

Lemma present_has ps n : present ps n = has_patch ps n.
Proof.
  unfold present, pfind, has_patch. induction ps as [|p r IH]; simpl; [reflexivity|].
  destruct (p_name p =? n); [reflexivity|exact IH].
Qed.

Lemma names_mods ps : map p_name (mods ps) = map p_name (filter p_mod ps).
Proof. unfold mods. rewrite map_map. reflexivity. Qed.

Lemma nodup_filter_names (f : pat -> bool) ps : NoDup (map p_name ps) -> NoDup (map p_name (filter f ps)).
Proof.
  induction ps as [|p r IH]; intro H; simpl; [constructor|]. inversion H as [|? ? Hp Hr]; subst.
  destruct (f p); simpl; [|apply IH; exact Hr]. constructor; [|apply IH; exact Hr].
  intro X. apply Hp. apply in_map_iff in X. destruct X as [x [E Hx]]. apply filter_In in Hx.
  apply in_map_iff. exists x. tauto.
Qed.

Lemma nodup_mods ps : NoDup (map p_name ps) -> NoDup (map p_name (mods ps)).
Proof. intro H. rewrite names_mods. apply nodup_filter_names. exact H. Qed.

Lemma pfind_mods ps n : NoDup (map p_name ps) ->
  pfind (mods ps) n = match pfind ps n with
                      | Some p => if p_mod p then Some (with_sides p []) else None
                      | None => None
                      end.
Proof.
  unfold mods, pfind. induction ps as [|p r IH]; intro H; [reflexivity|].
  inversion H as [|? ? Hp Hr]; subst. cbn [filter find].
  destruct (p_name p =? n) eqn:E.
  - destruct (p_mod p) eqn:M.
    + cbn [map find with_sides p_name]. rewrite E. reflexivity.
    + rewrite (IH Hr). apply Nat.eqb_eq in E. subst n.
      change (find (fun p0 => p_name p0 =? p_name p) r) with (pfind r (p_name p)).
      rewrite (pfind_none r (p_name p) Hp). reflexivity.
  - destruct (p_mod p); [cbn [map find with_sides p_name]; rewrite E|]; apply IH; exact Hr.
Qed.

Definition modp (n k : nat) (set : option (list nat)) (p : pat) : pat :=
  {| p_name := n; p_kind := k; p_set := match set with Some x => x | None => p_set p end;
     p_mod := true; p_sides := p_sides p |}.

Lemma pfind_modify tb ps n' k set n :
  pfind (modify tb ps n' k set) n = if n' =? n then Some (modp n' k set (eff tb ps n)) else pfind ps n.
Proof.
  unfold eff, pfind. induction ps as [|p r IH].
  - cbn [modify find p_name]. destruct (n' =? n) eqn:E; [|reflexivity].
    apply Nat.eqb_eq in E. subst. unfold modp. destruct set; reflexivity.
  - cbn [modify]. destruct (p_name p =? n') eqn:E1.
    + cbn [find p_name]. apply Nat.eqb_eq in E1. rewrite E1. destruct (n' =? n); reflexivity.
    + cbn [find]. destruct (p_name p =? n) eqn:E2.
      * destruct (n' =? n) eqn:E; [|reflexivity]. apply Nat.eqb_eq in E, E2. subst. rewrite Nat.eqb_refl in E1. discriminate.
      * exact IH.
Qed.

Lemma names_modify tb ps n k set :
  map p_name (modify tb ps n k set) = if has_patch ps n then map p_name ps else map p_name ps ++ [n].
Proof.
  unfold has_patch. induction ps as [|p r IH].
  - reflexivity.
  - cbn [modify existsb]. destruct (p_name p =? n) eqn:E.
    + cbn [map orb p_name]. apply Nat.eqb_eq in E. rewrite E. reflexivity.
    + cbn [map orb]. rewrite IH. destruct (existsb _ r); reflexivity.
Qed.

(** * the invariant of assembled states *)
Record Good (tb : tables) (s : st) : Prop := {
  g_asm : is_assembled s = true;
  g_nodup : NoDup (map p_name (patches s));
  g_dflt : forall n p, pfind (patches s) n = Some p -> p_mod p = false -> p_kind p = default_kind tb /\ p_set p = [];
  g_own : forall n p, pfind (patches s) n = Some p -> p_mod p = true \/ In n (pushed s);
  g_all : forall n, In n (pushed s) -> present (patches s) n = true;
  g_rank : forall n, present (patches s) n = true -> mem n (prank s) = true;
  g_sides : forall n, p_sides (eff tb (patches s) n) = p_sides (eff tb (push_all tb (snd (skel tb s)) []) n);
  g_geo : verts s = fst (fst (skel tb s)) /\ map pblk (blocks s) = map pblk (snd (fst (skel tb s)))
}.

Definition pnodup (s : st) : Prop := NoDup (map p_name (patches s)).
Definition ranked (s : st) : Prop := forall n, present (patches s) n = true -> mem n (prank s) = true.

Lemma clean_found c n p : clean c -> pfind (patches c) n = Some p -> p_mod p = true /\ p_sides p = [].
Proof.
  intros [_ [_ H]] F. unfold pfind in F. apply find_some in F. destruct F as [F _].
  rewrite Forall_forall in H. apply H. exact F.
Qed.

Lemma assemble_shape tb c V1 B1 pu : clean c -> skel tb c = (V1, B1, pu) ->
  assemble tb c = with_rank (with_lists c V1 B1 (push_all tb pu (patches c)))
                            (asm_rank (patches c) (live_ops c) (prank c)).
Proof.
  intros [Hv [Hb _]] S. unfold assemble. rewrite Hv, Hb.
  pose proof (asm_all_decomp tb (slaves c) (live_ops c) [] [] [] V1 B1 pu S (patches c)) as D.
  change (push_all tb [] (patches c)) with (patches c) in D. rewrite D. reflexivity.
Qed.

Theorem good_assemble tb c : clean c -> pnodup c -> ranked c -> is_assembled (assemble tb c) = true ->
  Good tb (assemble tb c).
Proof.
  intros Hc Hn Hr Ha. destruct (skel tb c) as [[V1 B1] pu] eqn:S.
  pose proof (skel_names tb (slaves c) (live_ops c) [] [] [] V1 B1 pu S) as Hnames. simpl in Hnames.
  rewrite (assemble_shape tb c V1 B1 pu Hc S) in *.
  set (P1 := push_all tb pu (patches c)).
  assert (Sk : skel tb (with_rank (with_lists c V1 B1 P1) (asm_rank (patches c) (live_ops c) (prank c))) = (V1, B1, pu))
    by exact S.
  assert (Pu : pushed (with_rank (with_lists c V1 B1 P1) (asm_rank (patches c) (live_ops c) (prank c))) = map fst pu)
    by (symmetry; exact Hnames).
  constructor.
  - exact Ha.
  - apply nodup_push_all. exact Hn.
  - intros n p F M. cbn [patches with_rank with_lists] in F.
    assert (E : eff tb P1 n = p) by (unfold eff; rewrite F; reflexivity).
    pose proof (ks_push_all tb pu (patches c) n) as K. fold P1 in K. rewrite E in K.
    unfold eff in K. destruct (pfind (patches c) n) as [p0|] eqn:F0.
    + destruct (clean_found c n p0 Hc F0) as [M0 _]. unfold ks in K. inversion K. congruence.
    + unfold ks in K. inversion K. auto.
  - intros n p F. cbn [patches with_rank with_lists] in F. rewrite Pu.
    assert (E : eff tb P1 n = p) by (unfold eff; rewrite F; reflexivity).
    assert (Pr : present P1 n = true) by (unfold present; rewrite F; reflexivity).
    unfold P1 in Pr. rewrite present_push_all in Pr. apply orb_true_iff in Pr. destruct Pr as [Pr|Pr].
    + left. pose proof (ks_push_all tb pu (patches c) n) as K. fold P1 in K. rewrite E in K.
      unfold present in Pr. unfold eff in K. destruct (pfind (patches c) n) as [p0|] eqn:F0; [|discriminate].
      destruct (clean_found c n p0 Hc F0) as [M0 _]. unfold ks in K. inversion K. congruence.
    + right. apply mem_in. exact Pr.
  - intros n Hin. rewrite Pu in Hin. cbn [patches with_rank with_lists]. unfold P1. rewrite present_push_all.
    apply orb_true_iff. right. apply mem_in. exact Hin.
  - intros n Pr. cbn [patches prank with_rank with_lists] in *. unfold P1 in Pr. rewrite present_push_all in Pr.
    rewrite asm_rank_eq. destruct (has_patch (patches c) n) eqn:Hp.
    + apply rank_fold_mono. apply Hr. rewrite present_has. exact Hp.
    + rewrite present_has, Hp in Pr. simpl in Pr. apply rank_fold_covers; [|exact Hp].
      rewrite <- Hnames. apply mem_in. exact Pr.
  - intro n. rewrite Sk. cbn [patches with_rank with_lists snd]. apply sides_push_all.
    unfold eff. destruct (pfind (patches c) n) as [p0|] eqn:F0; [|reflexivity].
    destruct (clean_found c n p0 Hc F0) as [_ S0]. rewrite S0. reflexivity.
  - rewrite Sk. split; reflexivity.
Qed.

(** * modify_patch / set_default_patch / write keep the invariant *)
Definition quiet (x : call) : bool :=
  match x with ModifyPatch _ _ _ | SetDefault _ _ | Write => true | _ => false end.

Lemma good_modify tb s n' k set : Good tb s ->
  Good tb (with_rank (with_lists s (verts s) (blocks s) (modify tb (patches s) n' k set))
                     (if has_patch (patches s) n' then prank s else rank_add (prank s) n')).
Proof.
  intro G. destruct G as [Ga Gn Gd Go Gl Gr Gs Gg].
  set (s' := with_rank _ _).
  assert (Sk : skel tb s' = skel tb s) by reflexivity.
  assert (Pu : pushed s' = pushed s) by reflexivity.
  constructor.
  - exact Ga.
  - cbn [patches s' with_rank with_lists]. rewrite names_modify. destruct (has_patch (patches s) n') eqn:E; [exact Gn|].
    apply nodup_snoc; [exact Gn|]. intro X. apply has_patch_in in X. congruence.
  - intros n p F M. cbn [patches s' with_rank with_lists] in F. rewrite pfind_modify in F.
    destruct (n' =? n); [inversion F; subst; discriminate|]. apply (Gd n p F M).
  - intros n p F. cbn [patches s' with_rank with_lists] in F. rewrite pfind_modify in F. rewrite Pu.
    destruct (n' =? n); [inversion F; subst; left; reflexivity|]. apply (Go n p F).
  - intros n Hin. rewrite Pu in Hin. cbn [patches s' with_rank with_lists]. unfold present. rewrite pfind_modify.
    destruct (n' =? n); [reflexivity|]. apply (Gl n Hin).
  - intros n Pr. cbn [patches prank s' with_rank with_lists] in *. unfold present in Pr. rewrite pfind_modify in Pr.
    destruct (n' =? n) eqn:E.
    + apply Nat.eqb_eq in E. subst n'. destruct (has_patch (patches s) n) eqn:Hp.
      * apply Gr. rewrite present_has. exact Hp.
      * apply rank_add_in.
    + assert (mem n (prank s) = true) as X by (apply Gr; exact Pr).
      destruct (has_patch (patches s) n'); [exact X|apply rank_add_mono; exact X].
  - intro n. rewrite Sk. cbn [patches s' with_rank with_lists]. rewrite <- (Gs n). unfold eff at 1. rewrite pfind_modify.
    destruct (n' =? n) eqn:E; [reflexivity|]. reflexivity.
  - rewrite Sk. exact Gg.
Qed.

Lemma good_step tb s x s' ev : Good tb s -> quiet x = true -> step fixed tb s x = Ok s' ev -> Good tb s'.
Proof.
  intros G Q H. destruct x; try discriminate; simpl in H.
  - inversion H. subst. apply good_modify. exact G.
  - inversion H. subst. destruct G as [Ga Gn Gd Go Gl Gr Gs Gg]. constructor; assumption.
  - destruct (write_shape _ _ _ _ _ _ H) as [p [_ Hs]]. destruct G as [Ga Gn Gd Go Gl Gr Gs Gg].
    rewrite Ga in Hs. subst s'. constructor; try assumption.
    destruct Gg as [G1 G2]. split; [exact G1|].
    change (map pblk (store_gr p (blocks s)) = map pblk (snd (fst (skel tb s)))). rewrite pblk_store. exact G2.
Qed.

Lemma good_steps tb : forall h s s', Good tb s -> forallb quiet h = true -> steps fixed tb s h = Some s' -> Good tb s'.
Proof.
  induction h as [|x r IH]; intros s s' G Q H; simpl in H.
  - inversion H. subst. exact G.
  - simpl in Q. apply andb_true_iff in Q. destruct Q as [Qx Qr].
    destruct (step fixed tb s x) as [s1 ev|] eqn:S; [|discriminate].
    apply (IH s1 s' (good_step tb s x s1 ev G Qx S) Qr H).
Qed.

(** * the file *)
Definition rblock (b : blk) := (b_verts b, blk_counts b, blk_printed b).

Definition rcanon (p : Propagate.st) (i : nat) (pb : Propagate.blk) :=
  rblock {| b_src := 0; b_verts := Propagate.verts pb; b_chops := Propagate.uchops pb;
            b_wg := C12_Regrade.tab_g p i; b_ax := [] |}.

Lemma rblock_imap p bs0 B : forall i,
  map rblock (imap (fun i b => {| b_src := b_src b; b_verts := b_verts b; b_chops := b_chops b;
                                  b_wg := C12_Regrade.tab_g p i; b_ax := C12_Regrade.tab_a bs0 p i |}) i B)
  = imap (rcanon p) i (map pblk B).
Proof. induction B as [|b r IH]; intro i; simpl; [reflexivity|]. f_equal. apply IH. Qed.

Lemma rblock_store p B : map rblock (store_gr p B) = imap (rcanon p) 0 (map pblk B).
Proof. unfold store_gr. apply rblock_imap. Qed.

Lemma rblock_store_ext p B B' : map pblk B = map pblk B' -> map rblock (store_gr p B) = map rblock (store_gr p B').
Proof. intro H. rewrite !rblock_store, H. reflexivity. Qed.

Definition core (p : pat) := (p_name p, p_kind p, p_set p, p_sides p).

Lemma by_rank_core r ps ps' :
  (forall n, option_map core (pfind ps n) = option_map core (pfind ps' n)) ->
  map core (by_rank r ps) = map core (by_rank r ps').
Proof.
  intro H. unfold by_rank. induction r as [|n r IH]; simpl; [reflexivity|].
  rewrite !map_app, IH. f_equal. specialize (H n).
  destruct (pfind ps n), (pfind ps' n); simpl in *; try discriminate; [|reflexivity].
  congruence.
Qed.

Definition same_result (a b : outcome) : Prop :=
  match a, b with
  | Ok _ e1, Ok _ e2 => e1 = e2
  | Err x, Err y => x = y
  | _, _ => False
  end.

Theorem good_roundtrip tb s : Good tb s ->
  same_result (write fixed tb (clear fixed s)) (write fixed tb s).
Proof.
  intro G. destruct G as [Ga Gn Gd Go Gl Gr Gs Gg].
  destruct (skel tb s) as [[V1 B1] pu] eqn:S. cbn [fst snd] in Gs, Gg. destruct Gg as [Gv Gb].
  pose proof (skel_names tb (slaves s) (live_ops s) [] [] [] V1 B1 pu S) as Hnames. simpl in Hnames.
  (* the cleared state and its assembly *)
  set (c := clear fixed s).
  assert (Hc : clean c) by apply clear_clean.
  assert (Sc : skel tb c = (V1, B1, pu)) by exact S.
  pose proof (assemble_shape tb c V1 B1 pu Hc Sc) as Ac.
  assert (Pc : patches c = mods (patches s)) by reflexivity.
  assert (Rk : asm_rank (patches c) (live_ops c) (prank c) = prank s).
  { rewrite asm_rank_eq. apply rank_fold_fix. intros n Hn. right. apply Gr. apply Gl. exact Hn. }
  rewrite Rk in Ac.
  set (Pr := push_all tb pu (patches c)) in *.
  (* patch by patch *)
  assert (HP : forall n, option_map core (pfind Pr n) = option_map core (pfind (patches s) n)).
  { intro n.
    assert (Pres : present Pr n = present (patches s) n).
    { unfold Pr. rewrite present_push_all, Pc. unfold present at 1. rewrite (pfind_mods _ n Gn).
      destruct (pfind (patches s) n) as [p|] eqn:F.
      - unfold present. rewrite F. destruct (p_mod p) eqn:M; [reflexivity|]. simpl.
        destruct (Go n p F) as [X|X]; [congruence|]. apply mem_in. rewrite Hnames. exact X.
      - unfold present. rewrite F. simpl. destruct (mem n (map fst pu)) eqn:E; [|reflexivity].
        apply mem_in in E. rewrite Hnames in E. apply Gl in E. unfold present in E. rewrite F in E. discriminate. }
    unfold present in Pres.
    destruct (pfind Pr n) as [pr|] eqn:Fr; destruct (pfind (patches s) n) as [ps|] eqn:Fs; try discriminate; [|reflexivity].
    simpl. f_equal.
    assert (Er : eff tb Pr n = pr) by (unfold eff; rewrite Fr; reflexivity).
    assert (Es : eff tb (patches s) n = ps) by (unfold eff; rewrite Fs; reflexivity).
    pose proof (ks_push_all tb pu (patches c) n) as K. fold Pr in K. rewrite Er in K.
    assert (Sd : p_sides pr = p_sides ps).
    { rewrite <- Er, <- Es, (Gs n). unfold Pr. apply sides_push_all. rewrite Pc. unfold eff.
      rewrite (pfind_mods _ n Gn), Fs. destruct (p_mod ps); reflexivity. }
    assert (Kk : p_kind pr = p_kind ps /\ p_set pr = p_set ps).
    { rewrite Pc in K. unfold eff in K. rewrite (pfind_mods _ n Gn), Fs in K. destruct (p_mod ps) eqn:M.
      - unfold ks in K. simpl in K. inversion K. auto.
      - unfold ks in K. simpl in K. inversion K. destruct (Gd n ps Fs M) as [D1 D2]. rewrite D1, D2. auto. }
    destruct Kk as [K1 K2]. unfold core. rewrite (pfind_name _ _ _ Fr), (pfind_name _ _ _ Fs), K1, K2, Sd. reflexivity. }
  (* the two writes *)
  unfold write, write_with. cbv zeta.
  assert (Nc : is_assembled c = false) by reflexivity.
  assert (Aa : is_assembled (with_rank (with_lists c V1 B1 Pr) (prank s)) = true).
  { unfold is_assembled in *. cbn [verts with_rank with_lists]. rewrite <- Gv. exact Ga. }
  rewrite Nc, Ga. cbv iota. rewrite Ac, Aa, Ga. cbn [negb]. cbv iota. cbn [blocks with_rank with_lists].
  unfold grade_cfg. cbn [fx_reset fixed].
  rewrite <- Gb. set (bs := map pblk (blocks s)).
  rewrite (C12_Regrade.grade_state_independent bs (fst (ins_oracle bs)) (snd (ins_oracle bs)) (gstate B1) (gstate (blocks s))).
  destruct (C12_Regrade.grade bs _ _ _) as [p| | | |]; try reflexivity.
  cbn [same_result]. f_equal. f_equal. unfold render. cbn [fx_rank fixed verts blocks patches prank dflt merged with_rank with_lists].
  f_equal.
  - rewrite Gv. reflexivity.
  - change (map rblock (store_gr p B1) = map rblock (store_gr p (blocks s))). apply rblock_store_ext. symmetry. exact Gb.
  - change (map core (by_rank (prank s) Pr) = map core (by_rank (prank s) (patches s))). apply by_rank_core. exact HP.
Qed.

(** every state a history leads to: the patch names are distinct and ranked *)
Lemma step_wf tb s x s' ev : step fixed tb s x = Ok s' ev -> pnodup s -> ranked s -> pnodup s' /\ ranked s'.
Proof.
  intros H Hn Hr.
  assert (Asm : forall t, pnodup t -> ranked t -> pnodup (assemble tb t) /\ ranked (assemble tb t)).
  { intros t Tn Tr. unfold assemble, pnodup, ranked.
    destruct (asm_all tb (slaves t) (live_ops t) (verts t, blocks t, patches t)) as [[V B] P] eqn:A.
    destruct (fold_left (skel_op tb (slaves t)) (live_ops t) (verts t, blocks t, [])) as [[V1 B1] pu] eqn:S.
    pose proof (asm_all_decomp tb (slaves t) (live_ops t) (verts t) (blocks t) [] V1 B1 pu S (patches t)) as D.
    change (push_all tb [] (patches t)) with (patches t) in D. rewrite A in D. inversion D. subst V B P.
    pose proof (skel_names tb (slaves t) (live_ops t) _ _ [] V1 B1 pu S) as Hnames. simpl in Hnames.
    cbn [patches prank with_rank with_lists]. split; [apply nodup_push_all; exact Tn|].
    intros n Pr. rewrite present_push_all in Pr. rewrite asm_rank_eq. destruct (has_patch (patches t) n) eqn:Hp.
    - apply rank_fold_mono. apply Tr. rewrite present_has. exact Hp.
    - rewrite present_has, Hp in Pr. simpl in Pr. apply rank_fold_covers; [|exact Hp].
      rewrite <- Hnames. apply mem_in. exact Pr. }
  assert (Clr : forall t, pnodup t -> ranked t -> pnodup (clear fixed t) /\ ranked (clear fixed t)).
  { intros t Tn Tr. unfold pnodup, ranked. cbn [clear patches prank with_lists]. rewrite clear_patches_fixed.
    split; [apply nodup_mods; exact Tn|]. intros n Pr. apply Tr. unfold present in *. rewrite (pfind_mods _ n Tn) in Pr.
    destruct (pfind (patches t) n); [reflexivity|discriminate]. }
  destruct x; simpl in H; try (inversion H; subst; split; assumption).
  - inversion H. subst. apply Asm; assumption.
  - unfold backport in H. destruct (is_assembled s); simpl in H; [|discriminate]. inversion H. subst.
    apply Asm; apply Clr; assumption.
  - inversion H. subst. apply Clr; assumption.
  - inversion H. subst. unfold pnodup, ranked. cbn [patches prank with_rank with_lists]. split.
    + rewrite names_modify. destruct (has_patch (patches s) n) eqn:E; [exact Hn|].
      apply nodup_snoc; [exact Hn|]. intro X. apply has_patch_in in X. congruence.
    + intros m Pr. unfold present in Pr. rewrite pfind_modify in Pr. destruct (n =? m) eqn:E.
      * apply Nat.eqb_eq in E. subst m. destruct (has_patch (patches s) n) eqn:Hp.
        -- apply Hr. rewrite present_has. exact Hp.
        -- apply rank_add_in.
      * assert (mem m (prank s) = true) as X by (apply Hr; exact Pr).
        destruct (has_patch (patches s) n); [exact X|apply rank_add_mono; exact X].
  - destruct (write_shape _ _ _ _ _ _ H) as [p [_ Hs]]. subst s'. unfold pnodup, ranked. cbn [patches prank with_lists].
    destruct (is_assembled s); [split; assumption|]. apply Asm; assumption.
Qed.

Lemma steps_wf tb : forall h s s', steps fixed tb s h = Some s' -> pnodup s -> ranked s -> pnodup s' /\ ranked s'.
Proof.
  induction h as [|x r IH]; intros s s' H Hn Hr; simpl in H.
  - inversion H. subst. auto.
  - destruct (step fixed tb s x) as [s1 ev|] eqn:S; [|discriminate].
    destruct (step_wf tb s x s1 ev S Hn Hr) as [A B]. apply (IH s1 s' H A B).
Qed.

(** * the round trip on every state a history leads to *)
Theorem roundtrip_reachable tb store h0 s0 h s :
  steps fixed tb (init store) h0 = Some s0 ->
  is_assembled (assemble tb (clear fixed s0)) = true ->
  steps fixed tb (assemble tb (clear fixed s0)) h = Some s -> forallb quiet h = true ->
  same_result (write fixed tb (clear fixed s)) (write fixed tb s).
Proof.
  intros H0 Ha H Q.
  assert (W0 : pnodup (init store) /\ ranked (init store)).
  { split; [constructor|]. intros n Pr. discriminate. }
  destruct W0 as [N0 R0]. destruct (steps_wf tb h0 _ _ H0 N0 R0) as [N1 R1].
  destruct (step_wf tb s0 Clear (clear fixed s0) [] eq_refl N1 R1) as [N2 R2].
  apply good_roundtrip. apply (good_steps tb h (assemble tb (clear fixed s0)) s); [|exact Q|exact H].
  apply good_assemble; [apply clear_clean|exact N2|exact R2|exact Ha].
Qed.
