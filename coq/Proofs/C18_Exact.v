(** C18 - exact evaluation of the real-valued finder models on dyadic inputs.

    The correspondence gives the models the binary64 numbers of the implementation, read as the exact
    reals they denote: integer mantissas at a common unit [u] (positions, radius, TOL) and, for the
    plane normal, at a unit [un] of its own.  The lemmas below show that on such inputs the
    real-valued models of Model/C18_Finder.v ([in_sphere_b], [is_point_on_plane], with their square
    roots and divisions) are decided by integer arithmetic; the case files evaluate the integer side
    with [vm_compute]. *)
From Coq Require Import Reals Lra Psatz List Bool ZArith Lia.
From CB Require Import Base.Vec3 Model.C18_Finder Proofs.C18_Finder.
Import ListNotations.

Open Scope Z_scope.

Definition z_in_sphere (p : zvec) (r : Z) (v : zvec) : bool := (0 <? r) && (zdist2 v p <? r * r).

Definition z_on_plane (T : Z) (o n v : zvec) : bool :=
  let d := zdot (zsub v o) n in d * d <? T * T * zdot n n.

Open Scope R_scope.

Lemma bool_eq_iff (a b : bool) : (a = true <-> b = true) -> a = b.
Proof. destruct a, b; intros [H1 H2]; try reflexivity; [symmetry; apply H1; reflexivity|apply H2; reflexivity]. Qed.

Lemma z_in_sphere_exact u p r v : 0 < u ->
  in_sphere_b (zR u p) (IZR r * u) (zR u v) = z_in_sphere p r v.
Proof.
  intros Hu. unfold in_sphere_b, z_in_sphere. destruct (Z.ltb_spec 0 r) as [Hr|Hr]; simpl.
  - apply bool_eq_iff. rewrite Rltb_true_iff, Z.ltb_lt, norm_vsub_dist. symmetry. apply znear_real; assumption.
  - apply Rltb_false. apply Rle_trans with 0; [|apply norm_nonneg].
    apply IZR_le in Hr. nra.
Qed.

Lemma dot_zR u un a n : dot (zR u a) (zR un n) = IZR (zdot a n) * (u * un).
Proof.
  destruct a as [[a1 a2] a3], n as [[n1 n2] n3]. unfold zdot, zR.
  rewrite !plus_IZR, !mult_IZR. vec_simpl. ring.
Qed.

Lemma vsub_zR u a b : vsub (zR u a) (zR u b) = zR u (zsub a b).
Proof.
  destruct a as [[a1 a2] a3], b as [[b1 b2] b3]. unfold zsub, zR. rewrite !minus_IZR. apply vec_eq; vec_simpl; ring.
Qed.

Lemma sq_lt_iff a b : 0 <= a -> 0 <= b -> (a < b <-> a * a < b * b).
Proof. intros Ha Hb. split; intros H; nra. Qed.

Lemma z_on_plane_exact u un T o n v : 0 < u -> 0 < un -> (0 < T)%Z -> (0 < zdot n n)%Z ->
  is_point_on_plane (IZR T * u) (zR u o) (zR un n) (zR u v) = z_on_plane T o n v.
Proof.
  intros Hu Hun HT Hnn.
  assert (HN2 : norm2 (zR un n) = IZR (zdot n n) * (un * un)) by (unfold norm2; apply dot_zR).
  assert (HN2pos : 0 < norm2 (zR un n)).
  { rewrite HN2. apply Rmult_lt_0_compat; [apply IZR_lt; exact Hnn|nra]. }
  pose proof (norm_pos_of_norm2 _ HN2pos) as HN.
  apply bool_eq_iff. rewrite (is_point_on_plane_spec _ _ _ _ HN). unfold z_on_plane, plane_dist.
  rewrite Z.ltb_lt, vsub_zR, dot_zR.
  set (D := zdot (zsub v o) n). set (N := norm (zR un n)) in *.
  assert (HNN : N * N = IZR (zdot n n) * (un * un)) by (unfold N; rewrite norm_sq; exact HN2).
  assert (HTr : 0 < IZR T) by (apply IZR_lt; exact HT).
  assert (E1 : Rabs (IZR D * (u * un)) = Rabs (IZR D) * (u * un)).
  { rewrite Rabs_mult. f_equal. apply Rabs_pos_eq. nra. }
  rewrite E1.
  assert (Hiff1 : Rabs (IZR D) * (u * un) / N < IZR T * u <-> Rabs (IZR D) * un < IZR T * N).
  { split; intros H.
    - apply Rmult_lt_reg_r with (u / N); [apply Rdiv_lt_0_compat; assumption|].
      replace (Rabs (IZR D) * un * (u / N)) with (Rabs (IZR D) * (u * un) / N) by (field; lra).
      replace (IZR T * N * (u / N)) with (IZR T * u) by (field; lra). exact H.
    - apply Rmult_lt_reg_r with (N / u); [apply Rdiv_lt_0_compat; assumption|].
      replace (Rabs (IZR D) * (u * un) / N * (N / u)) with (Rabs (IZR D) * un) by (field; lra).
      replace (IZR T * u * (N / u)) with (IZR T * N) by (field; lra). exact H. }
  rewrite Hiff1.
  assert (Hp1 : 0 <= Rabs (IZR D) * un) by (apply Rmult_le_pos; [apply Rabs_pos|lra]).
  assert (Hp2 : 0 <= IZR T * N) by (apply Rmult_le_pos; lra).
  rewrite (sq_lt_iff _ _ Hp1 Hp2).
  replace (Rabs (IZR D) * un * (Rabs (IZR D) * un)) with (IZR (D * D) * (un * un))
    by (rewrite mult_IZR; pose proof (Rsqr_abs (IZR D)) as Hs; unfold Rsqr in Hs; rewrite Hs; ring).
  replace (IZR T * N * (IZR T * N)) with (IZR (T * T * zdot n n) * (un * un))
    by (rewrite !mult_IZR; transitivity (IZR T * IZR T * (IZR (zdot n n) * (un * un))); [ring|rewrite <- HNN; ring]).
  assert (Huu : 0 < un * un) by nra. split; intros H.
  - apply lt_IZR. apply Rmult_lt_reg_r with (un * un); assumption.
  - apply Rmult_lt_compat_r; [exact Huu|]. apply IZR_lt. exact H.
Qed.

(** * evaluators for the correspondence case files *)
Open Scope Z_scope.

Fixpoint bool_list_eqb (a b : list bool) : bool :=
  match a, b with
  | [], [] => true
  | x :: a', y :: b' => Bool.eqb x y && bool_list_eqb a' b'
  | _, _ => false
  end.

(** (centre, radius, vertices, membership in the returned set) *)
Definition sphere_case_ok (c : zvec * Z * list zvec * list bool) : bool :=
  let '(p, r, vs, mask) := c in bool_list_eqb (map (z_in_sphere p r) vs) mask.

(** (TOL, origin, normal, vertices, membership in the returned set) *)
Definition plane_case_ok (c : Z * zvec * zvec * list zvec * list bool) : bool :=
  let '(T, o, n, vs, mask) := c in
  (0 <? T) && (0 <? zdot n n) && bool_list_eqb (map (z_on_plane T o n) vs) mask.
