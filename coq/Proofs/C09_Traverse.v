(** C09 - the traversal functions that the call-log correspondence ties to the code ([method_visits],
    [list_visits]) make exactly the leaf calls of [visits], about which the commutation theorems speak;
    what they add is the unobservable bookkeeping of Operation.invert (row reversal, sense of an angle). *)
From Coq Require Import Reals List Bool Arith.
From CB Require Import Base.Vec3 Model.C09_Transform.
Import ListNotations.

Section node_ind2.
  Variable P : node -> Prop.
  Hypothesis HP : forall i, P (NPoint i).
  Hypothesis HA : forall i, P (NArray i).
  Hypothesis HX : forall i, P (NAngle i).
  Hypothesis HG : forall l, Forall P l -> P (NGroup l).
  Hypothesis HO : forall b t s, P b -> P t -> Forall P s -> P (NOper b t s).
  Fixpoint node_ind2 (n : node) : P n :=
    match n with
    | NPoint i => HP i
    | NArray i => HA i
    | NAngle i => HX i
    | NGroup l => HG l ((fix go (l : list node) : Forall P l :=
                           match l with [] => Forall_nil P | x :: r => Forall_cons x (node_ind2 x) (go r) end) l)
    | NOper b t s => HO b t s (node_ind2 b) (node_ind2 t)
                        ((fix go (l : list node) : Forall P l :=
                            match l with [] => Forall_nil P | x :: r => Forall_cons x (node_ind2 x) (go r) end) s)
    end.
End node_ind2.

Lemma leaves_group l : leaves (NGroup l) = flat_map leaves l.
Proof. induction l as [|x r IH]; [reflexivity|]. simpl in *. rewrite IH. reflexivity. Qed.

Lemma leaves_oper b t s : leaves (NOper b t s) = leaves b ++ leaves t ++ flat_map leaves s.
Proof.
  change (leaves (NOper b t s)) with (leaves b ++ leaves t ++ leaves (NGroup s)). rewrite leaves_group. reflexivity.
Qed.

Lemma visits_group k l : visits k (NGroup l) = flat_map (visits k) l.
Proof.
  unfold visits. rewrite leaves_group. induction l as [|x r IH]; [reflexivity|].
  simpl. rewrite flat_map_app, IH. reflexivity.
Qed.

Lemma visits_oper k b t s : visits k (NOper b t s) = visits k b ++ visits k t ++ flat_map (visits k) s.
Proof.
  unfold visits. rewrite leaves_oper, !flat_map_app. do 2 f_equal.
  induction s as [|x r IH]; [reflexivity|]. simpl. rewrite flat_map_app, IH. reflexivity.
Qed.

Lemma method_group k l : method_visits k (NGroup l) = flat_map (method_visits k) l.
Proof. induction l as [|x r IH]; [reflexivity|]. simpl in *. rewrite IH. reflexivity. Qed.

Lemma filter_flat_map {A B} (p : B -> bool) (f : A -> list B) l :
  filter p (flat_map f l) = flat_map (fun x => filter p (f x)) l.
Proof. induction l as [|x r IH]; [reflexivity|]. simpl. rewrite filter_app, IH. reflexivity. Qed.

Lemma flat_map_nil {A B} (f : A -> list B) l : (forall x, f x = []) -> flat_map f l = [].
Proof. intro H. induction l as [|x r IH]; [reflexivity|]. simpl. rewrite H, IH. reflexivity. Qed.

Lemma flat_map_id_ext {A B} (f g : A -> list B) l : (forall x, f x = g x) -> flat_map f l = flat_map g l.
Proof. intro H. induction l as [|x r IH]; [reflexivity|]. simpl. rewrite H, IH. reflexivity. Qed.

Lemma leaf_visits_observable k rl : filter observable (leaf_visits k rl) = leaf_visits k rl.
Proof. destruct rl as [[| |] i], k; reflexivity. Qed.

Lemma visits_observable k n : filter observable (visits k n) = visits k n.
Proof.
  unfold visits. rewrite filter_flat_map. apply flat_map_id_ext. intro x. apply leaf_visits_observable.
Qed.

Lemma reverse_visits_unobservable n : filter observable (reverse_visits n) = [].
Proof.
  unfold reverse_visits. rewrite filter_flat_map. apply flat_map_nil. intros [[| |] i]; reflexivity.
Qed.

Lemma sides_reverse_unobservable s : filter observable (sides_reverse_visits s) = [].
Proof.
  induction s as [|x r IH]; [reflexivity|]. simpl in *. rewrite filter_app, IH, reverse_visits_unobservable. reflexivity.
Qed.

Lemma flat_map_ext_Forall {A B} (f g : A -> list B) l : Forall (fun x => f x = g x) l -> flat_map f l = flat_map g l.
Proof. induction 1 as [|x r E _ IH]; [reflexivity|]. simpl. rewrite E, IH. reflexivity. Qed.

(** entity.translate/rotate/scale/mirror(...): the leaf method calls are those of [visits], in the same order *)
Theorem method_visits_observable k n : filter observable (method_visits k n) = visits k n.
Proof.
  induction n as [i|i|i|l IH|b t s _ _ _] using node_ind2; try (cbn [method_visits]; apply visits_observable).
  - rewrite method_group, visits_group, filter_flat_map. apply flat_map_ext_Forall. exact IH.
  - change (method_visits k (NOper b t s))
      with (visits k (NOper b t s) ++ match k with KMirror => sides_reverse_visits s | _ => [] end).
    rewrite filter_app, visits_observable.
    destruct k; simpl; rewrite ?sides_reverse_unobservable, app_nil_r; reflexivity.
Qed.

(** without a reflection nothing else happens at all *)
Theorem method_visits_nonmirror k n : k <> KMirror -> method_visits k n = visits k n.
Proof.
  intro Hk. induction n as [i|i|i|l IH|b t s _ _ _] using node_ind2; try reflexivity.
  - rewrite method_group, visits_group. apply flat_map_ext_Forall. exact IH.
  - change (method_visits k (NOper b t s))
      with (visits k (NOper b t s) ++ match k with KMirror => sides_reverse_visits s | _ => [] end).
    destruct k; try apply app_nil_r. contradiction.
Qed.

(** entity.transform([...]) (fix C09-9): each list item is the method call on the entity itself; only an operation
    transformed through a list is not inverted by a listed Mirror *)
Definition top_oper (n : node) : bool := match n with NOper _ _ _ => true | _ => false end.

Theorem list_visits_method k n : top_oper n = false -> list_visits k n = method_visits k n /\ list_tree k n = method_tree k n.
Proof. destruct n; intro H; try discriminate H; split; reflexivity. Qed.

Theorem list_visits_oper k b t s :
  list_visits k (NOper b t s) = visits k (NOper b t s) /\ list_tree k (NOper b t s) = NOper b t s.
Proof. split; reflexivity. Qed.

(** the same leaf calls as [visits], for every entity (a bare Angle included: Angle.translate/scale do nothing,
    Angle.rotate/mirror turn the axis about the zero origin) *)
Theorem list_visits_observable k n : filter observable (list_visits k n) = visits k n.
Proof.
  destruct n as [i|i|i|l|b t s]; cbn [list_visits]; try apply method_visits_observable.
  apply visits_observable.
Qed.

Theorem list_visits_nonmirror k n : k <> KMirror -> list_visits k n = visits k n.
Proof.
  intro Hk. destruct n as [i|i|i|l|b t s]; cbn [list_visits]; try (apply method_visits_nonmirror; exact Hk).
  reflexivity.
Qed.

(** a transformation list applied to a bare Angle: exactly the calls of Angle.translate/rotate/scale/mirror *)
Theorem list_visits_angle k i : list_visits k (NAngle i) = visits k (NAngle i).
Proof. reflexivity. Qed.
