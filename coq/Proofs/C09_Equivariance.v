(** C09 - output geometry computed from transformed positions = transformed output geometry:
    distances and polyline lengths scale by |ratio|; the third point of `origin` and `angle` arcs is
    equivariant under every similarity (the axis taken as a direction with the sense of the map). *)
From Coq Require Import Reals Lra Psatz List.
From CB Require Import Base.Vec3 Model.C09_Transform Proofs.C09_Leaves.
Import ListNotations.
Open Scope R_scope.

Section Similarity.
  Variables (L : vec -> vec) (k sg : R) (b : vec).
  Hypothesis HS : simil L k sg.
  Let A (p : vec) : vec := vadd (L p) b.
  (** direction quantities: sg/k times the linear part ( = sg Q ) *)
  Let D (a : vec) : vec := vscale (sg / k) (L a).

  Lemma kabs_pos : 0 < Rabs k.
  Proof. apply Rabs_pos_lt. exact (s_k _ _ _ HS). Qed.

  Lemma L_sub x y : L (vsub x y) = vsub (L x) (L y).
  Proof.
    replace (vsub x y) with (vadd x (vscale (-1) y)) by (destruct x as [[? ?] ?], y as [[? ?] ?]; vec_ring).
    rewrite (s_add _ _ _ HS), (s_scale _ _ _ HS).
    destruct (L x) as [[? ?] ?], (L y) as [[? ?] ?]. vec_ring.
  Qed.

  Lemma A_sub x y : vsub (A x) (A y) = L (vsub x y).
  Proof.
    rewrite L_sub. unfold A. destruct (L x) as [[? ?] ?], (L y) as [[? ?] ?], b as [[? ?] ?]. vec_ring.
  Qed.

  Lemma norm_L x : norm (L x) = Rabs k * norm x.
  Proof.
    unfold norm, norm2. rewrite (s_dot _ _ _ HS).
    rewrite sqrt_mult_alt by nra. f_equal.
    replace (k * k) with (k ^ 2) by ring. rewrite <- Rsqr_pow2. apply sqrt_Rsqr_abs.
  Qed.

  (** distances (straight edges) scale by |ratio| *)
  Theorem dist_scaled x y : norm (vsub (A x) (A y)) = Rabs k * norm (vsub x y).
  Proof. rewrite A_sub. apply norm_L. Qed.

  Lemma unitv_L x : unitv (L x) = vscale (/ Rabs k) (L (unitv x)).
  Proof.
    unfold unitv. rewrite norm_L. rewrite (s_scale _ _ _ HS). rewrite Rinv_mult.
    destruct (L x) as [[? ?] ?]. vec_ring.
  Qed.

  Lemma A_mid p1 p2 : vscale (/ 2) (vadd (A p1) (A p2)) = A (vscale (/ 2) (vadd p1 p2)).
  Proof.
    unfold A. rewrite (s_scale _ _ _ HS), (s_add _ _ _ HS).
    destruct (L p1) as [[? ?] ?], (L p2) as [[? ?] ?], b as [[? ?] ?]. apply vec_eq; vec_simpl; field.
  Qed.

  (** arc_mid: the point of an arc (given by its centre) half way between its ends *)
  Theorem arc_mid_equivariant c p1 p2 : arc_mid (A c) (A p1) (A p2) = A (arc_mid c p1 p2).
  Proof.
    unfold arc_mid. rewrite A_mid. rewrite !A_sub. rewrite norm_L, unitv_L.
    unfold A at 2. rewrite (s_add _ _ _ HS), (s_scale _ _ _ HS).
    pose proof kabs_pos as Hk.
    set (m := vscale (/ 2) (vadd p1 p2)).
    unfold A. destruct (L c) as [[? ?] ?], (L (unitv (vsub m c))) as [[? ?] ?], b as [[? ?] ?].
    apply vec_eq; vec_simpl; field; lra.
  Qed.

  (** `origin` arcs (equidistant centre): the centre is a position *)
  Theorem arc_from_origin_equivariant p1 p2 c :
    arc_from_origin (A p1) (A p2) (A c) = A (arc_from_origin p1 p2 c).
  Proof. unfold arc_from_origin. apply arc_mid_equivariant. Qed.

  Lemma sg_sq : sg * sg = 1.
  Proof. destruct (s_sg _ _ _ HS) as [-> | ->]; ring. Qed.

  Lemma cross_L_D x a : cross (L x) (D a) = L (cross x a).
  Proof.
    unfold D. pose proof (s_k _ _ _ HS) as Hk. pose proof sg_sq as Hs.
    replace (cross (L x) (vscale (sg / k) (L a))) with (vscale (sg / k) (cross (L x) (L a)))
      by (destruct (L x) as [[? ?] ?], (L a) as [[? ?] ?]; vec_ring).
    rewrite (s_cross _ _ _ HS).
    destruct (L (cross x a)) as [[p q] w]. apply vec_eq; vec_simpl.
    - replace (sg / k * (k * sg * p)) with (sg * sg * p) by (field; exact Hk). rewrite Hs. ring.
    - replace (sg / k * (k * sg * q)) with (sg * sg * q) by (field; exact Hk). rewrite Hs. ring.
    - replace (sg / k * (k * sg * w)) with (sg * sg * w) by (field; exact Hk). rewrite Hs. ring.
  Qed.

  Lemma dot_L_D x a : dot (L x) (D a) = sg * k * dot x a.
  Proof.
    unfold D. pose proof (s_k _ _ _ HS) as Hk.
    replace (dot (L x) (vscale (sg / k) (L a))) with (sg / k * dot (L x) (L a))
      by (destruct (L x) as [[? ?] ?], (L a) as [[? ?] ?]; vec_simpl; ring).
    rewrite (s_dot _ _ _ HS). field. exact Hk.
  Qed.

  Lemma scale_D len a : vscale (sg * k * len) (D a) = L (vscale len a).
  Proof.
    unfold D. rewrite (s_scale _ _ _ HS). pose proof (s_k _ _ _ HS) as Hk. pose proof sg_sq as Hs.
    destruct (L a) as [[p q] w]. apply vec_eq; vec_simpl.
    - replace (sg * k * len * (sg / k * p)) with (sg * sg * (len * p)) by (field; exact Hk). rewrite Hs. ring.
    - replace (sg * k * len * (sg / k * q)) with (sg * sg * (len * q)) by (field; exact Hk). rewrite Hs. ring.
    - replace (sg * k * len * (sg / k * w)) with (sg * sg * (len * w)) by (field; exact Hk). rewrite Hs. ring.
  Qed.

  (** `angle` arcs: the centre computed from the transformed ends and the transformed *direction* *)
  Theorem theta_center_equivariant p1 p2 t2 a :
    theta_center (A p1) (A p2) t2 (D a) = A (theta_center p1 p2 t2 a).
  Proof.
    unfold theta_center. rewrite A_mid, !A_sub, cross_L_D, dot_L_D.
    set (dp := vsub p2 p1). set (len := dot dp a).
    rewrite scale_D.
    replace (vscale (sg * k * len / 2) (D a)) with (L (vscale (len / 2) a)).
    2:{ rewrite <- scale_D. f_equal. field. }
    rewrite <- L_sub. rewrite norm_L, unitv_L.
    set (pm := vscale (/ 2) (vadd p1 p2)). set (ch := vsub dp (vscale len a)). set (rm := unitv (cross dp a)).
    pose proof kabs_pos as Hk.
    unfold A. rewrite !L_sub. rewrite !(s_scale _ _ _ HS).
    destruct (L pm) as [[? ?] ?], (L a) as [[? ?] ?], (L rm) as [[? ?] ?], b as [[? ?] ?].
    apply vec_eq; vec_simpl.
    - replace (Rabs k * norm ch / 2 / t2 * (/ Rabs k * r5)) with (norm ch / 2 / t2 * r5 * (Rabs k * / Rabs k)) by (unfold Rdiv; ring).
      rewrite Rinv_r by lra. ring.
    - replace (Rabs k * norm ch / 2 / t2 * (/ Rabs k * r6)) with (norm ch / 2 / t2 * r6 * (Rabs k * / Rabs k)) by (unfold Rdiv; ring).
      rewrite Rinv_r by lra. ring.
    - replace (Rabs k * norm ch / 2 / t2 * (/ Rabs k * r7)) with (norm ch / 2 / t2 * r7 * (Rabs k * / Rabs k)) by (unfold Rdiv; ring).
      rewrite Rinv_r by lra. ring.
  Qed.

  Theorem arc_from_theta_equivariant p1 p2 t2 a :
    arc_from_theta (A p1) (A p2) t2 (D a) = A (arc_from_theta p1 p2 t2 a).
  Proof. unfold arc_from_theta. rewrite theta_center_equivariant. apply arc_mid_equivariant. Qed.

  (** spline / polyLine / discrete curves: the length of the point list scales by |ratio| *)
  Theorem polyline_length_scaled l : polyline_length (map A l) = Rabs k * polyline_length l.
  Proof.
    induction l as [|x [|y r] IH]; simpl.
    - ring.
    - ring.
    - simpl in IH. rewrite IH. rewrite dist_scaled. ring.
  Qed.
End Similarity.

(** reversing an edge: the arc of an `angle` edge is the same when ends are swapped and the axis flipped,
    provided the axis is perpendicular to the chord (Operation.invert on Revolve-like side edges) *)
(** (the radius is measured from the first end by the code, hence the explicit hypothesis) *)
Theorem arc_from_theta_reversed p1 p2 t2 a :
  dot (vsub p2 p1) a = 0 ->
  norm (vsub (theta_center p1 p2 t2 a) p2) = norm (vsub (theta_center p1 p2 t2 a) p1) ->
  arc_from_theta p2 p1 t2 (vopp a) = arc_from_theta p1 p2 t2 a.
Proof.
  intros H Hr. unfold arc_from_theta.
  assert (Hc : theta_center p2 p1 t2 (vopp a) = theta_center p1 p2 t2 a).
  { unfold theta_center.
    assert (E1 : cross (vsub p1 p2) (vopp a) = cross (vsub p2 p1) a)
      by (destruct p1 as [[? ?] ?], p2 as [[? ?] ?], a as [[? ?] ?]; vec_ring).
    assert (E2 : dot (vsub p1 p2) (vopp a) = dot (vsub p2 p1) a)
      by (destruct p1 as [[? ?] ?], p2 as [[? ?] ?], a as [[? ?] ?]; vec_simpl; ring).
    rewrite E1, E2, H.
    assert (E3 : vadd p2 p1 = vadd p1 p2) by (destruct p1 as [[? ?] ?], p2 as [[? ?] ?]; vec_ring).
    rewrite E3.
    assert (E4 : norm (vsub (vsub p1 p2) (vscale 0 (vopp a))) = norm (vsub (vsub p2 p1) (vscale 0 a))).
    { unfold norm. f_equal. destruct p1 as [[? ?] ?], p2 as [[? ?] ?], a as [[? ?] ?]. vec_simpl. ring. }
    rewrite E4.
    replace (vscale (0 / 2) (vopp a)) with (vscale (0 / 2) a)
      by (destruct a as [[? ?] ?]; apply vec_eq; vec_simpl; unfold Rdiv; ring).
    reflexivity. }
  rewrite Hc. unfold arc_mid.
  assert (E3 : vadd p2 p1 = vadd p1 p2) by (destruct p1 as [[? ?] ?], p2 as [[? ?] ?]; vec_ring).
  rewrite E3, Hr. reflexivity.
Qed.
