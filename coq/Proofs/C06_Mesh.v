(** C06 - theorems about the assembly model (Model/C06_Mesh.v), for every mesh:
    indices are valid, every boundary / projected quad is the [fm]-side of a block, blocks are the
    non-deleted operations in order, the VTK lists the same points and hexahedra. *)
From Coq Require Import List Bool Arith ZArith QArith Qabs Qround String Lia Lqa.
From CB Require Import Base.Hex Model.C06_Render Model.C06_Mesh.
Import ListNotations.
Open Scope nat_scope.

(** ** vertex list *)
Lemma find_vtx_bound vs p k sl : forall i0 i, find_vtx vs p k sl i0 = Some i -> i < i0 + List.length vs.
Proof.
  induction vs as [|v vs IH]; simpl; intros i0 i H; [discriminate|].
  destruct (if key_near k (x_key v) then if near p (x_pos v) then str_set_eqb (x_slaves v) sl else false else false).
  - inversion H. lia.
  - apply IH in H. lia.
Qed.

Lemma add_vtx_spec vs p ls sl vs' i :
  add_vtx vs p ls sl = (vs', i) -> i < List.length vs' /\ List.length vs <= List.length vs'.
Proof.
  unfold add_vtx. destruct (find_vtx vs p (key_pt p) sl 0) as [j|] eqn:E; intro H; inversion H; subst.
  - apply find_vtx_bound in E. simpl in E. lia.
  - rewrite app_length. simpl. lia.
Qed.

Definition corner_step (slaves : list string) (o : op) (acc : list vtx * list nat) (c : nat) : list vtx * list nat :=
  let '(vs, ids) := acc in
  let '(vs', i) := add_vtx vs (nth c (o_pts o) zero_pt) (corner_labels (o_calls o) c) (corner_slaves (o_calls o) slaves c) in
  (vs', ids ++ [i]).

Lemma add_corners_fold slaves o vs : add_corners slaves o vs = fold_left (corner_step slaves o) corners (vs, []).
Proof. reflexivity. Qed.

Lemma corner_fold_spec slaves o cs : forall vs ids vs' ids',
  fold_left (corner_step slaves o) cs (vs, ids) = (vs', ids') ->
  Forall (fun i => i < List.length vs) ids ->
  List.length vs <= List.length vs' /\ Forall (fun i => i < List.length vs') ids'
  /\ List.length ids' = List.length ids + List.length cs.
Proof.
  induction cs as [|c cs IH]; simpl; intros vs ids vs' ids' H Hids.
  - inversion H; subst. repeat split; [lia|assumption|lia].
  - destruct (add_vtx vs (nth c (o_pts o) zero_pt) (corner_labels (o_calls o) c) (corner_slaves (o_calls o) slaves c))
      as [vs1 i] eqn:E.
    apply add_vtx_spec in E. destruct E as [E1 E2].
    apply IH in H.
    + destruct H as (H1 & H2 & H3). repeat split; [lia|assumption|]. rewrite H3, app_length. simpl. lia.
    + apply Forall_app. split.
      * eapply Forall_impl; [|exact Hids]. simpl. intros; lia.
      * constructor; [exact E1|constructor].
Qed.

Lemma add_corners_spec slaves o vs vs' vids :
  add_corners slaves o vs = (vs', vids) ->
  List.length vs <= List.length vs' /\ Forall (fun i => i < List.length vs') vids /\ List.length vids = 8.
Proof.
  rewrite add_corners_fold. intro H. apply corner_fold_spec in H; [|constructor].
  destruct H as (H1 & H2 & H3). repeat split; assumption.
Qed.

(** ** patches and faces only ever receive sides of blocks *)
Section Good.
  Variable G : list nat -> Prop.

  Definition patches_good (ps : list apatch) : Prop := forall p, In p ps -> forall qd, In qd (p_quads p) -> G qd.
  Definition faces_good (fs : list (list nat * string)) : Prop := forall f, In f fs -> G (fst f).

  Lemma patches_update_good ps n f :
    patches_good ps ->
    (forall p, (forall qd, In qd (p_quads p) -> G qd) -> forall qd, In qd (p_quads (f p)) -> G qd) ->
    patches_good (patches_update ps n f).
  Proof.
    intros Hps Hf. induction ps as [|p ps IH]; simpl.
    - intros p' [<-|[]] qd Hq. eapply Hf; [|exact Hq]. simpl. tauto.
    - destruct (String.eqb (p_name p) n).
      + intros p' [<-|Hin] qd Hq.
        * eapply Hf; [|exact Hq]. intros; eapply Hps; [left; reflexivity|assumption].
        * eapply Hps; [right; exact Hin|exact Hq].
      + intros p' [<-|Hin] qd Hq.
        * eapply Hps; [left; reflexivity|exact Hq].
        * eapply IH; [|exact Hin|exact Hq]. intros p0 H0. apply Hps. right. exact H0.
  Qed.

  Lemma patch_add_side_good p qd0 : G qd0 ->
    (forall qd, In qd (p_quads p) -> G qd) -> forall qd, In qd (p_quads (patch_add_side p qd0)) -> G qd.
  Proof.
    intros H0 Hp qd. unfold patch_add_side. destruct (existsb (quad_same qd0) (p_quads p)); simpl; [apply Hp|].
    intro H. apply in_app_or in H. destruct H as [H|[<-|[]]]; [apply Hp; exact H|exact H0].
  Qed.

  Lemma patch_modify_good ps m : patches_good ps -> patches_good (patch_modify ps m).
  Proof.
    destruct m as [[n k] st]. intro H. apply patches_update_good; [exact H|]. intros p Hp qd Hq. simpl in Hq. auto.
  Qed.

  Lemma fold_modify_good ms : forall ps, patches_good ps -> patches_good (fold_left patch_modify ms ps).
  Proof. induction ms as [|m ms IH]; simpl; intros ps H; [exact H|]. apply IH, patch_modify_good, H. Qed.

  Lemma add_patches_good fm o vids ps :
    (forall s, G (side_quad fm vids s)) -> patches_good ps -> patches_good (add_patches fm o vids ps).
  Proof.
    intros Hs. unfold add_patches. generalize patch_order. intro l. revert ps.
    induction l as [|s l IH]; simpl; intros ps H; [exact H|].
    apply IH. destruct (patch_of (o_calls o) s); [|exact H].
    apply patches_update_good; [exact H|]. intros p Hp. apply patch_add_side_good; [apply Hs|exact Hp].
  Qed.

  Lemma faces_add_good fs qd l : G qd -> faces_good fs -> faces_good (faces_add fs qd l).
  Proof.
    intros H0 H. unfold faces_add. destruct (existsb (fun f => quad_same (fst f) qd) fs); [exact H|].
    intros f Hf. apply in_app_or in Hf. destruct Hf as [Hf|[<-|[]]]; [apply H; exact Hf|exact H0].
  Qed.

  Lemma add_faces_good fm o vids fs :
    (forall s, G (side_quad fm vids s)) -> faces_good fs -> faces_good (add_faces fm o vids fs).
  Proof.
    intros Hs. unfold add_faces. generalize face_order. intro l. revert fs.
    induction l as [|s l IH]; simpl; intros fs H; [exact H|].
    apply IH. destruct (pface_of (o_calls o) s); [|exact H]. apply faces_add_good; [apply Hs|exact H].
  Qed.
End Good.

(** ** the invariant of the assembly *)
Definition good (fm : side -> list nat) (bs : list ablock) (qd : list nat) : Prop :=
  exists b s, In b bs /\ qd = side_quad fm (b_vids b) s.

Lemma good_mono fm bs bs' qd : good fm bs qd -> good fm (bs ++ bs') qd.
Proof. intros (b & s & Hb & E). exists b, s. split; [apply in_or_app; left; exact Hb|exact E]. Qed.

Record inv (fm : side -> list nat) (st : asm) : Prop := {
  inv_blocks : forall b, In b (a_blocks st) ->
               List.length (b_vids b) = 8 /\ Forall (fun i => i < List.length (a_verts st)) (b_vids b);
  inv_patches : patches_good (good fm (a_blocks st)) (a_patches st);
  inv_faces : faces_good (good fm (a_blocks st)) (a_faces st)
}.

Lemma patches_good_impl (G G' : list nat -> Prop) ps :
  (forall qd, G qd -> G' qd) -> patches_good G ps -> patches_good G' ps.
Proof. intros H Hp p Hin qd Hq. apply H. eapply Hp; eassumption. Qed.
Lemma faces_good_impl (G G' : list nat -> Prop) fs :
  (forall qd, G qd -> G' qd) -> faces_good G fs -> faces_good G' fs.
Proof. intros H Hp f Hin. apply H. apply Hp. exact Hin. Qed.

Lemma add_op_inv fm slaves st o : inv fm st -> inv fm (add_op fm slaves st o).
Proof.
  intros [Hb Hp Hf]. unfold add_op. destruct (o_deleted o); [constructor; assumption|].
  destruct (add_corners slaves o (a_verts st)) as [vs vids] eqn:E.
  apply add_corners_spec in E. destruct E as (E1 & E2 & E3).
  destruct (grading_of (o_wires o)) as [kw gs].
  set (nb := mkBlock vids (zone_of (o_zone o)) (o_counts o) kw gs).
  assert (Hnew : forall s, good fm (a_blocks st ++ [nb]) (side_quad fm vids s)).
  { intro s. exists nb, s. split; [apply in_or_app; right; left; reflexivity|reflexivity]. }
  constructor; simpl.
  - intros b Hin. apply in_app_or in Hin. destruct Hin as [Hin|[<-|[]]].
    + destruct (Hb b Hin) as [H1 H2]. split; [exact H1|]. eapply Forall_impl; [|exact H2]. simpl. intros; lia.
    + simpl. split; assumption.
  - apply add_patches_good; [exact Hnew|]. eapply patches_good_impl; [|exact Hp]. intros. apply good_mono. assumption.
  - apply add_faces_good; [exact Hnew|]. eapply faces_good_impl; [|exact Hf]. intros. apply good_mono. assumption.
Qed.

Lemma fold_add_op_inv fm slaves ops : forall st, inv fm st -> inv fm (fold_left (add_op fm slaves) ops st).
Proof. induction ops as [|o ops IH]; simpl; intros st H; [exact H|]. apply IH, add_op_inv, H. Qed.

Lemma add_entity_inv fm slaves st e : inv fm st -> inv fm (add_entity fm slaves st e).
Proof.
  intro H. unfold add_entity. assert (H' := fold_add_op_inv fm slaves (e_ops e) st H).
  destruct (e_geom e); [|exact H']. destruct H' as [A B C]. constructor; assumption.
Qed.

Lemma fold_add_entity_inv fm slaves es : forall st, inv fm st -> inv fm (fold_left (add_entity fm slaves) es st).
Proof. induction es as [|e es IH]; simpl; intros st H; [exact H|]. apply IH, add_entity_inv, H. Qed.

Lemma assemble_inv fm m : inv fm (assemble fm m).
Proof.
  unfold assemble.
  set (st0 := mkAsm [] [] (fold_left patch_modify (m_modify_pre m) []) [] (fold_left geom_merge (m_geometry m) [])).
  assert (H0 : inv fm st0).
  { constructor; simpl.
    - intros b [].
    - apply fold_modify_good. intros p [].
    - intros f []. }
  assert (H1 := fold_add_entity_inv fm (map snd (m_merged m)) (m_depot m) st0 H0).
  destruct H1 as [A B C]. constructor; simpl; [exact A| |exact C].
  apply fold_modify_good. exact B.
Qed.

(** ** the theorems *)
Definition fm_ok (fm : side -> list nat) : Prop := forall s, is_side_cycle s (fm s) = true.

Lemma fm_ok_valid fm s c : fm_ok fm -> In c (fm s) -> c < 8.
Proof.
  intros H Hc. specialize (H s). unfold is_side_cycle in H.
  destruct (fm s) as [|a [|b [|c0 [|d [|]]]]]; try discriminate.
  do 4 (apply andb_true_iff in H; destruct H as [H _]).
  apply andb_true_iff in H. destruct H as [_ H].
  rewrite forallb_forall in H. specialize (H c Hc). unfold on_side in H.
  apply andb_true_iff in H. destruct H as [H _]. unfold valid in H. apply Nat.ltb_lt in H. exact H.
Qed.

Lemma side_quad_bound fm vids s n :
  fm_ok fm -> List.length vids = 8 -> Forall (fun i => i < n) vids -> Forall (fun i => i < n) (side_quad fm vids s).
Proof.
  intros Hfm Hl Hv. unfold side_quad. apply Forall_forall. intros x Hx.
  apply in_map_iff in Hx. destruct Hx as (c & <- & Hc).
  rewrite Forall_forall in Hv. apply Hv. apply nth_In. rewrite Hl. eapply fm_ok_valid; eassumption.
Qed.

Lemma forallb_ltb l n : Forall (fun i => i < n) l -> forallb (fun i => i <? n) l = true.
Proof. intro H. apply forallb_forall. intros x Hx. rewrite Forall_forall in H. apply Nat.ltb_lt. auto. Qed.

Theorem indices_valid fm m : fm_ok fm -> indices_ok (ast_of fm m) = true.
Proof.
  intro Hfm. destruct (assemble_inv fm m) as [Hb Hp Hf].
  unfold indices_ok, ast_of. simpl. rewrite map_length.
  repeat (apply andb_true_iff; split).
  - apply forallb_forall. intros b Hin. apply forallb_ltb. apply Hb. exact Hin.
  - apply forallb_forall. intros f Hin. apply forallb_ltb.
    destruct (Hf f Hin) as (b & s & Hbin & E). rewrite E.
    destruct (Hb b Hbin) as [H1 H2]. apply side_quad_bound; assumption.
  - apply forallb_forall. intros p Hin. apply forallb_forall. intros qd Hq. apply forallb_ltb.
    destruct (Hp p Hin qd Hq) as (b & s & Hbin & E). rewrite E.
    destruct (Hb b Hbin) as [H1 H2]. apply side_quad_bound; assumption.
Qed.

(** every boundary quad and every projected quad is the image, under the block's eight vertex
    indexes, of a proper corner cycle of one side of the reference hexahedron *)
Definition is_block_side (f : afile) (qd : list nat) : Prop :=
  exists b s cyc, In b (f_blocks f) /\ is_side_cycle s cyc = true /\ qd = map (fun c => nth c (b_vids b) 0) cyc.

Theorem quads_are_sides fm m : fm_ok fm ->
  (forall p qd, In p (f_patches (ast_of fm m)) -> In qd (p_quads p) -> is_block_side (ast_of fm m) qd)
  /\ (forall qd l, In (qd, l) (f_faces (ast_of fm m)) -> is_block_side (ast_of fm m) qd).
Proof.
  intro Hfm. destruct (assemble_inv fm m) as [Hb Hp Hf]. split.
  - intros p qd Hin Hq. destruct (Hp p Hin qd Hq) as (b & s & Hbin & E).
    exists b, s, (fm s). repeat split; [exact Hbin|apply Hfm|exact E].
  - intros qd l Hin. destruct (Hf (qd, l) Hin) as (b & s & Hbin & E).
    exists b, s, (fm s). repeat split; [exact Hbin|apply Hfm|exact E].
Qed.

(** hex entries: one per non-deleted operation, in depot order, with its zone and counts; every
    entry has eight indexes *)
Definition live_ops (m : mesh) : list op := filter (fun o => negb (o_deleted o)) (flat_map e_ops (m_depot m)).

Lemma add_op_blocks fm slaves st o :
  map (fun b => (b_zone b, b_counts b)) (a_blocks (add_op fm slaves st o))
  = map (fun b => (b_zone b, b_counts b)) (a_blocks st)
    ++ (if o_deleted o then [] else [(zone_of (o_zone o), o_counts o)]).
Proof.
  unfold add_op. destruct (o_deleted o); [rewrite app_nil_r; reflexivity|].
  destruct (add_corners slaves o (a_verts st)) as [vs vids]. destruct (grading_of (o_wires o)) as [kw gs].
  simpl. rewrite map_app. reflexivity.
Qed.

Lemma fold_add_op_blocks fm slaves ops : forall st,
  map (fun b => (b_zone b, b_counts b)) (a_blocks (fold_left (add_op fm slaves) ops st))
  = map (fun b => (b_zone b, b_counts b)) (a_blocks st)
    ++ map (fun o => (zone_of (o_zone o), o_counts o)) (filter (fun o => negb (o_deleted o)) ops).
Proof.
  induction ops as [|o ops IH]; simpl; intro st; [rewrite app_nil_r; reflexivity|].
  rewrite IH, add_op_blocks. rewrite <- app_assoc. destruct (o_deleted o); reflexivity.
Qed.

Lemma add_entity_blocks fm slaves st e :
  a_blocks (add_entity fm slaves st e) = a_blocks (fold_left (add_op fm slaves) (e_ops e) st).
Proof. unfold add_entity. destruct (e_geom e); reflexivity. Qed.

Lemma fold_add_entity_blocks fm slaves es : forall st,
  map (fun b => (b_zone b, b_counts b)) (a_blocks (fold_left (add_entity fm slaves) es st))
  = map (fun b => (b_zone b, b_counts b)) (a_blocks st)
    ++ map (fun o => (zone_of (o_zone o), o_counts o)) (filter (fun o => negb (o_deleted o)) (flat_map e_ops es)).
Proof.
  induction es as [|e es IH]; simpl; intro st; [rewrite app_nil_r; reflexivity|].
  rewrite IH, add_entity_blocks, fold_add_op_blocks. rewrite <- app_assoc.
  rewrite filter_app, map_app. reflexivity.
Qed.

Theorem blocks_are_live_ops fm m :
  map (fun b => (b_zone b, b_counts b)) (f_blocks (ast_of fm m))
  = map (fun o => (zone_of (o_zone o), o_counts o)) (live_ops m)
  /\ forall b, In b (f_blocks (ast_of fm m)) -> List.length (b_vids b) = 8.
Proof.
  split.
  - unfold ast_of, assemble, live_ops. simpl. rewrite fold_add_entity_blocks. reflexivity.
  - intros b Hin. destruct (assemble_inv fm m) as [Hb _ _]. apply Hb. exact Hin.
Qed.

(** merged pairs, default patch, settings and header are written as declared *)
Theorem declarations_verbatim fm m :
  f_merged (ast_of fm m) = m_merged m /\ f_default (ast_of fm m) = m_default m
  /\ f_settings (ast_of fm m) = settings_of (m_settings m) /\ f_header (ast_of fm m) = m_header m.
Proof. repeat split. Qed.

(** the debug VTK lists the points of the vertices section and the hexahedra of the blocks section *)
Theorem vtk_same fm m :
  fst (vtk_of fm m) = map v_pos (f_vertices (ast_of fm m))
  /\ snd (vtk_of fm m) = map b_vids (f_blocks (ast_of fm m)).
Proof. unfold vtk_of, ast_of. simpl. rewrite map_map. split; reflexivity. Qed.

(** ** blockMesh's edge numbering *)
Definition key_of_pair (e : nat * nat) : nat * nat := (Nat.min (fst e) (snd e), Nat.max (fst e) (snd e)).
Definition pair_nat_eqb (a b : nat * nat) : bool := (fst a =? fst b) && (snd a =? snd b).

Lemma edge_order :
  List.length of_edges = 12
  /\ (forall a e, a < 3 -> In e (firstn 4 (skipn (4 * a) of_edges)) ->
        edge_axis (fst e) (snd e) = Some a /\ edge_positive (fst e) (snd e) = true)
  /\ (forall i j, i < 12 -> j < 12 -> i <> j ->
        key_of_pair (nth i of_edges (0, 0)) <> key_of_pair (nth j of_edges (0, 0))).
Proof.
  split; [reflexivity|]. split.
  - intros a e Ha Hin.
    destruct a as [|[|[|a]]]; [| | |lia]; simpl in Hin;
      repeat (destruct Hin as [<-|Hin]; [vm_compute; split; reflexivity|]); destruct Hin.
  - intros i j Hi Hj Hne E.
    assert (H : forallb (fun i => forallb (fun j => (i =? j) || negb (pair_nat_eqb (key_of_pair (nth i of_edges (0, 0))) (key_of_pair (nth j of_edges (0, 0))))) (seq 0 12)) (seq 0 12) = true)
      by (vm_compute; reflexivity).
    rewrite forallb_forall in H. specialize (H i). rewrite in_seq in H. specialize (H (conj (Nat.le_0_l i) Hi)).
    rewrite forallb_forall in H. specialize (H j). rewrite in_seq in H. specialize (H (conj (Nat.le_0_l j) Hj)).
    apply orb_true_iff in H. destruct H as [H|H].
    + apply Nat.eqb_eq in H. contradiction.
    + rewrite E in H. unfold pair_nat_eqb in H. rewrite !Nat.eqb_refl in H. discriminate.
Qed.

(** ** the evaluation shortcut of [find_vtx] is sound: it computes the plain first-match search *)
Section Keys.
Local Open Scope Q_scope.
Lemma sq_lt_abs (x t : Q) : 0 <= t -> x * x < t * t -> Qabs x < t.
Proof.
  intros Ht H. destruct (Qlt_le_dec (Qabs x) t) as [L|L]; [exact L|exfalso].
  assert (H2 : t * t <= Qabs x * Qabs x).
  { apply Qmult_le_compat_nonneg; split; assumption. }
  assert (E : Qabs x * Qabs x == x * x).
  { rewrite <- Qabs_Qmult. apply Qabs_pos. nra. }
  rewrite E in H2. apply (Qlt_irrefl (x*x)). eapply Qlt_le_trans; eassumption.
Qed.

Lemma floor_close (x y : Q) : Qabs (x - y) < 1 -> (Z.abs (Qfloor x - Qfloor y) <= 1)%Z.
Proof.
  intro H. apply Qabs_Qlt_condition in H. destruct H as [H1 H2].
  assert (Fx := Qfloor_le x). assert (Fy := Qfloor_le y).
  assert (Gx := Qlt_floor x). assert (Gy := Qlt_floor y).
  assert (A : (Qfloor x < Qfloor y + 2)%Z).
  { rewrite Zlt_Qlt. rewrite inject_Z_plus in *. change (inject_Z 1) with 1 in *. change (inject_Z 2) with 2. lra. }
  assert (B : (Qfloor y < Qfloor x + 2)%Z).
  { rewrite Zlt_Qlt. rewrite inject_Z_plus in *. change (inject_Z 1) with 1 in *. change (inject_Z 2) with 2. lra. }
  lia.
Qed.

Lemma sq_nonneg (x : Q) : 0 <= x * x.
Proof.
  destruct (Qlt_le_dec x 0) as [L|L].
  - assert (E : x * x == (- x) * (- x)) by ring. rewrite E. apply Qmult_le_0_compat; lra.
  - apply Qmult_le_0_compat; assumption.
Qed.

Definition tol1 : Q := 1 # 10000000.   (* TOL *)

Lemma key1_complete (a d : Q) : Qabs (a - d) < tol1 -> key1_near (key_of a) (key_of d) = true.
Proof.
  intro H. unfold key1_near, key_of. apply Z.leb_le. apply floor_close.
  assert (E : a * key_scale - d * key_scale == (a - d) * key_scale) by ring.
  rewrite E, Qabs_Qmult.
  assert (K : Qabs key_scale == key_scale) by reflexivity.
  rewrite K. unfold tol1, key_scale in *.
  assert (P := Qabs_nonneg (a - d)). nra.
Qed.

Lemma near_coords (p r : pt) : near p r = true ->
  let '(a, b, c) := p in let '(d, e, f) := r in
  Qabs (a - d) < tol1 /\ Qabs (b - e) < tol1 /\ Qabs (c - f) < tol1.
Proof.
  destruct p as [[a b] c], r as [[d e] f]. unfold near, sqd. intro H.
  apply negb_true_iff in H.
  assert (L : (a - d) * (a - d) + (b - e) * (b - e) + (c - f) * (c - f) < tol2).
  { destruct (Qlt_le_dec ((a - d) * (a - d) + (b - e) * (b - e) + (c - f) * (c - f)) tol2) as [L|L]; [exact L|].
    apply Qle_bool_iff in L. rewrite L in H. discriminate. }
  assert (T : tol2 == tol1 * tol1) by reflexivity.
  assert (S1 := sq_nonneg (a - d)).
  assert (S2 := sq_nonneg (b - e)).
  assert (S3 := sq_nonneg (c - f)).
  assert (T0 : 0 <= tol1) by (unfold tol1; lra).
  repeat split; apply sq_lt_abs; try exact T0; rewrite <- T; lra.
Qed.

Theorem key_near_complete (p r : pt) : near p r = true -> key_near (key_pt p) (key_pt r) = true.
Proof.
  intro H. apply near_coords in H. destruct p as [[a b] c], r as [[d e] f].
  destruct H as (H1 & H2 & H3). unfold key_near, key_pt.
  rewrite (key1_complete _ _ H1), (key1_complete _ _ H2), (key1_complete _ _ H3). reflexivity.
Qed.

End Keys.

Fixpoint find_vtx_spec (vs : list vtx) (p : pt) (sl : list string) (i : nat) : option nat :=
  match vs with
  | [] => None
  | v :: r => if near p (x_pos v) && str_set_eqb (x_slaves v) sl then Some i else find_vtx_spec r p sl (S i)
  end.

Definition keys_ok (vs : list vtx) : Prop := Forall (fun v => x_key v = key_pt (x_pos v)) vs.

Lemma find_vtx_is_spec vs p sl : keys_ok vs -> forall i, find_vtx vs p (key_pt p) sl i = find_vtx_spec vs p sl i.
Proof.
  induction 1 as [|v vs Hv Hvs IH]; intro i; simpl; [reflexivity|].
  rewrite Hv. destruct (near p (x_pos v)) eqn:En.
  - rewrite (key_near_complete _ _ En). simpl. destruct (str_set_eqb (x_slaves v) sl); [reflexivity|apply IH].
  - simpl. destruct (key_near (key_pt p) (key_pt (x_pos v))); apply IH.
Qed.

Lemma add_vtx_keys vs p ls sl : keys_ok vs -> keys_ok (fst (add_vtx vs p ls sl)).
Proof.
  intro H. unfold add_vtx. destruct (find_vtx vs p (key_pt p) sl 0); simpl; [exact H|].
  apply Forall_app. split; [exact H|]. constructor; [reflexivity|constructor].
Qed.
