(** C03 - inversion of a chop / a grading, and rejection of unrealisable parameter sets. *)
From Coq Require Import Reals ZArith List Bool Lra Lia Psatz.
From Flocq Require Import Core.Raux.
From CB Require Import Model.C03_Relations Proofs.C03_GeomSeries Proofs.C03_Relations Proofs.C03_Plans.
Import ListNotations.
Open Scope R_scope.

(** ** inversion *)
Lemma Reqb_intro_false a b : a <> b -> Reqb a b = false.
Proof. unfold Reqb. destruct (Req_EM_T a b); [contradiction|reflexivity]. Qed.

(** count <- (end, 1/r) on size v is count <- (start, r) on size v (away from the tolerance band) *)
Lemma x_end_start_inv tau L v r :
  0 <= tau -> 0 < v -> 0 < r -> tau < Rabs (r - 1) -> tau < Rabs (/ r - 1) ->
  x_end_c2c tau L v (/ r) = x_start_c2c tau L v r.
Proof.
  intros Htau Hv Hr Hb1 Hb2. unfold x_end_c2c, x_start_c2c.
  assert (Hq : 0 < / r) by (apply Rinv_0_lt_compat; assumption).
  rewrite (Rltb_intro 0 v) by assumption.
  rewrite (Reqb_intro_false v 0) by lra. rewrite (Reqb_intro_false r 0) by lra.
  rewrite (Rltb_intro tau (Rabs (r - 1))) by assumption.
  rewrite (Rltb_intro tau (Rabs (/ r - 1))) by assumption.
  rewrite (Rltb_intro 0 r) by assumption. rewrite (Rltb_intro 0 (/ r)) by assumption.
  replace (1 + L / v * (1 - / r) / / r) with (1 - L / v * (1 - r)) by (field; lra).
  simpl. destruct (valid_length L); simpl; [|reflexivity].
  destruct (Rltb 0 (1 - L / v * (1 - r))) eqn:HA; simpl; [|reflexivity].
  apply Rltb_true in HA. f_equal.
  replace (1 / (1 - L / v * (1 - r))) with (/ (1 - L / v * (1 - r))) by (unfold Rdiv; ring).
  rewrite !ln_Rinv by assumption. field. apply ln_ne_0; [assumption|].
  intros ->. replace (1 - 1) with 0 in Hb1 by ring. rewrite Rabs_R0 in Hb1. lra.
Qed.

Lemma count_end_start_inv tau L v r :
  0 <= tau -> 0 < v -> 0 < r -> tau < Rabs (r - 1) -> tau < Rabs (/ r - 1) ->
  count_end_c2c tau L v (/ r) = count_start_c2c tau L v r.
Proof. intros. unfold count_end_c2c, count_start_c2c. rewrite x_end_start_inv by assumption. reflexivity. Qed.

Lemma count_end_start_inv_uniform tau L v :
  0 < v -> 0 <= tau -> count_end_c2c tau L v (/ 1) = count_start_c2c tau L v 1.
Proof.
  intros Hv Htau. unfold count_end_c2c, count_start_c2c, x_end_c2c, x_start_c2c.
  rewrite Rinv_1. replace (1 - 1) with 0 by ring. rewrite Rabs_R0.
  rewrite (Rltb_intro_false tau 0) by assumption. rewrite (Rltb_intro 0 v) by assumption.
  rewrite (Reqb_intro_false v 0) by lra. rewrite (Reqb_intro_false 1 0) by lra. reflexivity.
Qed.

(** total <- (count, 1/r) = 1 / total <- (count, r) *)
Lemma total_count_c2c_inv L n r :
  r <> 0 -> total_count_c2c L n (/ r) = option_map Rinv (total_count_c2c L n r).
Proof.
  intros Hr. unfold total_count_c2c. destruct (valid_length L); simpl; [|reflexivity].
  destruct (1 <=? n)%Z eqn:Hn; simpl; [|reflexivity]. apply Z.leb_le in Hn.
  rewrite !powerRZ_nat by lia. rewrite pow_inv. reflexivity.
Qed.

(** c2c <- (count, 1/E) = 1 / c2c <- (count, E) *)
Lemma c2c_count_total_inv L n E :
  0 < E -> c2c_count_total L n (/ E) = option_map Rinv (c2c_count_total L n E).
Proof.
  intros HE. unfold c2c_count_total. destruct (valid_length L); simpl; [|reflexivity].
  destruct (1 <? n)%Z; simpl; [|reflexivity]. rewrite Rpower_inv_base by assumption. reflexivity.
Qed.

(** the defining equations of the two brentq ratios are mirror images, and have one solution *)
Lemma c2c_spec_mirror s L r (k : nat) :
  0 < r -> (1 <= k)%nat -> s * gsum r k = L -> s * gsum (/ r) k = L * (/ r) ^ (k - 1).
Proof.
  intros Hr Hk H. assert (Hq : 0 < / r) by (apply Rinv_0_lt_compat; assumption).
  pose proof (gsum_rev_n (/ r) k Hq Hk) as Hrev. rewrite Rinv_inv in Hrev.
  rewrite <- Hrev. rewrite <- H. ring.
Qed.

Lemma c2c_spec_mirror_unique s L r r' (k : nat) :
  0 < s -> 0 < r -> 0 < r' -> (2 <= k)%nat ->
  s * gsum r k = L -> s * gsum r' k = L * r' ^ (k - 1) -> r' = / r.
Proof.
  intros Hs Hr Hr' Hk H1 H2.
  assert (Hq : 0 < / r') by (apply Rinv_0_lt_compat; assumption).
  pose proof (gsum_rev_n r' k Hr' ltac:(lia)) as Hrev. rewrite <- Hrev in H2.
  assert (Hp : 0 < r' ^ (k - 1)) by (apply pow_lt; assumption).
  assert (H3 : s * gsum (/ r') k = L) by nra.
  assert (H4 : gsum (/ r') k = gsum r k) by nra.
  apply gsum_inj_r in H4; try assumption. rewrite <- H4. symmetry. apply Rinv_inv.
Qed.

(** the defining equation of count <- (total, start) under inversion: same root *)
Lemma Gcode_inv x E : 0 < E -> E <> 1 -> x <> 1 -> Gcode x (/ E) = Gcode x E / E.
Proof.
  intros HE HE1 Hx.
  assert (HiE : 0 < / E) by (apply Rinv_0_lt_compat; assumption).
  assert (HiE1 : / E <> 1). { intros Hc. apply HE1. rewrite <- (Rinv_inv E), Hc. apply Rinv_1. }
  rewrite !Gcode_alt by assumption. unfold Galt.
  rewrite Rpower_inv_base by assumption.
  assert (Hy : 1 / (x - 1) <> 0). { unfold Rdiv. rewrite Rmult_1_l. apply Rinv_neq_0_compat. lra. }
  pose proof (Rpower_ne_1 E _ HE HE1 Hy) as Hq. pose proof (Rpower_pos E (1 / (x - 1))) as Hq0.
  field. repeat split; lra.
Qed.

Lemma count_spec_mirror L E s x :
  0 < E -> E <> 1 -> x <> 1 -> 0 < s -> Gcode x E = L / s -> Gcode x (/ E) = L / (s * E).
Proof. intros HE HE1 Hx Hs H. rewrite Gcode_inv by assumption. rewrite H. field. lra. Qed.

(** ** Grading.inverted *)
Lemma inverted_cons a l : inverted (a :: l) = inverted l ++ [(fst (fst a), snd (fst a), / snd a)].
Proof. unfold inverted. simpl. rewrite map_app. reflexivity. Qed.

Lemma inverted_app l a : inverted (l ++ [a]) = (fst (fst a), snd (fst a), / snd a) :: inverted l.
Proof. unfold inverted. rewrite rev_app_distr. reflexivity. Qed.

Lemma inverted_involutive g : Forall (fun dv => snd dv <> 0) g -> inverted (inverted g) = g.
Proof.
  induction g as [|a g IH]; intros H; [reflexivity|].
  inversion H; subst. rewrite inverted_cons, inverted_app. rewrite IH by assumption.
  destruct a as [[lr n] E]. simpl in *. rewrite Rinv_inv. reflexivity.
Qed.

Lemma inverted_length g : length (inverted g) = length g.
Proof. unfold inverted. rewrite map_length, rev_length. reflexivity. Qed.

Lemma grading_cells_app L a b : grading_cells L (a ++ b) = grading_cells L a ++ grading_cells L b.
Proof. unfold grading_cells. apply flat_map_app. Qed.

(** blockMesh's cells of the inverted grading are the cells of the grading, read backwards *)
Lemma grading_cells_inverted L g :
  Forall (fun dv => 0 < snd dv) g -> grading_cells L (inverted g) = rev (grading_cells L g).
Proof.
  induction g as [|a g IH]; intros H; [reflexivity|].
  inversion H; subst. rewrite inverted_cons, grading_cells_app, IH by assumption.
  destruct a as [[lr n] E]. unfold grading_cells at 2 3. simpl in *. rewrite app_nil_r.
  rewrite rev_app_distr. f_equal. apply bm_cells_rev. assumption.
Qed.

(** ** rejection: [None] is "raises" *)
Lemma reject_length tau bq L :
  L <= 0 ->
  (forall n r, plan_count_c2c tau L n r = None) /\ (forall n E, plan_count_total tau L n E = None) /\
  (forall n s, plan_count_start tau bq L n s = None) /\ (forall n e, plan_count_end tau bq L n e = None) /\
  (forall s r, plan_start_c2c tau L s r = None) /\ (forall e r, plan_end_c2c tau L e r = None) /\
  (forall E r, plan_total_c2c tau L E r = None) /\ (forall E s, plan_total_start tau bq L E s = None) /\
  (forall E e, plan_total_end tau bq L E e = None) /\ (forall s e, plan_start_end tau bq L s e = None).
Proof.
  intros HL. pose proof (valid_length_false L HL) as Hv.
  repeat split; intros;
    unfold plan_count_c2c, plan_count_total, plan_count_start, plan_count_end, plan_start_c2c, plan_end_c2c,
      plan_total_c2c, plan_total_start, plan_total_end, plan_start_end,
      start_count_c2c, c2c_count_total, c2c_count_start, c2c_count_end, count_start_c2c, count_end_c2c,
      count_total_c2c, count_total_start, start_end_total, total_start_end, x_start_c2c, x_end_c2c, x_total_c2c;
    rewrite Hv; reflexivity.
Qed.

Lemma reject_sizes tau bq L :
  (forall n s, s <= 0 \/ L <= s -> plan_count_start tau bq L n s = None) /\
  (forall n e, e <= 0 -> plan_count_end tau bq L n e = None) /\
  (forall s r, s <= 0 -> plan_start_c2c tau L s r = None) /\
  (forall E s, s <= 0 -> plan_total_start tau bq L E s = None) /\
  (forall s e, s <= 0 \/ e <= 0 -> plan_start_end tau bq L s e = None).
Proof.
  repeat split; intros.
  - unfold plan_count_start, c2c_count_start. destruct (valid_length L); [|reflexivity].
    destruct (1 <=? n)%Z; [|reflexivity]. simpl.
    destruct H; [rewrite (Rltb_intro_false 0 s) by assumption; rewrite andb_false_r
                |rewrite (Rltb_intro_false s L) by assumption]; reflexivity.
  - unfold plan_count_end, c2c_count_end. destruct (valid_length L); [|reflexivity].
    destruct (1 <=? n)%Z; [|reflexivity]. simpl. rewrite (Rltb_intro_false 0 e) by assumption. reflexivity.
  - unfold plan_start_c2c, count_start_c2c, x_start_c2c. destruct (valid_length L); [|reflexivity].
    simpl. rewrite (Rltb_intro_false 0 s) by assumption. reflexivity.
  - unfold plan_total_start, count_total_start. destruct (valid_length L); [|reflexivity].
    simpl. rewrite (Rltb_intro_false 0 s) by assumption. reflexivity.
  - unfold plan_start_end, total_start_end. destruct (valid_length L); [|reflexivity]. simpl.
    destruct H; [rewrite (Rltb_intro_false 0 s) by assumption; reflexivity|].
    destruct (Rltb 0 s); [|reflexivity]. simpl. rewrite (Rltb_intro_false 0 e) by assumption. reflexivity.
Qed.

Lemma reject_ratios tau bq L :
  (forall n E, (n <= 1)%Z -> plan_count_total tau L n E = None) /\
  (forall n r, (n < 1)%Z -> plan_count_c2c tau L n r = None) /\
  (forall s r, r = 0 -> plan_start_c2c tau L s r = None) /\
  (forall s r, 0 < r -> r < 1 -> tau < Rabs (r - 1) -> 0 < s -> s / (1 - r) <= L -> plan_start_c2c tau L s r = None) /\
  (forall E r, E = 0 \/ Rabs (r - 1) <= tau -> plan_total_c2c tau L E r = None) /\
  (forall E s, E = 0 -> plan_total_start tau bq L E s = None) /\
  (forall E e, E = 0 -> plan_total_end tau bq L E e = None).
Proof.
  repeat split; intros.
  - unfold plan_count_total, c2c_count_total. destruct (valid_length L); [|reflexivity].
    assert ((1 <? n)%Z = false) as -> by (apply Z.ltb_ge; assumption). reflexivity.
  - unfold plan_count_c2c, start_count_c2c. destruct (valid_length L); [|reflexivity].
    assert ((1 <=? n)%Z = false) as -> by (apply Z.leb_gt; assumption). reflexivity.
  - subst r. unfold plan_start_c2c, count_start_c2c, x_start_c2c. destruct (valid_length L); [|reflexivity].
    simpl. destruct (Rltb 0 s); [|reflexivity]. simpl. unfold Reqb. destruct (Req_EM_T 0 0); [reflexivity|contradiction].
  - unfold plan_start_c2c, count_start_c2c, x_start_c2c. destruct (valid_length L); [|reflexivity].
    simpl. rewrite (Rltb_intro 0 s) by assumption. rewrite (Reqb_intro_false r 0) by lra. simpl.
    rewrite (Rltb_intro tau _) by assumption.
    assert (HA : 1 - L / s * (1 - r) <= 0).
    { assert (H5 : s <= L * (1 - r)).
      { apply Rmult_le_compat_r with (r := 1 - r) in H3; [|lra].
        replace (s / (1 - r) * (1 - r)) with s in H3 by (field; lra). assumption. }
      apply Rmult_le_compat_r with (r := / s) in H5; [|left; apply Rinv_0_lt_compat; assumption].
      replace (s * / s) with 1 in H5 by (field; lra). unfold Rdiv. lra. }
    rewrite (Rltb_intro_false 0 (1 - L / s * (1 - r))) by assumption. rewrite andb_false_r. reflexivity.
  - unfold plan_total_c2c, count_total_c2c, x_total_c2c. destruct (valid_length L); [|reflexivity]. simpl.
    destruct H as [->|H].
    + unfold Reqb. destruct (Req_EM_T 0 0); [reflexivity|contradiction].
    + destruct (negb (Reqb E 0)); [|reflexivity]. simpl. rewrite (Rltb_intro_false tau _) by assumption. reflexivity.
  - subst E. unfold plan_total_start, count_total_start. destruct (valid_length L); [|reflexivity]. simpl.
    destruct (Rltb 0 s); [|reflexivity]. simpl. unfold Reqb. destruct (Req_EM_T 0 0); [reflexivity|contradiction].
  - subst E. unfold plan_total_end, start_end_total. destruct (valid_length L); [|reflexivity]. simpl.
    unfold Reqb. destruct (Req_EM_T 0 0); [reflexivity|contradiction].
Qed.
