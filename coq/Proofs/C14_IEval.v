(** C14 - a verified interval evaluator for the quality model.

    The correspondence of the model with the implementation is decided inside Coq: for every case
    the harness writes the corner coordinates (exact dyadic values of the binary64 inputs), the
    value the implementation returned and a tolerance; [hex_case_ok] / [quad_case_ok] evaluate the
    model in floating-point interval arithmetic (the verified primitives of the Interval library,
    bigint mantissas, 90 bits) by [vm_compute] and the theorems [hex_case_ok_sound] /
    [quad_case_ok_sound] say that a [true] answer means |model - implementation| <= tolerance for
    the real-valued model of Model/C14_Quality.v.  (The [interval] tactic itself needs minutes
    for one cell because the unfolded term has no sharing.) *)
From Coq Require Import Reals ZArith List Bool Lra.
From Flocq Require Import Core.
From Interval Require Import Specific_bigint Specific_ops Float_full Interval Xreal Basic.
From CB Require Import Base.Vec3 Model.C14_Quality.
Import ListNotations.

Module F := SpecificFloat BigIntRadix2.
Module I := FloatIntervalFull F.

Definition prec : F.precision := F.PtoP 90.

Definition encl (i : I.type) (r : R) : Prop := contains (I.convert i) (Xreal r).

Lemma encl_nan i r : contains (I.convert i) Xnan -> encl i r.
Proof. unfold encl. destruct (I.convert i); simpl; [trivial | intros []]. Qed.

Definition iadd := I.add prec.
Definition isub := I.sub prec.
Definition imul := I.mul prec.
Definition idiv := I.div prec.
Definition iinv := I.inv prec.
Definition isqrt := I.sqrt prec.
Definition iatan := I.atan prec.
Definition iexp := I.exp prec.
Definition iln := I.ln prec.
Definition iabs := I.abs.
Definition iZ := I.fromZ prec.
Definition ipi := I.pi prec.

Open Scope R_scope.

Lemma encl_add i j a b : encl i a -> encl j b -> encl (iadd i j) (a + b).
Proof. intros H1 H2. exact (I.add_correct prec i j (Xreal a) (Xreal b) H1 H2). Qed.
Lemma encl_sub i j a b : encl i a -> encl j b -> encl (isub i j) (a - b).
Proof. intros H1 H2. exact (I.sub_correct prec i j (Xreal a) (Xreal b) H1 H2). Qed.
Lemma encl_mul i j a b : encl i a -> encl j b -> encl (imul i j) (a * b).
Proof. intros H1 H2. exact (I.mul_correct prec i j (Xreal a) (Xreal b) H1 H2). Qed.
Lemma encl_div i j a b : encl i a -> encl j b -> encl (idiv i j) (a / b).
Proof.
  intros H1 H2. pose proof (I.div_correct prec i j (Xreal a) (Xreal b) H1 H2) as D.
  simpl in D. unfold Xdiv' in D. destruct (is_zero b); [apply encl_nan; exact D | exact D].
Qed.
Lemma encl_inv i a : encl i a -> encl (iinv i) (/ a).
Proof.
  intros H1. pose proof (I.inv_correct prec i (Xreal a) H1) as D.
  simpl in D. unfold Xinv' in D. destruct (is_zero a); [apply encl_nan; exact D | exact D].
Qed.
Lemma encl_sqrt i a : encl i a -> encl (isqrt i) (sqrt a).
Proof. intros H1. exact (I.sqrt_correct prec i (Xreal a) H1). Qed.
Lemma encl_atan i a : encl i a -> encl (iatan i) (atan a).
Proof. intros H1. exact (I.atan_correct prec i (Xreal a) H1). Qed.
Lemma encl_exp i a : encl i a -> encl (iexp i) (exp a).
Proof. intros H1. exact (I.exp_correct prec i (Xreal a) H1). Qed.
Lemma encl_ln i a : encl i a -> encl (iln i) (ln a).
Proof.
  intros H1. pose proof (I.ln_correct prec i (Xreal a) H1) as D.
  simpl in D. unfold Xln' in D. destruct (is_positive a); [exact D | apply encl_nan; exact D].
Qed.
Lemma encl_abs i a : encl i a -> encl (iabs i) (Rabs a).
Proof. intros H1. exact (I.abs_correct i (Xreal a) H1). Qed.
Lemma encl_Z z : encl (iZ z) (IZR z).
Proof. exact (I.fromZ_correct prec z). Qed.
Lemma encl_pi : encl ipi PI.
Proof. exact (I.pi_correct prec). Qed.

(** dyadic literals *)
Definition idy (m e : Z) : I.type := imul (iZ m) (I.power_int prec (iZ 2) e).
Lemma encl_dy m e : encl (idy m e) (dy m e).
Proof.
  unfold idy, dy. apply encl_mul; [apply encl_Z|].
  pose proof (I.power_int_correct prec e (iZ 2) (Xreal (IZR 2)) (encl_Z 2)) as D.
  simpl in D. unfold Xpower_int' in D. unfold encl.
  destruct e as [|p|p]; simpl in *.
  - exact D.
  - exact D.
  - destruct (is_zero_spec 2) as [Hz|Hz]; [lra|]. exact D.
Qed.

(** ** vectors *)
Definition ivec := (I.type * I.type * I.type)%type.
Definition ix (v : ivec) := fst (fst v).
Definition iy (v : ivec) := snd (fst v).
Definition iz (v : ivec) := snd v.
Definition encl3 (iv : ivec) (v : vec) : Prop := encl (ix iv) (vx v) /\ encl (iy iv) (vy v) /\ encl (iz iv) (vz v).

Definition ivzero : ivec := (iZ 0, iZ 0, iZ 0).
Definition ivadd (a b : ivec) : ivec := (iadd (ix a) (ix b), iadd (iy a) (iy b), iadd (iz a) (iz b)).
Definition ivsub (a b : ivec) : ivec := (isub (ix a) (ix b), isub (iy a) (iy b), isub (iz a) (iz b)).
Definition ivscale (k : I.type) (a : ivec) : ivec := (imul k (ix a), imul k (iy a), imul k (iz a)).
Definition idot (a b : ivec) : I.type := iadd (iadd (imul (ix a) (ix b)) (imul (iy a) (iy b))) (imul (iz a) (iz b)).
Definition icross (a b : ivec) : ivec :=
  (isub (imul (iy a) (iz b)) (imul (iz a) (iy b)),
   isub (imul (iz a) (ix b)) (imul (ix a) (iz b)),
   isub (imul (ix a) (iy b)) (imul (iy a) (ix b))).
Definition inorm (a : ivec) : I.type := isqrt (idot a a).

Ltac e3 := unfold encl3 in *; simpl ix in *; simpl iy in *; simpl iz in *;
  repeat match goal with H : _ /\ _ |- _ => destruct H end.
Ltac enc1 :=
  lazymatch goal with
  | |- encl (iadd _ _) _ => apply encl_add
  | |- encl (isub _ _) _ => apply encl_sub
  | |- encl (imul _ _) _ => apply encl_mul
  | |- encl (idiv _ _) _ => apply encl_div
  | |- encl (iinv _) _ => apply encl_inv
  | |- encl (isqrt _) _ => apply encl_sqrt
  | |- encl (iatan _) _ => apply encl_atan
  | |- encl (iexp _) _ => apply encl_exp
  | |- encl (iln _) _ => apply encl_ln
  | |- encl (iabs _) _ => apply encl_abs
  | |- encl (iZ _) _ => apply encl_Z
  | |- encl ipi _ => apply encl_pi
  | |- encl (idy _ _) _ => apply encl_dy
  end.
Ltac enc := repeat first [ assumption | enc1 ].

Lemma encl3_zero : encl3 ivzero vzero.
Proof. unfold encl3, ivzero, vzero; repeat split; cbn [ix iy iz vx vy vz fst snd]; apply encl_Z. Qed.
Lemma encl3_add a b u v : encl3 a u -> encl3 b v -> encl3 (ivadd a b) (vadd u v).
Proof. intros. e3. unfold ivadd, vadd; repeat split; cbn [ix iy iz vx vy vz fst snd]; enc. Qed.
Lemma encl3_sub a b u v : encl3 a u -> encl3 b v -> encl3 (ivsub a b) (vsub u v).
Proof. intros. e3. unfold ivsub, vsub; repeat split; cbn [ix iy iz vx vy vz fst snd]; enc. Qed.
Lemma encl3_scale k a r u : encl k r -> encl3 a u -> encl3 (ivscale k a) (vscale r u).
Proof. intros. e3. unfold ivscale, vscale; repeat split; cbn [ix iy iz vx vy vz fst snd]; enc. Qed.
Lemma encl_dot a b u v : encl3 a u -> encl3 b v -> encl (idot a b) (dot u v).
Proof. intros. e3. unfold idot, dot. enc. Qed.
Lemma encl3_cross a b u v : encl3 a u -> encl3 b v -> encl3 (icross a b) (cross u v).
Proof. intros. e3. unfold icross, cross; repeat split; cbn [ix iy iz vx vy vz fst snd]; enc. Qed.
Lemma encl_norm a u : encl3 a u -> encl (inorm a) (norm u).
Proof. intros. unfold inorm, norm, norm2. apply encl_sqrt. apply encl_dot; assumption. Qed.

(** ** the mirrored model *)
Definition irmax (x y : I.type) := idiv (iadd (iadd x y) (iabs (isub x y))) (iZ 2).
Definition irmin (x y : I.type) := idiv (isub (iadd x y) (iabs (isub x y))) (iZ 2).
Lemma encl_rmax i j a b : encl i a -> encl j b -> encl (irmax i j) (rmax a b).
Proof. intros. unfold irmax, rmax. enc. Qed.
Lemma encl_rmin i j a b : encl i a -> encl j b -> encl (irmin i j) (rmin a b).
Proof. intros. unfold irmin, rmin. enc. Qed.

Definition ilmax (l : list I.type) := match l with [] => iZ 0 | x :: r => fold_right irmax x r end.
Definition ilmin (l : list I.type) := match l with [] => iZ 0 | x :: r => fold_right irmin x r end.
Definition irsum (l : list I.type) := fold_right iadd (iZ 0) l.

Lemma encl_fold_rmax li : forall l i0 r0, Forall2 encl li l -> encl i0 r0 ->
  encl (fold_right irmax i0 li) (fold_right rmax r0 l).
Proof. induction li; intros l i0 r0 H H0; inversion H; subst; simpl; [assumption|]. apply encl_rmax; auto. Qed.
Lemma encl_fold_rmin li : forall l i0 r0, Forall2 encl li l -> encl i0 r0 ->
  encl (fold_right irmin i0 li) (fold_right rmin r0 l).
Proof. induction li; intros l i0 r0 H H0; inversion H; subst; simpl; [assumption|]. apply encl_rmin; auto. Qed.
Lemma encl_lmax li l : Forall2 encl li l -> encl (ilmax li) (lmax l).
Proof. intros H. inversion H; subst; simpl; [apply encl_Z|]. apply encl_fold_rmax; assumption. Qed.
Lemma encl_lmin li l : Forall2 encl li l -> encl (ilmin li) (lmin l).
Proof. intros H. inversion H; subst; simpl; [apply encl_Z|]. apply encl_fold_rmin; assumption. Qed.
Lemma encl_rsum li l : Forall2 encl li l -> encl (irsum li) (rsum l).
Proof. induction 1; simpl; [apply encl_Z|]. apply encl_add; assumption. Qed.

Lemma Forall2_map_same {A B C} (R : B -> C -> Prop) (f : A -> B) (g : A -> C) (l : list A) :
  (forall x, R (f x) (g x)) -> Forall2 R (map f l) (map g l).
Proof. intros H. induction l; simpl; constructor; auto. Qed.

Definition imacos (x : I.type) := imul (iZ 2) (iatan (isqrt (idiv (isub (iZ 1) x) (iadd (iZ 1) x)))).
Lemma encl_macos i a : encl i a -> encl (imacos i) (macos a).
Proof. intros. unfold imacos, macos. enc. Qed.
Definition ideg (x : I.type) := idiv (imul (iZ 180) x) ipi.
Lemma encl_deg i a : encl i a -> encl (ideg i) (deg a).
Proof. intros. unfold ideg, deg. enc. Qed.

Definition iw := (I.type * I.type * I.type)%type.
Definition enclw (w : iw) (r : R * R * R) : Prop :=
  encl (fst (fst w)) (fst (fst r)) /\ encl (snd (fst w)) (snd (fst r)) /\ encl (snd w) (snd r).
Definition iqs (w : iw) (v : I.type) : I.type :=
  let '(b, e, f) := w in isub (imul f (iexp (imul (imul e v) (iln b)))) f.
Lemma encl_qs w r i a : enclw w r -> encl i a -> encl (iqs w i) (qs r a).
Proof.
  destruct w as [[b e] f], r as [[rb re] rf]. unfold enclw; simpl. intros [H1 [H2 H3]] H.
  unfold Rpower. enc.
Qed.

Record iconsts := mkI { i_add : bool; i_ea : I.type; i_el : I.type; i_no : iw; i_in : iw; i_as : iw }.
Definition enclk (ik : iconsts) (k : consts) : Prop :=
  i_add ik = additive k /\ encl (i_ea ik) (eps_a k) /\ encl (i_el ik) (eps_l k)
  /\ enclw (i_no ik) (w_no k) /\ enclw (i_in ik) (w_in k) /\ enclw (i_as ik) (w_as k).

Definition iguard (add : bool) (e x : I.type) := if add then iadd x e else irmax x e.
Lemma encl_guard add ie e ix0 x : encl ie e -> encl ix0 x -> encl (iguard add ie ix0) (guard add e x).
Proof. intros. unfold iguard, guard. destruct add; [enc | apply encl_rmax; assumption]. Qed.

Definition iunitg add e (v : ivec) := ivscale (iinv (iguard add e (inorm v))) v.
Lemma encl3_unitg add ie e iv v : encl ie e -> encl3 iv v -> encl3 (iunitg add ie iv) (unitg add e v).
Proof. intros. unfold iunitg, unitg. apply encl3_scale; [|assumption]. apply encl_inv, encl_guard; [assumption|apply encl_norm; assumption]. Qed.
Definition iunit (v : ivec) := ivscale (iinv (inorm v)) v.
Lemma encl3_unit iv v : encl3 iv v -> encl3 (iunit iv) (unit v).
Proof. intros. unfold iunit, unit. apply encl3_scale; [|assumption]. apply encl_inv, encl_norm; assumption. Qed.

Definition ic4 (a b c d : ivec) := ivscale (iinv (iZ 4)) (ivadd (ivadd a b) (ivadd c d)).
Lemma encl3_c4 a b c d u v w x : encl3 a u -> encl3 b v -> encl3 c w -> encl3 d x -> encl3 (ic4 a b c d) (c4 u v w x).
Proof. intros. unfold ic4, c4. apply encl3_scale; [apply encl_inv, encl_Z|]. repeat apply encl3_add; assumption. Qed.
Definition ic2 (a b : ivec) := ivscale (iinv (iZ 2)) (ivadd a b).
Lemma encl3_c2 a b u v : encl3 a u -> encl3 b v -> encl3 (ic2 a b) (c2 u v).
Proof. intros. unfold ic2, c2. apply encl3_scale; [apply encl_inv, encl_Z|]. apply encl3_add; assumption. Qed.

Definition ivsum (l : list ivec) := fold_right ivadd ivzero l.
Lemma encl3_vsum li l : Forall2 encl3 li l -> encl3 (ivsum li) (vsum l).
Proof. induction 1; simpl; [apply encl3_zero|]. apply encl3_add; assumption. Qed.
Definition icentre8 (P : nat -> ivec) := ivscale (iinv (iZ 8)) (ivsum (map P (seq 0 8))).
Lemma encl3_centre8 Pi P : (forall i, encl3 (Pi i) (P i)) -> encl3 (icentre8 Pi) (centre8 P).
Proof.
  intros H. unfold icentre8, centre8. apply encl3_scale; [apply encl_inv, encl_Z|].
  apply encl3_vsum. apply Forall2_map_same. exact H.
Qed.

Definition inonortho1 (k : iconsts) (sc c2cn a b : ivec) :=
  let n := icross (ivsub a sc) (ivsub b sc) in
  iqs (i_no k) (ideg (imacos (idot (iunitg (i_add k) (i_ea k) n) c2cn))).
Definition iinner1 (k : iconsts) (prev p next : ivec) :=
  iqs (i_in k)
      (iabs (isub (ideg (imacos (idot (iunitg (i_add k) (i_el k) (ivsub next p))
                                      (iunitg (i_add k) (i_el k) (ivsub prev p))))) (iZ 90))).

Lemma encl_nonortho1 ik k isc sc ic c ia a ib b :
  enclk ik k -> encl3 isc sc -> encl3 ic c -> encl3 ia a -> encl3 ib b ->
  encl (inonortho1 ik isc ic ia ib) (nonortho1 k sc c a b).
Proof.
  intros [Ha [Hea [Hel [Hno [Hin Has]]]]] H1 H2 H3 H4. unfold inonortho1, nonortho1.
  apply encl_qs; [assumption|]. apply encl_deg, encl_macos, encl_dot; [|assumption].
  rewrite Ha. apply encl3_unitg; [assumption|]. apply encl3_cross; apply encl3_sub; assumption.
Qed.
Lemma encl_inner1 ik k ia a ib b ic c :
  enclk ik k -> encl3 ia a -> encl3 ib b -> encl3 ic c ->
  encl (iinner1 ik ia ib ic) (inner1 k a b c).
Proof.
  intros [Ha [Hea [Hel [Hno [Hin Has]]]]] H1 H2 H3. unfold iinner1, inner1.
  apply encl_qs; [assumption|]. apply encl_abs, encl_sub; [|apply encl_Z].
  apply encl_deg, encl_macos. rewrite Ha.
  apply encl_dot; apply encl3_unitg; try assumption; apply encl3_sub; assumption.
Qed.

Definition encl_opt (io : option ivec) (o : option vec) : Prop :=
  match io, o with
  | Some a, Some b => encl3 a b
  | None, None => True
  | _, _ => False
  end.

Definition iside_term (k : iconsts) (center : ivec) (other : option ivec) (a b c d : ivec) :=
  let sc := ic4 a b c d in
  let c2c := ivsub center (match other with Some o => o | None => sc end) in
  let c2cn := iunit c2c in
  iadd (iadd (iadd (iadd (inonortho1 k sc c2cn a b) (inonortho1 k sc c2cn b c)) (inonortho1 k sc c2cn c d)) (inonortho1 k sc c2cn d a))
       (iadd (iadd (iadd (iinner1 k d a b) (iinner1 k a b c)) (iinner1 k b c d)) (iinner1 k c d a)).

Lemma encl_side_term ik k ice ce io o ia a ib b ic c id d :
  enclk ik k -> encl3 ice ce -> encl_opt io o -> encl3 ia a -> encl3 ib b -> encl3 ic c -> encl3 id d ->
  encl (iside_term ik ice io ia ib ic id) (side_term k ce o a b c d).
Proof.
  intros Hk Hc Ho Ha Hb Hcc Hd. unfold iside_term, side_term.
  assert (Hsc : encl3 (ic4 ia ib ic id) (c4 a b c d)) by (apply encl3_c4; assumption).
  assert (Hoth : encl3 (match io with Some o0 => o0 | None => ic4 ia ib ic id end)
                       (match o with Some o0 => o0 | None => c4 a b c d end)).
  { destruct io, o; simpl in Ho; try contradiction; assumption. }
  assert (Hu : encl3 (iunit (ivsub ice (match io with Some o0 => o0 | None => ic4 ia ib ic id end)))
                     (unit (vsub ce (match o with Some o0 => o0 | None => c4 a b c d end)))).
  { apply encl3_unit, encl3_sub; assumption. }
  repeat apply encl_add; first [ apply encl_nonortho1; assumption | apply encl_inner1; assumption ].
Qed.

Definition iside_term_l (k : iconsts) (center : ivec) (other : option ivec) (l : list ivec) :=
  match l with
  | [a; b; c; d] => iside_term k center other a b c d
  | _ => iZ 0
  end.
Lemma encl_side_term_l ik k ice ce io o li l :
  enclk ik k -> encl3 ice ce -> encl_opt io o -> Forall2 encl3 li l ->
  encl (iside_term_l ik ice io li) (side_term_l k ce o l).
Proof.
  intros Hk Hc Ho H.
  destruct H as [|a a' ? ? Ha H]; [apply encl_Z|].
  destruct H as [|b b' ? ? Hb H]; [apply encl_Z|].
  destruct H as [|c c' ? ? Hcc H]; [apply encl_Z|].
  destruct H as [|d d' ? ? Hd H]; [apply encl_Z|].
  destruct H; [|apply encl_Z].
  simpl. apply encl_side_term; assumption.
Qed.

Definition iedge_len (P : nat -> ivec) (e : nat * nat) := inorm (ivsub (P (snd e)) (P (fst e))).
Definition iaspect (k : iconsts) (lens : list I.type) :=
  iqs (i_as k) (idiv (iln (idiv (ilmax lens) (iguard (i_add k) (i_el k) (ilmin lens)))) (iln (iZ 10))).
Lemma encl_aspect ik k li l : enclk ik k -> Forall2 encl li l -> encl (iaspect ik li) (aspect k l).
Proof.
  intros [Ha [Hea [Hel [Hno [Hin Has]]]]] H. unfold iaspect, aspect.
  apply encl_qs; [assumption|]. apply encl_div; [|apply encl_ln, encl_Z].
  apply encl_ln, encl_div; [apply encl_lmax; assumption|]. rewrite Ha.
  apply encl_guard; [assumption|apply encl_lmin; assumption].
Qed.

Definition ihexq (k : iconsts) (T : list (list nat)) (E : list (nat * nat))
           (P : nat -> ivec) (nb : nat -> option ivec) :=
  let center := icentre8 P in
  iadd (irsum (map (fun i => iside_term_l k center (nb i) (map P (nth i T []))) (seq 0 (length T))))
       (iaspect k (map (iedge_len P) E)).

Lemma encl_hexq ik k T E Pi P nbi nb :
  enclk ik k -> (forall i, encl3 (Pi i) (P i)) -> (forall i, encl_opt (nbi i) (nb i)) ->
  encl (ihexq ik T E Pi nbi) (hexq k T E P nb).
Proof.
  intros Hk HP Hnb. unfold ihexq, hexq. apply encl_add.
  - apply encl_rsum. apply Forall2_map_same. intro i.
    apply encl_side_term_l; auto using encl3_centre8. apply Forall2_map_same. exact HP.
  - apply encl_aspect; [assumption|]. apply Forall2_map_same. intro e.
    unfold iedge_len, edge_len. apply encl_norm, encl3_sub; apply HP.
Qed.

Definition iquad_side (k : iconsts) (center : ivec) (other : option ivec) (nrm prev a b : ivec) :=
  let sc := ic2 a b in
  let c2c := ivsub center (match other with Some o => o | None => sc end) in
  let c2cn := iunit c2c in
  iadd (iqs (i_no k) (ideg (imacos (idot (iunit (icross nrm (ivsub b a))) c2cn))))
       (iqs (i_in k) (iabs (isub (ideg (imacos (idot (iunit (ivsub b a)) (iunit (ivsub prev a))))) (iZ 90)))).
Lemma encl_quad_side ik k ice ce io o inr nr ip p ia a ib b :
  enclk ik k -> encl3 ice ce -> encl_opt io o -> encl3 inr nr -> encl3 ip p -> encl3 ia a -> encl3 ib b ->
  encl (iquad_side ik ice io inr ip ia ib) (quad_side k ce o nr p a b).
Proof.
  intros [Hadd [Hea [Hel [Hno [Hin Has]]]]] Hc Ho Hn Hp Ha Hb. unfold iquad_side, quad_side.
  assert (Hsc : encl3 (ic2 ia ib) (c2 a b)) by (apply encl3_c2; assumption).
  assert (Hoth : encl3 (match io with Some o0 => o0 | None => ic2 ia ib end)
                       (match o with Some o0 => o0 | None => c2 a b end)).
  { destruct io, o; simpl in Ho; try contradiction; assumption. }
  apply encl_add; (apply encl_qs; [assumption|]).
  - apply encl_deg, encl_macos, encl_dot.
    + apply encl3_unit, encl3_cross; [assumption|apply encl3_sub; assumption].
    + apply encl3_unit, encl3_sub; assumption.
  - apply encl_abs, encl_sub; [|apply encl_Z]. apply encl_deg, encl_macos, encl_dot;
      apply encl3_unit, encl3_sub; assumption.
Qed.

Definition iquadq (k : iconsts) (E : list (nat * nat)) (P : nat -> ivec) (nb : nat -> option ivec) :=
  let center := ic4 (P 0%nat) (P 1%nat) (P 2%nat) (P 3%nat) in
  let nrm := icross (ivsub (P 1%nat) (P 0%nat)) (ivsub (P 3%nat) (P 0%nat)) in
  iadd (iadd (iadd (iadd (iquad_side k center (nb 0%nat) nrm (P 3%nat) (P 0%nat) (P 1%nat))
                         (iquad_side k center (nb 1%nat) nrm (P 0%nat) (P 1%nat) (P 2%nat)))
                   (iquad_side k center (nb 2%nat) nrm (P 1%nat) (P 2%nat) (P 3%nat)))
             (iquad_side k center (nb 3%nat) nrm (P 2%nat) (P 3%nat) (P 0%nat)))
       (iaspect k (map (iedge_len P) E)).

Lemma encl_quadq ik k E Pi P nbi nb :
  enclk ik k -> (forall i, encl3 (Pi i) (P i)) -> (forall i, encl_opt (nbi i) (nb i)) ->
  encl (iquadq ik E Pi nbi) (quadq k E P nb).
Proof.
  intros Hk HP Hnb. unfold iquadq, quadq.
  assert (Hc : encl3 (ic4 (Pi 0%nat) (Pi 1%nat) (Pi 2%nat) (Pi 3%nat)) (c4 (P 0%nat) (P 1%nat) (P 2%nat) (P 3%nat)))
    by (apply encl3_c4; apply HP).
  assert (Hn : encl3 (icross (ivsub (Pi 1%nat) (Pi 0%nat)) (ivsub (Pi 3%nat) (Pi 0%nat)))
                     (cross (vsub (P 1%nat) (P 0%nat)) (vsub (P 3%nat) (P 0%nat))))
    by (apply encl3_cross; apply encl3_sub; apply HP).
  apply encl_add.
  - apply encl_add; [apply encl_add; [apply encl_add|]|]; apply encl_quad_side; auto.
  - apply encl_aspect; [assumption|]. apply Forall2_map_same. intro e.
    unfold iedge_len, edge_len. apply encl_norm, encl3_sub; apply HP.
Qed.

(** ** cases as data: everything is a dyadic literal (mantissa, exponent) *)
Definition id_ (d : zd) : I.type := idy (fst d) (snd d).
Definition iv (v : zvec) : ivec := (id_ (fst (fst v)), id_ (snd (fst v)), id_ (snd v)).
Lemma encl_d d : encl (id_ d) (rd d).
Proof. apply encl_dy. Qed.
Lemma encl3_v v : encl3 (iv v) (rv v).
Proof. unfold encl3, iv, rv, vx, vy, vz, ix, iy, iz; simpl. repeat split; apply encl_d. Qed.

Definition iw_ (w : zw) : iw := (id_ (fst (fst w)), id_ (snd (fst w)), id_ (snd w)).
Definition ik_ (z : zconsts) : iconsts := mkI (z_add z) (id_ (z_ea z)) (id_ (z_el z)) (iw_ (z_no z)) (iw_ (z_in z)) (iw_ (z_as z)).
Lemma enclk_z z : enclk (ik_ z) (rk z).
Proof.
  unfold enclk, ik_, rk, enclw, iw_, rw; simpl. repeat split; apply encl_d.
Qed.

(** corner positions of the cell and, per side slot, the corner positions of the neighbour *)
Definition rpts (l : list zvec) : nat -> vec := pts (map rv l).
Definition ipts (l : list zvec) : nat -> ivec := fun i => nth i (map iv l) ivzero.
Lemma encl3_pts l i : encl3 (ipts l i) (rpts l i).
Proof.
  unfold ipts, rpts, pts. revert i. induction l; intros [|i]; simpl; try apply encl3_zero; try apply encl3_v. apply IHl.
Qed.

Definition rnb8 (l : list (option (list zvec))) : nat -> option vec :=
  fun i => match nth i l None with Some q => Some (centre8 (rpts q)) | None => None end.
Definition inb8 (l : list (option (list zvec))) : nat -> option ivec :=
  fun i => match nth i l None with Some q => Some (icentre8 (ipts q)) | None => None end.
Lemma encl_nb8 l i : encl_opt (inb8 l i) (rnb8 l i).
Proof. unfold inb8, rnb8. destruct (nth i l None); simpl; [|trivial]. apply encl3_centre8. apply encl3_pts. Qed.

Definition rnb4 (l : list (option (list zvec))) : nat -> option vec :=
  fun i => match nth i l None with
           | Some q => Some (c4 (rpts q 0%nat) (rpts q 1%nat) (rpts q 2%nat) (rpts q 3%nat))
           | None => None end.
Definition inb4 (l : list (option (list zvec))) : nat -> option ivec :=
  fun i => match nth i l None with
           | Some q => Some (ic4 (ipts q 0%nat) (ipts q 1%nat) (ipts q 2%nat) (ipts q 3%nat))
           | None => None end.
Lemma encl_nb4 l i : encl_opt (inb4 l i) (rnb4 l i).
Proof. unfold inb4, rnb4. destruct (nth i l None); simpl; [|trivial]. apply encl3_c4; apply encl3_pts. Qed.

Definition within (q : I.type) (py tol : zd) : bool :=
  match I.sign_large (isub (iabs (isub q (id_ py))) (id_ tol)) with
  | Xlt | Xeq => true
  | _ => false
  end.

Lemma within_sound q r py tol : encl q r -> within q py tol = true -> Rabs (r - rd py) <= rd tol.
Proof.
  intros H W. unfold within in W.
  assert (E : encl (isub (iabs (isub q (id_ py))) (id_ tol)) (Rabs (r - rd py) - rd tol)).
  { apply encl_sub; [apply encl_abs, encl_sub|]; auto using encl_d. }
  pose proof (I.sign_large_correct (isub (iabs (isub q (id_ py))) (id_ tol))) as S.
  destruct (I.sign_large _); try discriminate.
  - specialize (S _ E). inversion S. lra.
  - specialize (S _ E). destruct S as [_ S]. simpl in S. lra.
Qed.

Definition hex_case_ok (z : zconsts) T E (P : list zvec) (nb : list (option (list zvec))) (py tol : zd) : bool :=
  within (ihexq (ik_ z) T E (ipts P) (inb8 nb)) py tol.
Definition quad_case_ok (z : zconsts) E (P : list zvec) (nb : list (option (list zvec))) (py tol : zd) : bool :=
  within (iquadq (ik_ z) E (ipts P) (inb4 nb)) py tol.

Theorem hex_case_ok_sound z T E P nb py tol :
  hex_case_ok z T E P nb py tol = true ->
  Rabs (hexq (rk z) T E (rpts P) (rnb8 nb) - rd py) <= rd tol.
Proof.
  apply within_sound. apply encl_hexq; [apply enclk_z | apply encl3_pts | apply encl_nb8].
Qed.

Theorem quad_case_ok_sound z E P nb py tol :
  quad_case_ok z E P nb py tol = true ->
  Rabs (quadq (rk z) E (rpts P) (rnb4 nb) - rd py) <= rd tol.
Proof.
  apply within_sound. apply encl_quadq; [apply enclk_z | apply encl3_pts | apply encl_nb4].
Qed.

(** the interval value itself, for diagnostics in the correspondence output *)
Definition hex_value (z : zconsts) T E (P : list zvec) (nb : list (option (list zvec))) : I.type :=
  ihexq (ik_ z) T E (ipts P) (inb8 nb).
