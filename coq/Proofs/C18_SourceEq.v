(** C18 - the hand-written model of the geometric finders IS what the code of the working tree says.

    Gen/C18/Source.v is produced on every run by harness/translate_np.py (python [ast] -> Gallina, fail closed) from
    util/functions.py (norm, unit_vector, point_to_plane_distance, is_point_on_plane), modify/find/finder.py
    (FinderBase._find_by_position: the whole method, loop included) and modify/find/geometric.py
    (GeometricFinder.find_in_sphere, find_on_plane).  This file - compiled on every run, after the generated one -
    proves that each translated function equals the function of Model/C18_Finder.v that Properties/C18.v
    ([C18_sphere], [C18_plane], [C18_plane_invariant]) is about, for ALL arguments on which the python text has a
    real-number reading.  It has none for the zero normal (unit_vector: numpy's [nan nan nan]); there the translated
    function is [None] and the lemma carries [n <> vzero] as a hypothesis - exactly the hypothesis of [C18_plane].

    Reading of the finder (harness/translate_np.py, "filter loop"): a finder is its list [self.mesh.vertices], a vertex
    is its [.position]; [acc = set(); for v in l: if TEST: acc.add(v); return acc] is the sub-list of [l] selected by
    TEST (the representation chosen by Model/C18_Finder.v: a python set of vertices = the sub-list of the vertex list).

    Tactic: Proofs/SourceEqTac.v (the tactic of C08_SourceEq.v); the proofs depend on what the python computes, not on
    how it is written, and never name a specialisation ([unfold_src] is generated with Gen/C18/Source.v). *)
From Coq Require Import Reals Lra Psatz List Bool.
From CB Require Import Base.Vec3 Model.C18_Finder Proofs.SourceEqTac.
From CB Require Import Gen.C18.Source.
Import ListNotations.
Open Scope R_scope.

Ltac unfold_model_all ::=
  cbv beta iota zeta delta [Rltb in_sphere_b unit_vector point_to_plane_distance is_point_on_plane] in *.
Ltac norm_prims ::= unfold s_clip in *.
Ltac src_eq :=
  unfold_src; norm_prims; unfold_model_all; sym_atoms; go;
  fail "the translated source differs from the model (or the difference is beyond this tactic)".

(** a filter loop: the list function is [filter] of the model's predicate, the predicate is compared by [src_eq] *)
Lemma s_filter_total {A : Type} (f : A -> option bool) (g : A -> bool) (l : list A) :
  (forall x, In x l -> f x = Some (g x)) -> s_filter f l = Some (filter g l).
Proof. apply (filter_loop_total (@s_filter A)); reflexivity. Qed.

Ltac src_filter_eq g :=
  unfold_src; norm_prims;
  lazymatch goal with
  | |- context [s_filter ?f ?l] => rewrite (s_filter_total f g l); [ cbv beta iota zeta; reflexivity | ]
  | |- _ => fail "no filter loop in the translated source"
  end;
  let x := fresh "x" in let Hx := fresh "Hx" in
  intros x Hx; clear Hx; unfold_model_all; sym_atoms; go;
  fail "the translated loop test differs from the model's predicate".

(** ** util/functions.py *)
Lemma src_norm_eq tol v : src_norm tol v = Some (norm v).
Proof. src_eq. Qed.

Lemma src_unit_vector_eq tol v : v <> vzero -> src_unit_vector tol v = Some (unit_vector v).
Proof. intros H. src_eq. Qed.

(** numpy: [nan nan nan] for the zero vector (0 / 0 three times, RuntimeWarning); no real-number reading *)
Lemma src_unit_vector_zero tol : src_unit_vector tol vzero = None.
Proof.
  unfold_src. destruct (Req_EM_T (norm vzero) 0) as [_|n]; [reflexivity|].
  exfalso. apply n. unfold norm, norm2. vcoord. replace (0 * 0 + 0 * 0 + 0 * 0) with 0 by ring. apply sqrt_0.
Qed.

Lemma src_point_to_plane_distance_eq tol o n p :
  n <> vzero -> src_point_to_plane_distance tol o n p = Some (point_to_plane_distance tol o n p).
Proof. intros H. src_eq. Qed.

Lemma src_is_point_on_plane_eq tol o n p :
  n <> vzero -> src_is_point_on_plane tol o n p = Some (is_point_on_plane tol o n p).
Proof. intros H. src_eq. Qed.

(** the zero normal: the python text has no real-number reading (the model's total functions are not equated with nan) *)
Lemma src_is_point_on_plane_zero tol o p : src_is_point_on_plane tol o vzero p = None.
Proof.
  unfold_src. destruct (Req_EM_T (norm vzero) 0) as [_|n]; [reflexivity|].
  exfalso. apply n. unfold norm, norm2. vcoord. replace (0 * 0 + 0 * 0 + 0 * 0) with 0 by ring. apply sqrt_0.
Qed.

(** ** modify/find/finder.py, geometric.py: the whole methods *)
Lemma src_find_by_position_eq tol vs p r : src_find_by_position tol vs p r = Some (find_by_position tol vs p (Some r)).
Proof. unfold find_by_position. src_filter_eq (in_sphere_b p r). Qed.

Lemma src_find_by_position_default_eq tol vs p : src_find_by_position_default tol vs p = Some (find_by_position tol vs p None).
Proof. unfold find_by_position. src_filter_eq (in_sphere_b p tol). Qed.

Lemma src_find_in_sphere_eq tol vs p r : src_find_in_sphere tol vs p r = Some (find_in_sphere tol vs p (Some r)).
Proof. unfold find_in_sphere, find_by_position. src_filter_eq (in_sphere_b p r). Qed.

Lemma src_find_in_sphere_default_eq tol vs p : src_find_in_sphere_default tol vs p = Some (find_in_sphere tol vs p None).
Proof. unfold find_in_sphere, find_by_position. src_filter_eq (in_sphere_b p tol). Qed.

Lemma src_find_on_plane_eq tol vs o n : n <> vzero -> src_find_on_plane tol vs o n = Some (find_on_plane tol vs o n).
Proof. intros H. unfold find_on_plane. src_filter_eq (is_point_on_plane tol o n). Qed.

(** the zero normal on a mesh that has a vertex: no real-number reading (numpy: every comparison with nan is False,
    the finder returns the empty set and a RuntimeWarning; not claimed) *)
Lemma src_find_on_plane_zero tol v vs o : src_find_on_plane tol (v :: vs) o vzero = None.
Proof.
  pose proof (src_is_point_on_plane_zero tol o v) as E. revert E. unfold_src. cbn [s_filter].
  intros E. rewrite E. reflexivity.
Qed.

(** the hypothesis is satisfiable *)
Example src_find_on_plane_hyp_sat : (0, 0, 1) <> vzero.
Proof. intros H. inversion H. lra. Qed.
