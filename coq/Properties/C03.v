(** C03 - Cell count and expansion ratio obey the geometric-progression law.

    Model: Model/C03_Relations.v (the twelve relations, the closure loop of Chop.calculate, Chop.invert,
    Grading.add_chop / inverted).  Specification: blockMesh's geometric progression ([gsum], [bm_ratio],
    [bm_first], [bm_last], [bm_cells]).  Gen/C03/RelTable.v holds the relation table in the iteration
    order of ChopRelation.get_possible_combinations() and constants.TOL, regenerated on every run.

    The scipy.optimize.brentq calls are an oracle record; [brentq_sound] (the value returned satisfies the
    defining equation) is a hypothesis here and a residual goal in the correspondence.  [tau] (TOL) is
    universally quantified: the theorems hold for every tolerance. *)
From Coq Require Import Reals ZArith List Bool Lra Lia.
From Flocq Require Import Core.Raux.
From CB Require Import Base.Vec3 Model.C03_Relations Proofs.C03_GeomSeries Proofs.C03_Relations
  Proofs.C03_Plans Proofs.C03_Invert Proofs.C03_InvertPlans.
From CB Require Import Gen.C03.RelTable Gen.C03.Source Proofs.C03_SourceEq.
From CB Require Import Model.C03_Chop Gen.C03.ChopSource Proofs.C03_ChopSourceEq.
Import ListNotations.
Open Scope R_scope.

(** ** F part: the closure loop over the tabulated relation table *)
Definition ten_pairs : list (list field) :=
  [[FCount; FC2c]; [FCount; FTotal]; [FCount; FStart]; [FCount; FEnd]; [FStart; FC2c];
   [FEnd; FC2c]; [FTotal; FC2c]; [FTotal; FStart]; [FTotal; FEnd]; [FStart; FEnd]].
Definition rel_eqb (a b : rel) : bool :=
  let '(o, i, j) := a in let '(o', i', j') := b in field_eqb o o' && field_eqb i i' && field_eqb j j'.
Definition plan_ok (p : list field) : bool :=
  match plan_of rel_table p with
  | Some pl => (length pl =? 3)%nat && forallb (fun t => existsb (rel_eqb t) rel_table) pl
  | None => false
  end.

(** every supported pair of parameters reaches all five quantities within the 12 rounds (by three relation
    calls), every single parameter other than c2c gets c2c = 1 and is then a pair, and a lone c2c is refused *)
Definition C03_plans_complete_stmt : Prop :=
  (forall p, In p ten_pairs -> plan_ok p = true) /\
  length rel_table = 12%nat /\
  plan_of rel_table [FC2c] = None /\ plan_of rel_table [] = None.

Theorem C03_plans_complete : C03_plans_complete_stmt.
Proof.
  split; [|vm_compute; auto].
  assert (H : forallb plan_ok ten_pairs = true) by (vm_compute; reflexivity).
  rewrite forallb_forall in H. exact H.
Qed.

(** with the tabulated table, [calculate] IS the plan written out in the model, for all real inputs *)
Definition given2 (f g : field) (a b : option Z * option R) : data :=
  let pick h := if field_eqb f h then snd a else if field_eqb g h then snd b else None in
  mk_data (if field_eqb f FCount then fst a else if field_eqb g FCount then fst b else None)
          (pick FTotal) (pick FC2c) (pick FStart) (pick FEnd).

Definition C03_calculate_is_plan_stmt : Prop :=
  forall tau bq L,
  (forall n r, calculate tau bq L rel_table (mk_data (Some n) None (Some r) None None) = plan_count_c2c tau L n r) /\
  (forall n E, calculate tau bq L rel_table (mk_data (Some n) (Some E) None None None) = plan_count_total tau L n E) /\
  (forall n s, calculate tau bq L rel_table (mk_data (Some n) None None (Some s) None) = plan_count_start tau bq L n s) /\
  (forall n e, calculate tau bq L rel_table (mk_data (Some n) None None None (Some e)) = plan_count_end tau bq L n e) /\
  (forall s r, calculate tau bq L rel_table (mk_data None None (Some r) (Some s) None) = plan_start_c2c tau L s r) /\
  (forall e r, calculate tau bq L rel_table (mk_data None None (Some r) None (Some e)) = plan_end_c2c tau L e r) /\
  (forall E r, calculate tau bq L rel_table (mk_data None (Some E) (Some r) None None) = plan_total_c2c tau L E r) /\
  (forall E s, calculate tau bq L rel_table (mk_data None (Some E) None (Some s) None) = plan_total_start tau bq L E s) /\
  (forall E e, calculate tau bq L rel_table (mk_data None (Some E) None None (Some e)) = plan_total_end tau bq L E e) /\
  (forall s e, calculate tau bq L rel_table (mk_data None None None (Some s) (Some e)) = plan_start_end tau bq L s e).

Ltac blk := cbv - [start_count_c2c start_end_total end_start_total count_start_c2c count_end_c2c count_total_c2c
   count_total_start c2c_count_start c2c_count_end c2c_count_total total_count_c2c total_start_end].
Ltac plan_tac := intros; blk;
  repeat (match goal with |- context [match ?x with _ => _ end] =>
            lazymatch x with context [match _ with _ => _ end] => fail | _ => destruct x; blk end end);
  reflexivity.

Theorem C03_calculate_is_plan : C03_calculate_is_plan_stmt.
Proof. intros tau bq L. repeat split; plan_tac. Qed.

(** ** N part *)

(** count >= 1 and 0 < total expansion, for every plan *)
Definition C03_count_pos_E_pos_stmt : Prop :=
  forall tau bq L d, brentq_sound bq ->
  (forall n r, 0 < r -> plan_count_c2c tau L n r = Some d -> returns_pos d) /\
  (forall n E, 0 < E -> plan_count_total tau L n E = Some d -> returns_pos d) /\
  (forall n s, plan_count_start tau bq L n s = Some d -> returns_pos d) /\
  (forall n e, plan_count_end tau bq L n e = Some d -> returns_pos d) /\
  (forall s r, 0 < r -> plan_start_c2c tau L s r = Some d -> returns_pos d) /\
  (forall e r, 0 < r -> plan_end_c2c tau L e r = Some d -> returns_pos d) /\
  (forall E r, plan_total_c2c tau L E r = Some d -> returns_pos d) /\
  (forall E s, 0 < E -> plan_total_start tau bq L E s = Some d -> returns_pos d) /\
  (forall E e, 0 < E -> plan_total_end tau bq L E e = Some d -> returns_pos d) /\
  (forall s e, plan_start_end tau bq L s e = Some d -> returns_pos d).
Theorem C03_count_pos_E_pos : C03_count_pos_E_pos_stmt.
Proof. exact plans_return_pos. Qed.

(** the realisation is a partition of the edge into positive cells whose last/first ratio is E *)
Definition C03_realisation_stmt : Prop :=
  forall L n E, 0 < L -> 0 < E -> (1 <= n)%nat ->
  bm_first L n E * gsum (bm_ratio n E) n = L /\ 0 < bm_first L n E /\ 0 < bm_ratio n E /\
  ((2 <= n)%nat -> bm_last L n E = bm_first L n E * E).
Theorem C03_realisation : C03_realisation_stmt.
Proof.
  intros L n E HL HE Hn. repeat split.
  - apply bm_cells_sum; assumption.
  - apply bm_first_pos; assumption.
  - apply bm_ratio_pos.
  - intros. apply bm_last_first; assumption.
Qed.

(** a given count and ratio are reproduced exactly *)
Definition C03_count_ratio_exact_stmt : Prop :=
  forall tau L n d,
  (forall r, 0 < r -> plan_count_c2c tau L n r = Some d ->
     exists E, returned d = Some (n, E) /\ (1 <= n)%Z /\ 0 < E /\ E = r ^ (Z.to_nat n - 1) /\
               ((2 <= n)%Z -> bm_ratio (Z.to_nat n) E = r)) /\
  (forall E, 0 < E -> plan_count_total tau L n E = Some d ->
     returned d = Some (n, E) /\ (2 <= n)%Z /\ bm_last L (Z.to_nat n) E = bm_first L (Z.to_nat n) E * E).
Theorem C03_count_ratio_exact : C03_count_ratio_exact_stmt.
Proof.
  intros tau L n d. split.
  - intros r Hr H. exact (plan_count_c2c_law tau L n r d H Hr).
  - intros E HE H. exact (plan_count_total_law tau L n E d H HE).
Qed.

(** a given first / last cell size is reproduced when the count is given (exactly where brentq solves
    the defining equation, to within TOL relative where the code's shortcut [|n s - L|/L < TOL] fires);
    n = 1 cannot have a size other than L: the code returns the single cell for start_size and raises
    for end_size *)
Definition C03_size_exact_with_count_stmt : Prop :=
  forall tau bq L n d, brentq_sound bq -> 0 <= tau ->
  (forall s, plan_count_start tau bq L n s = Some d ->
     exists E, returned d = Some (n, E) /\ (1 <= n)%Z /\ 0 < E /\
       ((2 <= n)%Z -> Rabs (bm_first L (Z.to_nat n) E - s) <= tau * bm_first L (Z.to_nat n) E)) /\
  (forall e, plan_count_end tau bq L n e = Some d ->
     exists E, returned d = Some (n, E) /\ (1 <= n)%Z /\ 0 < E /\
       Rabs (bm_last L (Z.to_nat n) E - e) <= tau * bm_last L (Z.to_nat n) E).
Theorem C03_size_exact_with_count : C03_size_exact_with_count_stmt.
Proof.
  intros tau bq L n d Hbq Htau. split.
  - intros s H. exact (plan_count_start_law tau bq L n s d H Hbq Htau).
  - intros e H. exact (plan_count_end_law tau bq L n e d H Hbq Htau).
Qed.

(** without a count: rounding to the next whole cell - never coarser than requested, and not finer
    with one cell fewer.  [r = 1 \/ tau < |r - 1|]: ratios inside the tolerance band but different
    from 1 are treated as 1 by the code and the law then only holds up to n*TOL (validated, not proved). *)
Definition C03_size_rounded_stmt : Prop :=
  forall tau bq L d, brentq_sound bq -> 0 < tau ->
  (forall s r, 0 < r -> (r = 1 \/ tau < Rabs (r - 1)) -> plan_start_c2c tau L s r = Some d ->
     exists n E, returned d = Some (n, E) /\ (1 <= n)%Z /\ 0 < E /\ E = r ^ (Z.to_nat n - 1) /\
       ((2 <= n)%Z -> bm_ratio (Z.to_nat n) E = r) /\
       bm_first L (Z.to_nat n) E < s /\ ((2 <= n)%Z -> s <= L / gsum r (Z.to_nat n - 1))) /\
  (forall e r, 0 < r -> 0 < e -> (r = 1 \/ tau < Rabs (r - 1)) -> plan_end_c2c tau L e r = Some d ->
     exists n E, returned d = Some (n, E) /\ (1 <= n)%Z /\ 0 < E /\ E = r ^ (Z.to_nat n - 1) /\
       ((2 <= n)%Z -> bm_ratio (Z.to_nat n) E = r) /\
       bm_last L (Z.to_nat n) E < e /\ ((2 <= n)%Z -> e <= L / gsum (/ r) (Z.to_nat n - 1))) /\
  (forall E r, plan_total_c2c tau L E r = Some d ->
     exists n, returned d = Some (n, E) /\ (1 <= n)%Z /\ 0 < E /\ 0 < r /\
       (0 <= ln E / ln r ->
          (1 < r -> r ^ (Z.to_nat n - 1) <= E < r ^ Z.to_nat n) /\
          (r < 1 -> r ^ Z.to_nat n < E <= r ^ (Z.to_nat n - 1)))) /\
  (forall E s, 0 < E -> plan_total_start tau bq L E s = Some d ->
     exists n, returned d = Some (n, E) /\ (1 <= n)%Z /\ bm_first L (Z.to_nat n) E <= s /\
       (tau <= Rabs (E - 1) -> (3 <= n)%Z -> s <= bm_first L (Z.to_nat n - 1) E)) /\
  (forall E e, 0 < E -> plan_total_end tau bq L E e = Some d ->
     exists n, returned d = Some (n, E) /\ (1 <= n)%Z /\ bm_first L (Z.to_nat n) E * E <= e /\
       (tau <= Rabs (E - 1) -> (3 <= n)%Z -> e <= bm_first L (Z.to_nat n - 1) E * E)) /\
  (forall s e, plan_start_end tau bq L s e = Some d ->
     exists n, returned d = Some (n, e / s) /\ (1 <= n)%Z /\ 0 < e / s /\
       bm_first L (Z.to_nat n) (e / s) <= s /\ bm_first L (Z.to_nat n) (e / s) * (e / s) <= e /\
       (tau <= Rabs (e / s - 1) -> (3 <= n)%Z -> s <= bm_first L (Z.to_nat n - 1) (e / s))).
Theorem C03_size_rounded : C03_size_rounded_stmt.
Proof.
  intros tau bq L d Hbq Htau. assert (Htau0 : 0 <= tau) by lra. repeat split.
  - intros s r Hr Hband H. exact (plan_start_c2c_law tau L s r d H Hr Hband Htau0).
  - intros e r Hr He Hband H. exact (plan_end_c2c_law tau L e r d H Hr He Hband Htau0).
  - intros E r H. exact (plan_total_c2c_law tau L E r d H Htau0).
  - intros E s HE H. exact (plan_total_start_law tau bq L E s d H Hbq Htau HE).
  - intros E e HE H. exact (plan_total_end_law tau bq L E e d H Hbq Htau HE).
  - intros s e H. exact (plan_start_end_law tau bq L s e d H Hbq Htau).
Qed.

(** the near-uniform branch of count <- (total, start) in detail (this is where the unrepaired code
    rounded down): rounding up is never coarser, and at E = 1 one cell fewer is strictly coarser *)
Definition C03_uniform_branch_stmt : Prop :=
  forall L E s n, 0 < L -> 0 < s -> 0 < E -> n = Zceil (L / d_min E s) ->
  (1 <= n)%Z /\ bm_first L (Z.to_nat n) E <= s /\ (E = 1 -> (2 <= n)%Z -> s < L / IZR (n - 1)).
Theorem C03_uniform_branch : C03_uniform_branch_stmt.
Proof. exact uniform_branch_law. Qed.

(** rounding DOWN (int(L/d) without +1, the code before fixes/C03-1.diff) breaks the law *)
Definition C03_uniform_floor_stmt : Prop :=
  forall L s, 0 < s -> s <= L -> bm_first L (Z.to_nat (pyint (L / s))) 1 <= s.
Theorem C03_uniform_floor_refuted : ~ C03_uniform_floor_stmt.
Proof.
  intros H. assert (H1 : 0 < 1 / 10) by lra. assert (H2 : 1 / 10 <= 21 / 20) by lra.
  specialize (H (21 / 20) (1 / 10) H1 H2).
  assert (Hn : pyint (21 / 20 / (1 / 10)) = 10%Z).
  { unfold pyint. rewrite Ztrunc_floor by lra. apply Zfloor_imp. simpl. lra. }
  rewrite Hn in H. rewrite bm_first_uniform in H by (simpl; lia).
  replace (INR (Z.to_nat 10)) with 10 in H by (simpl; lra). lra.
Qed.

(** inversion.  Full statement: for every pair of parameters, calculate L (invert c) = (n, 1/E) when
    calculate L c = (n, E) (and the cells are those of c read backwards). *)
Definition C03_invert_stmt : Prop :=
  forall tau bq L d res n E, brentq_sound bq -> 0 < tau -> n_given d = 2%nat ->
  calculate tau bq L rel_table d = Some res -> returned res = Some (n, E) ->
  exists res', calculate tau bq L rel_table (invert d) = Some res' /\ returned res' = Some (n, / E).

(** proved part:
    (1) the cell sequence of (n, 1/E) is the reverse of that of (n, E);
    (2) the five pairs made of closed forms - (count,c2c) (count,total) (start,c2c) (end,c2c) (total,c2c):
        the inverted chop is accepted and returns (n, 1/E), for ratios that are 1 or outside the tolerance band
        together with their reciprocal ([band_ok]);
    (3) (count,start) and (count,end), whose ratio comes from brentq: for every sound oracle, whenever the
        mirrored call is answered too, same count and reciprocal expansion (the two defining equations are mirror
        images and have one solution);
    (4) (total,start) (total,end) (start,end), whose count comes from brentq ([invert_root_law]): for every sound
        oracle, whenever the inverted chop is accepted, same count and reciprocal expansion - the near-uniform branch
        sees the same smallest cell, the mirrored defining equation has the same root, roots > 1 are unique and
        roots < 1 all mean one cell ([band_sym]: the near-uniform branch is entered on both sides or on neither);
    (5) all ten pairs at once ([invert_full_cond_law]): the FULL statement above under two explicit hypotheses,
        [inv_ok tau d] (given ratios / sizes positive, [band_ok] for a given c2c, [band_sym] for the total
        expansion) and [calculate (invert d) <> None] (the inverted chop is accepted).
    Remaining hypotheses, precisely:
      - acceptance of the inverted chop for the five pairs that go through brentq (for the closed-form pairs it is
        proved, (2)): it needs scipy's brentq to converge on the mirrored input, which no property of an arbitrary
        oracle gives, and it is FALSE for count = 1 with start_size < L, whose inverse (count = 1, end_size) raises -
        a finding, see notes/C03.md;
      - inside the tolerance band (|r-1| <= TOL < |1/r-1|, or |E-1| < TOL <= |1/E-1|) the code replaces the ratio
        by 1 on one side only; there the law holds up to n*TOL (validated by the oracle, not proved). *)
Definition C03_invert_partial_stmt : Prop :=
  (forall L n E, 0 < E -> bm_cells L n (/ E) = rev (bm_cells L n E)) /\
  invert_closed_law rel_table /\
  invert_oracle_law rel_table /\
  invert_root_law rel_table /\
  invert_full_cond_law rel_table /\
  (forall L E s x x', 0 < E -> E <> 1 -> 0 < s -> 1 < x -> 1 < x' ->
     Gcode x E = L / s -> Gcode x' (/ E) = L / (s * E) -> x' = x) /\
  (forall E s, 0 < E -> E <> 1 -> d_min (/ E) (s * E) = d_min E s).
Theorem C03_invert_partial : C03_invert_partial_stmt.
Proof.
  split; [|split; [|split; [|split; [|split; [|split]]]]].
  - intros. apply bm_cells_rev; assumption.
  - exact (invert_closed rel_table C03_calculate_is_plan).
  - exact (invert_oracle rel_table C03_calculate_is_plan).
  - exact (invert_root rel_table C03_calculate_is_plan).
  - exact (invert_full_cond rel_table C03_calculate_is_plan).
  - exact count_root_mirror_unique.
  - exact d_min_mirror.
Qed.

(** Grading.inverted: an involution that reverses blockMesh's cell sequence *)
Definition C03_grading_inverted_stmt : Prop :=
  forall L g, Forall (fun dv : division => 0 < snd dv) g ->
  inverted (inverted g) = g /\ length (inverted g) = length g /\
  grading_cells L (inverted g) = rev (grading_cells L g).
Theorem C03_grading_inverted : C03_grading_inverted_stmt.
Proof.
  intros L g H. repeat split.
  - apply inverted_involutive. eapply Forall_impl; [|exact H]. simpl. intros a Ha. lra.
  - apply inverted_length.
  - apply grading_cells_inverted. exact H.
Qed.

(** rejection: outside the stated domains the model raises *)
Definition C03_reject_stmt : Prop :=
  forall tau bq L,
  (L <= 0 ->
    (forall n r, plan_count_c2c tau L n r = None) /\ (forall n E, plan_count_total tau L n E = None) /\
    (forall n s, plan_count_start tau bq L n s = None) /\ (forall n e, plan_count_end tau bq L n e = None) /\
    (forall s r, plan_start_c2c tau L s r = None) /\ (forall e r, plan_end_c2c tau L e r = None) /\
    (forall E r, plan_total_c2c tau L E r = None) /\ (forall E s, plan_total_start tau bq L E s = None) /\
    (forall E e, plan_total_end tau bq L E e = None) /\ (forall s e, plan_start_end tau bq L s e = None)) /\
  ((forall n s, s <= 0 \/ L <= s -> plan_count_start tau bq L n s = None) /\
   (forall n e, e <= 0 -> plan_count_end tau bq L n e = None) /\
   (forall s r, s <= 0 -> plan_start_c2c tau L s r = None) /\
   (forall E s, s <= 0 -> plan_total_start tau bq L E s = None) /\
   (forall s e, s <= 0 \/ e <= 0 -> plan_start_end tau bq L s e = None)) /\
  ((forall n E, (n <= 1)%Z -> plan_count_total tau L n E = None) /\
   (forall n r, (n < 1)%Z -> plan_count_c2c tau L n r = None) /\
   (forall s r, r = 0 -> plan_start_c2c tau L s r = None) /\
   (forall s r, 0 < r -> r < 1 -> tau < Rabs (r - 1) -> 0 < s -> s / (1 - r) <= L -> plan_start_c2c tau L s r = None) /\
   (forall E r, E = 0 \/ Rabs (r - 1) <= tau -> plan_total_c2c tau L E r = None) /\
   (forall E s, E = 0 -> plan_total_start tau bq L E s = None) /\
   (forall E e, E = 0 -> plan_total_end tau bq L E e = None)).
Theorem C03_reject : C03_reject_stmt.
Proof.
  intros tau bq L. split; [|split].
  - exact (reject_length tau bq L).
  - exact (reject_sizes tau bq L).
  - exact (reject_ratios tau bq L).
Qed.

(** ** the model is the source.  Gen/C03/Source.v is the translation (harness/props/C03_translate.py, python ast ->
    Gallina, fail closed) of relations.py as it is in the working tree NOW; each of its twelve functions equals the
    model's for all arguments, the rejected ones included ([None] = python raises).  The three functions that call
    scipy.optimize.brentq take scipy's answer as an argument; the model's oracle is then the one that answers exactly
    where the python text reaches the call ([guarded]); it is sound when scipy's is, and it is sound when scipy
    returns a positive zero of the translated residual lambda ([returns_roots]).  The three count relations take
    np.log(c2c): its being non-zero follows from [tol < |c2c - 1|] for a tolerance >= 0 (the tabulated one is > 0).
    Rewriting with these equations turns every theorem of this file into a theorem about the translated text. *)
Definition C03_source_is_model_stmt : Prop :=
  forall tol L,
  (forall n r, src_get_start_size__count__c2c_expansion tol L n r = start_count_c2c tol L n r) /\
  (forall e E, src_get_start_size__end_size__total_expansion tol L e E = start_end_total L e E) /\
  (forall s E, src_get_end_size__start_size__total_expansion tol L s E = end_start_total L s E) /\
  (0 <= tol -> forall s r, src_get_count__start_size__c2c_expansion tol L s r = count_start_c2c tol L s r) /\
  (0 <= tol -> forall e r, src_get_count__end_size__c2c_expansion tol L e r = count_end_c2c tol L e r) /\
  (0 <= tol -> forall E r, src_get_count__total_expansion__c2c_expansion tol L E r = count_total_c2c tol L E r) /\
  (forall n E, src_get_c2c_expansion__count__total_expansion tol L n E = c2c_count_total L n E) /\
  (forall n r, src_get_total_expansion__count__c2c_expansion tol L n r = total_count_c2c L n r) /\
  (forall s e, src_get_total_expansion__start_size__end_size tol L s e = total_start_end L s e) /\
  (forall bq E s, src_get_count__total_expansion__start_size tol (bq_count bq L E s) L E s
                  = count_total_start tol (guarded tol bq) L E s) /\
  (forall bq n s, src_get_c2c_expansion__count__start_size tol (bq_c2c_start bq L n s) L n s
                  = c2c_count_start tol (guarded tol bq) L n s) /\
  (forall bq n e, src_get_c2c_expansion__count__end_size tol (bq_c2c_end bq L n e) L n e
                  = c2c_count_end tol (guarded tol bq) L n e) /\
  (forall bq, brentq_sound bq -> brentq_sound (guarded tol bq)) /\
  (forall bq, returns_roots tol bq -> brentq_sound (guarded tol bq)) /\
  0 < TOL.
Theorem C03_source_is_model : C03_source_is_model_stmt.
Proof.
  intros tol L. repeat match goal with |- _ /\ _ => split end; intros.
  - apply src_start_count_c2c.
  - apply src_start_end_total.
  - apply src_end_start_total.
  - apply src_count_start_c2c; assumption.
  - apply src_count_end_c2c; assumption.
  - apply src_count_total_c2c; assumption.
  - apply src_c2c_count_total.
  - apply src_total_count_c2c.
  - apply src_total_start_end.
  - apply src_count_total_start.
  - apply src_c2c_count_start.
  - apply src_c2c_count_end.
  - apply guarded_sound; assumption.
  - apply roots_sound; assumption.
  - unfold TOL, dy. apply Rmult_lt_0_compat; [apply IZR_lt; reflexivity|apply powerRZ_lt; lra].
Qed.

(** ** the field logic of chop.py is the model.  Gen/C03/ChopSource.v is the state-passing translation
    (harness/props/C03_translate_chop.py, python ast -> Gallina, fail closed) of the bodies of Chop.__post_init__,
    Chop.invert and Chop.copy_preserving as they are in the working tree NOW, over the record [chop] of the seven
    dataclass fields ([None] result = python raises: 1 / 0.0).  For ALL field values:
    the translated methods are the record functions of Model/C03_Chop.v; those are [post_init] / [invert] of
    Model/C03_Relations.v on the five quantities ([data_of]: count read through int()) - the functions every
    theorem above and the sampled correspondence speak about; inverting twice gives the chop back (on the source);
    invert raises exactly for a zero ratio; a copy made by copy_preserving has the count of the results, exactly one
    of the four real parameters - the preserved one, with the value of the results (reciprocal for an inverted
    c2c_expansion), filed under the swapped kind when inverted - and the swapped preserve tag iff inverted. *)
Definition C03_chop_source_is_model_stmt : Prop :=
  (forall c, src_Chop___post_init__ c = Some (chop_post_init c)) /\
  (forall c, src_Chop_invert c = chop_invert_opt c) /\
  (forall c results inverted,
     src_Chop_copy_preserving c results inverted = chop_copy_preserving c results inverted) /\
  (forall c, data_of (chop_post_init c) = post_init (data_of c)) /\
  (forall c, data_of (chop_invert c) = invert (data_of c)) /\
  (forall c c', src_Chop_invert c = Some c' -> src_Chop_invert c' = Some c) /\
  (forall c, src_Chop_invert c = None <-> (c_c2c_expansion c = Some 0 \/ c_total_expansion c = Some 0)) /\
  (forall c results inverted k n v,
     c_count results = Some n -> tag_get (c_preserve c) results = Some v ->
     src_Chop_copy_preserving c results inverted = Some k ->
     n_real k = 1%nat /\ c_count k = Some (IZR (Z.max (Ztrunc n) 1)) /\ c_length_ratio k = c_length_ratio c /\
     c_preserve k = (if inverted then swap_tag (c_preserve c) else c_preserve c) /\
     tag_get (c_preserve k) k =
       (if inverted then match c_preserve c with PC2c => Some (/ v) | _ => Some v end else Some v)) /\
  (forall c results k inverted,
     src_Chop_copy_preserving c results inverted = Some k ->
     c_preserve k = (if inverted then swap_tag (c_preserve c) else c_preserve c)).
Theorem C03_chop_source_is_model : C03_chop_source_is_model_stmt.
Proof.
  unfold C03_chop_source_is_model_stmt. repeat match goal with |- _ /\ _ => split end.
  - exact src_post_init_eq.
  - exact src_invert_eq.
  - exact src_copy_preserving_eq.
  - exact post_init_data.
  - exact invert_data.
  - exact src_invert_involutive.
  - exact src_invert_raises.
  - intros c res inv k n v Hn Hv. rewrite src_copy_preserving_eq. intro H.
    exact (copy_one_real_field c res n v inv k Hn Hv H).
  - intros c res k inv. rewrite src_copy_preserving_eq. apply copy_preserve_tag.
Qed.

(** how a statement about the model's [invert] is read on the source: the translated invert, seen on the five
    quantities, is the [invert] of C03_invert_partial *)
Example source_invert_is_model_invert c c' :
  src_Chop_invert c = Some c' -> data_of c' = invert (data_of c) /\ c_preserve c' = swap_tag (c_preserve c).
Proof.
  rewrite src_invert_eq. unfold chop_invert_opt. destruct (ratios_nonzero c); [|discriminate].
  intro E; injection E as <-. split; [apply invert_data | reflexivity].
Qed.

(** how a theorem about the model is read as a theorem about the source: one relation, one plan *)
Example source_start_size_law tol L n r s :
  src_get_start_size__count__c2c_expansion tol L n r = Some s -> 0 < r -> (r = 1 \/ tol < Rabs (r - 1)) -> 0 <= tol ->
  0 < L /\ (1 <= n)%Z /\ s * gsum r (Z.to_nat n) = L /\ 0 < s.
Proof. rewrite src_start_count_c2c. apply start_count_c2c_law. Qed.

(** the plan (count, start_size) written with the translated functions and scipy's own answers: the first cell
    is the requested one (C03_size_exact_with_count read on the source) *)
Example source_plan_count_start_law bq L n s r E e :
  returns_roots TOL bq ->
  src_get_c2c_expansion__count__start_size TOL (bq_c2c_start bq L n s) L n s = Some r ->
  src_get_total_expansion__count__c2c_expansion TOL L n r = Some E ->
  src_get_end_size__start_size__total_expansion TOL L s E = Some e ->
  (1 <= n)%Z /\ 0 < E /\
  ((2 <= n)%Z -> Rabs (bm_first L (Z.to_nat n) E - s) <= TOL * bm_first L (Z.to_nat n) E).
Proof.
  intros Hroots H1 H2 H3.
  rewrite src_c2c_count_start in H1. rewrite src_total_count_c2c in H2. rewrite src_end_start_total in H3.
  assert (Hp : plan_count_start TOL (guarded TOL bq) L n s
               = Some (mk_data (Some n) (Some E) (Some r) (Some s) (Some e))).
  { unfold plan_count_start. rewrite H1. simpl. rewrite H2. simpl. rewrite H3. reflexivity. }
  assert (Htol : 0 <= TOL).
  { left. unfold TOL, dy. apply Rmult_lt_0_compat; [apply IZR_lt; reflexivity|apply powerRZ_lt; lra]. }
  destruct (plan_count_start_law TOL (guarded TOL bq) L n s _ Hp (roots_sound _ _ Hroots) Htol)
    as [E' [Hret [Hn [HE Hsz]]]].
  simpl in Hret. inversion Hret; subst E'. repeat split; assumption.
Qed.

(** the hypotheses are satisfiable: a sound oracle exists, the tabulated TOL is positive *)
Example brentq_sound_example : brentq_sound (Build_brentq (fun _ _ _ => None) (fun _ _ _ => None) (fun _ _ _ => None)).
Proof. repeat split; intros; simpl in *; discriminate. Qed.
Example TOL_pos : 0 < TOL.
Proof. unfold TOL, dy. apply Rmult_lt_0_compat; [apply IZR_lt; reflexivity|apply powerRZ_lt; lra]. Qed.
Example band_ok_example : band_ok TOL 1 /\ band_ok (1/10) 2.
Proof.
  split; [left; reflexivity|right]. split.
  - replace (2 - 1) with 1 by ring. rewrite Rabs_R1. lra.
  - replace (/ 2 - 1) with (- (1 / 2)) by field. rewrite Rabs_Ropp, Rabs_pos_eq; lra.
Qed.
Example plan_count_c2c_runs : exists d, plan_count_c2c TOL 1 10 1 = Some d.
Proof.
  unfold plan_count_c2c, start_count_c2c, total_count_c2c, end_start_total, valid_length.
  rewrite (Rltb_intro 0 1) by lra.
  rewrite (Rltb_intro_false TOL (Rabs (1 - 1)))
    by (replace (1 - 1) with 0 by ring; rewrite Rabs_R0; left; exact TOL_pos).
  simpl. eexists. reflexivity.
Qed.

Print Assumptions C03_plans_complete.
Print Assumptions C03_calculate_is_plan.
Print Assumptions C03_count_pos_E_pos.
Print Assumptions C03_realisation.
Print Assumptions C03_count_ratio_exact.
Print Assumptions C03_size_exact_with_count.
Print Assumptions C03_size_rounded.
Print Assumptions C03_uniform_branch.
Print Assumptions C03_uniform_floor_refuted.
Print Assumptions C03_invert_partial.
Print Assumptions C03_grading_inverted.
Print Assumptions C03_reject.
Print Assumptions C03_source_is_model.
Print Assumptions C03_chop_source_is_model.
