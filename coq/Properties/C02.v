(** C02 - Grading propagation terminates, completes and is order-independent.

    Model: Model/Propagate.v (BlockList.grade_blocks / propagate_gradings / check_consistency with the
    iteration orders of Axis.neighbours and Wire.coincidents as explicit oracle arguments).  Every
    theorem quantifies over ALL assemblies [bs] (any number of blocks, any vertex identification, any
    corner numbering, any insertion order: these are all just different [bs]) and ALL oracles. *)
From Coq Require Import List Bool Arith Lia.
From CB Require Import Base.Hex Model.Propagate Proofs.PropagateBasics Proofs.PropagateTerm Proofs.PropagateInv
  Proofs.PropagateInit Proofs.PropagateShort Proofs.PropagateFinal Proofs.PropagateOrder.
From CB Require Import Gen.C02.Tables.
Import ListNotations.

(** ** the model's axis table is the library's, and it is the hexahedron's *)
Definition C02_axis_pairs_stmt : Prop :=
  gen_axis_pairs = axis_pairs /\
  forallb (fun a => forallb (fun p =>
      match edge_axis (fst p) (snd p) with Some a' => a' =? a | None => false end && edge_positive (fst p) (snd p))
    (nth a axis_pairs [])) [0; 1; 2] = true /\
  nodupb (map (fun p => 8 * Nat.min (fst p) (snd p) + Nat.max (fst p) (snd p)) (concat axis_pairs)) = true /\
  length (concat axis_pairs) = 12.

Theorem C02_axis_pairs : C02_axis_pairs_stmt.
Proof. repeat split; vm_compute; reflexivity. Qed.

(** ** termination: whatever the input and the iteration orders, the loop ends within its fuel *)
Definition C02_terminates_stmt : Prop :=
  forall bs o_coin o_nbrs, run bs o_coin o_nbrs <> NoFuel.

Theorem C02_terminates : C02_terminates_stmt.
Proof. exact run_terminates. Qed.

(** families: [fam bs c x] = the block direction [x] is joined to [c] through shared edges *)
Definition family_without_chop (bs : list blk) : Prop :=
  exists x, In x (all_axes (nblocks bs)) /\
    forall c, In c (all_axes (nblocks bs)) -> chopped bs c = true -> ~ fam bs c x.
Definition every_family_chopped (bs : list blk) : Prop :=
  forall x, In x (all_axes (nblocks bs)) ->
    exists c, In c (all_axes (nblocks bs)) /\ chopped bs c = true /\ fam bs c x.

(** ** under-specified input: the outcome is the undefined-grading error exactly when some family has
    no chop (no partial dictionary, no loop), for every valid iteration order *)
Definition C02_undefined_stmt : Prop :=
  forall bs o_coin o_nbrs, nondegenerate bs = true -> oracle_ok bs o_coin o_nbrs = true ->
    (run bs o_coin o_nbrs = Undefined <-> family_without_chop bs).

Theorem C02_undefined : C02_undefined_stmt.
Proof.
  intros bs oc on ND K. destruct (oracle_ok_incl bs oc on K) as (A & B & B').
  exact (run_undefined_iff bs oc on A B B' ND K).
Qed.

(** ** completeness: if every family holds a chop, writing succeeds unless chops of a family
    conflict, and then every block direction carries the count of the chops of its family.
    The consistency check of the code compares, on every shared edge, the counts AND (since the repair
    of the C04 defect) the whole section lists.  A conflict of counts is always reported.  For chops of
    one section each ([single_section]) nothing else can go wrong: without a count conflict writing
    succeeds.  For multi-section chops writing succeeds exactly when, in addition, the section lists
    meeting on every shared edge agree (C02_complete_sections), which is decided by the user's chops alone:
    exactly when the chops the USER placed on directions sharing an edge agree there
    (C02_complete_sections_input). *)
Definition C02_complete_stmt : Prop :=
  forall bs o_coin o_nbrs, nondegenerate bs = true -> oracle_ok bs o_coin o_nbrs = true ->
    every_family_chopped bs ->
    (single_section bs -> ~ conflict bs -> exists cs ws, run bs o_coin o_nbrs = Ok cs ws) /\
    (conflict bs -> run bs o_coin o_nbrs = Inconsistent) /\
    (forall cs ws, run bs o_coin o_nbrs = Ok cs ws ->
       exists s, cs = map (fun b => map (written bs s) (axes_of_block b)) (seq 0 (nblocks bs)) /\
         forall x c, In x (all_axes (nblocks bs)) -> In c (all_axes (nblocks bs)) -> chopped bs c = true ->
                     fam bs c x -> written bs s x = total (user_chops bs c)).

Theorem C02_complete : C02_complete_stmt.
Proof.
  intros bs oc on ND K AF. destruct (oracle_ok_incl bs oc on K) as (A & B & B'). split; [|split].
  - intros SS NC. exact (no_conflict_ok bs oc on A B B' ND K SS AF NC).
  - intro CF. pose proof (conflict_never_ok bs oc on A B K CF) as NOK.
    pose proof (run_terminates bs oc on) as NT.
    pose proof (run_undefined_iff bs oc on A B B' ND K) as U.
    destruct (run bs oc on) eqn:R; try reflexivity.
    + exfalso. eapply NOK. reflexivity.
    + exfalso. destruct U as [U _]. destruct (U eq_refl) as (x & Vx & Hx).
      destruct (AF x Vx) as (c & Vc & Cc & F). eapply Hx; eauto.
    + congruence.
    + exfalso. unfold run in R. rewrite K in R. simpl in R.
      destruct (propagate bs oc on (fuel0 bs) (grade_blocks bs oc (init bs)) (seq 0 (nblocks bs))); try discriminate.
      destruct (consistent bs s); discriminate.
  - intros cs ws R. destruct (run_ok_inv bs oc on cs ws K R) as (s & E1 & _ & _ & _ & X). exists s. auto.
Qed.

(** chops with any number of sections: propagation completes, the count check passes, and the outcome
    is [Ok] or the inconsistent-gradings error according to the section lists on shared edges *)
Definition C02_complete_sections_stmt : Prop :=
  forall bs o_coin o_nbrs, nondegenerate bs = true -> oracle_ok bs o_coin o_nbrs = true ->
    every_family_chopped bs -> ~ conflict bs ->
    exists s, final bs o_coin o_nbrs = Some s /\ consistent_counts bs s = true /\
      (gradings_agree bs s = true -> exists cs ws, run bs o_coin o_nbrs = Ok cs ws) /\
      (gradings_agree bs s = false -> run bs o_coin o_nbrs = Inconsistent).

Theorem C02_complete_sections : C02_complete_sections_stmt.
Proof.
  intros bs oc on ND K AF NC. destruct (oracle_ok_incl bs oc on K) as (A & B & B').
  destruct (no_conflict_counts bs oc on A B B' ND K AF NC) as (s & P & C & X1 & X2).
  exists s. unfold final, start in *. rewrite P. auto.
Qed.

(** ... and whether the section lists agree is a property of the INPUT: [user_agree bs] compares, for
    every two wires of user-chopped directions joining the same two vertices, the two users' section
    lists (reversed when the wires run in opposite directions).  Section lists that propagation puts
    on a shared edge never disagree by themselves (Proofs/PropagateOrder.v, invariant [Agree]). *)
Definition C02_complete_sections_input_stmt : Prop :=
  forall bs o_coin o_nbrs, nondegenerate bs = true -> oracle_ok bs o_coin o_nbrs = true ->
    every_family_chopped bs -> ~ conflict bs ->
    (user_agree bs = true -> exists cs ws, run bs o_coin o_nbrs = Ok cs ws) /\
    (user_agree bs = false -> run bs o_coin o_nbrs = Inconsistent).

Theorem C02_complete_sections_input : C02_complete_sections_input_stmt.
Proof. intros bs oc on ND K AF NC. exact (run_characterised bs ND oc on K AF NC). Qed.

(** ** order independence, for chops of ANY number of sections: the complete outcome (its kind - ok,
    undefined error, inconsistent error - and on success every block count and every wire count) does
    not depend on the iteration order of the neighbour/coincident containers. *)
Definition C02_order_independent_stmt : Prop :=
  forall bs o1 n1 o2 n2, nondegenerate bs = true ->
    oracle_ok bs o1 n1 = true -> oracle_ok bs o2 n2 = true -> run bs o1 n1 = run bs o2 n2.

Theorem C02_order_independent : C02_order_independent_stmt.
Proof. intros bs o1 n1 o2 n2 ND K1 K2. exact (run_oracle_independent_all bs ND o1 n1 o2 n2 K1 K2). Qed.

(** the same, spelled out clause by clause (the form in which it used to be proved in part) *)
Inductive kind := KOk | KUndefined | KInconsistent | KNoFuel | KBadOracle.
Definition kind_of (o : outcome) : kind :=
  match o with Ok _ _ => KOk | Undefined => KUndefined | Inconsistent => KInconsistent
             | NoFuel => KNoFuel | BadOracle => KBadOracle end.

Definition C02_order_independent_kind_stmt : Prop :=
  forall bs o1 n1 o2 n2, nondegenerate bs = true ->
    oracle_ok bs o1 n1 = true -> oracle_ok bs o2 n2 = true ->
    kind_of (run bs o1 n1) = kind_of (run bs o2 n2) /\
    (forall cs1 ws1 cs2 ws2, run bs o1 n1 = Ok cs1 ws1 -> run bs o2 n2 = Ok cs2 ws2 -> cs1 = cs2 /\ ws1 = ws2) /\
    (run bs o1 n1 = Undefined <-> run bs o2 n2 = Undefined).

Theorem C02_order_independent_kind : C02_order_independent_kind_stmt.
Proof.
  intros bs o1 n1 o2 n2 ND K1 K2. rewrite (C02_order_independent bs o1 n1 o2 n2 ND K1 K2).
  split; [reflexivity|]. split; [|tauto]. intros cs1 ws1 cs2 ws2 R1 R2. rewrite R1 in R2. inversion R2. auto.
Qed.

(** What DOES depend on the iteration order is outside the outcome [Ok counts wire_counts]: the section
    LIST of a propagated wire that no other block shares.  A block B between a neighbour chopped [3;4]
    and a neighbour chopped [4;3] (same total) gets, on its free wire, the list of the neighbour met
    first.  Both orders succeed with the same counts. *)
Definition ow_blocks : list blk :=
  [ {| verts := [0; 1; 3; 2; 8; 9; 11; 10]; uchops := [[3; 4]; [2]; [2]] |};
    {| verts := [12; 13; 15; 14; 20; 21; 23; 22]; uchops := [[4; 3]; [2]; [2]] |};
    {| verts := [2; 3; 5; 4; 10; 11; 13; 12]; uchops := [[]; [5]; []] |} ].
Definition ow_coin_rev (w : wire) : list wire := rev (coin_set ow_blocks w).
Definition ow_nbrs_rev (x : axis) : list axis := rev (nbr_set ow_blocks x).

Definition C02_free_wire_sections_order_dependent_stmt : Prop :=
  nondegenerate ow_blocks = true /\ user_agree ow_blocks = true /\
  oracle_ok ow_blocks (o_coin_ins ow_blocks) (o_nbrs_ins ow_blocks) = true /\
  oracle_ok ow_blocks ow_coin_rev ow_nbrs_rev = true /\
  run ow_blocks (o_coin_ins ow_blocks) (o_nbrs_ins ow_blocks) = run ow_blocks ow_coin_rev ow_nbrs_rev /\
  kind_of (run ow_blocks ow_coin_rev ow_nbrs_rev) = KOk /\
  match final ow_blocks (o_coin_ins ow_blocks) (o_nbrs_ins ow_blocks), final ow_blocks ow_coin_rev ow_nbrs_rev with
  | Some s1, Some s2 =>
      map (g s1) (wires_of_axis (2, 0)) = [[3; 4]; [3; 4]; [4; 3]; [3; 4]] /\
      map (g s2) (wires_of_axis (2, 0)) = [[3; 4]; [4; 3]; [4; 3]; [3; 4]]
  | _, _ => False
  end.

Theorem C02_free_wire_sections_order_dependent : C02_free_wire_sections_order_dependent_stmt.
Proof. vm_compute. repeat split; reflexivity. Qed.

(** hence the literal statement "the section list of every wire of the final state is independent of the
    iteration order" is FALSE of the model (and of the code: see notes/C02.md); only free wires of
    propagated blocks are affected, they are not compared by the consistency check and are not part of
    the counts the property speaks about *)
Definition C02_sections_order_independent_stmt : Prop :=
  forall bs o1 n1 o2 n2, nondegenerate bs = true ->
    oracle_ok bs o1 n1 = true -> oracle_ok bs o2 n2 = true ->
    forall s1 s2, final bs o1 n1 = Some s1 -> final bs o2 n2 = Some s2 ->
      forall w, In w (all_wires (nblocks bs)) -> g s1 w = g s2 w.

Theorem C02_sections_order_independent_refuted : ~ C02_sections_order_independent_stmt.
Proof.
  intro H. destruct C02_free_wire_sections_order_dependent as (ND & _ & K1 & K2 & _ & _ & M).
  specialize (H ow_blocks _ _ _ _ ND K1 K2).
  destruct (final ow_blocks (o_coin_ins ow_blocks) (o_nbrs_ins ow_blocks)) as [s1|]; [|contradiction].
  destruct (final ow_blocks ow_coin_rev ow_nbrs_rev) as [s2|]; [|contradiction].
  destruct M as [M1 M2]. specialize (H s1 s2 eq_refl eq_refl (2, 0, 1)).
  assert (In (2, 0, 1) (all_wires (nblocks ow_blocks))) as I.
  { apply in_all_wires. split; [apply in_all_axes|]; simpl; lia. }
  specialize (H I). simpl in M1, M2. inversion M1. inversion M2. congruence.
Qed.

(** the order in which the (repaired) implementation walks its containers is the insertion order, a
    function of the script; it is a valid oracle, so the outcome is a function of the script *)
Definition C02_deterministic_stmt : Prop :=
  forall bs, oracle_ok bs (o_coin_ins bs) (o_nbrs_ins bs) = true.

Theorem C02_deterministic : C02_deterministic_stmt.
Proof. exact insertion_oracle_ok. Qed.

(** ** non-vacuity: the assembly that used to live-lock (boxes A, C, B in a row, D on top of B, added
    in the order A, C, B, D) satisfies all hypotheses and is written with the family counts *)
Definition ex_blocks : list blk :=
  [ {| verts := [0; 1; 2; 3; 4; 5; 6; 7]; uchops := [[3]; [4]; [2]] |};
    {| verts := [8; 9; 10; 11; 12; 13; 14; 15]; uchops := [[3]; [4]; []] |};
    {| verts := [1; 8; 11; 2; 5; 12; 15; 6]; uchops := [[5]; []; []] |};
    {| verts := [5; 12; 15; 6; 16; 17; 18; 19]; uchops := [[]; []; [6]] |} ].

Example C02_example :
  (forall x, In x (all_axes (nblocks ex_blocks)) -> length (user_chops ex_blocks x) <= 1) /\
  nondegenerate ex_blocks = true /\ user_agree ex_blocks = true /\
  oracle_ok ex_blocks (o_coin_ins ex_blocks) (o_nbrs_ins ex_blocks) = true /\
  run ex_blocks (o_coin_ins ex_blocks) (o_nbrs_ins ex_blocks)
  = Ok [[3; 4; 2]; [3; 4; 2]; [5; 4; 2]; [5; 4; 6]]
       [[3; 3; 3; 3; 4; 4; 4; 4; 2; 2; 2; 2]; [3; 3; 3; 3; 4; 4; 4; 4; 2; 2; 2; 2];
        [5; 5; 5; 5; 4; 4; 4; 4; 2; 2; 2; 2]; [5; 5; 5; 5; 4; 4; 4; 4; 6; 6; 6; 6]].
Proof.
  split.
  - assert (H : forallb (fun x => length (user_chops ex_blocks x) <=? 1) (all_axes (nblocks ex_blocks)) = true) by (vm_compute; reflexivity).
    rewrite forallb_forall in H. intros x Hx. apply Nat.leb_le. apply H. exact Hx.
  - vm_compute. repeat split; reflexivity.
Qed.

Print Assumptions C02_axis_pairs.
Print Assumptions C02_terminates.
Print Assumptions C02_undefined.
Print Assumptions C02_complete.
Print Assumptions C02_complete_sections.
Print Assumptions C02_complete_sections_input.
Print Assumptions C02_order_independent.
Print Assumptions C02_order_independent_kind.
Print Assumptions C02_free_wire_sections_order_dependent.
Print Assumptions C02_sections_order_independent_refuted.
Print Assumptions C02_deterministic.
