(** C08 - Alternative arc specifications equal the analytic circle.

    Model: Model/C08_Arcs.v (transcribed from angle.py, origin.py, arc_base.py, functions.py; tied to the
    working tree by the interval correspondence of harness/props/C08.py on every run).
    Specification: [spec_point p1 p2 th a lam] = centre + rotation about the unit axis [a] by [th*lam] of
    (p1 - centre), the OpenFOAM definition of  arc v1 v2 <angle> (axis). *)
From Coq Require Import Reals Lra List.
From CB Require Import Base.Vec3 Model.C08_Arcs Proofs.C08_Theta Proofs.C08_Chord Proofs.C08_ThreePoint.
Import ListNotations.
Open Scope R_scope.

(** general position of an angle/axis specification: unit axis, perpendicular to a non-degenerate chord,
    sector angle in (0, 2 pi) of either sign *)
Definition theta_wf (p1 p2 : vec) (th : R) (a : vec) : Prop :=
  dot a a = 1 /\ dot (vsub p2 p1) a = 0 /\ vsub p2 p1 <> vzero /\ 0 < Rabs th < 2 * PI.

(** ** the specified arc: starts at p1, ends at p2, is a circle about [spec_centre] in the plane through
    p1 perpendicular to the axis, of radius |p2-p1| / (2 |sin(th/2)|); the code's centre is that centre *)
Definition C08_theta_centre_stmt : Prop :=
  forall p1 p2 th a, theta_wf p1 p2 th a ->
    spec_point p1 p2 th a 0 = p1 /\ spec_point p1 p2 th a 1 = p2
    /\ (forall lam, norm2 (vsub (spec_point p1 p2 th a lam) (spec_centre p1 p2 th a)) = norm2 (vsub p1 (spec_centre p1 p2 th a))
                 /\ dot (vsub (spec_point p1 p2 th a lam) p1) a = 0)
    /\ norm2 (vsub p1 (spec_centre p1 p2 th a)) = norm2 (vsub p2 p1) / (4 * (sin (th / 2) * sin (th / 2)))
    /\ (cos (th / 2) <> 0 -> theta_centre p1 p2 th a = spec_centre p1 p2 th a).

(** ** the third point written for an angle/axis arc is the point of the specified arc at half the sector
    angle (hence on the circle, in its plane, equidistant from the ends, on the intended side) *)
Definition C08_theta_mid_stmt : Prop :=
  forall p1 p2 th a, theta_wf p1 p2 th a ->
    arc_from_theta p1 p2 th a = spec_point p1 p2 th a (/ 2).

(** ** polyline edges (spline, polyLine, sampled curves) are not shorter than the end point distance *)
Definition C08_chord_bound_polyline_stmt : Prop :=
  (forall v1 pts v2, dist v1 v2 <= polyline_length (v1 :: pts ++ [v2]))
  /\ (forall p l, dist p (last l p) <= polyline_length (p :: l)).

(** ** the centre computed by arc_length_3point is the circumcentre, in the plane of the three points *)
Definition C08_three_point_centre_stmt : Prop :=
  forall ps pb pe, a3_denom ps pb pe <> 0 ->
    let c := a3_centre ps pb pe in
    norm2 (vsub pb c) = norm2 (vsub ps c) /\ norm2 (vsub pe c) = norm2 (vsub ps c)
    /\ dot (vsub c ps) (cross (vsub pb ps) (vsub pe ps)) = 0.

Theorem C08_theta_centre : C08_theta_centre_stmt.
Proof.
  intros p1 p2 th a (Ha & Hd & Hn & Hth). pose proof (sin_half_neq th Hth) as Hs.
  split; [apply spec_point_0|]. split; [apply spec_point_1; assumption|].
  split; [intro lam; split; [apply spec_point_on_circle | apply spec_point_in_plane]; assumption|].
  split; [apply spec_radius2; assumption|].
  intro Hc. apply theta_centre_is_spec; assumption.
Qed.

Theorem C08_theta_mid : C08_theta_mid_stmt.
Proof. intros p1 p2 th a (Ha & Hd & Hn & Hth). exact (theta_mid_is_spec_half p1 p2 th a Ha Hd Hn Hth). Qed.

Theorem C08_chord_bound_polyline : C08_chord_bound_polyline_stmt.
Proof. split; [exact spline_edge_chord | intros p l; exact (polyline_chord l p)]. Qed.

Theorem C08_three_point_centre : C08_three_point_centre_stmt.
Proof.
  intros ps pb pe Hd c. destruct (a3_equidistant ps pb pe Hd) as [H1 H2].
  destruct (a3_centre_offset ps pb pe Hd) as (_ & _ & H3). auto.
Qed.

(** the hypotheses are satisfiable *)
Example theta_wf_example : theta_wf (0, 0, 0) (1, 0, 0) 3 (0, 0, 1).
Proof.
  unfold theta_wf. repeat split.
  - vec_simpl. ring.
  - vec_simpl. ring.
  - intro H. apply (f_equal vx) in H. unfold vzero in H. vec_simpl. lra.
  - unfold Rabs. destruct (Rcase_abs 3); lra.
  - unfold Rabs. destruct (Rcase_abs 3); pose proof PI2_3_2; unfold PI2 in *; lra.
Qed.

Print Assumptions C08_theta_centre.
Print Assumptions C08_theta_mid.
Print Assumptions C08_chord_bound_polyline.
Print Assumptions C08_three_point_centre.
