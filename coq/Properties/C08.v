(** C08 - Alternative arc specifications equal the analytic circle.

    Model: Model/C08_Arcs.v (transcribed from angle.py, origin.py, arc_base.py, functions.py).  Tie: the vector
    code - arc_from_theta, arc_from_origin, arc_mid / divide_arc, arc_length_3point, unit_vector, norm - is translated
    from the working tree on every run (harness/translate_np.py -> Gen/C08/Source.v) and PROVED equal to the model for
    all arguments ([C08_source_is_model], Proofs/C08_SourceEq.v); ArcEdgeBase.length / is_valid and polyline_length, and
    the translator's reading of float arithmetic, by the interval correspondence of harness/props/C08.py.
    Specification: [spec_point p1 p2 th a lam] = centre + rotation about the unit axis [a] by [th*lam] of
    (p1 - centre), the OpenFOAM definition of  arc v1 v2 <angle> (axis). *)
From Coq Require Import Reals Lra List.
From CB Require Import Base.Vec3 Model.C08_Arcs Proofs.C08_Theta Proofs.C08_Chord Proofs.C08_ThreePoint
  Proofs.C08_Circle Proofs.C08_Length Proofs.C08_Reflex.
From CB Require Import Gen.C08.Source Proofs.C08_SourceEq.
Import ListNotations.
Open Scope R_scope.

(** general position of an angle/axis specification: unit axis, perpendicular to a non-degenerate chord,
    sector angle in (0, 2 pi) of either sign *)
Definition theta_wf (p1 p2 : vec) (th : R) (a : vec) : Prop :=
  dot a a = 1 /\ dot (vsub p2 p1) a = 0 /\ vsub p2 p1 <> vzero /\ 0 < Rabs th < 2 * PI.

(** ** the specified arc: starts at p1, ends at p2, is a circle about [spec_centre] in the plane through
    p1 perpendicular to the axis, of radius |p2-p1| / (2 |sin(th/2)|); the code's centre is that centre *)
Definition C08_theta_centre_stmt : Prop :=
  forall p1 p2 th a, theta_wf p1 p2 th a ->
    spec_point p1 p2 th a 0 = p1 /\ spec_point p1 p2 th a 1 = p2
    /\ (forall lam, norm2 (vsub (spec_point p1 p2 th a lam) (spec_centre p1 p2 th a)) = norm2 (vsub p1 (spec_centre p1 p2 th a))
                 /\ dot (vsub (spec_point p1 p2 th a lam) p1) a = 0)
    /\ norm2 (vsub p1 (spec_centre p1 p2 th a)) = norm2 (vsub p2 p1) / (4 * (sin (th / 2) * sin (th / 2)))
    /\ (cos (th / 2) <> 0 -> theta_centre p1 p2 th a = spec_centre p1 p2 th a).

(** ** the third point written for an angle/axis arc is the point of the specified arc at half the sector
    angle (hence on the circle, in its plane, equidistant from the ends, on the intended side) *)
Definition C08_theta_mid_stmt : Prop :=
  forall p1 p2 th a, theta_wf p1 p2 th a ->
    arc_from_theta p1 p2 th a = spec_point p1 p2 th a (/ 2).

(** ** the reported length of an angle/axis arc (arc_length_3point through the written point) is
    radius * |sector angle|, the radius being that of the specified circle *)
Definition C08_theta_length_stmt : Prop :=
  forall p1 p2 th a, theta_wf p1 p2 th a ->
    arc_length_3point p1 (arc_from_theta p1 p2 th a) p2 = norm (vsub p1 (spec_centre p1 p2 th a)) * Rabs th.

(** ** the code of the snapshot (before fixes/C08-1.diff), [arc_from_theta_v0], does not have this property:
    for sector angles above pi it returns the middle of the complementary arc *)
Definition C08_theta_mid_v0_stmt : Prop :=
  forall p1 p2 th a, theta_wf p1 p2 th a ->
    arc_from_theta_v0 p1 p2 th a = spec_point p1 p2 th a (/ 2).

(** ** circles in general position: centre [c], radius [rad], orthonormal [u], [v] spanning the plane;
    [cpt c rad u v t] = c + rad (cos t u + sin t v).
    Origin arcs (flatness 1, origin = centre, hence equidistant; the specified arc is the minor one, included
    angle phi < pi): the written point is the point of the circle at half the included angle and the reported
    length is radius * included angle *)
Definition C08_origin_stmt : Prop :=
  forall tol c rad u v phi, 0 <= tol -> onb u v -> 0 < rad -> 0 < phi < PI ->
    arc_from_origin tol (cpt c rad u v 0) (cpt c rad u v phi) c 1 = cpt c rad u v (phi / 2)
    /\ arc_length_3point (cpt c rad u v 0) (arc_from_origin tol (cpt c rad u v 0) (cpt c rad u v phi) c 1) (cpt c rad u v phi)
       = rad * phi.

(** the same, point-wise, for any end points and any origin equidistant from them (not the middle of the chord):
    the written point is on the circle about the origin, on the bisector of the chord on the chord's side of the
    origin (the minor arc), equidistant from both end points *)
Definition C08_origin_pointwise_stmt : Prop :=
  forall tol c p1 p3, 0 <= tol -> norm2 (vsub p1 c) = norm2 (vsub p3 c) -> vadd (vsub p1 c) (vsub p3 c) <> vzero ->
    let m := arc_from_origin tol p1 p3 c 1 in
    norm2 (vsub m c) = norm2 (vsub p1 c)
    /\ (exists t, 0 < t /\ vsub m c = vscale t (vadd (vsub p1 c) (vsub p3 c)))
    /\ norm2 (vsub m p1) = norm2 (vsub m p3).

(** ** classic three-point arcs: the length is that of the arc from the first to the last point that passes
    through the given point, radius * phi, wherever on the arc (at angle psi) the given point lies *)
Definition C08_three_point_length_stmt : Prop :=
  forall c rad u v psi phi, onb u v -> 0 < rad -> 0 < psi -> psi < phi -> phi < 2 * PI ->
    arc_length_3point (cpt c rad u v 0) (cpt c rad u v psi) (cpt c rad u v phi) = rad * phi.
(** proved part: the given point lies less than half a turn after the first point (always the case for arcs of
    at most half a circle and for the points written by the angle/axis and origin conversions) *)
Definition C08_three_point_length_partial_stmt : Prop :=
  forall c rad u v psi phi, onb u v -> 0 < rad -> 0 < psi -> psi < phi -> phi < 2 * PI -> psi < PI ->
    arc_length_3point (cpt c rad u v 0) (cpt c rad u v psi) (cpt c rad u v phi) = rad * phi.
(** what the code computes otherwise: the length of the complementary arc *)
Definition C08_three_point_late_stmt : Prop :=
  forall c rad u v psi phi, onb u v -> 0 < rad -> PI <= psi -> psi < phi -> phi < 2 * PI ->
    arc_length_3point (cpt c rad u v 0) (cpt c rad u v psi) (cpt c rad u v phi) = rad * (2 * PI - phi).

(** ** every edge is at least as long as the distance of its end points: arc edges of all three kinds
    (ArcEdgeBase.length, any three points, any tolerance), polyline edges (spline, polyLine, sampled curves);
    line and project edges report that distance itself *)
Definition C08_chord_bound_stmt : Prop :=
  (forall tol v1 p3 v2, 0 <= tol -> dist v1 v2 <= arc_edge_length tol v1 p3 v2)
  /\ (forall v1 pts v2, dist v1 v2 <= polyline_length (v1 :: pts ++ [v2]))
  /\ (forall p l, dist p (last l p) <= polyline_length (p :: l)).

(** ** the centre computed by arc_length_3point is the circumcentre, in the plane of the three points *)
Definition C08_three_point_centre_stmt : Prop :=
  forall ps pb pe, a3_denom ps pb pe <> 0 ->
    let c := a3_centre ps pb pe in
    norm2 (vsub pb c) = norm2 (vsub ps c) /\ norm2 (vsub pe c) = norm2 (vsub ps c)
    /\ dot (vsub c ps) (cross (vsub pb ps) (vsub pe ps)) = 0.

(** ** the model is the source.  [src_f] (Gen/C08/Source.v) is the translation of the python function [f] of the
    working tree; [Some y]: read in real arithmetic the call returns y; [None]: it raises, or divides by zero / leaves
    the domain of sqrt, arccos (numpy: nan / inf with a RuntimeWarning) - the hypotheses below are exactly the
    conditions under which that does not happen.  [tol] is constants.TOL; [true] is adjust_center (OriginEdge).
    [origin_dom] (Proofs/C08_SourceEq.v): the origin is not the middle of the chord (branch that keeps it) / the radius
    exceeds half the chord and origin and end points are not collinear (branches that move the centre); it holds
    whenever the origin is not on the line through the end points. *)
Definition C08_source_is_model_stmt : Prop :=
  (forall tol v, src_norm tol v = Some (norm v))
  /\ (forall tol v, v <> vzero -> src_unit_vector tol v = Some (vunit v))
  /\ (forall tol, src_unit_vector tol vzero = None)
  /\ (forall tol ax c p1 p2, secant_mid p1 p2 <> c ->
        src_arc_mid tol ax c p1 p2 = Some (arc_mid c p1 p2) /\ src_divide_arc tol ax c p1 p2 = Some [arc_mid c p1 p2])
  /\ (forall tol p1 p2 th a, 0 < Rabs th < 2 * PI -> cross (vsub p2 p1) a <> vzero ->
        src_arc_from_theta tol p1 p2 th a = Some (arc_from_theta p1 p2 th a))
  /\ (forall tol p1 p2 th a, ~ 0 < Rabs th < 2 * PI -> src_arc_from_theta tol p1 p2 th a = None)
  /\ (forall tol p1 p3 c mult, origin_dom tol p1 p3 c mult ->
        src_arc_from_origin tol p1 p3 c true mult = Some (arc_from_origin tol p1 p3 c mult))
  /\ (forall tol p1 p3 c mult, cross (vsub p1 c) (vsub p3 c) <> vzero -> origin_dom tol p1 p3 c mult)
  /\ (forall tol ps pb pe, / 1000000000000000000 <= Rabs (a3_denom ps pb pe) ->
        src_arc_length_3point tol ps pb pe = Some (arc_length_3point ps pb pe))
  /\ (forall tol ps pb pe, Rabs (a3_denom ps pb pe) < / 1000000000000000000 -> src_arc_length_3point tol ps pb pe = None).

(** ** hence the theorems of this file are theorems about the translated source: the third point of an angle/axis
    arc, its length (unless arc_length_3point rejects the triple: |denominator| < 1e-18), the origin arc on a circle and
    point-wise, the three-point length *)
Definition C08_on_source_stmt : Prop :=
  (forall tol p1 p2 th a, theta_wf p1 p2 th a ->
     src_arc_from_theta tol p1 p2 th a = Some (spec_point p1 p2 th a (/ 2))
     /\ (/ 1000000000000000000 <= Rabs (a3_denom p1 (spec_point p1 p2 th a (/ 2)) p2) ->
         src_arc_length_3point tol p1 (spec_point p1 p2 th a (/ 2)) p2 = Some (norm (vsub p1 (spec_centre p1 p2 th a)) * Rabs th)))
  /\ (forall tol c rad u v phi, 0 <= tol -> onb u v -> 0 < rad -> 0 < phi < PI ->
       src_arc_from_origin tol (cpt c rad u v 0) (cpt c rad u v phi) c true 1 = Some (cpt c rad u v (phi / 2))
       /\ (/ 1000000000000000000 <= Rabs (a3_denom (cpt c rad u v 0) (cpt c rad u v (phi / 2)) (cpt c rad u v phi)) ->
           src_arc_length_3point tol (cpt c rad u v 0) (cpt c rad u v (phi / 2)) (cpt c rad u v phi) = Some (rad * phi)))
  /\ (forall tol c p1 p3, 0 <= tol -> norm2 (vsub p1 c) = norm2 (vsub p3 c) -> vadd (vsub p1 c) (vsub p3 c) <> vzero ->
       exists m, src_arc_from_origin tol p1 p3 c true 1 = Some m
         /\ norm2 (vsub m c) = norm2 (vsub p1 c)
         /\ (exists t, 0 < t /\ vsub m c = vscale t (vadd (vsub p1 c) (vsub p3 c)))
         /\ norm2 (vsub m p1) = norm2 (vsub m p3))
  /\ (forall tol c rad u v psi phi, onb u v -> 0 < rad -> 0 < psi -> psi < phi -> phi < 2 * PI -> psi < PI ->
       / 1000000000000000000 <= Rabs (a3_denom (cpt c rad u v 0) (cpt c rad u v psi) (cpt c rad u v phi)) ->
       src_arc_length_3point tol (cpt c rad u v 0) (cpt c rad u v psi) (cpt c rad u v phi) = Some (rad * phi)).

Theorem C08_theta_centre : C08_theta_centre_stmt.
Proof.
  intros p1 p2 th a (Ha & Hd & Hn & Hth). pose proof (sin_half_neq th Hth) as Hs.
  split; [apply spec_point_0|]. split; [apply spec_point_1; assumption|].
  split; [intro lam; split; [apply spec_point_on_circle | apply spec_point_in_plane]; assumption|].
  split; [apply spec_radius2; assumption|].
  intro Hc. apply theta_centre_is_spec; assumption.
Qed.

Theorem C08_theta_mid : C08_theta_mid_stmt.
Proof. intros p1 p2 th a (Ha & Hd & Hn & Hth). exact (theta_mid_is_spec_half p1 p2 th a Ha Hd Hn Hth). Qed.

Theorem C08_theta_length : C08_theta_length_stmt.
Proof. intros p1 p2 th a (Ha & Hd & Hn & Hth). exact (theta_length p1 p2 th a Ha Hd Hn Hth). Qed.

Theorem C08_theta_mid_v0_refuted : ~ C08_theta_mid_v0_stmt.
Proof.
  intros H. apply v0_reflex_differs. apply H. unfold theta_wf, w_p1, w_p2, w_a. repeat split.
  - vec_simpl. ring.
  - vec_simpl. ring.
  - intro E. apply (f_equal vx) in E. unfold vzero in E. vec_simpl. lra.
  - apply four_in_range.
  - apply four_in_range.
Qed.

Theorem C08_origin : C08_origin_stmt.
Proof.
  intros tol c rad u v phi Ht H Hr Hphi.
  split; [exact (origin_mid_circle tol c rad u v phi Ht H Hr Hphi) | exact (origin_length_circle tol c rad u v phi Ht H Hr Hphi)].
Qed.

Theorem C08_origin_pointwise : C08_origin_pointwise_stmt.
Proof.
  intros tol c p1 p3 Ht He Hs. rewrite (arc_from_origin_equidistant tol c p1 p3 Ht He).
  exact (arc_mid_pointwise c p1 p3 He Hs).
Qed.

Theorem C08_three_point_length_partial : C08_three_point_length_partial_stmt.
Proof. exact three_point_length_circle. Qed.

Theorem C08_three_point_late : C08_three_point_late_stmt.
Proof. exact three_point_length_circle_late. Qed.

Example onb_example : onb (1, 0, 0) (0, 1, 0).
Proof. unfold onb. repeat split; vec_simpl; ring. Qed.

(** the full statement is false of the code: quarter-circle steps, given point at pi, last point at 3 pi / 2 *)
Theorem C08_three_point_length_refuted : ~ C08_three_point_length_stmt.
Proof.
  intros H. pose proof PI_RGT_0 as Hpi.
  assert (H1 : 0 < PI) by lra. assert (H2 : PI < 3 * PI / 2) by lra. assert (H3 : 3 * PI / 2 < 2 * PI) by lra.
  pose proof (H (0, 0, 0) 1 (1, 0, 0) (0, 1, 0) PI (3 * PI / 2) onb_example Rlt_0_1 H1 H2 H3) as E.
  rewrite (three_point_length_circle_late (0, 0, 0) 1 (1, 0, 0) (0, 1, 0) PI (3 * PI / 2) onb_example Rlt_0_1 (Rle_refl PI) H2 H3) in E.
  lra.
Qed.

Theorem C08_chord_bound : C08_chord_bound_stmt.
Proof. split; [exact arc_edge_chord_bound | split; [exact spline_edge_chord | intros p l; exact (polyline_chord l p)]]. Qed.

Theorem C08_three_point_centre : C08_three_point_centre_stmt.
Proof.
  intros ps pb pe Hd c. destruct (a3_equidistant ps pb pe Hd) as [H1 H2].
  destruct (a3_centre_offset ps pb pe Hd) as (_ & _ & H3). auto.
Qed.

Theorem C08_source_is_model : C08_source_is_model_stmt.
Proof.
  split; [exact src_norm_eq|]. split; [exact src_unit_vector_eq|]. split; [exact src_unit_vector_zero|].
  split; [intros tol ax c p1 p2 H; split; [exact (src_arc_mid_eq tol ax c p1 p2 H) | exact (src_divide_arc_eq tol ax c p1 p2 H)]|].
  split; [exact src_arc_from_theta_eq|]. split; [exact src_arc_from_theta_guard|].
  split; [exact src_arc_from_origin_eq|]. split; [exact origin_dom_geometric|].
  split; [exact src_arc_length_3point_eq | exact src_arc_length_3point_guard].
Qed.

Theorem C08_on_source : C08_on_source_stmt.
Proof.
  split; [|split; [|split]].
  - intros tol p1 p2 th a Hwf. pose proof Hwf as (Ha & Hd & Hn & Hth).
    assert (E : src_arc_from_theta tol p1 p2 th a = Some (spec_point p1 p2 th a (/ 2))).
    { rewrite (src_arc_from_theta_eq tol p1 p2 th a Hth (theta_cross_nonzero p1 p2 a Ha Hd Hn)).
      f_equal. exact (C08_theta_mid p1 p2 th a Hwf). }
    split; [exact E|]. intros Hden. rewrite (src_arc_length_3point_eq tol _ _ _ Hden). f_equal.
    rewrite <- (C08_theta_mid p1 p2 th a Hwf). exact (C08_theta_length p1 p2 th a Hwf).
  - intros tol c rad u v phi Ht H Hr Hphi. destruct (C08_origin tol c rad u v phi Ht H Hr Hphi) as [Em El].
    assert (D : origin_dom tol (cpt c rad u v 0) (cpt c rad u v phi) c 1).
    { apply origin_dom_equidistant; [exact Ht | rewrite !norm2_cpt by exact H; reflexivity
                                    | exact (circle_ends_not_opposite c rad u v phi H Hr Hphi)]. }
    split.
    + rewrite (src_arc_from_origin_eq tol _ _ _ _ D). f_equal. exact Em.
    + intros Hden. rewrite (src_arc_length_3point_eq tol _ _ _ Hden). f_equal. rewrite <- Em. exact El.
  - intros tol c p1 p3 Ht He Hs. exists (arc_from_origin tol p1 p3 c 1). split.
    + exact (src_arc_from_origin_eq tol p1 p3 c 1 (origin_dom_equidistant tol p1 p3 c Ht He Hs)).
    + exact (C08_origin_pointwise tol c p1 p3 Ht He Hs).
  - intros tol c rad u v psi phi H Hr H1 H2 H3 H4 Hden. rewrite (src_arc_length_3point_eq tol _ _ _ Hden). f_equal.
    exact (C08_three_point_length_partial c rad u v psi phi H Hr H1 H2 H3 H4).
Qed.

(** the domain of the origin arc is inhabited (flatness 2, quarter circle about the origin) *)
Example origin_dom_inhabited : origin_dom (/ 10000000) (1, 0, 0) (0, 1, 0) (0, 0, 0) 2.
Proof. exact origin_dom_example. Qed.

(** the hypotheses are satisfiable *)
Example theta_wf_example : theta_wf (0, 0, 0) (1, 0, 0) 3 (0, 0, 1).
Proof.
  unfold theta_wf. repeat split.
  - vec_simpl. ring.
  - vec_simpl. ring.
  - intro H. apply (f_equal vx) in H. unfold vzero in H. vec_simpl. lra.
  - unfold Rabs. destruct (Rcase_abs 3); lra.
  - unfold Rabs. destruct (Rcase_abs 3); pose proof PI2_3_2; unfold PI2 in *; lra.
Qed.

Print Assumptions C08_theta_centre.
Print Assumptions C08_theta_mid.
Print Assumptions C08_theta_length.
Print Assumptions C08_theta_mid_v0_refuted.
Print Assumptions C08_origin.
Print Assumptions C08_origin_pointwise.
Print Assumptions C08_three_point_length_partial.
Print Assumptions C08_three_point_late.
Print Assumptions C08_three_point_length_refuted.
Print Assumptions C08_chord_bound.
Print Assumptions C08_three_point_centre.
Print Assumptions C08_source_is_model.
Print Assumptions C08_on_source.
