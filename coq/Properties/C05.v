(** C05 - One vertex per distinct point; duplicates only across merged patches.

    Model: Model/C05_VertexList.v ([assemble] = the vertex part of [Mesh.assemble]); it is tied to the
    code by the correspondence of the check (model evaluated inside Coq on the programs the real Mesh
    assembled) and by the table of [get_patches_at_corner] regenerated into Gen/C05/Tables.v.
    All statements quantify over the position type [P], the relation [near] (norm < TOL), every list
    of merged (master, slave) pairs and every list of operations, in every insertion order. *)
From Coq Require Import List Bool Arith ZArith Lia Permutation.
From CB Require Import Base.Hex Model.C05_VertexList Proofs.C05_Classify Proofs.C05_VertexList.
From CB Require Import Gen.C05.Tables Gen.C05.Source Proofs.C05_SourceEq.
Import ListNotations.
Open Scope nat_scope.

(** ** statements *)

(** vertex numbers are dense and equal the position in the written list; every block refers to
    vertices of the list; no vertex of the list is unused *)
Definition C05_dense_stmt : Prop :=
  forall (P : Type) (near : P -> P -> bool) (dp : P) (merged : list (nat * nat)) (ops : list (operation P)),
    let res := assemble P near merged dp ops in
    map vindex (vertices (fst res)) = seq 0 (length (vertices (fst res)))
    /\ (forall i c, i < length ops -> c < 8 ->
          nth_error (vertices (fst res)) (vindex (block_vertex P dp (snd res) i c)) = Some (block_vertex P dp (snd res) i c))
    /\ (forall j, j < length (vertices (fst res)) ->
          exists i c, i < length ops /\ c < 8 /\ vindex (block_vertex P dp (snd res) i c) = j).

(** every corner's vertex lies at the corner's position *)
Definition C05_position_stmt : Prop :=
  forall (P : Type) (near : P -> P -> bool) (dp : P) (merged : list (nat * nat)) (ops : list (operation P)) i c,
    i < length ops -> c < 8 ->
    let v := block_vertex P dp (snd (assemble P near merged dp ops)) i c in
    vpos v = corner_point P dp (nth i ops (dop P)) c \/ near (corner_point P dp (nth i ops (dop P)) c) (vpos v) = true.

(** identity: two corners (of any two operations) refer to one vertex iff they lie at the same
    position and lie on the same set of slave patches *)
Definition C05_identity_stmt : Prop :=
  forall (P : Type) (near : P -> P -> bool) (dp : P) (merged : list (nat * nat)) (ops : list (operation P)) i j c d,
    near_equiv_on P near (mesh_points P dp (slave_patches merged) ops) ->
    i < length ops -> j < length ops -> c < 8 -> d < 8 ->
    let blocks := snd (assemble P near merged dp ops) in
    (vindex (block_vertex P dp blocks i c) = vindex (block_vertex P dp blocks j d)
     <-> near (corner_point P dp (nth i ops (dop P)) c) (corner_point P dp (nth j ops (dop P)) d) = true
         /\ (forall n, slave_at P (slave_patches merged) (nth i ops (dop P)) c n
                       <-> slave_at P (slave_patches merged) (nth j ops (dop P)) d n)).

(** without merged pairs: same vertex iff same position *)
Definition C05_no_merge_stmt : Prop :=
  forall (P : Type) (near : P -> P -> bool) (dp : P) (ops : list (operation P)) i j c d,
    near_equiv_on P near (mesh_points P dp [] ops) ->
    i < length ops -> j < length ops -> c < 8 -> d < 8 ->
    let blocks := snd (assemble P near [] dp ops) in
    (vindex (block_vertex P dp blocks i c) = vindex (block_vertex P dp blocks j d)
     <-> near (corner_point P dp (nth i ops (dop P)) c) (corner_point P dp (nth j ops (dop P)) d) = true).

(** a corner on a slave patch never shares its vertex with a corner on no slave patch (in particular
    not with the corners of the master face), and more generally a shared vertex means equal slave
    sets; no hypothesis on [near] *)
Definition C05_slave_separate_stmt : Prop :=
  forall (P : Type) (near : P -> P -> bool) (dp : P) (merged : list (nat * nat)) (ops : list (operation P)) i j c d,
    i < length ops -> j < length ops -> c < 8 -> d < 8 ->
    let blocks := snd (assemble P near merged dp ops) in
    (vindex (block_vertex P dp blocks i c) = vindex (block_vertex P dp blocks j d) ->
     forall n, slave_at P (slave_patches merged) (nth i ops (dop P)) c n
               <-> slave_at P (slave_patches merged) (nth j ops (dop P)) d n)
    /\ (forall n, slave_at P (slave_patches merged) (nth i ops (dop P)) c n ->
        (forall m, ~ slave_at P (slave_patches merged) (nth j ops (dop P)) d m) ->
        vindex (block_vertex P dp blocks i c) <> vindex (block_vertex P dp blocks j d)).

(** the partition of the corners into vertices and the number of vertices do not depend on the
    order in which the operations were added; [corner_vertex final op c] is the vertex the final
    state holds for corner [c] of [op], and it is the one stored in the operation's block *)
Definition C05_order_independent_stmt : Prop :=
  forall (P : Type) (near : P -> P -> bool) (dp : P) (merged : list (nat * nat)) (ops ops' : list (operation P)),
    near_equiv_on P near (mesh_points P dp (slave_patches merged) ops) ->
    Permutation ops ops' ->
    let sl := slave_patches merged in
    let res := assemble P near merged dp ops in
    let res' := assemble P near merged dp ops' in
    length (vertices (fst res)) = length (vertices (fst res'))
    /\ (forall a b c d, In a ops -> In b ops -> c < 8 -> d < 8 ->
          (corner_vertex P near dp sl (fst res) a c = corner_vertex P near dp sl (fst res) b d
           <-> corner_vertex P near dp sl (fst res') a c = corner_vertex P near dp sl (fst res') b d))
    /\ (forall i c, i < length ops -> c < 8 ->
          corner_vertex P near dp sl (fst res) (nth i ops (dop P)) c = Some (vindex (block_vertex P dp (snd res) i c))).

(** the order in which Python iterates over the set of patch names is irrelevant *)
Definition C05_set_order_irrelevant_stmt : Prop :=
  forall l l' : list nat, Permutation l l' -> sort l = sort l'.

(** [get_patches_at_corner] (tabulated for all 64 sets of patched sides and 8 corners) returns
    exactly the patched sides among the sides of the reference hexahedron meeting at the corner *)
Definition C05_patches_at_corner_stmt : Prop :=
  forall ps c rs, In (ps, c, rs) tab_patches_at_corner ->
    forall s, In s rs <-> (In s ps /\ on_side s c = true).
Definition mask_sides (m : nat) : list side := filter (fun s => Nat.testbit m (side_slot s)) sides.
Definition C05_table_domain_stmt : Prop :=
  map (fun x => (fst (fst x), snd (fst x))) tab_patches_at_corner
  = map (fun mc => (mask_sides (fst mc), snd mc)) (list_prod (seq 0 64) corners).

(** the integer instance used by the correspondence: reflexive and symmetric for the regenerated TOL
    (transitivity is the hypothesis on the points of a program) *)
Definition C05_near_instance_stmt : Prop :=
  forall a b : zpoint, near_z tol2 a a = true /\ near_z tol2 a b = near_z tol2 b a.

(** face conformality (the stronger reading of "touching blocks are connected exactly where they
    touch"): two operations with a coincident face that is not a merged pair use the same four
    vertices there.  [m] pairs the corners of side [sa] of operation [i] with those of side [sb] of [j]. *)
Definition faces_coincide (P : Type) (near : P -> P -> bool) (dp : P) (opa opb : operation P) (sa sb : side)
           (m : list (nat * nat)) : Prop :=
  length m = 4 /\ same_set (map fst m) (side_corners sa) = true /\ same_set (map snd m) (side_corners sb) = true
  /\ forall x y, In (x, y) m -> near (corner_point P dp opa x) (corner_point P dp opb y) = true.
Definition merged_pair (P : Type) (merged : list (nat * nat)) (opa opb : operation P) (sa sb : side) : Prop :=
  exists a b, patch_of opa sa = Some a /\ patch_of opb sb = Some b /\ (In (a, b) merged \/ In (b, a) merged).
Definition C05_conformal_stmt : Prop :=
  forall (P : Type) (near : P -> P -> bool) (dp : P) (merged : list (nat * nat)) (ops : list (operation P)) i j sa sb m,
    near_equiv_on P near (mesh_points P dp (slave_patches merged) ops) ->
    i < length ops -> j < length ops -> i <> j ->
    faces_coincide P near dp (nth i ops (dop P)) (nth j ops (dop P)) sa sb m ->
    ~ merged_pair P merged (nth i ops (dop P)) (nth j ops (dop P)) sa sb ->
    let blocks := snd (assemble P near merged dp ops) in
    forall x y, In (x, y) m -> vindex (block_vertex P dp blocks i x) = vindex (block_vertex P dp blocks j y).
(** what is proved of it: the matched corners share their vertices when they carry equal slave sets *)
Definition C05_conformal_partial_stmt : Prop :=
  forall (P : Type) (near : P -> P -> bool) (dp : P) (merged : list (nat * nat)) (ops : list (operation P)) i j sa sb m,
    near_equiv_on P near (mesh_points P dp (slave_patches merged) ops) ->
    i < length ops -> j < length ops ->
    faces_coincide P near dp (nth i ops (dop P)) (nth j ops (dop P)) sa sb m ->
    let blocks := snd (assemble P near merged dp ops) in
    forall x y, In (x, y) m ->
      (forall n, slave_at P (slave_patches merged) (nth i ops (dop P)) x n
                 <-> slave_at P (slave_patches merged) (nth j ops (dop P)) y n) ->
      vindex (block_vertex P dp blocks i x) = vindex (block_vertex P dp blocks j y).

(** ** proofs *)
Theorem C05_dense : C05_dense_stmt.
Proof. intros P near dp merged ops. exact (assemble_dense P near dp (slave_patches merged) ops). Qed.

Theorem C05_position : C05_position_stmt.
Proof. intros P near dp merged ops i c. exact (assemble_position P near dp (slave_patches merged) ops i c). Qed.

Theorem C05_identity : C05_identity_stmt.
Proof. intros P near dp merged ops i j c d. exact (assemble_identity P near dp (slave_patches merged) ops i j c d). Qed.

Lemma no_slave_at_nil (P : Type) (op : operation P) c n : ~ slave_at P [] op c n.
Proof. intros [[] _]. Qed.

Theorem C05_no_merge : C05_no_merge_stmt.
Proof.
  intros P near dp ops i j c d Heq Hi Hj Hc Hd blocks.
  pose proof (assemble_identity P near dp [] ops i j c d Heq Hi Hj Hc Hd) as H. simpl in H.
  unfold blocks, assemble. simpl. rewrite H. split; [intros [A _]; exact A|].
  intros A. split; [exact A|]. intros n. split; intros B; destruct (no_slave_at_nil P _ _ _ B).
Qed.

Theorem C05_slave_separate : C05_slave_separate_stmt.
Proof.
  intros P near dp merged ops i j c d Hi Hj Hc Hd blocks.
  pose proof (assemble_slave_sets_equal P near dp (slave_patches merged) ops i j c d Hi Hj Hc Hd) as H.
  simpl in H. split; [exact H|].
  intros n Hn Hnone E. apply (Hnone n). apply (H E). exact Hn.
Qed.

Theorem C05_order_independent : C05_order_independent_stmt.
Proof.
  intros P near dp merged ops ops' Heq HP sl res res'.
  destruct (assemble_order_independent P near dp sl ops ops' Heq HP) as [A B].
  split; [exact A|]. split; [exact B|].
  intros i c Hi Hc. exact (assemble_corner_vertex P near dp sl ops i c Heq Hi Hc).
Qed.

Theorem C05_set_order_irrelevant : C05_set_order_irrelevant_stmt.
Proof. exact sort_perm. Qed.

Definition side_mem (s : side) (l : list side) : bool := existsb (side_eqb s) l.
Lemma side_eqb_eq s t : side_eqb s t = true <-> s = t.
Proof. destruct s, t; simpl; split; intros H; try reflexivity; try discriminate. Qed.
Lemma side_mem_In s l : side_mem s l = true <-> In s l.
Proof.
  unfold side_mem. rewrite existsb_exists. split.
  - intros (t & Ht & E). apply side_eqb_eq in E. subst. exact Ht.
  - intros H. exists s. split; [exact H|]. apply side_eqb_eq. reflexivity.
Qed.
Lemma In_sides s : In s sides.
Proof. destruct s; simpl; tauto. Qed.

Theorem C05_patches_at_corner : C05_patches_at_corner_stmt.
Proof.
  assert (H : forallb (fun x : list side * nat * list side =>
            let '(ps, c, rs) := x in
            forallb (fun s => Bool.eqb (side_mem s rs) (side_mem s ps && on_side s c)) sides)
            tab_patches_at_corner = true) by (vm_compute; reflexivity).
  rewrite forallb_forall in H.
  intros ps c rs Hin s. specialize (H _ Hin). cbv beta iota in H. rewrite forallb_forall in H.
  specialize (H s (In_sides s)). apply Bool.eqb_prop in H.
  rewrite <- !side_mem_In, H, andb_true_iff. reflexivity.
Qed.

Theorem C05_table_domain : C05_table_domain_stmt.
Proof. vm_compute. reflexivity. Qed.

Theorem C05_near_instance : C05_near_instance_stmt.
Proof.
  intros a b. split; [|apply near_z_sym]. apply near_z_refl. vm_compute. discriminate.
Qed.

Theorem C05_conformal_partial : C05_conformal_partial_stmt.
Proof.
  intros P near dp merged ops i j sa sb m Heq Hi Hj (Hlen & Hfa & Hfb & Hnear) blocks x y Hxy Hsl.
  assert (Hx : x < 8).
  { unfold same_set in Hfa. apply andb_true_iff in Hfa. destruct Hfa as [Hfa _]. rewrite forallb_forall in Hfa.
    assert (Hin : In x (map fst m)) by (apply in_map_iff; exists (x, y); auto).
    specialize (Hfa x Hin). apply existsb_exists in Hfa. destruct Hfa as (z & Hz & E). apply Nat.eqb_eq in E. subst z.
    unfold side_corners in Hz. apply filter_In in Hz. destruct Hz as [Hz _]. apply In_corners. exact Hz. }
  assert (Hy : y < 8).
  { unfold same_set in Hfb. apply andb_true_iff in Hfb. destruct Hfb as [Hfb _]. rewrite forallb_forall in Hfb.
    assert (Hin : In y (map snd m)) by (apply in_map_iff; exists (x, y); auto).
    specialize (Hfb y Hin). apply existsb_exists in Hfb. destruct Hfb as (z & Hz & E). apply Nat.eqb_eq in E. subst z.
    unfold side_corners in Hz. apply filter_In in Hz. destruct Hz as [Hz _]. apply In_corners. exact Hz. }
  apply (assemble_identity P near dp (slave_patches merged) ops i j x y Heq Hi Hj Hx Hy).
  split; [apply Hnear; exact Hxy|exact Hsl].
Qed.

(** the full conformality statement is false of the model (and of the implementation: the witness is
    replayed by the check): S1 = unit cube with its bottom on the slave patch 1, S2 = the cube next to
    it (no patch), pair (0, 1) merged.  The right face of S1 and the left face of S2 coincide, yet the
    two bottom corners differ: S1 uses its slave copies, S2 the plain vertices. *)
Definition w_cube (x0 : Z) : list zpoint :=
  [zp x0 0 0; zp (x0 + 1) 0 0; zp (x0 + 1) 1 0; zp x0 1 0; zp x0 0 1; zp (x0 + 1) 0 1; zp (x0 + 1) 1 1; zp x0 1 1].
Definition w_ops : list (operation zpoint) :=
  [mkOp (w_cube 0) [Some 1; None; None; None; None; None]; mkOp (w_cube 1) [None; None; None; None; None; None]].
Definition w_merged : list (nat * nat) := [(0, 1)].
Definition w_match : list (nat * nat) := [(1, 0); (2, 3); (5, 4); (6, 7)].

Theorem C05_conformal_refuted : ~ C05_conformal_stmt.
Proof.
  intros H.
  specialize (H zpoint (near_z 0) (zp 0 0 0) w_merged w_ops 0 1 Right Left w_match
                (near_z_0_equiv _) ltac:(simpl; lia) ltac:(simpl; lia) ltac:(lia)).
  assert (F : faces_coincide zpoint (near_z 0) (zp 0 0 0) (nth 0 w_ops (dop zpoint)) (nth 1 w_ops (dop zpoint)) Right Left w_match).
  { split; [reflexivity|]. split; [vm_compute; reflexivity|]. split; [vm_compute; reflexivity|].
    intros x y Hin. simpl in Hin.
    destruct Hin as [E|[E|[E|[E|[]]]]]; inversion E; subst; vm_compute; reflexivity. }
  assert (N : ~ merged_pair zpoint w_merged (nth 0 w_ops (dop zpoint)) (nth 1 w_ops (dop zpoint)) Right Left).
  { intros (a & b & _ & Hb & _). vm_compute in Hb. discriminate. }
  specialize (H F N 1 0 (or_introl eq_refl)). vm_compute in H. discriminate.
Qed.

(** the hypothesis of the identity theorems is satisfiable: exact coincidence is an equivalence *)
Example C05_hypothesis_satisfiable : forall pts, near_equiv_on zpoint (near_z 0) pts.
Proof. exact near_z_0_equiv. Qed.

(** ** source tie: the hand model of [VertexList] is the translated source (Gen/C05/Source.v, regenerated from
    lists/vertex_list.py on every run by harness/props/C05_translate.py), for ALL arguments: the translated
    [find_duplicated] (result and the caller's list it sorts in place), [find_unique], [DuplicatedEntry] (on a sorted list), [add] with a
    list of slave patches, any sequence of [add] calls ([run], what [_add_vertices] does per operation) and the model's
    [assemble_from] rebuilt on the translated [add].  No hypotheses. *)
Definition C05_source_is_model_stmt : Prop :=
  (forall ds p k, src_find_duplicated ds p k = (find_duplicated zpoint (near_z tol2) ds p (sort k), sort k))
  /\ (forall vs p, src_find_unique vs p = find (fun v => near_z tol2 p (vpos v)) vs)
  /\ (forall v k, src_DuplicatedEntry v (sort k) = mkD v (sort k))
  /\ (forall l p k, src_add l p k = add zpoint (near_z tol2) l p k)
  /\ (forall reqs l, src_run l reqs = run zpoint (near_z tol2) l reqs)
  /\ (forall slaves dflt ops l,
        src_assemble_from slaves dflt l ops = assemble_from zpoint (near_z tol2) slaves dflt l ops).

Theorem C05_source_is_model : C05_source_is_model_stmt.
Proof.
  exact (conj src_find_duplicated_eq (conj src_find_unique_eq (conj src_DuplicatedEntry_eq
          (conj src_add_eq (conj src_run_is_model src_assemble_is_model))))).
Qed.

Print Assumptions C05_dense.
Print Assumptions C05_position.
Print Assumptions C05_identity.
Print Assumptions C05_no_merge.
Print Assumptions C05_slave_separate.
Print Assumptions C05_order_independent.
Print Assumptions C05_set_order_irrelevant.
Print Assumptions C05_patches_at_corner.
Print Assumptions C05_table_domain.
Print Assumptions C05_near_instance.
Print Assumptions C05_conformal_partial.
Print Assumptions C05_conformal_refuted.
Print Assumptions C05_source_is_model.
