(** C20 - Construction and life-cycle preconditions are enforced symmetrically.

    [g_*] (Gen/C20/Guards.v) are the guard conditions of the working tree of /repo, extracted from the
    source in this run ([true] = the call raises); [tab_*] (Gen/C20/Tables.v) are accept/reject of the
    real calls over their whole probed index domain.  Every statement says: the guard fires exactly
    when the documented precondition is violated - for all rationals / integers, on both sides of
    every boundary. *)
From Coq Require Import QArith Qabs ZArith Bool List Arith Lia Lqa.
From CB Require Import Base.Hex Model.C20_Guards Proofs.C20_Guards.
From CB Require Import Gen.C20.Guards Gen.C20.Tables.
Import ListNotations.

(** ** perpendicularity: |axis . radius| <= TOL, both signs *)
Definition perp_spec (g : Q -> bool) : Prop := forall d : Q, g d = true <-> ~ (Qabs d <= TOL)%Q.

Definition C20_semicylinder_perp_stmt : Prop := perp_spec g_semicylinder_perp.
Definition C20_frustum_perp_stmt : Prop := perp_spec g_frustum_perp.
Definition C20_annulus_perp_stmt : Prop := perp_spec g_annulus_perp.
Definition C20_face_coplanar_stmt : Prop :=
  forall (check : bool) (d : Q), g_face_coplanar check d = true <-> (check = true /\ ~ (Qabs d <= TOL)%Q).

(** a deviation d and the deviation -d are treated alike; a radius leaning by e towards the axis
    direction and one leaning by -e are treated alike *)
Definition C20_perp_symmetric_stmt : Prop :=
  forall g, In g [g_semicylinder_perp; g_frustum_perp; g_annulus_perp; g_face_coplanar true] ->
    (forall d : Q, g d = g (- d)%Q)
    /\ (forall (ax r0 : Q * Q * Q) (e : Q), (qdot ax r0 == 0)%Q ->
          g (qdot ax (qadd r0 (qscale e ax))) = g (qdot ax (qadd r0 (qscale (- e) ax)))).

(** ** ranges of real-valued arguments *)
Definition C20_length_ratio_stmt : Prop :=
  forall r : Q, g_length_ratio r = true <-> ~ (0 < r /\ r <= 1)%Q.
(* inner radius below the outer one by at least the merge tolerance; in particular inner >= outer is rejected *)
Definition C20_annulus_radii_stmt : Prop :=
  (forall i o : Q, g_annulus_radii i o = true <-> ~ (i + TOL <= o)%Q)
  /\ (forall i o : Q, (o <= i)%Q -> g_annulus_radii i o = true).
Definition C20_chain_length_stmt : Prop :=
  forall l : Q, (g_cylinder_chain l = true <-> ~ (0 <= l)%Q)
             /\ (g_frustum_chain l = true <-> ~ (0 <= l)%Q)
             /\ (g_ring_chain l = true <-> ~ (0 <= l)%Q).
Definition C20_ring_contract_stmt : Prop :=
  forall i s : Q, g_ring_contract i s = true <-> ~ (0 < i /\ i <= s)%Q.

(** ** indices and counts (explicit guards, all integers) *)
Definition C20_face_add_edge_stmt : Prop := forall c : Z, g_face_add_edge c = true <-> ~ (0 <= c <= 3)%Z.
Definition C20_add_side_edge_stmt : Prop := forall c : Z, g_add_side_edge c = true <-> ~ (0 <= c <= 3)%Z.
Definition C20_project_corner_stmt : Prop := forall c : Z, g_project_corner c = true <-> ~ (0 <= c <= 7)%Z.
Definition C20_corner_pairs_stmt : Prop :=
  forall a b : Z, (g_project_edge a b = true <-> ~ (0 <= a < 8 /\ 0 <= b < 8)%Z)
               /\ (g_block_add_edge a b = true <-> ~ (0 <= a < 8 /\ 0 <= b < 8)%Z).
Definition C20_label_count_stmt : Prop := forall n : Z, g_label_count n = true <-> ~ (1 <= n <= 2)%Z.
Definition C20_counts_stmt : Prop :=
  forall n : Z,
    ((g_face_edges true n = true <-> n <> 4%Z) /\ g_face_edges false n = false)
    /\ (g_side_vertices n = true <-> n <> 8%Z)
    /\ (g_from_series n = true <-> ~ (2 <= n)%Z)
    /\ (g_cylinder_fill n = true <-> n <> 8%Z)
    /\ (forall m, g_face_counts n m = true <-> n <> m).
Definition C20_shapes_stmt : Prop :=
  forall s : list Z, (g_point_shape s = true <-> s <> [3%Z]) /\ (g_face_points s = true <-> s <> [4%Z; 3%Z]).
Definition C20_flags_stmt : Prop :=
  forall f : bool, (g_elbow_chain f = true <-> f = false)       (* source sketch is not a Disk *)
                /\ (g_mesh_grade f = true <-> f = false)         (* mesh not assembled *)
                /\ (g_mesh_backport f = true <-> f = false)
                /\ (g_junction_add_clamp f = true <-> f = true)  (* junction already has a clamp *)
                /\ (g_shell_chop f = true <-> f = true).         (* a face of the shell touches no other face *)

(** ** behaviour of the real calls over the whole probed index domain (explicit and implicit guards) *)
Definition zrange (lo : Z) (n : nat) : list Z := map (fun i => (lo + Z.of_nat i)%Z) (seq 0 n).

Definition index_tab_ok (lo hi : Z) (tab : list (Z * bool)) : bool :=
  forallb (fun x => Bool.eqb (snd x) (in_range lo hi (fst x))) tab.
Definition pair_tab_ok (tab : list (Z * Z * bool)) : bool :=
  forallb (fun x => Bool.eqb (snd x) (hex_edge_z (fst (fst x)) (snd (fst x)))) tab.
Definition shape_tab_ok (want : list Z) (tab : list (list Z * bool)) : bool :=
  forallb (fun x => Bool.eqb (snd x) (zlist_eqb (fst x) want)) tab.

Definition C20_tab_corners_stmt : Prop :=
  (forall c ok, In (c, ok) tab_face_add_edge -> ok = in_range 0 3 c)
  /\ (forall c ok, In (c, ok) tab_add_side_edge -> ok = in_range 0 3 c)
  /\ (forall c ok, In (c, ok) tab_project_corner -> ok = in_range 0 7 c)
  /\ (forall c ok, In (c, ok) tab_operation_chop -> ok = in_range 0 2 c)
  /\ (forall c ok, In (c, ok) tab_shape_chop -> ok = in_range 0 2 c).
Definition C20_tab_pairs_stmt : Prop :=
  (forall a b ok, In (a, b, ok) tab_project_edge -> ok = hex_edge_z a b)
  /\ (forall a b ok, In (a, b, ok) tab_block_add_edge -> ok = hex_edge_z a b)
  /\ (forall a b ok, In (a, b, ok) tab_frame_add_beam -> ok = hex_edge_z a b).
Definition C20_tab_counts_stmt : Prop :=
  (forall n ok, In (n, ok) tab_label_count -> ok = in_range 1 2 n)
  /\ (forall n ok, In (n, ok) tab_face_edges -> ok = in_range 4 4 n)
  /\ (forall n ok, In (n, ok) tab_side_vertices -> ok = in_range 8 8 n)
  /\ (forall n ok, In (n, ok) tab_from_series -> ok = (2 <=? n)%Z)
  /\ (forall n ok, In (n, ok) tab_cylinder_fill -> ok = in_range 8 8 n)
  /\ (forall s ok, In (s, ok) tab_point_shape -> ok = zlist_eqb s [3%Z])
  /\ (forall s ok, In (s, ok) tab_face_points -> ok = zlist_eqb s [4%Z; 3%Z]).
(* the tables cover -1, 0, max, max+1 and more on both sides *)
Definition C20_tab_domain_stmt : Prop :=
  map fst tab_face_add_edge = zrange (-6) 16 /\ map fst tab_add_side_edge = zrange (-6) 16
  /\ map fst tab_project_corner = zrange (-10) 23
  /\ map fst tab_operation_chop = zrange (-3) 9 /\ map fst tab_shape_chop = zrange (-3) 9
  /\ map fst tab_project_edge = list_prod (zrange (-9) 19) (zrange (-9) 19)
  /\ map fst tab_block_add_edge = list_prod (zrange (-9) 19) (zrange (-9) 19)
  /\ map fst tab_frame_add_beam = list_prod (zrange (-2) 12) (zrange (-2) 12)
  /\ map fst tab_label_count = zrange 0 6 /\ map fst tab_face_edges = zrange 0 8
  /\ map fst tab_side_vertices = zrange 5 7 /\ map fst tab_from_series = zrange 0 6.

(** ** history-dependent guards (state machines of Model/C20_Guards.v, tied by the correspondence) *)
(* grade / backport as last call of any history is refused exactly when the history contains no
   assemble() of at least one operation after the last clear() *)
Definition C20_lifecycle_stmt : Prop :=
  forall (h : list mcall) (c : mcall), needs_assembly c = true ->
    (last (m_run m_init (h ++ [c])) true = false <-> hist_assembled 0 false h = false).
(* after any history no junction carries two clamps; a clamp is refused exactly when it matches no
   junction or a clamped one; a link exactly when leader or follower match nothing or coincide *)
Definition C20_clamps_links_stmt : Prop :=
  (forall h, NoDup (g_state_after [] h))
  /\ (forall s p, g_step s (GClamp p) = None <-> (p = None \/ exists j, p = Some j /\ In j s))
  /\ (forall s l f, g_step s (GLink l f) = None <-> (l = None \/ f = None \/ l = f)).
(* the labels kept by a projected edge are the distinct surfaces named so far, and a constructor /
   add_label call is accepted exactly when there are one or two of them *)
Definition C20_labels_stmt : Prop :=
  forall have h k b, NoDup have -> nth_error (l_run have h) k = Some b ->
    let l := fold_left l_union (firstn (S k) h) have in
    NoDup l
    /\ (forall x, In x l <-> In x have \/ exists new, In new (firstn (S k) h) /\ In x new)
    /\ (b = true <-> (1 <= length l <= 2)%nat).

(** ** the two ties agree: on the whole probed domain the real call is accepted exactly when the guard
    taken from the source text does not fire (and, for corner pairs, the pair is an edge of the
    hexahedron, which the code decides by a lookup) *)
Definition guard_tab_ok (g : Z -> bool) (tab : list (Z * bool)) : bool :=
  forallb (fun x => Bool.eqb (snd x) (negb (g (fst x)))) tab.
Definition guard_pair_tab_ok (g : Z -> Z -> bool) (tab : list (Z * Z * bool)) : bool :=
  forallb (fun x => Bool.eqb (snd x) (negb (g (fst (fst x)) (snd (fst x))) && hex_edge_z (fst (fst x)) (snd (fst x)))) tab.
Definition guard_shape_tab_ok (g : list Z -> bool) (tab : list (list Z * bool)) : bool :=
  forallb (fun x => Bool.eqb (snd x) (negb (g (fst x)))) tab.
Definition C20_guard_tab_agree_stmt : Prop :=
  (forall c ok, In (c, ok) tab_face_add_edge -> ok = negb (g_face_add_edge c))
  /\ (forall c ok, In (c, ok) tab_add_side_edge -> ok = negb (g_add_side_edge c))
  /\ (forall c ok, In (c, ok) tab_project_corner -> ok = negb (g_project_corner c))
  /\ (forall a b ok, In (a, b, ok) tab_project_edge -> ok = negb (g_project_edge a b) && hex_edge_z a b)
  /\ (forall a b ok, In (a, b, ok) tab_block_add_edge -> ok = negb (g_block_add_edge a b) && hex_edge_z a b)
  /\ (forall n ok, In (n, ok) tab_label_count -> ok = negb (g_label_count n))
  /\ (forall n ok, In (n, ok) tab_face_edges -> ok = negb (g_face_edges true n))
  /\ (forall n ok, In (n, ok) tab_side_vertices -> ok = negb (g_side_vertices n))
  /\ (forall n ok, In (n, ok) tab_from_series -> ok = negb (g_from_series n))
  /\ (forall n ok, In (n, ok) tab_cylinder_fill -> ok = negb (g_cylinder_fill n))
  /\ (forall s ok, In (s, ok) tab_point_shape -> ok = negb (g_point_shape s))
  /\ (forall s ok, In (s, ok) tab_face_points -> ok = negb (g_face_points s)).

(** ** proofs *)
Ltac unfold_guards :=
  unfold g_semicylinder_perp, g_frustum_perp, g_annulus_perp, g_face_coplanar, g_length_ratio, g_annulus_radii,
    g_cylinder_chain, g_frustum_chain, g_ring_chain, g_ring_contract, g_face_add_edge, g_add_side_edge,
    g_project_corner, g_project_edge, g_block_add_edge, g_label_count, g_face_edges, g_side_vertices,
    g_from_series, g_cylinder_fill, g_face_counts, g_point_shape, g_face_points, g_elbow_chain, g_mesh_grade,
    g_mesh_backport, g_junction_add_clamp, g_shell_chop,
    ref_perp, ref_length_ratio, ref_annulus_radii, ref_chain_length, ref_contract, ref_corner4, ref_corner8,
    ref_corner_pair8, ref_label_count, ref_count_is, ref_count_lt, ref_counts_differ, ref_edges_given,
    ref_shape_is, ref_flag_not, ref_flag.

Lemma TOL_pos : (0 < TOL)%Q.
Proof. reflexivity. Qed.

Theorem C20_semicylinder_perp : C20_semicylinder_perp_stmt.
Proof. unfold C20_semicylinder_perp_stmt, perp_spec. qguard unfold_guards. Qed.

Theorem C20_frustum_perp : C20_frustum_perp_stmt.
Proof. unfold C20_frustum_perp_stmt, perp_spec. qguard unfold_guards. Qed.

Theorem C20_annulus_perp : C20_annulus_perp_stmt.
Proof. unfold C20_annulus_perp_stmt, perp_spec. qguard unfold_guards. Qed.

Theorem C20_face_coplanar : C20_face_coplanar_stmt.
Proof.
  unfold C20_face_coplanar_stmt. intros check d. destruct check.
  - qguard unfold_guards.
  - unfold_guards. simpl. split; [discriminate | intros [H _]; discriminate].
Qed.

Theorem C20_perp_symmetric : C20_perp_symmetric_stmt.
Proof.
  intros g Hin.
  assert (S : perp_spec g).
  { simpl in Hin. destruct Hin as [H|[H|[H|[H|[]]]]]; subst g.
    - exact C20_semicylinder_perp.
    - exact C20_frustum_perp.
    - exact C20_annulus_perp.
    - intro d. destruct (C20_face_coplanar true d) as [A B]. split.
      + intro H. apply A in H. tauto.
      + intro H. apply B. split; [reflexivity | exact H]. }
  split.
  - intro d. apply (perp_spec_symmetric TOL g S).
  - intros ax r0 e H. apply (perp_spec_lean TOL g S); exact H.
Qed.

Theorem C20_length_ratio : C20_length_ratio_stmt.
Proof. unfold C20_length_ratio_stmt. qguard unfold_guards. Qed.

Theorem C20_annulus_radii : C20_annulus_radii_stmt.
Proof.
  assert (A : forall i o : Q, g_annulus_radii i o = true <-> ~ (i + TOL <= o)%Q) by (qguard unfold_guards).
  split; [exact A|]. intros i o H. apply A. pose proof TOL_pos. lra.
Qed.

Theorem C20_chain_length : C20_chain_length_stmt.
Proof. unfold C20_chain_length_stmt. intro l. split; [|split]; qguard unfold_guards. Qed.

Theorem C20_ring_contract : C20_ring_contract_stmt.
Proof. unfold C20_ring_contract_stmt. qguard unfold_guards. Qed.

Theorem C20_face_add_edge : C20_face_add_edge_stmt.
Proof. unfold C20_face_add_edge_stmt. zguard unfold_guards. Qed.

Theorem C20_add_side_edge : C20_add_side_edge_stmt.
Proof. unfold C20_add_side_edge_stmt. zguard unfold_guards. Qed.

Theorem C20_project_corner : C20_project_corner_stmt.
Proof. unfold C20_project_corner_stmt. zguard unfold_guards. Qed.

Theorem C20_corner_pairs : C20_corner_pairs_stmt.
Proof. unfold C20_corner_pairs_stmt. intros a b. split; zguard unfold_guards. Qed.

Theorem C20_label_count : C20_label_count_stmt.
Proof. unfold C20_label_count_stmt. zguard unfold_guards. Qed.

Theorem C20_counts : C20_counts_stmt.
Proof.
  unfold C20_counts_stmt. intro n. split; [split|split; [|split; [|split]]]; zguard unfold_guards.
Qed.

Theorem C20_shapes : C20_shapes_stmt.
Proof.
  intro s. split; unfold_guards; rewrite negb_true_iff.
  - split; intro H.
    + intro E. subst s. discriminate.
    + destruct (zlist_eqb s [3%Z]) eqn:E; [|reflexivity]. exfalso. apply H. apply zlist_eqb_eq. exact E.
  - split; intro H.
    + intro E. subst s. discriminate.
    + destruct (zlist_eqb s [4%Z; 3%Z]) eqn:E; [|reflexivity]. exfalso. apply H. apply zlist_eqb_eq. exact E.
Qed.

Theorem C20_flags : C20_flags_stmt.
Proof. intro f. destruct f; unfold_guards; simpl; intuition (try discriminate; try reflexivity; try congruence). Qed.

Ltac finite_forall tab chk :=
  let H := fresh "H" in
  assert (H : forallb chk tab = true) by (vm_compute; reflexivity);
  rewrite forallb_forall in H.

Lemma index_tab_sound lo hi tab : index_tab_ok lo hi tab = true ->
  forall c ok, In (c, ok) tab -> ok = in_range lo hi c.
Proof.
  unfold index_tab_ok. intros H c ok Hin. rewrite forallb_forall in H. specialize (H _ Hin). simpl in H.
  apply eqb_prop in H. exact H.
Qed.

Lemma pair_tab_sound tab : pair_tab_ok tab = true ->
  forall a b ok, In (a, b, ok) tab -> ok = hex_edge_z a b.
Proof.
  unfold pair_tab_ok. intros H a b ok Hin. rewrite forallb_forall in H. specialize (H _ Hin). simpl in H.
  apply eqb_prop in H. exact H.
Qed.

Lemma shape_tab_sound want tab : shape_tab_ok want tab = true ->
  forall s ok, In (s, ok) tab -> ok = zlist_eqb s want.
Proof.
  unfold shape_tab_ok. intros H s ok Hin. rewrite forallb_forall in H. specialize (H _ Hin). simpl in H.
  apply eqb_prop in H. exact H.
Qed.

Theorem C20_tab_corners : C20_tab_corners_stmt.
Proof.
  repeat split; apply index_tab_sound; vm_compute; reflexivity.
Qed.

Theorem C20_tab_pairs : C20_tab_pairs_stmt.
Proof.
  repeat split; apply pair_tab_sound; vm_compute; reflexivity.
Qed.

Theorem C20_tab_counts : C20_tab_counts_stmt.
Proof.
  repeat split; try (apply index_tab_sound; vm_compute; reflexivity);
    try (apply shape_tab_sound; vm_compute; reflexivity).
  intros n ok Hin.
  assert (H : forallb (fun x : Z * bool => Bool.eqb (snd x) (2 <=? fst x)%Z) tab_from_series = true) by (vm_compute; reflexivity).
  rewrite forallb_forall in H. specialize (H _ Hin). simpl in H. apply eqb_prop in H. exact H.
Qed.

Theorem C20_tab_domain : C20_tab_domain_stmt.
Proof. repeat split; vm_compute; reflexivity. Qed.

Theorem C20_lifecycle : C20_lifecycle_stmt.
Proof. exact lifecycle_guard. Qed.

Theorem C20_clamps_links : C20_clamps_links_stmt.
Proof.
  split; [|split].
  - intro h. apply g_state_after_wf. constructor.
  - exact g_clamp_exact.
  - exact g_link_exact.
Qed.

Theorem C20_labels : C20_labels_stmt.
Proof.
  intros have h k b N H l. subst l. split; [|split].
  - apply fold_l_union_NoDup. exact N.
  - apply fold_l_union_In.
  - rewrite (l_run_exact have h k b H). unfold l_ok. rewrite andb_true_iff, !Nat.ltb_lt. lia.
Qed.

Lemma guard_tab_sound g tab : guard_tab_ok g tab = true -> forall c ok, In (c, ok) tab -> ok = negb (g c).
Proof.
  unfold guard_tab_ok. intros H c ok Hin. rewrite forallb_forall in H. specialize (H _ Hin). simpl in H.
  apply eqb_prop in H. exact H.
Qed.
Lemma guard_pair_tab_sound g tab : guard_pair_tab_ok g tab = true ->
  forall a b ok, In (a, b, ok) tab -> ok = negb (g a b) && hex_edge_z a b.
Proof.
  unfold guard_pair_tab_ok. intros H a b ok Hin. rewrite forallb_forall in H. specialize (H _ Hin). simpl in H.
  apply eqb_prop in H. exact H.
Qed.
Lemma guard_shape_tab_sound g tab : guard_shape_tab_ok g tab = true ->
  forall s ok, In (s, ok) tab -> ok = negb (g s).
Proof.
  unfold guard_shape_tab_ok. intros H s ok Hin. rewrite forallb_forall in H. specialize (H _ Hin). simpl in H.
  apply eqb_prop in H. exact H.
Qed.

Theorem C20_guard_tab_agree : C20_guard_tab_agree_stmt.
Proof.
  repeat split;
    first [ apply guard_tab_sound; vm_compute; reflexivity
          | apply guard_pair_tab_sound; vm_compute; reflexivity
          | apply guard_shape_tab_sound; vm_compute; reflexivity ].
Qed.

(** the hypotheses used above are satisfiable *)
Example lifecycle_example : needs_assembly MGrade = true /\ hist_assembled 0 false [MAdd; MAssemble] = true
  /\ m_run m_init [MGrade; MAdd; MAssemble; MGrade; MClear; MBackport] = [false; true; true; true; true; false].
Proof. repeat split. Qed.
Example labels_example : NoDup [0; 1]%nat /\ l_run [0; 1]%nat [[1]; [2]; [0]]%nat = [true; false; false].
Proof. split; [repeat constructor; simpl; intuition discriminate | reflexivity]. Qed.
Example lean_example : (qdot (1, 0, 0) (0, 1, 0) == 0)%Q.
Proof. reflexivity. Qed.

Print Assumptions C20_semicylinder_perp.
Print Assumptions C20_frustum_perp.
Print Assumptions C20_annulus_perp.
Print Assumptions C20_face_coplanar.
Print Assumptions C20_perp_symmetric.
Print Assumptions C20_length_ratio.
Print Assumptions C20_annulus_radii.
Print Assumptions C20_chain_length.
Print Assumptions C20_ring_contract.
Print Assumptions C20_face_add_edge.
Print Assumptions C20_add_side_edge.
Print Assumptions C20_project_corner.
Print Assumptions C20_corner_pairs.
Print Assumptions C20_label_count.
Print Assumptions C20_counts.
Print Assumptions C20_shapes.
Print Assumptions C20_flags.
Print Assumptions C20_tab_corners.
Print Assumptions C20_tab_pairs.
Print Assumptions C20_tab_counts.
Print Assumptions C20_tab_domain.
Print Assumptions C20_lifecycle.
Print Assumptions C20_clamps_links.
Print Assumptions C20_labels.
Print Assumptions C20_guard_tab_agree.
