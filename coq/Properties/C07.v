(** C07 - Curved-edge entries are unique, on real block edges and correctly directed.

    Gen/C07/Tables.v is what the real code of /repo wrote into the edges section in this run, for one
    curved edge on every slot x every edge kind x every way of using the face (as given, inverted,
    shifted, re-oriented), read back from the text; the specification is the reference hexahedron
    of Base/Hex.v and the slot directions of the public API (Model/C07_EdgeList.slot_dir).
    The list algorithm (EdgeList.find/add) and the real-valued predicates are hand models tied to the
    code by the correspondence of harness/props/C07.py (evaluated inside Coq). *)
From Coq Require Import List Bool Arith Reals.
From CB Require Import Base.Hex Base.Vec3 Model.C07_EdgeList Model.C07_Dir Proofs.C07_EdgeList Proofs.C07_Dir.
From CB Require Import Model.C07_Series Proofs.C07_Series.
From CB Require Import Gen.C07.Tables.
Import ListNotations.
Open Scope nat_scope.

(** ** vocabulary *)
(** the entry written as (v1, v2) with direction bit [ord] describes the user's curve from corner s to
    corner e: undirected data between the same two corners, or directed data listed forwards from s,
    or listed backwards from e *)
Definition consistent (s e v1 v2 ord : nat) : Prop :=
  (ord = 0 /\ ((v1 = s /\ v2 = e) \/ (v1 = e /\ v2 = s)))
  \/ (ord = 1 /\ v1 = s /\ v2 = e) \/ (ord = 2 /\ v1 = e /\ v2 = s).
(** kinds 0..4 (spline, polyLine, angle > 0, angle < 0, curve) carry direction-dependent data *)
Definition directed (k : nat) : bool := k <? 5.
(** variants 1 and 10 contain Face.invert, the others keep the cyclic order of the face *)
Definition inverting (var : nat) : bool := (var =? 1) || (var =? 10).
Definition is_slot_dir (a b : nat) : bool :=
  existsb (fun s => (fst (slot_dir s) =? a) && (snd (slot_dir s) =? b)) slots.

Definition row := (nat * nat * nat * (nat * nat) * (nat * nat * nat * nat))%type.
Definition expected_domain : list (nat * nat * nat) :=
  flat_map (fun k => map (fun s => (k, 0, s)) slots
                     ++ flat_map (fun var => map (fun s => (k, var, s)) (seq 0 8)) (seq 1 10)) (seq 0 8).

(** ** statements *)
(** exactly one entry; its vertex order and the order of its data agree with the direction in which
    the user defined the edge; directed kinds really were observed with a direction; for a face used
    as given the user's direction is the slot's direction of the API *)
Definition C07_direction_stmt : Prop :=
  forall k var slot s e n v1 v2 ord, In (k, var, slot, (s, e), (n, v1, v2, ord)) tab_dir ->
    n = 1 /\ consistent s e v1 v2 ord /\ (directed k = true -> ord <> 0) /\ (var = 0 -> (s, e) = slot_dir slot).
(** every written pair is an edge of the blockMesh hexahedron *)
Definition C07_on_block_edge_stmt : Prop :=
  (forall k var slot s e n v1 v2 ord, In (k, var, slot, (s, e), (n, v1, v2, ord)) tab_dir -> is_edge v1 v2 = true)
  /\ (forall v1 v2 slot, In (v1, v2, slot) tab_twelve -> is_edge v1 v2 = true).
(** after invert / shift / reorient the edge still lies between its two points (an edge of the
    hexahedron), is written consistently with the user's direction, and runs with the cyclic order of
    the face (shift, reorient) or against it (invert) *)
Definition C07_face_ops_keep_direction_stmt : Prop :=
  forall k var slot s e n v1 v2 ord, In (k, var, slot, (s, e), (n, v1, v2, ord)) tab_dir -> var <> 0 ->
    is_edge s e = true /\ consistent s e v1 v2 ord
    /\ (if inverting var then is_slot_dir e s else is_slot_dir s e) = true.
(** an operation with a curved edge on each of its 12 slots writes 12 entries, one per slot, each in
    the slot's direction, and every wire of the block receives the edge of its own slot *)
Definition C07_twelve_stmt : Prop :=
  length tab_twelve = 12
  /\ (forall v1 v2 slot, In (v1, v2, slot) tab_twelve -> (v1, v2) = slot_dir slot)
  /\ (forall s, In s slots -> length (filter (fun x => snd x =? s) tab_twelve) = 1).
Definition C07_wires_stmt : Prop :=
  length tab_wires = 12
  /\ (forall c1 c2 slot, In (c1, c2, slot) tab_wires ->
        slot < 12 /\ same_pair c1 c2 (fst (slot_dir slot)) (snd (slot_dir slot)) = true)
  /\ (forall s, In s slots -> length (filter (fun x => snd x =? s) tab_wires) = 1).
(** lines and arcs with a collinear point are not written, on any slot *)
Definition C07_omitted_stmt : Prop :=
  (forall k slot n, In (k, slot, n) tab_omitted -> n = 0)
  /\ map fst tab_omitted = list_prod [0; 1] slots.
(** the table covers kinds x (12 slots as given + 8 face slots x 10 face operations) *)
Definition C07_domain_stmt : Prop :=
  map (fun r : row => fst (fst r)) tab_dir = expected_domain.

(** the twelve slot directions are the twelve edges of the hexahedron, each once, the face slots in
    the cyclic order of the face *)
Definition C07_slots_stmt : Prop :=
  (forall s, In s slots -> is_edge (fst (slot_dir s)) (snd (slot_dir s)) = true)
  /\ (forall i j, In i corners -> In j corners -> is_edge i j = true ->
        length (filter (fun s => same_pair i j (fst (slot_dir s)) (snd (slot_dir s))) slots) = 1).

(** the list: after ANY sequence of adds no two entries have the same vertex set; from the empty list
    a vertex pair has exactly one entry iff some valid request named it (in either order); every
    entry is a valid request with its vertex order and data unchanged; the first valid request of a
    pair is the one written; invalid requests leave the list alone *)
Definition C07_unique_stmt : Prop :=
  forall rs l, uniq l -> uniq (add_all l rs).
Definition C07_exactly_once_stmt : Prop :=
  forall rs a b, count_pair (add_all [] rs) a b = if existsb (wants a b) rs then 1 else 0.
Definition C07_entries_are_requests_stmt : Prop :=
  forall rs v1 v2 tag, In (v1, v2, tag) (add_all [] rs) -> In (v1, v2, true, tag) rs.
Definition C07_first_wins_stmt : Prop :=
  forall rs1 rs2 v1 v2 tag, existsb (wants v1 v2) rs1 = false ->
    In (v1, v2, tag) (add_all [] (rs1 ++ (v1, v2, true, tag) :: rs2)).
Definition C07_invalid_ignored_stmt : Prop :=
  forall l v1 v2 tag, add l (v1, v2, false, tag) = l.

Open Scope R_scope.
(** the validity filter (the model [eligible] is tied to Edge.is_valid / ArcEdgeBase.is_valid by the
    interval correspondence): independent of the order of the vertices; lines, coincident vertices
    and collinear third points are never eligible; an eligible arc has a finite circle *)
Definition C07_valid_filter_stmt : Prop :=
  (forall tol k v1 p3 v2, eligible tol k v1 p3 v2 <-> eligible tol k v2 p3 v1)
  /\ (forall tol v1 p3 v2, ~ eligible tol KLine v1 p3 v2)
  /\ (forall tol k v p3, 0 < tol -> ~ eligible tol k v p3 v)
  /\ (forall tol v1 v2 lam, 0 <= tol -> ~ eligible tol KArc3 v1 (vadd v1 (vscale lam (vsub v2 v1))) v2)
  /\ (forall tol v1 p3 v2, 0 <= tol -> eligible tol KArc3 v1 p3 v2 ->
        0 < dot (vsub p3 v1) (vsub p3 v1) * dot (vsub v2 v1) (vsub v2 v1)
            - dot (vsub p3 v1) (vsub v2 v1) * dot (vsub p3 v1) (vsub v2 v1)).
(** a point-list entry that is consistent with the user's direction (forwards, or vertices and points
    both reversed) draws the user's point sequence and has the user's length *)
Definition C07_directed_length_stmt : Prop :=
  forall s pts e v1 wpts v2, describes s pts e v1 wpts v2 ->
    (drawn v1 wpts v2 = drawn s pts e \/ drawn v1 wpts v2 = rev (drawn s pts e))
    /\ spline_length v1 wpts v2 = spline_length s pts e.
(** the sense bit of an arc: swapping the end points (or the axis) flips it; on a genuine circular arc
    about a unit axis it is 2 r^2 sin(h) (1 - cos(h)) for the half angle h, i.e. it has the sign of the
    rotation angle *)
Definition C07_sense_stmt : Prop :=
  (forall p1 p2 t a, bulge p2 p1 t a = - bulge p1 p2 t a)
  /\ (forall p1 p2 t a, bulge p1 p2 t (vopp a) = - bulge p1 p2 t a)
  /\ (forall (c u v a : vec) (r ch sh : R),
        dot u u = 1 -> dot v v = 1 -> dot u v = 0 -> cross u a = vopp v -> cross v a = u ->
        ch * ch + sh * sh = 1 ->
        bulge (vadd c (vscale r u))
              (vadd c (vscale r (vadd (vscale (ch * ch - sh * sh) u) (vscale (2 * sh * ch) v))))
              (vadd c (vscale r (vadd (vscale ch u) (vscale sh v)))) a
        = 2 * (r * r) * sh * (1 - ch)).
Open Scope nat_scope.

(** ** finite checks over the regenerated tables, lifted to [forall] *)
Ltac finite_forall tab chk :=
  let H := fresh "H" in
  assert (H : forallb chk tab = true) by (vm_compute; reflexivity);
  rewrite forallb_forall in H.

Definition row_direction_ok (r : row) : bool :=
  let '(k, var, slot, (s, e), (n, v1, v2, ord)) := r in
  (n =? 1) && consistentb s e v1 v2 ord && (negb (directed k) || negb (ord =? 0))
  && (negb (var =? 0) || ((s =? fst (slot_dir slot)) && (e =? snd (slot_dir slot)))).

Theorem C07_direction : C07_direction_stmt.
Proof.
  finite_forall tab_dir row_direction_ok.
  intros k var slot s e n v1 v2 ord Hin. specialize (H _ Hin). unfold row_direction_ok in H.
  apply andb_true_iff in H. destruct H as [H H4]. apply andb_true_iff in H. destruct H as [H H3].
  apply andb_true_iff in H. destruct H as [H1 H2].
  apply Nat.eqb_eq in H1. apply consistentb_spec in H2.
  split; [exact H1|]. split; [exact H2|]. split.
  - intros D. rewrite D in H3. simpl in H3. apply negb_true_iff in H3. apply Nat.eqb_neq in H3. exact H3.
  - intros V. subst var. simpl in H4. apply andb_true_iff in H4. destruct H4 as [A B].
    apply Nat.eqb_eq in A, B. subst. destruct (slot_dir slot); reflexivity.
Qed.

Theorem C07_on_block_edge : C07_on_block_edge_stmt.
Proof.
  split.
  - finite_forall tab_dir (fun r : row => let '(_, _, _, _, (_, v1, v2, _)) := r in is_edge v1 v2).
    intros k var slot s e n v1 v2 ord Hin. exact (H _ Hin).
  - finite_forall tab_twelve (fun x : nat * nat * nat => is_edge (fst (fst x)) (snd (fst x))).
    intros v1 v2 slot Hin. exact (H _ Hin).
Qed.

Definition row_face_ok (r : row) : bool :=
  let '(k, var, slot, (s, e), (n, v1, v2, ord)) := r in
  (var =? 0) || (is_edge s e && consistentb s e v1 v2 ord
                 && (if inverting var then is_slot_dir e s else is_slot_dir s e)).

Theorem C07_face_ops_keep_direction : C07_face_ops_keep_direction_stmt.
Proof.
  finite_forall tab_dir row_face_ok.
  intros k var slot s e n v1 v2 ord Hin Hv. specialize (H _ Hin). unfold row_face_ok in H.
  apply Nat.eqb_neq in Hv. rewrite Hv in H. simpl in H.
  apply andb_true_iff in H. destruct H as [H H3]. apply andb_true_iff in H. destruct H as [H1 H2].
  apply consistentb_spec in H2. auto.
Qed.

Theorem C07_twelve : C07_twelve_stmt.
Proof.
  split; [vm_compute; reflexivity|]. split.
  - finite_forall tab_twelve (fun x : nat * nat * nat =>
      (fst (fst x) =? fst (slot_dir (snd x))) && (snd (fst x) =? snd (slot_dir (snd x)))).
    intros v1 v2 slot Hin. specialize (H _ Hin). simpl in H.
    apply andb_true_iff in H. destruct H as [A B]. apply Nat.eqb_eq in A, B. subst.
    destruct (slot_dir slot); reflexivity.
  - finite_forall slots (fun s => length (filter (fun x : nat * nat * nat => snd x =? s) tab_twelve) =? 1).
    intros s Hs. apply Nat.eqb_eq. exact (H _ Hs).
Qed.

Theorem C07_wires : C07_wires_stmt.
Proof.
  split; [vm_compute; reflexivity|]. split.
  - finite_forall tab_wires (fun x : nat * nat * nat =>
      (snd x <? 12) && same_pair (fst (fst x)) (snd (fst x)) (fst (slot_dir (snd x))) (snd (slot_dir (snd x)))).
    intros c1 c2 slot Hin. specialize (H _ Hin). simpl in H.
    apply andb_true_iff in H. destruct H as [A B]. apply Nat.ltb_lt in A. auto.
  - finite_forall slots (fun s => length (filter (fun x : nat * nat * nat => snd x =? s) tab_wires) =? 1).
    intros s Hs. apply Nat.eqb_eq. exact (H _ Hs).
Qed.

Theorem C07_omitted : C07_omitted_stmt.
Proof.
  split; [|vm_compute; reflexivity].
  finite_forall tab_omitted (fun x : nat * nat * nat => snd x =? 0).
  intros k slot n Hin. specialize (H _ Hin). simpl in H. apply Nat.eqb_eq in H. exact H.
Qed.

Theorem C07_domain : C07_domain_stmt.
Proof. vm_compute. reflexivity. Qed.

Theorem C07_slots : C07_slots_stmt.
Proof.
  split.
  - intros s Hs. exact (forallb_In _ _ slot_dirs_are_edges s Hs).
  - intros i j Hi Hj He.
    pose proof (forallb_In _ _ slot_dirs_cover (i, j)) as H.
    assert (In (i, j) (list_prod corners corners)) as Hin by (apply in_prod; assumption).
    specialize (H Hin). simpl in H. rewrite He in H. simpl in H. apply Nat.eqb_eq in H. exact H.
Qed.

Theorem C07_unique : C07_unique_stmt.
Proof. intros rs l. exact (add_all_uniq rs l). Qed.

Theorem C07_exactly_once : C07_exactly_once_stmt.
Proof. exact exactly_once. Qed.

Theorem C07_entries_are_requests : C07_entries_are_requests_stmt.
Proof.
  intros rs v1 v2 tag H. destruct (entries_are_requests rs [] v1 v2 tag H) as [[]|H']. exact H'.
Qed.

Theorem C07_first_wins : C07_first_wins_stmt.
Proof. exact first_wins. Qed.

Theorem C07_invalid_ignored : C07_invalid_ignored_stmt.
Proof. exact invalid_ignored. Qed.

Theorem C07_valid_filter : C07_valid_filter_stmt.
Proof.
  split; [exact eligible_sym|]. split; [exact line_not_eligible|]. split; [exact coincident_not_eligible|].
  split; [exact collinear_not_eligible | exact eligible_arc_has_circle].
Qed.

Theorem C07_directed_length : C07_directed_length_stmt.
Proof.
  intros s pts e v1 wpts v2 H. split; [exact (describes_same_curve _ _ _ _ _ _ H) | exact (describes_same_length _ _ _ _ _ _ H)].
Qed.

Theorem C07_sense : C07_sense_stmt.
Proof.
  split; [exact bulge_swap|]. split; [exact bulge_axis_opp|].
  intros c u v a r ch sh. exact (bulge_of_arc c u v a r ch sh).
Qed.

(** ** side edges made by constructors (Operation.from_series, Revolve) and moved with the whole operation *)
(** the points from_series lists on side i are the corners i of the intermediate faces, one per face, in the
    order of the series; a series given backwards lists them backwards; the kind follows the number of faces *)
Definition C07_series_order_stmt : Prop :=
  forall (pt : Type) (faces : list (list pt)) (i : nat),
    (has_corner i faces ->
       length (series_points faces i) = length faces - 2
       /\ (forall j, j < length faces - 2 ->
             nth_error (series_points faces i) j =
             match nth_error faces (S j) with Some f => nth_error f i | None => None end)
       /\ series_kind faces i = match length faces with 0 | 1 => SError | 2 => SLine | 3 => SArc | _ => SSpline end)
    /\ series_points (rev faces) i = rev (series_points faces i).

(** an operation built from a moved series is the moved operation; moving commutes with invert *)
Definition C07_series_moved_stmt : Prop :=
  forall (pt qt : Type) (g : pt -> qt) (faces : list (list pt)),
    (forall i, series_points (map (map g) faces) i = map g (series_points faces i))
    /\ from_series (map (map g) faces) = option_map (move g) (from_series faces)
    /\ (forall o : oper pt, invert (move g o) = move g (invert o)).

(** invert twice gives the side-edge data back; after one invert the slot i (written from corner i to corner
    i + 4, the public slot 8 + i) describes the same curve from its other end *)
Definition C07_invert_side_edges_stmt : Prop :=
  forall (pt : Type) (o : oper pt),
    invert (invert o) = o
    /\ (forall i, i < 4 -> side_dir i = slot_dir (8 + i))
    /\ (length (bottom o) = 4 -> length (top o) = 4 -> forall i, i < 4 ->
          side_curve (invert o) i = option_map (@rev pt) (side_curve o i)).

(** in space: the inverted operation's side edge is the reversed point sequence and has the same length *)
Definition C07_invert_same_length_stmt : Prop :=
  forall (o : oper vec) (i : nat) (c : list vec),
    length (bottom o) = 4 -> length (top o) = 4 -> i < 4 -> side_curve o i = Some c ->
    exists c', side_curve (invert o) i = Some c' /\ c' = rev c /\ plen c' = plen c.

(** a call made once per slot (ElementBase transformations over parts, Operation.invert over side_edges)
    reaches every edge-data object as often as slots refer to it; it is a call made once per object exactly
    when the slots refer to pairwise distinct objects *)
Definition C07_whole_operation_once_stmt : Prop :=
  (forall (D : Type) (f : D -> D) (slots : list nat) (h : list D) (k : nat),
     nth_error (apply_to_parts f slots h) k =
     option_map (Nat.iter (count_occ Nat.eq_dec slots k) f) (nth_error h k))
  /\ (forall (D : Type) (f : D -> D) (slots : list nat) (h : list D),
        NoDup slots -> apply_to_parts f slots h = apply_once_per_edge f slots h)
  /\ (forall slots : list nat,
        NoDup slots <->
        (forall (f : nat -> nat) (h : list nat), apply_to_parts f slots h = apply_once_per_edge f slots h)).

(** four slots on one Angle object: reverse() through the slots leaves the angle, once per object negates it *)
Definition C07_shared_slots_refuted_stmt : Prop :=
  exists (slots : list nat) (h : list (edata nat)),
    ~ NoDup slots /\ view slots (apply_to_parts reverse slots h) <> view slots (apply_once_per_edge reverse slots h).

Theorem C07_series_order : C07_series_order_stmt.
Proof.
  intros pt faces i. split; [|exact (series_points_rev faces i)].
  intro H. split; [exact (series_points_length faces i H)|].
  split; [intros j Hj; exact (series_points_nth faces i j H Hj) | exact (series_kind_spec faces i H)].
Qed.

Theorem C07_series_moved : C07_series_moved_stmt.
Proof.
  intros pt qt g faces. split; [intro i; exact (series_points_map g faces i)|].
  split; [exact (from_series_move g faces) | exact (invert_move g)].
Qed.

Theorem C07_invert_side_edges : C07_invert_side_edges_stmt.
Proof.
  intros pt o. split; [exact (invert_involutive o)|]. split; [exact side_dir_is_slot|].
  intros Lb Lt i Hi. exact (invert_side_curve o i Lb Lt Hi).
Qed.

Theorem C07_invert_same_length : C07_invert_same_length_stmt.
Proof. exact invert_same_length. Qed.

Theorem C07_whole_operation_once : C07_whole_operation_once_stmt.
Proof.
  split; [intros D f slots h k; exact (apply_to_parts_counts f slots h k)|].
  split; [intros D f slots h; exact (distinct_slots_once f slots h) | exact once_iff_distinct].
Qed.

Theorem C07_shared_slots_refuted : C07_shared_slots_refuted_stmt.
Proof.
  exists [0; 0; 0; 0], [DAngle 5]. split.
  - intro H. inversion H as [|x l N _]. apply N. left. reflexivity.
  - vm_compute. discriminate.
Qed.

Print Assumptions C07_direction.
Print Assumptions C07_on_block_edge.
Print Assumptions C07_face_ops_keep_direction.
Print Assumptions C07_twelve.
Print Assumptions C07_wires.
Print Assumptions C07_omitted.
Print Assumptions C07_domain.
Print Assumptions C07_slots.
Print Assumptions C07_unique.
Print Assumptions C07_exactly_once.
Print Assumptions C07_entries_are_requests.
Print Assumptions C07_first_wins.
Print Assumptions C07_invalid_ignored.
Print Assumptions C07_valid_filter.
Print Assumptions C07_directed_length.
Print Assumptions C07_sense.
Print Assumptions C07_series_order.
Print Assumptions C07_series_moved.
Print Assumptions C07_invert_side_edges.
Print Assumptions C07_invert_same_length.
Print Assumptions C07_whole_operation_once.
Print Assumptions C07_shared_slots_refuted.
