(** C15 - Smoothing moves only free interior points, to their neighbours' average.

    Model: Model/C15_Smooth.v (grid construction, boundary detection, neighbour lists, Gauss-Seidel sweeps,
    copy back), tied to /repo by the correspondence of the check.  The cell tables
    [quad_ct]/[hex_ct] of Gen/C15/Tables.v are the real QuadCell/HexCell tables of this run.
    A point set is three coordinate columns swept with one schedule, so the statements about one
    column [s : list Q] hold for x, y and z alike. *)
From Coq Require Import List Bool Arith ZArith QArith Qabs Lia Lqa.
From CB Require Import Base.Hex Model.C15_Smooth Proofs.C15_Smooth Proofs.C15_SmoothGraph Proofs.C15_Fast Proofs.C15_Converge Proofs.C15_LatticeGen.
From CB Require Import Gen.C15.Tables.
Import ListNotations.
Close Scope Q_scope.
Open Scope nat_scope.

(** ** (F) the tabulated cell types against the reference hexahedron / the quad cycle *)
Definition has_edge (ct : celltype) (a b : nat) : bool :=
  existsb (fun xy => pair_set_eqb (fst xy) (snd xy) a b) (ct_edges ct).
Definition quad_corners : list nat := [0; 1; 2; 3].
Definition quad_is_edge (a b : nat) : bool := (b =? (a + 1) mod 4) || (a =? (b + 1) mod 4).

(** connections of a hexahedral cell = the 12 edges of the hexahedron (no face or space diagonal);
    its sides = the six coordinate planes *)
Definition C15_hex_table_stmt : Prop :=
  (forall a b, In a corners -> In b corners -> has_edge hex_ct a b = is_edge a b)
  /\ length (ct_edges hex_ct) = 12
  /\ (forall sd, In sd (ct_sides hex_ct) -> exists s, In s sides /\ same_set sd (side_corners s) = true /\ length sd = 4)
  /\ (forall s, In s sides -> exists sd, In sd (ct_sides hex_ct) /\ same_set sd (side_corners s) = true).

(** connections of a quad cell = its four consecutive corner pairs (no diagonal); its sides = the same *)
Definition C15_quad_table_stmt : Prop :=
  (forall a b, In a quad_corners -> In b quad_corners -> has_edge quad_ct a b = quad_is_edge a b)
  /\ length (ct_edges quad_ct) = 4
  /\ (forall sd, In sd (ct_sides quad_ct) -> exists a b, sd = [a; b] /\ In a quad_corners /\ In b quad_corners /\ quad_is_edge a b = true)
  /\ (forall a b, In a quad_corners -> In b quad_corners -> quad_is_edge a b = true ->
        exists sd, In sd (ct_sides quad_ct) /\ same_set sd [a; b] = true).

(** ** (U) statements about the model *)

(** boundary points, fixed points (by index or by position) and points outside the grid never move,
    whatever the number of iterations; nothing is added or dropped *)
Definition C15_frame_stmt : Prop :=
  forall g fixed_idx targets tol2 iters p j,
    (is_boundary (g_ct g) (g_cells g) j = true \/ In j fixed_idx
     \/ (exists t, In t targets /\ (sqdist t (pt_at p j) < tol2)%Q) \/ g_n g <= j) ->
    pt_at (smooth g fixed_idx targets tol2 iters p) j = pt_at p j.

(** [is_boundary j] <-> j is a corner of a side of some cell that no other cell shares *)
Definition C15_boundary_correct_stmt : Prop :=
  forall ct cells j,
    is_boundary ct cells j = true <->
    exists k c i sd, nth_error cells k = Some c /\ In j c /\ nth_error (ct_sides ct) i = Some sd /\
                     In j (map (fun a => nth a c 0) sd) /\
                     (forall k2 c2, nth_error cells k2 = Some c2 -> k2 <> k -> common_side ct c c2 <> Some i).

(** the neighbour list of j: exactly the (distinct, in-range) points joined to j by an edge of a cell,
    each once; with the table theorems: hexahedron edges / quad sides, never diagonals *)
Definition C15_neighbours_edges_stmt : Prop :=
  forall ct cells n j,
    NoDup (nbrs ct cells n j) /\
    forall t, In t (nbrs ct cells n j) <->
      t < n /\ t <> j /\ exists c, In c cells /\ In j c /\
        exists a b, In (a, b) (ct_edges ct) /\ ((nth a c 0 = j /\ nth b c 0 = t) \/ (nth a c 0 = t /\ nth b c 0 = j)).

(** the visited junctions are exactly the free ones (inside, not boundary, not fixed), each once, each
    with its neighbour list *)
Definition C15_schedule_stmt : Prop :=
  forall ct cells n fixed,
    NoDup (map fst (schedule ct cells n fixed)) /\
    forall j nb, In (j, nb) (schedule ct cells n fixed) <->
      (j < n /\ is_boundary ct cells j = false /\ ~ In j fixed) /\ nb = nbrs ct cells n j.

(** one update puts the junction on the average of the current neighbour positions and touches nothing else *)
Definition C15_update_is_average_stmt : Prop :=
  forall s j nb, j < length s ->
    (nth j (step s (j, nb)) 0 == qsum (map (fun t => nth t s 0) nb) / qlen nb)%Q
    /\ (forall i d, i <> j -> nth i (step s (j, nb)) d = nth i s d)
    /\ length (step s (j, nb)) = length s.

(** a sweep changes nothing <-> every visited point is the average of its neighbours *)
Definition C15_fixed_point_stmt : Prop :=
  forall sched s, NoDup (map fst sched) -> (forall jn, In jn sched -> fst jn < length s) ->
    (eqv (sweep sched s) s <-> forall jn, In jn sched -> harmonic_at s jn).

(** discrete maximum principle: when every visited point is connected through neighbours to a point that
    is not visited (boundary/fixed), two harmonic configurations with the same non-visited values coincide *)
Definition C15_unique_stmt : Prop :=
  forall sched h1 h2,
    length h1 = length h2 -> wf_sched (length h1) sched ->
    (forall jn, In jn sched -> harmonic_at h1 jn) -> (forall jn, In jn sched -> harmonic_at h2 jn) ->
    (forall i, ~ In i (map fst sched) -> (nth i h1 0 == nth i h2 0)%Q) ->
    (forall i, In i (map fst sched) -> reach sched i) ->
    eqv h1 h2.

(** the max-norm distance to a harmonic configuration never increases, sweep after sweep *)
Definition C15_monotone_stmt : Prop :=
  forall k sched s h M,
    length s = length h -> wf_sched (length s) sched ->
    (forall jn, In jn sched -> harmonic_at h jn) ->
    within M s h -> within M (iterate k sched s) h.

(** structured nx x ny maps of every size (nx, ny >= 1, no upper bound): the boundary is the border, every
    inner point k has exactly its 4 lattice neighbours k - 1, k + 1, k - (nx+1), k + (nx+1), every regular (affine) lattice is left unchanged by any number of
    sweeps with any fixed set, and it is the only such configuration with that border, and from any interior
    positions the sweeps converge to it (a regular boundary yields the regular lattice).  For all rational
    origins and steps. *)
Definition lattice_size (nx ny : nat) : Prop := 1 <= nx /\ 1 <= ny.
Definition C15_lattice_stmt (size_ok : nat -> nat -> Prop) : Prop :=
  forall nx ny, size_ok nx ny ->
    let cells := struct_cells nx ny in
    let n := struct_n nx ny in
    (forall k, k < n -> is_boundary quad_ct cells k = border nx ny k)
    /\ (forall fixed jn, In jn (schedule quad_ct cells n fixed) -> length (snd jn) = 4 /\
          forall t, In t (snd jn) <-> (t + 1 = fst jn \/ t = fst jn + 1 \/ t + S nx = fst jn \/ t = fst jn + S nx))
    /\ (forall fixed iters o a b, eqv (iterate iters (schedule quad_ct cells n fixed) (lattice nx ny o a b)) (lattice nx ny o a b))
    /\ (forall o a b h, length h = n ->
          (forall jn, In jn (schedule quad_ct cells n []) -> harmonic_at h jn) ->
          (forall k, k < n -> border nx ny k = true -> (nth k h 0 == nth k (lattice nx ny o a b) 0)%Q) ->
          eqv h (lattice nx ny o a b))
    /\ (forall o a b s, length s = n ->
          (forall k, k < n -> border nx ny k = true -> (nth k s 0 == nth k (lattice nx ny o a b) 0)%Q) ->
          forall eps, (0 < eps)%Q -> exists K, forall k, K <= k ->
            within eps (iterate k (schedule quad_ct cells n []) s) (lattice nx ny o a b)).

(** copy back: corner k of face i receives the grid point quad i refers to (so faces sharing a point
    agree), and reading the positions back from the faces returns the grid points *)
Definition C15_backport_stmt : Prop :=
  forall (pos : list pt) (quads : list (list nat)) (d : pt),
    (forall i q k, nth_error quads i = Some q -> k < length q ->
        nth k (nth i (backport d pos quads) []) d = nth (nth k q 0) pos d)
    /\ ((forall i, i <= list_max (concat quads) -> In i (concat quads)) ->
        length (sketch_positions d (backport d pos quads) quads) = S (list_max (concat quads)) /\
        forall i, i <= list_max (concat quads) ->
          nth i (sketch_positions d (backport d pos quads) quads) d = nth i pos d).

(** the correspondence evaluates [smooth_fast] / [nbrs_fast] (neighbours gathered from the cells around a
    junction); they are the transcribed double loops *)
Definition C15_fast_model_stmt : Prop :=
  (forall ct cells n j, nbrs_fast ct cells n j = nbrs ct cells n j)
  /\ (forall ct cells n fixed, schedule_fast ct cells n fixed = schedule ct cells n fixed)
  /\ (forall g fixed_idx targets tol2 iters p,
        smooth_fast g fixed_idx targets tol2 iters p = smooth g fixed_idx targets tol2 iters p).

(** "after enough iterations each free point equals that average": convergence of the sweeps.  For every
    schedule in which each visited junction reaches (through neighbour lists) a junction that is not
    visited, and every configuration [h] that is harmonic at the visited junctions and carries the values of
    [s] elsewhere, the iterates come (and stay) arbitrarily close to [h] in the max norm. *)
Definition C15_convergence_stmt : Prop :=
  forall sched s h,
    length s = length h -> wf_sched (length s) sched -> NoDup (map fst sched) ->
    (forall jn, In jn sched -> harmonic_at h jn) ->
    (forall i, ~ In i (map fst sched) -> (nth i s 0 == nth i h 0)%Q) ->
    (forall i, In i (map fst sched) -> reach sched i) ->
    forall eps, (0 < eps)%Q -> exists K, forall k, K <= k -> within eps (iterate k sched s) h.

(** the same for [smooth] on a grid, in three dimensions: when every free junction reaches a boundary or
    fixed junction, the smoothed points converge to the configuration that leaves boundary / fixed points
    where they are and has every free point on the average of its edge neighbours *)
Definition C15_smooth_converges_stmt : Prop :=
  forall g fixed_idx targets tol2 xs ys zs hx hy hz,
    let fixed := fixed_idx ++ fix_points (g_n g) (xs, ys, zs) targets tol2 in
    let sch := schedule (g_ct g) (g_cells g) (g_n g) fixed in
    length xs = g_n g -> length ys = g_n g -> length zs = g_n g ->
    length hx = g_n g -> length hy = g_n g -> length hz = g_n g ->
    (forall jn, In jn sch -> harmonic_at hx jn /\ harmonic_at hy jn /\ harmonic_at hz jn) ->
    (forall i, ~ In i (map fst sch) ->
        (nth i xs 0 == nth i hx 0)%Q /\ (nth i ys 0 == nth i hy 0)%Q /\ (nth i zs 0 == nth i hz 0)%Q) ->
    (forall i, In i (map fst sch) -> reach sch i) ->
    forall eps, (0 < eps)%Q -> exists K, forall iters, K <= iters ->
      let '(xs', ys', zs') := smooth g fixed_idx targets tol2 iters (xs, ys, zs) in
      within eps xs' hx /\ within eps ys' hy /\ within eps zs' hz.

(** ** proofs *)
Ltac finite_forall tab chk :=
  let H := fresh "H" in
  assert (H : forallb chk tab = true) by (vm_compute; reflexivity);
  rewrite forallb_forall in H.

Lemma side_eq_dec (s t : side) : {s = t} + {s <> t}.
Proof. decide equality. Qed.

Theorem C15_hex_table : C15_hex_table_stmt.
Proof.
  split; [|split; [|split]].
  - finite_forall corners (fun a => forallb (fun b => Bool.eqb (has_edge hex_ct a b) (is_edge a b)) corners).
    intros a b Ha Hb. specialize (H a Ha). rewrite forallb_forall in H. specialize (H b Hb).
    apply eqb_prop in H. exact H.
  - vm_compute. reflexivity.
  - finite_forall (ct_sides hex_ct) (fun sd => existsb (fun s => same_set sd (side_corners s) && (length sd =? 4)) sides).
    intros sd Hsd. specialize (H sd Hsd). apply existsb_exists in H. destruct H as [s [Hs Hb]].
    apply andb_true_iff in Hb. destruct Hb as [H1 H2]. apply Nat.eqb_eq in H2. exists s. auto.
  - finite_forall sides (fun s => existsb (fun sd => same_set sd (side_corners s)) (ct_sides hex_ct)).
    intros s Hs. specialize (H s Hs). apply existsb_exists in H. destruct H as [sd [A B]]. exists sd. auto.
Qed.

Theorem C15_quad_table : C15_quad_table_stmt.
Proof.
  split; [|split; [|split]].
  - finite_forall quad_corners (fun a => forallb (fun b => Bool.eqb (has_edge quad_ct a b) (quad_is_edge a b)) quad_corners).
    intros a b Ha Hb. specialize (H a Ha). rewrite forallb_forall in H. specialize (H b Hb).
    apply eqb_prop in H. exact H.
  - vm_compute. reflexivity.
  - finite_forall (ct_sides quad_ct) (fun sd => match sd with
        | [a; b] => memb a quad_corners && memb b quad_corners && quad_is_edge a b | _ => false end).
    intros sd Hsd. specialize (H sd Hsd). destruct sd as [|a [|b [|]]]; try discriminate.
    apply andb_true_iff in H. destruct H as [H H3]. apply andb_true_iff in H. destruct H as [H1 H2].
    apply memb_In in H1, H2. exists a, b. auto.
  - finite_forall quad_corners (fun a => forallb (fun b => negb (quad_is_edge a b) ||
        existsb (fun sd => same_set sd [a; b]) (ct_sides quad_ct)) quad_corners).
    intros a b Ha Hb He. specialize (H a Ha). rewrite forallb_forall in H. specialize (H b Hb).
    rewrite He in H. cbn [negb orb] in H. apply existsb_exists in H. destruct H as [sd [A B]]. exists sd. auto.
Qed.

Theorem C15_frame : C15_frame_stmt.
Proof. exact smooth_frame_cases. Qed.

Theorem C15_boundary_correct : C15_boundary_correct_stmt.
Proof. intros ct cells j. apply is_boundary_spec. Qed.

Theorem C15_neighbours_edges : C15_neighbours_edges_stmt.
Proof. intros ct cells n j. split; [apply nbrs_NoDup|]. intro t. apply nbrs_spec. Qed.

Theorem C15_schedule : C15_schedule_stmt.
Proof. intros ct cells n fixed. split; [apply schedule_NoDup|]. intros j nb. apply In_schedule. Qed.

Theorem C15_update_is_average : C15_update_is_average_stmt.
Proof.
  intros s j nb Hj. split; [|split].
  - rewrite step_value by exact Hj. apply average_spec.
  - intros i d Hi. apply step_frame. exact Hi.
  - apply step_length.
Qed.

Theorem C15_fixed_point : C15_fixed_point_stmt.
Proof. intros sched s. apply sweep_fixed_point. Qed.

Theorem C15_unique : C15_unique_stmt.
Proof. exact harmonic_unique. Qed.

Theorem C15_monotone : C15_monotone_stmt.
Proof. exact iterate_monotone. Qed.

Theorem C15_backport : C15_backport_stmt.
Proof.
  intros pos quads d. split.
  - intros i q k. apply backport_consistent.
  - apply positions_roundtrip.
Qed.

Theorem C15_fast_model : C15_fast_model_stmt.
Proof. exact (conj nbrs_fast_eq (conj schedule_fast_eq smooth_fast_eq)). Qed.

Theorem C15_convergence : C15_convergence_stmt.
Proof. exact convergence. Qed.

Theorem C15_smooth_converges : C15_smooth_converges_stmt.
Proof. exact smooth_converges. Qed.

(** structured maps of every size.  The size-generic proof (Proofs/C15_LatticeGen.v, prebuilt: membership of a
    lattice point in a structured cell, [common_side] of two structured cells, neighbours through the cell
    connections, harmonic lattice coordinates, reachability of the border) holds for every cell type that passes
    the finite check [quad_ok]; it is evaluated here for the tabulated QuadCell of this run (it accepts any
    order / orientation of [edge_pairs] and [side_indexes], and rejects diagonals, missing or duplicate sides). *)
Lemma quad_ok_run : quad_ok quad_ct = true.
Proof. vm_compute. reflexivity. Qed.

Theorem C15_lattice : C15_lattice_stmt lattice_size.
Proof. intros nx ny [Hx Hy]. exact (lattice_all_sizes quad_ct quad_ok_run nx ny Hx Hy). Qed.

(** ** the hypotheses are satisfiable: the 4 x 4 structured map (3 x 3 inner points) with a regular lattice *)
Example C15_hypotheses_satisfiable :
  let sch := schedule quad_ct (struct_cells 4 4) (struct_n 4 4) [] in
  let h := lattice 4 4 (1 # 2) 2 (3 # 4) in
  length sch = 9 /\ NoDup (map fst sch) /\ wf_sched (length h) sch
  /\ (forall jn, In jn sch -> harmonic_at h jn)
  /\ (forall i, In i (map fst sch) -> reach sch i)
  /\ (forall jn, In jn sch -> fst jn < length h).
Proof.
  intros sch h.
  assert (L : length h = struct_n 4 4) by (unfold h, lattice; rewrite map_length, seq_length; reflexivity).
  assert (H1 : 1 <= 4) by lia.
  split; [vm_compute; reflexivity|]. split; [apply schedule_NoDup|].
  split; [rewrite L; apply (gen_wf quad_ct 4 4 quad_ok_run H1 H1)|].
  split; [intros jn Hin; apply (gen_harmonic quad_ct 4 4 quad_ok_run H1 H1 []); exact Hin|].
  split; [apply (gen_reach quad_ct 4 4 quad_ok_run H1 H1)|].
  intros jn Hin. rewrite L. exact (proj1 (schedule_wf_lt _ _ _ _ _ Hin)).
Qed.

Example C15_lattice_size_satisfiable : lattice_size 1 1 /\ lattice_size 37 1000.
Proof. unfold lattice_size. lia. Qed.

Example C15_frame_hypothesis_satisfiable :
  is_boundary quad_ct (struct_cells 2 2) 0 = true /\ is_boundary quad_ct (struct_cells 2 2) 4 = false.
Proof. vm_compute. split; reflexivity. Qed.

Print Assumptions C15_hex_table.
Print Assumptions C15_quad_table.
Print Assumptions C15_frame.
Print Assumptions C15_boundary_correct.
Print Assumptions C15_neighbours_edges.
Print Assumptions C15_schedule.
Print Assumptions C15_update_is_average.
Print Assumptions C15_fixed_point.
Print Assumptions C15_unique.
Print Assumptions C15_monotone.
Print Assumptions C15_backport.
Print Assumptions C15_fast_model.
Print Assumptions C15_convergence.
Print Assumptions C15_smooth_converges.
Print Assumptions C15_lattice.
