(** C19 - Grid, slice and core/shell addressing of shapes and stacks is geometric.

    Model/C19_Stack.v transcribes Grid, LoftedShape, TransformedStack, Stack.grid/get_slice,
    RoundSolidShape.core/shell and the block-per-operation part of Mesh.assemble/delete as list
    functions; the check ties it to /repo by an exhaustive differential run over the stated bound.
    Gen/C19/Tables.v holds grid/core/shell, the quad topology and the outer-ring points of every round
    sketch and round shape class, regenerated from /repo in this run.
    The theorems about the list model hold for ALL sizes (induction), those about the tables for the
    whole finite family of classes. *)
From Coq Require Import String.
From Coq Require Import List Bool Arith ZArith Lia.
From CB Require Import Model.C19_Stack Model.C19_Spec Proofs.C19_Stack Proofs.C19_Spec.
From CB Require Import Model.C19_Mirror Proofs.C19_Mirror.
From CB Require Import Gen.C19.Tables.
Import ListNotations.
Open Scope nat_scope.

(** ** statements: stacks on cartesian grids, any size *)

(** grid[k][j][i] is the operation in column i, row j, tier k; the nested list has exactly
    nz x ny x nx entries *)
Definition C19_grid_index_stmt : Prop :=
  forall nx ny nz,
    (forall i j k, i < nx -> j < ny -> k < nz -> grid_at (stack_grid nx ny nz) i j k = Some (cell_op i j k)) /\
    (forall i j k, ~ (i < nx /\ j < ny /\ k < nz) -> grid_at (stack_grid nx ny nz) i j k = None) /\
    length (stack_grid nx ny nz) = nz /\
    Forall (fun s => length s = ny /\ Forall (fun r : list op => length r = nx) s) (stack_grid nx ny nz).

(** the operations of the stack are the lattice cells, each exactly once *)
Definition C19_operations_stmt : Prop :=
  forall nx ny nz,
    (forall o, In o (stack_ops (stack_grid nx ny nz)) <->
               exists i j k, i < nx /\ j < ny /\ k < nz /\ o = cell_op i j k) /\
    NoDup (stack_ops (stack_grid nx ny nz)) /\
    length (stack_ops (stack_grid nx ny nz)) = nz * (ny * nx).

(** a slice along an axis at a valid (possibly negative, Python style) index returns exactly the
    operations with that coordinate along the axis, each once; an invalid index raises *)
Definition C19_slice_stmt : Prop :=
  forall nx ny nz axis (idx : Z), axis < 3 ->
    let n := dim nx ny nz axis in
    ((- Z.of_nat n <= idx < Z.of_nat n)%Z ->
       exists l, get_slice (stack_grid nx ny nz) axis idx = Some l /\
                 NoDup l /\
                 (forall o, In o l <-> In o (stack_ops (stack_grid nx ny nz)) /\ coord axis o = norm_index n idx) /\
                 length l * n = nx * ny * nz) /\
    (0 < nx -> 0 < ny -> 0 < nz -> ~ (- Z.of_nat n <= idx < Z.of_nat n)%Z ->
       get_slice (stack_grid nx ny nz) axis idx = None).

(** stacks of any layout (disks: rows of different length) and any element type: the slice along
    axis 0 takes entry i of every row of every shape, the slice along 1 is row j of every shape (for a
    disk: index 0 = the cores, the last index = the shells of all tiers), the slice along 2 is one whole shape *)
Definition C19_slice_generic_stmt : Prop :=
  forall (A : Type) (g : list (list (list A))),
    (forall i, (forall s, In s g -> forall r, In r s -> i < length r) ->
       exists l, get_slice g 0 (Z.of_nat i) = Some l /\ length l = length (concat g) /\
                 forall x, In x l <-> exists s r, In s g /\ In r s /\ nth_error r i = Some x) /\
    (forall j, (forall s, In s g -> j < length s) ->
       exists l, get_slice g 1 (Z.of_nat j) = Some l /\
                 forall x, In x l <-> exists s r, In s g /\ nth_error s j = Some r /\ In x r) /\
    (forall idx, get_slice g 2 idx = option_map (@concat A) (py_nth g idx)).

(** ** statements: core / shell *)

(** RoundSolidShape.core/shell (list level): a partition of the operations, in order *)
Definition C19_core_shell_split_stmt : Prop :=
  forall (A : Type) (ops : list A) n,
    round_core ops n ++ round_shell ops n = ops /\
    length (round_core ops n) = Nat.min n (length ops) /\
    (NoDup ops -> forall x, In x (round_core ops n) -> ~ In x (round_shell ops n)).

(** every round sketch class: core and shell together list every face once; every shell face has an
    edge on the outer boundary, no core face has a point on it; the grid addresses every face once and its
    rows are rings, inner first: the first rows are exactly the core, the remaining rows exactly the shell *)
Definition C19_core_shell_sketches_stmt : Prop :=
  forall e, In e round_sketches -> sketch_spec e.

(** every round shape made from sketches: the same for its operations (through the face of sketch_1
    each operation stands on); every operation joins face n of sketch_1 with face n of sketch_2;
    shape.grid[r][c] is the operation on sketch_1.grid[r][c] *)
Definition C19_core_shell_shapes_stmt : Prop :=
  forall e, In e round_lofted -> lofted_spec e.

(** spheres and revolved rings: shell operations have a side on the outer surface, core operations
    have no corner on it, together they are all operations, the grid addresses each once *)
Definition C19_core_shell_solids_stmt : Prop :=
  forall e, In e round_solids -> solid_spec e.

(** the tables cover the family of classes the harness is meant to tabulate *)
Definition C19_tables_domain_stmt : Prop :=
  map fst round_sketches =
    ["OneCoreDisk"; "QuarterDisk"; "HalfDisk"; "FourCoreDisk"; "WrappedDisk"; "Oval";
     "QuarterSplineDisk"; "HalfSplineDisk"; "SplineDisk"; "QuarterSplineRing"; "HalfSplineRing"; "SplineRing";
     "QuarterSplineDisk_oval"; "HalfSplineDisk_oval"; "SplineDisk_oval";
     "QuarterSplineRing_oval"; "HalfSplineRing_oval"; "SplineRing_oval";
     "Annulus_3"; "Annulus_4"; "Annulus_5"; "Annulus_6"; "Annulus_7"; "Annulus_8"; "Annulus_9"; "Annulus_10";
     "Annulus_11"; "Annulus_12"]%string /\
  map fst round_lofted =
    ["Cylinder"; "SemiCylinder"; "Frustum"; "Frustum_mid"; "Elbow"; "Cylinder.chain";
     "ExtrudedRing_3"; "ExtrudedRing_4"; "ExtrudedRing_5"; "ExtrudedRing_6"; "ExtrudedRing_7"; "ExtrudedRing_8";
     "ExtrudedRing_9"; "ExtrudedRing_10"; "ExtrudedRing_11"; "ExtrudedRing_12"; "ExtrudedRing.expand"; "Cylinder.fill";
     "RoundSolidShape(OneCoreDisk)"; "RoundSolidShape(QuarterDisk)"; "RoundSolidShape(HalfDisk)";
     "RoundSolidShape(FourCoreDisk)"; "RoundSolidShape(WrappedDisk)"; "RoundSolidShape(Oval)";
     "RoundSolidShape(QuarterSplineDisk)"; "RoundSolidShape(HalfSplineDisk)"; "RoundSolidShape(SplineDisk)"]%string /\
  map fst round_solids =
    ["EighthSphere"; "Hemisphere"; "RevolvedRing_3"; "RevolvedRing_4"; "RevolvedRing_5"; "RevolvedRing_6";
     "RevolvedRing_7"; "RevolvedRing_8"; "RevolvedRing_9"; "RevolvedRing_10"; "RevolvedRing_11"; "RevolvedRing_12"]%string.

(** ** statements: core / shell of a round shape that was moved and mirrored (Model/C19_Mirror.v)

    faces are objects (ids); the shape is lofted over the faces of sketch_1 (the first n of them its core),
    [fresh f] is the face of sketch_2 above f; [run ts] applies any sequence of moves (translate / rotate /
    scale) and mirrors (every operation mirrored, then inverted: bottom <-> top) *)

(** in every state reached: core and shell by position partition the operations in order, each operation once;
    the shell is exactly the operations that touch the outer surface, the core exactly those that do not;
    the split by identity of the bottom face agrees as long as the number of mirrors is even *)
Definition C19_core_shell_after_mirror_stmt : Prop :=
  forall (ts : list step) (fresh : nat -> nat) (faces : list nat) (n : nat),
    distinctb faces = true -> fresh_tops fresh faces = true ->
    let sh := run ts (loft_shape fresh faces n) in
    (core_by_position sh ++ shell_by_position sh = opers sh /\
     NoDup (opers sh) /\
     length (opers sh) = length faces /\
     length (core_by_position sh) = Nat.min n (length faces) /\
     shell_by_position sh = filter (touches_outer sh) (opers sh) /\
     core_by_position sh = filter (fun o => negb (touches_outer sh o)) (opers sh) /\
     (forall o, In o (opers sh) ->
        (In o (shell_by_position sh) <-> touches_outer sh o = true) /\
        (In o (core_by_position sh) <-> touches_outer sh o = false))) /\
    (Nat.even (mirrors ts) = true -> core_by_identity sh = core_by_position sh).

(** the split by identity of the bottom face is NOT geometric: after an odd number of mirrors it returns an
    empty core, whatever the shape; witness: the miniature cylinder (4 core + 8 shell faces) mirrored once *)
Definition C19_core_by_identity_refuted_stmt : Prop :=
  ~ by_identity_geometric_stmt /\
  (forall (ts : list step) (fresh : nat -> nat) (faces : list nat) (n : nat),
     distinctb faces = true -> fresh_tops fresh faces = true -> Nat.even (mirrors ts) = false ->
     let sh := run ts (loft_shape fresh faces n) in
     core_by_identity sh = [] /\ length (core_by_position sh) = Nat.min n (length faces)) /\
  (let sh := run [SMirror] mini_cylinder in
   core_by_identity sh = [] /\ shell_by_identity sh = opers sh /\
   core_by_position sh = [mkOper 12 0; mkOper 13 1; mkOper 14 2; mkOper 15 3] /\
   length (shell_by_position sh) = 8 /\
   filter (fun o => negb (touches_outer sh o)) (opers sh) = core_by_position sh).

(** ** statements: delete / chop of an addressed operation *)

(** deleting one operation of a depot without duplicates removes exactly its block: the blocks are the
    operations before it followed by those after it *)
Definition C19_delete_exact_stmt : Prop :=
  forall (A : Type) (eqb : A -> A -> bool), (forall a b, eqb a b = true <-> a = b) ->
  forall ops d, NoDup ops -> In d ops ->
    exists pre post, ops = pre ++ d :: post /\ assemble_ops eqb ops [d] = pre ++ post /\
      length (assemble_ops eqb ops [d]) = length ops - 1 /\
      ~ In d (assemble_ops eqb ops [d]) /\
      (forall x, x <> d -> (In x (assemble_ops eqb ops [d]) <-> In x ops)) /\
      NoDup (assemble_ops eqb ops [d]).

(** in a stack: deleting grid[k][j][i] leaves exactly the other lattice cells *)
Definition C19_delete_cell_stmt : Prop :=
  forall nx ny nz i j k, i < nx -> j < ny -> k < nz ->
    forall o, In o (assemble_ops op_eqb (stack_ops (stack_grid nx ny nz)) [cell_op i j k]) <->
              exists i' j' k', i' < nx /\ j' < ny /\ k' < nz /\ o = cell_op i' j' k' /\ (i', j', k') <> (i, j, k).

(** chopping an addressed operation changes the chop list of that operation and of no other *)
Definition C19_chop_frame_stmt : Prop :=
  forall (A : Type) (eqb : A -> A -> bool), (forall a b, eqb a b = true <-> a = b) ->
  forall (st : list (A * list nat)) o axis,
    map fst (chop_op eqb st o axis) = map fst st /\
    (forall p, In p st -> fst p <> o -> In p (chop_op eqb st o axis)) /\
    (forall p, In p st -> fst p = o -> In (fst p, snd p ++ [axis]) (chop_op eqb st o axis)) /\
    (forall q, In q (chop_op eqb st o axis) -> fst q <> o -> In q st).

(** ** proofs *)
Theorem C19_grid_index : C19_grid_index_stmt.
Proof.
  intros nx ny nz. split; [intros; apply grid_index; assumption|].
  split; [intros; apply grid_index_out; assumption|]. exact (grid_dims nx ny nz).
Qed.

Theorem C19_operations : C19_operations_stmt.
Proof.
  intros nx ny nz. split; [apply stack_ops_cells|]. split; [apply stack_ops_NoDup | apply stack_ops_length].
Qed.

Theorem C19_slice : C19_slice_stmt.
Proof.
  intros nx ny nz axis idx Ha n. split.
  - intro Hi. exists (slice_spec nx ny nz axis (norm_index n idx)).
    assert (0 < n) as Hn by (unfold n in *; lia).
    split; [apply get_slice_valid; assumption|].
    split; [apply slice_spec_NoDup|].
    split; [intro o; apply slice_spec_In; [exact Ha | apply norm_index_lt; exact Hn]|].
    rewrite slice_spec_length. unfold n. destruct axis as [|[|[|axis]]]; simpl; lia.
  - intros Hx Hy Hz Hi. apply get_slice_invalid; assumption.
Qed.

Theorem C19_slice_generic : C19_slice_generic_stmt.
Proof.
  intros A g. split; [intros i H; apply get_slice0_generic; exact H|].
  split; [intros j H; apply get_slice1_generic; exact H | intro idx; reflexivity].
Qed.

Theorem C19_core_shell_split : C19_core_shell_split_stmt.
Proof. intros A ops n. exact (core_shell_partition ops n). Qed.

Ltac finite_forall tab chk :=
  let H := fresh "H" in
  assert (H : forallb chk tab = true) by (vm_compute; reflexivity);
  rewrite forallb_forall in H.

Theorem C19_core_shell_sketches : C19_core_shell_sketches_stmt.
Proof. finite_forall round_sketches sketch_ok. intros e He. apply sketch_ok_spec. exact (H e He). Qed.

Theorem C19_core_shell_shapes : C19_core_shell_shapes_stmt.
Proof. finite_forall round_lofted lofted_ok. intros e He. apply lofted_ok_spec. exact (H e He). Qed.

Theorem C19_core_shell_solids : C19_core_shell_solids_stmt.
Proof. finite_forall round_solids solid_ok. intros e He. apply solid_ok_spec. exact (H e He). Qed.

Theorem C19_tables_domain : C19_tables_domain_stmt.
Proof. vm_compute. repeat split; reflexivity. Qed.

Theorem C19_core_shell_after_mirror : C19_core_shell_after_mirror_stmt.
Proof.
  intros ts fresh faces n Hd Hf sh. split.
  - exact (core_shell_after_mirror ts fresh faces n Hd Hf).
  - intro He. exact (core_by_identity_even ts fresh faces n Hd Hf He).
Qed.

Theorem C19_core_by_identity_refuted : C19_core_by_identity_refuted_stmt.
Proof.
  destruct core_by_identity_refuted as [H1 H2].
  split; [exact H1|]. split; [exact core_by_identity_odd | exact H2].
Qed.

(** the hypotheses are satisfiable: the miniature cylinder, one mirror *)
Example C19_mirror_example :
  distinctb mini_faces = true /\ fresh_tops mini_fresh mini_faces = true /\
  Nat.even (mirrors [SMove; SMirror; SMirror]) = true /\ Nat.even (mirrors [SMirror]) = false.
Proof. vm_compute. repeat split. Qed.

Theorem C19_delete_exact : C19_delete_exact_stmt.
Proof. intros A eqb Heq ops d Hnd Hin. exact (delete_exact eqb Heq ops d Hnd Hin). Qed.

Theorem C19_delete_cell : C19_delete_cell_stmt.
Proof.
  intros nx ny nz i j k Hi Hj Hk o.
  rewrite (assemble_In op_eqb op_eqb_spec). rewrite stack_ops_cells. simpl. split.
  - intros [(i' & j' & k' & Hi' & Hj' & Hk' & ->) Hn]. exists i', j', k'. repeat split; try assumption.
    intro E. inversion E; subst. apply Hn. left. reflexivity.
  - intros (i' & j' & k' & Hi' & Hj' & Hk' & -> & Hne). split; [exists i', j', k'; auto|].
    intros [E|[]]. apply cell_op_inj in E. destruct E as (-> & -> & ->). apply Hne. reflexivity.
Qed.

Theorem C19_chop_frame : C19_chop_frame_stmt.
Proof. intros A eqb Heq st o axis. exact (chop_frame eqb Heq st o axis). Qed.

(** the hypotheses are satisfiable: a 2 x 3 x 2 stack, column 1, and its deletion *)
Example C19_slice_example :
  get_slice (stack_grid 2 3 2) 0 (-1)%Z
  = Some [cell_op 1 0 0; cell_op 1 1 0; cell_op 1 2 0; cell_op 1 0 1; cell_op 1 1 1; cell_op 1 2 1].
Proof. vm_compute. reflexivity. Qed.
Example C19_delete_example :
  In (cell_op 1 2 0) (stack_ops (stack_grid 2 3 2)) /\ NoDup (stack_ops (stack_grid 2 3 2)) /\
  (forall a b, op_eqb a b = true <-> a = b).
Proof.
  split; [vm_compute; tauto|]. split; [apply stack_ops_NoDup | exact op_eqb_spec].
Qed.

Print Assumptions C19_grid_index.
Print Assumptions C19_operations.
Print Assumptions C19_slice.
Print Assumptions C19_slice_generic.
Print Assumptions C19_core_shell_split.
Print Assumptions C19_core_shell_sketches.
Print Assumptions C19_core_shell_shapes.
Print Assumptions C19_core_shell_solids.
Print Assumptions C19_tables_domain.
Print Assumptions C19_core_shell_after_mirror.
Print Assumptions C19_core_by_identity_refuted.
Print Assumptions C19_delete_exact.
Print Assumptions C19_delete_cell.
Print Assumptions C19_chop_frame.
