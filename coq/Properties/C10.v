(** C10 - Face re-indexing and side/edge/corner addressing hit the intended geometry.

    The tables of Gen/C10/Tables.v are the real functions of /repo evaluated on their whole finite
    domain in this run; the specification is the reference hexahedron of Base/Hex.v. *)
From Coq Require Import List Bool Arith ZArith Reals.
From CB Require Import Base.Hex Base.Vec3 Model.OpAddr Model.FaceGeom Proofs.OpAddrFrame Proofs.FaceGeom.
From CB Require Model.OpFaceHist Proofs.OpFaceHist.
From CB Require Import Gen.C10.Tables.
Import ListNotations.
Open Scope nat_scope.

(** ** executable specifications *)
Definition nth4 (l : list nat) (j : nat) : nat := nth (j mod 4) l 9.

(** points/edges are permutations of 0..3 and the edge datum in slot j (originally between points
    e and e+1) still sits between the two points now in slots j and j+1 *)
Definition face_perm_ok (pe : list nat * list nat) : bool :=
  let '(p, e) := pe in
  (length p =? 4) && (length e =? 4) && same_set p [0; 1; 2; 3] && same_set e [0; 1; 2; 3]
  && forallb (fun j => same_set [nth4 p j; nth4 p (j + 1)] [nth4 e j; (nth4 e j + 1) mod 4]) [0; 1; 2; 3].
Definition keeps_cycle (p : list nat) : bool :=
  forallb (fun j => nth4 p (j + 1) =? (nth4 p j + 1) mod 4) [0; 1; 2; 3].
Definition reverses_cycle (p : list nat) : bool :=
  forallb (fun j => nth4 p (j + 1) =? (nth4 p j + 3) mod 4) [0; 1; 2; 3].

Definition pair_set_eqb (l : list (nat * nat)) (m : list (nat * nat)) : bool :=
  (length l =? length m)
  && forallb (fun x => existsb (fun y => pair_eqb (key (fst x) (snd x)) y) m) l
  && forallb (fun y => existsb (fun x => pair_eqb (key (fst x) (snd x)) y) l) m.

(** ** statements *)
Definition C10_invert_stmt : Prop :=
  forall q pe, In (q, pe) face_invert -> face_perm_ok pe = true /\ reverses_cycle (fst pe) = true.
Definition C10_shift_stmt : Prop :=
  forall q k pe, In (q, k, pe) face_shift -> face_perm_ok pe = true /\ keeps_cycle (fst pe) = true.
Definition C10_shift_mod4_stmt : Prop :=
  forall q k pe q' k' pe', In (q, k, pe) face_shift -> In (q', k', pe') face_shift ->
    (k mod 4 = k' mod 4)%Z -> pe = pe'.
Definition C10_reorient_first_stmt : Prop :=
  forall q c pe, In (q, c, pe) face_reorient ->
    face_perm_ok pe = true /\ keeps_cycle (fst pe) = true /\ nth 0 (fst pe) 9 = c.
Definition C10_invert_normal_stmt : Prop :=
  forall p0 p1 p2 p3 : vec,
    face_normal_raw p3 p2 p1 p0 = vopp (face_normal_raw p0 p1 p2 p3)
    /\ face_normal_raw p1 p2 p3 p0 = face_normal_raw p0 p1 p2 p3.
Definition C10_set_patch_stmt : Prop :=
  forall s qs, In (s, qs) tab_set_patch -> exists q, qs = [q] /\ is_side_cycle s q = true.
Definition C10_project_side_stmt : Prop :=
  forall s e p qs es vs, In (s, e, p, qs, es, vs) tab_project_side ->
    (exists q, qs = [q] /\ is_side_cycle s q = true)
    /\ pair_set_eqb es (if e then side_edges s else []) = true
    /\ (length vs =? length (if p then side_corners s else [])) && same_set vs (if p then side_corners s else []) = true.
Definition C10_project_edge_stmt : Prop :=
  forall a b ok es, In (a, b, ok, es) tab_project_edge -> is_edge a b = true ->
    ok = true /\ pair_set_eqb es [key a b] = true.
Definition C10_project_corner_stmt : Prop :=
  forall c vs, In (c, vs) tab_project_corner -> vs = [c].
Definition C10_side_edge_stmt : Prop :=
  forall i es n, In (i, es, n) tab_side_edge -> n = 1 /\ pair_set_eqb es [(i, i + 4)] = true /\ is_edge i (i + 4) = true.
Definition C10_face_edge_stmt : Prop :=
  forall w i es n, In (w, i, es, n) tab_face_edge ->
    n = 1 /\ pair_set_eqb es [key (4 * w + i) (4 * w + (i + 1) mod 4)] = true
    /\ is_edge (4 * w + i) (4 * w + (i + 1) mod 4) = true.
Definition C10_get_face_stmt : Prop :=
  forall s q, In (s, q) tab_get_face -> is_side_cycle s q = true.
(** the tables cover the whole domain *)
Definition C10_domain_stmt : Prop :=
  map fst tab_set_patch = sides /\ map fst tab_get_face = sides
  /\ map (fun x => fst (fst x)) tab_project_edge = list_prod corners corners
  /\ map fst tab_project_corner = corners
  /\ map (fun x => fst (fst x)) tab_side_edge = [0; 1; 2; 3]
  /\ map (fun x => fst (fst x)) tab_face_edge = list_prod [0; 1] [0; 1; 2; 3]
  /\ map (fun x => fst (fst (fst (fst (fst x))))) tab_project_side = flat_map (fun s => [s; s; s; s]) sides
  /\ length face_invert = 3 /\ length face_shift = 57 /\ length face_reorient = 36.

(** ** finite checks over the regenerated tables, lifted to [forall] *)
Ltac finite_forall tab chk :=
  let H := fresh "H" in
  assert (H : forallb chk tab = true) by (vm_compute; reflexivity);
  rewrite forallb_forall in H.

Theorem C10_invert : C10_invert_stmt.
Proof.
  finite_forall face_invert (fun x : nat * (list nat * list nat) => face_perm_ok (snd x) && reverses_cycle (fst (snd x))).
  intros q pe Hin. specialize (H _ Hin). simpl in H. apply andb_true_iff in H. exact H.
Qed.

Theorem C10_shift : C10_shift_stmt.
Proof.
  finite_forall face_shift (fun x : nat * Z * (list nat * list nat) => face_perm_ok (snd x) && keeps_cycle (fst (snd x))).
  intros q k pe Hin. specialize (H _ Hin). simpl in H. apply andb_true_iff in H. exact H.
Qed.

Definition pe_eqb (a b : list nat * list nat) : bool := list_eqb (fst a) (fst b) && list_eqb (snd a) (snd b).

Lemma list_eqb_eq l : forall m, list_eqb l m = true -> l = m.
Proof.
  unfold list_eqb. induction l as [|x l IH]; intros [|y m] H; simpl in *; try reflexivity; try discriminate.
  apply andb_true_iff in H. destruct H as [Hl H]. apply andb_true_iff in H. destruct H as [Hx H].
  apply Nat.eqb_eq in Hx. subst. f_equal. apply IH. rewrite Hl. exact H.
Qed.

Theorem C10_shift_mod4 : C10_shift_mod4_stmt.
Proof.
  finite_forall face_shift (fun x : nat * Z * (list nat * list nat) =>
    forallb (fun y : nat * Z * (list nat * list nat) =>
      negb (Z.eqb (snd (fst x) mod 4) (snd (fst y) mod 4)) || pe_eqb (snd x) (snd y)) face_shift).
  intros q k pe q' k' pe' H1 H2 Hk. specialize (H _ H1). rewrite forallb_forall in H. specialize (H _ H2).
  simpl in H. apply Z.eqb_eq in Hk. rewrite Hk in H. simpl in H.
  unfold pe_eqb in H. apply andb_true_iff in H. destruct H as [Ha Hb].
  apply list_eqb_eq in Ha, Hb. destruct pe, pe'. simpl in *. congruence.
Qed.

Theorem C10_reorient_first : C10_reorient_first_stmt.
Proof.
  finite_forall face_reorient (fun x : nat * nat * (list nat * list nat) =>
    face_perm_ok (snd x) && keeps_cycle (fst (snd x)) && (nth 0 (fst (snd x)) 9 =? snd (fst x))).
  intros q c pe Hin. specialize (H _ Hin). simpl in H.
  apply andb_true_iff in H. destruct H as [H H3]. apply andb_true_iff in H. destruct H as [H1 H2].
  apply Nat.eqb_eq in H3. auto.
Qed.

Theorem C10_invert_normal : C10_invert_normal_stmt.
Proof. intros p0 p1 p2 p3. split; [apply normal_reversed | apply normal_shifted]. Qed.

Theorem C10_set_patch : C10_set_patch_stmt.
Proof.
  finite_forall tab_set_patch (fun x : side * list (list nat) =>
    match snd x with [q] => is_side_cycle (fst x) q | _ => false end).
  intros s qs Hin. specialize (H _ Hin). simpl in H.
  destruct qs as [|q [|]]; try discriminate. exists q. auto.
Qed.

Theorem C10_project_side : C10_project_side_stmt.
Proof.
  finite_forall tab_project_side (fun x : side * bool * bool * list (list nat) * list (nat * nat) * list nat =>
    let '(s, e, p, qs, es, vs) := x in
    match qs with [q] => is_side_cycle s q | _ => false end
    && pair_set_eqb es (if e then side_edges s else [])
    && ((length vs =? length (if p then side_corners s else [])) && same_set vs (if p then side_corners s else []))).
  intros s e p qs es vs Hin. specialize (H _ Hin). simpl in H.
  apply andb_true_iff in H. destruct H as [H H3]. apply andb_true_iff in H. destruct H as [H1 H2].
  split; [|split; assumption].
  destruct qs as [|q [|]]; try discriminate. exists q. auto.
Qed.

Theorem C10_project_edge : C10_project_edge_stmt.
Proof.
  finite_forall tab_project_edge (fun x : nat * nat * bool * list (nat * nat) =>
    let '(a, b, ok, es) := x in negb (is_edge a b) || (ok && pair_set_eqb es [key a b])).
  intros a b ok es Hin He. specialize (H _ Hin). simpl in H. rewrite He in H. simpl in H.
  apply andb_true_iff in H. destruct H as [H1 H2]. destruct ok; [auto|discriminate].
Qed.

Theorem C10_project_corner : C10_project_corner_stmt.
Proof.
  finite_forall tab_project_corner (fun x : nat * list nat => list_eqb (snd x) [fst x]).
  intros c vs Hin. specialize (H _ Hin). simpl in H. apply list_eqb_eq in H. exact H.
Qed.

Theorem C10_side_edge : C10_side_edge_stmt.
Proof.
  finite_forall tab_side_edge (fun x : nat * list (nat * nat) * nat =>
    let '(i, es, n) := x in (n =? 1) && pair_set_eqb es [(i, i + 4)] && is_edge i (i + 4)).
  intros i es n Hin. specialize (H _ Hin). simpl in H.
  apply andb_true_iff in H. destruct H as [H H3]. apply andb_true_iff in H. destruct H as [H1 H2].
  apply Nat.eqb_eq in H1. auto.
Qed.

Theorem C10_face_edge : C10_face_edge_stmt.
Proof.
  finite_forall tab_face_edge (fun x : nat * nat * list (nat * nat) * nat =>
    let '(w, i, es, n) := x in
    (n =? 1) && pair_set_eqb es [key (4 * w + i) (4 * w + (i + 1) mod 4)]
    && is_edge (4 * w + i) (4 * w + (i + 1) mod 4)).
  intros w i es n Hin. specialize (H _ Hin). simpl in H.
  apply andb_true_iff in H. destruct H as [H H3]. apply andb_true_iff in H. destruct H as [H1 H2].
  apply Nat.eqb_eq in H1. auto.
Qed.

Theorem C10_get_face : C10_get_face_stmt.
Proof.
  finite_forall tab_get_face (fun x : side * list nat => is_side_cycle (fst x) (snd x)).
  intros s q Hin. exact (H _ Hin).
Qed.

Theorem C10_domain : C10_domain_stmt.
Proof. vm_compute. repeat split; reflexivity. Qed.

(** sequences of addressing calls: a call changes only the slot it addresses (model level; the
    model is tied to the code by the sequence correspondence of the check) *)
Theorem C10_frame :
  forall cs s s', steps s cs = Some s' ->
  (forall t, forallb (fun c => negb (touches_patch c t)) cs = true -> patch s' t = patch s t) /\
  (forall t, forallb (fun c => negb (touches_pface c t)) cs = true -> pface s' t = pface s t) /\
  (forall i j, forallb (fun c => negb (touches_pedge c i j)) cs = true -> pedge s' i j = pedge s i j) /\
  (forall i, forallb (fun c => negb (touches_pvert c i)) cs = true -> pvert s' i = pvert s i).
Proof. exact steps_frame. Qed.

Theorem C10_effect :
  (forall s sd n s', step s (SetPatch sd n) = Some s' -> patch s' sd = Some n) /\
  (forall s sd l e p s', step s (ProjectSide sd l e p) = Some s' -> pface s' sd = Some l) /\
  (forall s a b l s', step s (ProjectEdge a b l) = Some s' ->
     is_edge a b = true /\ pedge s' (fst (key a b)) (snd (key a b)) = add_label (pedge s (fst (key a b)) (snd (key a b))) l) /\
  (forall s c l s', step s (ProjectCorner c l) = Some s' -> c < 8 /\ pvert s' c = pvert s c ++ [l]).
Proof.
  repeat split.
  - apply step_effect_patch.
  - apply step_effect_side_face.
  - eapply step_effect_edge; eassumption.
  - eapply step_effect_edge; eassumption.
  - eapply step_effect_corner; eassumption.
  - eapply step_effect_corner; eassumption.
Qed.

(** ** sequences of face calls (any length, any shift counts) with side faces requested in between.
    The single-call behaviour of the history model Model/OpFaceHist.v is the tabulated behaviour of
    the code (whole table), ... *)
Definition C10_history_model_is_table_stmt : Prop :=
  (forall q pe, In (q, pe) face_invert ->
     pe = (OpFaceHist.invert_pts [0; 1; 2; 3], OpFaceHist.invert_eds [0; 1; 2; 3])) /\
  (forall q k pe, In (q, k, pe) face_shift ->
     pe = (OpFaceHist.shift_list k [0; 1; 2; 3], OpFaceHist.shift_list k [0; 1; 2; 3])) /\
  (forall q c pe, In (q, c, pe) face_reorient ->
     pe = (OpFaceHist.reorient_list c [0; 1; 2; 3], OpFaceHist.reorient_list c [0; 1; 2; 3])).

Theorem C10_history_model_is_table : C10_history_model_is_table_stmt.
Proof.
  split; [|split].
  - finite_forall face_invert (fun x : nat * (list nat * list nat) =>
      pe_eqb (snd x) (OpFaceHist.invert_pts [0; 1; 2; 3], OpFaceHist.invert_eds [0; 1; 2; 3])).
    intros q pe Hin. specialize (H _ Hin). simpl in H. unfold pe_eqb in H. apply andb_true_iff in H.
    destruct H as [Ha Hb]. apply list_eqb_eq in Ha, Hb. destruct pe. simpl in *. subst. reflexivity.
  - finite_forall face_shift (fun x : nat * Z * (list nat * list nat) =>
      pe_eqb (snd x) (OpFaceHist.shift_list (snd (fst x)) [0; 1; 2; 3], OpFaceHist.shift_list (snd (fst x)) [0; 1; 2; 3])).
    intros q k pe Hin. specialize (H _ Hin). simpl in H. unfold pe_eqb in H. apply andb_true_iff in H.
    destruct H as [Ha Hb]. apply list_eqb_eq in Ha, Hb. destruct pe. simpl in *. subst. reflexivity.
  - finite_forall face_reorient (fun x : nat * nat * (list nat * list nat) =>
      pe_eqb (snd x) (OpFaceHist.reorient_list (snd (fst x)) [0; 1; 2; 3], OpFaceHist.reorient_list (snd (fst x)) [0; 1; 2; 3])).
    intros q c pe Hin. specialize (H _ Hin). simpl in H. unfold pe_eqb in H. apply andb_true_iff in H.
    destruct H as [Ha Hb]. apply list_eqb_eq in Ha, Hb. destruct pe. simpl in *. subst. reflexivity.
Qed.

(** ... and for EVERY history each face still holds its own four points, every face edge still joins
    the two points it joined at the start, and every side face requested at any moment consists of
    the four points sitting at that side's corners at that moment. *)
Definition C10_history_stmt : Prop :=
  forall cs : list OpFaceHist.fcall,
    OpFaceHist.state_ok (snd (OpFaceHist.frun OpFaceHist.finit cs)) = true /\
    OpFaceHist.obs_ok (snd (OpFaceHist.frun OpFaceHist.finit cs)) = true /\
    forall sd, fst (OpFaceHist.frun OpFaceHist.finit (cs ++ [OpFaceHist.GetFace sd])) =
               fst (OpFaceHist.frun OpFaceHist.finit cs)
               ++ [OpFaceHist.face_obs (snd (OpFaceHist.frun OpFaceHist.finit cs)) sd].

Theorem C10_history : C10_history_stmt.
Proof.
  intro cs. split; [exact (OpFaceHist.history_state_ok cs) | split; [exact (OpFaceHist.history_obs_ok cs) |]].
  intro sd. exact (OpFaceHist.get_face_is_current cs sd).
Qed.

Example C10_history_example :
  OpFaceHist.frun OpFaceHist.finit
    [OpFaceHist.FShift true 1; OpFaceHist.GetFace Top; OpFaceHist.FInvert false; OpFaceHist.OpInvert; OpFaceHist.GetFace Front]
  = ([[7; 4; 5; 6]; [7; 4; 3; 2]],
     {| OpFaceHist.bpts := [7; 4; 5; 6]; OpFaceHist.tpts := [3; 2; 1; 0];
        OpFaceHist.beds := [17; 14; 15; 16]; OpFaceHist.teds := [12; 11; 10; 13] |}).
Proof. vm_compute. reflexivity. Qed.

Print Assumptions C10_invert.
Print Assumptions C10_shift.
Print Assumptions C10_shift_mod4.
Print Assumptions C10_reorient_first.
Print Assumptions C10_invert_normal.
Print Assumptions C10_set_patch.
Print Assumptions C10_project_side.
Print Assumptions C10_project_edge.
Print Assumptions C10_project_corner.
Print Assumptions C10_side_edge.
Print Assumptions C10_face_edge.
Print Assumptions C10_get_face.
Print Assumptions C10_domain.
Print Assumptions C10_frame.
Print Assumptions C10_effect.
Print Assumptions C10_history_model_is_table.
Print Assumptions C10_history.
