(** C01 - Blocks that share an edge always agree on its cell count.

    Same model as C02 (Model/Propagate.v).  "Shared edge" = wires of different blocks joining the same
    two vertices, in either direction (the model's [coincident], which the correspondence shows to be
    exactly what BlockList.update_neighbours collects). *)
From Coq Require Import List Bool Arith.
From CB Require Import Model.Propagate Proofs.PropagateBasics Proofs.PropagateTerm Proofs.PropagateInv
  Proofs.PropagateInit Proofs.PropagateShort Proofs.PropagateFinal.
Import ListNotations.

(** coincidence is complete and symmetric: every wire of another block with the same end vertices is
    in the coincident set, and vice versa *)
Definition C01_coincident_complete_stmt : Prop :=
  forall bs w c,
    (In c (coin_set bs w) <->
       In c (all_wires (nblocks bs)) /\ w_blk w <> w_blk c /\
       (ends bs w = ends bs c \/ ends bs w = swap (ends bs c)))
    /\ (coincident bs w c = true -> coincident bs c w = true).

Theorem C01_coincident_complete : C01_coincident_complete_stmt.
Proof.
  intros bs w c. split.
  - rewrite in_coin_set, coincident_iff, same_ends_iff. unfold vw. tauto.
  - apply coincident_sym.
Qed.

(** whenever writing succeeds: the four parallel edges of every block carry the written count, and
    every edge shared by several blocks carries the same count in each of them *)
Definition C01_shared_edges_agree_stmt : Prop :=
  forall bs o_coin o_nbrs cs ws,
    oracle_ok bs o_coin o_nbrs = true -> run bs o_coin o_nbrs = Ok cs ws ->
    exists s,
      cs = map (fun b => map (written bs s) (axes_of_block b)) (seq 0 (nblocks bs)) /\
      ws = map (fun b => map (wcount s) (flat_map wires_of_axis (axes_of_block b))) (seq 0 (nblocks bs)) /\
      (forall x w, In x (all_axes (nblocks bs)) -> In w (wires_of_axis x) -> wcount s w = written bs s x) /\
      (forall w c, In w (all_wires (nblocks bs)) -> In c (all_wires (nblocks bs)) ->
                   coincident bs w c = true -> wcount s c = wcount s w).

Theorem C01_shared_edges_agree : C01_shared_edges_agree_stmt.
Proof.
  intros bs oc on cs ws K R. destruct (run_ok_inv bs oc on cs ws K R) as (s & E1 & E2 & X1 & X2 & _).
  exists s. auto.
Qed.

(** whenever writing succeeds, wires of different blocks on the same two vertices carry the same
    sequence of sections (counts per section), reversed when the wires run in opposite directions
    (the repaired consistency check compares the whole gradings; payloads: C04) *)
Definition C01_shared_edges_same_sections_stmt : Prop :=
  forall bs o_coin o_nbrs cs ws,
    oracle_ok bs o_coin o_nbrs = true -> run bs o_coin o_nbrs = Ok cs ws ->
    exists s, final bs o_coin o_nbrs = Some s /\
      forall w c, In w (all_wires (nblocks bs)) -> In c (all_wires (nblocks bs)) -> coincident bs w c = true ->
        g s w = (if aligned bs c w then g s c else rev (g s c)).

Lemma nl_eqb_eq l : forall m, nl_eqb l m = true -> l = m.
Proof.
  unfold nl_eqb. induction l as [|x l IH]; intros [|y m] H; simpl in *; try reflexivity; try discriminate.
  apply andb_true_iff in H. destruct H as [Hl H]. apply andb_true_iff in H. destruct H as [Hx H].
  apply Nat.eqb_eq in Hx. subst. f_equal. apply IH. rewrite Hl. exact H.
Qed.

Theorem C01_shared_edges_same_sections : C01_shared_edges_same_sections_stmt.
Proof.
  intros bs oc on cs ws K R. unfold run in R. rewrite K in R. simpl in R. unfold final.
  destruct (propagate bs oc on (fuel0 bs) (grade_blocks bs oc (init bs)) (seq 0 (nblocks bs))) as [s | |]; try discriminate.
  destruct (consistent bs s) eqn:C; [|discriminate]. exists s. split; [reflexivity|].
  intros w c Vw Vc Cc. apply consistent_ga in C. unfold gradings_agree in C. rewrite forallb_forall in C.
  destruct (vw_axis bs w Vw) as [Vx Hk]. specialize (C (w_axis w) Vx). unfold axis_agree in C.
  rewrite forallb_forall in C. assert (In w (wires_of_axis (w_axis w))) as Hw by (apply in_wires_of_axis; auto).
  specialize (C w Hw). rewrite forallb_forall in C. apply nl_eqb_eq. apply C. apply in_coin_set. auto.
Qed.

(** two chopped directions of one family that demand different counts: writing never succeeds, and
    when every family holds a chop the outcome is exactly the inconsistent-grading error *)
Definition C01_conflict_rejected_stmt : Prop :=
  forall bs o_coin o_nbrs, oracle_ok bs o_coin o_nbrs = true -> conflict bs ->
    (forall cs ws, run bs o_coin o_nbrs <> Ok cs ws) /\
    (nondegenerate bs = true ->
     (forall x, In x (all_axes (nblocks bs)) ->
        exists c, In c (all_axes (nblocks bs)) /\ chopped bs c = true /\ fam bs c x) ->
     run bs o_coin o_nbrs = Inconsistent).

Theorem C01_conflict_rejected : C01_conflict_rejected_stmt.
Proof.
  intros bs oc on K CF. destruct (oracle_ok_incl bs oc on K) as (A & B & B').
  pose proof (conflict_never_ok bs oc on A B K CF) as NOK. split; [exact NOK|].
  intros ND AF.
  pose proof (run_terminates bs oc on) as NT.
  pose proof (run_undefined_iff bs oc on A B B' ND K) as U.
  destruct (run bs oc on) eqn:R; try reflexivity.
  - exfalso. eapply NOK. reflexivity.
  - exfalso. destruct U as [U _]. destruct (U eq_refl) as (x & Vx & Hx).
    destruct (AF x Vx) as (c & Vc & Cc & F). eapply Hx; eauto.
  - congruence.
  - exfalso. unfold run in R. rewrite K in R. simpl in R.
    destruct (propagate bs oc on (fuel0 bs) (grade_blocks bs oc (init bs)) (seq 0 (nblocks bs))); try discriminate.
    destruct (consistent bs s); discriminate.
Qed.

(** non-vacuity: two adjacent boxes chopped 5 and 7 along the shared direction (the reconnaissance
    defect, written silently before the repair of the consistency check) *)
Definition ex_conflict : list blk :=
  [ {| verts := [0; 1; 2; 3; 4; 5; 6; 7]; uchops := [[2]; [5]; [2]] |};
    {| verts := [1; 8; 9; 2; 5; 10; 11; 6]; uchops := [[2]; [7]; []] |} ].

Example C01_example :
  oracle_ok ex_conflict (o_coin_ins ex_conflict) (o_nbrs_ins ex_conflict) = true /\
  nondegenerate ex_conflict = true /\
  run ex_conflict (o_coin_ins ex_conflict) (o_nbrs_ins ex_conflict) = Inconsistent.
Proof. vm_compute. repeat split; reflexivity. Qed.

Example C01_example_conflict : conflict ex_conflict.
Proof.
  exists (0, 1), (1, 1). unfold ex_conflict.
  repeat split; try (apply in_all_axes; simpl; auto with arith); try reflexivity.
  - eapply fam_step; [apply fam_refl | apply in_all_axes; simpl; auto with arith | vm_compute; reflexivity].
  - vm_compute. discriminate.
Qed.

Print Assumptions C01_coincident_complete.
Print Assumptions C01_shared_edges_agree.
Print Assumptions C01_conflict_rejected.
Print Assumptions C01_shared_edges_same_sections.
